(** C10 - tree view, text view, to_dict, to_json and pretty() describe the same
    changes.  Final statements only.

    The presentations are functions of the result tree = a list of [entry]
    (Diff/Tree.v): text view [text_view] (Diff/TextView.v), [to_dict] with
    view_override, [pretty], [to_json] (Views/ViewsModel.v).  Statements over an
    arbitrary entry list [es] hold for every tree (ordered mode, ignore_order,
    report_repetition, any alignment / pairing); the [run_diff] statements are
    for the ordered model with every opcode oracle. *)
From Coq Require Import List ZArith NArith Bool Arith String.
Import ListNotations.
From DD Require Import Base.PyStr Base.Value Path.PathModel Diff.Tree Diff.DiffModel Diff.TextView
  Views.ViewsModel Views.ViewsChains Views.ViewsProofs Hash.HashModel DiffIO.DiffIOModel Views.ViewsIO Views.ViewsIOChains
  Views.ViewsRep Delta.DeltaModel Delta.DeltaIO Views.ViewsDelta Views.ViewsDeltaProofs
  Views.ViewsJsonMap Views.ViewsJsonMapProofs Views.ViewsLevel Views.ViewsLevelProofs
  Views.ViewsJsonExact Views.ViewsRep2 Views.ViewsRepFlat Views.ViewsRepInput.
From DD Require Hash.HashProofsC07 Hash.HexHash.
From DD Require Import Diff.DiffFaithful.

(* ---- tree view vs text view ---------------------------------------- *)

(* same (category, path) pairs, in the same order and multiplicity, as the
   levels of the tree that the verbose level shows ([visible]: values_changed
   from verbose_level 1, iterable_item_moved at 2 only; [epath]: the level's
   path, for a set item the set's path followed by the bracketed member) *)
Theorem C10_text_same_pairs :
  forall verbose es, map tkey (text_view verbose es) = map ekey (filter (visible verbose) es).
Proof. exact text_same_pairs. Qed.
Print Assumptions C10_text_same_pairs.

(* at verbose_level 2 nothing but repetition_change (reported from
   additional['repetition'], outside the entry list) is hidden *)
Theorem C10_text_all_visible_at_2 :
  forall e, visible 2 e = negb (rkind_eqb (ekind e) KRepetition).
Proof. exact visible_2. Qed.
Print Assumptions C10_text_all_visible_at_2.

(* ... with the same values: each text entry shows the leaf objects of its
   level ([describes]: old/new value, types, new_path exactly when the t2-side
   path is spelled differently, diff text; below verbose_level 2 exactly the
   documented projection).  [shape_ok]: the level has the leaf objects of its
   report type. *)
Theorem C10_text_is_projection :
  forall verbose es, Forall shape_ok es ->
    Forall2 (describes verbose) (filter (visible verbose) es) (text_view verbose es).
Proof. exact text_is_projection. Qed.
Print Assumptions C10_text_is_projection.

(* ... unconditionally for every ordered run (shape_ok follows from C04) *)
Theorem C10_run_diff_text_is_projection :
  forall hatom udiff ops skip excl c verbose t1 t2,
    thr_num c <= thr_den c -> wf t1 = true -> wf t2 = true ->
    Forall2 (describes verbose)
            (filter (visible verbose) (fst (run_diff hatom udiff ops skip excl c t1 t2)))
            (text_view verbose (fst (run_diff hatom udiff ops skip excl c t1 t2))).
Proof. exact run_diff_text_projection. Qed.
Print Assumptions C10_run_diff_text_is_projection.

(* ---- to_dict(view_override) ----------------------------------------- *)

(* _get_view_results re-runs mutual_add_removes on the stored tree: harmless *)
Theorem C10_mutual_idempotent : forall es, mutual (mutual es) = mutual es.
Proof. exact mutual_idem. Qed.
Print Assumptions C10_mutual_idempotent.

(* on the tree a run stored (raw tree after its first _get_view_results),
   to_dict(view_override=v) is what a run with view=v shows, whatever the
   object's own view *)
Theorem C10_to_dict_override :
  forall (rep : bool) own ov verbose raw,
    let tree := if rep then raw else mutual raw in
    to_dict rep own ov verbose tree = direct_view (match ov with Some v => v | None => own end) verbose tree.
Proof. exact to_dict_override. Qed.
Print Assumptions C10_to_dict_override.

(* ---- pretty() ------------------------------------------------------- *)

(* one statement per level, in order; each is the level's template text and,
   unless the level is an iterable_item_moved, is non-empty and names the
   level's path (for a set item: the path of the set) *)
Theorem C10_pretty_one_per_change :
  forall verbose es,
    List.length (pretty verbose es) = List.length es /\
    Forall2 (fun e s => s = pretty_of verbose e /\
                        (ekind e <> KIterMoved -> s <> []) /\
                        (ekind e <> KIterMoved -> contains_sub (render (ep1 e)) s = true))
            es (pretty verbose es).
Proof. intros. split; [apply pretty_length|apply pretty_per_change]. Qed.
Print Assumptions C10_pretty_one_per_change.

(* every statement of a level that is not an iterable_item_moved names the
   level's path; former finding C10-pretty-set-item-root (fixed in 9738d10):
   DeepDiff({'a': {1, 2}}, {'a': {1, 3}}) now prints root['a'][3] *)
Theorem C10_pretty_names_path :
  forall verbose e, ekind e <> KIterMoved ->
    contains_sub (render (ep1 e)) (pretty_of verbose e) = true.
Proof. exact pretty_names_path. Qed.
Print Assumptions C10_pretty_names_path.

Theorem C10_pretty_set_item_example :
  exists e, In e (w_run w_set_t1 w_set_t2 (fun _ _ _ => [])) /\ ekind e = KSetAdd /\
            pretty_of 1 e = s2p "Item root['a'][3] added to set.".
Proof. exact pretty_set_item_example. Qed.
Print Assumptions C10_pretty_set_item_example.

(* "every statement is non-empty" is false of the model for a level of type
   iterable_item_moved (no template); such levels need iterable_compare_func,
   which is outside this property's quantifier *)
Theorem C10_pretty_nonempty_refuted :
  forall verbose, exists e, pretty verbose [e] = [[]].
Proof. intros. exists (mkEntry KIterMoved [] [] None None None). reflexivity. Qed.
Print Assumptions C10_pretty_nonempty_refuted.

Theorem C10_pretty_nonempty_partial :
  forall verbose e, ekind e <> KIterMoved -> pretty_of verbose e <> [].
Proof. exact pretty_nonempty. Qed.
Print Assumptions C10_pretty_nonempty_partial.

(* ---- to_json -------------------------------------------------------- *)

(* when to_json succeeds its document is an object whose member names are the
   categories of the text view, and under each category the member names (or
   list elements) are the paths of the text view's entries of that category *)
Theorem C10_json_same_keys :
  forall (rep : bool) verbose tree j,
    to_json rep verbose tree = Some j ->
    let ts := text_view verbose (if rep then tree else mutual tree) in
    exists cats, j = JObj cats /\
      (forall name, In name (map fst cats) <-> exists t, In t ts /\ cat_name (tcat t) = name) /\
      (forall c payload, In (cat_name c, payload) cats ->
         forall p, In p (jmembers payload) <-> exists t, In t ts /\ tcat t = c /\ tpath t = p).
Proof. exact to_json_same_keys. Qed.
Print Assumptions C10_json_same_keys.

(* "to_json succeeds for values of the types in the convertor table" is false:
   finding C10-to_json-non-utf8-bytes, DeepDiff([b'\xff'], [b'a']).to_json() *)
Theorem C10_json_total_refuted :
  w_run w_bytes_t1 w_bytes_t2 w_bytes_ops <> [] /\
  Forall (fun e => type_of (opt_val (et1 e)) = TBytes /\ type_of (opt_val (et2 e)) = TBytes)
         (w_run w_bytes_t1 w_bytes_t2 w_bytes_ops) /\
  to_json false 1 (w_run w_bytes_t1 w_bytes_t2 w_bytes_ops) = None.
Proof. exact to_json_total_refuted. Qed.
Print Assumptions C10_json_total_refuted.

(* [json_ok]: no frozenset (not a row of the table), every bytes object valid
   UTF-8, no bytes dict key *)
Theorem C10_json_total_partial :
  forall (rep : bool) verbose tree,
    Forall entry_json_ok (if rep then tree else mutual tree) -> to_json rep verbose tree <> None.
Proof. exact to_json_total. Qed.
Print Assumptions C10_json_total_partial.

(* ---- level chains ---------------------------------------------------- *)

(* every node above the leaf of every reported level exists in both inputs
   (for a set item: the set too); both key sequences have the same length *)
Theorem C10_chains_ok :
  forall hatom udiff ops skip excl c t1 t2,
    wf t1 = true -> wf t2 = true ->
    forall e, In e (fst (run_diff hatom udiff ops skip excl c t1 t2)) -> chain_ok t1 t2 e.
Proof. exact run_diff_chains. Qed.
Print Assumptions C10_chains_ok.

(* what the nodes are: depth 0 holds the original inputs, and the node at depth
   n+1 is the item of the node at depth n named by the n-th child relationship *)
Theorem C10_chain_root : forall r p, resolve r (firstn 0 p) = Some r.
Proof. intros. reflexivity. Qed.
Print Assumptions C10_chain_root.

Theorem C10_chain_link :
  forall r p n k, nth_error p n = Some k ->
    resolve r (firstn (S n) p) =
    match resolve r (firstn n p) with Some v => get_item v (key_atom k) | None => None end.
Proof. exact chain_link. Qed.
Print Assumptions C10_chain_link.

(* with ignore_order=True, report_repetition=True the t2-side key sequence of a
   level below a list with repeated items does not lead to the level's t2
   object (finding C10-repetition-t2-index), in the ignore-order model
   DiffIO/DiffIOModel.v fed the pairing the implementation uses:
   [3, 1, 2] -> [4, 4, 3] (values_changed root[2], t2 = 4, t2[2] = 3) and
   [4, 4, 1] -> [1, 4, 2] (repetition_change root[0], t2 = 4, t2[0] = 1).
   The guarded statements are C10_io_chains_ok (report_repetition=False) and
   C10_io_repetition_chains_partial (no repeated items). *)
Theorem C10_io_repetition_leaf_refuted :
  (exists e, In e (w_io_run (fun _ => [(0, 2)]) (ints [3; 1; 2]%Z) (ints [4; 4; 3]%Z)) /\
             ekind e = KValue /\ et2 e = Some (VAtom (AInt 4)) /\
             resolve (ints [4; 4; 3]%Z) (ep2 e) = Some (VAtom (AInt 3))) /\
  (exists e, In e (w_io_run (fun _ => []) (ints [4; 4; 1]%Z) (ints [1; 4; 2]%Z)) /\
             ekind e = KRepetition /\ et2 e = Some (VAtom (AInt 4)) /\
             resolve (ints [1; 4; 2]%Z) (ep2 e) = Some (VAtom (AInt 1))).
Proof. split; [exact io_rep_paired_leaf_refuted|exact io_rep_change_leaf_refuted]. Qed.
Print Assumptions C10_io_repetition_leaf_refuted.

(* ---- ignore_order: chains, leaves, text view ------------------------------ *)

(* ignore_order=True, report_repetition=False, EVERY pairing oracle (valid or
   not), hasher, skip/excl, cfg: every node above the leaf of every level exists
   in both inputs, and (for the levels diff_io itself reports; a values_changed
   made by mutual_add_removes takes its t2 object from the added level it
   absorbs) the leaf objects are the sub-objects of the inputs named by ep1 / ep2
   ([leaf_ok]; for a set item: a member of the set the path names) *)
Theorem C10_io_chains_ok :
  forall H udiff skip excl c pairs t1 t2,
    wf t1 = true -> wf t2 = true ->
    forall e, In e (fst (run_diff_io H udiff skip excl c false pairs t1 t2)) ->
      chain_ok t1 t2 e /\
      (In e (fst (diff_io H udiff skip excl c false pairs t1 t2 [] [])) -> leaf_ok t1 t2 e).
Proof. exact run_io_chains. Qed.
Print Assumptions C10_io_chains_ok.

(* ... hence the text view of every such run is the documented projection, no guard *)
Theorem C10_io_text_is_projection :
  forall H udiff skip excl c pairs verbose t1 t2,
    wf t1 = true -> wf t2 = true ->
    Forall2 (describes verbose)
            (filter (visible verbose) (fst (run_diff_io H udiff skip excl c false pairs t1 t2)))
            (text_view verbose (fst (run_diff_io H udiff skip excl c false pairs t1 t2))).
Proof. exact run_io_text_projection. Qed.
Print Assumptions C10_io_text_is_projection.

(* report_repetition=True: the guarded counterpart of C10_io_repetition_leaf_refuted.
   [norep]: no list / tuple anywhere in the input holds two items with the same hash *)
Theorem C10_io_repetition_chains_partial :
  forall H udiff skip excl c pairs t1 t2,
    wf t1 = true -> wf t2 = true ->
    norep H c true t1 = true -> norep H c true t2 = true ->
    forall e, In e (fst (run_diff_io H udiff skip excl c true pairs t1 t2)) ->
      chain_ok t1 t2 e /\ leaf_ok t1 t2 e.
Proof. exact run_io_rep_chains. Qed.
Print Assumptions C10_io_repetition_chains_partial.

(* ---- repetition_change in the text view and to_json ----------------------- *)

(* one record per repetition_change level, in order, under the level's path,
   with value = the level's t1 and the indexes of the record stored on that level *)
Theorem C10_repetition_text :
  forall es rs,
    List.length rs = List.length (filter is_rep es) ->
    Forall2 (fun e t => trpath t = render (ep1 e) /\ trval t = opt_val (et1 e)) (filter is_rep es) (rep_view es rs) /\
    Forall2 (fun r t => trold t = snd (fst r) /\ trnew t = snd r) rs (rep_view es rs).
Proof. exact rep_view_spec. Qed.
Print Assumptions C10_repetition_text.

(* the complete to_json document: categories = those of the text view plus
   repetition_change iff there is such a level; member names = the paths *)
Theorem C10_json_full_same_keys :
  forall verbose ts reps j,
    json_full verbose ts reps = Some j ->
    exists cats, j = JObj cats /\
      (forall name, In name (map fst cats) <->
         (exists t, In t ts /\ cat_name (tcat t) = name) \/ (name = rep_name /\ reps <> [])) /\
      (forall c payload, In (cat_name c, payload) cats ->
         forall p, In p (jmembers payload) <-> exists t, In t ts /\ tcat t = c /\ tpath t = p) /\
      (forall payload, In (rep_name, payload) cats ->
         forall p, In p (jmembers payload) <-> exists t, In t reps /\ trpath t = p).
Proof. exact json_full_same_keys. Qed.
Print Assumptions C10_json_full_same_keys.

(* ==================================================================== *)
(* round 3                                                               *)
(* ==================================================================== *)

(* ---- ignore_order + report_repetition WITHOUT the guard norep ---------- *)

(* every level of every run (every pairing oracle, hasher, skip/excl, cfg) has
   TRUE key sequences q1, q2 backed by the inputs: all nodes above the leaf exist
   in both inputs and the leaf objects are the sub-objects named by q1 / q2.
   They differ from the reported ones at list indexes only ([ksim]: same
   length, same dict keys), and on the t1 side every differing index names an
   item of the same list with the same hash ([hsim]) *)
Theorem C10_io_repetition_backed :
  forall H udiff skip excl c pairs t1 t2,
    wf t1 = true -> wf t2 = true ->
    forall e, In e (fst (run_diff_io H udiff skip excl c true pairs t1 t2)) ->
      exists q1 q2, hsim H c t1 q1 (ep1 e) /\ ksim q2 (ep2 e) /\
        chain_ok t1 t2 (repath e q1 q2) /\ leaf_ok t1 t2 (repath e q1 q2).
Proof. exact run_io_rep_backed. Qed.
Print Assumptions C10_io_repetition_backed.

(* the [repetition] record of each repetition_change level, pairwise and in
   order with the levels: old_indexes / new_indexes are exactly the positions
   of the items carrying the level's hash in the two lists (at the true parent
   paths), both non-empty and of different length; the level sits at t1's first
   index and shows the first items *)
Theorem C10_io_repetition_payload :
  forall H udiff skip excl c pairs t1 t2,
    wf t1 = true -> wf t2 = true ->
    Forall2 (rep_rec_ok H c t1 t2)
      (filter is_rep (fst (run_diff_io H udiff skip excl c true pairs t1 t2)))
      (snd (run_diff_io H udiff skip excl c true pairs t1 t2)).
Proof. exact run_io_rep_payload. Qed.
Print Assumptions C10_io_repetition_payload.

(* t1 side exact when equal hashes of sibling items mean equal items ([sibinj];
   true of a collision-free hasher): the REPORTED t1-side key sequence is backed *)
Theorem C10_io_repetition_t1_exact :
  forall H udiff skip excl c pairs t1 t2,
    wf t1 = true -> wf t2 = true -> sibinj H c t1 = true ->
    forall e, In e (fst (run_diff_io H udiff skip excl c true pairs t1 t2)) ->
      exists q2, ksim q2 (ep2 e) /\
        chain_ok t1 t2 (repath e (ep1 e) q2) /\ leaf_ok t1 t2 (repath e (ep1 e) q2).
Proof. exact run_io_rep_t1_exact. Qed.
Print Assumptions C10_io_repetition_t1_exact.

(* ... and false without it: a hasher sending everything to one hash *)
Theorem C10_io_repetition_t1_refuted :
  exists e, In e (fst (run_diff_io (fun _ => []) (fun _ _ => []) (fun _ => false) (fun _ => false)
                         (mkCfg false 33 100 true) true (fun _ => [])
                         (VList [VAtom (AInt 1); VAtom (AInt 2)]) (VList []))) /\
            ekind e = KIterRem /\ et1 e = Some (VAtom (AInt 1)) /\
            resolve (VList [VAtom (AInt 1); VAtom (AInt 2)]) (ep1 e) = Some (VAtom (AInt 2)).
Proof. exact rep_t1_refuted. Qed.
Print Assumptions C10_io_repetition_t1_refuted.

(* both sides exact under [aligned] (no list of t2 holds a hash twice; a hash
   common to two compared lists occurs once in t1's list; repeated REMOVED items
   are allowed) and [sibinj]: the statement of C10_io_repetition_chains_partial
   under a weaker guard ([norep] implies both) *)
Theorem C10_io_repetition_chains_aligned :
  forall H udiff skip excl c pairs t1 t2,
    wf t1 = true -> wf t2 = true -> aligned H c t1 t2 = true -> sibinj H c t1 = true ->
    forall e, In e (fst (run_diff_io H udiff skip excl c true pairs t1 t2)) ->
      chain_ok t1 t2 e /\ leaf_ok t1 t2 e.
Proof. exact run_io_rep_exact. Qed.
Print Assumptions C10_io_repetition_chains_aligned.

Theorem C10_norep_implies_aligned :
  forall H c t1 t2, norep H c true t1 = true -> norep H c true t2 = true ->
    aligned H c t1 t2 = true /\ sibinj H c t1 = true.
Proof. intros. split; [apply norep_aligned; assumption|apply norep_sibinj; assumption]. Qed.
Print Assumptions C10_norep_implies_aligned.

(* ... carried into the text view: the repetition_change category of a run has one
   record per level, in order, under the level's path, value = the level's t1,
   old_indexes / new_indexes = the positions of the level's hash in the two lists *)
Theorem C10_io_repetition_text_payload :
  forall H udiff skip excl c pairs t1 t2,
    wf t1 = true -> wf t2 = true ->
    let r := run_diff_io H udiff skip excl c true pairs t1 t2 in
    Forall2 (fun e t => trpath t = render (ep1 e) /\ trval t = opt_val (et1 e) /\
                        exists rc, rep_rec_ok H c t1 t2 e rc /\ trold t = rold rc /\ trnew t = rnew rc)
            (filter is_rep (fst r))
            (rep_view (fst r) (map (fun x => (rpath x, rold x, rnew x)) (snd r))).
Proof. exact run_io_rep_text_payload. Qed.
Print Assumptions C10_io_repetition_text_payload.

(* hence the text view of EVERY report_repetition run is the documented
   projection of its tree, no guard *)
Theorem C10_io_repetition_text_is_projection :
  forall H udiff skip excl c pairs verbose t1 t2,
    wf t1 = true -> wf t2 = true ->
    Forall2 (describes verbose)
            (filter (visible verbose) (fst (run_diff_io H udiff skip excl c true pairs t1 t2)))
            (text_view verbose (fst (run_diff_io H udiff skip excl c true pairs t1 t2))).
Proof. exact run_io_rep_text_projection. Qed.
Print Assumptions C10_io_repetition_text_is_projection.

(* ---- the delta view ---------------------------------------------------- *)

(* on a stored tree every view - text, tree, delta - is what a fresh run with
   that view shows, whatever the object's own view; the delta view IS
   to_delta / to_delta_io (Delta block) of the tree view, directed *)
Theorem C10_to_dict_override_delta :
  forall conv ops x own ov verbose raw,
    let tree := if c_rep x then raw else mutual raw in
    to_dict3 conv ops x own ov verbose tree =
    direct_view3 conv ops x (match ov with Some v => v | None => own end) verbose tree.
Proof. exact to_dict3_override. Qed.
Print Assumptions C10_to_dict_override_delta.

(* the delta view carries the same changes as the (verbose-2) text view: the
   i-th values_changed entries have the same path (printed there, parsed here)
   and the same new value, new_path on both or on neither; no old value *)
Theorem C10_delta_text_values :
  forall conv ops t1 t2 rec es, Forall shape_ok es ->
    Forall2 (fun t c => exists ks ks2, tpath t = render ks /\ vc_path c = norm ks /\ tnew t = Some (vc_new c) /\
                          ((tnewpath t = None /\ vc_new_path c = None) \/
                           (tnewpath t = Some (render ks2) /\ vc_new_path c = Some (norm ks2))))
            (in_cat CValue (text_view 2 es)) (d_val (to_delta conv false false ops t1 t2 es rec)) /\
    Forall (fun c => vc_old c = None) (d_val (to_delta conv false false ops t1 t2 es rec)).
Proof.
  intros. split; [apply delta_text_values; assumption|].
  pose proof (delta_val conv ops t1 t2 rec es) as F. induction F as [|e c l l' (_ & _ & O & _) _ IH]; constructor; assumption.
Qed.
Print Assumptions C10_delta_text_values.

Theorem C10_delta_text_types :
  forall conv ops t1 t2 rec es, Forall shape_ok es ->
    Forall2 (fun t c => exists ks, tpath t = render ks /\ tc_path c = norm ks /\
                          ttypes t = Some (tc_old_ty c, tc_new_ty c) /\
                          (tc_new c = None \/ tc_new c = tnew t))
            (in_cat CType (text_view 2 es)) (d_type (to_delta conv false false ops t1 t2 es rec)).
Proof. exact delta_text_types. Qed.
Print Assumptions C10_delta_text_types.

(* ... the values of a type change are omitted exactly when new_type(old_value) == new_value *)
Theorem C10_delta_type_values :
  forall conv ops t1 t2 rec es,
    Forall2 (dt_ok conv) (filter (is_kind KType) es) (d_type (to_delta conv false false ops t1 t2 es rec)).
Proof. exact delta_type. Qed.
Print Assumptions C10_delta_type_values.

Theorem C10_delta_text_dict_items :
  forall conv ops t1 t2 rec es, Forall shape_ok es ->
    Forall2 (fun t pv => exists ks, tpath t = render ks /\ fst pv = norm ks /\ tnew t = Some (snd pv))
            (in_cat CDictAdd (text_view 2 es)) (d_dadd (to_delta conv false false ops t1 t2 es rec)) /\
    Forall2 (fun t pv => exists ks, tpath t = render ks /\ fst pv = norm ks /\ told t = Some (snd pv))
            (in_cat CDictRem (text_view 2 es)) (d_drem (to_delta conv false false ops t1 t2 es rec)).
Proof. intros. split; [apply delta_text_dadd|apply delta_text_drem]; assumption. Qed.
Print Assumptions C10_delta_text_dict_items.

(* iterable items: the levels whose list has no recorded opcodes, in order (the
   text view shows all of them: [text_cat]); set items: grouped per set *)
Theorem C10_delta_iterable_items :
  forall conv ops t1 t2 rec es,
    Forall2 pv2 (filter (fun e => is_kind KIterAdd e && by_items rec e) es) (d_iadd (to_delta conv false false ops t1 t2 es rec)) /\
    Forall2 pv1 (filter (fun e => is_kind KIterRem e && by_items rec e) es) (d_irem (to_delta conv false false ops t1 t2 es rec)) /\
    map fst (d_ops (to_delta conv false false ops t1 t2 es rec)) = map norm rec.
Proof. intros. split; [apply delta_iadd|split; [apply delta_irem|apply delta_ops_paths]]. Qed.
Print Assumptions C10_delta_iterable_items.

Theorem C10_text_category_is_projection :
  forall verbose k c es, kind_cat k = Some c -> Forall shape_ok es ->
    Forall2 (describes verbose) (filter (fun e => is_kind k e && visible verbose e) es) (in_cat c (text_view verbose es)).
Proof. exact text_cat. Qed.
Print Assumptions C10_text_category_is_projection.

Theorem C10_delta_set_items :
  forall conv ops t1 t2 rec es p x,
    (In x (set_members p (d_sadd (to_delta conv false false ops t1 t2 es rec))) <->
     exists e, In e es /\ ekind e = KSetAdd /\ et2 e = Some (VAtom x) /\ norm (ep1 e) = p) /\
    (In x (set_members p (d_srem (to_delta conv false false ops t1 t2 es rec))) <->
     exists e, In e es /\ ekind e = KSetRem /\ et1 e = Some (VAtom x) /\ norm (ep1 e) = p).
Proof. intros. split; [apply delta_sadd|apply delta_srem]. Qed.
Print Assumptions C10_delta_set_items.

(* ignore_order: the index maps hold exactly the removed levels / the added
   levels and the new indexes of the repetition_change records *)
Theorem C10_delta_io_index_maps :
  forall conv t1 t2 es reps,
    (forall p i v, imap_get (pmap_get (io_removed (to_delta_io conv false false t1 t2 es reps)) p) i = Some v ->
       exists e, In e es /\ ekind e = KIterRem /\ norm (removelast (ep1 e)) = p /\ last_idx (ep1 e) = i /\ v = item_val e) /\
    (forall e, In e es -> ekind e = KIterRem ->
       imap_get (pmap_get (io_removed (to_delta_io conv false false t1 t2 es reps)) (norm (removelast (ep1 e)))) (last_idx (ep1 e)) <> None) /\
    (forall p i v, imap_get (pmap_get (io_added (to_delta_io conv false false t1 t2 es reps)) p) i = Some v ->
       (exists e, In e es /\ ekind e = KIterAdd /\ norm (removelast (ep1 e)) = p /\ last_idx (ep1 e) = i /\ v = item_val e) \/
       (exists e r, In e es /\ ekind e = KRepetition /\ In r reps /\ rpath r = ep1 e /\
                    norm (removelast (ep1 e)) = p /\ In i (rnew r) /\ v = oval (et1 e))).
Proof.
  intros. split; [intros; eapply io_removed_sound; eassumption|].
  split; [intros; apply io_removed_complete; assumption|intros; eapply io_added_sound; eassumption].
Qed.
Print Assumptions C10_delta_io_index_maps.

(* ---- to_json(default_mapping=...) --------------------------------------- *)

(* without default_mapping (None or {}) the table-driven model is the model of
   to_json() above: every theorem about to_json transfers *)
Theorem C10_json_mapping_default :
  forall iso n (dm : option table) rep verbose tree rs,
    dm = None \/ dm = Some [] ->
    to_json_m iso builtin dm (S (S n)) rep verbose tree rs = to_json_full rep verbose tree rs.
Proof. exact to_json_m_default. Qed.
Print Assumptions C10_json_mapping_default.

(* for EVERY convertor table: when the call succeeds the categories are those of
   the text view (+ repetition_change), the member names of every dict category
   are the paths, and a list category is what the SetOrdered row makes of the
   path list *)
Theorem C10_json_mapping_same_keys :
  forall iso t fuel verbose ts reps j,
    json_with iso t fuel verbose ts reps = Some j ->
    exists cats, j = JObj cats /\
      (forall name, In name (map fst cats) <->
         (exists x, In x ts /\ cat_name (tcat x) = name) \/ (name = rep_name /\ reps <> [])) /\
      (forall c payload, In (cat_name c, payload) cats -> list_cat verbose c = false ->
         forall p, In p (jmembers payload) <-> exists x, In x ts /\ tcat x = c /\ tpath x = p) /\
      (forall c payload, In (cat_name c, payload) cats -> list_cat verbose c = true ->
         hook iso t fuel (HOrdered (set_first [] (map tpath (in_cat c ts)))) = Some payload) /\
      (forall payload, In (rep_name, payload) cats ->
         forall p, In p (jmembers payload) <-> exists x, In x reps /\ trpath x = p).
Proof. intros iso t fuel verbose ts reps j. unfold json_with. apply json_g_same_keys. Qed.
Print Assumptions C10_json_mapping_same_keys.

(* to_json / json_dumps is a function of its own arguments (tree, mapping): in
   EVERY history of calls every result is the result of the same call on a fresh
   interpreter, and the module-level table is never changed *)
Theorem C10_json_history_independent :
  forall iso fuel cs,
    fst (run_calls iso convertor_default fuel builtin cs) = map (pure_call iso fuel) cs /\
    snd (run_calls iso convertor_default fuel builtin cs) = builtin.
Proof. intros. split; [apply run_calls_pure|apply run_calls_state]. Qed.
Print Assumptions C10_json_history_independent.

(* false of a json_convertor_default that updates the module-level table in
   place (the seeded change C10-6): json_dumps([b'\xff']) raises on a fresh
   interpreter but not after an unrelated json_dumps(None, default_mapping={bytes: hex}) *)
Theorem C10_json_history_refuted_without_copy :
  let iso := fun (_ : nat) (_ : hobj) => false in
  fst (run_calls iso convertor_default_nocopy 3 builtin [CDumps None w_bytes]) = [None] /\
  exists j, fst (run_calls iso convertor_default_nocopy 3 builtin
                   [CDumps (Some w_hex_table) (VAtom ANone); CDumps None w_bytes]) = [Some JNull; Some j].
Proof. exact nocopy_history_refuted. Qed.
Print Assumptions C10_json_history_refuted_without_copy.

(* ---- the DiffLevel chain ------------------------------------------------- *)

(* up / down are inverse and stay on the same line *)
Theorem C10_level_up_down :
  forall l x, (down l = Some x -> up x = Some l /\ line x = line l) /\
              (up l = Some x -> down x = Some l /\ line x = line l).
Proof.
  intros. split; intros E; split.
  - apply up_down; exact E.
  - apply down_line; exact E.
  - apply down_up; exact E.
  - apply up_line; exact E.
Qed.
Print Assumptions C10_level_up_down.

(* all_up / all_down end at the two ends of one and the same line, in either order *)
Theorem C10_level_all_up_all_down :
  forall l, up (all_up l) = None /\ down (all_down l) = None /\
            line (all_up l) = line l /\ line (all_down l) = line l /\
            all_up (all_down l) = all_up l /\ all_down (all_up l) = all_down l.
Proof.
  intros. destruct (all_up_root l) as (_ & A & B). destruct (all_down_leaf l) as (_ & C & D).
  repeat split; try assumption; [apply all_up_all_down|apply all_down_all_up].
Qed.
Print Assumptions C10_level_all_up_all_down.

(* path(), both forms, both sides: the relationships of the objects above self
   from the root, up to the first object without any relationship *)
Theorem C10_level_path_is_chain :
  forall use_t2 l,
    path_list use_t2 l = map rel_param (rels use_t2 l) /\
    path_str use_t2 l = Some (root_str ++ flat_map param_repr (rels use_t2 l))%list.
Proof. intros. split; [apply path_list_rels|apply path_str_rels]. Qed.
Print Assumptions C10_level_path_is_chain.

(* all relationships subscriptable: the list form gives the keys and the string
   form is the path printer of C09 on the same keys *)
Theorem C10_level_path_is_render :
  forall use_t2 l, all_items (rels use_t2 l) = true ->
    path_list use_t2 l = map Some (keys_of_opts (path_list use_t2 l)) /\
    path_str use_t2 l = Some (render (keys_of_opts (path_list use_t2 l))).
Proof. exact path_is_render. Qed.
Print Assumptions C10_level_path_is_render.

(* a set item: the set's path, then the inaccessible relationship *)
Theorem C10_level_path_set_item :
  forall use_t2 l rs, rels use_t2 l = (rs ++ [RMember])%list -> all_items rs = true ->
    path_list use_t2 l = (map rel_param rs ++ [None])%list /\
    path_str use_t2 l = Some (root_str ++ flat_map param_repr rs ++ colon)%list.
Proof. exact path_set_item. Qed.
Print Assumptions C10_level_path_set_item.

(* a line built by create_deeper: path() is the sequence of the parameters
   handed to create_deeper - t1 side: param where the new t1 is present, else
   the t2 parameter; t2 side: (param2 or param) where the new t2 is present,
   else param - and the entry abstraction has exactly these key sequences *)
Theorem C10_level_build_path :
  forall use_t2 t1 t2 steps, forallb step_live steps = true ->
    path_list use_t2 (build t1 t2 steps) = map (fun s => Some (step_key use_t2 s)) steps /\
    path_str use_t2 (build t1 t2 steps) = Some (render (map (step_key use_t2) steps)).
Proof. exact build_path. Qed.
Print Assumptions C10_level_build_path.

Theorem C10_level_build_entry :
  forall k d t1 t2 steps, forallb step_live steps = true ->
    ep1 (entry_of_level k d (build t1 t2 steps)) = map (step_key false) steps /\
    ep2 (entry_of_level k d (build t1 t2 steps)) = map (step_key true) steps.
Proof. exact build_entry. Qed.
Print Assumptions C10_level_build_entry.

(* the object of a DiffLevel is the sub-object of the root's object named by
   its path, when every link leads from parent to child by its parameter (what
   the chain walk observes on real lines) *)
Theorem C10_level_object_is_resolve :
  forall s l t, linked s (rev (ups l)) (cur l) -> nside s (hd (cur l) (rev (ups l))) = Some t ->
    resolve t (keys_of_opts (path_list s l)) = nside s (cur l).
Proof. exact line_resolve. Qed.
Print Assumptions C10_level_object_is_resolve.

(* ==================================================================== *)
(* round 3, second wave                                                  *)
(* ==================================================================== *)

(* ---- report_repetition: the EXACT condition for the t2 side ------------- *)

(* which index the code hands to the t2 child relationship, and when t2's item
   at that index carries the level's hash: a paired added hash a reported below
   t1-index i gets a's first index when a occurs once in t2, else i - right iff
   a occurs once or i is one of a's places; a repetition_change level sits at
   t1's first index - right iff the hash has that place in t2 as well *)
Theorem C10_io_repetition_t2_link_iff :
  forall H c (xs ys : list value),
    (forall a i, In a (h2 H c true ys) ->
       let js := indexes_of a (h2 H c true ys) 0 in
       (nth_error (h2 H c true ys) (if Nat.eqb (List.length js) 1 then first_of js else i) = Some a <->
        (List.length js = 1 \/ In i js))) /\
    (forall h, let i0 := first_of (indexes_of h (h1 H c true xs) 0) in
       (nth_error (h2 H c true ys) i0 = Some h <-> In i0 (indexes_of h (h2 H c true ys) 0))).
Proof. intros. split; [intros a i; apply paired_t2_index_iff|intros h; apply repetition_t2_index_iff]. Qed.
Print Assumptions C10_io_repetition_t2_link_iff.

(* for a list of scalars against a list of scalars (the shape of both witnesses
   of the finding), EVERY hasher and pairing oracle, nothing skipped: every
   level of the run is right on the t2 side IF AND ONLY IF (1) for every pair
   (added a, removed r) the run uses, a occurs once in t2 or t2 holds a at every
   index of r in t1, and (2) every common hash of different multiplicity sits in
   t2 at its first index in t1 *)
Theorem C10_io_repetition_flat_t2_exact :
  forall H udiff excl c pairs (xs ys : list atom),
    (forall e, In e (fst (run_diff_io H udiff noskip excl c true pairs (VList (map VAtom xs)) (VList (map VAtom ys)))) ->
       t2_right H c ys e) <-> flat_guard H c pairs xs ys.
Proof. exact flat_rep_t2_iff. Qed.
Print Assumptions C10_io_repetition_flat_t2_exact.

(* the recorded finding refutes the guard in both ways; a pair with a repeated
   added item satisfies it *)
Theorem C10_io_repetition_flat_t2_refuted :
  let cfg := mkCfg false 33 100 true in
  ~ flat_guard hexhash cfg (fun _ => [(0, 2)]) [AInt 3; AInt 1; AInt 2] [AInt 4; AInt 4; AInt 3] /\
  ~ flat_guard hexhash cfg (fun _ => []) [AInt 4; AInt 4; AInt 1] [AInt 1; AInt 4; AInt 2] /\
  flat_guard hexhash cfg (fun _ => [(0, 0)]) [AInt 1; AInt 5] [AInt 7; AInt 7; AInt 5].
Proof. cbv zeta. destruct flat_witnesses as [A B]. split; [exact A|split; [exact B|exact flat_guard_example]]. Qed.
Print Assumptions C10_io_repetition_flat_t2_refuted.

(* the sufficient guard of C10_io_repetition_chains_aligned implies the exact one *)
Theorem C10_aligned_implies_flat_guard :
  forall H c pairs (xs ys : list atom),
    aligned H c (VList (map VAtom xs)) (VList (map VAtom ys)) = true -> flat_guard H c pairs xs ys.
Proof. exact aligned_flat_guard. Qed.
Print Assumptions C10_aligned_implies_flat_guard.

(* the guard sibinj as a condition on the INPUT: for every injective hasher with
   non-empty separator-free outputs (and, hypothesis-free, for the hasher of the
   correspondence) it is "items of one list that are ALIKE under the DeepHash
   options of the run (Hash/HashAlike.v heqb) are structurally equal" *)
Theorem C10_sibinj_is_input_condition :
  (forall (H : pystr -> pystr),
     (forall s, s <> [] -> HashProofsC07.sepfree (H s)) -> (forall s t, H s = H t -> s = t) ->
     forall c t, tag_safe t = true -> sibinj H c t = sibinj_in (io_opts c true) t) /\
  (forall c t, tag_safe t = true -> HexHash.val_okb t = true -> sibinj hexhash c t = sibinj_in (io_opts c true) t).
Proof. split; [exact sibinj_is_input|exact sibinj_is_input_hexhash]. Qed.
Print Assumptions C10_sibinj_is_input_condition.

(* the delta view of a report_repetition run: every item of
   iterable_items_added_at_indexes is an added level or comes from the record
   of a repetition_change level - and then its index IS a place of an item with
   the level's hash in t2's list (at the true parent path) *)
Theorem C10_delta_io_repetition_indexes :
  forall H udiff skip excl c pairs conv t1 t2,
    wf t1 = true -> wf t2 = true ->
    let r := run_diff_io H udiff skip excl c true pairs t1 t2 in
    forall p i v,
      imap_get (pmap_get (io_added (to_delta_io conv false false t1 t2 (fst r) (snd r))) p) i = Some v ->
      (exists e, In e (fst r) /\ ekind e = KIterAdd /\ norm (removelast (ep1 e)) = p /\ last_idx (ep1 e) = i /\ v = item_val e) \/
      (exists e e' rc, In e (fst r) /\ ekind e = KRepetition /\ v = oval (et1 e) /\
         In rc (snd r) /\ rpath rc = ep1 e /\ norm (removelast (ep1 e)) = p /\ In i (rnew rc) /\
         rep_rec_ok H c t1 t2 e' rc /\
         exists q2 v2 ys y x0, ksim q2 (removelast (ep2 e')) /\ resolve t2 q2 = Some v2 /\ seq_items v2 = Some ys /\
           nth_error ys i = Some y /\ et1 e' = Some x0 /\ hv H c true y = hv H c true x0).
Proof. exact run_rep_delta_added. Qed.
Print Assumptions C10_delta_io_repetition_indexes.

(* ---- exactly when to_json() raises ---------------------------------------- *)

(* json.dumps(v, default=json_convertor_default()) raises IF AND ONLY IF v
   contains - as itself, a list / tuple item, a dict value or a set member - a
   frozenset (no row of the convertor table), a bytes object that is not valid
   UTF-8 (the bytes row raises) or a dict with a bytes key (refused before any
   row); over the table: a frozenset is the only object without a row *)
Theorem C10_json_raises_exact :
  (forall v, to_jsonable v = None <-> json_ok v = false) /\
  (forall v, json_ok v = false <-> exists w, In w (subvalues v) /\ unencodable w) /\
  (forall iso h, lookup iso builtin h = None <-> exists xs, h = HFrozen xs).
Proof. split; [exact to_jsonable_none_iff|split; [exact json_ok_false_kinds|exact builtin_norow_iff]]. Qed.
Print Assumptions C10_json_raises_exact.

(* the document: to_json() raises iff an entry that survives in the dict of its
   category (a later entry with the same path replaces an earlier one) shows
   such a value; list categories never raise *)
Theorem C10_json_document_raises_exact :
  (forall t, entry_json t = None <-> exists x, In x (tvals t) /\ json_ok x = false) /\
  (forall verbose ts, json_of_text verbose ts = None <->
     exists c p, list_cat verbose c = false /\ In (p, None) (survivors c ts)).
Proof. split; [exact entry_json_none_iff|exact json_of_text_none_iff]. Qed.
Print Assumptions C10_json_document_raises_exact.

(* ---- pretty(): None and repetition_change --------------------------------- *)

(* the statements of a type change from / to None (type name NoneType, value
   text None) and of a repetition_change level, as printed (replayed on the
   implementation by the harness) *)
Theorem C10_pretty_none_and_repetition_examples :
  pretty_of 1 (mkEntry KType [PKey (AStr (s2p "a"))] [PKey (AStr (s2p "a"))] (Some (VAtom ANone)) (Some (VAtom (AInt 1))) None)
    = s2p "Type of root['a'] changed from NoneType to int and value changed from None to 1." /\
  pretty_of 1 (mkEntry KType [PIdx 0] [PIdx 0] (Some (VAtom (AInt 1))) (Some (VAtom ANone)) None)
    = s2p "Type of root[0] changed from int to NoneType and value changed from 1 to None." /\
  (exists e, In e (w_io_run (fun _ => []) (ints [4; 4; 1]%Z) (ints [1; 4; 2]%Z)) /\ ekind e = KRepetition /\
             pretty_of 1 e = s2p "Repetition change for item root[0].").
Proof. exact pretty_none_and_repetition. Qed.
Print Assumptions C10_pretty_none_and_repetition_examples.

(* ------------------------------------------------------------------ *)
(** EXTENSION beyond the property's stated domain: results holding INSTANCES OF CLASSES
    (Obj/ObjValue.v [ovalue]; [orun] Obj/ObjModel.v; the text view [otext_view] Obj/ObjText.v with
    attribute_added / attribute_removed; pretty() [opretty] Obj/ObjViews.v with the "Attribute ... added." /
    "... removed." statements, class names as type names and the repr  Cls(attr=value, ...)  of the harness
    classes / namedtuples / dataclasses; tied to DeepDiff on real class instances by harness/objcommon.py
    stream_c10: pretty() statements, to_dict(view_override='text') of the tree view, the text view).
    to_json() of a result that holds an instance raises TypeError unless default_mapping is given: outside. *)
From DD Require Obj.ObjValue Obj.ObjModel Obj.ObjText Obj.ObjViews Obj.ObjViewsProofs Obj.ObjExamples.

(* the text view has one entry per level that the verbose level shows, under the same category (attribute_added and
   attribute_removed included) and the same path text (with .attr elements), in the same order *)
Theorem C10_objects_text_same_pairs :
  forall verbose (es : list Obj.ObjModel.oentry),
    map Obj.ObjViews.otkey (Obj.ObjText.otext_view verbose es) =
    map Obj.ObjViews.oekey (filter (Obj.ObjViews.ovisible verbose) es).
Proof. exact Obj.ObjViewsProofs.otext_same_pairs. Qed.
Print Assumptions C10_objects_text_same_pairs.

(* an attribute_added / attribute_removed level (as a dictionary item level) is always shown; its text entry carries
   the level's t2 / t1 object exactly from verbose_level 2 *)
Theorem C10_objects_text_attribute_values :
  forall verbose (e : Obj.ObjModel.oentry),
    (Obj.ObjModel.oekind e = Obj.ObjModel.OKAttrAdd \/ Obj.ObjModel.oekind e = Obj.ObjModel.OK KDictAdd ->
       Obj.ObjText.otext_of verbose e =
       [Obj.ObjText.OTItem (Obj.ObjModel.oekind e) (Obj.ObjText.orender (Obj.ObjModel.oep1 e))
                           (if Nat.leb 2 verbose then Obj.ObjModel.oet2 e else None)]) /\
    (Obj.ObjModel.oekind e = Obj.ObjModel.OKAttrRem \/ Obj.ObjModel.oekind e = Obj.ObjModel.OK KDictRem ->
       Obj.ObjText.otext_of verbose e =
       [Obj.ObjText.OTItem (Obj.ObjModel.oekind e) (Obj.ObjText.orender (Obj.ObjModel.oep1 e))
                           (if Nat.leb 2 verbose then Obj.ObjModel.oet1 e else None)]).
Proof. exact Obj.ObjViewsProofs.otext_item_values. Qed.
Print Assumptions C10_objects_text_attribute_values.

(* pretty(): one statement per level of the tree; unless the level is an iterable_item_moved it is non-empty and names
   the path text under which the text view files the level *)
Theorem C10_objects_pretty_one_per_change :
  forall verbose (es : list Obj.ObjModel.oentry),
    List.length (Obj.ObjViews.opretty verbose es) = List.length es /\
    Forall2 (fun e s => s = Obj.ObjViews.opretty_of verbose e /\
                        (Obj.ObjModel.oekind e <> Obj.ObjModel.OK KIterMoved -> s <> []) /\
                        (Obj.ObjModel.oekind e <> Obj.ObjModel.OK KIterMoved ->
                         contains_sub (Obj.ObjText.orender (Obj.ObjModel.oep1 e)) s = true))
            es (Obj.ObjViews.opretty verbose es).
Proof. intros. split; [apply Obj.ObjViewsProofs.opretty_length|apply Obj.ObjViewsProofs.opretty_per_change]. Qed.
Print Assumptions C10_objects_pretty_one_per_change.

(* the views of one run: the pair of Obj.ObjExamples (9 levels of 7 kinds) *)
Example C10_objects_views_of_one_run :
  map Obj.ObjViews.otkey (Obj.ObjText.otext_view 2 (fst Obj.ObjExamples.ox_run)) = map Obj.ObjViews.oekey (fst Obj.ObjExamples.ox_run) /\
  List.length (Obj.ObjText.otext_view 2 (fst Obj.ObjExamples.ox_run)) = 9 /\
  List.length (Obj.ObjText.otext_view 0 (fst Obj.ObjExamples.ox_run)) = 7 /\
  In (s2p "Attribute root['o'].w (""new"") added.") (Obj.ObjViews.opretty 2 (fst Obj.ObjExamples.ox_run)) /\
  In (s2p "Attribute root['o'].z removed.") (Obj.ObjViews.opretty 1 (fst Obj.ObjExamples.ox_run)) /\
  In (s2p "Type of root['q'] changed from PA to PB and value changed from PA(a=1) to PB(a=1).") (Obj.ObjViews.opretty 1 (fst Obj.ObjExamples.ox_run)) /\
  In (s2p "Item root['l'][1] (PB()) removed from iterable.") (Obj.ObjViews.opretty 2 (fst Obj.ObjExamples.ox_run)) /\
  In (Obj.ObjText.OTItem Obj.ObjModel.OKAttrAdd (s2p "root['l'][0].k") (Some (Obj.ObjValue.OAtom (AInt 5)))) (Obj.ObjText.otext_view 2 (fst Obj.ObjExamples.ox_run)) /\
  In (Obj.ObjText.OTItem Obj.ObjModel.OKAttrAdd (s2p "root['l'][0].k") None) (Obj.ObjText.otext_view 1 (fst Obj.ObjExamples.ox_run)).
Proof. exact Obj.ObjViewsProofs.ox_views. Qed.
Print Assumptions C10_objects_views_of_one_run.

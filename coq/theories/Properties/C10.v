(** C10 - tree view, text view, to_dict, to_json and pretty() describe the same
    changes.  Final statements only.

    The presentations are functions of the result tree = a list of [entry]
    (Diff/Tree.v): text view [text_view] (Diff/TextView.v), [to_dict] with
    view_override, [pretty], [to_json] (Views/ViewsModel.v).  Statements over an
    arbitrary entry list [es] hold for every tree (ordered mode, ignore_order,
    report_repetition, any alignment / pairing); the [run_diff] statements are
    for the ordered model with every opcode oracle. *)
From Coq Require Import List ZArith NArith Bool Arith String.
Import ListNotations.
From DD Require Import Base.PyStr Base.Value Path.PathModel Diff.Tree Diff.DiffModel Diff.TextView
  Views.ViewsModel Views.ViewsChains Views.ViewsProofs Hash.HashModel DiffIO.DiffIOModel Views.ViewsIO Views.ViewsIOChains.

(* ---- tree view vs text view ---------------------------------------- *)

(* same (category, path) pairs, in the same order and multiplicity, as the
   levels of the tree that the verbose level shows ([visible]: values_changed
   from verbose_level 1, iterable_item_moved at 2 only; [epath]: the level's
   path, for a set item the set's path followed by the bracketed member) *)
Theorem C10_text_same_pairs :
  forall verbose es, map tkey (text_view verbose es) = map ekey (filter (visible verbose) es).
Proof. exact text_same_pairs. Qed.
Print Assumptions C10_text_same_pairs.

(* at verbose_level 2 nothing but repetition_change (reported from
   additional['repetition'], outside the entry list) is hidden *)
Theorem C10_text_all_visible_at_2 :
  forall e, visible 2 e = negb (rkind_eqb (ekind e) KRepetition).
Proof. exact visible_2. Qed.
Print Assumptions C10_text_all_visible_at_2.

(* ... with the same values: each text entry shows the leaf objects of its
   level ([describes]: old/new value, types, new_path exactly when the t2-side
   path is spelled differently, diff text; below verbose_level 2 exactly the
   documented projection).  [shape_ok]: the level has the leaf objects of its
   report type. *)
Theorem C10_text_is_projection :
  forall verbose es, Forall shape_ok es ->
    Forall2 (describes verbose) (filter (visible verbose) es) (text_view verbose es).
Proof. exact text_is_projection. Qed.
Print Assumptions C10_text_is_projection.

(* ... unconditionally for every ordered run (shape_ok follows from C04) *)
Theorem C10_run_diff_text_is_projection :
  forall hatom udiff ops skip excl c verbose t1 t2,
    thr_num c <= thr_den c -> wf t1 = true -> wf t2 = true ->
    Forall2 (describes verbose)
            (filter (visible verbose) (fst (run_diff hatom udiff ops skip excl c t1 t2)))
            (text_view verbose (fst (run_diff hatom udiff ops skip excl c t1 t2))).
Proof. exact run_diff_text_projection. Qed.
Print Assumptions C10_run_diff_text_is_projection.

(* ---- to_dict(view_override) ----------------------------------------- *)

(* _get_view_results re-runs mutual_add_removes on the stored tree: harmless *)
Theorem C10_mutual_idempotent : forall es, mutual (mutual es) = mutual es.
Proof. exact mutual_idem. Qed.
Print Assumptions C10_mutual_idempotent.

(* on the tree a run stored (raw tree after its first _get_view_results),
   to_dict(view_override=v) is what a run with view=v shows, whatever the
   object's own view *)
Theorem C10_to_dict_override :
  forall (rep : bool) own ov verbose raw,
    let tree := if rep then raw else mutual raw in
    to_dict rep own ov verbose tree = direct_view (match ov with Some v => v | None => own end) verbose tree.
Proof. exact to_dict_override. Qed.
Print Assumptions C10_to_dict_override.

(* ---- pretty() ------------------------------------------------------- *)

(* one statement per level, in order; each is the level's template text and,
   unless the level is an iterable_item_moved, is non-empty and names the
   level's path (for a set item: the path of the set) *)
Theorem C10_pretty_one_per_change :
  forall verbose es,
    List.length (pretty verbose es) = List.length es /\
    Forall2 (fun e s => s = pretty_of verbose e /\
                        (ekind e <> KIterMoved -> s <> []) /\
                        (ekind e <> KIterMoved -> contains_sub (render (ep1 e)) s = true))
            es (pretty verbose es).
Proof. intros. split; [apply pretty_length|apply pretty_per_change]. Qed.
Print Assumptions C10_pretty_one_per_change.

(* every statement of a level that is not an iterable_item_moved names the
   level's path; former finding C10-pretty-set-item-root (fixed in 9738d10):
   DeepDiff({'a': {1, 2}}, {'a': {1, 3}}) now prints root['a'][3] *)
Theorem C10_pretty_names_path :
  forall verbose e, ekind e <> KIterMoved ->
    contains_sub (render (ep1 e)) (pretty_of verbose e) = true.
Proof. exact pretty_names_path. Qed.
Print Assumptions C10_pretty_names_path.

Theorem C10_pretty_set_item_example :
  exists e, In e (w_run w_set_t1 w_set_t2 (fun _ _ _ => [])) /\ ekind e = KSetAdd /\
            pretty_of 1 e = s2p "Item root['a'][3] added to set.".
Proof. exact pretty_set_item_example. Qed.
Print Assumptions C10_pretty_set_item_example.

(* "every statement is non-empty" is false of the model for a level of type
   iterable_item_moved (no template); such levels need iterable_compare_func,
   which is outside this property's quantifier *)
Theorem C10_pretty_nonempty_refuted :
  forall verbose, exists e, pretty verbose [e] = [[]].
Proof. intros. exists (mkEntry KIterMoved [] [] None None None). reflexivity. Qed.
Print Assumptions C10_pretty_nonempty_refuted.

Theorem C10_pretty_nonempty_partial :
  forall verbose e, ekind e <> KIterMoved -> pretty_of verbose e <> [].
Proof. exact pretty_nonempty. Qed.
Print Assumptions C10_pretty_nonempty_partial.

(* ---- to_json -------------------------------------------------------- *)

(* when to_json succeeds its document is an object whose member names are the
   categories of the text view, and under each category the member names (or
   list elements) are the paths of the text view's entries of that category *)
Theorem C10_json_same_keys :
  forall (rep : bool) verbose tree j,
    to_json rep verbose tree = Some j ->
    let ts := text_view verbose (if rep then tree else mutual tree) in
    exists cats, j = JObj cats /\
      (forall name, In name (map fst cats) <-> exists t, In t ts /\ cat_name (tcat t) = name) /\
      (forall c payload, In (cat_name c, payload) cats ->
         forall p, In p (jmembers payload) <-> exists t, In t ts /\ tcat t = c /\ tpath t = p).
Proof. exact to_json_same_keys. Qed.
Print Assumptions C10_json_same_keys.

(* "to_json succeeds for values of the types in the convertor table" is false:
   finding C10-to_json-non-utf8-bytes, DeepDiff([b'\xff'], [b'a']).to_json() *)
Theorem C10_json_total_refuted :
  w_run w_bytes_t1 w_bytes_t2 w_bytes_ops <> [] /\
  Forall (fun e => type_of (opt_val (et1 e)) = TBytes /\ type_of (opt_val (et2 e)) = TBytes)
         (w_run w_bytes_t1 w_bytes_t2 w_bytes_ops) /\
  to_json false 1 (w_run w_bytes_t1 w_bytes_t2 w_bytes_ops) = None.
Proof. exact to_json_total_refuted. Qed.
Print Assumptions C10_json_total_refuted.

(* [json_ok]: no frozenset (not a row of the table), every bytes object valid
   UTF-8, no bytes dict key *)
Theorem C10_json_total_partial :
  forall (rep : bool) verbose tree,
    Forall entry_json_ok (if rep then tree else mutual tree) -> to_json rep verbose tree <> None.
Proof. exact to_json_total. Qed.
Print Assumptions C10_json_total_partial.

(* ---- level chains ---------------------------------------------------- *)

(* every node above the leaf of every reported level exists in both inputs
   (for a set item: the set too); both key sequences have the same length *)
Theorem C10_chains_ok :
  forall hatom udiff ops skip excl c t1 t2,
    wf t1 = true -> wf t2 = true ->
    forall e, In e (fst (run_diff hatom udiff ops skip excl c t1 t2)) -> chain_ok t1 t2 e.
Proof. exact run_diff_chains. Qed.
Print Assumptions C10_chains_ok.

(* what the nodes are: depth 0 holds the original inputs, and the node at depth
   n+1 is the item of the node at depth n named by the n-th child relationship *)
Theorem C10_chain_root : forall r p, resolve r (firstn 0 p) = Some r.
Proof. intros. reflexivity. Qed.
Print Assumptions C10_chain_root.

Theorem C10_chain_link :
  forall r p n k, nth_error p n = Some k ->
    resolve r (firstn (S n) p) =
    match resolve r (firstn n p) with Some v => get_item v (key_atom k) | None => None end.
Proof. exact chain_link. Qed.
Print Assumptions C10_chain_link.

(* with ignore_order=True, report_repetition=True the t2-side key sequence of a
   level below a list with repeated items does not lead to the level's t2
   object (finding C10-repetition-t2-index), in the ignore-order model
   DiffIO/DiffIOModel.v fed the pairing the implementation uses:
   [3, 1, 2] -> [4, 4, 3] (values_changed root[2], t2 = 4, t2[2] = 3) and
   [4, 4, 1] -> [1, 4, 2] (repetition_change root[0], t2 = 4, t2[0] = 1).
   The guarded statements are C10_io_chains_ok (report_repetition=False) and
   C10_io_repetition_chains_partial (no repeated items). *)
Theorem C10_io_repetition_leaf_refuted :
  (exists e, In e (w_io_run (fun _ => [(0, 2)]) (ints [3; 1; 2]%Z) (ints [4; 4; 3]%Z)) /\
             ekind e = KValue /\ et2 e = Some (VAtom (AInt 4)) /\
             resolve (ints [4; 4; 3]%Z) (ep2 e) = Some (VAtom (AInt 3))) /\
  (exists e, In e (w_io_run (fun _ => []) (ints [4; 4; 1]%Z) (ints [1; 4; 2]%Z)) /\
             ekind e = KRepetition /\ et2 e = Some (VAtom (AInt 4)) /\
             resolve (ints [1; 4; 2]%Z) (ep2 e) = Some (VAtom (AInt 1))).
Proof. split; [exact io_rep_paired_leaf_refuted|exact io_rep_change_leaf_refuted]. Qed.
Print Assumptions C10_io_repetition_leaf_refuted.

(* ---- ignore_order: chains, leaves, text view ------------------------------ *)

(* ignore_order=True, report_repetition=False, EVERY pairing oracle (valid or
   not), hasher, skip/excl, cfg: every node above the leaf of every level exists
   in both inputs, and (for the levels diff_io itself reports; a values_changed
   made by mutual_add_removes takes its t2 object from the added level it
   absorbs) the leaf objects are the sub-objects of the inputs named by ep1 / ep2
   ([leaf_ok]; for a set item: a member of the set the path names) *)
Theorem C10_io_chains_ok :
  forall H udiff skip excl c pairs t1 t2,
    wf t1 = true -> wf t2 = true ->
    forall e, In e (fst (run_diff_io H udiff skip excl c false pairs t1 t2)) ->
      chain_ok t1 t2 e /\
      (In e (fst (diff_io H udiff skip excl c false pairs t1 t2 [] [])) -> leaf_ok t1 t2 e).
Proof. exact run_io_chains. Qed.
Print Assumptions C10_io_chains_ok.

(* ... hence the text view of every such run is the documented projection, no guard *)
Theorem C10_io_text_is_projection :
  forall H udiff skip excl c pairs verbose t1 t2,
    wf t1 = true -> wf t2 = true ->
    Forall2 (describes verbose)
            (filter (visible verbose) (fst (run_diff_io H udiff skip excl c false pairs t1 t2)))
            (text_view verbose (fst (run_diff_io H udiff skip excl c false pairs t1 t2))).
Proof. exact run_io_text_projection. Qed.
Print Assumptions C10_io_text_is_projection.

(* report_repetition=True: the guarded counterpart of C10_io_repetition_leaf_refuted.
   [norep]: no list / tuple anywhere in the input holds two items with the same hash *)
Theorem C10_io_repetition_chains_partial :
  forall H udiff skip excl c pairs t1 t2,
    wf t1 = true -> wf t2 = true ->
    norep H c true t1 = true -> norep H c true t2 = true ->
    forall e, In e (fst (run_diff_io H udiff skip excl c true pairs t1 t2)) ->
      chain_ok t1 t2 e /\ leaf_ok t1 t2 e.
Proof. exact run_io_rep_chains. Qed.
Print Assumptions C10_io_repetition_chains_partial.

(* ---- repetition_change in the text view and to_json ----------------------- *)

(* one record per repetition_change level, in order, under the level's path,
   with value = the level's t1 and the indexes recorded for that path *)
Theorem C10_repetition_text :
  forall es rs,
    Forall2 (fun e t => trpath t = render (ep1 e) /\ trval t = opt_val (et1 e) /\
                        (trold t, trnew t) = rep_lookup (ep1 e) rs)
            (filter (fun e => rkind_eqb (ekind e) KRepetition) es) (rep_view es rs).
Proof. exact rep_view_spec. Qed.
Print Assumptions C10_repetition_text.

(* the complete to_json document: categories = those of the text view plus
   repetition_change iff there is such a level; member names = the paths *)
Theorem C10_json_full_same_keys :
  forall verbose ts reps j,
    json_full verbose ts reps = Some j ->
    exists cats, j = JObj cats /\
      (forall name, In name (map fst cats) <->
         (exists t, In t ts /\ cat_name (tcat t) = name) \/ (name = rep_name /\ reps <> [])) /\
      (forall c payload, In (cat_name c, payload) cats ->
         forall p, In p (jmembers payload) <-> exists t, In t ts /\ tcat t = c /\ tpath t = p) /\
      (forall payload, In (rep_name, payload) cats ->
         forall p, In p (jmembers payload) <-> exists t, In t reps /\ trpath t = p).
Proof. exact json_full_same_keys. Qed.
Print Assumptions C10_json_full_same_keys.

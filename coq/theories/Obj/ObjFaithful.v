(** Block Obj - C04 for values with class instances: every entry of [orun] is backed by
    the inputs, the paths being followed with getattr steps.  Corollary of
    Diff/DiffFaithful.v (the encoded run), Obj/ObjDictLevel.v and Obj/ObjPath.v. *)
From Coq Require Import List ZArith NArith Bool Arith Lia.
Import ListNotations.
From DD Require Import Base.PyStr Base.Value Base.ValueFacts Path.PathModel Diff.Tree Diff.DiffModel
  Diff.DiffFacts Diff.DiffEmpty Diff.DiffFaithful Obj.ObjValue Obj.ObjModel Obj.ObjFacts Obj.ObjProofs Obj.ObjDictLevel Obj.ObjPath.

Definition oset_has (s : ovalue) (y : atom) : Prop :=
  match s with OSet l | OFrozen l => In y l | _ => False end.

(* the object version of Diff.DiffFaithful.faithful: [oresolve] follows dict keys,
   sequence indexes and attribute names *)
Definition ofaithful (t1 t2 : ovalue) (e : oentry) : Prop :=
  match oekind e with
  | OK KType => exists a b, oet1 e = Some a /\ oet2 e = Some b /\
               oresolve t1 (oep1 e) = Some a /\ oresolve t2 (oep2 e) = Some b /\ otype_eqb a b = false
  | OK KValue => exists a b, oet1 e = Some a /\ oet2 e = Some b /\
               oresolve t1 (oep1 e) = Some a /\ oresolve t2 (oep2 e) = Some b /\ otype_eqb a b = true
  | OK KDictAdd => exists b, oet1 e = None /\ oet2 e = Some b /\
               oresolve t2 (oep2 e) = Some b /\ oresolve t1 (oep1 e) = None /\ is_attr_path (oep1 e) = false
  | OKAttrAdd => exists b, oet1 e = None /\ oet2 e = Some b /\
               oresolve t2 (oep2 e) = Some b /\ oresolve t1 (oep1 e) = None /\ is_attr_path (oep1 e) = true
  | OK KDictRem => exists a, oet1 e = Some a /\ oet2 e = None /\
               oresolve t1 (oep1 e) = Some a /\ oresolve t2 (oep2 e) = None /\ is_attr_path (oep1 e) = false
  | OKAttrRem => exists a, oet1 e = Some a /\ oet2 e = None /\
               oresolve t1 (oep1 e) = Some a /\ oresolve t2 (oep2 e) = None /\ is_attr_path (oep1 e) = true
  | OK KIterAdd => exists b, oet1 e = None /\ oet2 e = Some b /\ oresolve t2 (oep2 e) = Some b /\ oep1 e = oep2 e
  | OK KIterRem => exists a, oet1 e = Some a /\ oet2 e = None /\ oresolve t1 (oep1 e) = Some a /\ oep1 e = oep2 e
  | OK KIterMoved => exists a b, oet1 e = Some a /\ oet2 e = Some b /\
               oresolve t1 (oep1 e) = Some a /\ oresolve t2 (oep2 e) = Some b /\ opy_eqv a b = true
  | OK KSetAdd => exists y s, oet1 e = None /\ oet2 e = Some (OAtom y) /\
               oresolve t2 (oep2 e) = Some s /\ oset_has s y
  | OK KSetRem => exists x s, oet1 e = Some (OAtom x) /\ oet2 e = None /\
               oresolve t1 (oep1 e) = Some s /\ oset_has s x
  | OK KRepetition => False
  end.

(* ---- unfolding dec_entry ---- *)
Lemma dec_entry_eq e :
  dec_entry e =
  let q1 := dec_path (ep1 e) in
  let a := option_map (wrap (snd (dps None (ep1 e)))) (et1 e) in
  let b := option_map (wrap (snd (dps None (ep2 e)))) (et2 e) in
  mkOE (match ekind e with
        | KValue => if same_otype a b then OK KValue else OK KType
        | KDictAdd => if is_attr_path q1 then OKAttrAdd else OK KDictAdd
        | KDictRem => if is_attr_path q1 then OKAttrRem else OK KDictRem
        | k => OK k
        end) q1 (dec_path (ep2 e)) a b (ediff e).
Proof.
  unfold dec_entry, dec_path. destruct (dps None (ep1 e)) as [q1 s1], (dps None (ep2 e)) as [q2 s2]. reflexivity.
Qed.

Lemma oresolve_app t q r :
  oresolve t (q ++ r) = match oresolve t q with Some x => oresolve x r | None => None end.
Proof.
  revert t; induction q as [|k q IH]; intros t; cbn; [reflexivity|].
  destruct (oget t k); [apply IH|reflexivity].
Qed.

(* ---- types ---- *)
Lemma enc_dict_cases x d : enc x = VDict d ->
  (exists kvs, x = ODict kvs /\ d = enc_items kvs) \/
  (exists cls attrs, x = OObj cls attrs /\ d = [(otag cls, VDict (enc_attrs attrs)); (otag2 cls, VAtom (AStr cls))]).
Proof.
  destruct x; cbn; intros E; try discriminate; inversion E; subst.
  - left. eexists. split; reflexivity.
  - right. eexists _, _. split; reflexivity.
Qed.

Lemma otype_reached s1 s2 a b x1 x2 :
  reached s1 a x1 -> reached s2 b x2 -> type_of a <> type_of b -> otype_eqb x1 x2 = false.
Proof.
  intros R1 R2 T.
  destruct s1 as [c1|], s2 as [c2|]; cbn in R1, R2.
  - destruct R1 as (a1 & -> & ->), R2 as (a2 & -> & ->). exfalso. apply T. reflexivity.
  - destruct R1 as (a1 & -> & ->). subst b. destruct x2; try reflexivity. exfalso. apply T. reflexivity.
  - destruct R2 as (a2 & -> & ->). subst a. destruct x1; try reflexivity. exfalso. apply T. reflexivity.
  - subst a b. unfold otype_eqb.
    destruct x1, x2; try reflexivity;
      try (destruct (ty_eqb _ _) eqn:E; [apply ty_eqb_true in E; exfalso; apply T; exact E|reflexivity]).
    exfalso. apply T. reflexivity.
Qed.

(* ---- the threshold shortcut on a pair of dicts with no shared key ---- *)
Lemma shortcut_disjoint c k1 k2 P :
  0 < thr_num c ->
  (forall k, In k k1 -> mem_atom k k2 = false) -> (forall k, In k k2 -> mem_atom k k1 = false) ->
  2 <= length k1 + length k2 ->
  dict_shortcut nopaths c k1 k2 P = true.
Proof.
  intros Hthr D1 D2 L. unfold dict_shortcut.
  destruct (Nat.eqb_spec (thr_num c) 0) as [Z|_]; [lia|].
  rewrite (filter_nil (fun k => mem_atom k k1) k2) by exact D2.
  rewrite (filter_all (fun k => negb (mem_atom k k2)) k1) by (intros x Hx; rewrite (D1 x Hx); reflexivity).
  rewrite (filter_all (fun k => negb (nopaths (snoc P (PKey k)))) (k2 ++ k1)) by reflexivity.
  rewrite app_length. cbn [length Nat.mul].
  apply andb_true_iff. split; apply Nat.ltb_lt; [lia|nia].
Qed.

Definition obj_keys (cls : pystr) : list atom := [otag cls; otag2 cls].

Lemma keys_of_obj c cls (v w : value) : keys_of c [(otag cls, v); (otag2 cls, w)] = obj_keys cls.
Proof.
  unfold keys_of. cbn [map fst filter]. rewrite (keep_key_tag c _ (is_tag_otag cls)), (keep_key_tag c _ (is_tag_otag2 cls)). reflexivity.
Qed.

Lemma mem_atom_tag_untagged k l :
  is_tag k = true -> forallb (fun x => negb (is_tag x)) l = true -> mem_atom k l = false.
Proof.
  intros T U. destruct (mem_atom k l) eqn:M; [|reflexivity].
  apply mem_atom_In in M as (b & Hb & E).
  assert (b = k).
  { destruct (is_tag_cases k T) as [[cls ->]|[cls ->]]; [apply py_eq_otag_l in E|apply py_eq_otag2_l in E]; exact E. }
  subst b. eapply forallb_forall in U; [|exact Hb]. rewrite T in U. discriminate.
Qed.
Lemma mem_atom_untagged_tags k cls :
  is_tag k = false -> mem_atom k (obj_keys cls) = false.
Proof.
  intros T. destruct (mem_atom k (obj_keys cls)) eqn:M; [|reflexivity].
  apply mem_atom_In in M as (b & Hb & E). rewrite py_eq_sym in E.
  destruct Hb as [<-|[<-|[]]]; [apply py_eq_otag_l in E|apply py_eq_otag2_l in E]; subst k; discriminate T.
Qed.
Lemma keys_of_untagged c kvs :
  forallb (fun x => negb (is_tag x)) (map fst kvs) = true -> forallb (fun x => negb (is_tag x)) (keys_of c kvs) = true.
Proof.
  intros U. apply forallb_forall. intros k Hk. apply keys_of_In in Hk as [Hk _].
  eapply forallb_forall in U; [|exact Hk]. exact U.
Qed.

Lemma shortcut_obj_dict c cls (v w : value) kvs P :
  0 < thr_num c -> forallb (fun x => negb (is_tag x)) (map fst kvs) = true ->
  dict_shortcut nopaths c (keys_of c [(otag cls, v); (otag2 cls, w)]) (keys_of c kvs) P = true /\
  dict_shortcut nopaths c (keys_of c kvs) (keys_of c [(otag cls, v); (otag2 cls, w)]) P = true.
Proof.
  intros Hthr U. rewrite keys_of_obj. pose proof (keys_of_untagged c kvs U) as U'.
  split; apply shortcut_disjoint; try exact Hthr; try (cbn [obj_keys length]; lia).
  - intros k [<-|[<-|[]]]; apply mem_atom_tag_untagged; try exact U'; reflexivity.
  - intros k Hk. apply mem_atom_untagged_tags. eapply forallb_forall in U'; [|exact Hk]. apply negb_true_iff. exact U'.
  - intros k Hk. apply mem_atom_untagged_tags. eapply forallb_forall in U'; [|exact Hk]. apply negb_true_iff. exact U'.
  - intros k [<-|[<-|[]]]; apply mem_atom_tag_untagged; try exact U'; reflexivity.
Qed.

Lemma mem_atom_obj_keys_other c1 c2 k : c1 <> c2 -> In k (obj_keys c1) -> mem_atom k (obj_keys c2) = false.
Proof.
  intros N Hk. destruct (mem_atom k (obj_keys c2)) eqn:M; [|reflexivity]. exfalso.
  apply mem_atom_In in M as (b & Hb & E).
  destruct Hk as [<-|[<-|[]]], Hb as [<-|[<-|[]]].
  - rewrite py_eq_otag in E. apply pystr_eqb_eq in E. contradiction.
  - rewrite py_eq_otag_otag2 in E. discriminate.
  - rewrite py_eq_otag2_otag in E. discriminate.
  - rewrite py_eq_otag2 in E. apply pystr_eqb_eq in E. contradiction.
Qed.

Lemma shortcut_obj_obj c c1 c2 (v1 w1 v2 w2 : value) P :
  0 < thr_num c -> c1 <> c2 ->
  dict_shortcut nopaths c (keys_of c [(otag c1, v1); (otag2 c1, w1)]) (keys_of c [(otag c2, v2); (otag2 c2, w2)]) P = true.
Proof.
  intros Hthr N. rewrite !keys_of_obj. apply shortcut_disjoint; try exact Hthr; try (cbn [obj_keys length]; lia).
  - intros k Hk. apply (mem_atom_obj_keys_other c1 c2); assumption.
  - intros k Hk. apply (mem_atom_obj_keys_other c2 c1); [congruence|assumption].
Qed.

(* ---- the class of an encoded value ---- *)
Lemma obj_class_obj cls attrs : obj_class (enc (OObj cls attrs)) = Some cls.
Proof. reflexivity. Qed.
Lemma obj_class_dict kvs :
  forallb (fun k => negb (is_tag k)) (map fst kvs) = true -> obj_class (VDict (enc_items kvs)) = None.
Proof.
  intros U. destruct kvs as [|[k v] [|[k2 v2] [|kv3 rest]]]; try reflexivity.
  - cbn. destruct (enc v); reflexivity.
  - cbn in U. apply andb_true_iff in U as [U _]. apply negb_true_iff in U. apply tag_cls_not_tag in U.
    unfold enc_items. cbn [map fst snd obj_class]. destruct (enc v); try reflexivity.
    destruct (enc v2) as [a| | | | |]; try reflexivity. destruct a; try reflexivity. exact U.
  - unfold enc_items. cbn [map fst snd obj_class]. destruct (enc v); try reflexivity.
    destruct (enc v2) as [a| | | | |]; try reflexivity. destruct a; reflexivity.
Qed.

(* ---- a key present below P on one side and absent on the other ---- *)
(* [NM]: the two dicts at P are not an instance against a dict or an instance of another class *)
Lemma absent_side tp ta P k dp da :
  owf tp = true -> owf ta = true ->
  resolve (enc tp) P = Some (VDict dp) -> resolve (enc ta) P = Some (VDict da) ->
  In k (map fst dp) -> assoc k da = None ->
  (snd (dps None P) = None -> optstr_eqb (obj_class (VDict dp)) (obj_class (VDict da)) = true) ->
  oresolve ta (dec_path (snoc P (PKey k))) = None.
Proof.
  intros Wp Wa Rp Ra Hk Ak NM.
  destruct (proj1 (resolve_enc_sound P) tp _ Wp Rp) as (xp & Op & Wxp & Hp).
  destruct (proj1 (resolve_enc_sound P) ta _ Wa Ra) as (xa & Oa & Wxa & Ha).
  unfold dec_path, snoc. rewrite dps_snoc. cbn [fst]. rewrite oresolve_app, Oa.
  destruct (snd (dps None P)) as [cls|] eqn:SP; cbn in Hp, Ha.
  - (* below an instance: attribute names *)
    destruct Hp as (ap & -> & Ep), Ha as (aa & -> & Ea). inversion Ep; subst dp. inversion Ea; subst da.
    rewrite map_fst_enc_attrs in Hk. apply in_map_iff in Hk as (s & <- & _).
    cbn [dps_step fst ocons key_atom str_of_key oresolve oget].
    rewrite assoc_enc_attrs in Ak. destruct (assoc_attr s aa); [discriminate|reflexivity].
  - specialize (NM eq_refl). rewrite Hp, Ha in NM.
    symmetry in Hp, Ha.
    destruct (enc_dict_cases xp dp Hp) as [(kp & -> & ->)|(cp & atp & -> & ->)];
    destruct (enc_dict_cases xa da Ha) as [(ka & -> & ->)|(ca & ata & -> & ->)].
    + (* two dicts *)
      rewrite map_fst_enc_items in Hk.
      cbn in Wxp. apply andb_true_iff in Wxp as [Wxp _]. apply andb_true_iff in Wxp as [_ U].
      assert (NT : is_tag k = false).
      { eapply forallb_forall in U; [|exact Hk]. apply negb_true_iff. exact U. }
      assert (ST : dps_step None (PKey k) = (Some (OKey k), None)).
      { cbn [dps_step]. destruct (tag_cls k) eqn:T1; [apply tag_cls_is_tag in T1; congruence|].
        destruct (tag2_cls k) eqn:T2; [|reflexivity]. apply tag2_cls_Some in T2. subst k. discriminate NT. }
      rewrite ST. cbn [fst ocons oresolve oget oget_item].
      rewrite assoc_enc_items in Ak. destruct (assoc k ka); [discriminate|reflexivity].
    + (* dict / instance *)
      exfalso. cbn in Wxp. apply andb_true_iff in Wxp as [Wxp _]. apply andb_true_iff in Wxp as [_ U].
      rewrite obj_class_obj, enc_dict, (obj_class_dict kp U) in NM. discriminate NM.
    + (* instance / dict *)
      exfalso. cbn in Wxa. apply andb_true_iff in Wxa as [Wxa _]. apply andb_true_iff in Wxa as [_ U].
      rewrite obj_class_obj, enc_dict, (obj_class_dict ka U) in NM. discriminate NM.
    + (* two instances: of one class *)
      rewrite !obj_class_obj in NM. cbn [optstr_eqb] in NM.
      apply pystr_eqb_eq in NM. subst ca. exfalso.
      cbn [map fst] in Hk. destruct Hk as [<-|[<-|[]]]; cbn in Ak; rewrite ?pystr_eqb_refl in Ak; discriminate Ak.
Qed.

(* ---- with a positive threshold the encoded run never takes such a pair apart ---- *)
Lemma no_class_split hatom udiff ops c t1 t2 :
  0 < thr_num c -> owf t1 = true -> owf t2 = true ->
  forall e, In e (fst (run_diff hatom udiff ops nopaths nopaths c (enc t1) (enc t2))) ->
    class_split (enc t1) (enc t2) e = false.
Proof.
  intros Hthr W1 W2 e He.
  pose proof (run_diff_dict_level hatom udiff ops nopaths nopaths c (enc t1) (enc t2) (enc_wf t1 W1) (enc_wf t2 W2) e He) as DL.
  unfold class_split. unfold dict_level in DL.
  assert (X : forall P k d1 d2, ep1 e = snoc P (PKey k) ->
              resolve (enc t1) P = Some (VDict d1) -> resolve (enc t2) P = Some (VDict d2) ->
              dict_shortcut nopaths c (keys_of c d1) (keys_of c d2) P = false ->
              match snd (dps None (removelast (ep1 e))), resolve (enc t1) (removelast (ep1 e)), resolve (enc t2) (removelast (ep1 e)) with
              | None, Some d1, Some d2 => negb (optstr_eqb (obj_class d1) (obj_class d2))
              | _, _, _ => false
              end = false).
  { intros P k d1 d2 P1 R1 R2 SC. rewrite P1. unfold snoc. rewrite removelast_last, R1, R2.
    destruct (snd (dps None P)) eqn:SP; [reflexivity|]. apply negb_false_iff.
    destruct (proj1 (resolve_enc_sound P) t1 _ W1 R1) as (x1 & _ & Wx1 & H1).
    destruct (proj1 (resolve_enc_sound P) t2 _ W2 R2) as (x2 & _ & Wx2 & H2).
    rewrite SP in H1, H2. cbn in H1, H2. rewrite H1, H2. symmetry in H1, H2.
    destruct (enc_dict_cases x1 d1 H1) as [(k1 & -> & ->)|(c1 & a1 & -> & ->)];
    destruct (enc_dict_cases x2 d2 H2) as [(k2 & -> & ->)|(c2 & a2 & -> & ->)].
    - cbn in Wx1, Wx2. apply andb_true_iff in Wx1 as [Wx1 _]. apply andb_true_iff in Wx1 as [_ U1].
      apply andb_true_iff in Wx2 as [Wx2 _]. apply andb_true_iff in Wx2 as [_ U2].
      rewrite !enc_dict, (obj_class_dict k1 U1), (obj_class_dict k2 U2). reflexivity.
    - exfalso. cbn in Wx1. apply andb_true_iff in Wx1 as [Wx1 _]. apply andb_true_iff in Wx1 as [_ U].
      rewrite <- map_fst_enc_items in U.
      destruct (shortcut_obj_dict c c2 (VDict (enc_attrs a2)) (VAtom (AStr c2)) (enc_items k1) P Hthr U) as [S1 S2]. congruence.
    - exfalso. cbn in Wx2. apply andb_true_iff in Wx2 as [Wx2 _]. apply andb_true_iff in Wx2 as [_ U].
      rewrite <- map_fst_enc_items in U.
      destruct (shortcut_obj_dict c c1 (VDict (enc_attrs a1)) (VAtom (AStr c1)) (enc_items k2) P Hthr U) as [S1 S2]. congruence.
    - rewrite !obj_class_obj. cbn [optstr_eqb]. destruct (pystr_eqb c1 c2) eqn:EC; [reflexivity|exfalso].
      assert (N : c1 <> c2) by (intros ->; rewrite pystr_eqb_refl in EC; discriminate).
      pose proof (shortcut_obj_obj c c1 c2 (VDict (enc_attrs a1)) (VAtom (AStr c1)) (VDict (enc_attrs a2)) (VAtom (AStr c2)) P Hthr N) as S1.
      congruence. }
  destruct (ekind e); try reflexivity.
  - destruct DL as (P & k & d1 & d2 & P1 & _ & R1 & R2 & _ & _ & SC & _). eapply X; eassumption.
  - destruct DL as (P & k & d1 & d2 & P1 & _ & R1 & R2 & _ & _ & SC & _). eapply X; eassumption.
Qed.

Lemma tagfix_id t1 t2 es : (forall e, In e es -> class_split t1 t2 e = false) -> tagfix t1 t2 es = es.
Proof.
  intros H. unfold tagfix.
  rewrite (filter_all (fun e => negb (class_split t1 t2 e)) es) by (intros e He; rewrite (H e He); reflexivity).
  rewrite (filter_nil (class_split t1 t2) es) by exact H. cbn. apply app_nil_r.
Qed.

Lemma tagfix_id_run hatom udiff ops c t1 t2 :
  0 < thr_num c -> owf t1 = true -> owf t2 = true ->
  tagfix (enc t1) (enc t2) (fst (run_diff hatom udiff ops nopaths nopaths c (enc t1) (enc t2)))
  = fst (run_diff hatom udiff ops nopaths nopaths c (enc t1) (enc t2)).
Proof. intros Hthr W1 W2. apply tagfix_id. apply no_class_split; assumption. Qed.

(* ---- the theorem ---- *)
Section Run.
Variable hatom : atom -> pystr.
Variable udiff : pystr -> pystr -> pystr.
Variable ops : path -> list value -> list value -> list opcode.
Variable c : cfg.

(* an entry of the run that [tagfix] keeps, or the one report it makes for a pair *)
Lemma tagfix_In t1 t2 es e : In e (tagfix t1 t2 es) ->
  (In e es /\ class_split t1 t2 e = false) \/
  (exists e0 P d1 d2, In e0 es /\ P = removelast (ep1 e0) /\ snd (dps None P) = None /\
     resolve t1 P = Some d1 /\ resolve t2 P = Some d2 /\ e = mkEntry KValue P P (Some d1) (Some d2) None).
Proof.
  unfold tagfix. intros H. apply in_app_or in H as [H|H].
  - apply filter_In in H as [H1 H2]. apply negb_true_iff in H2. left. split; assumption.
  - right. apply in_map_iff in H as (P & <- & HP). apply dedup_paths_In in HP.
    apply in_map_iff in HP as (e0 & <- & H0). apply filter_In in H0 as [H0 CS].
    unfold class_split in CS. destruct (ekind e0); try discriminate CS;
      destruct (snd (dps None (removelast (ep1 e0)))) eqn:SP; try discriminate CS;
      destruct (resolve t1 (removelast (ep1 e0))) as [d1|] eqn:R1; try discriminate CS;
      destruct (resolve t2 (removelast (ep1 e0))) as [d2|] eqn:R2; try discriminate CS;
      exists e0, (removelast (ep1 e0)), d1, d2; repeat split; assumption.
Qed.

Theorem orun_faithful t1 t2 :
  thr_num c <= thr_den c -> owf t1 = true -> owf t2 = true ->
  forall e, In e (fst (orun hatom udiff ops c t1 t2)) -> ofaithful t1 t2 e.
Proof.
  intros Hthr W1 W2 oe Hoe. unfold orun in Hoe. cbn [fst] in Hoe.
  apply in_map_iff in Hoe as (e & <- & He).
  pose proof (enc_wf t1 W1) as V1. pose proof (enc_wf t2 W2) as V2.
  apply tagfix_In in He as [[He NS]|(e0 & P & d1 & d2 & He0 & EP & SP & R1 & R2 & ->)].
  2:{ (* the report of a pair of different classes *)
    rewrite dec_entry_eq. cbv zeta. cbn [ekind ep1 ep2 et1 et2 option_map same_otype].
    destruct (proj1 (resolve_enc_sound _) t1 _ W1 R1) as (x1 & O1 & Wx1 & H1).
    destruct (proj1 (resolve_enc_sound _) t2 _ W2 R2) as (x2 & O2 & Wx2 & H2).
    rewrite (reached_wrap _ _ _ Wx1 H1), (reached_wrap _ _ _ Wx2 H2).
    unfold ofaithful. destruct (otype_eqb x1 x2) eqn:T; cbn [oekind oep1 oep2 oet1 oet2]; exists x1, x2; repeat split; assumption. }
  destruct (run_diff_faithful hatom udiff ops nopaths nopaths c (enc t1) (enc t2) Hthr V1 V2 e He) as [F _].
  pose proof (run_diff_dict_level hatom udiff ops nopaths nopaths c (enc t1) (enc t2) V1 V2 e He) as DL.
  rewrite dec_entry_eq. cbv zeta. unfold ofaithful, faithful, dict_level, class_split in *.
  destruct (ekind e) eqn:K; cbn [oekind oep1 oep2 oet1 oet2].
  - (* KType *)
    destruct F as (a & b & E1 & E2 & R1 & R2 & T). rewrite E1, E2. cbn [option_map].
    destruct (proj1 (resolve_enc_sound _) t1 _ W1 R1) as (x1 & O1 & Wx1 & H1).
    destruct (proj1 (resolve_enc_sound _) t2 _ W2 R2) as (x2 & O2 & Wx2 & H2).
    rewrite (reached_wrap _ _ _ Wx1 H1), (reached_wrap _ _ _ Wx2 H2).
    exists x1, x2. repeat split; try assumption. eapply otype_reached; eassumption.
  - (* KValue *)
    destruct F as (a & b & E1 & E2 & R1 & R2 & _). rewrite E1, E2. cbn [option_map same_otype].
    destruct (proj1 (resolve_enc_sound _) t1 _ W1 R1) as (x1 & O1 & Wx1 & H1).
    destruct (proj1 (resolve_enc_sound _) t2 _ W2 R2) as (x2 & O2 & Wx2 & H2).
    rewrite (reached_wrap _ _ _ Wx1 H1), (reached_wrap _ _ _ Wx2 H2).
    destruct (otype_eqb x1 x2) eqn:T; cbn [oekind]; exists x1, x2; repeat split; assumption.
  - (* KDictAdd *)
    destruct F as (b & E1 & E2 & R2 & R1). rewrite E1, E2. cbn [option_map].
    destruct DL as (P & k & d1 & d2 & P1 & P2 & RP1 & RP2 & N1 & N2 & SC & KK & HA & _).
    destruct (HA eq_refl) as [Hk Ak].
    assert (AB : oresolve t1 (dec_path (ep1 e)) = None).
    { rewrite P1 in NS |- *. unfold snoc in NS. rewrite removelast_last, RP1, RP2 in NS.
      eapply (absent_side t2 t1 P k d2 d1); try eassumption.
      intros SP. rewrite SP in NS. apply negb_false_iff in NS.
      destruct (obj_class (VDict d1)), (obj_class (VDict d2)); cbn in NS |- *; try discriminate; try reflexivity.
      rewrite pystr_eqb_sym. exact NS. }
    pose proof (resolve_enc_wrap t2 _ _ W2 R2) as O2.
    destruct (is_attr_path (dec_path (ep1 e))) eqn:IA; cbn [oekind];
      eexists; repeat split; try reflexivity; try eassumption.
  - (* KDictRem *)
    destruct F as (a & E1 & E2 & R1 & R2). rewrite E1, E2. cbn [option_map].
    destruct DL as (P & k & d1 & d2 & P1 & P2 & RP1 & RP2 & N1 & N2 & SC & KK & _ & HR).
    destruct (HR eq_refl) as [Hk Ak].
    assert (AB : oresolve t2 (dec_path (ep2 e)) = None).
    { rewrite P1 in NS. rewrite P2. unfold snoc in NS. rewrite removelast_last, RP1, RP2 in NS.
      eapply (absent_side t1 t2 P k d1 d2); try eassumption.
      intros SP. rewrite SP in NS. apply negb_false_iff in NS. exact NS. }
    pose proof (resolve_enc_wrap t1 _ _ W1 R1) as O1.
    destruct (is_attr_path (dec_path (ep1 e))) eqn:IA; cbn [oekind];
      eexists; repeat split; try reflexivity; try eassumption.
  - (* KIterAdd *)
    destruct F as (b & E1 & E2 & R2 & EP). rewrite E1, E2. cbn [option_map].
    pose proof (resolve_enc_wrap t2 _ _ W2 R2) as O2.
    eexists; repeat split; try reflexivity; try eassumption. rewrite EP. reflexivity.
  - (* KIterRem *)
    destruct F as (a & E1 & E2 & R1 & EP). rewrite E1, E2. cbn [option_map].
    pose proof (resolve_enc_wrap t1 _ _ W1 R1) as O1.
    eexists; repeat split; try reflexivity; try eassumption. rewrite EP. reflexivity.
  - (* KIterMoved *)
    destruct F as (a & b & E1 & E2 & R1 & R2 & PE). destruct DL as (x & y & E1' & E2').
    rewrite E1 in E1'. rewrite E2 in E2'. inversion E1'; subst a. inversion E2'; subst b.
    rewrite E1, E2. cbn [option_map].
    destruct (proj1 (resolve_enc_sound _) t1 _ W1 R1) as (x1 & O1 & Wx1 & H1).
    destruct (proj1 (resolve_enc_sound _) t2 _ W2 R2) as (x2 & O2 & Wx2 & H2).
    rewrite (reached_wrap _ _ _ Wx1 H1), (reached_wrap _ _ _ Wx2 H2).
    exists x1, x2. repeat split; try assumption.
    destruct (snd (dps None (ep1 e))); cbn in H1; [destruct H1 as (? & _ & H1); discriminate H1|].
    destruct (snd (dps None (ep2 e))); cbn in H2; [destruct H2 as (? & _ & H2); discriminate H2|].
    destruct x1; try discriminate H1. destruct x2; try discriminate H2.
    cbn in H1, H2. inversion H1; inversion H2; subst. exact PE.
  - (* KSetAdd *)
    destruct F as (y & s & E1 & E2 & R2 & SH). rewrite E1, E2. cbn [option_map].
    destruct (proj1 (resolve_enc_sound _) t2 _ W2 R2) as (x2 & O2 & Wx2 & H2).
    exists y, x2. repeat split; try assumption.
    + destruct (snd (dps None (ep2 e))); reflexivity.
    + destruct (snd (dps None (ep2 e))); cbn in H2.
      * destruct H2 as (? & _ & ->). destruct SH.
      * subst s. destruct x2; try (destruct SH; fail); exact SH.
  - (* KSetRem *)
    destruct F as (x & s & E1 & E2 & R1 & SH). rewrite E1, E2. cbn [option_map].
    destruct (proj1 (resolve_enc_sound _) t1 _ W1 R1) as (x1 & O1 & Wx1 & H1).
    exists x, x1. repeat split; try assumption.
    + destruct (snd (dps None (ep1 e))); reflexivity.
    + destruct (snd (dps None (ep1 e))); cbn in H1.
      * destruct H1 as (? & _ & ->). destruct SH.
      * subst s. destruct x1; try (destruct SH; fail); exact SH.
  - exact F.
Qed.

(* a changed value really differs, for every values_changed entry that the encoded run did not
   manufacture from an addition and a removal (finding K17 concerns those) *)
Theorem orun_changed_differ t1 t2 :
  thr_num c <= thr_den c -> owf t1 = true -> owf t2 = true ->
  forall e, In e (fst (diff hatom udiff ops nopaths nopaths c (enc t1) (enc t2) [] [])) -> ekind e = KValue ->
    In (dec_entry e) (fst (orun hatom udiff ops c t1 t2)) /\
    forall a b, oet1 (dec_entry e) = Some a -> oet2 (dec_entry e) = Some b -> opy_eqv a b = false.
Proof.
  intros Hthr W1 W2 e He K.
  pose proof (enc_wf t1 W1) as V1. pose proof (enc_wf t2 W2) as V2.
  split.
  - unfold orun. cbn [fst]. apply in_map. unfold tagfix. apply in_or_app. left. apply filter_In. split.
    + unfold run_diff. destruct (diff hatom udiff ops nopaths nopaths c (enc t1) (enc t2) [] []) as [es rec]. cbn [fst] in *.
      unfold mutual. apply in_flat_map. exists e. split; [exact He|]. rewrite K. left. reflexivity.
    + unfold class_split. rewrite K. reflexivity.
  - pose proof (diff_faithful hatom udiff ops nopaths nopaths c (enc t1) (enc t2) Hthr (enc t1) (enc t2) [] [] eq_refl V1 V2 eq_refl eq_refl) as HF.
    pose proof (diff_dict_level hatom udiff ops nopaths nopaths c (enc t1) (enc t2) (enc t1) (enc t2) [] V1 V2 eq_refl eq_refl) as HL.
    eapply Forall_forall in HF; [|exact He]. eapply Forall_forall in HL; [|exact He].
    unfold faithful in HF. unfold dict_level in HL. rewrite K in HF, HL.
    destruct HF as (a0 & b0 & E1 & E2 & R1 & R2 & NE). specialize (NE eq_refl).
    destruct (proj1 (resolve_enc_sound _) t1 _ W1 R1) as (x1 & O1 & Wx1 & H1).
    destruct (proj1 (resolve_enc_sound _) t2 _ W2 R2) as (x2 & O2 & Wx2 & H2).
    intros a b Ea Eb. rewrite dec_entry_eq in Ea, Eb. cbv zeta in Ea, Eb. cbn [oet1 oet2] in Ea, Eb.
    rewrite E1 in Ea. rewrite E2 in Eb. cbn [option_map] in Ea, Eb.
    rewrite (reached_wrap _ _ _ Wx1 H1) in Ea. rewrite (reached_wrap _ _ _ Wx2 H2) in Eb.
    inversion Ea; subst a. inversion Eb; subst b. clear Ea Eb.
    destruct (opy_eqv x1 x2) eqn:EQ; [exfalso|reflexivity].
    assert (X : py_eqv a0 b0 = true); [|congruence].
    destruct HL as [SP|(x & y & A1 & A2)].
    + rewrite <- SP in H2. destruct (snd (dps None (ep1 e))) as [cls|]; cbn in H1, H2.
      * destruct H1 as (at1 & -> & ->), H2 as (at2 & -> & ->).
        pose proof (opy_eqv_enc _ _ EQ) as PE. rewrite !enc_obj, py_eqv_dict in PE.
        apply andb_true_iff in PE as [_ PE]. cbn [dict_go assoc] in PE. rewrite py_eq_otag, pystr_eqb_refl in PE.
        apply andb_true_iff in PE as [PE _]. exact PE.
      * subst a0 b0. apply opy_eqv_enc. exact EQ.
    + rewrite E1 in A1. rewrite E2 in A2. inversion A1; subst a0. inversion A2; subst b0.
      destruct (snd (dps None (ep1 e))); cbn in H1; [destruct H1 as (? & _ & H1); discriminate H1|].
      destruct (snd (dps None (ep2 e))); cbn in H2; [destruct H2 as (? & _ & H2); discriminate H2|].
      rewrite H1, H2. apply opy_eqv_enc. exact EQ.
Qed.

End Run.

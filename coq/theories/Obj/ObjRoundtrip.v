(** Block Obj - C01 for values with class instances: t1 + Delta(DeepDiff(t1, t2)) is t2 up
    to the order of dict items, attributes and set members.  Corollary of
    Delta/DeltaRoundtrip.v on the encodings + decoding of an encoding known up to order. *)
From Coq Require Import List ZArith NArith Bool Arith Lia Permutation.
Import ListNotations.
From DD Require Import Base.PyStr Base.Value Base.ValueFacts Path.PathModel Diff.Tree Diff.DiffModel
  Diff.DiffFacts Diff.DiffFaithful Delta.DeltaModel Delta.DeltaRun Delta.DeltaGuard Delta.DeltaGood Delta.DeltaRoundtrip
  Obj.ObjValue Obj.ObjModel Obj.ObjFacts Obj.ObjFaithful.

(* ---- typed equality up to dict insertion order, attribute order and set order ---- *)
Fixpoint oveqb (a b : ovalue) {struct a} : bool :=
  match a, b with
  | OAtom x, OAtom y => atom_eqb x y
  | OList xs, OList ys | OTuple xs, OTuple ys =>
      (fix go (xs ys : list ovalue) {struct xs} : bool :=
         match xs, ys with
         | [], [] => true
         | x :: xs', y :: ys' => oveqb x y && go xs' ys'
         | _, _ => false
         end) xs ys
  | ODict xs, ODict ys =>
      Nat.eqb (length xs) (length ys) &&
      forallb (fun k => has_atom k (map fst xs)) (map fst ys) &&
      (fix go (l : list (atom * ovalue)) : bool :=
         match l with
         | [] => true
         | (k, v) :: l' => match lookup k ys with
                           | Some v' => oveqb v v'
                           | None => false
                           end && go l'
         end) xs
  | OSet xs, OSet ys | OFrozen xs, OFrozen ys =>
      Nat.eqb (length xs) (length ys) && forallb (fun x => has_atom x ys) xs && forallb (fun y => has_atom y xs) ys
  | OObj c1 xs, OObj c2 ys =>
      pystr_eqb c1 c2 && Nat.eqb (length xs) (length ys) &&
      forallb (fun s => existsb (pystr_eqb s) (map fst xs)) (map fst ys) &&
      (fix go (l : list (pystr * ovalue)) : bool :=
         match l with
         | [] => true
         | (s, v) :: l' => match assoc_attr s ys with
                           | Some v' => oveqb v v'
                           | None => false
                           end && go l'
         end) xs
  | _, _ => false
  end.

Lemma oveqb_list xs ys : oveqb (OList xs) (OList ys) = all2 oveqb xs ys.
Proof. cbn. revert ys; induction xs as [|x xs IH]; intros [|y ys]; cbn; try reflexivity. rewrite IH. reflexivity. Qed.
Lemma oveqb_tuple xs ys : oveqb (OTuple xs) (OTuple ys) = all2 oveqb xs ys.
Proof. cbn. revert ys; induction xs as [|x xs IH]; intros [|y ys]; cbn; try reflexivity. rewrite IH. reflexivity. Qed.

Definition odict_veq (ys : list (atom * ovalue)) :=
  fix go (l : list (atom * ovalue)) : bool :=
    match l with
    | [] => true
    | (k, v) :: l' => match lookup k ys with
                      | Some v' => oveqb v v'
                      | None => false
                      end && go l'
    end.
Definition oattr_veq (ys : list (pystr * ovalue)) :=
  fix go (l : list (pystr * ovalue)) : bool :=
    match l with
    | [] => true
    | (s, v) :: l' => match assoc_attr s ys with
                      | Some v' => oveqb v v'
                      | None => false
                      end && go l'
    end.
Lemma oveqb_dict xs ys :
  oveqb (ODict xs) (ODict ys) =
  Nat.eqb (length xs) (length ys) && forallb (fun k => has_atom k (map fst xs)) (map fst ys) && odict_veq ys xs.
Proof. reflexivity. Qed.
Lemma oveqb_obj c1 c2 xs ys :
  oveqb (OObj c1 xs) (OObj c2 ys) =
  pystr_eqb c1 c2 && Nat.eqb (length xs) (length ys) &&
  forallb (fun s => existsb (pystr_eqb s) (map fst xs)) (map fst ys) && oattr_veq ys xs.
Proof. reflexivity. Qed.

Lemma odict_veq_intro ys xs :
  (forall k v, In (k, v) xs -> exists v', lookup k ys = Some v' /\ oveqb v v' = true) -> odict_veq ys xs = true.
Proof.
  induction xs as [|[k v] xs IH]; intros H; cbn; [reflexivity|].
  destruct (H k v (or_introl eq_refl)) as (v' & L & E). rewrite L, E. cbn. apply IH.
  intros k2 v2 H2. apply H. right. exact H2.
Qed.
Lemma oattr_veq_intro ys xs :
  (forall s v, In (s, v) xs -> exists v', assoc_attr s ys = Some v' /\ oveqb v v' = true) -> oattr_veq ys xs = true.
Proof.
  induction xs as [|[k v] xs IH]; intros H; cbn; [reflexivity|].
  destruct (H k v (or_introl eq_refl)) as (v' & L & E). rewrite L, E. cbn. apply IH.
  intros k2 v2 H2. apply H. right. exact H2.
Qed.

(* ---- lookups through the encoding ---- *)
Lemma lookup_enc_items k kvs : lookup k (enc_items kvs) = option_map enc (lookup k kvs).
Proof.
  unfold lookup, enc_items. induction kvs as [|[k' v] kvs IH]; [reflexivity|].
  cbn [map find fst snd].
  destruct (atom_eqb k' k); [reflexivity|exact IH].
Qed.
Lemma lookup_enc_attrs s attrs : lookup (AStr s) (enc_attrs attrs) = option_map enc (assoc_attr s attrs).
Proof.
  unfold lookup, enc_attrs. induction attrs as [|[s' v] attrs IH]; [reflexivity|].
  cbn [map find fst snd atom_eqb assoc_attr].
  destruct (pystr_eqb s' s); [reflexivity|exact IH].
Qed.
Lemma lookup_Some_In {B} k (l : list (atom * B)) v : lookup k l = Some v -> In (k, v) l.
Proof. apply lookup_In. Qed.

Lemma all2_dec xs : forall ys,
  Forall (fun y => forall v, owf y = true -> veqb v (enc y) = true -> oveqb (dec v) y = true) ys ->
  forallb owf ys = true -> all2 veqb xs (map enc ys) = true -> all2 oveqb (map dec xs) ys = true.
Proof.
  induction xs as [|x xs IH]; intros [|y ys] HF W H; cbn in *; try discriminate; [reflexivity|].
  apply Forall_cons_iff in HF as [Hy HF]. apply andb_true_iff in W as [Wy W]. apply andb_true_iff in H as [H1 H2].
  rewrite (Hy x Wy H1). cbn. apply IH; assumption.
Qed.

Lemma in_two {A} (a b x y : A) : a <> b -> In a [x; y] -> In b [x; y] -> (x = a /\ y = b) \/ (x = b /\ y = a).
Proof.
  intros N [<-|[<-|[]]] [<-|[<-|[]]]; try contradiction; [left|right]; split; reflexivity.
Qed.

Lemma otag_neq_otag2 cls : otag cls <> otag2 cls.
Proof. discriminate. Qed.
Lemma lookup_obj_tag cls (v w : value) : lookup (otag cls) [(otag cls, v); (otag2 cls, w)] = Some v.
Proof. unfold lookup. cbn [find fst snd]. rewrite atom_eqb_refl. reflexivity. Qed.
Lemma lookup_obj_tag2 cls (v w : value) : lookup (otag2 cls) [(otag cls, v); (otag2 cls, w)] = Some w.
Proof.
  unfold lookup. cbn [find fst snd]. assert (E : atom_eqb (otag cls) (otag2 cls) = false) by reflexivity.
  rewrite E, atom_eqb_refl. reflexivity.
Qed.

(* the attribute dict *)
Lemma attrs_dec cls attrs xs1 :
  Forall (fun av => forall v, owf (snd av) = true -> veqb v (enc (snd av)) = true -> oveqb (dec v) (snd av) = true) attrs ->
  forallb (fun av => owf (snd av)) attrs = true ->
  veqb (VDict xs1) (VDict (enc_attrs attrs)) = true ->
  oveqb (OObj cls (dec_attrs xs1)) (OObj cls attrs) = true.
Proof.
  intros IH W H. rewrite veqb_dict in H. apply andb_true_iff in H as [H H3]. apply andb_true_iff in H as [H1 H2].
  rewrite oveqb_obj, pystr_eqb_refl. cbn [andb].
  apply andb_true_iff. split; [apply andb_true_iff; split|].
  - unfold dec_attrs, enc_attrs in *. rewrite !map_length in *. exact H1.
  - apply forallb_forall. intros s Hs. apply existsb_exists. exists s. split; [|apply pystr_eqb_refl].
    assert (Hk : In (AStr s) (map fst (enc_attrs attrs))).
    { rewrite map_fst_enc_attrs. apply in_map. exact Hs. }
    eapply forallb_forall in H2; [|exact Hk]. apply has_atom_In in H2.
    apply in_map_iff in H2 as ([k x] & E & Hin). cbn in E. subst k.
    apply in_map_iff. exists (s, dec x). split; [reflexivity|].
    unfold dec_attrs. apply in_map_iff. exists (AStr s, x). split; [reflexivity|exact Hin].
  - apply oattr_veq_intro. intros s v Hin. unfold dec_attrs in Hin. apply in_map_iff in Hin as ([k x] & E & Hin).
    cbn in E. inversion E; subst s v. clear E.
    destruct (dict_veq_elim _ _ H3 k x Hin) as (v' & L & E).
    pose proof (lookup_In _ _ _ L) as Hk. unfold enc_attrs in Hk. apply in_map_iff in Hk as ([s w] & E0 & Hw).
    cbn in E0. inversion E0; subst k v'. clear E0. cbn [str_of_key].
    rewrite lookup_enc_attrs in L. destruct (assoc_attr s attrs) as [w'|] eqn:A; [|discriminate].
    cbn in L. exists w'. split; [reflexivity|].
    assert (Hw' : In (s, w') attrs).
    { clear -A. induction attrs as [|[s0 y] attrs IHa]; cbn in A; [discriminate|].
      destruct (pystr_eqb s0 s) eqn:E; [apply pystr_eqb_eq in E; inversion A; subst; left; reflexivity|right; apply IHa; exact A]. }
    eapply Forall_forall in IH; [|exact Hw']. cbn in IH. apply IH.
    + eapply forallb_forall in W; [|exact Hw']. exact W.
    + inversion L as [L']. rewrite L'. exact E.
Qed.

Theorem dec_veqb : forall t v, owf t = true -> veqb v (enc t) = true -> oveqb (dec v) t = true.
Proof.
  induction t as [a|ys IH|ys IH|kvs IH|ys|ys|cls attrs IH] using ovalue_ind'; intros v W H.
  - destruct v; try discriminate H. exact H.
  - destruct v as [ |xs| | | | ]; try discriminate H. cbn [enc] in H. rewrite veqb_list in H.
    cbn [dec]. rewrite oveqb_list. cbn in W. apply all2_dec; assumption.
  - destruct v as [ | |xs| | | ]; try discriminate H. cbn [enc] in H. rewrite veqb_tuple in H.
    cbn [dec]. rewrite oveqb_tuple. cbn in W. apply all2_dec; assumption.
  - destruct v as [ | | |xs| | ]; try discriminate H. rewrite enc_dict in H.
    cbn in W. apply andb_true_iff in W as [W W3]. apply andb_true_iff in W as [W1 W2].
    assert (PK : Permutation (map fst (enc_items kvs)) (map fst xs)).
    { apply veqb_dict_keys; [exact H|]. rewrite map_fst_enc_items. apply nodup_NoDup'. exact W1. }
    assert (U : forallb (fun k => negb (is_tag k)) (map fst xs) = true).
    { apply forallb_forall. intros k Hk. eapply Permutation_in in Hk; [|apply Permutation_sym; exact PK].
      rewrite map_fst_enc_items in Hk. eapply forallb_forall in W2; [|exact Hk]. exact W2. }
    rewrite (dec_dict_plain xs U). rewrite veqb_dict in H. apply andb_true_iff in H as [H H3]. apply andb_true_iff in H as [H1 H2].
    rewrite oveqb_dict. apply andb_true_iff. split; [apply andb_true_iff; split|].
    + unfold dec_items, enc_items in *. rewrite !map_length in *. exact H1.
    + rewrite map_fst_enc_items in H2. unfold dec_items. rewrite map_map. cbn [fst]. exact H2.
    + apply odict_veq_intro. intros k w Hin. unfold dec_items in Hin. apply in_map_iff in Hin as ([k0 x] & E & Hin).
      cbn in E. inversion E; subst k0 w. clear E.
      destruct (dict_veq_elim _ _ H3 k x Hin) as (v' & L & E).
      rewrite lookup_enc_items in L. destruct (lookup k kvs) as [w|] eqn:LK; [|discriminate]. cbn in L. inversion L; subst v'.
      exists w. split; [reflexivity|]. pose proof (lookup_In _ _ _ LK) as Hw.
      eapply Forall_forall in IH; [|exact Hw]. cbn in IH. apply IH; [|exact E].
      eapply forallb_forall in W3; [|exact Hw]. exact W3.
  - destruct v; try discriminate H. exact H.
  - destruct v; try discriminate H. exact H.
  - destruct v as [ | | |xs| | ]; try discriminate H. rewrite enc_obj in H.
    cbn in W. apply andb_true_iff in W as [W1 W2].
    rewrite veqb_dict in H. apply andb_true_iff in H as [H H3]. apply andb_true_iff in H as [H1 H2].
    apply Nat.eqb_eq in H1. cbn [length] in H1.
    destruct xs as [|[k1 x1] [|[k2 x2] [|]]]; try discriminate H1.
    cbn [map fst forallb] in H2. apply andb_true_iff in H2 as [Ha H2]. apply andb_true_iff in H2 as [Hb _].
    apply has_atom_In in Ha, Hb.
    pose proof (dict_veq_elim _ _ H3) as EL.
    destruct (in_two _ _ _ _ (otag_neq_otag2 cls) Ha Hb) as [[-> ->]|[-> ->]].
    + destruct (EL _ _ (or_introl eq_refl)) as (v1 & L1 & E1).
      destruct (EL _ _ (or_intror (or_introl eq_refl))) as (v2 & L2 & E2).
      rewrite lookup_obj_tag in L1. rewrite lookup_obj_tag2 in L2. inversion L1; subst v1. inversion L2; subst v2.
      destruct x1 as [ | | |xs1| | ]; try discriminate E1.
      destruct x2 as [a2| | | | | ]; try discriminate E2. cbn in E2. apply atom_eqb_eq in E2. subst a2.
      rewrite dec_obj. apply attrs_dec; assumption.
    + destruct (EL _ _ (or_introl eq_refl)) as (v1 & L1 & E1).
      destruct (EL _ _ (or_intror (or_introl eq_refl))) as (v2 & L2 & E2).
      rewrite lookup_obj_tag2 in L1. rewrite lookup_obj_tag in L2. inversion L1; subst v1. inversion L2; subst v2.
      destruct x2 as [ | | |xs1| | ]; try discriminate E2.
      destruct x1 as [a1| | | | | ]; try discriminate E1. cbn in E1. apply atom_eqb_eq in E1. subst a1.
      rewrite dec_obj_swapped. apply attrs_dec; assumption.
Qed.

(* ---- the round trip ---- *)
Section ORoundtrip.
Variable hatom : atom -> pystr.
Variable udiff : pystr -> pystr -> pystr.
Variable ops : path -> list value -> list value -> list opcode.
Variable c : cfg.
Variable conv : ty -> value -> option value.
Variables bidir always : bool.
Hypothesis Hinj : forall a b, hatom a = hatom b -> a = b.
Hypothesis Hconv : forall ty0 v v', conv ty0 v = Some v' -> type_of v' = ty0.

(* with a positive threshold the payload is built from the entries of the encoded run *)
Lemma odelta_eq t1 t2 : 0 < thr_num c -> owf t1 = true -> owf t2 = true ->
  odelta hatom udiff ops c conv bidir always t1 t2 =
  to_delta conv bidir always ops (enc t1) (enc t2)
    (fst (run_diff hatom udiff ops nos nos c (enc t1) (enc t2)))
    (snd (run_diff hatom udiff ops nos nos c (enc t1) (enc t2))).
Proof.
  intros Hthr W1 W2. unfold odelta. cbv zeta. rewrite (tagfix_id_run hatom udiff ops c t1 t2 Hthr W1 W2). reflexivity.
Qed.

Theorem oroundtrip_at ro ao t1 t2 :
  0 < thr_num c -> owf t1 = true -> owf t2 = true ->
  guards c conv bidir always (enc t1) (enc t2) -> opsv ops (enc t1) (enc t2) [] ->
  orders_ok_at ro ao (odelta hatom udiff ops c conv bidir always t1 t2) ->
  exists t2', oapply conv ro ao (odelta hatom udiff ops c conv bidir always t1 t2) t1 = (t2', 0) /\ oveqb t2' t2 = true.
Proof.
  intros Hpos W1 W2 G OV OR. rewrite (odelta_eq t1 t2 Hpos W1 W2) in *.
  destruct (roundtrip_at hatom udiff ops c conv bidir always Hinj Hconv ro ao (enc t1) (enc t2) G OV OR) as (v & A & V).
  exists (dec v). split.
  - unfold oapply. rewrite A. reflexivity.
  - apply dec_veqb; assumption.
Qed.

Theorem oroundtrip ro ao t1 t2 :
  (forall p xs ys, forallb is_atom xs = true -> forallb is_atom ys = true -> valid_ops xs ys (ops p xs ys)) ->
  ro_ok ro -> ao_ok ao -> 0 < thr_num c -> owf t1 = true -> owf t2 = true ->
  guards c conv bidir always (enc t1) (enc t2) ->
  exists t2', oapply conv ro ao (odelta hatom udiff ops c conv bidir always t1 t2) t1 = (t2', 0) /\ oveqb t2' t2 = true.
Proof.
  intros Hops Hro Hao Hpos W1 W2 G. rewrite (odelta_eq t1 t2 Hpos W1 W2).
  destruct (roundtrip hatom udiff ops c conv bidir always Hinj Hconv ro ao (enc t1) (enc t2) Hops Hro Hao G) as (v & A & V).
  exists (dec v). split.
  - unfold oapply. rewrite A. reflexivity.
  - apply dec_veqb; assumption.
Qed.

End ORoundtrip.

(** Block Obj - C09 for paths with attribute elements: the text DeepDiff prints for a
    location below class instances (root['k'].attr[0]) is parsed back by
    _path_to_elements into the same elements with their GET / GETATTR actions, and
    deepdiff.extract on it follows the keys / getattr steps.  The automaton lemmas of
    Path/PathProofs.v are re-used for the bracket elements; the dot elements are new. *)
From Coq Require Import List ZArith NArith Bool String Lia ZifyBool.
Import ListNotations.
From DD Require Import Base.Sx Base.PyStr Base.Value Path.PathModel Path.PathLex Path.PathProofs
  Diff.Tree Obj.ObjValue Obj.ObjModel Obj.ObjText.
Local Open Scope N_scope.

(* ---- the guard: ASCII identifiers that are not private and not a literal ---- *)
Definition identch (c : N) : bool :=
  ((65 <=? c) && (c <=? 90)) || ((97 <=? c) && (c <=? 122)) || (c =? cUS) || is_digit c.
Definition attr_ok (s : pystr) : bool :=
  match s with
  | [] => false
  | c :: _ => negb (is_digit c) && forallb identch s && negb (is_prefix [cUS; cUS] s)
              && negb (pystr_eqb s (s2p "None")) && negb (pystr_eqb s (s2p "True")) && negb (pystr_eqb s (s2p "False"))
  end.
Definition okey_ok (k : okey) : bool :=
  match k with
  | OKey a => key_ok (PKey a)
  | OIdx _ => true
  | OAttr s => attr_ok s
  | OClass => false          (* never part of a reported path; its text .__class__ is dropped by the parser *)
  end.
Definition opath_ok (p : opath) : bool := forallb okey_ok p.

Lemma identch_facts c : identch c = true ->
  is_quote c = false /\ (c =? cLB) = false /\ (c =? cRB) = false /\ (c =? cDOT) = false /\
  (c =? cESC) = false /\ (c =? cBS) = false /\ is_ws c = false /\ exotic c = false /\
  (c =? cMINUS) = false /\ (c =? cPLUS) = false.
Proof.
  unfold identch, is_quote, is_ws, exotic, is_digit, cSQ, cDQ, cLB, cRB, cDOT, cESC, cBS, cUS, cNL, cMINUS, cPLUS.
  intros H. repeat split; lia.
Qed.

Lemma existsb_false_of {A} (p q : A -> bool) l :
  (forall x, p x = true -> q x = false) -> forallb p l = true -> existsb q l = false.
Proof.
  intros Hpq. induction l as [|x r IH]; cbn; [reflexivity|]. intros H. apply andb_true_iff in H as [Hx Hr].
  rewrite (Hpq x Hx), (IH Hr). reflexivity.
Qed.

Lemma last_identch s d : s <> [] -> forallb identch s = true -> identch (last s d) = true.
Proof.
  induction s as [|c r IH]; [congruence|]. intros _ H. cbn [forallb] in H. apply andb_true_iff in H as [Hc Hr].
  destruct r as [|c' r']; [exact Hc|]. change (last (c :: c' :: r') d) with (last (c' :: r') d). apply IH; [discriminate|exact Hr].
Qed.

(* literal_eval fails on an identifier that is not None / True / False *)
Lemma literal_eval_ident s : attr_ok s = true -> literal_eval s = LFail.
Proof.
  destruct s as [|c r]; [discriminate|]. unfold attr_ok. intros H.
  apply andb_true_iff in H as [H HF]. apply andb_true_iff in H as [H HT]. apply andb_true_iff in H as [H HN].
  apply andb_true_iff in H as [H _]. apply andb_true_iff in H as [Hd Hall].
  apply negb_true_iff in HF, HT, HN, Hd.
  pose proof Hall as Hall'. cbn [forallb] in Hall'. apply andb_true_iff in Hall' as [Hc _].
  destruct (identch_facts c Hc) as (Q & LB & RB & DT & ES & BS & WS & EX & MI & PL).
  rewrite literal_eval_core; [|discriminate|exact WS|].
  2:{ pose proof (last_identch (c :: r) 0 ltac:(discriminate) Hall) as HL.
      destruct (identch_facts _ HL) as (_ & _ & _ & _ & _ & _ & WL & _). exact WL. }
  unfold core_eval.
  rewrite (existsb_false_of identch is_quote (c :: r)) by (first [exact Hall | intros x Hx; apply (identch_facts x Hx)]).
  rewrite HN, HT, HF.
  assert (E3 : pystr_eqb (c :: r) (s2p "...") = false).
  { change (s2p "...") with [cDOT; cDOT; cDOT]. cbn [pystr_eqb]. rewrite DT. reflexivity. }
  rewrite E3.
  rewrite (existsb_false_of identch exotic (c :: r)) by (first [exact Hall | intros x Hx; apply (identch_facts x Hx)]).
  assert (E4 : has_char cLB (c :: r) = false).
  { unfold has_char. apply (existsb_false_of identch); [|exact Hall]. intros x Hx. rewrite N.eqb_sym. apply (identch_facts x Hx). }
  rewrite E4. cbn [orb andb].
  unfold number_eval. rewrite MI, PL, Hd, DT. reflexivity.
Qed.

(* _add_to_elements on an attribute name: the name, by GETATTR *)
Lemma add_attr els s : attr_ok s = true -> add_to_elements els s IDot = Some (els ++ [(AStr s, GETATTR)]).
Proof.
  intros H. pose proof (literal_eval_ident s H) as L. unfold add_to_elements.
  destruct s as [|c r]; [discriminate|]. unfold attr_ok in H.
  apply andb_true_iff in H as [H _]. apply andb_true_iff in H as [H _]. apply andb_true_iff in H as [H _].
  apply andb_true_iff in H as [H HP]. apply andb_true_iff in H as [Hd Hall]. apply negb_true_iff in HP.
  rewrite HP.
  assert (E1 : has_char cESC (c :: r) = false).
  { unfold has_char. apply (existsb_false_of identch); [|exact Hall]. intros x Hx. rewrite N.eqb_sym. apply (identch_facts x Hx). }
  assert (E2 : has_char cBS (c :: r) = false).
  { unfold has_char. apply (existsb_false_of identch); [|exact Hall]. intros x Hx. rewrite N.eqb_sym. apply (identch_facts x Hx). }
  rewrite E1, E2, L. cbn [orb]. unfold strip_outer.
  cbn [forallb] in Hall. apply andb_true_iff in Hall as [Hc _].
  destruct (identch_facts c Hc) as (Q & _). rewrite Q. reflexivity.
Qed.

(* stringify_element leaves an identifier alone *)
Lemma stringify_ident s : attr_ok s = true -> stringify_element s None = s.
Proof.
  intros H. unfold stringify_element.
  assert (Hall : forallb identch s = true).
  { destruct s as [|c r]; [discriminate|]. unfold attr_ok in H.
    apply andb_true_iff in H as [H _]. apply andb_true_iff in H as [H _]. apply andb_true_iff in H as [H _].
    apply andb_true_iff in H as [H _]. apply andb_true_iff in H as [_ H]. exact H. }
  assert (E1 : has_char cSQ s = false).
  { unfold has_char. apply (existsb_false_of identch); [|exact Hall]. intros x Hx.
    destruct (identch_facts x Hx) as (Q & _). unfold is_quote in Q. apply orb_false_iff in Q as [Q _]. rewrite N.eqb_sym. exact Q. }
  assert (E2 : has_char cDQ s = false).
  { unfold has_char. apply (existsb_false_of identch); [|exact Hall]. intros x Hx.
    destruct (identch_facts x Hx) as (Q & _). unfold is_quote in Q. apply orb_false_iff in Q as [_ Q]. rewrite N.eqb_sym. exact Q. }
  rewrite E1, E2. reflexivity.
Qed.

(* ---- the automaton in the state "inside a dot element" ---- *)
Definition pend (els : list element) (elem : pystr) (prev : option N) : pst :=
  mk_pst els elem IDot prev O false None false.

Lemma step_dot_clean els prev : opt_is prev cESC = false -> step (clean els prev) cDOT = pend els [] (Some cDOT).
Proof. intros H. unfold step, clean. rewrite H. reflexivity. Qed.

Lemma step_ident els elem prev c :
  identch c = true -> opt_is prev cESC = false ->
  step (pend els elem prev) c = pend els (elem ++ [c]) (Some c).
Proof.
  intros Hc Hp. destruct (identch_facts c Hc) as (Q & LB & RB & DT & _).
  unfold step, pend. rewrite Hp, Q, LB, DT, RB. reflexivity.
Qed.

Lemma run_ident els s : forall elem prev,
  forallb identch s = true -> opt_is prev cESC = false ->
  run (pend els elem prev) s = pend els (elem ++ s) (lastc prev s) /\ opt_is (lastc prev s) cESC = false.
Proof.
  induction s as [|c r IH]; intros elem prev H Hp.
  - rewrite app_nil_r. split; [reflexivity|exact Hp].
  - cbn [forallb] in H. apply andb_true_iff in H as [Hc Hr].
    rewrite run_cons, step_ident by assumption.
    assert (Hp' : opt_is (Some c) cESC = false) by (cbn; apply (identch_facts c Hc)).
    destruct (IH (elem ++ [c]) (Some c) Hr Hp') as [E1 E2].
    rewrite E1, <- app_assoc. split; [reflexivity|exact E2].
Qed.

Lemma attr_ok_all s : attr_ok s = true -> forallb identch s = true.
Proof.
  destruct s as [|c r]; [discriminate|]. unfold attr_ok. intros H.
  apply andb_true_iff in H as [H _]. apply andb_true_iff in H as [H _]. apply andb_true_iff in H as [H _].
  apply andb_true_iff in H as [H _]. apply andb_true_iff in H as [_ H]. exact H.
Qed.

(* leaving a dot element *)
Lemma step_dot_pend els s prev :
  attr_ok s = true -> opt_is prev cESC = false ->
  step (pend els s prev) cDOT = pend (els ++ [(AStr s, GETATTR)]) [] (Some cDOT).
Proof. intros Hs Hp. unfold step, pend. rewrite Hp. cbn. unfold with_add. rewrite add_attr by exact Hs. reflexivity. Qed.

Lemma step_lb_pend els s prev :
  attr_ok s = true -> opt_is prev cESC = false ->
  step (pend els s prev) cLB = mk_pst (els ++ [(AStr s, GETATTR)]) [] IBr (Some cLB) O false None false.
Proof. intros Hs Hp. unfold step, pend. rewrite Hp. cbn. unfold with_add. rewrite add_attr by exact Hs. reflexivity. Qed.

Lemma finish_pend els s prev : attr_ok s = true -> finish (pend els s prev) = Some (els ++ [(AStr s, GETATTR)]).
Proof. intros Hs. unfold finish, pend. cbn. unfold with_add. rewrite add_attr by exact Hs. reflexivity. Qed.

(* ---- a bracket element opened from a dot element: `brackets` is empty there, and the
   automaton behaves as with one open bracket ---- *)
Definition brel (s1 s0 : pst) : Prop :=
  s1 = s0 \/
  exists els elem prev inq quote bad,
    s1 = mk_pst els elem IBr prev 1 inq quote bad /\ s0 = mk_pst els elem IBr prev O inq quote bad.

Lemma step_brel s1 s0 c : brel s1 s0 -> brel (step s1 c) (step s0 c).
Proof.
  intros [->|(els & elem & prev & inq & quote & bad & -> & ->)]; [left; reflexivity|].
  unfold step.
  destruct (opt_is prev cESC); [right; repeat eexists|].
  destruct (is_quote c).
  { destruct (inq && negb (opt_is quote c)); [right; repeat eexists|].
    destruct (negb inq); [right; repeat eexists|].
    destruct (with_add els (elem ++ [c]) IBr bad). right; repeat eexists. }
  destruct inq; [right; repeat eexists|].
  destruct (c =? cLB); [right; repeat eexists|].
  destruct (c =? cDOT); [right; repeat eexists|].
  destruct (c =? cRB); [|right; repeat eexists].
  cbn [Nat.pred]. destruct (with_add els elem IBr bad). left. reflexivity.
Qed.

Lemma run_brel s : forall s1 s0, brel s1 s0 -> brel (run s1 s) (run s0 s).
Proof.
  induction s as [|c r IH]; intros s1 s0 H; [exact H|]. rewrite !run_cons. apply IH. apply step_brel. exact H.
Qed.

Lemma key_body_from_dot els k :
  key_ok k = true ->
  run (mk_pst els [] IBr (Some cLB) O false None false) (stringify_param (key_atom k) ++ [cRB])
  = clean (els ++ [(key_atom k, GET)]) (Some cRB).
Proof.
  intros Hk. pose proof (key_step els None k eq_refl Hk) as K.
  unfold render_key in K. cbn [app] in K. rewrite run_cons, step_open in K by reflexivity.
  assert (B : brel (mk_pst els [] IBr (Some cLB) 1 false None false) (mk_pst els [] IBr (Some cLB) O false None false)).
  { right. repeat eexists. }
  apply (run_brel (stringify_param (key_atom k) ++ [cRB])) in B. rewrite K in B.
  destruct B as [B|(? & ? & ? & ? & ? & ? & B & _)]; [symmetry; exact B|discriminate B].
Qed.

(* ---- one element of an object path ---- *)
(* between two elements the automaton is clean, or inside a dot element whose name is complete *)
Definition settled (st : pst) (els : list element) : Prop :=
  (exists prev, opt_is prev cESC = false /\ st = clean els prev) \/
  (exists els0 s prev, attr_ok s = true /\ opt_is prev cESC = false /\ st = pend els0 s prev /\
                       els = els0 ++ [(AStr s, GETATTR)]).

Lemma bracket_step st els k :
  settled st els -> key_ok k = true -> settled (run st (render_key k)) (els ++ [(key_atom k, GET)]).
Proof.
  intros [(prev & Hp & ->)|(els0 & s & prev & Hs & Hp & -> & ->)] Hk; left; exists (Some cRB); split; try reflexivity.
  - apply key_step; assumption.
  - unfold render_key. cbn [app]. rewrite run_cons, step_lb_pend by assumption. apply key_body_from_dot. exact Hk.
Qed.

Lemma attr_step st els s :
  settled st els -> attr_ok s = true -> settled (run st (cDOT :: s)) (els ++ [(AStr s, GETATTR)]).
Proof.
  intros H Hs. pose proof (attr_ok_all s Hs) as Hall.
  assert (E : exists els', run st [cDOT] = pend els' [] (Some cDOT) /\ els' = els).
  { destruct H as [(prev & Hp & ->)|(els0 & s0 & prev & Hs0 & Hp & -> & ->)].
    - exists els. split; [|reflexivity]. rewrite run_cons, run_nil. apply step_dot_clean. exact Hp.
    - eexists. split; [|reflexivity]. rewrite run_cons, run_nil. apply step_dot_pend; assumption. }
  destruct E as (els' & E & ->).
  change (cDOT :: s) with ([cDOT] ++ s). rewrite run_app, E.
  destruct (run_ident els s [] (Some cDOT) Hall eq_refl) as [R P].
  right. exists els, s, (lastc (Some cDOT) s). repeat split; try assumption.
Qed.

Lemma okey_step st els k :
  settled st els -> okey_ok k = true -> settled (run st (orender_key k)) (els ++ [oelement k]).
Proof.
  intros H Hk. destruct k as [a|i|s|]; cbn [okey_ok] in Hk; try discriminate.
  - apply (bracket_step st els (PKey a) H Hk).
  - apply (bracket_step st els (PIdx i) H eq_refl).
  - cbn [orender_key oelement]. rewrite stringify_ident by exact Hk. apply attr_step; assumption.
Qed.

Lemma okeys_run p : forall st els,
  settled st els -> opath_ok p = true -> settled (run st (flat_map orender_key p)) (els ++ map oelement p).
Proof.
  induction p as [|k r IH]; intros st els H Hok.
  - cbn. rewrite app_nil_r. exact H.
  - cbn [opath_ok forallb] in Hok. apply andb_true_iff in Hok as [Hk Hr].
    cbn [flat_map map]. rewrite run_app.
    replace (els ++ oelement k :: map oelement r) with ((els ++ [oelement k]) ++ map oelement r) by (rewrite <- app_assoc; reflexivity).
    apply IH; [|exact Hr]. apply okey_step; assumption.
Qed.

Lemma finish_settled st els : settled st els -> finish st = Some els.
Proof.
  intros [(prev & _ & ->)|(els0 & s & prev & Hs & _ & -> & ->)]; [reflexivity|]. apply finish_pend. exact Hs.
Qed.

(* ---- the round trip ---- *)
Theorem oelements_render p : opath_ok p = true -> elements (orender p) = Some (map oelement p).
Proof.
  intros Hok. unfold elements, orender.
  change (skipn 4 (root_str ++ flat_map orender_key p)) with (flat_map orender_key p).
  apply finish_settled.
  apply (okeys_run p init_pst [] (or_introl (ex_intro _ None (conj eq_refl eq_refl))) Hok).
Qed.

Definition okey_plain (k : okey) : bool := match k with OClass => false | _ => true end.

Lemma oresolve_els_of p : forallb okey_plain p = true -> forall v, oresolve_els v (map oelement p) = oresolve v p.
Proof.
  induction p as [|k r IH]; intros H v; [reflexivity|].
  cbn [forallb] in H. apply andb_true_iff in H as [Hk Hr].
  destruct k as [a|i|s|]; try discriminate Hk; cbn [map oelement oresolve_els oresolve oget].
  - destruct (oget_item v a); [apply IH; exact Hr|reflexivity].
  - destruct (oget_item v (AInt (Z.of_nat i))); [apply IH; exact Hr|reflexivity].
  - destruct v; try reflexivity. destruct (assoc_attr s attrs); [apply IH; exact Hr|reflexivity].
Qed.

Lemma opath_ok_plain p : opath_ok p = true -> forallb okey_plain p = true.
Proof.
  unfold opath_ok. apply forallb_impl. intros k. destruct k; try reflexivity. discriminate.
Qed.

(* deepdiff.extract on the reported text = following keys, indexes and attribute names *)
Theorem oextract_render root p : opath_ok p = true -> oextract root (orender p) = oresolve root p.
Proof.
  intros Hok. unfold oextract. rewrite oelements_render by exact Hok. apply oresolve_els_of, opath_ok_plain, Hok.
Qed.

(* stringify_path(parse_path(text, include_actions=True)) gives the text back *)
Lemma stringify_oelement k : okey_ok k = true -> stringify_el QS (oelement k) = orender_key k.
Proof.
  destruct k as [a|i|s|]; cbn [okey_ok]; intros H; try discriminate.
  - apply (stringify_el_key (PKey a)).
  - apply (stringify_el_key (PIdx i)).
  - cbn [oelement stringify_el orender_key str_atom repr_atom]. rewrite stringify_ident by exact H. reflexivity.
Qed.

Theorem ostringify_inverts_elements p :
  opath_ok p = true -> option_map stringify_els (elements (orender p)) = Some (orender p).
Proof.
  intros Hok. rewrite oelements_render by exact Hok. cbn [option_map]. f_equal.
  unfold stringify_els, orender. f_equal.
  induction p as [|k r IH]; [reflexivity|]. cbn [opath_ok forallb] in Hok. apply andb_true_iff in Hok as [Hk Hr].
  cbn [map flat_map]. rewrite stringify_oelement by exact Hk. f_equal. apply IH. exact Hr.
Qed.

(* distinct locations get distinct texts (up to Python's identification of the int key i and the index i,
   which [oelement] makes) *)
Theorem orender_inj p1 p2 :
  opath_ok p1 = true -> opath_ok p2 = true -> orender p1 = orender p2 -> map oelement p1 = map oelement p2.
Proof.
  intros H1 H2 E. pose proof (oelements_render p1 H1) as E1. pose proof (oelements_render p2 H2) as E2.
  rewrite E in E1. rewrite E1 in E2. inversion E2. reflexivity.
Qed.

(* ---- outside the guard ---- *)
Local Open Scope string_scope.
(* an attribute whose name starts with two underscores (reported with
   ignore_private_variables=False): the parser drops the element, and extract returns
   the parent object instead of the attribute value *)
Definition priv_attr : opath := [OAttr (s2p "__x")].
Definition priv_obj : ovalue := OObj (s2p "PA") [(s2p "__x", OAtom (AInt 1%Z))].
Lemma private_attr_refuted :
  elements (orender priv_attr) = Some [] /\
  oresolve priv_obj priv_attr = Some (OAtom (AInt 1%Z)) /\
  oextract priv_obj (orender priv_attr) = Some priv_obj.
Proof. vm_compute. repeat split; reflexivity. Qed.

(* an attribute whose name is a Python literal (set with setattr / __dict__): the parser
   evaluates it, and getattr is called with a non-string *)
Definition lit_attr : opath := [OAttr (s2p "1")].
Definition lit_obj : ovalue := OObj (s2p "PA") [(s2p "1", OAtom (AInt 5%Z))].
Lemma literal_attr_refuted :
  elements (orender lit_attr) = Some [(AInt 1%Z, GETATTR)] /\
  oresolve lit_obj lit_attr = Some (OAtom (AInt 5%Z)) /\
  oextract lit_obj (orender lit_attr) = None.
Proof. vm_compute. repeat split; reflexivity. Qed.

(* the guard is satisfiable: keys of every kind between attribute elements *)
Definition mixed_path : opath :=
  [OKey (AStr (s2p "a'b")); OAttr (s2p "x"); OAttr (s2p "_y1"); OIdx 3; OAttr (s2p "Name"); OKey (AInt (-2)%Z);
   OKey ANone; OAttr (s2p "z")].
Lemma mixed_path_ok : opath_ok mixed_path = true /\ List.length mixed_path = 8%nat /\
  orender mixed_path = s2p "root[""a'b""].x._y1[3].Name[-2][None].z".
Proof. vm_compute. repeat split; reflexivity. Qed.

(** Block Obj - key sequences of the encoding versus paths with attribute elements:
    following an encoded key sequence in [enc t] is following its decoding
    ([dps] / [dec_path], Obj/ObjModel.v) in [t], with getattr steps. *)
From Coq Require Import List ZArith NArith Bool Arith Lia.
Import ListNotations.
From DD Require Import Base.PyStr Base.Value Base.ValueFacts Path.PathModel Diff.Tree Diff.DiffModel Diff.DiffFacts
  Obj.ObjValue Obj.ObjModel Obj.ObjFacts.

(* ---- small facts ---- *)
Lemma seq_index_In {A} (xs : list A) z x : seq_index xs z = Some x -> In x xs.
Proof.
  unfold seq_index. destruct (_ || _); [discriminate|]. apply nth_error_In.
Qed.
Lemma seq_index_map {A B} (f : A -> B) xs z : seq_index (map f xs) z = option_map f (seq_index xs z).
Proof.
  unfold seq_index. rewrite map_length. destruct (_ || _); [reflexivity|]. apply nth_error_map.
Qed.

Lemma owf_assoc_attr attrs s x :
  forallb (fun av => owf (snd av)) attrs = true -> assoc_attr s attrs = Some x -> owf x = true.
Proof.
  induction attrs as [|[s' y] attrs IH]; cbn; intros W E; [discriminate|].
  apply andb_true_iff in W as [Wy W].
  destruct (pystr_eqb s' s); [inversion E; subst; exact Wy|apply IH; assumption].
Qed.

Lemma owf_oget_item t a x : owf t = true -> oget_item t a = Some x -> owf x = true.
Proof.
  destruct t as [b|xs|xs|kvs|xs|xs|cls attrs]; cbn; intros W E; try discriminate.
  - destruct b; try discriminate; destruct (int_of_atom a); try discriminate;
      destruct (seq_index s z); inversion E; reflexivity.
  - destruct (int_of_atom a); [|discriminate]. apply seq_index_In in E.
    eapply forallb_forall in W; eassumption.
  - destruct (int_of_atom a); [|discriminate]. apply seq_index_In in E.
    eapply forallb_forall in W; eassumption.
  - apply andb_true_iff in W as [_ W]. apply assoc_In in E as (k' & Hin & _).
    eapply forallb_forall in W; [|exact Hin]. exact W.
Qed.

Definition is_obj (t : ovalue) : bool := match t with OObj _ _ => true | _ => false end.

Lemma get_item_enc t a : is_obj t = false -> get_item (enc t) a = option_map enc (oget_item t a).
Proof.
  destruct t as [b|xs|xs|kvs|xs|xs|cls attrs]; cbn; intros H; try discriminate; try reflexivity.
  - destruct b; try reflexivity; destruct (int_of_atom a); try reflexivity; destruct (seq_index s z); reflexivity.
  - destruct (int_of_atom a); [|reflexivity]. apply seq_index_map.
  - destruct (int_of_atom a); [|reflexivity]. apply seq_index_map.
  - apply assoc_enc_items.
Qed.

Lemma get_item_enc_obj cls attrs a :
  get_item (enc (OObj cls attrs)) a =
  if py_eq (otag cls) a then Some (VDict (enc_attrs attrs))
  else if py_eq (otag2 cls) a then Some (VAtom (AStr cls)) else None.
Proof. reflexivity. Qed.

Lemma is_tag_cases a : is_tag a = true -> (exists cls, a = otag cls) \/ (exists cls, a = otag2 cls).
Proof.
  destruct a as [| | | |s|]; cbn; try discriminate. destruct s as [|ch s]; [discriminate|].
  intros H. apply orb_true_iff in H as [H|H]; apply N.eqb_eq in H; subst ch; [left|right]; exists s; reflexivity.
Qed.
Lemma tag_cls_None_not_tag a : tag_cls a = None -> tag2_cls a = None -> is_tag a = false.
Proof.
  destruct a as [| | | |s|]; cbn; try reflexivity. destruct s as [|ch s]; [reflexivity|].
  destruct (N.eqb ch 0); [discriminate|]. destruct (N.eqb ch 1); [discriminate|]. reflexivity.
Qed.
Lemma tag2_cls_otag2 cls : tag2_cls (otag2 cls) = Some cls.
Proof. reflexivity. Qed.
Lemma tag_cls_otag2 cls : tag_cls (otag2 cls) = None.
Proof. reflexivity. Qed.
Lemma tag2_cls_Some a cls : tag2_cls a = Some cls -> a = otag2 cls.
Proof.
  destruct a as [| | | |s|]; cbn; try discriminate. destruct s as [|ch s]; [discriminate|].
  destruct (N.eqb_spec ch 1); [|discriminate]. intros H. inversion H. subst. reflexivity.
Qed.

(* a class tag is the key of nothing but an instance *)
Lemma oget_item_tag t a : owf t = true -> is_tag a = true -> oget_item t a = None.
Proof.
  intros W T. assert (I : int_of_atom a = None) by (destruct a; try discriminate T; reflexivity).
  destruct t as [b|xs|xs|kvs|xs|xs|cls attrs]; cbn; try reflexivity; try (rewrite I; reflexivity).
  - destruct b; try reflexivity; rewrite I; reflexivity.
  - cbn in W. apply andb_true_iff in W as [W _]. apply andb_true_iff in W as [_ W].
    destruct (is_tag_cases a T) as [[cls ->]|[cls ->]].
    + apply untagged_assoc_tag. exact W.
    + clear -W. induction kvs as [|[k v] kvs IH]; cbn; [reflexivity|]. cbn in W. apply andb_true_iff in W as [W1 W2].
      destruct (py_eq k (otag2 cls)) eqn:E; [|apply IH; exact W2].
      rewrite py_eq_sym in E. apply py_eq_otag2_l in E. subst. rewrite is_tag_otag2 in W1. discriminate.
Qed.

(* ---- dps ---- *)
Lemma dps_nil st : dps st [] = ([], st).
Proof. reflexivity. Qed.

Definition dps_step (st : option pystr) (k : pkey) : option okey * option pystr :=
  match st with
  | Some _ => (Some (OAttr (str_of_key (key_atom k))), None)
  | None =>
      match k with
      | PKey a => match tag_cls a, tag2_cls a with
                  | Some cls, _ => (None, Some cls)
                  | None, Some _ => (Some OClass, None)
                  | None, None => (Some (OKey a), None)
                  end
      | PIdx i => (Some (OIdx i), None)
      end
  end.
Definition ocons (o : option okey) (q : opath) : opath := match o with Some k => k :: q | None => q end.

Lemma dps_cons st k r :
  dps st (k :: r) = (ocons (fst (dps_step st k)) (fst (dps (snd (dps_step st k)) r)), snd (dps (snd (dps_step st k)) r)).
Proof.
  destruct st as [c0|]; cbn [dps dps_step fst snd ocons].
  - destruct (dps None r); reflexivity.
  - destruct k as [a|i].
    + destruct (tag_cls a); [cbn; destruct (dps (Some p) r); reflexivity|].
      destruct (tag2_cls a); cbn; destruct (dps None r); reflexivity.
    + cbn. destruct (dps None r); reflexivity.
Qed.

Lemma dps_app p : forall st r,
  dps st (p ++ r) = (fst (dps st p) ++ fst (dps (snd (dps st p)) r), snd (dps (snd (dps st p)) r)).
Proof.
  induction p as [|k p IH]; intros st r.
  - cbn [app]. rewrite dps_nil. cbn. destruct (dps st r); reflexivity.
  - cbn [app]. rewrite !dps_cons, IH. cbn [fst snd].
    destruct (fst (dps_step st k)); reflexivity.
Qed.

Lemma dps_snoc p st k :
  dps st (p ++ [k]) = (fst (dps st p) ++ ocons (fst (dps_step (snd (dps st p)) k)) [], snd (dps_step (snd (dps st p)) k)).
Proof. rewrite dps_app, dps_cons, dps_nil. reflexivity. Qed.

(* ---- following an encoded key sequence ---- *)
(* the state in which [dps] is after p, the value [v] reached in the encoding and the
   value [x] reached in t *)
Definition reached (st : option pystr) (v : value) (x : ovalue) : Prop :=
  match st with
  | None => v = enc x
  | Some cls => exists attrs, x = OObj cls attrs /\ v = VDict (enc_attrs attrs)
  end.

Lemma dec_attrs_enc_attrs attrs : forallb (fun av => owf (snd av)) attrs = true -> dec_attrs (enc_attrs attrs) = attrs.
Proof.
  intros W. unfold dec_attrs, enc_attrs. rewrite map_map. rewrite <- (map_id attrs) at 2. apply map_ext_in.
  intros [s v] Hx. cbn. f_equal. apply dec_enc. eapply forallb_forall in W; [|exact Hx]. exact W.
Qed.

Lemma reached_wrap st v x : owf x = true -> reached st v x -> wrap st v = x.
Proof.
  intros W. destruct st as [cls|]; cbn.
  - intros (attrs & -> & ->). cbn in W. apply andb_true_iff in W as [_ W]. rewrite dec_attrs_enc_attrs by exact W. reflexivity.
  - intros ->. apply dec_enc. exact W.
Qed.

Theorem resolve_enc_sound : forall p,
  (forall t v, owf t = true -> resolve (enc t) p = Some v ->
     exists x, oresolve t (fst (dps None p)) = Some x /\ owf x = true /\ reached (snd (dps None p)) v x) /\
  (forall cls attrs v, owf (OObj cls attrs) = true -> resolve (VDict (enc_attrs attrs)) p = Some v ->
     exists x, oresolve (OObj cls attrs) (fst (dps (Some cls) p)) = Some x /\ owf x = true /\ reached (snd (dps (Some cls) p)) v x).
Proof.
  induction p as [|k r [IH1 IH2]].
  - split.
    + intros t v W E. inversion E; subst. exists t. repeat split; [exact W].
    + intros cls attrs v W E. inversion E; subst. exists (OObj cls attrs). repeat split; [exact W|].
      exists attrs. split; reflexivity.
  - split.
    + intros t v W E. cbn [resolve] in E. rewrite dps_cons.
      destruct (is_obj t) eqn:IO.
      * destruct t as [ | | | | | |cls attrs]; try discriminate IO.
        rewrite get_item_enc_obj in E.
        destruct (py_eq (otag cls) (key_atom k)) eqn:E1.
        { apply py_eq_otag_l in E1. destruct k as [a|i]; [|discriminate E1]. cbn in E1. subst a.
          cbn [dps_step]. rewrite tag_cls_otag. cbn [fst snd ocons].
          apply (IH2 cls attrs v W E). }
        destruct (py_eq (otag2 cls) (key_atom k)) eqn:E2; [|discriminate].
        apply py_eq_otag2_l in E2. destruct k as [a|i]; [|discriminate E2]. cbn in E2. subst a.
        cbn [dps_step]. rewrite tag_cls_otag2, tag2_cls_otag2. cbn [fst snd ocons oresolve oget].
        apply (IH1 (OAtom (AStr cls)) v eq_refl E).
      * rewrite get_item_enc in E by exact IO.
        destruct (oget_item t (key_atom k)) as [t'|] eqn:G; [|discriminate]. cbn [option_map] in E.
        pose proof (owf_oget_item t _ t' W G) as W'.
        assert (NT : is_tag (key_atom k) = false).
        { destruct (is_tag (key_atom k)) eqn:T; [|reflexivity]. rewrite (oget_item_tag t _ W T) in G. discriminate. }
        assert (ST : dps_step None k = (Some (match k with PKey a => OKey a | PIdx i => OIdx i end), None)).
        { destruct k as [a|i]; [|reflexivity]. cbn in NT. cbn [dps_step].
          destruct (tag_cls a) eqn:T1; [apply tag_cls_is_tag in T1; congruence|].
          destruct (tag2_cls a) eqn:T2; [|reflexivity].
          apply tag2_cls_Some in T2. subst a. discriminate NT. }
        rewrite ST. cbn [fst snd ocons oresolve].
        assert (OG : oget t (match k with PKey a => OKey a | PIdx i => OIdx i end) = Some t').
        { destruct k; exact G. }
        rewrite OG. apply (IH1 t' v W' E).
    + intros cls attrs v W E. cbn [resolve get_item] in E. rewrite dps_cons. cbn [dps_step fst snd ocons oresolve].
      destruct (assoc (key_atom k) (enc_attrs attrs)) as [v'|] eqn:A; [|discriminate].
      destruct (key_atom k) as [| | | |s|] eqn:KA;
        try (rewrite assoc_enc_attrs_other in A by (intros s0; discriminate); discriminate).
      rewrite assoc_enc_attrs in A. destruct (assoc_attr s attrs) as [x'|] eqn:AA; [|discriminate].
      cbn in A. inversion A; subst v'. cbn [str_of_key oget]. rewrite AA.
      cbn in W. apply andb_true_iff in W as [_ W].
      apply (IH1 x' v (owf_assoc_attr attrs s x' W AA) E).
Qed.

Corollary resolve_enc_wrap t p v :
  owf t = true -> resolve (enc t) p = Some v ->
  oresolve t (dec_path p) = Some (wrap (snd (dps None p)) v).
Proof.
  intros W E. destruct (proj1 (resolve_enc_sound p) t v W E) as (x & R & Wx & Hx).
  unfold dec_path. rewrite R. f_equal. symmetry. apply reached_wrap; assumption.
Qed.

(** Block Obj - the theorems about [orun] / [oapply], obtained from the theorems
    about the encoded run (Diff/DiffEmpty.v, Diff/DiffFaithful.v, Delta/DeltaRoundtrip.v)
    and the facts about the encoding (Obj/ObjFacts.v). *)
From Coq Require Import List ZArith NArith Bool Arith Lia.
Import ListNotations.
From DD Require Import Base.PyStr Base.Value Base.ValueFacts Path.PathModel Diff.Tree Diff.DiffModel
  Diff.DiffFacts Diff.DiffEmpty Diff.DiffFaithful Obj.ObjValue Obj.ObjModel Obj.ObjFacts.

(* ------------------------------------------------------------------ *)
(** * C02: empty diff <=> equal *)

Theorem orun_copy_empty hatom udiff ops c t :
  thr_num c <= thr_den c -> tiling ops -> owf t = true ->
  fst (orun hatom udiff ops c t t) = [].
Proof.
  intros Hthr Ht W. unfold orun. cbn [fst].
  pose proof (run_copy_empty hatom udiff ops nopaths c Hthr Ht (enc t) (enc_wf t W)) as E.
  change (fst (run_diff hatom udiff ops nopaths nopaths c (enc t) (enc t)) = []) in E.
  rewrite E. reflexivity.
Qed.

Theorem orun_empty_sound hatom udiff ops c ok t1 t2 :
  (forall a b, ok a = true -> ok b = true -> hatom a = hatom b -> a = b) -> valid_ops ops ->
  owf t1 = true -> owf t2 = true ->
  oinputs_ok (keep_key c) ok t1 = true -> oinputs_ok (keep_key c) ok t2 = true ->
  fst (orun hatom udiff ops c t1 t2) = [] -> opy_eqv t1 t2 = true.
Proof.
  intros Hinj Hv W1 W2 K1 K2 H. unfold orun in H. cbn [fst] in H. apply map_eq_nil in H.
  apply enc_py_eqv; try assumption.
  change (fst (run_diff hatom udiff ops noskip nopaths c (enc t1) (enc t2)) = []) in H.
  eapply (run_empty_sound hatom udiff ops nopaths c ok); try eassumption.
  - apply enc_wf; assumption.
  - apply enc_wf; assumption.
  - apply enc_inputs_ok; [intros a Ha; apply keep_key_tag; exact Ha|assumption].
  - apply enc_inputs_ok; [intros a Ha; apply keep_key_tag; exact Ha|assumption].
Qed.

(** Block Obj - C10 for results with class instances: pretty() on levels below instances
    (attribute_added / attribute_removed statements, class names as type names, the dataclass-style
    repr  Cls(attr=value, ...)  of the harness classes), and the text view as a projection of the tree.
    Definitions only; proofs in Obj/ObjViewsProofs.v. *)
From Coq Require Import List ZArith NArith Bool Arith String.
Import ListNotations.
From DD Require Import Base.PyStr Base.Value Path.PathModel Diff.Tree Views.ViewsModel
  Obj.ObjValue Obj.ObjModel Obj.ObjText.
Local Open Scope N_scope.

(* repr(): builtin containers as Views.ViewsModel.py_repr; an instance as Cls(a=repr, b=repr) in attribute order
   (the __repr__ of the classes of harness/objcommon.py and of namedtuples / dataclasses) *)
Fixpoint opy_repr (v : ovalue) : pystr :=
  match v with
  | OAtom a => repr_atom_py a
  | OList xs => [cLB] ++ join comma_sp (map opy_repr xs) ++ [cRB]
  | OTuple xs =>
      match xs with
      | [x] => [40] ++ opy_repr x ++ [44; 41]
      | _ => [40] ++ join comma_sp (map opy_repr xs) ++ [41]
      end
  | ODict kvs =>
      [123] ++ join comma_sp (map (fun kv => repr_atom_py (fst kv) ++ colon_sp ++ opy_repr (snd kv)) kvs) ++ [125]
  | OSet xs =>
      match xs with
      | [] => s2p "set()"
      | _ => [123] ++ join comma_sp (map repr_atom_py xs) ++ [125]
      end
  | OFrozen xs =>
      match xs with
      | [] => s2p "frozenset()"
      | _ => s2p "frozenset({" ++ join comma_sp (map repr_atom_py xs) ++ s2p "})"
      end
  | OObj cls attrs =>
      cls ++ [40] ++ join comma_sp (map (fun av => fst av ++ [61] ++ opy_repr (snd av)) attrs) ++ [41]
  end%list.

Definition opy_str (v : ovalue) : pystr :=
  match v with
  | OAtom (AStr s) => s
  | _ => opy_repr v
  end.

(* get_type(x).__name__ *)
Definition opretty_type (o : option ovalue) : pystr :=
  match o with
  | Some (OObj cls _) => cls
  | Some v => ty_name (type_of (enc v))
  | None => s2p "NotPresent"
  end.
Definition opretty_val (o : option ovalue) : pystr :=
  match o with
  | Some (OAtom (AStr s)) => [cDQ] ++ s ++ [cDQ]
  | Some v => opy_str v
  | None => s2p "not present"
  end%list.

(* pretty_print_diff *)
Definition opretty_of (verbose : nat) (e : oentry) : pystr :=
  let P := orender (oep1 e) in
  let V1 := opretty_val (oet1 e) in
  let V2 := opretty_val (oet2 e) in
  let two := Nat.eqb verbose 2 in
  match oekind e with
  | OK KType => s2p "Type of " ++ P ++ s2p " changed from " ++ opretty_type (oet1 e) ++ s2p " to " ++ opretty_type (oet2 e)
             ++ s2p " and value changed from " ++ V1 ++ s2p " to " ++ V2 ++ s2p "."
  | OK KValue => s2p "Value of " ++ P ++ s2p " changed from " ++ V1 ++ s2p " to " ++ V2 ++ s2p "."
  | OK KDictAdd => if two then s2p "Item " ++ P ++ s2p " (" ++ V2 ++ s2p ") added to dictionary."
                else s2p "Item " ++ P ++ s2p " added to dictionary."
  | OK KDictRem => if two then s2p "Item " ++ P ++ s2p " (" ++ V1 ++ s2p ") removed from dictionary."
                else s2p "Item " ++ P ++ s2p " removed from dictionary."
  | OKAttrAdd => if two then s2p "Attribute " ++ P ++ s2p " (" ++ V2 ++ s2p ") added."
                else s2p "Attribute " ++ P ++ s2p " added."
  | OKAttrRem => if two then s2p "Attribute " ++ P ++ s2p " (" ++ V1 ++ s2p ") removed."
                else s2p "Attribute " ++ P ++ s2p " removed."
  | OK KIterAdd => if two then s2p "Item " ++ P ++ s2p " (" ++ V2 ++ s2p ") added to iterable."
                else s2p "Item " ++ P ++ s2p " added to iterable."
  | OK KIterRem => if two then s2p "Item " ++ P ++ s2p " (" ++ V1 ++ s2p ") removed from iterable."
                else s2p "Item " ++ P ++ s2p " removed from iterable."
  | OK KIterMoved => []
  | OK KSetAdd => s2p "Item " ++ P ++ s2p "[" ++ V2 ++ s2p "] added to set."
  | OK KSetRem => s2p "Item " ++ P ++ s2p "[" ++ V1 ++ s2p "] removed from set."
  | OK KRepetition => s2p "Repetition change for item " ++ P ++ s2p "."
  end%list.
Definition opretty (verbose : nat) (es : list oentry) : list pystr := map (opretty_of verbose) es.

(* ---- the text view against the tree: (category, path text) of a level and of a text entry ---- *)
Definition ovisible (verbose : nat) (e : oentry) : bool :=
  match oekind e with
  | OK KValue => Nat.ltb 0 verbose
  | OK KIterMoved => Nat.ltb 1 verbose
  | OK KRepetition => false
  | _ => true
  end.
Definition oepath (e : oentry) : pystr :=
  match oekind e with
  | OK KSetAdd => oset_item_text (oep1 e) (oopt_atom (oet2 e))
  | OK KSetRem => oset_item_text (oep1 e) (oopt_atom (oet1 e))
  | _ => orender (oep1 e)
  end.
Definition oekey (e : oentry) : okind * pystr := (oekind e, oepath e).
Definition otkey (t : otentry) : okind * pystr :=
  match t with
  | OTType p _ _ _ _ => (OK KType, p)
  | OTValue p _ _ _ _ => (OK KValue, p)
  | OTItem k p _ => (k, p)
  | OTIterAdd p _ => (OK KIterAdd, p)
  | OTIterRem p _ => (OK KIterRem, p)
  | OTMoved p _ _ => (OK KIterMoved, p)
  | OTSetAdd s => (OK KSetAdd, s)
  | OTSetRem s => (OK KSetRem, s)
  end.
(* the value a text entry of an item category carries: only at verbose_level 2 *)
Definition otitem_value (t : otentry) : option ovalue :=
  match t with OTItem _ _ v => v | _ => None end.

(** Block Obj - sx renderings for the correspondence check (mirrors
    harness/objcommon.py).  No theorem depends on this file. *)
From Coq Require Import List ZArith NArith Bool Arith String.
Import ListNotations.
From DD Require Import Base.Sx Base.PyStr Base.Value Path.PathModel Diff.Tree Diff.DiffModel Diff.DiffShow
  Delta.DeltaModel Delta.DeltaShow Obj.ObjValue Obj.ObjModel.
Local Open Scope string_scope.

Definition sx_okind (k : okind) : sx :=
  match k with
  | OK k => sx_kind k
  | OKAttrAdd => SA "attribute_added"
  | OKAttrRem => SA "attribute_removed"
  end.
Definition sx_oentry (e : oentry) : sx :=
  SL [sx_okind (oekind e); sx_opath (oep1 e); sx_opath (oep2 e);
      sx_opt sx_ovalue (oet1 e); sx_opt sx_ovalue (oet2 e); sx_opt sx_str (oediff e)].
Definition sx_otree (r : list oentry * list opath) : sx :=
  SL [sx_sorted_list sx_oentry (fst r); sx_sorted_list sx_opath (snd r)].

(* results of Delta: dict items and attributes without their order *)
Fixpoint sx_ovalue_unordered (v : ovalue) : sx :=
  match v with
  | OAtom a => sx_atom a
  | OList xs => SL [SA "L"; SL (map sx_ovalue_unordered xs)]
  | OTuple xs => SL [SA "T"; SL (map sx_ovalue_unordered xs)]
  | ODict kvs => SL [SA "D"; SL (sx_sort (map (fun kv => SL [sx_atom (fst kv); sx_ovalue_unordered (snd kv)]) kvs))]
  | OSet xs => SL [SA "S"; SL (sx_sort (map sx_atom xs))]
  | OFrozen xs => SL [SA "F"; SL (sx_sort (map sx_atom xs))]
  | OObj cls attrs => SL [SA "O"; sx_str cls; SL (sx_sort (map (fun av => SL [sx_str (fst av); sx_ovalue_unordered (snd av)]) attrs))]
  end.
Definition sx_oresult (r : ovalue * nat) : sx :=
  SL [sx_ovalue_unordered (fst r); sx_bool (Nat.ltb 0 (snd r))].

Definition sx_osub_result (r : option (ovalue * nat)) : sx :=
  match r with Some x => sx_oresult x | None => SA "NotBidirectional" end.

(* ---- text view ---- *)
From DD Require Import Diff.TextView Obj.ObjText.
Definition sx_oty (t : oty) : sx :=
  match t with
  | OTy t => sx_ty t
  | OCls cls => SA ("class " ++ show_pystr cls)
  end.
Definition sx_otentry (t : otentry) : sx :=
  match t with
  | OTType p a b np vals =>
      SL [SA "type_changes"; sx_str p; sx_oty a; sx_oty b; sx_opt sx_str np;
          sx_opt (fun ab => SL [sx_ovalue (fst ab); sx_ovalue (snd ab)]) vals]
  | OTValue p a b np d =>
      SL [SA "values_changed"; sx_str p; sx_ovalue a; sx_ovalue b; sx_opt sx_str np; sx_opt sx_str d]
  | OTItem k p v => SL [sx_okind k; sx_str p; sx_opt sx_ovalue v]
  | OTIterAdd p v => SL [SA "iterable_item_added"; sx_str p; sx_ovalue v]
  | OTIterRem p v => SL [SA "iterable_item_removed"; sx_str p; sx_ovalue v]
  | OTMoved p np v => SL [SA "iterable_item_moved"; sx_str p; sx_str np; sx_ovalue v]
  | OTSetAdd s => SL [SA "set_item_added"; sx_str s]
  | OTSetRem s => SL [SA "set_item_removed"; sx_str s]
  end.
Definition sx_otext (l : list otentry) : sx := sx_sorted_list sx_otentry l.

(* pretty(): the statements without their order (the tree is walked category by category) *)
From DD Require Import Obj.ObjViews.
Definition sx_opretty (l : list pystr) : sx := SL (sx_sort (map sx_str l)).

(* the text of a path and what it denotes: level.path() and the level's object *)
Definition sx_opath_text (t : ovalue) (p : opath) : sx :=
  SL [sx_str (orender p); sx_opt sx_ovalue (oextract t (orender p))].

(** Block Obj - concrete values with class instances inside the guards of the object
    theorems (non-vacuity), and witnesses. *)
From Coq Require Import List ZArith NArith Bool Arith Lia Permutation String.
Import ListNotations.
From DD Require Import Base.PyStr Base.Value Base.ValueFacts Path.PathModel Diff.Tree Diff.DiffModel
  Diff.DiffFacts Delta.DeltaModel Delta.DeltaRun Delta.DeltaGuard Delta.DeltaGood Delta.DeltaRoundtrip Delta.DeltaChain
  Delta.DeltaExamples
  Obj.ObjValue Obj.ObjModel Obj.ObjFacts Obj.ObjDictLevel Obj.ObjPath Obj.ObjFaithful Obj.ObjRoundtrip.

(* ---- opsv holds outright when t1 has no all-scalar list ---- *)
Fixpoint noleaf (v : value) : bool :=
  match v with
  | VList xs | VTuple xs => negb (forallb is_atom xs) && forallb noleaf xs
  | VDict kvs => forallb (fun kv => noleaf (snd kv)) kvs
  | _ => true
  end.

Lemma opsv_list_noleaf ops q xs : Forall (fun x => forall t2 q', noleaf x = true -> opsv ops x t2 q') xs ->
  forallb noleaf xs = true -> forall ys i, opsv_list ops q xs ys i.
Proof.
  induction 1 as [|x xs Hx _ IH]; intros N ys i; [exact Logic.I|].
  destruct ys as [|y ys]; [exact Logic.I|]. cbn in N. apply andb_true_iff in N as [Nx N].
  cbn. split; [apply Hx; exact Nx|apply IH; exact N].
Qed.

Lemma opsv_noleaf ops : forall t1 t2 q, noleaf t1 = true -> opsv ops t1 t2 q.
Proof.
  induction t1 as [a|xs IH|xs IH|kvs IH|xs|xs] using value_ind'; intros t2 q N; destruct t2; try exact Logic.I.
  - rewrite opsv_list_eq. cbn in N. apply andb_true_iff in N as [N1 N2]. split.
    + intros H. rewrite H in N1. discriminate.
    + apply opsv_list_noleaf; assumption.
  - rewrite opsv_tuple_eq. cbn in N. apply andb_true_iff in N as [N1 N2]. split.
    + intros H. rewrite H in N1. discriminate.
    + apply opsv_list_noleaf; assumption.
  - rewrite opsv_dict_eq. cbn in N. induction IH as [|[k v] l Hk _ IHl]; [exact Logic.I|].
    cbn in N. apply andb_true_iff in N as [Nv N]. cbn. split; [|apply IHl; exact N].
    destruct (assoc k kvs0); [apply Hk; exact Nv|exact Logic.I].
Qed.

(* ---- a pair with every kind of object edit ---- *)
Local Open Scope string_scope.
Definition P (x : string) : pystr := s2p x.
Definition oI (z : Z) : ovalue := OAtom (AInt z).
Definition oS (x : string) : ovalue := OAtom (AStr (s2p x)).

Definition ox_cfg : cfg := mkCfg true 1 2 true.     (* zip_ordered_iterables, threshold_to_diff_deeper = 0.5 *)
Definition ox_t1 : ovalue :=
  ODict [ (s "o", OObj (P "PA") [(P "x", oI 1); (P "z", oS "old"); (P "m", OSet [AInt 1; AInt 2]); (P "u", oI 0)]);
          (s "q", OObj (P "PA") [(P "a", oI 1)]);
          (s "l", OList [OObj (P "PB") [(P "x", oI 1)]; OObj (P "PB") []]);
          (s "d", OObj (P "PB") [(P "in", OObj (P "PA") [(P "v", oS "deep")])]) ].
Definition ox_t2 : ovalue :=
  ODict [ (s "o", OObj (P "PA") [(P "x", oI 2); (P "m", OSet [AInt 2; AInt 3]); (P "w", oS "new"); (P "u", oI 0)]);
          (s "q", OObj (P "PB") [(P "a", oI 1)]);
          (s "l", OList [OObj (P "PB") [(P "x", oI 1); (P "k", oI 5)]]);
          (s "d", OObj (P "PB") [(P "in", OObj (P "PA") [(P "v", oS "deeper")])]) ].

Definition ox_delta : delta := odelta hatom_ex (fun _ _ => []) no_ops ox_cfg conv_none false false ox_t1 ox_t2.

Lemma ox_wf : owf ox_t1 = true /\ owf ox_t2 = true.
Proof. vm_compute. split; reflexivity. Qed.

Lemma ox_guards : guards ox_cfg conv_none false false (enc ox_t1) (enc ox_t2).
Proof. apply (guardsb_sound ox_cfg conv_none false false conv_none_typed). vm_compute. reflexivity. Qed.

Lemma ox_opsv : opsv no_ops (enc ox_t1) (enc ox_t2) [].
Proof. apply opsv_noleaf. vm_compute. reflexivity. Qed.

Lemma ox_orders : orders_ok_at (@rev _) (fun l => l) ox_delta.
Proof.
  unfold orders_ok_at.
  repeat match goal with |- context [d_irem ox_delta] => let r := eval vm_compute in (d_irem ox_delta) in change (d_irem ox_delta) with r end.
  repeat match goal with |- context [d_drem ox_delta] => let r := eval vm_compute in (d_drem ox_delta) in change (d_drem ox_delta) with r end.
  repeat match goal with |- context [d_iadd ox_delta] => let r := eval vm_compute in (d_iadd ox_delta) in change (d_iadd ox_delta) with r end.
  repeat split; try apply Permutation_rev; try apply Permutation_refl; cbn [rev app map];
    repeat constructor; apply not_idx_lt; reflexivity.
Qed.

(* the entries of the run: one of each kind an object edit can give *)
Definition ox_run := orun hatom_ex (fun _ _ => []) no_ops ox_cfg ox_t1 ox_t2.
Definition okind_eqb (a b : okind) : bool :=
  match a, b with
  | OK x, OK y => rkind_eqb x y
  | OKAttrAdd, OKAttrAdd | OKAttrRem, OKAttrRem => true
  | _, _ => false
  end.
Definition count_kind (k : okind) : nat := List.length (filter (fun e => okind_eqb (oekind e) k) (fst ox_run)).

Lemma ox_nontrivial :
  count_kind (OK KValue) = 2 /\ count_kind (OK KType) = 1 /\ count_kind OKAttrAdd = 2 /\ count_kind OKAttrRem = 1 /\
  count_kind (OK KIterRem) = 1 /\ count_kind (OK KSetAdd) = 1 /\ count_kind (OK KSetRem) = 1 /\
  List.length (fst ox_run) = 9 /\ opy_eqv ox_t1 ox_t2 = false.
Proof. vm_compute. repeat split; reflexivity. Qed.

Lemma ox_roundtrip :
  exists t2', oapply conv_none (@rev _) (fun l => l) ox_delta ox_t1 = (t2', 0) /\ oveqb t2' ox_t2 = true.
Proof.
  apply (oroundtrip_at hatom_ex (fun _ _ => []) no_ops ox_cfg conv_none false false hatom_ex_inj conv_none_typed
           (@rev _) (fun l => l) ox_t1 ox_t2 ltac:(cbn; lia) (proj1 ox_wf) (proj2 ox_wf) ox_guards ox_opsv ox_orders).
Qed.

(* and what the model computes for it *)
Lemma ox_result : oveqb (fst (oapply conv_none (@rev _) (fun l => l) ox_delta ox_t1)) ox_t2 = true /\
                  snd (oapply conv_none (@rev _) (fun l => l) ox_delta ox_t1) = 0.
Proof. vm_compute. split; reflexivity. Qed.

Lemma ox_faithful : forall e, In e (fst ox_run) -> ofaithful ox_t1 ox_t2 e.
Proof.
  apply orun_faithful; try (cbn; lia); apply ox_wf.
Qed.

(* ---- threshold_to_diff_deeper = 0: an instance against an instance of another class, against a
   dict, and a dict against an instance are one type_changes each ([tagfix]) ---- *)
Definition thr0_cfg : cfg := mkCfg false 0 1 true.
Definition thr0_t1 : ovalue := OList [OObj (P "PA") [(P "x", oI 1)]; OObj (P "PA") []; ODict [(s "a", oI 1)]; OObj (P "PA") [(P "x", oI 1)]].
Definition thr0_t2 : ovalue := OList [OObj (P "PB") [(P "x", oI 1)]; ODict [(s "a", oI 1)]; OObj (P "PB") [(P "y", oI 2)]; OObj (P "PA") [(P "y", oI 1)]].
Definition thr0_run := orun hatom_ex (fun _ _ => []) no_ops thr0_cfg thr0_t1 thr0_t2.
Lemma thr0_kinds :
  List.length (filter (fun e => okind_eqb (oekind e) (OK KType)) (fst thr0_run)) = 3 /\
  List.length (filter (fun e => okind_eqb (oekind e) OKAttrAdd) (fst thr0_run)) = 1 /\
  List.length (filter (fun e => okind_eqb (oekind e) OKAttrRem) (fst thr0_run)) = 1 /\
  List.length (fst thr0_run) = 5 /\
  (* the encoded run itself has 12 entries: 10 additions / removals of the keys of the three pairs *)
  List.length (fst (run_diff hatom_ex (fun _ _ => []) no_ops nopaths nopaths thr0_cfg (enc thr0_t1) (enc thr0_t2))) = 12.
Proof. vm_compute. repeat split; reflexivity. Qed.
Lemma thr0_faithful : forall e, In e (fst thr0_run) -> ofaithful thr0_t1 thr0_t2 e.
Proof. apply orun_faithful; [cbn; lia|reflexivity|reflexivity]. Qed.

(* ---- finding K17 carries over: ['a','b','a','b'] -> ['c','a','b','b','a'] in default alignment mode has
   values_changed root[3]: 'b' -> 'b' (an item removed and an equal item added at one index, merged) ---- *)
Definition ok17_t1 : ovalue := OList (map (fun ch => OAtom (AStr [ch])) [97; 98; 97; 98]%N).
Definition ok17_t2 : ovalue := OList (map (fun ch => OAtom (AStr [ch])) [99; 97; 98; 98; 97]%N).
Lemma ok17_refuted :
  exists e, In e (fst (orun (fun _ => []) (fun _ _ => []) Diff.DiffFaithful.k17_ops (mkCfg false 33 100 true) ok17_t1 ok17_t2)) /\
            oekind e = OK KValue /\ oet1 e = oet2 e /\ oet1 e <> None.
Proof.
  destruct Diff.DiffFaithful.changed_value_differs_refuted as (e & He & K & E).
  exists (dec_entry e). split.
  - unfold orun. cbn [fst]. apply in_map. unfold tagfix. apply in_or_app. left. apply filter_In. split.
    + exact He.
    + unfold class_split. rewrite K. reflexivity.
  - revert He K E. vm_compute. intros He K E.
    repeat (destruct He as [<-|He]; [try discriminate K; try discriminate E; repeat split; try reflexivity; discriminate|]). destruct He.
Qed.

(** Block Obj - C10 for results with class instances: the text view and pretty() of one tree agree. *)
From Coq Require Import List ZArith NArith Bool Arith String Lia.
Import ListNotations.
From DD Require Import Base.PyStr Base.Value Path.PathModel Diff.Tree Views.ViewsModel Views.ViewsProofs
  Delta.DeltaExamples Obj.ObjValue Obj.ObjModel Obj.ObjText Obj.ObjViews Obj.ObjExamples.

(* the text view has exactly one entry per level the verbose level shows, under the same
   category and the same path text, in the same order *)
Lemma otext_of_key verbose e :
  map otkey (otext_of verbose e) = if ovisible verbose e then [oekey e] else [].
Proof.
  unfold otext_of, ovisible, oekey, oepath.
  destruct (oekind e) as [k| |]; [destruct k|..];
    try destruct (Nat.ltb 0 verbose); try destruct (Nat.ltb 1 verbose); reflexivity.
Qed.

Theorem otext_same_pairs verbose es :
  map otkey (otext_view verbose es) = map oekey (filter (ovisible verbose) es).
Proof.
  unfold otext_view. induction es as [|e es IH]; [reflexivity|].
  cbn [flat_map filter]. rewrite map_app, IH, otext_of_key.
  destruct (ovisible verbose e); reflexivity.
Qed.

(* at verbose_level 2 everything but repetition_change is shown *)
Lemma ovisible_2 e : ovisible 2 e = match oekind e with OK KRepetition => false | _ => true end.
Proof. unfold ovisible. destruct (oekind e) as [k| |]; [destruct k|..]; reflexivity. Qed.

(* attribute_added / attribute_removed (and the dictionary items): the text entry carries the value exactly at
   verbose_level 2, and it is the level's t2 (added) / t1 (removed) object *)
Theorem otext_item_values verbose e :
  (oekind e = OKAttrAdd \/ oekind e = OK KDictAdd ->
     otext_of verbose e = [OTItem (oekind e) (orender (oep1 e)) (if Nat.leb 2 verbose then oet2 e else None)]) /\
  (oekind e = OKAttrRem \/ oekind e = OK KDictRem ->
     otext_of verbose e = [OTItem (oekind e) (orender (oep1 e)) (if Nat.leb 2 verbose then oet1 e else None)]).
Proof. unfold otext_of. split; intros [K|K]; rewrite K; reflexivity. Qed.

(* pretty(): one statement per level; unless the level is an iterable_item_moved it is non-empty and names the
   level's path (for a set item the path of the set) - the path text the text view files the level under *)
Lemma opretty_length verbose es : List.length (opretty verbose es) = List.length es.
Proof. apply map_length. Qed.

Theorem opretty_names_path verbose e :
  oekind e <> OK KIterMoved -> contains_sub (orender (oep1 e)) (opretty_of verbose e) = true.
Proof.
  intros M. unfold opretty_of.
  destruct (oekind e) as [k| |]; [destruct k|..]; try congruence;
    try destruct (Nat.eqb verbose 2); apply contains_sub_mid.
Qed.

Theorem opretty_nonempty verbose e : oekind e <> OK KIterMoved -> opretty_of verbose e <> [].
Proof.
  intros M. unfold opretty_of.
  destruct (oekind e) as [k| |]; [destruct k|..]; try congruence; try destruct (Nat.eqb verbose 2); cbn; discriminate.
Qed.

Theorem opretty_per_change verbose es :
  Forall2 (fun e s => s = opretty_of verbose e /\
                      (oekind e <> OK KIterMoved -> s <> []) /\
                      (oekind e <> OK KIterMoved -> contains_sub (orender (oep1 e)) s = true))
          es (opretty verbose es).
Proof.
  induction es as [|e es IH]; [constructor|]. cbn. constructor; [|exact IH].
  split; [reflexivity|]. split; [apply opretty_nonempty|apply opretty_names_path].
Qed.

(* the attribute statements name the attribute and, at verbose_level 2, carry the value the text view carries *)
Theorem opretty_attribute verbose e :
  (oekind e = OKAttrAdd ->
     opretty_of verbose e = if Nat.eqb verbose 2
                            then (s2p "Attribute " ++ orender (oep1 e) ++ s2p " (" ++ opretty_val (oet2 e) ++ s2p ") added.")%list
                            else (s2p "Attribute " ++ orender (oep1 e) ++ s2p " added.")%list) /\
  (oekind e = OKAttrRem ->
     opretty_of verbose e = if Nat.eqb verbose 2
                            then (s2p "Attribute " ++ orender (oep1 e) ++ s2p " (" ++ opretty_val (oet1 e) ++ s2p ") removed.")%list
                            else (s2p "Attribute " ++ orender (oep1 e) ++ s2p " removed.")%list).
Proof. unfold opretty_of. split; intros K; rewrite K; reflexivity. Qed.

(* on plain values (no instance anywhere) the object repr is the repr of Views.ViewsModel *)
Lemma opy_repr_enc_plain : forall v, (fix noobj (v : ovalue) : bool :=
    match v with
    | OObj _ _ => false
    | OList xs | OTuple xs => forallb noobj xs
    | ODict kvs => forallb (fun kv => noobj (snd kv)) kvs
    | _ => true
    end) v = true -> opy_repr v = py_repr (enc v).
Proof.
  fix IH 1. intros v. destruct v as [a|xs|xs|kvs|xs|xs|cls attrs]; intros H; try reflexivity; try discriminate H.
  - cbn [opy_repr enc py_repr]. do 2 f_equal. f_equal. rewrite map_map.
    induction xs as [|x xs IHx]; [reflexivity|]. cbn in H. apply andb_true_iff in H as [H1 H2].
    cbn [map]. rewrite (IH x H1), (IHx H2). reflexivity.
  - assert (E : map opy_repr xs = map py_repr (map enc xs)).
    { rewrite map_map. induction xs as [|x xs IHx]; [reflexivity|]. cbn in H. apply andb_true_iff in H as [H1 H2].
      cbn [map]. rewrite (IH x H1), (IHx H2). reflexivity. }
    cbn [opy_repr enc py_repr]. destruct xs as [|x [|y r]]; cbn [map] in *.
    + reflexivity.
    + inversion E. reflexivity.
    + rewrite E. reflexivity.
  - cbn [opy_repr enc py_repr]. do 2 f_equal. f_equal. rewrite map_map.
    induction kvs as [|[k x] kvs IHx]; [reflexivity|]. cbn in H. apply andb_true_iff in H as [H1 H2].
    cbn [map fst snd]. rewrite (IH x H1), (IHx H2). reflexivity.
Qed.

(* ---- the three views of one run: the pair of ObjExamples ---- *)
Local Open Scope string_scope.
Lemma ox_views :
  map otkey (otext_view 2 (fst ox_run)) = map oekey (fst ox_run) /\
  List.length (otext_view 2 (fst ox_run)) = 9%nat /\ List.length (otext_view 0 (fst ox_run)) = 7%nat /\
  In (s2p "Attribute root['o'].w (""new"") added.") (opretty 2 (fst ox_run)) /\
  In (s2p "Attribute root['o'].z removed.") (opretty 1 (fst ox_run)) /\
  In (s2p "Type of root['q'] changed from PA to PB and value changed from PA(a=1) to PB(a=1).") (opretty 1 (fst ox_run)) /\
  In (s2p "Item root['l'][1] (PB()) removed from iterable.") (opretty 2 (fst ox_run)) /\
  In (OTItem OKAttrAdd (s2p "root['l'][0].k") (Some (OAtom (AInt 5)))) (otext_view 2 (fst ox_run)) /\
  In (OTItem OKAttrAdd (s2p "root['l'][0].k") None) (otext_view 1 (fst ox_run)).
Proof. vm_compute. repeat split; tauto. Qed.

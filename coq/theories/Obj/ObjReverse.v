(** Block Obj - C08 for values with class instances: the reverse delta (t2 - delta, [osub]) gives t1
    back up to the order of dict items, attributes and set members.  Corollary of
    Delta/DeltaReverseClashInv.v (clash_sub_inverts: all payload categories, any alignment mode) on
    the encodings + decoding up to order (Obj/ObjRoundtrip.v); a one-way delta refuses. *)
From Coq Require Import List ZArith NArith Bool Arith Lia Permutation String.
Import ListNotations.
From DD Require Import Base.PyStr Base.Value Base.ValueFacts Path.PathModel Diff.Tree Diff.DiffModel Diff.DiffPaths
  Delta.DeltaModel Delta.DeltaRun Delta.DeltaGuard Delta.DeltaGood Delta.DeltaChain Delta.DeltaExamples
  Delta.DeltaVerify Delta.DeltaVerifyIndep Delta.DeltaReverse Delta.DeltaReverseInplace Delta.DeltaReverseZip Delta.DeltaReverseSym Delta.DeltaReverseClashInv Delta.DeltaVerifyHyp
  Obj.ObjValue Obj.ObjModel Obj.ObjFacts Obj.ObjFaithful Obj.ObjRoundtrip Obj.ObjExamples.

Section OReverse.
Variable hatom : atom -> pystr.
Variable udiff : pystr -> pystr -> pystr.
Variable ops : path -> list value -> list value -> list opcode.
Variable c : cfg.
Variable conv : ty -> value -> option value.
Variable always : bool.
Hypothesis Hthr : thr_num c <= thr_den c.
Hypothesis Hinj : forall a b, hatom a = hatom b -> a = b.
Hypothesis Hconv : forall ty0 v v', conv ty0 v = Some v' -> type_of v' = ty0.
Variable ro : list (path * value) -> list (path * value).
Variable ao : list (path * option value) -> list (path * option value).
Hypothesis Hro : ro_ok ro.
Hypothesis Hao : ao_ok ao.
Hypothesis Hops : forall p xs ys, forallb is_atom xs = true -> forallb is_atom ys = true ->
                                  valid_ops xs ys (ops p xs ys).
Hypothesis Hsorted : zip c = true \/ ops_sorted2 ops.

Theorem osub_inverts (t1 t2 : ovalue) :
  0 < thr_num c -> owf t1 = true -> owf t2 = true ->
  guards c conv true always (enc t2) (enc t1) -> korder (enc t1) (enc t2) -> keys_nonneg (enc t1) = true ->
  let d := odelta hatom udiff ops c conv true always t1 t2 in
  (forall cc, In cc (d_val (reverse d)) -> ntp (enc t2) (vc_path cc)) ->
  exists t1', osub conv ro ao d t2 = Some (t1', 0) /\ oveqb t1' t1 = true.
Proof.
  intros Hpos W1 W2 G KO N1 d Hntp. unfold d in *.
  rewrite (odelta_eq hatom udiff ops c conv true always t1 t2 Hpos W1 W2) in *.
  destruct (clash_sub_inverts hatom udiff ops c conv always Hthr Hinj Hconv ro ao Hro Hao Hops Hsorted
              (enc t1) (enc t2) G KO N1 Hntp) as (v & S & V).
  exists (dec v). split.
  - unfold osub. etransitivity; [apply f_equal; exact S|reflexivity].
  - apply dec_veqb; assumption.
Qed.

(* forth and back *)
Theorem oadd_and_osub (t1 t2 : ovalue) :
  0 < thr_num c -> owf t1 = true -> owf t2 = true ->
  guards c conv true always (enc t1) (enc t2) ->
  guards c conv true always (enc t2) (enc t1) -> korder (enc t1) (enc t2) -> keys_nonneg (enc t1) = true ->
  let d := odelta hatom udiff ops c conv true always t1 t2 in
  (forall cc, In cc (d_val (reverse d)) -> ntp (enc t2) (vc_path cc)) ->
  (exists t2', oapply conv ro ao d t1 = (t2', 0) /\ oveqb t2' t2 = true) /\
  (exists t1', osub conv ro ao d t2 = Some (t1', 0) /\ oveqb t1' t1 = true).
Proof.
  intros Hpos W1 W2 G12 G21 KO N1 d Hntp. split.
  - apply (oroundtrip hatom udiff ops c conv true always Hinj Hconv ro ao t1 t2 Hops Hro Hao Hpos W1 W2 G12).
  - apply osub_inverts; assumption.
Qed.
End OReverse.

(* a one-way delta refuses the subtraction *)
Theorem osub_refused hatom udiff ops c conv always ro ao t1 t2 base :
  osub conv ro ao (odelta hatom udiff ops c conv false always t1 t2) base = None.
Proof. unfold osub, sub, odelta. reflexivity. Qed.

(* ---- non-vacuity: the pair of ObjExamples (9 entries of 7 kinds, instances at dict values, in a list,
   as attribute values) with a bidirectional delta ---- *)
Definition oxb_delta : delta := odelta hatom_ex (fun _ _ => []) no_ops ox_cfg conv_none true false ox_t1 ox_t2.

Lemma oxb_guards :
  zip ox_cfg = true /\ 0 < thr_num ox_cfg /\
  guardsb ox_cfg true false (enc ox_t1) (enc ox_t2) = true /\ guardsb ox_cfg true false (enc ox_t2) (enc ox_t1) = true /\
  korderb (enc ox_t1) (enc ox_t2) = true /\ keys_nonneg (enc ox_t1) = true /\
  ntp_valsb (enc ox_t2) oxb_delta = true.
Proof. vm_compute. repeat split; reflexivity. Qed.

Lemma oxb_result :
  (exists t1', osub conv_none (@rev _) (fun l => l) oxb_delta ox_t2 = Some (t1', 0) /\ oveqb t1' ox_t1 = true) /\
  (exists t2', oapply conv_none (@rev _) (fun l => l) oxb_delta ox_t1 = (t2', 0) /\ oveqb t2' ox_t2 = true).
Proof. split; eexists; vm_compute; split; reflexivity. Qed.

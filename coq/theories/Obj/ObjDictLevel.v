(** Block Obj - a fact about the plain ordered-diff model that the object theorems
    need and Diff/DiffFaithful.v does not state: every dictionary_item_added /
    dictionary_item_removed entry sits directly below a path at which BOTH inputs
    hold a dict, the key is one the run compares (keep_key), and the
    threshold_to_diff_deeper shortcut did not fire for that pair of dicts. *)
From Coq Require Import List ZArith NArith Bool Arith Lia.
Import ListNotations.
From DD Require Import Base.PyStr Base.Value Base.ValueFacts Path.PathModel Diff.Tree Diff.DiffModel
  Diff.DiffFacts Diff.DiffFaithful Diff.DiffPaths Diff.TextFaithful.

(* an iterable_item_moved entry holds two scalars (only all-scalar lists are aligned by content) *)
Definition moved_atoms (e : entry) : Prop := exists x y, et1 e = Some (VAtom x) /\ et2 e = Some (VAtom y).

(* a values_changed / type_changes entry has one path for both sides, or holds two scalars (items of
   all-scalar lists aligned by content are the only levels whose two paths differ) *)
Definition same_or_atoms (e : entry) : Prop := ep1 e = ep2 e \/ moved_atoms e.

Definition dict_level (excl : path -> bool) (c : cfg) (r1 r2 : value) (e : entry) : Prop :=
  match ekind e with
  | KDictAdd | KDictRem =>
      exists P k d1 d2, ep1 e = snoc P (PKey k) /\ ep2 e = snoc P (PKey k) /\
        resolve r1 P = Some (VDict d1) /\ resolve r2 P = Some (VDict d2) /\
        nodup_atoms (map fst d1) = true /\ nodup_atoms (map fst d2) = true /\
        dict_shortcut excl c (keys_of c d1) (keys_of c d2) P = false /\ keep_key c k = true /\
        (ekind e = KDictAdd -> In k (map fst d2) /\ assoc k d1 = None) /\
        (ekind e = KDictRem -> In k (map fst d1) /\ assoc k d2 = None)
  | KIterMoved => moved_atoms e
  | KValue | KType => same_or_atoms e
  | _ => True
  end.

Definition not_dict_kind (e : entry) : Prop :=
  ekind e <> KDictAdd /\ ekind e <> KDictRem /\ (ekind e = KIterMoved -> moved_atoms e) /\
  (ekind e = KValue \/ ekind e = KType -> same_or_atoms e).

Lemma not_dict_kind_level excl c r1 r2 es : Forall not_dict_kind es -> Forall (dict_level excl c r1 r2) es.
Proof.
  intros H. eapply Forall_impl; [|exact H]. intros e (A & B & C & D). unfold dict_level.
  destruct (ekind e); try exact I; try congruence; try (apply C; reflexivity); apply D; tauto.
Qed.

Section Leaves.
Variable hatom : atom -> pystr.
Variable udiff : pystr -> pystr -> pystr.
Variable ops : path -> list value -> list value -> list opcode.
Variable skip : path -> bool.
Notation ND := (Forall not_dict_kind).

Lemma ND_report k p1 p2 a b d : k <> KDictAdd -> k <> KDictRem -> k <> KIterMoved ->
  (k = KValue \/ k = KType -> p1 = p2 \/ exists x y, a = Some (VAtom x) /\ b = Some (VAtom y)) ->
  ND (report skip k p1 p2 a b d).
Proof.
  intros A B C D. unfold report. destruct (skip p1); constructor; [|constructor].
  unfold not_dict_kind, same_or_atoms, moved_atoms. cbn [ekind ep1 ep2 et1 et2].
  split; [exact A|]. split; [exact B|]. split; [intros K; contradiction|].
  intros K. destruct (D K) as [E|(x & y & -> & ->)]; [left; exact E|right; exists x, y; split; reflexivity].
Qed.
Lemma ND_report_other k p1 p2 a b d : k = KIterAdd \/ k = KIterRem -> ND (report skip k p1 p2 a b d).
Proof. intros [->| ->]; apply ND_report; try discriminate; intros [H|H]; discriminate H. Qed.
Lemma ND_report_atoms k p1 p2 x y d : k = KValue \/ k = KType -> ND (report skip k p1 p2 (Some (VAtom x)) (Some (VAtom y)) d).
Proof. intros [->| ->]; apply ND_report; try discriminate; intros _; right; exists x, y; split; reflexivity. Qed.
Lemma ND_report_same k p a b d : k = KValue \/ k = KType -> ND (report skip k p p a b d).
Proof. intros [->| ->]; apply ND_report; try discriminate; intros _; left; reflexivity. Qed.

Lemma ND_diff_atom a b p1 p2 : ND (diff_atom udiff skip a b p1 p2).
Proof.
  unfold diff_atom. destruct (skip p1); [constructor|].
  destruct (negb _); [apply ND_report_atoms; right; reflexivity|].
  destruct a, b; try (destruct (py_eq _ _); [constructor|apply ND_report_atoms; left; reflexivity]).
  - destruct (diff_str udiff false s s0) as [ch d]. destruct ch; [apply ND_report_atoms; left; reflexivity|constructor].
  - destruct (diff_str udiff true s s0) as [ch d]. destruct ch; [apply ND_report_atoms; left; reflexivity|constructor].
Qed.

Lemma ND_removed_from xs : forall i p1 p2, ND (removed_from skip xs i p1 p2).
Proof.
  induction xs as [|x xs IH]; intros i p1 p2; cbn; [constructor|].
  apply Forall_app; split; [apply ND_report_other; right; reflexivity|apply IH].
Qed.
Lemma ND_added_from ys : forall j p1 p2, ND (added_from skip ys j p1 p2).
Proof.
  induction ys as [|y ys IH]; intros j p1 p2; cbn; [constructor|].
  apply Forall_app; split; [apply ND_report_other; left; reflexivity|apply IH].
Qed.
Lemma ND_pairs_leaf xs : forall ys i j p1 p2, ND (pairs_leaf udiff skip xs ys i j p1 p2).
Proof.
  induction xs as [|x xs IH]; intros ys i j p1 p2.
  - cbn. destruct ys; apply ND_added_from.
  - destruct ys as [|y ys]; [apply ND_removed_from|].
    cbn [pairs_leaf]. apply Forall_app; split; [|apply IH].
    destruct (negb (i =? j) && py_eq_leaf x y) eqn:E.
    { apply andb_true_iff in E as [_ E]. destruct x as [ax| | | | |], y as [ay| | | | |]; try discriminate E.
      unfold report. destruct (skip _); constructor; [|constructor].
      repeat split; try discriminate; [intros _; exists ax, ay; split; reflexivity|intros [H|H]; discriminate H]. }
    unfold diff_leaf. destruct x, y; try constructor. apply ND_diff_atom.
Qed.
Lemma ND_by_opcodes os xs ys p1 p2 : ND (by_opcodes udiff skip os xs ys p1 p2).
Proof.
  unfold by_opcodes. induction os as [|o os IH]; cbn; [constructor|].
  apply Forall_app; split; [|exact IH].
  destruct (otag o); [constructor|apply ND_pairs_leaf|apply ND_removed_from|apply ND_added_from].
Qed.
Lemma ND_default_leaf_list xs ys p1 p2 : ND (fst (default_leaf_list udiff ops skip xs ys p1 p2)).
Proof.
  unfold default_leaf_list. destruct (1 <? _); [|apply ND_by_opcodes].
  destruct (_ <=? _); [apply ND_pairs_leaf|apply ND_by_opcodes].
Qed.
Lemma ND_diff_set xs ys p1 p2 : ND (diff_set hatom skip xs ys p1 p2).
Proof.
  unfold diff_set. apply Forall_app; split; apply Forall_forall; intros e He;
    apply in_flat_map in He as (y & _ & He); destruct (existsb _ _); try (destruct He; fail);
    unfold report_set in He; destruct (skip p1); try (destruct He; fail); destruct He as [<-|[]]; repeat split; try discriminate; intros [H|H]; discriminate H.
Qed.
End Leaves.

Section Main.
Variable hatom : atom -> pystr.
Variable udiff : pystr -> pystr -> pystr.
Variable ops : path -> list value -> list value -> list opcode.
Variable skip excl : path -> bool.
Variable c : cfg.
Variables r1 r2 : value.
Notation diff := (diff hatom udiff ops skip excl c).
Notation DL := (Forall (dict_level excl c r1 r2)).

Definition IHL (t1 : value) : Prop :=
  forall t2 p, wf t1 = true -> wf t2 = true ->
    resolve r1 p = Some t1 -> resolve r2 p = Some t2 -> DL (fst (diff t1 t2 p p)).

Lemma L_go_list xs : Forall IHL xs -> forall ys i v1 v2 XS YS p,
  resolve r1 p = Some v1 -> seq_items v1 = Some XS ->
  resolve r2 p = Some v2 -> seq_items v2 = Some YS ->
  (forall k x, nth_error xs k = Some x -> nth_error XS (i + k) = Some x) ->
  (forall k y, nth_error ys k = Some y -> nth_error YS (i + k) = Some y) ->
  forallb wf xs = true -> forallb wf ys = true ->
  DL (fst (go_list skip diff p p xs ys i)).
Proof.
  induction 1 as [|x xs Hx _ IH]; intros ys i v1 v2 XS YS p H1 S1 H2 S2 N1 N2 W1 W2.
  - cbn. apply not_dict_kind_level, ND_added_from.
  - destruct ys as [|y ys]; [cbn [go_list fst]; apply not_dict_kind_level, ND_removed_from|].
    cbn [go_list]. unfold app2. cbn [fst]. apply Forall_app; split.
    + cbn in W1, W2. apply andb_true_iff in W1 as [Wx _], W2 as [Wy _].
      apply Hx; try assumption.
      * eapply resolve_seq_item; try eassumption. specialize (N1 0 x eq_refl). rewrite Nat.add_0_r in N1. exact N1.
      * eapply resolve_seq_item; try eassumption. specialize (N2 0 y eq_refl). rewrite Nat.add_0_r in N2. exact N2.
    + cbn in W1, W2. apply andb_true_iff in W1 as [_ W1], W2 as [_ W2].
      eapply IH; try eassumption.
      * intros k z Hk. specialize (N1 (S k) z Hk). rewrite Nat.add_succ_r in N1. exact N1.
      * intros k z Hk. specialize (N2 (S k) z Hk). rewrite Nat.add_succ_r in N2. exact N2.
Qed.

Lemma L_seq_body xs ys v1 v2 p : Forall IHL xs ->
  resolve r1 p = Some v1 -> seq_items v1 = Some xs ->
  resolve r2 p = Some v2 -> seq_items v2 = Some ys ->
  forallb wf xs = true -> forallb wf ys = true ->
  DL (fst (seq_body hatom udiff ops skip excl c xs ys p p)).
Proof.
  intros IH H1 S1 H2 S2 W1 W2. unfold seq_body.
  destruct (negb (zip c) && forallb is_atom xs && forallb is_atom ys).
  - pose proof (ND_default_leaf_list udiff ops skip xs ys p p) as P.
    destruct (default_leaf_list udiff ops skip xs ys p p) as [es rec]. cbn [fst] in *.
    apply not_dict_kind_level. exact P.
  - eapply L_go_list; try eassumption; intros k z Hk; exact Hk.
Qed.

Lemma L_go_common kvs1 kvs2 p :
  nodup_atoms (map fst kvs1) = true ->
  forallb (fun kv => wf (snd kv)) kvs1 = true -> forallb (fun kv => wf (snd kv)) kvs2 = true ->
  resolve r1 p = Some (VDict kvs1) -> resolve r2 p = Some (VDict kvs2) ->
  forall l, (forall kv, In kv l -> In kv kvs1) -> Forall (fun kv => IHL (snd kv)) l ->
  DL (fst (go_common c diff kvs2 (keys_of c kvs2) p p l)).
Proof.
  intros N1 W1 W2 H1 H2. induction l as [|[k v1] l IH]; intros Sub HI; cbn; [constructor|].
  apply Forall_cons_iff in HI as [Hk HI'].
  assert (Rest : DL (fst (go_common c diff kvs2 (keys_of c kvs2) p p l))).
  { apply IH; [intros kv Hkv; apply Sub; right; exact Hkv|exact HI']. }
  destruct (keep_key c k); [|exact Rest].
  destruct (find (py_eq k) (keys_of c kvs2)) as [k'|] eqn:Fk; [|exact Rest].
  destruct (assoc k' kvs2) as [v2|] eqn:A2; [|exact Rest].
  unfold app2. cbn [fst]. apply Forall_app; split; [|exact Rest].
  apply find_some in Fk as [Hk' E]. cbn in Hk. apply Hk.
  - eapply forallb_forall in W1; [|apply Sub; left; reflexivity]. exact W1.
  - apply assoc_In in A2 as (k'' & Hin & _). eapply forallb_forall in W2; [|exact Hin]. exact W2.
  - unfold snoc. rewrite resolve_snoc, H1. rewrite get_item_key_dict.
    eapply assoc_nodup; [exact N1|apply Sub; left; reflexivity|exact E].
  - unfold snoc. rewrite resolve_snoc, H2. rewrite get_item_key_dict. exact A2.
Qed.

Lemma L_dict_body kvs1 kvs2 p :
  Forall (fun kv => IHL (snd kv)) kvs1 ->
  wf (VDict kvs1) = true -> wf (VDict kvs2) = true ->
  resolve r1 p = Some (VDict kvs1) -> resolve r2 p = Some (VDict kvs2) ->
  DL (fst (dict_body hatom udiff ops skip excl c kvs1 kvs2 p p)).
Proof.
  intros IH W1 W2 H1 H2. cbn in W1, W2.
  apply andb_true_iff in W1 as [N1 W1], W2 as [N2 W2].
  unfold dict_body.
  destruct (dict_shortcut excl c (keys_of c kvs1) (keys_of c kvs2) p) eqn:S.
  - cbn [fst]. apply not_dict_kind_level, ND_report_same. left. reflexivity.
  - cbn [fst]. apply Forall_app; split; [|apply Forall_app; split].
    + apply Forall_forall. intros e He. apply in_flat_map in He as (k & Hk & He).
      destruct (mem_atom k (keys_of c kvs1)) eqn:M; [destruct He|].
      unfold report in He. destruct (skip _); [destruct He|]. destruct He as [<-|[]].
      apply keys_of_In in Hk as [Hk Kk].
      exists p, k, kvs1, kvs2. cbn. repeat split; try assumption; try discriminate.
      apply (proj2 (assoc_None k kvs1)). rewrite <- (mem_keys_of c kvs1 k Kk). exact M.
    + apply Forall_forall. intros e He. apply in_flat_map in He as (k & Hk & He).
      destruct (mem_atom k (keys_of c kvs2)) eqn:M; [destruct He|].
      unfold report in He. destruct (skip _); [destruct He|]. destruct He as [<-|[]].
      apply keys_of_In in Hk as [Hk Kk].
      exists p, k, kvs1, kvs2. cbn. repeat split; try assumption; try discriminate.
      apply (proj2 (assoc_None k kvs2)). rewrite <- (mem_keys_of c kvs2 k Kk). exact M.
    + apply (L_go_common kvs1 kvs2); try assumption. intros kv Hkv; exact Hkv.
Qed.

Theorem diff_dict_level : forall t1, IHL t1.
Proof.
  induction t1 as [a|xs IH|xs IH|kvs IH|xs|xs] using value_ind'; intros t2 p W1 W2 H1 H2;
    (destruct (skip p) eqn:Hs; [rewrite diff_skip by exact Hs; apply Forall_nil|]);
    (match goal with |- context [diff ?t1 t2 _ _] => destruct (ty_eqb (type_of t1) (type_of t2)) eqn:T end;
     [|rewrite diff_type by assumption; cbn [fst]; apply not_dict_kind_level, ND_report_same; right; reflexivity]);
    apply ty_eqb_true in T; destruct t2; try discriminate T; try (destruct a; discriminate T).
  - rewrite diff_atom_eq by exact Hs. cbn in T. rewrite T.
    replace (ty_eqb (atom_ty a0) (atom_ty a0)) with true by (destruct (atom_ty a0); reflexivity).
    cbn [negb fst]. apply not_dict_kind_level, ND_diff_atom.
  - rewrite diff_list by exact Hs. eapply L_seq_body; try eassumption; reflexivity.
  - rewrite diff_tuple by exact Hs. eapply L_seq_body; try eassumption; reflexivity.
  - rewrite diff_dict by exact Hs. apply L_dict_body; assumption.
  - rewrite diff_vset by exact Hs. cbn [fst]. apply not_dict_kind_level, ND_diff_set.
  - rewrite diff_vfrozen by exact Hs. cbn [fst]. apply not_dict_kind_level, ND_diff_set.
Qed.

End Main.

(* mutual_add_removes_to_become_value_changes only makes values_changed entries *)
Lemma mutual_dict_In es e : In e (mutual es) -> ekind e <> KValue -> In e es.
Proof.
  intros H K. unfold mutual in H. apply in_flat_map in H as (e0 & H0 & H).
  destruct (ekind e0) eqn:K0; try (destruct H as [<-|[]]; exact H0).
  - destruct (last_with_path _ _); [destruct H|]. destruct H as [<-|[]]. exact H0.
  - destruct (last_with_path (ep1 e0) (filter (is_kind KIterAdd) es)); [|destruct H as [<-|[]]; exact H0].
    destruct (last_with_path (ep1 e0) (filter (is_kind KIterRem) es)); [|destruct H as [<-|[]]; exact H0].
    destruct H as [<-|[]]. cbn in K. congruence.
Qed.

Lemma mutual_In_cases es e : In e (mutual es) ->
  In e es \/ exists e0 a, In e0 es /\ ekind e0 = KIterRem /\ e = mkEntry KValue (ep1 e0) (ep2 e0) (et1 e0) (et2 a) (ediff e0).
Proof.
  intros H. unfold mutual in H. apply in_flat_map in H as (e0 & H0 & H).
  destruct (ekind e0) eqn:K0; try (destruct H as [<-|[]]; left; exact H0).
  - destruct (last_with_path _ _); [destruct H|]. destruct H as [<-|[]]. left. exact H0.
  - destruct (last_with_path (ep1 e0) (filter (is_kind KIterAdd) es)) as [a|]; [|destruct H as [<-|[]]; left; exact H0].
    destruct (last_with_path (ep1 e0) (filter (is_kind KIterRem) es)); [|destruct H as [<-|[]]; left; exact H0].
    destruct H as [<-|[]]. right. exists e0, a. repeat split; assumption.
Qed.

Theorem run_diff_dict_level hatom udiff ops skip excl c t1 t2 :
  wf t1 = true -> wf t2 = true ->
  forall e, In e (fst (run_diff hatom udiff ops skip excl c t1 t2)) -> dict_level excl c t1 t2 e.
Proof.
  intros W1 W2 e He.
  pose proof (diff_dict_level hatom udiff ops skip excl c t1 t2 t1 t2 [] W1 W2 eq_refl eq_refl) as HF.
  pose proof (diff_same_paths hatom udiff ops skip excl c t1 t2 []) as HS.
  unfold run_diff in He. destruct (diff hatom udiff ops skip excl c t1 t2 [] []) as [es rec] eqn:D.
  cbn [fst] in *.
  destruct (mutual_In_cases es e He) as [Hin|(e0 & a & H0 & K0 & ->)].
  - eapply Forall_forall in HF; [exact HF|exact Hin].
  - unfold dict_level. cbn [ekind]. left. cbn [ep1 ep2].
    eapply Forall_forall in HS; [|exact H0]. destruct HS as [E|S]; [exact E|].
    unfold shifted in S. rewrite K0 in S. destruct S as [S|[S|S]]; discriminate S.
Qed.

(** Block Obj - the paths the object run reports satisfy the guard of the path-text theorems
    ([opath_ok], Obj/ObjPathText.v) whenever the dict keys and attribute names of the inputs do
    ([okeys_ok]); hence the TEXT of every reported path extracts the reported values (C04 on the
    text view, for values with instances).  Proved by following the encoded run with the invariant
    "the two values compared at p are the encodings of two object values (or the attribute dicts of two
    instances), and the decoding of p satisfies [opath_ok]". *)
From Coq Require Import List ZArith NArith Bool Arith Lia.
Import ListNotations.
From DD Require Import Base.PyStr Base.Value Base.ValueFacts Path.PathModel Diff.Tree Diff.DiffModel
  Diff.DiffFacts Diff.DiffFaithful Diff.DiffPaths
  Obj.ObjValue Obj.ObjModel Obj.ObjText Obj.ObjFacts Obj.ObjProofs Obj.ObjDictLevel Obj.ObjPath Obj.ObjFaithful Obj.ObjPathText.

(* every dict key satisfies C09's guard, every attribute name is a plain identifier *)
Fixpoint okeys_ok (v : ovalue) : bool :=
  match v with
  | OAtom _ | OSet _ | OFrozen _ => true
  | OList xs | OTuple xs => forallb okeys_ok xs
  | ODict kvs => forallb (fun kv => key_ok (PKey (fst kv)) && okeys_ok (snd kv)) kvs
  | OObj _ attrs => forallb (fun av => attr_ok (fst av) && okeys_ok (snd av)) attrs
  end.
Definition good (x : ovalue) : Prop := owf x = true /\ okeys_ok x = true.

(* ---- where the entries of the leaf functions sit ---- *)
Definition plain_kind (e : entry) : Prop := ekind e <> KDictAdd /\ ekind e <> KDictRem.
Definition at_self (p1 p2 : path) (e : entry) : Prop := plain_kind e /\ ep1 e = p1 /\ ep2 e = p2.
Definition at_idx (p1 p2 : path) (e : entry) : Prop :=
  plain_kind e /\ exists i j, ep1 e = snoc p1 (PIdx i) /\ ep2 e = snoc p2 (PIdx j).

Section Leaves.
Variable hatom : atom -> pystr.
Variable udiff : pystr -> pystr -> pystr.
Variable ops : path -> list value -> list value -> list opcode.
Variable skip : path -> bool.

Lemma AS_report k p1 p2 a b d : k <> KDictAdd -> k <> KDictRem -> Forall (at_self p1 p2) (report skip k p1 p2 a b d).
Proof.
  intros A B. unfold report. destruct (skip p1); constructor; [|constructor].
  split; [split; cbn; assumption|split; reflexivity].
Qed.
Lemma AS_diff_atom a b p1 p2 : Forall (at_self p1 p2) (diff_atom udiff skip a b p1 p2).
Proof.
  unfold diff_atom. destruct (skip p1); [constructor|].
  destruct (negb _); [apply AS_report; discriminate|].
  destruct a, b; try (destruct (py_eq _ _); [constructor|apply AS_report; discriminate]).
  - destruct (diff_str udiff false s s0) as [ch d]. destruct ch; [apply AS_report; discriminate|constructor].
  - destruct (diff_str udiff true s s0) as [ch d]. destruct ch; [apply AS_report; discriminate|constructor].
Qed.
Lemma AS_diff_set xs ys p1 p2 : Forall (at_self p1 p2) (diff_set hatom skip xs ys p1 p2).
Proof.
  unfold diff_set. apply Forall_app; split; apply Forall_forall; intros e He;
    apply in_flat_map in He as (y & _ & He); destruct (existsb _ _); try (destruct He; fail);
    unfold report_set in He; destruct (skip p1); try (destruct He; fail); destruct He as [<-|[]];
    (split; [split; discriminate|split; reflexivity]).
Qed.
Lemma self_idx p1 p2 i j es : Forall (at_self (snoc p1 (PIdx i)) (snoc p2 (PIdx j))) es -> Forall (at_idx p1 p2) es.
Proof. apply Forall_impl. intros e (K & E1 & E2). split; [exact K|]. exists i, j. split; assumption. Qed.

Lemma AI_removed_from xs : forall i p1 p2, Forall (at_idx p1 p2) (removed_from skip xs i p1 p2).
Proof.
  induction xs as [|x xs IH]; intros i p1 p2; cbn; [constructor|].
  apply Forall_app; split; [apply (self_idx p1 p2 i i), AS_report; discriminate|apply IH].
Qed.
Lemma AI_added_from ys : forall j p1 p2, Forall (at_idx p1 p2) (added_from skip ys j p1 p2).
Proof.
  induction ys as [|y ys IH]; intros j p1 p2; cbn; [constructor|].
  apply Forall_app; split; [apply (self_idx p1 p2 j j), AS_report; discriminate|apply IH].
Qed.
Lemma AI_pairs_leaf xs : forall ys i j p1 p2, Forall (at_idx p1 p2) (pairs_leaf udiff skip xs ys i j p1 p2).
Proof.
  induction xs as [|x xs IH]; intros ys i j p1 p2.
  - cbn. destruct ys; apply AI_added_from.
  - destruct ys as [|y ys]; [apply AI_removed_from|].
    cbn [pairs_leaf]. apply Forall_app; split; [|apply IH].
    apply (self_idx p1 p2 i j).
    destruct (negb (i =? j) && py_eq_leaf x y); [apply AS_report; discriminate|].
    unfold diff_leaf. destruct x, y; try constructor. apply AS_diff_atom.
Qed.
Lemma AI_by_opcodes os xs ys p1 p2 : Forall (at_idx p1 p2) (by_opcodes udiff skip os xs ys p1 p2).
Proof.
  unfold by_opcodes. induction os as [|o os IH]; cbn; [constructor|].
  apply Forall_app; split; [|exact IH].
  destruct (Tree.otag o); [constructor|apply AI_pairs_leaf|apply AI_removed_from|apply AI_added_from].
Qed.
Lemma AI_default_leaf_list xs ys p1 p2 : Forall (at_idx p1 p2) (fst (default_leaf_list udiff ops skip xs ys p1 p2)).
Proof.
  unfold default_leaf_list. destruct (1 <? _); [|apply AI_by_opcodes].
  destruct (_ <=? _); [apply AI_pairs_leaf|apply AI_by_opcodes].
Qed.
End Leaves.

(* ---- decoding a path extended by one key ---- *)
Lemma opath_ok_snoc q k : opath_ok (q ++ [k]) = opath_ok q && okey_ok k.
Proof. unfold opath_ok. rewrite forallb_app. cbn. rewrite andb_true_r. reflexivity. Qed.

Lemma dec_snoc_idx p i : snd (dps None p) = None ->
  dec_path (snoc p (PIdx i)) = dec_path p ++ [OIdx i] /\ snd (dps None (snoc p (PIdx i))) = None.
Proof. intros S. unfold dec_path, snoc. rewrite dps_snoc, S. split; reflexivity. Qed.

Lemma dps_step_plain k : is_tag k = false -> dps_step None (PKey k) = (Some (OKey k), None).
Proof.
  intros NT. cbn [dps_step]. destruct (tag_cls k) eqn:T1; [apply tag_cls_is_tag in T1; congruence|].
  destruct (tag2_cls k) eqn:T2; [|reflexivity]. apply tag2_cls_Some in T2. subst k. discriminate NT.
Qed.
Lemma dec_snoc_key p k : snd (dps None p) = None -> is_tag k = false ->
  dec_path (snoc p (PKey k)) = dec_path p ++ [OKey k] /\ snd (dps None (snoc p (PKey k))) = None.
Proof. intros S NT. unfold dec_path, snoc. rewrite dps_snoc, S, (dps_step_plain k NT). split; reflexivity. Qed.
Lemma dec_snoc_attr p s cls : snd (dps None p) = Some cls ->
  dec_path (snoc p (PKey (AStr s))) = dec_path p ++ [OAttr s] /\ snd (dps None (snoc p (PKey (AStr s)))) = None.
Proof. intros S. unfold dec_path, snoc. rewrite dps_snoc, S. split; reflexivity. Qed.
Lemma dec_snoc_tag p c : snd (dps None p) = None ->
  dec_path (snoc p (PKey (otag c))) = dec_path p /\ snd (dps None (snoc p (PKey (otag c)))) = Some c.
Proof.
  intros S. unfold dec_path, snoc. rewrite dps_snoc, S. cbn [dps_step]. rewrite tag_cls_otag. cbn.
  split; [apply app_nil_r|reflexivity].
Qed.

(* ---- shapes of encodings ---- *)
Lemma enc_list_inv x l : enc x = VList l -> exists xs, x = OList xs /\ l = map enc xs.
Proof. destruct x; cbn; intros E; try discriminate. inversion E. eexists. split; reflexivity. Qed.
Lemma enc_tuple_inv x l : enc x = VTuple l -> exists xs, x = OTuple xs /\ l = map enc xs.
Proof. destruct x; cbn; intros E; try discriminate. inversion E. eexists. split; reflexivity. Qed.

Lemma good_list_items xs : good (OList xs) -> Forall good xs.
Proof.
  intros [W K]. cbn in W, K. apply Forall_forall. intros x Hx. split.
  - eapply forallb_forall in W; eassumption.
  - eapply forallb_forall in K; eassumption.
Qed.
Lemma good_tuple_items xs : good (OTuple xs) -> Forall good xs.
Proof.
  intros [W K]. cbn in W, K. apply Forall_forall. intros x Hx. split.
  - eapply forallb_forall in W; eassumption.
  - eapply forallb_forall in K; eassumption.
Qed.

(* ---- small facts about keys and encodings ---- *)
Lemma py_eq_AStr_l s k : py_eq (AStr s) k = true -> k = AStr s.
Proof.
  intros H. destruct k as [| | | |t|]; try discriminate H. rewrite py_eq_AStr in H. apply pystr_eqb_eq in H. subst. reflexivity.
Qed.
Lemma optstr_eqb_sym a b : optstr_eqb a b = optstr_eqb b a.
Proof. destruct a, b; cbn; try reflexivity. apply pystr_eqb_sym. Qed.
Lemma In_enc_items k v kvs : In (k, v) (enc_items kvs) -> exists w, In (k, w) kvs /\ v = enc w.
Proof. unfold enc_items. intros H. apply in_map_iff in H as ([k0 w] & E & Hin). cbn in E. inversion E; subst. exists w. split; [exact Hin|reflexivity]. Qed.
Lemma In_enc_attrs k v a : In (k, v) (enc_attrs a) -> exists s w, k = AStr s /\ In (s, w) a /\ v = enc w.
Proof. unfold enc_attrs. intros H. apply in_map_iff in H as ([s w] & E & Hin). cbn in E. inversion E; subst. exists s, w. repeat split. exact Hin. Qed.
Lemma good_dict_item kvs k w : good (ODict kvs) -> In (k, w) kvs -> good w /\ key_ok (PKey k) = true /\ is_tag k = false.
Proof.
  intros [W K] Hin. cbn in W, K. apply andb_true_iff in W as [W W3]. apply andb_true_iff in W as [_ W2].
  eapply forallb_forall in W3; [|exact Hin]. eapply forallb_forall in K; [|exact Hin]. cbn in W3, K.
  apply andb_true_iff in K as [K1 K2].
  assert (Hk : In k (map fst kvs)) by (apply in_map_iff; exists (k, w); split; [reflexivity|exact Hin]).
  eapply forallb_forall in W2; [|exact Hk]. apply negb_true_iff in W2.
  split; [split; assumption|split; assumption].
Qed.
Lemma good_attr_item cls a s w : good (OObj cls a) -> In (s, w) a -> good w /\ attr_ok s = true.
Proof.
  intros [W K] Hin. cbn in W, K. apply andb_true_iff in W as [_ W2].
  eapply forallb_forall in W2; [|exact Hin]. eapply forallb_forall in K; [|exact Hin]. cbn in W2, K.
  apply andb_true_iff in K as [K1 K2]. split; [split; assumption|assumption].
Qed.
Lemma assoc_attr_In {B} s (a : list (pystr * B)) w : assoc_attr s a = Some w -> exists s', In (s', w) a /\ s' = s.
Proof.
  induction a as [|[s0 y] a IH]; cbn; [discriminate|].
  destruct (pystr_eqb s0 s) eqn:E.
  - intros H. inversion H; subst. apply pystr_eqb_eq in E. exists s0. split; [left; reflexivity|exact E].
  - intros H. destruct (IH H) as (s' & Hin & Es). exists s'. split; [right; exact Hin|exact Es].
Qed.
Lemma good_obj_cls c c' a : good (OObj c a) -> good (OObj c' a).
Proof. intros H. exact H. Qed.

Section Main.
Variable hatom : atom -> pystr.
Variable udiff : pystr -> pystr -> pystr.
Variable ops : path -> list value -> list value -> list opcode.
Variable c : cfg.
Variables r1 r2 : value.
Notation diff := (diff hatom udiff ops nopaths nopaths c).

(* what is shown of every entry of the encoded run *)
Definition PE (e : entry) : Prop :=
  (class_split r1 r2 e = false -> opath_ok (dec_path (ep1 e)) = true /\ opath_ok (dec_path (ep2 e)) = true) /\
  (ekind e = KDictAdd \/ ekind e = KDictRem -> opath_ok (dec_path (removelast (ep1 e))) = true).

Lemma PE_self p es : opath_ok (dec_path p) = true -> Forall (at_self p p) es -> Forall PE es.
Proof.
  intros O. apply Forall_impl. intros e ([K1 K2] & E1 & E2). split.
  - intros _. rewrite E1, E2. split; exact O.
  - intros [K|K]; congruence.
Qed.
Lemma PE_idx p es : opath_ok (dec_path p) = true -> snd (dps None p) = None -> Forall (at_idx p p) es -> Forall PE es.
Proof.
  intros O S. apply Forall_impl. intros e ([K1 K2] & i & j & E1 & E2). split.
  - intros _. rewrite E1, E2. destruct (dec_snoc_idx p i S) as [-> _]. destruct (dec_snoc_idx p j S) as [-> _].
    rewrite !opath_ok_snoc, O. split; reflexivity.
  - intros [K|K]; congruence.
Qed.

(* the invariant at a pair of values compared at p *)
Definition typed (p : path) (t1 t2 : value) : Prop :=
  match snd (dps None p) with
  | None => exists x1 x2, t1 = enc x1 /\ t2 = enc x2 /\ good x1 /\ good x2
  | Some cls => exists a1 a2, t1 = VDict (enc_attrs a1) /\ t2 = VDict (enc_attrs a2) /\ good (OObj cls a1) /\ good (OObj cls a2)
  end.
Definition INV (p : path) (t1 t2 : value) : Prop :=
  resolve r1 p = Some t1 /\ resolve r2 p = Some t2 /\ opath_ok (dec_path p) = true /\ typed p t1 t2.

Definition IHQ (t1 : value) : Prop := forall t2 p, INV p t1 t2 -> Forall PE (fst (diff t1 t2 p p)).

Lemma Q_go_list xs : Forall IHQ xs -> forall ys i v1 v2 XS YS p,
  resolve r1 p = Some v1 -> seq_items v1 = Some XS ->
  resolve r2 p = Some v2 -> seq_items v2 = Some YS ->
  opath_ok (dec_path p) = true -> snd (dps None p) = None ->
  (forall k x, nth_error xs k = Some x -> nth_error XS (i + k) = Some x) ->
  (forall k y, nth_error ys k = Some y -> nth_error YS (i + k) = Some y) ->
  Forall (fun x => exists x', x = enc x' /\ good x') xs -> Forall (fun y => exists y', y = enc y' /\ good y') ys ->
  Forall PE (fst (go_list nopaths diff p p xs ys i)).
Proof.
  induction 1 as [|x xs Hx _ IH]; intros ys i v1 v2 XS YS p H1 S1 H2 S2 O St N1 N2 G1 G2.
  - cbn. apply (PE_idx p); try assumption. apply AI_added_from.
  - destruct ys as [|y ys]; [cbn [go_list fst]; apply (PE_idx p); try assumption; apply AI_removed_from|].
    cbn [go_list]. unfold app2. cbn [fst]. apply Forall_app; split.
    + apply Forall_cons_iff in G1 as [(x' & -> & Gx) _]. apply Forall_cons_iff in G2 as [(y' & -> & Gy) _].
      apply Hx. destruct (dec_snoc_idx p i St) as [D1 D2]. repeat split.
      * eapply resolve_seq_item; try eassumption. specialize (N1 0 _ eq_refl). rewrite Nat.add_0_r in N1. exact N1.
      * eapply resolve_seq_item; try eassumption. specialize (N2 0 _ eq_refl). rewrite Nat.add_0_r in N2. exact N2.
      * rewrite D1, opath_ok_snoc, O. reflexivity.
      * unfold typed. rewrite D2. exists x', y'. split; [reflexivity|split; [reflexivity|split; assumption]].
    + apply Forall_cons_iff in G1 as [_ G1]. apply Forall_cons_iff in G2 as [_ G2].
      eapply IH; try eassumption.
      * intros k z Hk. specialize (N1 (S k) z Hk). rewrite Nat.add_succ_r in N1. exact N1.
      * intros k z Hk. specialize (N2 (S k) z Hk). rewrite Nat.add_succ_r in N2. exact N2.
Qed.

Lemma Q_seq_body xs ys v1 v2 p : Forall IHQ xs ->
  resolve r1 p = Some v1 -> seq_items v1 = Some xs ->
  resolve r2 p = Some v2 -> seq_items v2 = Some ys ->
  opath_ok (dec_path p) = true -> snd (dps None p) = None ->
  Forall (fun x => exists x', x = enc x' /\ good x') xs -> Forall (fun y => exists y', y = enc y' /\ good y') ys ->
  Forall PE (fst (seq_body hatom udiff ops nopaths nopaths c xs ys p p)).
Proof.
  intros IH H1 S1 H2 S2 O S G1 G2. unfold seq_body.
  destruct (negb (zip c) && forallb is_atom xs && forallb is_atom ys).
  - pose proof (AI_default_leaf_list udiff ops nopaths xs ys p p) as P.
    destruct (default_leaf_list udiff ops nopaths xs ys p p) as [es rec]. cbn [fst] in *.
    apply (PE_idx p); assumption.
  - eapply Q_go_list; try eassumption; intros k z Hk; exact Hk.
Qed.

Lemma encs_good xs : Forall good xs -> Forall (fun x => exists x', x = enc x' /\ good x') (map enc xs).
Proof.
  intros H. apply Forall_forall. intros y Hy. apply in_map_iff in Hy as (x & <- & Hx).
  exists x. split; [reflexivity|]. eapply Forall_forall in H; eassumption.
Qed.

Lemma typed_sym p t1 t2 : typed p t1 t2 -> typed p t2 t1.
Proof.
  unfold typed. destruct (snd (dps None p)).
  - intros (a1 & a2 & E1 & E2 & G1 & G2). exists a2, a1. repeat split; assumption || apply G2 || apply G1.
  - intros (x1 & x2 & E1 & E2 & G1 & G2). exists x2, x1. repeat split; assumption || apply G2 || apply G1.
Qed.

(* a key of one of the two dicts compared at p that the other dict does not have: its path is fine unless the two
   dicts are an instance against a dict / an instance of another class *)
Lemma side_key_ok p dP dA k :
  opath_ok (dec_path p) = true -> typed p (VDict dP) (VDict dA) ->
  In k (keys_of c dP) -> mem_atom k (keys_of c dA) = false ->
  (snd (dps None p) = None -> optstr_eqb (obj_class (VDict dP)) (obj_class (VDict dA)) = true) ->
  opath_ok (dec_path (snoc p (PKey k))) = true.
Proof.
  intros O T Hk M NM. apply keys_of_In in Hk as [Hk _]. unfold typed in T.
  destruct (snd (dps None p)) as [cls|] eqn:St.
  - destruct T as (aP & aA & EP & EA & GP & GA). inversion EP; subst dP.
    apply in_map_iff in Hk as ([k0 v] & E0 & Hin). cbn in E0. subst k0.
    apply In_enc_attrs in Hin as (s & w & -> & Hin & _).
    destruct (good_attr_item _ _ _ _ GP Hin) as [_ AO].
    destruct (dec_snoc_attr p s cls St) as [-> _]. rewrite opath_ok_snoc, O. cbn [okey_ok]. rewrite AO. reflexivity.
  - specialize (NM eq_refl). destruct T as (xP & xA & EP & EA & GP & GA). rewrite EP, EA in NM.
    symmetry in EP, EA.
    destruct (enc_dict_cases xP dP EP) as [(kp & -> & ->)|(cp & atp & -> & ->)];
    destruct (enc_dict_cases xA dA EA) as [(ka & -> & ->)|(ca & ata & -> & ->)].
    + rewrite map_fst_enc_items in Hk. apply in_map_iff in Hk as ([k0 w] & E0 & Hin). cbn in E0. subst k0.
      destruct (good_dict_item _ _ _ GP Hin) as (_ & KO & NT).
      destruct (dec_snoc_key p k St NT) as [-> _]. rewrite opath_ok_snoc, O. cbn [okey_ok]. rewrite KO. reflexivity.
    + exfalso. destruct GP as [WP _]. cbn in WP. apply andb_true_iff in WP as [WP _]. apply andb_true_iff in WP as [_ U].
      rewrite obj_class_obj, enc_dict, (obj_class_dict kp U) in NM. discriminate NM.
    + exfalso. destruct GA as [WA _]. cbn in WA. apply andb_true_iff in WA as [WA _]. apply andb_true_iff in WA as [_ U].
      rewrite obj_class_obj, enc_dict, (obj_class_dict ka U) in NM. discriminate NM.
    + exfalso. rewrite !obj_class_obj in NM. cbn [optstr_eqb] in NM. apply pystr_eqb_eq in NM. subst ca.
      rewrite keys_of_obj in M. cbn [map fst] in Hk.
      assert (X : mem_atom k (obj_keys cp) = true).
      { apply mem_atom_In. exists k. split; [exact Hk|apply py_eq_refl]. }
      congruence.
Qed.

Lemma diff_same_str s q : fst (diff (VAtom (AStr s)) (VAtom (AStr s)) q q) = [].
Proof.
  rewrite diff_atom_eq by reflexivity. cbn [atom_ty ty_eqb negb fst].
  unfold diff_atom. cbn [nopaths atom_ty ty_eqb negb]. unfold diff_str. rewrite pystr_eqb_refl. reflexivity.
Qed.

(* the keys both dicts have *)
Lemma Q_go_common kvs1 kvs2 p :
  nodup_atoms (map fst kvs1) = true ->
  resolve r1 p = Some (VDict kvs1) -> resolve r2 p = Some (VDict kvs2) ->
  (forall k v1 k' v2, In (k, v1) kvs1 -> py_eq k k' = true -> In k' (keys_of c kvs2) -> assoc k' kvs2 = Some v2 ->
     (opath_ok (dec_path (snoc p (PKey k'))) = true /\ typed (snoc p (PKey k')) v1 v2) \/
     fst (diff v1 v2 (snoc p (PKey k')) (snoc p (PKey k'))) = []) ->
  forall l, (forall kv, In kv l -> In kv kvs1) -> Forall (fun kv => IHQ (snd kv)) l ->
  Forall PE (fst (go_common c diff kvs2 (keys_of c kvs2) p p l)).
Proof.
  intros N1 H1 H2 CH. induction l as [|[k v1] l IH]; intros Sub HI; cbn; [constructor|].
  apply Forall_cons_iff in HI as [Hk HI'].
  assert (Rest : Forall PE (fst (go_common c diff kvs2 (keys_of c kvs2) p p l))).
  { apply IH; [intros kv Hkv; apply Sub; right; exact Hkv|exact HI']. }
  destruct (keep_key c k); [|exact Rest].
  destruct (find (py_eq k) (keys_of c kvs2)) as [k'|] eqn:Fk; [|exact Rest].
  destruct (assoc k' kvs2) as [v2|] eqn:A2; [|exact Rest].
  unfold app2. cbn [fst]. apply Forall_app; split; [|exact Rest].
  apply find_some in Fk as [Hk' E].
  destruct (CH k v1 k' v2 (Sub _ (or_introl eq_refl)) E Hk' A2) as [[O T]|Z]; [|rewrite Z; constructor].
  cbn in Hk. apply Hk. repeat split; try assumption.
  - unfold snoc. rewrite resolve_snoc, H1. rewrite get_item_key_dict.
    eapply assoc_nodup; [exact N1|apply Sub; left; reflexivity|exact E].
  - unfold snoc. rewrite resolve_snoc, H2. rewrite get_item_key_dict. exact A2.
Qed.

Lemma typed_nodup p k1 k2 : typed p (VDict k1) (VDict k2) -> nodup_atoms (map fst k1) = true.
Proof.
  unfold typed. destruct (snd (dps None p)) as [cls|].
  - intros (a1 & a2 & E1 & _ & [W _] & _). inversion E1; subst k1.
    rewrite map_fst_enc_attrs, nodup_atoms_AStr. cbn in W. apply andb_true_iff in W as [W _]. exact W.
  - intros (x1 & x2 & E1 & _ & [W _] & _). pose proof (enc_wf x1 W) as V. rewrite <- E1 in V. cbn in V.
    apply andb_true_iff in V as [V _]. exact V.
Qed.

Lemma children_ok kvs1 kvs2 p :
  opath_ok (dec_path p) = true -> typed p (VDict kvs1) (VDict kvs2) ->
  forall k v1 k' v2, In (k, v1) kvs1 -> py_eq k k' = true -> In k' (keys_of c kvs2) -> assoc k' kvs2 = Some v2 ->
     (opath_ok (dec_path (snoc p (PKey k'))) = true /\ typed (snoc p (PKey k')) v1 v2) \/
     fst (diff v1 v2 (snoc p (PKey k')) (snoc p (PKey k'))) = [].
Proof.
  intros O T k v1 k' v2 Hin E Hk' A2. apply keys_of_In in Hk' as [Hk' _]. unfold typed in T.
  destruct (snd (dps None p)) as [cls|] eqn:St.
  - destruct T as (a1 & a2 & E1 & E2 & G1 & G2). inversion E1; subst kvs1. inversion E2; subst kvs2.
    apply In_enc_attrs in Hin as (s & w1 & -> & Hin & ->). apply py_eq_AStr_l in E. subst k'.
    rewrite assoc_enc_attrs in A2. destruct (assoc_attr s a2) as [w2|] eqn:AA; [|discriminate]. cbn in A2. inversion A2; subst v2.
    destruct (assoc_attr_In _ _ _ AA) as (s' & Hin2 & ->).
    destruct (good_attr_item _ _ _ _ G1 Hin) as [Gw1 AO]. destruct (good_attr_item _ _ _ _ G2 Hin2) as [Gw2 _].
    left. destruct (dec_snoc_attr p s cls St) as [D1 D2]. split.
    + rewrite D1, opath_ok_snoc, O. cbn [okey_ok]. rewrite AO. reflexivity.
    + unfold typed. rewrite D2. exists w1, w2. split; [reflexivity|split; [reflexivity|split; assumption]].
  - destruct T as (x1 & x2 & E1 & E2 & G1 & G2). symmetry in E1, E2.
    destruct (enc_dict_cases x1 kvs1 E1) as [(kp & -> & ->)|(cp & atp & -> & ->)];
    destruct (enc_dict_cases x2 kvs2 E2) as [(ka & -> & ->)|(ca & ata & -> & ->)].
    + (* two dicts *)
      apply In_enc_items in Hin as (w1 & Hin & ->).
      rewrite map_fst_enc_items in Hk'. apply in_map_iff in Hk' as ([k0 w'] & E0 & Hin'). cbn in E0. subst k0.
      destruct (good_dict_item _ _ _ G2 Hin') as (_ & KO & NT).
      rewrite assoc_enc_items in A2. destruct (assoc k' ka) as [w2|] eqn:AA; [|discriminate]. cbn in A2. inversion A2; subst v2.
      apply assoc_In in AA as (k'' & Hin2 & _).
      destruct (good_dict_item _ _ _ G1 Hin) as (Gw1 & _ & _). destruct (good_dict_item _ _ _ G2 Hin2) as (Gw2 & _ & _).
      left. destruct (dec_snoc_key p k' St NT) as [D1 D2]. split.
      * rewrite D1, opath_ok_snoc, O. cbn [okey_ok]. rewrite KO. reflexivity.
      * unfold typed. rewrite D2. exists w1, w2. split; [reflexivity|split; [reflexivity|split; assumption]].
    + (* dict / instance *)
      exfalso. apply In_enc_items in Hin as (w1 & Hin & _). destruct (good_dict_item _ _ _ G1 Hin) as (_ & _ & NT).
      rewrite py_eq_sym in E. cbn [map fst] in Hk'.
      destruct Hk' as [<-|[<-|[]]]; [apply py_eq_otag_l in E|apply py_eq_otag2_l in E]; subst k; discriminate NT.
    + (* instance / dict *)
      exfalso. rewrite map_fst_enc_items in Hk'. apply in_map_iff in Hk' as ([k0 w'] & E0 & Hin'). cbn in E0. subst k0.
      destruct (good_dict_item _ _ _ G2 Hin') as (_ & _ & NT).
      destruct Hin as [Hin|[Hin|[]]]; inversion Hin; subst k v1;
        [apply py_eq_otag_l in E|apply py_eq_otag2_l in E]; subst k'; discriminate NT.
    + (* two instances *)
      cbn [map fst] in Hk'.
      destruct Hin as [Hin|[Hin|[]]]; inversion Hin; subst k v1.
      * apply py_eq_otag_l in E. subst k'.
        assert (cp = ca) by (destruct Hk' as [Hk'|[Hk'|[]]]; [inversion Hk'; reflexivity|discriminate Hk']). subst ca.
        cbn [assoc] in A2. rewrite py_eq_refl in A2. inversion A2; subst v2.
        left. destruct (dec_snoc_tag p cp St) as [D1 D2]. split; [rewrite D1; exact O|].
        unfold typed. rewrite D2. exists atp, ata. split; [reflexivity|split; [reflexivity|split; assumption]].
      * apply py_eq_otag2_l in E. subst k'.
        assert (cp = ca) by (destruct Hk' as [Hk'|[Hk'|[]]]; [discriminate Hk'|inversion Hk'; reflexivity]). subst ca.
        cbn [assoc] in A2. rewrite py_eq_otag_otag2, py_eq_refl in A2. inversion A2; subst v2.
        right. apply diff_same_str.
Qed.

Lemma Q_dict_body kvs1 kvs2 p :
  Forall (fun kv => IHQ (snd kv)) kvs1 -> INV p (VDict kvs1) (VDict kvs2) ->
  Forall PE (fst (dict_body hatom udiff ops nopaths nopaths c kvs1 kvs2 p p)).
Proof.
  intros IH (H1 & H2 & O & T). unfold dict_body.
  destruct (dict_shortcut nopaths c (keys_of c kvs1) (keys_of c kvs2) p) eqn:SC.
  - cbn [fst]. apply (PE_self p); [exact O|]. apply AS_report; discriminate.
  - cbn [fst]. apply Forall_app; split; [|apply Forall_app; split].
    + apply Forall_forall. intros e He. apply in_flat_map in He as (k & Hk & He).
      destruct (mem_atom k (keys_of c kvs1)) eqn:M; [destruct He|].
      unfold report, nopaths in He. destruct He as [<-|[]]. split.
      * intros CS. unfold class_split in CS. cbn [ekind ep1] in CS. unfold snoc in CS.
        rewrite removelast_last, H1, H2 in CS. cbn [ep1 ep2].
        assert (X : opath_ok (dec_path (snoc p (PKey k))) = true).
        { apply (side_key_ok p kvs2 kvs1 k O (typed_sym _ _ _ T) Hk M).
          intros St. rewrite St in CS. apply negb_false_iff in CS. rewrite optstr_eqb_sym. exact CS. }
        split; exact X.
      * intros _. cbn [ep1]. unfold snoc. rewrite removelast_last. exact O.
    + apply Forall_forall. intros e He. apply in_flat_map in He as (k & Hk & He).
      destruct (mem_atom k (keys_of c kvs2)) eqn:M; [destruct He|].
      unfold report, nopaths in He. destruct He as [<-|[]]. split.
      * intros CS. unfold class_split in CS. cbn [ekind ep1] in CS. unfold snoc in CS.
        rewrite removelast_last, H1, H2 in CS. cbn [ep1 ep2].
        assert (X : opath_ok (dec_path (snoc p (PKey k))) = true).
        { apply (side_key_ok p kvs1 kvs2 k O T Hk M).
          intros St. rewrite St in CS. apply negb_false_iff in CS. exact CS. }
        split; exact X.
      * intros _. cbn [ep1]. unfold snoc. rewrite removelast_last. exact O.
    + apply (Q_go_common kvs1 kvs2 p (typed_nodup _ _ _ T) H1 H2 (children_ok kvs1 kvs2 p O T)); [intros kv Hkv; exact Hkv|exact IH].
Qed.

Theorem diff_paths_ok : forall t1, IHQ t1.
Proof.
  induction t1 as [a|xs IH|xs IH|kvs IH|xs|xs] using value_ind'; intros t2 p (H1 & H2 & O & T);
    (match goal with |- context [diff ?t1 t2 _ _] => destruct (ty_eqb (type_of t1) (type_of t2)) eqn:TY end;
     [|rewrite diff_type by (reflexivity || assumption); cbn [fst]; apply (PE_self p); [exact O|apply AS_report; discriminate]]);
    apply ty_eqb_true in TY; destruct t2; try discriminate TY; try (destruct a; discriminate TY).
  - rewrite diff_atom_eq by reflexivity. cbn in TY. rewrite TY.
    replace (ty_eqb (atom_ty a0) (atom_ty a0)) with true by (destruct (atom_ty a0); reflexivity).
    cbn [negb fst]. apply (PE_self p); [exact O|apply AS_diff_atom].
  - rewrite diff_list by reflexivity. unfold typed in T. destruct (snd (dps None p)) eqn:St.
    { destruct T as (? & ? & E & _). discriminate E. }
    destruct T as (x1 & x2 & E1 & E2 & G1 & G2). symmetry in E1, E2.
    apply enc_list_inv in E1 as (xs' & -> & ->). apply enc_list_inv in E2 as (ys' & -> & ->).
    eapply Q_seq_body; try eassumption; try reflexivity; apply encs_good; [apply good_list_items|apply good_list_items]; assumption.
  - rewrite diff_tuple by reflexivity. unfold typed in T. destruct (snd (dps None p)) eqn:St.
    { destruct T as (? & ? & E & _). discriminate E. }
    destruct T as (x1 & x2 & E1 & E2 & G1 & G2). symmetry in E1, E2.
    apply enc_tuple_inv in E1 as (xs' & -> & ->). apply enc_tuple_inv in E2 as (ys' & -> & ->).
    eapply Q_seq_body; try eassumption; try reflexivity; apply encs_good; [apply good_tuple_items|apply good_tuple_items]; assumption.
  - rewrite diff_dict by reflexivity. apply Q_dict_body; [exact IH|]. repeat split; assumption.
  - rewrite diff_vset by reflexivity. cbn [fst]. apply (PE_self p); [exact O|apply AS_diff_set].
  - rewrite diff_vfrozen by reflexivity. cbn [fst]. apply (PE_self p); [exact O|apply AS_diff_set].
Qed.
End Main.

(* ---- the whole run ---- *)
Lemma class_split_kind t1 t2 e : class_split t1 t2 e = true -> ekind e = KDictAdd \/ ekind e = KDictRem.
Proof. unfold class_split. destruct (ekind e); try discriminate; auto. Qed.

Lemma tagfix_In_kind t1 t2 es e : In e (tagfix t1 t2 es) ->
  (In e es /\ class_split t1 t2 e = false) \/
  (exists e0, In e0 es /\ (ekind e0 = KDictAdd \/ ekind e0 = KDictRem) /\
     ep1 e = removelast (ep1 e0) /\ ep2 e = removelast (ep1 e0)).
Proof.
  unfold tagfix. intros H. apply in_app_or in H as [H|H].
  - apply filter_In in H as [H1 H2]. apply negb_true_iff in H2. left. split; assumption.
  - right. apply in_map_iff in H as (P & <- & HP). apply dedup_paths_In in HP.
    apply in_map_iff in HP as (e0 & <- & H0). apply filter_In in H0 as [H0 CS].
    exists e0. split; [exact H0|]. split; [apply (class_split_kind _ _ _ CS)|]. split; reflexivity.
Qed.

Section Run.
Variable hatom : atom -> pystr.
Variable udiff : pystr -> pystr -> pystr.
Variable ops : path -> list value -> list value -> list opcode.
Variable c : cfg.

Theorem orun_paths_ok t1 t2 :
  good t1 -> good t2 ->
  forall oe, In oe (fst (orun hatom udiff ops c t1 t2)) ->
    opath_ok (oep1 oe) = true /\ opath_ok (oep2 oe) = true.
Proof.
  intros G1 G2 oe Hoe. unfold orun in Hoe. cbn [fst] in Hoe. apply in_map_iff in Hoe as (e & <- & He).
  rewrite dec_entry_eq. cbv zeta. cbn [oep1 oep2].
  assert (I0 : INV (enc t1) (enc t2) [] (enc t1) (enc t2)).
  { repeat split. unfold typed. cbn. exists t1, t2. split; [reflexivity|split; [reflexivity|split; assumption]]. }
  pose proof (diff_paths_ok hatom udiff ops c (enc t1) (enc t2) (enc t1) (enc t2) [] I0) as HF.
  assert (HR : Forall (PE (enc t1) (enc t2)) (fst (run_diff hatom udiff ops nopaths nopaths c (enc t1) (enc t2)))).
  { unfold run_diff. destruct (diff hatom udiff ops nopaths nopaths c (enc t1) (enc t2) [] []) as [es rec]. cbn [fst] in *.
    apply Forall_forall. intros x Hx. destruct (mutual_In_cases es x Hx) as [Hin|(e0 & a & H0 & K0 & ->)].
    - eapply Forall_forall in HF; eassumption.
    - eapply Forall_forall in HF; [|exact H0]. destruct HF as [P1 _]. split.
      + intros _. cbn [ep1 ep2]. apply P1. unfold class_split. rewrite K0. reflexivity.
      + cbn [ekind]. intros [K|K]; discriminate K. }
  apply tagfix_In_kind in He as [[He NS]|(e0 & H0 & K0 & E1 & E2)].
  - eapply Forall_forall in HR; [|exact He]. destruct HR as [P1 _]. apply P1. exact NS.
  - eapply Forall_forall in HR; [|exact H0]. destruct HR as [_ P2]. rewrite E1, E2. split; apply P2; exact K0.
Qed.

(* C04 on the TEXT of the reported paths: the entry is faithful, and deepdiff.extract on the path text DeepDiff
   prints follows exactly the keys / indexes / attribute names of the entry's path, in t1 and in t2 *)
Theorem orun_text_faithful t1 t2 :
  thr_num c <= thr_den c -> good t1 -> good t2 ->
  forall oe, In oe (fst (orun hatom udiff ops c t1 t2)) ->
    ofaithful t1 t2 oe /\
    oextract t1 (orender (oep1 oe)) = oresolve t1 (oep1 oe) /\
    oextract t2 (orender (oep2 oe)) = oresolve t2 (oep2 oe) /\
    (forall root, oextract root (orender (oep1 oe)) = oresolve root (oep1 oe)).
Proof.
  intros Hthr G1 G2 oe Hoe. destruct (orun_paths_ok t1 t2 G1 G2 oe Hoe) as [O1 O2].
  split; [apply (orun_faithful hatom udiff ops c t1 t2 Hthr (proj1 G1) (proj1 G2) oe Hoe)|].
  split; [apply oextract_render; exact O1|]. split; [apply oextract_render; exact O2|].
  intros root. apply oextract_render. exact O1.
Qed.
End Run.

(* the guard is needed: an attribute named like a private variable, reported with ignore_private_variables=False *)
Definition tp_t1 : ovalue := OObj [80; 65]%N [([95; 95; 120]%N, OAtom (AInt 1))].
Definition tp_t2 : ovalue := OObj [80; 65]%N [([95; 95; 120]%N, OAtom (AInt 2))].
Lemma text_paths_refuted :
  owf tp_t1 = true /\ owf tp_t2 = true /\ okeys_ok tp_t1 = false /\
  exists oe, In oe (fst (orun (fun _ => []) (fun _ _ => []) (fun _ _ _ => []) (mkCfg false 1 3 false) tp_t1 tp_t2)) /\
    oresolve tp_t1 (oep1 oe) = Some (OAtom (AInt 1)) /\ oextract tp_t1 (orender (oep1 oe)) = Some tp_t1.
Proof.
  split; [reflexivity|]. split; [reflexivity|]. split; [reflexivity|].
  eexists. split; [vm_compute; left; reflexivity|]. vm_compute. split; reflexivity.
Qed.

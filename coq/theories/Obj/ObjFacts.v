(** Block Obj - facts about the encoding: well-formedness, guards, equality,
    [dec] inverts [enc]. *)
From Coq Require Import List ZArith NArith Bool Arith Lia.
Import ListNotations.
From DD Require Import Base.PyStr Base.Value Base.ValueFacts Path.PathModel Diff.Tree Diff.DiffModel Diff.DiffEmpty
  Obj.ObjValue.

Section OValueInd.
  Variable P : ovalue -> Prop.
  Hypothesis Hatom : forall a, P (OAtom a).
  Hypothesis Hlist : forall xs, Forall P xs -> P (OList xs).
  Hypothesis Htuple : forall xs, Forall P xs -> P (OTuple xs).
  Hypothesis Hdict : forall kvs, Forall (fun kv => P (snd kv)) kvs -> P (ODict kvs).
  Hypothesis Hset : forall xs, P (OSet xs).
  Hypothesis Hfrozen : forall xs, P (OFrozen xs).
  Hypothesis Hobj : forall cls attrs, Forall (fun av => P (snd av)) attrs -> P (OObj cls attrs).

  Fixpoint ovalue_ind' (v : ovalue) : P v :=
    match v with
    | OAtom a => Hatom a
    | OList xs => Hlist xs ((fix go (l : list ovalue) : Forall P l :=
                               match l with
                               | [] => Forall_nil _
                               | x :: r => Forall_cons x (ovalue_ind' x) (go r)
                               end) xs)
    | OTuple xs => Htuple xs ((fix go (l : list ovalue) : Forall P l :=
                               match l with
                               | [] => Forall_nil _
                               | x :: r => Forall_cons x (ovalue_ind' x) (go r)
                               end) xs)
    | ODict kvs => Hdict kvs ((fix go (l : list (atom * ovalue)) : Forall (fun kv => P (snd kv)) l :=
                               match l with
                               | [] => Forall_nil _
                               | kv :: r => Forall_cons kv (ovalue_ind' (snd kv)) (go r)
                               end) kvs)
    | OSet xs => Hset xs
    | OFrozen xs => Hfrozen xs
    | OObj cls attrs => Hobj cls attrs ((fix go (l : list (pystr * ovalue)) : Forall (fun av => P (snd av)) l :=
                               match l with
                               | [] => Forall_nil _
                               | av :: r => Forall_cons av (ovalue_ind' (snd av)) (go r)
                               end) attrs)
    end.
End OValueInd.

(* ---- unfoldings ---- *)
Lemma enc_dict kvs : enc (ODict kvs) = VDict (enc_items kvs).
Proof. reflexivity. Qed.
Lemma enc_obj cls attrs : enc (OObj cls attrs) = VDict [(otag cls, VDict (enc_attrs attrs)); (otag2 cls, VAtom (AStr cls))].
Proof. reflexivity. Qed.
Lemma map_fst_enc_items kvs : map fst (enc_items kvs) = map fst kvs.
Proof. unfold enc_items. rewrite map_map. reflexivity. Qed.
Lemma map_fst_enc_attrs attrs : map fst (enc_attrs attrs) = map AStr (map fst attrs).
Proof. unfold enc_attrs. rewrite !map_map. reflexivity. Qed.

Lemma py_eq_AStr s t : py_eq (AStr s) (AStr t) = pystr_eqb s t.
Proof. reflexivity. Qed.
Lemma tag_cls_otag cls : tag_cls (otag cls) = Some cls.
Proof. reflexivity. Qed.
Lemma is_tag_otag cls : is_tag (otag cls) = true.
Proof. reflexivity. Qed.
Lemma is_tag_otag2 cls : is_tag (otag2 cls) = true.
Proof. reflexivity. Qed.
Lemma tag_cls_is_tag a cls : tag_cls a = Some cls -> is_tag a = true.
Proof.
  destruct a as [| | | |s|]; cbn; try discriminate. destruct s as [|ch s]; [discriminate|].
  destruct (N.eqb ch 0); [reflexivity|discriminate].
Qed.
Lemma py_eq_otag2_l cls k : py_eq (otag2 cls) k = true -> k = otag2 cls.
Proof.
  intros H. destruct k as [| | | |s|]; try discriminate H.
  unfold otag2 in *. rewrite py_eq_AStr in H. apply pystr_eqb_eq in H. subst. reflexivity.
Qed.
Lemma py_eq_otag2_otag c1 c2 : py_eq (otag2 c1) (otag c2) = false.
Proof. reflexivity. Qed.
Lemma py_eq_otag_otag2 c1 c2 : py_eq (otag c1) (otag2 c2) = false.
Proof. reflexivity. Qed.
Lemma tag_cls_Some a cls : tag_cls a = Some cls -> a = otag cls.
Proof.
  destruct a as [| | | |s|]; cbn; try discriminate. destruct s as [|ch s]; [discriminate|].
  destruct (N.eqb_spec ch 0); [|discriminate]. intros H. inversion H. subst. reflexivity.
Qed.
Lemma py_eq_otag_l cls k : py_eq (otag cls) k = true -> k = otag cls.
Proof.
  intros H. destruct k as [| | | |s|]; try discriminate H.
  unfold otag in *. rewrite py_eq_AStr in H. apply pystr_eqb_eq in H. subst. reflexivity.
Qed.
Lemma py_eq_otag cls1 cls2 : py_eq (otag cls1) (otag cls2) = pystr_eqb cls1 cls2.
Proof. unfold otag. rewrite py_eq_AStr. reflexivity. Qed.
Lemma py_eq_otag2 cls1 cls2 : py_eq (otag2 cls1) (otag2 cls2) = pystr_eqb cls1 cls2.
Proof. unfold otag2. rewrite py_eq_AStr. reflexivity. Qed.
Lemma pystr_eqb_sym s t : pystr_eqb s t = pystr_eqb t s.
Proof.
  destruct (pystr_eqb s t) eqn:E.
  - apply pystr_eqb_eq in E. subst. symmetry. apply pystr_eqb_refl.
  - destruct (pystr_eqb t s) eqn:E2; [|reflexivity]. apply pystr_eqb_eq in E2. subst.
    rewrite pystr_eqb_refl in E. discriminate.
Qed.

(* keys of user dicts are never tags *)
Lemma untagged_assoc_tag {B} (kvs : list (atom * B)) cls :
  forallb (fun k => negb (is_tag k)) (map fst kvs) = true -> assoc (otag cls) kvs = None.
Proof.
  induction kvs as [|[k v] kvs IH]; cbn; intros H; [reflexivity|].
  apply andb_true_iff in H as [H1 H2].
  destruct (py_eq k (otag cls)) eqn:E; [|apply IH; exact H2].
  rewrite py_eq_sym in E. apply py_eq_otag_l in E. subst. rewrite is_tag_otag in H1. discriminate.
Qed.

(* ---- assoc through the encoding ---- *)
Lemma assoc_enc_items k kvs : assoc k (enc_items kvs) = option_map enc (assoc k kvs).
Proof.
  induction kvs as [|[k' v] kvs IH]; cbn; [reflexivity|]. destruct (py_eq k' k); [reflexivity|exact IH].
Qed.
Lemma assoc_enc_attrs s attrs : assoc (AStr s) (enc_attrs attrs) = option_map enc (assoc_attr s attrs).
Proof.
  induction attrs as [|[s' v] attrs IH]; [reflexivity|].
  unfold enc_attrs in *. cbn [map assoc assoc_attr fst snd]. rewrite py_eq_AStr.
  destruct (pystr_eqb s' s); [reflexivity|exact IH].
Qed.
Lemma assoc_enc_attrs_other k attrs :
  (forall s, k <> AStr s) -> assoc k (enc_attrs attrs) = None.
Proof.
  intros H. induction attrs as [|[s' v] attrs IH]; [reflexivity|].
  unfold enc_attrs in *. cbn [map assoc fst snd].
  destruct (py_eq (AStr s') k) eqn:E; [|exact IH].
  destruct k as [| | | |s|]; try discriminate E. exfalso. apply (H s). reflexivity.
Qed.

(* ---- well-formedness ---- *)
Lemma mem_atom_AStr s l : mem_atom (AStr s) (map AStr l) = existsb (pystr_eqb s) l.
Proof. unfold mem_atom. induction l as [|t l IH]; [reflexivity|]. cbn [map existsb]. rewrite py_eq_AStr, IH. reflexivity. Qed.
Lemma nodup_atoms_AStr l : nodup_atoms (map AStr l) = nodup_strs l.
Proof. induction l as [|s l IH]; cbn; [reflexivity|]. rewrite mem_atom_AStr, IH. reflexivity. Qed.

Lemma enc_wf : forall t, owf t = true -> wf (enc t) = true.
Proof.
  induction t as [a|xs IH|xs IH|kvs IH|xs|xs|cls attrs IH] using ovalue_ind'; intros W; cbn in W |- *; try exact W; try reflexivity.
  - rewrite forallb_forall. intros y Hy. apply in_map_iff in Hy as (x & <- & Hx).
    eapply Forall_forall in IH; [|exact Hx]. apply IH. eapply forallb_forall in W; [exact W|exact Hx].
  - rewrite forallb_forall. intros y Hy. apply in_map_iff in Hy as (x & <- & Hx).
    eapply Forall_forall in IH; [|exact Hx]. apply IH. eapply forallb_forall in W; [exact W|exact Hx].
  - apply andb_true_iff in W as [W W3]. apply andb_true_iff in W as [W1 W2].
    fold (enc_items kvs). rewrite map_fst_enc_items, W1. cbn.
    rewrite forallb_forall. intros y Hy. apply in_map_iff in Hy as (x & <- & Hx). cbn.
    eapply Forall_forall in IH; [|exact Hx]. apply IH. eapply forallb_forall in W3; [exact W3|exact Hx].
  - apply andb_true_iff in W as [W1 W2]. fold (enc_attrs attrs).
    rewrite map_fst_enc_attrs, nodup_atoms_AStr, W1, andb_true_r. cbn [andb].
    rewrite forallb_forall. intros y Hy. apply in_map_iff in Hy as (x & <- & Hx). cbn.
    eapply Forall_forall in IH; [|exact Hx]. apply IH. eapply forallb_forall in W2; [exact W2|exact Hx].
Qed.

(* ---- the guard of C02 on the encoding ---- *)
(* every dict key and every attribute name (as a str key) satisfies [keep], every
   set member [ok] *)
Fixpoint oinputs_ok (keep ok : atom -> bool) (v : ovalue) : bool :=
  match v with
  | OAtom _ => true
  | OList xs | OTuple xs => forallb (oinputs_ok keep ok) xs
  | ODict kvs => forallb (fun kv => keep (fst kv) && oinputs_ok keep ok (snd kv)) kvs
  | OSet xs | OFrozen xs => forallb ok xs
  | OObj _ attrs => forallb (fun av => keep (AStr (fst av)) && oinputs_ok keep ok (snd av)) attrs
  end.

Lemma enc_inputs_ok keep ok :
  (forall a, is_tag a = true -> keep a = true) ->
  forall t, oinputs_ok keep ok t = true -> inputs_ok keep ok (enc t) = true.
Proof.
  intros K.
  induction t as [a|xs IH|xs IH|kvs IH|xs|xs|cls attrs IH] using ovalue_ind'; intros W; cbn in W |- *; try exact W; try reflexivity.
  - rewrite forallb_forall. intros y Hy. apply in_map_iff in Hy as (x & <- & Hx).
    eapply Forall_forall in IH; [|exact Hx]. apply IH. eapply forallb_forall in W; [exact W|exact Hx].
  - rewrite forallb_forall. intros y Hy. apply in_map_iff in Hy as (x & <- & Hx).
    eapply Forall_forall in IH; [|exact Hx]. apply IH. eapply forallb_forall in W; [exact W|exact Hx].
  - rewrite forallb_forall. intros y Hy. apply in_map_iff in Hy as (x & <- & Hx). cbn.
    eapply forallb_forall in W; [|exact Hx]. apply andb_true_iff in W as [W1 W2]. rewrite W1. cbn.
    eapply Forall_forall in IH; [|exact Hx]. apply IH. exact W2.
  - rewrite (K (otag cls) (is_tag_otag cls)), (K (otag2 cls) (is_tag_otag2 cls)). cbn [andb]. rewrite andb_true_r.
    rewrite forallb_forall. intros y Hy. apply in_map_iff in Hy as (x & <- & Hx). cbn.
    eapply forallb_forall in W; [|exact Hx]. apply andb_true_iff in W as [W1 W2]. rewrite W1. cbn.
    eapply Forall_forall in IH; [|exact Hx]. apply IH. exact W2.
Qed.

Lemma keep_key_tag c a : is_tag a = true -> keep_key c a = true.
Proof.
  unfold keep_key, private_key, is_tag. destruct a as [| | | |s|]; try discriminate.
  destruct s as [|ch s]; [discriminate|]. intros H. cbn [is_prefix].
  destruct (N.eqb_spec 95 ch) as [<-|]; [discriminate H|]. cbn. rewrite andb_false_r. reflexivity.
Qed.

(* ---- equality ---- *)
Definition olist_go :=
  fix go (xs ys : list ovalue) {struct xs} : bool :=
    match xs, ys with
    | [], [] => true
    | x :: xs', y :: ys' => opy_eqv x y && go xs' ys'
    | _, _ => false
    end.
Definition odict_go (ys : list (atom * ovalue)) :=
  fix go (xs : list (atom * ovalue)) : bool :=
    match xs with
    | [] => true
    | (k, v) :: xs' => match assoc k ys with
                       | Some v' => opy_eqv v v'
                       | None => false
                       end && go xs'
    end.
Definition oattr_go (ys : list (pystr * ovalue)) :=
  fix go (xs : list (pystr * ovalue)) : bool :=
    match xs with
    | [] => true
    | (s, v) :: xs' => match assoc_attr s ys with
                       | Some v' => opy_eqv v v'
                       | None => false
                       end && go xs'
    end.
Lemma opy_eqv_list xs ys : opy_eqv (OList xs) (OList ys) = olist_go xs ys.
Proof. reflexivity. Qed.
Lemma opy_eqv_tuple xs ys : opy_eqv (OTuple xs) (OTuple ys) = olist_go xs ys.
Proof. reflexivity. Qed.
Lemma opy_eqv_dict xs ys : opy_eqv (ODict xs) (ODict ys) = Nat.eqb (length xs) (length ys) && odict_go ys xs.
Proof. reflexivity. Qed.
Lemma opy_eqv_obj c1 c2 xs ys :
  opy_eqv (OObj c1 xs) (OObj c2 ys) = pystr_eqb c1 c2 && Nat.eqb (length xs) (length ys) && oattr_go ys xs.
Proof. reflexivity. Qed.

Definition list_go :=
  fix go (xs ys : list value) {struct xs} : bool :=
    match xs, ys with
    | [], [] => true
    | x :: xs', y :: ys' => py_eqv x y && go xs' ys'
    | _, _ => false
    end.
Lemma py_eqv_list xs ys : py_eqv (VList xs) (VList ys) = list_go xs ys.
Proof. reflexivity. Qed.
Lemma py_eqv_tuple xs ys : py_eqv (VTuple xs) (VTuple ys) = list_go xs ys.
Proof. reflexivity. Qed.

Lemma list_go_enc xs : Forall (fun x => forall b, owf x = true -> owf b = true -> py_eqv (enc x) (enc b) = true -> opy_eqv x b = true) xs ->
  forall ys, forallb owf xs = true -> forallb owf ys = true ->
  list_go (map enc xs) (map enc ys) = true -> olist_go xs ys = true.
Proof.
  induction 1 as [|x xs Hx _ IH]; intros [|y ys] W1 W2 H; cbn in *; try discriminate; [reflexivity|].
  apply andb_true_iff in W1 as [Wx W1]. apply andb_true_iff in W2 as [Wy W2]. apply andb_true_iff in H as [H1 H2].
  rewrite (Hx y Wx Wy H1). cbn. apply IH; assumption.
Qed.

Theorem enc_py_eqv : forall a b, owf a = true -> owf b = true ->
  py_eqv (enc a) (enc b) = true -> opy_eqv a b = true.
Proof.
  induction a as [a|xs IH|xs IH|kvs IH|xs|xs|cls attrs IH] using ovalue_ind'; intros b Wa Wb H.
  - destruct b; cbn in H; try discriminate; try (destruct kvs; discriminate). exact H.
  - destruct b as [ |ys| | | | | ]; try discriminate H.
    rewrite opy_eqv_list. cbn [enc] in H. rewrite py_eqv_list in H. cbn in Wa, Wb. eapply list_go_enc; eassumption.
  - destruct b as [ | |ys| | | | ]; try discriminate H.
    rewrite opy_eqv_tuple. cbn [enc] in H. rewrite py_eqv_tuple in H. cbn in Wa, Wb. eapply list_go_enc; eassumption.
  - cbn in Wa. apply andb_true_iff in Wa as [Wa Wa3]. apply andb_true_iff in Wa as [Wa1 Wa2].
    destruct b as [ | | |kvs2| | |c2 at2]; try discriminate H.
    + rewrite opy_eqv_dict. rewrite !enc_dict, py_eqv_dict in H. apply andb_true_iff in H as [HL HG].
      unfold enc_items in HL. rewrite !map_length in HL. rewrite HL. cbn.
      cbn in Wb. apply andb_true_iff in Wb as [Wb Wb3].
      clear HL Wa1 Wa2. revert HG. induction IH as [|[k v] kvs Hv _ IHk]; cbn; intros HG; [reflexivity|].
      cbn in Wa3. apply andb_true_iff in Wa3 as [Wv Wa3].
      apply andb_true_iff in HG as [H1 H2]. rewrite assoc_enc_items in H1.
      destruct (assoc k kvs2) as [v'|] eqn:E; cbn in H1; [|discriminate].
      assert (Wv' : owf v' = true).
      { apply assoc_In in E as (k' & Hin & _). eapply forallb_forall in Wb3; [|exact Hin]. exact Wb3. }
      cbn in Hv. rewrite (Hv v' Wv Wv' H1). cbn. apply IHk; assumption.
    + (* a dict is never == an object: its keys are not tags *)
      exfalso. rewrite enc_dict, enc_obj, py_eqv_dict in H. apply andb_true_iff in H as [HL HG].
      destruct kvs as [|[k v] kvs]; cbn in HL; try discriminate.
      unfold enc_items in HG. cbn [map dict_go assoc fst snd] in HG.
      apply andb_true_iff in HG as [HG _].
      cbn [map forallb fst] in Wa2. apply andb_true_iff in Wa2 as [Wk _].
      destruct (py_eq (otag c2) k) eqn:E.
      { apply py_eq_otag_l in E. subst k. discriminate Wk. }
      destruct (py_eq (otag2 c2) k) eqn:E2; [|discriminate].
      apply py_eq_otag2_l in E2. subst k. discriminate Wk.
  - destruct b; cbn in H |- *; try discriminate; try (destruct kvs; discriminate); exact H.
  - destruct b; cbn in H |- *; try discriminate; try (destruct kvs; discriminate); exact H.
  - cbn in Wa. apply andb_true_iff in Wa as [Wa1 Wa2].
    destruct b as [ | | |kvs2| | |c2 at2]; try discriminate H.
    + exfalso. rewrite enc_dict, enc_obj, py_eqv_dict in H. apply andb_true_iff in H as [HL HG].
      cbn in Wb. apply andb_true_iff in Wb as [Wb Wb3]. apply andb_true_iff in Wb as [Wb1 Wb2].
      cbn [dict_go] in HG. apply andb_true_iff in HG as [HG _].
      rewrite assoc_enc_items, (untagged_assoc_tag kvs2 cls Wb2) in HG. discriminate.
    + rewrite opy_eqv_obj. rewrite !enc_obj, py_eqv_dict in H. apply andb_true_iff in H as [_ HG].
      cbn [dict_go assoc] in HG. apply andb_true_iff in HG as [HG _].
      rewrite py_eq_otag, py_eq_otag2_otag in HG. rewrite (pystr_eqb_sym cls c2).
      destruct (pystr_eqb c2 cls); [|discriminate]. cbn [andb].
      rewrite py_eqv_dict in HG. apply andb_true_iff in HG as [HL HG].
      unfold enc_attrs in HL. rewrite !map_length in HL. rewrite HL. cbn.
      cbn in Wb. apply andb_true_iff in Wb as [Wb1 Wb2].
      clear HL Wa1. revert HG. induction IH as [|[s v] attrs Hv _ IHk]; cbn; intros HG; [reflexivity|].
      cbn in Wa2. apply andb_true_iff in Wa2 as [Wv Wa2].
      apply andb_true_iff in HG as [H1 H2]. rewrite assoc_enc_attrs in H1.
      destruct (assoc_attr s at2) as [v'|] eqn:E; cbn in H1; [|discriminate].
      assert (Wv' : owf v' = true).
      { clear -E Wb2. induction at2 as [|[s' x] at2 IHa]; cbn in E; [discriminate|].
        cbn in Wb2. apply andb_true_iff in Wb2 as [Wx Wb2].
        destruct (pystr_eqb s' s); [inversion E; subst; exact Wx|apply IHa; assumption]. }
      cbn in Hv. rewrite (Hv v' Wv Wv' H1). cbn. apply IHk; assumption.
Qed.

(* ---- dec inverts enc on well-formed values ---- *)
Lemma tag_cls_not_tag a : is_tag a = false -> tag_cls a = None.
Proof.
  destruct a as [| | | |s|]; cbn; try reflexivity. destruct s as [|ch s]; [reflexivity|].
  destruct (N.eqb ch 0); [discriminate|reflexivity].
Qed.
Lemma dec_dict_plain kvs :
  forallb (fun k => negb (is_tag k)) (map fst kvs) = true ->
  dec (VDict kvs) = ODict (dec_items kvs).
Proof.
  intros H. destruct kvs as [|[k v] [|[k2 v2] [|kv3 rest]]]; try reflexivity.
  - destruct v as [a| | | | |]; try reflexivity; destruct a; reflexivity.
  - cbn in H. apply andb_true_iff in H as [H1 H2]. apply andb_true_iff in H2 as [H2 _].
    apply negb_true_iff in H1, H2. apply tag_cls_not_tag in H1, H2.
    destruct v as [a| | |d| |]; destruct v2 as [a2| | |d2| |]; try destruct a; try destruct a2;
      cbn [dec]; rewrite ?H1, ?H2; reflexivity.
  - destruct v as [a| | |d| |]; destruct v2 as [a2| | |d2| |]; try destruct a; try destruct a2; reflexivity.
Qed.
Lemma dec_obj cls attrs k2 s : dec (VDict [(otag cls, VDict attrs); (k2, VAtom (AStr s))]) = OObj cls (dec_attrs attrs).
Proof. reflexivity. Qed.
Lemma dec_obj_swapped cls attrs k2 s : dec (VDict [(k2, VAtom (AStr s)); (otag cls, VDict attrs)]) = OObj cls (dec_attrs attrs).
Proof. reflexivity. Qed.

Theorem dec_enc : forall t, owf t = true -> dec (enc t) = t.
Proof.
  induction t as [a|xs IH|xs IH|kvs IH|xs|xs|cls attrs IH] using ovalue_ind'; intros W; try reflexivity.
  - cbn in W |- *. f_equal. rewrite map_map. rewrite <- (map_id xs) at 2. apply map_ext_in. intros x Hx.
    eapply Forall_forall in IH; [|exact Hx]. apply IH. eapply forallb_forall in W; [exact W|exact Hx].
  - cbn in W |- *. f_equal. rewrite map_map. rewrite <- (map_id xs) at 2. apply map_ext_in. intros x Hx.
    eapply Forall_forall in IH; [|exact Hx]. apply IH. eapply forallb_forall in W; [exact W|exact Hx].
  - cbn in W. apply andb_true_iff in W as [W W3]. apply andb_true_iff in W as [W1 W2].
    rewrite enc_dict, dec_dict_plain; [|rewrite map_fst_enc_items; exact W2].
    f_equal. unfold dec_items, enc_items. rewrite map_map. rewrite <- (map_id kvs) at 2. apply map_ext_in.
    intros [k v] Hx. cbn. f_equal. eapply Forall_forall in IH; [|exact Hx]. apply IH.
    eapply forallb_forall in W3; [exact W3|exact Hx].
  - cbn in W. apply andb_true_iff in W as [W1 W2].
    rewrite enc_obj, dec_obj. f_equal. unfold dec_attrs, enc_attrs. rewrite map_map. rewrite <- (map_id attrs) at 2.
    apply map_ext_in. intros [s v] Hx. cbn. f_equal. eapply Forall_forall in IH; [|exact Hx]. apply IH.
    eapply forallb_forall in W2; [exact W2|exact Hx].
Qed.

(* ---- the converse of [enc_py_eqv]: equal by class and attribute values => the encodings are == ---- *)
Lemma list_go_enc_conv xs : Forall (fun x => forall b, opy_eqv x b = true -> py_eqv (enc x) (enc b) = true) xs ->
  forall ys, olist_go xs ys = true -> list_go (map enc xs) (map enc ys) = true.
Proof.
  induction 1 as [|x xs Hx _ IH]; intros [|y ys] H; cbn in *; try discriminate; [reflexivity|].
  apply andb_true_iff in H as [H1 H2]. rewrite (Hx y H1). cbn. apply IH. exact H2.
Qed.

Lemma attrs_eqv_enc xs ys :
  Forall (fun av => forall b, opy_eqv (snd av) b = true -> py_eqv (enc (snd av)) (enc b) = true) xs ->
  Nat.eqb (length xs) (length ys) = true -> oattr_go ys xs = true ->
  py_eqv (VDict (enc_attrs xs)) (VDict (enc_attrs ys)) = true.
Proof.
  intros IH HL HG. rewrite py_eqv_dict. unfold enc_attrs at 1 2. rewrite !map_length, HL. cbn [andb].
  clear HL. revert HG. induction IH as [|[s v] xs Hv _ IHk]; intros HG; [reflexivity|].
  cbn in HG. destruct (assoc_attr s ys) as [v'|] eqn:E; [|discriminate].
  apply andb_true_iff in HG as [H1 H2].
  change (enc_attrs ((s, v) :: xs)) with ((AStr s, enc v) :: enc_attrs xs). cbn [dict_go].
  rewrite assoc_enc_attrs, E. cbn [option_map]. cbn in Hv. rewrite (Hv v' H1). cbn. apply IHk. exact H2.
Qed.

Theorem opy_eqv_enc : forall a b, opy_eqv a b = true -> py_eqv (enc a) (enc b) = true.
Proof.
  induction a as [a|xs IH|xs IH|kvs IH|xs|xs|cls attrs IH] using ovalue_ind'; intros b H.
  - destruct b; cbn in H; try discriminate. exact H.
  - destruct b as [ |ys| | | | | ]; try discriminate H.
    rewrite opy_eqv_list in H. cbn [enc]. rewrite py_eqv_list. apply list_go_enc_conv; assumption.
  - destruct b as [ | |ys| | | | ]; try discriminate H.
    rewrite opy_eqv_tuple in H. cbn [enc]. rewrite py_eqv_tuple. apply list_go_enc_conv; assumption.
  - destruct b as [ | | |kvs2| | | ]; try discriminate H.
    rewrite opy_eqv_dict in H. apply andb_true_iff in H as [HL HG].
    rewrite !enc_dict, py_eqv_dict. unfold enc_items at 1 2. rewrite !map_length, HL. cbn [andb].
    clear HL. revert HG. induction IH as [|[k v] kvs Hv _ IHk]; intros HG; [reflexivity|].
    cbn in HG. destruct (assoc k kvs2) as [v'|] eqn:E; [|discriminate].
    apply andb_true_iff in HG as [H1 H2].
    change (enc_items ((k, v) :: kvs)) with ((k, enc v) :: enc_items kvs). cbn [dict_go].
    rewrite assoc_enc_items, E. cbn [option_map]. cbn in Hv. rewrite (Hv v' H1). cbn. apply IHk. exact H2.
  - destruct b; cbn in H |- *; try discriminate; exact H.
  - destruct b; cbn in H |- *; try discriminate; exact H.
  - destruct b as [ | | | | | |c2 at2]; try discriminate H.
    rewrite opy_eqv_obj in H. apply andb_true_iff in H as [H HG]. apply andb_true_iff in H as [HC HL].
    apply pystr_eqb_eq in HC. subst c2.
    rewrite !enc_obj, py_eqv_dict. cbn [length Nat.eqb andb dict_go assoc].
    rewrite py_eq_otag, pystr_eqb_refl.
    rewrite (attrs_eqv_enc attrs at2 IH HL HG). cbn [andb].
    rewrite py_eq_otag_otag2, py_eq_otag2, pystr_eqb_refl. cbn. rewrite pystr_eqb_refl. reflexivity.
Qed.

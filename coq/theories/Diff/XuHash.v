(** The item hash of a set member in the extended universe, as DeepDiff computes it with default options
    (deepdiff/deephash.py _hash dispatch, _prep_datetime, _prep_date, _prep_number, the final re-tag):
      base atoms            Hash/HashModel.v [hash_atom]
      datetime              'datetime:' + str(datetime_normalize(None, obj, default_timezone=utc))
      time                  'datetime:' + str(time_to_seconds(obj))    - a function of the time of day ONLY: the
                            tzinfo is lost (finding C02-TIME-TZ-IN-SET)
      date                  'datetime:' + str(obj)
      timedelta / Decimal   '<class name>:' + str(obj)                 (_prep_number, significant_digits None)
    then re-tagged as a str and hashed.  Python's str() of these objects and of the seconds are oracles
    ([xstr], [secs]).  Definitions only. *)
From Coq Require Import List ZArith NArith Bool String.
Import ListNotations.
From DD Require Import Base.PyStr Diff.XuValue Diff.XuTree Diff.XuModel.
From DD Require Hash.HashModel Base.Value.

(* the atoms of Base/Value.v inside the extended universe *)
Definition to_base (a : atom) : option DD.Base.Value.atom :=
  match a with
  | ANone => Some DD.Base.Value.ANone
  | ABool b => Some (DD.Base.Value.ABool b)
  | AInt z => Some (DD.Base.Value.AInt z)
  | AHalf t => Some (DD.Base.Value.AHalf t)
  | AStr s => Some (DD.Base.Value.AStr s)
  | ABytes s => Some (DD.Base.Value.ABytes s)
  | _ => None
  end.

Section XHash.
Variable H : pystr -> pystr.          (* the hasher *)
Variable xstr : atom -> pystr.        (* str(obj) of an exotic atom *)
Variable secs : Z -> pystr.           (* str(time_to_seconds(t)) as a function of t's microseconds since midnight *)

Definition exotic_text (a : atom) : pystr :=
  match a with
  | ADt _ _ => (s2p "datetime:" ++ xstr (dt_norm a))%list
  | ATime us _ => (s2p "datetime:" ++ secs us)%list
  | ADate _ => (s2p "datetime:" ++ xstr a)%list
  | ATd _ => (s2p "timedelta:" ++ xstr a)%list
  | ADec _ _ => (s2p "Decimal:" ++ xstr a)%list
  | _ => []
  end.

Definition xhash_atom (a : atom) : pystr :=
  match to_base a with
  | Some b => HashModel.hash_atom H HashModel.default_opts b
  | None => H (HashModel.retag HashModel.default_opts (exotic_text a))
  end.
End XHash.

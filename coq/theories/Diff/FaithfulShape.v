(** C04, shape of the two paths of a reported level, and what follows from it for the TEXT view:

    (1) [run_diff_paths_shape]: the t2 path of a reported level is its t1 path, or the level is a changed
        value / changed type / moved item and the two paths are  q ++ [i]  and  q ++ [j]  for one parent
        path q (they differ in the LAST index only).
    (2) [render_shift_inj]: two such paths print differently unless i = j (no guard on dict keys: the common
        prefix cancels), so [new_path_of e = None <-> ep1 e = ep2 e] for every reported level
        ([new_path_iff]): at verbose_level=2 a level whose two sides sit at different indexes ALWAYS
        carries new_path, and one whose sides sit at the same place never does.
    (3) the guard [keys_ok t1 && keys_ok t2] of Diff/TextFaithful.v (C09's guard on EVERY dict key of both
        inputs) is weakened to the entry-local [path_ok (ep1 e)]: only the keys on the path of the entry
        itself must round-trip through a path string (that is all C09's [extract_render] needs);
        [path_ok (ep2 e)] follows by (1).  Entries below lists only (no dict key on the path) need no guard.
        The local guard cannot be dropped: [text_local_guard_needed]. *)
From Coq Require Import List ZArith NArith Bool Arith Lia.
Import ListNotations.
From DD Require Import Base.PyStr Base.Value Base.ValueFacts Path.PathModel Path.PathLex Path.PathProofs
  Diff.Tree Diff.DiffModel Diff.DiffFacts Diff.DiffFaithful Diff.DiffPaths Diff.TextView Diff.TextFaithful.

(* the two paths agree, or differ in the last index only (and then the kind is one of the three) *)
Definition PS (e : entry) : Prop :=
  ep1 e = ep2 e \/
  (shifted (ekind e) /\ exists q i j, ep1 e = snoc q (PIdx i) /\ ep2 e = snoc q (PIdx j)).

Lemma PS_SP e : PS e -> SP e.
Proof. intros [H|[H _]]; [left|right]; exact H. Qed.

Section Shape.
Variable hatom : atom -> pystr.
Variable udiff : pystr -> pystr -> pystr.
Variable ops : path -> list value -> list value -> list opcode.
Variable skip excl : path -> bool.
Variable c : cfg.
Notation diff := (diff hatom udiff ops skip excl c).
Notation FPS := (Forall PS).

Lemma PS_report_same k p a b d : FPS (report skip k p p a b d).
Proof. unfold report. destruct (skip p); constructor; [left; reflexivity|constructor]. Qed.

Lemma PS_report_idx k q i j a b d : shifted k ->
  FPS (report skip k (snoc q (PIdx i)) (snoc q (PIdx j)) a b d).
Proof.
  intros Hk. unfold report. destruct (skip _); constructor; [|constructor].
  right. split; [exact Hk|]. exists q, i, j. split; reflexivity.
Qed.

Lemma PS_diff_atom_idx a b q i j : FPS (diff_atom udiff skip a b (snoc q (PIdx i)) (snoc q (PIdx j))).
Proof.
  unfold diff_atom. destruct (skip _); [constructor|].
  assert (X : forall k x y d, (k = KType \/ k = KValue) ->
                FPS (report skip k (snoc q (PIdx i)) (snoc q (PIdx j)) x y d)).
  { intros k x y d Hk. apply PS_report_idx. unfold shifted. tauto. }
  destruct (negb _); [apply X; left; reflexivity|].
  destruct a, b; try (destruct (py_eq _ _); [constructor|apply X; right; reflexivity]).
  - destruct (diff_str udiff false s s0) as [ch d]. destruct ch; [apply X; right; reflexivity|constructor].
  - destruct (diff_str udiff true s s0) as [ch d]. destruct ch; [apply X; right; reflexivity|constructor].
Qed.

Lemma PS_diff_atom_same a b p : FPS (diff_atom udiff skip a b p p).
Proof.
  unfold diff_atom. destruct (skip _); [constructor|].
  destruct (negb _); [apply PS_report_same|].
  destruct a, b; try (destruct (py_eq _ _); [constructor|apply PS_report_same]).
  - destruct (diff_str udiff false s s0) as [ch d]. destruct ch; [apply PS_report_same|constructor].
  - destruct (diff_str udiff true s s0) as [ch d]. destruct ch; [apply PS_report_same|constructor].
Qed.

Lemma PS_removed_from xs : forall i p, FPS (removed_from skip xs i p p).
Proof.
  induction xs as [|x xs IH]; intros i p; cbn [removed_from]; [constructor|].
  apply Forall_app. split; [apply PS_report_same|apply IH].
Qed.
Lemma PS_added_from ys : forall j p, FPS (added_from skip ys j p p).
Proof.
  induction ys as [|y ys IH]; intros j p; cbn [added_from]; [constructor|].
  apply Forall_app. split; [apply PS_report_same|apply IH].
Qed.

Lemma PS_pairs_leaf xs : forall ys i j p, FPS (pairs_leaf udiff skip xs ys i j p p).
Proof.
  induction xs as [|x xs IH]; intros ys i j p.
  - cbn [pairs_leaf]. apply PS_added_from.
  - destruct ys as [|y ys]; [cbn [pairs_leaf]; apply PS_removed_from|].
    cbn [pairs_leaf]. apply Forall_app. split; [|apply IH].
    destruct (negb (Nat.eqb i j) && py_eq_leaf x y).
    + apply PS_report_idx. unfold shifted. tauto.
    + unfold diff_leaf. destruct x; try constructor. destruct y; try constructor. apply PS_diff_atom_idx.
Qed.

Lemma PS_by_opcodes os xs ys p : FPS (by_opcodes udiff skip os xs ys p p).
Proof.
  unfold by_opcodes. apply Forall_forall. intros e He. apply in_flat_map in He as (o & _ & He).
  destruct (otag o).
  - destruct He.
  - eapply Forall_forall in He; [exact He|apply PS_pairs_leaf].
  - eapply Forall_forall in He; [exact He|apply PS_removed_from].
  - eapply Forall_forall in He; [exact He|apply PS_added_from].
Qed.

Lemma PS_default_leaf_list xs ys p : FPS (fst (default_leaf_list udiff ops skip xs ys p p)).
Proof.
  unfold default_leaf_list. destruct (Nat.ltb _ _); [|apply PS_by_opcodes].
  destruct (Nat.leb _ _); cbn [fst]; [apply PS_pairs_leaf|apply PS_by_opcodes].
Qed.

Lemma PS_diff_set xs ys p : FPS (diff_set hatom skip xs ys p p).
Proof.
  unfold diff_set. apply Forall_app. split; apply Forall_forall; intros e He;
    apply in_flat_map in He as (y & _ & He); (destruct (existsb _ _); [destruct He|]);
    unfold report_set in He; (destruct (skip p); [destruct He|]); destruct He as [<-|[]]; left; reflexivity.
Qed.

Definition IHPS (t1 : value) : Prop := forall t2 p, FPS (fst (diff t1 t2 p p)).

Lemma PS_go_list xs : Forall IHPS xs -> forall ys i p, FPS (fst (go_list skip diff p p xs ys i)).
Proof.
  induction 1 as [|x xs Hx _ IH]; intros ys i p.
  - cbn. apply PS_added_from.
  - destruct ys as [|y ys]; [cbn [go_list fst]; apply PS_removed_from|].
    cbn [go_list]. unfold app2. cbn [fst]. apply Forall_app. split; [apply Hx|apply IH].
Qed.

Lemma PS_seq_body xs ys p : Forall IHPS xs -> FPS (fst (seq_body hatom udiff ops skip excl c xs ys p p)).
Proof.
  intros IH. unfold seq_body. destruct (negb (zip c) && forallb is_atom xs && forallb is_atom ys).
  - pose proof (PS_default_leaf_list xs ys p) as P.
    destruct (default_leaf_list udiff ops skip xs ys p p) as [es rec]. exact P.
  - apply PS_go_list. exact IH.
Qed.

Lemma PS_go_common kvs2 k2 p l :
  Forall (fun kv => IHPS (snd kv)) l -> FPS (fst (go_common c diff kvs2 k2 p p l)).
Proof.
  induction 1 as [|[k v1] l Hk _ IH]; cbn [go_common]; [constructor|].
  destruct (keep_key c k); [|exact IH].
  destruct (find (py_eq k) k2) as [k'|]; [|exact IH].
  destruct (assoc k' kvs2) as [v2|]; [|exact IH].
  unfold app2. cbn [fst]. apply Forall_app. split; [apply Hk|exact IH].
Qed.

Lemma PS_dict_body kvs1 kvs2 p : Forall (fun kv => IHPS (snd kv)) kvs1 ->
  FPS (fst (dict_body hatom udiff ops skip excl c kvs1 kvs2 p p)).
Proof.
  intros IH. unfold dict_body. destruct (dict_shortcut _ _ _ _ _); cbn [fst].
  - apply PS_report_same.
  - apply Forall_app; split; [|apply Forall_app; split; [|apply PS_go_common; exact IH]].
    + apply Forall_forall. intros e He. apply in_flat_map in He as (k & _ & He). destruct (mem_atom k _); [destruct He|].
      eapply Forall_forall in He; [exact He|apply PS_report_same].
    + apply Forall_forall. intros e He. apply in_flat_map in He as (k & _ & He). destruct (mem_atom k _); [destruct He|].
      eapply Forall_forall in He; [exact He|apply PS_report_same].
Qed.

Theorem diff_paths_shape : forall t1, IHPS t1.
Proof.
  induction t1 as [a|xs IH|xs IH|kvs IH|xs|xs] using value_ind'; intros t2 p;
    (destruct (skip p) eqn:Hs; [rewrite diff_skip by exact Hs; constructor|]);
    (match goal with |- context [diff ?t1 t2 _ _] => destruct (ty_eqb (type_of t1) (type_of t2)) eqn:T end;
     [|rewrite diff_type by assumption; cbn [fst]; apply PS_report_same]);
    apply ty_eqb_true in T; destruct t2; try discriminate T; try (destruct a; discriminate T).
  - rewrite diff_atom_eq by exact Hs. cbn in T. rewrite T.
    replace (ty_eqb (atom_ty a0) (atom_ty a0)) with true by (destruct (atom_ty a0); reflexivity).
    cbn [negb fst]. apply PS_diff_atom_same.
  - rewrite diff_list by exact Hs. apply PS_seq_body; assumption.
  - rewrite diff_tuple by exact Hs. apply PS_seq_body; assumption.
  - rewrite diff_dict by exact Hs. apply PS_dict_body; assumption.
  - rewrite diff_vset by exact Hs. cbn [fst]. apply PS_diff_set.
  - rewrite diff_vfrozen by exact Hs. cbn [fst]. apply PS_diff_set.
Qed.

End Shape.

(* mutual_add_removes keeps the shape: a manufactured values_changed has the two paths of the removed level *)
Lemma mutual_PS es : Forall PS es -> Forall PS (mutual es).
Proof.
  intros H. apply Forall_forall. intros e He. unfold mutual in He. apply in_flat_map in He as (e0 & H0 & He).
  eapply Forall_forall in H; [|exact H0].
  destruct (ekind e0) eqn:K0; try (destruct He as [<-|[]]; exact H).
  - destruct (last_with_path _ _); [destruct He|]. destruct He as [<-|[]]. exact H.
  - destruct (last_with_path (ep1 e0) (filter (is_kind KIterAdd) es)); [|destruct He as [<-|[]]; exact H].
    destruct (last_with_path (ep1 e0) (filter (is_kind KIterRem) es)); [|destruct He as [<-|[]]; exact H].
    destruct He as [<-|[]]. destruct H as [H|[[H|[H|H]] _]]; [left; exact H|rewrite K0 in H; discriminate..].
Qed.

Theorem run_diff_paths_shape hatom udiff ops skip excl c t1 t2 :
  Forall PS (fst (run_diff hatom udiff ops skip excl c t1 t2)).
Proof.
  unfold run_diff. pose proof (diff_paths_shape hatom udiff ops skip excl c t1 t2 []) as H.
  destruct (diff hatom udiff ops skip excl c t1 t2 [] []) as [es rec]. cbn [fst] in *. apply mutual_PS. exact H.
Qed.

(* ------------------------------------------------------------------ *)
(* (2) printing of shifted paths                                       *)
(* ------------------------------------------------------------------ *)
Lemma p_of_Z_inj a b : p_of_Z a = p_of_Z b -> a = b.
Proof.
  intros E. pose proof (literal_eval_int a) as A. rewrite E, literal_eval_int in A. inversion A. reflexivity.
Qed.

Lemma render_snoc q k : render (snoc q k) = render q ++ render_key k.
Proof. unfold render, snoc. rewrite flat_map_app. cbn [flat_map]. rewrite app_nil_r, app_assoc. reflexivity. Qed.

Lemma render_shift_inj q i j : render (snoc q (PIdx i)) = render (snoc q (PIdx j)) -> i = j.
Proof.
  rewrite !render_snoc. intros E. apply app_inv_head in E. unfold render_key in E. cbn [key_atom stringify_param repr_atom] in E.
  apply app_inv_head in E. apply app_inv_tail in E. apply p_of_Z_inj in E. lia.
Qed.

Lemma PS_render_eq e : PS e -> render (ep1 e) = render (ep2 e) -> ep1 e = ep2 e.
Proof.
  intros [H|[_ (q & i & j & E1 & E2)]] R; [exact H|].
  rewrite E1, E2 in *. apply render_shift_inj in R. subst. reflexivity.
Qed.

Lemma new_path_iff e : PS e -> (new_path_of e = None <-> ep1 e = ep2 e).
Proof.
  intros S. unfold new_path_of. destruct (pystr_eqb (render (ep1 e)) (render (ep2 e))) eqn:Q; split; intros H.
  - apply pystr_eqb_eq in Q. apply PS_render_eq; assumption.
  - reflexivity.
  - discriminate.
  - rewrite H, pystr_eqb_refl in Q. discriminate.
Qed.

Lemma path_ok_snoc_idx q i : path_ok (snoc q (PIdx i)) = path_ok q.
Proof. unfold path_ok, snoc. rewrite forallb_app. cbn. rewrite !andb_true_r. reflexivity. Qed.

Lemma PS_path_ok e : PS e -> path_ok (ep2 e) = path_ok (ep1 e).
Proof.
  intros [H|[_ (q & i & j & E1 & E2)]]; [rewrite H; reflexivity|].
  rewrite E1, E2, !path_ok_snoc_idx. reflexivity.
Qed.

(* paths made of indexes only need no guard *)
Definition idx_only (p : path) : bool := forallb (fun k => match k with PIdx _ => true | PKey _ => false end) p.
Lemma idx_only_path_ok p : idx_only p = true -> path_ok p = true.
Proof.
  unfold idx_only, path_ok. intros H. apply forallb_forall. intros k Hk.
  eapply forallb_forall in H; [|exact Hk]. destruct k; [discriminate|reflexivity].
Qed.

(* ------------------------------------------------------------------ *)
(* (3) the text theorems with the entry-local guard                    *)
(* ------------------------------------------------------------------ *)
Section TextLocal.
Variable hatom : atom -> pystr.
Variable udiff : pystr -> pystr -> pystr.
Variable ops : path -> list value -> list value -> list opcode.
Variable skip excl : path -> bool.
Variable c : cfg.
Notation run := (run_diff hatom udiff ops skip excl c).

Lemma run_entry_PS t1 t2 e : In e (fst (run t1 t2)) -> PS e.
Proof. intros He. pose proof (run_diff_paths_shape hatom udiff ops skip excl c t1 t2) as S. eapply Forall_forall in S; eassumption. Qed.

(* verbose_level >= 2, every entry whose own path keys print and parse back (C09's guard on that path only) *)
Theorem text_faithful_local verbose t1 t2 :
  2 <= verbose -> thr_num c <= thr_den c -> wf t1 = true -> wf t2 = true ->
  forall e, In e (fst (run t1 t2)) -> path_ok (ep1 e) = true ->
  forall te, In te (text_of verbose e) -> tfaithful false t1 t2 te.
Proof.
  intros V Hthr W1 W2 e He O1 te Hte.
  destruct (run_diff_faithful hatom udiff ops skip excl c t1 t2 Hthr W1 W2 e He) as [F _].
  pose proof (run_entry_PS t1 t2 e He) as S.
  eapply text_of_faithful; try eassumption; [apply PS_SP; exact S|rewrite (PS_path_ok e S); exact O1|left; exact V].
Qed.

Theorem text_faithful_strong_local verbose t1 t2 :
  2 <= verbose -> thr_num c <= thr_den c -> wf t1 = true -> wf t2 = true ->
  forall e, In e (fst (run t1 t2)) -> In e (fst (diff hatom udiff ops skip excl c t1 t2 [] [])) ->
  path_ok (ep1 e) = true ->
  forall te, In te (text_of verbose e) -> tfaithful true t1 t2 te.
Proof.
  intros V Hthr W1 W2 e He Hd O1 te Hte.
  destruct (run_diff_faithful hatom udiff ops skip excl c t1 t2 Hthr W1 W2 e He) as [_ F].
  pose proof (run_entry_PS t1 t2 e He) as S.
  eapply text_of_faithful; try eassumption; [apply F; exact Hd|apply PS_SP; exact S|rewrite (PS_path_ok e S); exact O1|left; exact V].
Qed.

(* any verbose_level: the entries whose two sides sit at the same place *)
Theorem text_any_verbosity_local verbose t1 t2 :
  thr_num c <= thr_den c -> wf t1 = true -> wf t2 = true ->
  forall e, In e (fst (run t1 t2)) -> path_ok (ep1 e) = true -> ep1 e = ep2 e ->
  forall te, In te (text_of verbose e) -> tfaithful false t1 t2 te.
Proof.
  intros Hthr W1 W2 e He O1 P te Hte.
  destruct (run_diff_faithful hatom udiff ops skip excl c t1 t2 Hthr W1 W2 e He) as [F _].
  pose proof (run_entry_PS t1 t2 e He) as S.
  eapply text_of_faithful; try eassumption; [apply PS_SP; exact S|rewrite <- P; exact O1|right; rewrite P; reflexivity].
Qed.

(* goal "(through new_path when given)": at verbose_level >= 2 a changed value / changed type whose two sides
   sit at DIFFERENT places carries a new_path, that new_path is the printed t2 path, and it extracts the
   reported new value from t2; one whose sides sit at the same place carries none.  Every opcode oracle. *)
Theorem text_new_path_given verbose t1 t2 :
  2 <= verbose -> thr_num c <= thr_den c -> wf t1 = true -> wf t2 = true ->
  forall e, In e (fst (run t1 t2)) -> (ekind e = KValue \/ ekind e = KType) ->
  exists old new,
    et1 e = Some old /\ et2 e = Some new /\
    (ep1 e = ep2 e -> new_path_of e = None) /\
    (ep1 e <> ep2 e ->
       new_path_of e = Some (render (ep2 e)) /\ render (ep2 e) <> render (ep1 e) /\
       exists q i j, i <> j /\ ep1 e = snoc q (PIdx i) /\ ep2 e = snoc q (PIdx j)) /\
    (text_of verbose e =
       match ekind e with
       | KValue => [TValue (render (ep1 e)) old new (new_path_of e) (ediff e)]
       | _ => [TType (render (ep1 e)) (type_of old) (type_of new) (new_path_of e) (Some (old, new))]
       end) /\
    (path_ok (ep1 e) = true ->
       extract t1 (render (ep1 e)) = Some old /\
       extract t2 (match new_path_of e with Some np => np | None => render (ep1 e) end) = Some new).
Proof.
  intros V Hthr W1 W2 e He K.
  destruct (run_diff_faithful hatom udiff ops skip excl c t1 t2 Hthr W1 W2 e He) as [F _].
  pose proof (run_entry_PS t1 t2 e He) as S.
  assert (L1 : Nat.ltb 1 verbose = true) by (apply Nat.ltb_lt; lia).
  assert (L0 : Nat.ltb 0 verbose = true) by (apply Nat.ltb_lt; lia).
  assert (X : exists a b, et1 e = Some a /\ et2 e = Some b /\ resolve t1 (ep1 e) = Some a /\ resolve t2 (ep2 e) = Some b).
  { unfold faithful in F. destruct K as [K|K]; rewrite K in F; destruct F as (a & b & E1 & E2 & R1 & R2 & _);
      exists a, b; repeat split; assumption. }
  destruct X as (a & b & E1 & E2 & R1 & R2). exists a, b.
  split; [exact E1|]. split; [exact E2|]. split; [|split; [|split]].
  - intros P. apply new_path_iff; assumption.
  - intros N. destruct S as [P|[_ (q & i & j & P1 & P2)]]; [contradiction|].
    assert (Nij : i <> j) by (intros ->; apply N; rewrite P1, P2; reflexivity).
    assert (NR : render (ep2 e) <> render (ep1 e)).
    { rewrite P1, P2. intros R. apply render_shift_inj in R. congruence. }
    split; [|split; [exact NR|exists q, i, j; repeat split; assumption]].
    unfold new_path_of. destruct (pystr_eqb (render (ep1 e)) (render (ep2 e))) eqn:Q; [|reflexivity].
    apply pystr_eqb_eq in Q. congruence.
  - unfold text_of. destruct K as [K|K]; rewrite K, E1, E2, ?L1, ?L0; reflexivity.
  - intros O1. rewrite (extract_render t1 _ O1). split; [exact R1|].
    assert (O2 : path_ok (ep2 e) = true) by (rewrite (PS_path_ok e S); exact O1).
    unfold new_path_of. destruct (pystr_eqb (render (ep1 e)) (render (ep2 e))) eqn:Q.
    + apply pystr_eqb_eq in Q. rewrite Q, (extract_render t2 _ O2). exact R2.
    + rewrite (extract_render t2 _ O2). exact R2.
Qed.

End TextLocal.

(* the whole-input guard implies the local one (the old theorems are instances) *)
Lemma keys_ok_local hatom udiff ops skip excl c t1 t2 e :
  keys_ok t1 = true -> keys_ok t2 = true ->
  In e (fst (run_diff hatom udiff ops skip excl c t1 t2)) -> path_ok (ep1 e) = true.
Proof. intros K1 K2 He. exact (proj1 (entry_paths_ok hatom udiff ops skip excl c t1 t2 e K1 K2 He)). Qed.

(* the local guard is weaker: a hostile key elsewhere in the inputs does not matter *)
Definition lg_bad : atom := AStr [cSQ; cDQ].
Definition lg_t1 : value := VDict [(lg_bad, VAtom (AInt 1)); (AStr [97%N], VList [VAtom (AInt 1); VAtom (AInt 2)])].
Definition lg_t2 : value := VDict [(lg_bad, VAtom (AInt 1)); (AStr [97%N], VList [VAtom (AInt 1); VAtom (AInt 3)])].
Definition lg_run (t1 t2 : value) :=
  run_diff (fun _ => []) (fun _ _ => []) (fun _ _ _ => [mkOp OEqual 0 1 0 1; mkOp OReplace 1 2 1 2])
           (fun _ => false) (fun _ => false) (mkCfg false 33 100 true) t1 t2.

Example text_local_guard_weaker :
  keys_ok lg_t1 = false /\
  fst (lg_run lg_t1 lg_t2) <> [] /\
  forallb (fun e => path_ok (ep1 e)) (fst (lg_run lg_t1 lg_t2)) = true.
Proof. vm_compute. repeat split; try reflexivity. discriminate. Qed.

(* ... and it cannot be dropped: the changed value below the hostile key is reported under a path string that
   deepdiff.extract cannot follow (C09 finding K5) *)
Definition lg_t3 : value := VDict [(lg_bad, VAtom (AInt 2))].
Definition lg_t1' : value := VDict [(lg_bad, VAtom (AInt 1))].
Lemma text_local_guard_needed :
  exists e te, In e (fst (lg_run lg_t1' lg_t3)) /\ path_ok (ep1 e) = false /\ In te (text_of 2 e) /\
               ~ tfaithful false lg_t1' lg_t3 te.
Proof.
  exists (mkEntry KValue [PKey lg_bad] [PKey lg_bad] (Some (VAtom (AInt 1))) (Some (VAtom (AInt 2))) None).
  eexists. split; [vm_compute; tauto|]. split; [reflexivity|]. split; [left; reflexivity|].
  cbn [tfaithful]. intros (H & _). vm_compute in H. discriminate.
Qed.

(** Port of Diff/TextView.v to the extended universe Diff/XuValue.v (same names), with the path printer
    of Path/PathModel.v on the extended keys.  Python's repr() / str() of datetimes, dates, times, timedeltas
    and Decimals are NOT modelled: [xrepr] (repr of such a dict key inside a path) and [xstr] (str of such a
    set member inside a set_item text) are oracles - explicit first arguments of [render] / [text_view] -
    supplied by the harness as finite tables.

    The text view (TextResult of deepdiff/model.py) as a function of the result
    tree and verbose_level.  An element of the list is one entry of one
    category of the result dict; the order inside the list is not an observable
    (categories are dicts / ordered sets).  Definitions only. *)
From Coq Require Import List ZArith NArith Bool Arith.
Import ListNotations.
From DD Require Import Base.PyStr Path.PathModel Diff.XuValue Diff.XuTree.

(* ---- the path printer on extended keys (Path/PathModel.v repr_atom / stringify_param / render) ---- *)
Definition exotic (a : atom) : bool :=
  match a with
  | ADt _ _ | ADate _ | ATime _ _ | ATd _ | ADec _ _ => true
  | _ => false
  end.

Section Printer.
Variable xrepr : atom -> pystr.      (* repr(obj) of an exotic atom *)
Variable xstr : atom -> pystr.       (* str(obj) of an exotic atom *)

Definition repr_atom (a : atom) : pystr :=
  match a with
  | ANone => PathModel.repr_atom DD.Base.Value.ANone
  | ABool b => PathModel.repr_atom (DD.Base.Value.ABool b)
  | AInt z => p_of_Z z
  | AHalf t => repr_half t
  | AStr s => s
  | ABytes s => repr_bytes s
  | _ => xrepr a
  end.
Definition stringify_param (a : atom) : pystr :=
  match a with
  | AStr s => stringify_element s QS
  | _ => repr_atom a
  end.
Definition key_atom (k : pkey) : atom :=
  match k with
  | PKey a => a
  | PIdx i => AInt (Z.of_nat i)
  end.
Definition render_key (k : pkey) : pystr := [cLB] ++ stringify_param (key_atom k) ++ [cRB].
Definition render (ks : path) : pystr := root_str ++ flat_map render_key ks.

Inductive tentry :=
| TType (p : pystr) (old_ty new_ty : ty) (new_path : option pystr) (vals : option (value * value))
| TValue (p : pystr) (old new : value) (new_path : option pystr) (d : option pystr)
| TDictAdd (p : pystr) (v : option value)      (* the value only at verbose_level 2 *)
| TDictRem (p : pystr) (v : option value)
| TIterAdd (p : pystr) (v : value)
| TIterRem (p : pystr) (v : value)
| TMoved (p new_path : pystr) (v : value)
| TSetAdd (s : pystr)                          (* "<path of the set>[<item>]" *)
| TSetRem (s : pystr).

(* str(item), strings wrapped in single quotes ("'%s'" % item) *)
Definition str_item (a : atom) : pystr :=
  match a with
  | AStr s => [cSQ] ++ s ++ [cSQ]
  | ABytes s => [cSQ] ++ repr_bytes s ++ [cSQ]
  | _ => if exotic a then xstr a else repr_atom a
  end.
Definition set_item_text (p : path) (a : atom) : pystr :=
  render p ++ [cLB] ++ str_item a ++ [cRB].

Definition new_path_of (e : entry) : option pystr :=
  if pystr_eqb (render (ep1 e)) (render (ep2 e)) then None else Some (render (ep2 e)).

Definition opt_val (o : option value) : value := match o with Some v => v | None => VAtom ANone end.
Definition opt_atom (o : option value) : atom :=
  match o with Some (VAtom a) => a | _ => ANone end.

Definition text_of (verbose : nat) (e : entry) : list tentry :=
  let p := render (ep1 e) in
  match ekind e with
  | KType =>
      [TType p (type_of (opt_val (et1 e))) (type_of (opt_val (et2 e)))
             (if Nat.ltb 1 verbose then new_path_of e else None)
             (if Nat.ltb 0 verbose then Some (opt_val (et1 e), opt_val (et2 e)) else None)]
  | KValue =>
      if Nat.ltb 0 verbose
      then [TValue p (opt_val (et1 e)) (opt_val (et2 e))
                   (if Nat.ltb 1 verbose then new_path_of e else None) (ediff e)]
      else []
  | KDictAdd => [TDictAdd p (if Nat.leb 2 verbose then et2 e else None)]
  | KDictRem => [TDictRem p (if Nat.leb 2 verbose then et1 e else None)]
  | KIterAdd => [TIterAdd p (opt_val (et2 e))]
  | KIterRem => [TIterRem p (opt_val (et1 e))]
  | KIterMoved => if Nat.ltb 1 verbose then [TMoved p (render (ep2 e)) (opt_val (et2 e))] else []
  | KSetAdd => [TSetAdd (set_item_text (ep1 e) (opt_atom (et2 e)))]
  | KSetRem => [TSetRem (set_item_text (ep1 e) (opt_atom (et1 e)))]
  | KRepetition => []
  end.

Definition text_view (verbose : nat) (es : list entry) : list tentry :=
  flat_map (text_of verbose) es.

End Printer.

(** The ordered diff with DeepDiff's run-wide DeepHash table ([self.hashes], keyed by
    Python ==) threaded through the traversal in the implementation's order.

    [DiffModel.diff] compares set members through a pure function [hatom].  The
    implementation hashes every member with DeepHash(item, hashes=self.hashes): one table
    for the whole run, looked up by ==, so the int 1 and the float 1.0 get whichever hash was
    computed first (finding K2).  The table is only touched in [_create_hashtable], i.e. in
    ordered mode at set / frozenset levels ([_diff_set]: t1's members in iteration order,
    then the set itself, then t2's).  Order of the traversal (deepdiff/diff.py):
      _diff_dict   added keys, removed keys (no recursion), then [t2_keys & t1_keys] in
                   T2's key order, each compared as t1[key] vs t2[key];
      sequences    position by position (zip_longest); all-atom lists in default mode go
                   through difflib and never reach a set;
      _diff_set    Hash/HashMembers.v [diff_set_memo] (b06).
    Everything else is [DiffModel.diff] verbatim.  Definitions only. *)
From Coq Require Import List ZArith NArith Bool Arith.
Import ListNotations.
From DD Require Import Base.PyStr Base.Value Diff.Tree Diff.DiffModel Hash.HashModel Hash.HashMembers.

Definition atom_of (v : value) : atom := match v with VAtom a => a | _ => ANone end.

Section DiffMemo.
Variable H : pystr -> pystr.          (* the hasher (SHA-256 in the implementation) *)
Variable o : hopts.                   (* DeepDiff's deephash_parameters *)
Variable udiff : pystr -> pystr -> pystr.
Variable ops : path -> list value -> list value -> list opcode.
Variable skip : path -> bool.
Variable excl : path -> bool.
Variable c : cfg.

Definition RM := (list entry * list path * memo)%type.

(* _diff_set on the shared table: items added first, then items removed *)
Definition diff_set_m (m : memo) (t1 t2 : value) (p1 p2 : path) : list entry * memo :=
  let '(rem, add, m') := diff_set_memo H o m t1 t2 in
  (flat_map (fun y => report_set skip KSetAdd (atom_of y) p1 p2) add
   ++ flat_map (fun x => report_set skip KSetRem (atom_of x) p1 p2) rem, m').

Fixpoint diff_m (m : memo) (t1 t2 : value) (p1 p2 : path) {struct t1} : RM :=
  if skip p1 then ([], [], m) else
  if negb (ty_eqb (type_of t1) (type_of t2))
  then (report skip KType p1 p2 (Some t1) (Some t2) None, [], m)
  else
  match t1, t2 with
  | VAtom a, VAtom b => (diff_atom udiff skip a b p1 p2, [], m)
  | VDict kvs1, VDict kvs2 =>
      let k1 := keys_of c kvs1 in
      let k2 := keys_of c kvs2 in
      if dict_shortcut excl c k1 k2 p1 then (report skip KValue p1 p2 (Some t1) (Some t2) None, [], m)
      else
        let added := flat_map (fun k => if mem_atom k k1 then []
                       else report skip KDictAdd (snoc p1 (PKey k)) (snoc p2 (PKey k)) None (assoc k kvs2) None) k2 in
        let removed := flat_map (fun k => if mem_atom k k2 then []
                       else report skip KDictRem (snoc p1 (PKey k)) (snoc p2 (PKey k)) (assoc k kvs1) None None) k1 in
        (* for key in t2_keys & t1_keys (t2's order): _diff(t1[key], t2[key]) *)
        let common :=
          (fix go (l2 : list (atom * value)) (m : memo) : RM :=
             match l2 with
             | [] => ([], [], m)
             | (k, v2) :: r2 =>
                 if keep_key c k then
                   let '(res, m1) :=
                     (fix look (l1 : list (atom * value)) : RM :=
                        match l1 with
                        | [] => ([], [], m)                         (* key not in t1 *)
                        | (k', v1) :: r1 =>
                            if py_eq k' k
                            then diff_m m v1 v2 (snoc p1 (PKey k)) (snoc p2 (PKey k))
                            else look r1
                        end) kvs1 in
                   let '(rest, m2) := go r2 m1 in (app2 res rest, m2)
                 else go r2 m
             end) kvs2 m in
        (added ++ removed ++ fst (fst common), snd (fst common), snd common)
  | VList xs, VList ys | VTuple xs, VTuple ys =>
      if negb (zip c) && forallb is_atom xs && forallb is_atom ys
      then let '(es, rec) := default_leaf_list udiff ops skip xs ys p1 p2 in (es, if rec then [p1] else [], m)
      else
        (fix go (xs ys : list value) (i : nat) (m : memo) {struct xs} : RM :=
           match xs, ys with
           | [], _ => (added_from skip ys i p1 p2, [], m)
           | _ :: _, [] => (removed_from skip xs i p1 p2, [], m)
           | x :: xs', y :: ys' =>
               let '(res, m1) := diff_m m x y (snoc p1 (PIdx i)) (snoc p2 (PIdx i)) in
               let '(rest, m2) := go xs' ys' (S i) m1 in (app2 res rest, m2)
           end) xs ys 0 m
  | VSet _, VSet _ | VFrozen _, VFrozen _ =>
      let '(es, m') := diff_set_m m t1 t2 p1 p2 in (es, [], m')
  | _, _ => ([], [], m)
  end.

(* DeepDiff(t1, t2, view='tree') starts with an empty table *)
Definition run_diff_m (t1 t2 : value) : RM :=
  let '(es, rec, m) := diff_m [] t1 t2 [] [] in (mutual es, rec, m).

End DiffMemo.

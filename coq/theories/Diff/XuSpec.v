(** Port of Diff/Spec.v to the extended universe Diff/XuValue.v (same names; [xrepr] / [xstr] are the printer
    oracles of Diff/XuTextView.v).  For datetimes, dates, times, timedeltas and Decimals the rule is the scalar rule:
    values_changed iff not Python-equal, old / new value = the two objects.

    C03 - the obvious recursive definition of structural difference.

    [spec udiff ip t1 t2 p] is the complete verbose (verbose_level=2) text-view
    result that comparing [t1] (old) with [t2] (new), both sitting at the key
    sequence [p], ought to give when sequences are compared position by position
    and dictionaries are always descended.  It is written directly on values and
    produces text-view entries (Diff/TextView.v [tentry]: category, rendered path,
    old/new value, old/new type, text diff); it does not mention result trees,
    levels, child relationships, hashes, opcodes or any post-processing pass.

      - types differ                 -> one type_changes entry (old/new type, old/new value)
      - two scalars of one type      -> values_changed iff not Python-equal; the
                                        'diff' text is given exactly when one of the
                                        two strings has a newline (for bytes: and both
                                        are ASCII) and the unified diff is non-empty
      - two dicts                    -> dictionary_item_added for the keys of t2 that
                                        are not keys of t1 (Python key equality), with
                                        the value; dictionary_item_removed likewise;
                                        recurse into the keys present on both sides,
                                        the path naming t2's key object
      - two lists / two tuples       -> recurse position by position; the longer
                                        side's tail is iterable_item_added / _removed
      - two sets / two frozensets    -> set_item_added / set_item_removed for the
                                        members (compared by type and value) of one
                                        side that are not members of the other

    [ip] = ignore_private_variables (documented: dict keys that are strings
    starting with two underscores are not looked at).  [udiff] stands for
    '\n'.join(difflib.unified_diff(a.splitlines(), b.splitlines(), lineterm='')).
    Definitions only. *)
From Coq Require Import List ZArith NArith Bool Arith.
Import ListNotations.
From DD Require Import Base.PyStr Path.PathModel Diff.XuValue Diff.XuTree Diff.XuTextView.

Section Spec.
Variable xrepr xstr : atom -> pystr.
Variable udiff : pystr -> pystr -> pystr.
Variable ip : bool.
Notation render := (render xrepr).
Notation set_item_text := (set_item_text xrepr xstr).

(* a str key starting with "__" *)
Definition dunder (k : atom) : bool :=
  match k with
  | AStr (c1 :: c2 :: _) => N.eqb c1 95 && N.eqb c2 95
  | _ => false
  end.
Definition visible (k : atom) : bool := negb (ip && dunder k).

Definition multiline (s : pystr) : bool := existsb (N.eqb 10) s.
Definition ascii_only (s : pystr) : bool := forallb (fun ch => N.ltb ch 128) s.
Definition nonempty (d : pystr) : option pystr := match d with [] => None | _ => Some d end.

(* the 'diff' field of a values_changed entry *)
Definition text_diff (a b : atom) : option pystr :=
  match a, b with
  | AStr s, AStr t =>
      if multiline s || multiline t then nonempty (udiff s t) else None
  | ABytes s, ABytes t =>
      if ascii_only s && ascii_only t && (multiline s || multiline t) then nonempty (udiff s t) else None
  | _, _ => None
  end.

Definition at_key (p : path) (k : atom) : path := p ++ [PKey k].
Definition at_idx (p : path) (i : nat) : path := p ++ [PIdx i].

(* the items of the longer sequence beyond the end of the shorter one *)
Fixpoint tail_items (mk : pystr -> value -> tentry) (p : path) (l : list value) (i : nat) : list tentry :=
  match l with
  | [] => []
  | x :: r => mk (render (at_idx p i)) x :: tail_items mk p r (S i)
  end.

Definition has_key (k : atom) (kvs : list (atom * value)) : bool := mem_atom k (map fst kvs).
Definition member (a : atom) (l : list atom) : bool := existsb (atom_eqb a) l.

Fixpoint spec (t1 t2 : value) (p : path) {struct t1} : list tentry :=
  if negb (ty_eqb (type_of t1) (type_of t2))
  then [TType (render p) (type_of t1) (type_of t2) None (Some (t1, t2))]
  else
  match t1, t2 with
  | VAtom a, VAtom b =>
      if py_eq a b then [] else [TValue (render p) t1 t2 None (text_diff a b)]
  | VDict kvs1, VDict kvs2 =>
      flat_map (fun kv => if visible (fst kv) && negb (has_key (fst kv) kvs1)
                          then [TDictAdd (render (at_key p (fst kv))) (Some (snd kv))] else []) kvs2
      ++ flat_map (fun kv => if visible (fst kv) && negb (has_key (fst kv) kvs2)
                             then [TDictRem (render (at_key p (fst kv))) (Some (snd kv))] else []) kvs1
      ++ (fix common (l : list (atom * value)) : list tentry :=
            match l with
            | [] => []
            | (k, v1) :: r =>
                (if visible k
                 then match find (fun kv => py_eq k (fst kv)) kvs2 with
                      | Some (k', v2) => spec v1 v2 (at_key p k')
                      | None => []
                      end
                 else [])
                ++ common r
            end) kvs1
  | VList xs, VList ys | VTuple xs, VTuple ys =>
      (fix zipped (xs ys : list value) (i : nat) {struct xs} : list tentry :=
         match xs, ys with
         | [], _ => tail_items TIterAdd p ys i
         | _ :: _, [] => tail_items TIterRem p xs i
         | x :: xs', y :: ys' => spec x y (at_idx p i) ++ zipped xs' ys' (S i)
         end) xs ys 0
  | VSet xs, VSet ys | VFrozen xs, VFrozen ys =>
      map (fun y => TSetAdd (set_item_text p y)) (filter (fun y => negb (member y xs)) ys)
      ++ map (fun x => TSetRem (set_item_text p x)) (filter (fun x => negb (member x ys)) xs)
  | _, _ => []      (* unreachable: the types are equal *)
  end.

End Spec.

Definition spec_diff (xrepr xstr : atom -> pystr) (udiff : pystr -> pystr -> pystr) (ip : bool) (t1 t2 : value) : list tentry :=
  spec xrepr xstr udiff ip t1 t2 [].

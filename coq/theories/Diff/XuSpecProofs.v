(** Port of Diff/DiffSpecProofs.v to the extended universe Diff/XuValue.v.  New: part 1 is proved with a small
    local [resolve] (dict key / sequence index lookup) instead of the C04 theorem; the leaf guard [dt_utc] (every
    datetime LEAF is already aware-UTC, i.e. what datetime_normalize returns) under which the reported values are
    the input's values.

    C03: in positional mode (zip_ordered_iterables=True, threshold_to_diff_deeper=0)
    the verbose text view of the model's result IS the recursive definition of
    structural difference (Diff/Spec.v), for all well-formed values.

    Two parts:
    (1) [mutual_add_removes_to_become_value_changes] is the identity on
        positional results: a removed item's path resolves in t1, an added
        item's path does not (its index is past the end of t1's sequence);
    (2) structural induction: the text view of [diff] = [spec]. *)
From Coq Require Import List ZArith NArith Bool Arith Lia.
Import ListNotations.
From DD Require Import Base.PyStr Path.PathModel Diff.XuValue Diff.XuFacts
  Diff.XuTree Diff.XuModel Diff.XuTextView Diff.XuDiffFacts Diff.XuLemmas Diff.XuEmpty Diff.XuSpec.

(* ------------------------------------------------------------------ *)
(** * List lemmas *)

Lemma text_view_app xrepr xstr v a b : text_view xrepr xstr v (a ++ b) = text_view xrepr xstr v a ++ text_view xrepr xstr v b.
Proof. unfold text_view. apply flat_map_app. Qed.

Lemma flat_map_flat_map {A B C} (f : A -> list B) (g : B -> list C) l :
  flat_map g (flat_map f l) = flat_map (fun x => flat_map g (f x)) l.
Proof. induction l as [|x l IH]; cbn; [reflexivity|]. rewrite flat_map_app, IH. reflexivity. Qed.

Lemma flat_map_ext_in' {A B} (f g : A -> list B) l :
  (forall x, In x l -> f x = g x) -> flat_map f l = flat_map g l.
Proof.
  induction l as [|x l IH]; cbn; intros H; [reflexivity|].
  rewrite (H x (or_introl eq_refl)), IH; [reflexivity|]. intros y Hy. apply H. right. exact Hy.
Qed.

Lemma flat_map_filter_fst {A B} (g : atom -> bool) (f : atom -> list B) (l : list (atom * A)) :
  flat_map f (filter g (map fst l)) = flat_map (fun kv => if g (fst kv) then f (fst kv) else []) l.
Proof.
  induction l as [|[k v] l IH]; cbn; [reflexivity|].
  destruct (g k); cbn; rewrite IH; reflexivity.
Qed.

Lemma flat_map_if_filter {A B} (b : A -> bool) (e : A -> B) l :
  flat_map (fun x => if b x then [] else [e x]) l = map e (filter (fun x => negb (b x)) l).
Proof. induction l as [|x l IH]; cbn; [reflexivity|]. destruct (b x); cbn; rewrite IH; reflexivity. Qed.

Lemma flat_map_single_id {A} (f : A -> list A) l : (forall x, In x l -> f x = [x]) -> flat_map f l = l.
Proof.
  induction l as [|x l IH]; cbn; intros H; [reflexivity|].
  rewrite (H x (or_introl eq_refl)). cbn. f_equal. apply IH. intros y Hy. apply H. right. exact Hy.
Qed.

(* ------------------------------------------------------------------ *)
(** * Unfolding equations of [spec] *)

Section SpecFacts.
Variable xrepr xstr : atom -> pystr.
Variable udiff : pystr -> pystr -> pystr.
Variable ip : bool.
Notation spec := (spec xrepr xstr udiff ip).
Notation render := (render xrepr).
Notation set_item_text := (set_item_text xrepr xstr).

Definition spec_common (kvs2 : list (atom * value)) (p : path) :=
  fix common (l : list (atom * value)) : list tentry :=
    match l with
    | [] => []
    | (k, v1) :: r =>
        (if visible ip k
         then match find (fun kv => py_eq k (fst kv)) kvs2 with
              | Some (k', v2) => spec v1 v2 (at_key p k')
              | None => []
              end
         else [])
        ++ common r
    end.

Definition spec_zip (p : path) :=
  fix zipped (xs ys : list value) (i : nat) {struct xs} : list tentry :=
    match xs, ys with
    | [], _ => tail_items xrepr TIterAdd p ys i
    | _ :: _, [] => tail_items xrepr TIterRem p xs i
    | x :: xs', y :: ys' => spec x y (at_idx p i) ++ zipped xs' ys' (S i)
    end.

Definition spec_sets (xs ys : list atom) (p : path) : list tentry :=
  map (fun y => TSetAdd (set_item_text p y)) (filter (fun y => negb (member y xs)) ys)
  ++ map (fun x => TSetRem (set_item_text p x)) (filter (fun x => negb (member x ys)) xs).

Lemma spec_type t1 t2 p :
  ty_eqb (type_of t1) (type_of t2) = false ->
  spec t1 t2 p = [TType (render p) (type_of t1) (type_of t2) None (Some (t1, t2))].
Proof. intros T. destruct t1; cbn [XuSpec.spec]; rewrite T; reflexivity. Qed.

Lemma spec_atom a b p :
  ty_eqb (atom_ty a) (atom_ty b) = true ->
  spec (VAtom a) (VAtom b) p =
  if py_eq a b then [] else [TValue (render p) (VAtom a) (VAtom b) None (text_diff udiff a b)].
Proof. intros T. cbn [XuSpec.spec type_of]. rewrite T. reflexivity. Qed.

Lemma spec_dict kvs1 kvs2 p :
  spec (VDict kvs1) (VDict kvs2) p =
  flat_map (fun kv => if visible ip (fst kv) && negb (has_key (fst kv) kvs1)
                      then [TDictAdd (render (at_key p (fst kv))) (Some (snd kv))] else []) kvs2
  ++ flat_map (fun kv => if visible ip (fst kv) && negb (has_key (fst kv) kvs2)
                         then [TDictRem (render (at_key p (fst kv))) (Some (snd kv))] else []) kvs1
  ++ spec_common kvs2 p kvs1.
Proof. reflexivity. Qed.

Lemma spec_list xs ys p : spec (VList xs) (VList ys) p = spec_zip p xs ys 0.
Proof. reflexivity. Qed.
Lemma spec_tuple xs ys p : spec (VTuple xs) (VTuple ys) p = spec_zip p xs ys 0.
Proof. reflexivity. Qed.
Lemma spec_vset xs ys p : spec (VSet xs) (VSet ys) p = spec_sets xs ys p.
Proof. reflexivity. Qed.
Lemma spec_vfrozen xs ys p : spec (VFrozen xs) (VFrozen ys) p = spec_sets xs ys p.
Proof. reflexivity. Qed.

End SpecFacts.

(* ------------------------------------------------------------------ *)
(** * Part 1: no path is both added and removed in positional mode *)

Lemma is_kind_true k e : is_kind k e = true -> ekind e = k.
Proof. unfold is_kind. destruct (ekind e), k; cbn; intros H; try discriminate; reflexivity. Qed.

Lemma mutual_id es :
  (forall a r, In a es -> In r es -> ekind a = KIterAdd -> ekind r = KIterRem -> ep1 a <> ep1 r) ->
  mutual es = es.
Proof.
  intros H. unfold mutual. apply flat_map_single_id. intros e He.
  destruct (ekind e) eqn:K; try reflexivity.
  - destruct (last_with_path (ep1 e) (filter (is_kind KIterRem) es)) as [r|] eqn:L; [|reflexivity].
    exfalso. apply last_with_path_In in L as [Hin Hp]. apply filter_In in Hin as [Hin Hk].
    apply is_kind_true in Hk. apply (H e r He Hin K Hk). symmetry. exact Hp.
  - destruct (last_with_path (ep1 e) (filter (is_kind KIterAdd) es)) as [a|] eqn:L; [|reflexivity].
    exfalso. apply last_with_path_In in L as [Hin Hp]. apply filter_In in Hin as [Hin Hk].
    apply is_kind_true in Hk. apply (H a e Hin He Hk K). exact Hp.
Qed.

(* where a key sequence leads inside a value (a proof device: dict key / sequence index) *)
Definition get_key (v : value) (k : pkey) : option value :=
  match v, k with
  | VDict kvs, PKey a => assoc a kvs
  | VList xs, PIdx i | VTuple xs, PIdx i => nth_error xs i
  | _, _ => None
  end.
Fixpoint resolve (v : value) (ks : path) : option value :=
  match ks with
  | [] => Some v
  | k :: r => match get_key v k with Some v' => resolve v' r | None => None end
  end.
Lemma resolve_snoc r p k :
  resolve r (p ++ [k]) = match resolve r p with Some v => get_key v k | None => None end.
Proof.
  revert r; induction p as [|k0 p IH]; intros r; cbn.
  - destruct (get_key r k); reflexivity.
  - destruct (get_key r k0); [apply IH|reflexivity].
Qed.
Definition seq_items (v : value) : option (list value) :=
  match v with VList xs | VTuple xs => Some xs | _ => None end.

Section AddedUnresolved.
Variable hatom : atom -> pystr.
Variable udiff : pystr -> pystr -> pystr.
Variable ops : path -> list value -> list value -> list opcode.
Variable skip excl : path -> bool.
Variable c : cfg.
Hypothesis Hzip : zip c = true.
Variable r1 : value.
Notation diff := (diff hatom udiff ops skip excl c).

(* an added item's path leads nowhere in t1, a removed item's path leads to an item of t1 *)
Definition addrem (e : entry) : Prop :=
  (ekind e = KIterAdd -> resolve r1 (ep1 e) = None) /\
  (ekind e = KIterRem -> exists x, resolve r1 (ep1 e) = Some x).

Lemma A_report k p1 p2 a b d : k <> KIterAdd -> k <> KIterRem -> Forall addrem (report skip k p1 p2 a b d).
Proof.
  intros N1 N2. unfold report. destruct (skip p1); constructor; [|constructor].
  split; intros K; cbn in K; contradiction.
Qed.

Lemma A_diff_atom a b p1 p2 : Forall addrem (diff_atom udiff skip a b p1 p2).
Proof.
  unfold diff_atom. destruct (skip p1); [constructor|].
  destruct (negb _); [apply A_report; discriminate|].
  destruct a, b; try (destruct (py_eq _ _); [constructor|apply A_report; discriminate]).
  - destruct (diff_str udiff false s s0) as [ch d]. destruct ch; [apply A_report; discriminate|constructor].
  - destruct (diff_str udiff true s s0) as [ch d]. destruct ch; [apply A_report; discriminate|constructor].
Qed.

Lemma A_removed_from XS v1 xs : forall i p1 p2,
  resolve r1 p1 = Some v1 -> seq_items v1 = Some XS ->
  (forall k x, nth_error xs k = Some x -> nth_error XS (i + k) = Some x) ->
  Forall addrem (removed_from skip xs i p1 p2).
Proof.
  induction xs as [|x xs IH]; intros i p1 p2 Hr Hs N; cbn; [constructor|].
  apply Forall_app; split.
  - unfold report. destruct (skip _); constructor; [|constructor].
    split; intros K; cbn in K; [discriminate K|]. exists x. cbn [ep1]. unfold snoc. rewrite resolve_snoc, Hr.
    specialize (N 0 x eq_refl). rewrite Nat.add_0_r in N.
    destruct v1; cbn in Hs; try discriminate; inversion Hs; subst; exact N.
  - apply IH; try assumption. intros k z Hk. specialize (N (S k) z Hk). rewrite Nat.add_succ_r in N. exact N.
Qed.

Lemma A_added_from XS v1 ys j p1 p2 :
  resolve r1 p1 = Some v1 -> seq_items v1 = Some XS -> length XS <= j ->
  Forall addrem (added_from skip ys j p1 p2).
Proof.
  intros Hr Hs. revert j; induction ys as [|y ys IH]; intros j Hj; cbn; [constructor|].
  apply Forall_app; split; [|apply IH; lia].
  unfold report. destruct (skip _); constructor; [|constructor].
  split; intros K; cbn in K; [|discriminate K]. cbn [ep1]. unfold snoc. rewrite resolve_snoc, Hr.
  destruct v1; cbn in Hs; try discriminate; inversion Hs; subst; apply nth_error_None; exact Hj.
Qed.

Lemma A_diff_set xs ys p1 p2 : Forall addrem (diff_set hatom skip xs ys p1 p2).
Proof.
  unfold diff_set. apply Forall_app; split; apply Forall_forall; intros e He;
    apply in_flat_map in He as (y & _ & He); (destruct (existsb _ _); [destruct He|]);
    unfold report_set in He; (destruct (skip p1); [destruct He|]); destruct He as [<-|[]];
    split; intros K; cbn in K; discriminate K.
Qed.

Definition IHA (t1 : value) : Prop :=
  forall t2 p1 p2, wf t1 = true -> resolve r1 p1 = Some t1 -> Forall addrem (fst (diff t1 t2 p1 p2)).

Lemma A_go_list xs : Forall IHA xs -> forall ys i v1 XS p1 p2,
  resolve r1 p1 = Some v1 -> seq_items v1 = Some XS ->
  length XS = i + length xs ->
  (forall k x, nth_error xs k = Some x -> nth_error XS (i + k) = Some x) ->
  forallb wf xs = true ->
  Forall addrem (fst (go_list skip diff p1 p2 xs ys i)).
Proof.
  induction 1 as [|x xs Hx _ IH]; intros ys i v1 XS p1 p2 Hr Hs HL N W.
  - cbn. eapply A_added_from; try eassumption. cbn in HL. lia.
  - destruct ys as [|y ys].
    + cbn [go_list fst]. eapply A_removed_from; eassumption.
    + cbn [go_list]. unfold app2. cbn [fst]. cbn in W. apply andb_true_iff in W as [Wx W].
      apply Forall_app; split.
      * apply Hx; [exact Wx|]. unfold snoc. rewrite resolve_snoc, Hr.
        specialize (N 0 x eq_refl). rewrite Nat.add_0_r in N.
        destruct v1; cbn in Hs; try discriminate; inversion Hs; subst; exact N.
      * eapply IH; try eassumption.
        -- cbn in HL. lia.
        -- intros k z Hk. specialize (N (S k) z Hk). rewrite Nat.add_succ_r in N. exact N.
Qed.

Lemma A_go_common kvs1 kvs2 p1 p2 :
  nodup_atoms (map fst kvs1) = true -> forallb (fun kv => wf (snd kv)) kvs1 = true ->
  resolve r1 p1 = Some (VDict kvs1) ->
  forall l, (forall kv, In kv l -> In kv kvs1) -> Forall (fun kv => IHA (snd kv)) l ->
  Forall addrem (fst (go_common c diff kvs2 (keys_of c kvs2) p1 p2 l)).
Proof.
  intros N1 W1 H1. induction l as [|[k v1] l IH]; intros Sub HI; cbn; [constructor|].
  apply Forall_cons_iff in HI as [Hk HI'].
  assert (Rest : Forall addrem (fst (go_common c diff kvs2 (keys_of c kvs2) p1 p2 l))).
  { apply IH; [intros kv Hkv; apply Sub; right; exact Hkv|exact HI']. }
  destruct (keep_key c k); [|exact Rest].
  destruct (find (py_eq k) (keys_of c kvs2)) as [k'|] eqn:Fk; [|exact Rest].
  destruct (assoc k' kvs2) as [v2|] eqn:A2; [|exact Rest].
  unfold app2. cbn [fst]. apply Forall_app; split; [|exact Rest].
  apply find_some in Fk as [_ E]. cbn in Hk. apply Hk.
  - eapply forallb_forall in W1; [|apply Sub; left; reflexivity]. exact W1.
  - unfold snoc. rewrite resolve_snoc, H1. cbn [get_key].
    eapply assoc_nodup; [exact N1|apply Sub; left; reflexivity|exact E].
Qed.

Theorem added_unresolved : forall t1, IHA t1.
Proof.
  induction t1 as [a|xs IH|xs IH|kvs IH|xs|xs] using value_ind'; intros t2 p1 p2 W1 H1;
    (destruct (skip p1) eqn:Hs; [rewrite diff_skip by exact Hs; apply Forall_nil|]);
    (match goal with |- context [diff ?t1 t2 _ _] => destruct (ty_eqb (type_of t1) (type_of t2)) eqn:T end;
     [|rewrite diff_type by assumption; cbn [fst]; apply A_report; discriminate]);
    apply ty_eqb_true in T; destruct t2; try discriminate T; try (destruct a; discriminate T).
  - rewrite diff_atom_eq by exact Hs. destruct (negb _); cbn [fst]; [apply A_report; discriminate|apply A_diff_atom].
  - rewrite diff_list by exact Hs. unfold seq_body. rewrite Hzip. cbn [negb andb].
    eapply A_go_list; try eassumption; try reflexivity. intros k z Hk; exact Hk.
  - rewrite diff_tuple by exact Hs. unfold seq_body. rewrite Hzip. cbn [negb andb].
    eapply A_go_list; try eassumption; try reflexivity. intros k z Hk; exact Hk.
  - rewrite diff_dict by exact Hs. unfold dict_body. cbn in W1. apply andb_true_iff in W1 as [N1 W1].
    destruct (dict_shortcut _ _ _ _ _); cbn [fst]; [apply A_report; discriminate|].
    apply Forall_app; split; [|apply Forall_app; split].
    + apply Forall_forall. intros e He. apply in_flat_map in He as (k & _ & He).
      destruct (mem_atom _ _); [destruct He|].
      unfold report in He. destruct (skip (snoc p1 (PKey k))); [destruct He|]. destruct He as [<-|[]]. split; intros K; discriminate K.
    + apply Forall_forall. intros e He. apply in_flat_map in He as (k & _ & He).
      destruct (mem_atom _ _); [destruct He|].
      unfold report in He. destruct (skip (snoc p1 (PKey k))); [destruct He|]. destruct He as [<-|[]]. split; intros K; discriminate K.
    + apply (A_go_common kvs); try assumption. intros kv Hkv; exact Hkv.
  - rewrite diff_vset by exact Hs. cbn [fst]. apply A_diff_set.
  - rewrite diff_vfrozen by exact Hs. cbn [fst]. apply A_diff_set.
Qed.

End AddedUnresolved.

Section MutualId.
Variable hatom : atom -> pystr.
Variable udiff : pystr -> pystr -> pystr.
Variable ops : path -> list value -> list value -> list opcode.
Variable skip excl : path -> bool.
Variable c : cfg.

Theorem positional_mutual_id t1 t2 :
  zip c = true -> wf t1 = true ->
  mutual (fst (diff hatom udiff ops skip excl c t1 t2 [] [])) = fst (diff hatom udiff ops skip excl c t1 t2 [] []).
Proof.
  intros Hz W1. apply mutual_id. intros a r Ha Hr Ka Kr E.
  pose proof (added_unresolved hatom udiff ops skip excl c Hz t1 t1 t2 [] [] W1 eq_refl) as HA.
  pose proof HA as HR.
  eapply Forall_forall in HA; [|exact Ha]. eapply Forall_forall in HR; [|exact Hr].
  destruct HA as [HA _], HR as [_ HR]. specialize (HA Ka). destruct (HR Kr) as [x Rx].
  rewrite E in HA. congruence.
Qed.

End MutualId.

(* ------------------------------------------------------------------ *)
(** * Part 2: the text view of the positional diff is the specification *)

Lemma fst_run_diff hatom udiff ops skip excl c t1 t2 :
  fst (run_diff hatom udiff ops skip excl c t1 t2) = mutual (fst (diff hatom udiff ops skip excl c t1 t2 [] [])).
Proof. unfold run_diff. destruct (diff _ _ _ _ _ _ _ _ _ _); reflexivity. Qed.

Lemma go_common_cons c d kvs2 k2 p1 p2 k v1 r :
  go_common c d kvs2 k2 p1 p2 ((k, v1) :: r) =
  if keep_key c k then
    match find (py_eq k) k2 with
    | Some k' => match assoc k' kvs2 with
                 | Some v2 => app2 (d v1 v2 (snoc p1 (PKey k')) (snoc p2 (PKey k'))) (go_common c d kvs2 k2 p1 p2 r)
                 | None => go_common c d kvs2 k2 p1 p2 r
                 end
    | None => go_common c d kvs2 k2 p1 p2 r
    end
  else go_common c d kvs2 k2 p1 p2 r.
Proof. reflexivity. Qed.

Lemma go_list_nil skip d p1 p2 ys i : go_list skip d p1 p2 [] ys i = (added_from skip ys i p1 p2, []).
Proof. reflexivity. Qed.
Lemma go_list_cons_nil skip d p1 p2 x xs i :
  go_list skip d p1 p2 (x :: xs) [] i = (removed_from skip (x :: xs) i p1 p2, []).
Proof. reflexivity. Qed.
Lemma go_list_cons_cons skip d p1 p2 x xs y ys i :
  go_list skip d p1 p2 (x :: xs) (y :: ys) i =
  app2 (d x y (snoc p1 (PIdx i)) (snoc p2 (PIdx i))) (go_list skip d p1 p2 xs ys (S i)).
Proof. reflexivity. Qed.

Lemma new_path_same xrepr e : ep1 e = ep2 e -> new_path_of xrepr e = None.
Proof. unfold new_path_of. intros ->. rewrite pystr_eqb_refl. reflexivity. Qed.

Lemma find_fst_filter (keep : atom -> bool) (k : atom) (l : list (atom * value)) :
  (forall k', py_eq k k' = true -> keep k' = true) ->
  find (py_eq k) (filter keep (map fst l)) = option_map fst (find (fun kv => py_eq k (fst kv)) l).
Proof.
  intros H. induction l as [|[k0 v0] l IH]; cbn; [reflexivity|].
  destruct (py_eq k k0) eqn:E.
  - rewrite (H k0 E). cbn. rewrite E. reflexivity.
  - destruct (keep k0); cbn; [rewrite E|]; exact IH.
Qed.

Lemma nodup_atoms_NoDup l : nodup_atoms l = true -> NoDup l.
Proof.
  induction l as [|a l IH]; cbn; intros H; constructor; apply andb_true_iff in H as [H1 H2].
  - intros Hin. apply negb_true_iff in H1.
    assert (mem_atom a l = true) by (apply mem_atom_In; exists a; split; [exact Hin|apply py_eq_refl]). congruence.
  - apply IH. exact H2.
Qed.

(* the leaf guard of C03: a datetime leaf is already aware-UTC (datetime_normalize is the identity on it) *)
Definition dt_utc (a : atom) : bool :=
  match a with
  | ADt _ o => optz_eqb o (Some 0%Z)
  | _ => true
  end.
Lemma dt_utc_norm a : dt_utc a = true -> dt_norm a = a.
Proof.
  destruct a as [| | | | | |us o| | | |]; try reflexivity. cbn [dt_utc]. intros H. apply optz_eqb_eq in H. subst o.
  cbn [dt_norm]. rewrite Z.mul_0_l, Z.sub_0_r. reflexivity.
Qed.

Section Positional.
Variable xrepr xstr : atom -> pystr.
Variable hatom : atom -> pystr.
Variable udiff : pystr -> pystr -> pystr.
Variable ops : path -> list value -> list value -> list opcode.
Variable excl : path -> bool.
Variable d : nat.
Variable ip : bool.
Variable ok : atom -> bool.
Hypothesis Hinj : forall a b, ok a = true -> ok b = true -> hatom a = hatom b -> a = b.
Notation c := (mkCfg true 0 d ip).
Notation guard := (inputs_ok any_atom ok dt_utc).
Notation diff := (diff hatom udiff ops noskip excl c).
Notation spec := (spec xrepr xstr udiff ip).
Notation tv := (text_view xrepr xstr 2).
Notation render := (render xrepr).
Notation set_item_text := (set_item_text xrepr xstr).
Notation spec_sets := (spec_sets xrepr xstr).

Local Opaque XuTextView.render XuTextView.set_item_text pystr_eqb.

Lemma keep_visible k : keep_key c k = visible ip k.
Proof.
  unfold keep_key, visible. cbn [ignore_private]. f_equal. f_equal.
  destruct k as [| | | |s|s| | | | |]; try reflexivity.
  destruct s as [|c1 [|c2 r]]; cbn; try reflexivity.
  - rewrite andb_false_r. reflexivity.
  - rewrite andb_true_r, (N.eqb_sym c1), (N.eqb_sym c2). reflexivity.
Qed.

Lemma tv_report_type p a b :
  tv (report noskip KType p p (Some a) (Some b) None) =
  [TType (render p) (type_of a) (type_of b) None (Some (a, b))].
Proof. unfold report, text_view. cbn. rewrite new_path_same by reflexivity. reflexivity. Qed.

Lemma tv_report_value p a b dd :
  tv (report noskip KValue p p (Some a) (Some b) dd) = [TValue (render p) a b None dd].
Proof. unfold report, text_view. cbn. rewrite new_path_same by reflexivity. reflexivity. Qed.

Lemma tv_diff_atom a b p :
  dt_utc a = true -> dt_utc b = true ->
  ty_eqb (atom_ty a) (atom_ty b) = true ->
  tv (diff_atom udiff noskip a b p p) = spec (VAtom a) (VAtom b) p.
Proof.
  intros Ua Ub T. rewrite spec_atom by exact T. unfold diff_atom. rewrite T. cbn [negb].
  destruct a as [|x|x|x|s|s|u1 o1|x|u1 o1|x|m1 e1], b as [|y|y|y|t|t|u2 o2|y|u2 o2|y|m2 e2]; try discriminate T;
    try (destruct (py_eq _ _); [reflexivity|apply tv_report_value]).
  - unfold diff_str. replace (py_eq (AStr s) (AStr t)) with (pystr_eqb s t) by reflexivity.
    destruct (pystr_eqb s t); [reflexivity|]. cbn [andb].
    unfold has_nl, has_char, text_diff, multiline.
    destruct (existsb (N.eqb 10) s || existsb (N.eqb 10) t); rewrite tv_report_value; reflexivity.
  - unfold diff_str. replace (py_eq (ABytes s) (ABytes t)) with (pystr_eqb s t) by reflexivity.
    destruct (pystr_eqb s t); [reflexivity|].
    unfold has_nl, has_char, text_diff, multiline, is_ascii, ascii_only.
    destruct (forallb (fun ch : N => (ch <? 128)%N) s && forallb (fun ch : N => (ch <? 128)%N) t &&
              (existsb (N.eqb 10) s || existsb (N.eqb 10) t)); rewrite tv_report_value; reflexivity.
  - rewrite (dt_utc_norm _ Ua), (dt_utc_norm _ Ub).
    destruct (py_eq (ADt u1 o1) (ADt u2 o2)); [reflexivity|apply tv_report_value].
Qed.

Lemma tv_added_from ys i p : tv (added_from noskip ys i p p) = tail_items xrepr TIterAdd p ys i.
Proof.
  revert i; induction ys as [|y ys IH]; intros i; [reflexivity|].
  cbn [added_from tail_items]. rewrite text_view_app, IH. reflexivity.
Qed.
Lemma tv_removed_from xs i p : tv (removed_from noskip xs i p p) = tail_items xrepr TIterRem p xs i.
Proof.
  revert i; induction xs as [|x xs IH]; intros i; [reflexivity|].
  cbn [removed_from tail_items]. rewrite text_view_app, IH. reflexivity.
Qed.

(* sets: with an injective item hash the hash-based difference is the member difference *)
Lemma hash_mem y xs : ok y = true -> forallb ok xs = true ->
  existsb (pystr_eqb (hatom y)) (map hatom xs) = member y xs.
Proof.
  intros Oy. unfold member. induction xs as [|x xs IH]; cbn; intros O; [reflexivity|].
  apply andb_true_iff in O as [Ox O]. rewrite (IH O). f_equal.
  destruct (atom_eqb y x) eqn:E.
  - apply atom_eqb_eq in E. subst. apply pystr_eqb_refl.
  - destruct (pystr_eqb (hatom y) (hatom x)) eqn:E2; [|reflexivity].
    apply pystr_eqb_eq in E2. apply (Hinj _ _ Oy Ox) in E2. subst. rewrite atom_eqb_refl in E. discriminate.
Qed.

Lemma first_per_hash_id l : forall s, NoDup l -> (forall a, In a l -> ~ In a s) ->
  forallb ok l = true -> forallb ok s = true ->
  first_per_hash hatom l (map hatom s) = l.
Proof.
  induction l as [|a l IH]; intros s ND Dis Ol Os; cbn; [reflexivity|].
  inversion ND as [|a' l' Hnin ND']; subst. cbn in Ol. apply andb_true_iff in Ol as [Oa Ol].
  rewrite (hash_mem a s Oa Os). unfold member.
  destruct (existsb (atom_eqb a) s) eqn:E.
  - exfalso. apply existsb_exists in E as (b & Hb & Eb). apply atom_eqb_eq in Eb. subst.
    apply (Dis b); [left; reflexivity|exact Hb].
  - f_equal. change (hatom a :: map hatom s) with (map hatom (a :: s)). apply IH; [exact ND'| |exact Ol|cbn; rewrite Oa; exact Os].
    intros b Hb [Hs|Hs]; [subst; contradiction|]. apply (Dis b); [right; exact Hb|exact Hs].
Qed.

Lemma tv_diff_set xs ys p :
  nodup_atoms xs = true -> nodup_atoms ys = true ->
  forallb ok xs = true -> forallb ok ys = true ->
  tv (diff_set hatom noskip xs ys p p) = spec_sets xs ys p.
Proof.
  intros N1 N2 O1 O2. unfold diff_set, spec_sets.
  change (@nil pystr) with (map hatom []).
  rewrite !first_per_hash_id by (try (apply nodup_atoms_NoDup; assumption); try assumption; try reflexivity; intros a _ []).
  rewrite text_view_app. unfold text_view. rewrite !flat_map_flat_map. f_equal.
  - rewrite <- flat_map_if_filter. apply flat_map_ext_in'. intros y Hy.
    rewrite hash_mem by (try assumption; eapply forallb_forall in O2; eassumption).
    destruct (member y xs); reflexivity.
  - rewrite <- flat_map_if_filter. apply flat_map_ext_in'. intros x Hx.
    rewrite hash_mem by (try assumption; eapply forallb_forall in O1; eassumption).
    destruct (member x ys); reflexivity.
Qed.

Definition IHS (t1 : value) : Prop :=
  forall t2 p, wf t1 = true -> wf t2 = true -> guard t1 = true -> guard t2 = true ->
    tv (fst (diff t1 t2 p p)) = spec t1 t2 p.

Lemma tv_go_list xs : Forall IHS xs -> forall ys i p,
  forallb wf xs = true -> forallb wf ys = true ->
  forallb guard xs = true -> forallb guard ys = true ->
  tv (fst (go_list noskip diff p p xs ys i)) = spec_zip xrepr xstr udiff ip p xs ys i.
Proof.
  induction 1 as [|x xs Hx _ IH]; intros ys i p W1 W2 G1 G2.
  - rewrite go_list_nil. cbn [fst]. rewrite tv_added_from. destruct ys; reflexivity.
  - destruct ys as [|y ys].
    + rewrite go_list_cons_nil. cbn [fst]. rewrite tv_removed_from. reflexivity.
    + rewrite go_list_cons_cons. unfold app2. cbn [fst]. rewrite text_view_app.
      cbn in W1, W2, G1, G2.
      apply andb_true_iff in W1 as [Wx W1], W2 as [Wy W2], G1 as [Gx G1], G2 as [Gy G2].
      rewrite (Hx y (snoc p (PIdx i)) Wx Wy Gx Gy), (IH ys (S i) p W1 W2 G1 G2). reflexivity.
Qed.

Lemma tv_go_common kvs2 p :
  nodup_atoms (map fst kvs2) = true -> forallb (fun kv => wf (snd kv)) kvs2 = true ->
  forallb (fun kv => any_atom (fst kv) && guard (snd kv)) kvs2 = true ->
  forall l, forallb (fun kv => wf (snd kv)) l = true ->
  forallb (fun kv => any_atom (fst kv) && guard (snd kv)) l = true ->
  Forall (fun kv => IHS (snd kv)) l ->
  tv (fst (go_common c diff kvs2 (keys_of c kvs2) p p l)) = spec_common xrepr xstr udiff ip kvs2 p l.
Proof.
  intros N2 W2 G2. induction l as [|[k v1] l IH]; intros W1 G1 HI; [reflexivity|].
  apply Forall_cons_iff in HI as [Hk HI']. cbn in W1, G1.
  apply andb_true_iff in W1 as [Wv W1], G1 as [Gv G1].
  specialize (IH W1 G1 HI'). rewrite go_common_cons. cbn [spec_common].
  rewrite keep_visible. destruct (visible ip k) eqn:Vk; [|exact IH].
  unfold keys_of. rewrite find_fst_filter.
  2:{ intros k' E. rewrite <- (keep_key_py_eq c k k' E), keep_visible. exact Vk. }
  destruct (find (fun kv => py_eq k (fst kv)) kvs2) as [[k' v2]|] eqn:F; cbn [option_map fst]; [|exact IH].
  apply find_some in F as [Hin E]. cbn [fst] in E.
  rewrite (assoc_nodup kvs2 k' v2 k' N2 Hin (py_eq_refl k')).
  unfold app2. cbn [fst]. rewrite text_view_app. fold (keys_of c kvs2). rewrite IH. f_equal.
  cbn in Hk. apply Hk; [exact Wv| |exact Gv|].
  - eapply forallb_forall in W2; [|exact Hin]. exact W2.
  - eapply forallb_forall in G2; [|exact Hin]. exact G2.
Qed.

Lemma tv_dict_added kvs1 kvs2 p :
  nodup_atoms (map fst kvs2) = true ->
  tv (flat_map (fun k => if mem_atom k (keys_of c kvs1) then []
        else report noskip KDictAdd (snoc p (PKey k)) (snoc p (PKey k)) None (assoc k kvs2) None) (keys_of c kvs2))
  = flat_map (fun kv => if visible ip (fst kv) && negb (has_key (fst kv) kvs1)
                        then [TDictAdd (render (at_key p (fst kv))) (Some (snd kv))] else []) kvs2.
Proof.
  intros N2. unfold text_view. rewrite flat_map_flat_map. unfold keys_of at 2. rewrite flat_map_filter_fst.
  apply flat_map_ext_in'. intros [k v] Hin. cbn [fst snd]. rewrite keep_visible.
  destruct (visible ip k) eqn:Vk; [|reflexivity].
  rewrite mem_keys_of by (rewrite keep_visible; exact Vk). unfold has_key.
  destruct (mem_atom k (map fst kvs1)); [reflexivity|].
  rewrite (assoc_nodup kvs2 k v k N2 Hin (py_eq_refl k)). reflexivity.
Qed.

Lemma tv_dict_removed kvs1 kvs2 p :
  nodup_atoms (map fst kvs1) = true ->
  tv (flat_map (fun k => if mem_atom k (keys_of c kvs2) then []
        else report noskip KDictRem (snoc p (PKey k)) (snoc p (PKey k)) (assoc k kvs1) None None) (keys_of c kvs1))
  = flat_map (fun kv => if visible ip (fst kv) && negb (has_key (fst kv) kvs2)
                        then [TDictRem (render (at_key p (fst kv))) (Some (snd kv))] else []) kvs1.
Proof.
  intros N1. unfold text_view. rewrite flat_map_flat_map. unfold keys_of at 2. rewrite flat_map_filter_fst.
  apply flat_map_ext_in'. intros [k v] Hin. cbn [fst snd]. rewrite keep_visible.
  destruct (visible ip k) eqn:Vk; [|reflexivity].
  rewrite mem_keys_of by (rewrite keep_visible; exact Vk). unfold has_key.
  destruct (mem_atom k (map fst kvs2)); [reflexivity|].
  rewrite (assoc_nodup kvs1 k v k N1 Hin (py_eq_refl k)). reflexivity.
Qed.

Theorem positional_diff_is_spec : forall t1, IHS t1.
Proof.
  induction t1 as [a|xs IH|xs IH|kvs IH|xs|xs] using value_ind'; intros t2 p W1 W2 G1 G2;
    (match goal with |- context [diff ?t1 t2 _ _] => destruct (ty_eqb (type_of t1) (type_of t2)) eqn:T end;
     [|rewrite diff_type by (try reflexivity; exact T); rewrite spec_type by exact T; cbn [fst]; apply tv_report_type]);
    pose proof T as T'; apply ty_eqb_true in T'; destruct t2; try discriminate T'; try (destruct a; discriminate T').
  - rewrite diff_atom_eq by reflexivity. cbn [type_of] in T. rewrite T. cbn [negb fst]. apply tv_diff_atom; assumption.
  - rewrite diff_list by reflexivity. unfold seq_body. cbn [zip negb andb]. rewrite spec_list.
    apply tv_go_list; assumption.
  - rewrite diff_tuple by reflexivity. unfold seq_body. cbn [zip negb andb]. rewrite spec_tuple.
    apply tv_go_list; assumption.
  - rewrite diff_dict by reflexivity. unfold dict_body, dict_shortcut. cbn [thr_num Nat.eqb fst].
    cbn in W1, W2. apply andb_true_iff in W1 as [N1 W1], W2 as [N2 W2].
    rewrite spec_dict, !text_view_app, tv_dict_added, tv_dict_removed by assumption.
    rewrite tv_go_common by assumption. reflexivity.
  - rewrite diff_vset by reflexivity. cbn [fst]. rewrite spec_vset. cbn in G1, G2. apply tv_diff_set; assumption.
  - rewrite diff_vfrozen by reflexivity. cbn [fst]. rewrite spec_vfrozen. cbn in G1, G2. apply tv_diff_set; assumption.
Qed.

Theorem positional_run_is_spec_guarded t1 t2 :
  wf t1 = true -> wf t2 = true -> guard t1 = true -> guard t2 = true ->
  text_view xrepr xstr 2 (fst (run_diff hatom udiff ops noskip excl c t1 t2)) = spec_diff xrepr xstr udiff ip t1 t2.
Proof.
  intros W1 W2 G1 G2. rewrite fst_run_diff.
  rewrite positional_mutual_id by (try assumption; reflexivity).
  apply positional_diff_is_spec; assumption.
Qed.

End Positional.

(* an item hash that is injective everywhere: no guard on the inputs *)
Theorem positional_run_is_spec xrepr xstr hatom udiff ops excl d ip t1 t2 :
  (forall a b, hatom a = hatom b -> a = b) ->
  wf t1 = true -> wf t2 = true ->
  inputs_ok any_atom any_atom dt_utc t1 = true -> inputs_ok any_atom any_atom dt_utc t2 = true ->
  text_view xrepr xstr 2 (fst (run_diff hatom udiff ops noskip excl (mkCfg true 0 d ip) t1 t2)) = spec_diff xrepr xstr udiff ip t1 t2.
Proof.
  intros Hinj W1 W2 G1 G2.
  apply (positional_run_is_spec_guarded xrepr xstr hatom udiff ops excl d ip any_atom); try assumption.
  intros a b _ _. apply Hinj.
Qed.


(* ------------------------------------------------------------------ *)
(** * Witnesses over the extended universe *)

Definition nostr (_ : atom) : pystr := [].

(* the guards are satisfiable on a pair with every exotic kind, and the definition is not trivial there:
   a changed UTC datetime, a Decimal against an == float (type change), a longer tuple of times, a date set *)
Definition xs_t1 : value :=
  VDict [(AStr [97%N], VList [VAtom (ADt 100 (Some 0%Z)); VAtom (ADec 15 (-1)); VAtom (ATd 5)]);
         (ADate 3, VTuple [VAtom (ATime 1 None)]);
         (AStr [115%N], VSet [ADate 1; ADec 1 0])].
Definition xs_t2 : value :=
  VDict [(AStr [97%N], VList [VAtom (ADt 101 (Some 0%Z)); VAtom (AHalf 3); VAtom (ATd 5)]);
         (ADate 3, VTuple [VAtom (ATime 1 None); VAtom (ATime 2 (Some 60%Z))]);
         (AStr [115%N], VSet [ADec 1 0; ADate 2])].
Example positional_guards_satisfiable :
  wf xs_t1 = true /\ wf xs_t2 = true /\
  inputs_ok any_atom any_atom dt_utc xs_t1 = true /\ inputs_ok any_atom any_atom dt_utc xs_t2 = true /\
  length (spec_diff nostr nostr (fun _ _ => []) true xs_t1 xs_t2) = 5 /\
  text_view nostr nostr 2 (fst (run_diff inj_hash (fun _ _ => []) one_block noskip noskip (mkCfg true 0 1 true) xs_t1 xs_t2))
  = spec_diff nostr nostr (fun _ _ => []) true xs_t1 xs_t2.
Proof. repeat split; vm_compute; reflexivity. Qed.

(* without the leaf guard the statement is false of the faithful model:
   (a) the values DeepDiff reports for a changed datetime are the NORMALISED ones (a naive datetime comes back
       with tzinfo=utc, an aware one moved to UTC), the definition reports the input's values *)
Definition nm_t1 : value := VList [VAtom (ADt 1715984134000000 None)].
Definition nm_t2 : value := VList [VAtom (ADt 1715984135000000 None)].
Lemma positional_is_spec_refuted_normalised :
  wf nm_t1 = true /\ wf nm_t2 = true /\
  text_view nostr nostr 2 (fst (run_diff inj_hash (fun _ _ => []) one_block noskip noskip (mkCfg true 0 1 true) nm_t1 nm_t2))
    = [TValue (render nostr [PIdx 0]) (VAtom (ADt 1715984134000000 (Some 0%Z))) (VAtom (ADt 1715984135000000 (Some 0%Z))) None None] /\
  spec_diff nostr nostr (fun _ _ => []) true nm_t1 nm_t2
    = [TValue (render nostr [PIdx 0]) (VAtom (ADt 1715984134000000 None)) (VAtom (ADt 1715984135000000 None)) None None].
Proof. repeat split; vm_compute; reflexivity. Qed.

(* (b) finding C02-NAIVE-AWARE: a naive datetime against the aware UTC one with the same wall clock - nothing is
       reported, the definition reports a values_changed (they are not ==) *)
Lemma positional_is_spec_refuted_naive_aware :
  text_view nostr nostr 2 (fst (run_diff inj_hash (fun _ _ => []) one_block noskip noskip (mkCfg true 0 1 true) (VList [VAtom na_naive]) (VList [VAtom na_aware]))) = [] /\
  length (spec_diff nostr nostr (fun _ _ => []) true (VList [VAtom na_naive]) (VList [VAtom na_aware])) = 1.
Proof. split; vm_compute; reflexivity. Qed.

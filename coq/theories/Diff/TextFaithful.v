(** C04 at the level of the TEXT view: what a user reads in the result dict.

    (1) [run_diff_same_paths]: only changed values, changed types and moved items can
        have a t2 path different from their t1 path (they come out of a difflib
        'replace' block); every other reported level has one path for both sides.
    (2) [text_faithful]: for every entry of the verbose_level=2 text view the path
        STRING extracts (deepdiff.extract, Path/PathModel.v) from t1 the reported old
        value / removed item and - through new_path when it is given - from t2 the
        reported new value / added item; an added dictionary key cannot be extracted
        from t1 nor a removed one from t2.  The guard [keys_ok] is C09's guard on
        the dict keys of the inputs (string keys with both quote characters or ending
        in the escape character do not round-trip through a path string: C09 findings).
    (3) [text_v1_faithful_partial] / [text_v1_new_path_refuted]: at verbose_level=1 the
        same holds for the entries whose two paths agree, and fails for the others
        (new_path is only emitted at verbose_level=2): finding K18. *)
From Coq Require Import List ZArith NArith Bool Arith Lia.
Import ListNotations.
From DD Require Import Base.PyStr Base.Value Base.ValueFacts Path.PathModel Path.PathProofs
  Diff.Tree Diff.DiffModel Diff.DiffFacts Diff.DiffFaithful Diff.DiffPaths Diff.TextView.

Definition shifted (k : rkind) : Prop := k = KValue \/ k = KType \/ k = KIterMoved.
Definition SP (e : entry) : Prop := ep1 e = ep2 e \/ shifted (ekind e).

Section SamePaths.
Variable hatom : atom -> pystr.
Variable udiff : pystr -> pystr -> pystr.
Variable ops : path -> list value -> list value -> list opcode.
Variable skip excl : path -> bool.
Variable c : cfg.
Notation diff := (diff hatom udiff ops skip excl c).
Notation FSP := (Forall SP).

Lemma SP_report k p1 p2 a b d : p1 = p2 \/ shifted k -> FSP (report skip k p1 p2 a b d).
Proof. intros H. unfold report. destruct (skip p1); constructor; [exact H|constructor]. Qed.

Lemma SP_diff_atom a b p1 p2 : FSP (diff_atom udiff skip a b p1 p2).
Proof.
  unfold diff_atom. destruct (skip p1); [constructor|].
  assert (X : forall k x y d, (k = KType \/ k = KValue) -> FSP (report skip k p1 p2 x y d)).
  { intros k x y d Hk. apply SP_report. right. unfold shifted. tauto. }
  destruct (negb _); [apply X; left; reflexivity|].
  destruct a, b; try (destruct (py_eq _ _); [constructor|apply X; right; reflexivity]).
  - destruct (diff_str udiff false s s0) as [ch d]. destruct ch; [apply X; right; reflexivity|constructor].
  - destruct (diff_str udiff true s s0) as [ch d]. destruct ch; [apply X; right; reflexivity|constructor].
Qed.

Lemma SP_removed_from xs : forall i p, FSP (removed_from skip xs i p p).
Proof.
  induction xs as [|x xs IH]; intros i p; cbn [removed_from]; [constructor|].
  apply Forall_app. split; [apply SP_report; left; reflexivity|apply IH].
Qed.
Lemma SP_added_from ys : forall j p, FSP (added_from skip ys j p p).
Proof.
  induction ys as [|y ys IH]; intros j p; cbn [added_from]; [constructor|].
  apply Forall_app. split; [apply SP_report; left; reflexivity|apply IH].
Qed.

Lemma SP_pairs_leaf xs : forall ys i j p, FSP (pairs_leaf udiff skip xs ys i j p p).
Proof.
  induction xs as [|x xs IH]; intros ys i j p.
  - cbn [pairs_leaf]. apply SP_added_from.
  - destruct ys as [|y ys]; [cbn [pairs_leaf]; apply SP_removed_from|].
    cbn [pairs_leaf]. apply Forall_app. split; [|apply IH].
    destruct (negb (Nat.eqb i j) && py_eq_leaf x y).
    + apply SP_report. right. unfold shifted. tauto.
    + unfold diff_leaf. destruct x; try constructor. destruct y; try constructor. apply SP_diff_atom.
Qed.

Lemma SP_by_opcodes os xs ys p : FSP (by_opcodes udiff skip os xs ys p p).
Proof.
  unfold by_opcodes. apply Forall_forall. intros e He. apply in_flat_map in He as (o & _ & He).
  destruct (otag o).
  - destruct He.
  - eapply Forall_forall in He; [exact He|apply SP_pairs_leaf].
  - eapply Forall_forall in He; [exact He|apply SP_removed_from].
  - eapply Forall_forall in He; [exact He|apply SP_added_from].
Qed.

Lemma SP_default_leaf_list xs ys p : FSP (fst (default_leaf_list udiff ops skip xs ys p p)).
Proof.
  unfold default_leaf_list. destruct (Nat.ltb _ _); [|apply SP_by_opcodes].
  destruct (Nat.leb _ _); cbn [fst]; [apply SP_pairs_leaf|apply SP_by_opcodes].
Qed.

Lemma SP_diff_set xs ys p : FSP (diff_set hatom skip xs ys p p).
Proof.
  unfold diff_set. apply Forall_app. split; apply Forall_forall; intros e He;
    apply in_flat_map in He as (y & _ & He); (destruct (existsb _ _); [destruct He|]);
    unfold report_set in He; (destruct (skip p); [destruct He|]); destruct He as [<-|[]]; left; reflexivity.
Qed.

Definition IHS (t1 : value) : Prop := forall t2 p, FSP (fst (diff t1 t2 p p)).

Lemma S_go_list xs : Forall IHS xs -> forall ys i p, FSP (fst (go_list skip diff p p xs ys i)).
Proof.
  induction 1 as [|x xs Hx _ IH]; intros ys i p.
  - cbn. apply SP_added_from.
  - destruct ys as [|y ys]; [cbn [go_list fst]; apply SP_removed_from|].
    cbn [go_list]. unfold app2. cbn [fst]. apply Forall_app. split; [apply Hx|apply IH].
Qed.

Lemma S_seq_body xs ys p : Forall IHS xs -> FSP (fst (seq_body hatom udiff ops skip excl c xs ys p p)).
Proof.
  intros IH. unfold seq_body. destruct (negb (zip c) && forallb is_atom xs && forallb is_atom ys).
  - pose proof (SP_default_leaf_list xs ys p) as P.
    destruct (default_leaf_list udiff ops skip xs ys p p) as [es rec]. exact P.
  - apply S_go_list. exact IH.
Qed.

Lemma S_go_common kvs2 k2 p l :
  Forall (fun kv => IHS (snd kv)) l -> FSP (fst (go_common c diff kvs2 k2 p p l)).
Proof.
  induction 1 as [|[k v1] l Hk _ IH]; cbn [go_common]; [constructor|].
  destruct (keep_key c k); [|exact IH].
  destruct (find (py_eq k) k2) as [k'|]; [|exact IH].
  destruct (assoc k' kvs2) as [v2|]; [|exact IH].
  unfold app2. cbn [fst]. apply Forall_app. split; [apply Hk|exact IH].
Qed.

Lemma S_dict_body kvs1 kvs2 p : Forall (fun kv => IHS (snd kv)) kvs1 ->
  FSP (fst (dict_body hatom udiff ops skip excl c kvs1 kvs2 p p)).
Proof.
  intros IH. unfold dict_body. destruct (dict_shortcut _ _ _ _ _); cbn [fst].
  - apply SP_report. left. reflexivity.
  - apply Forall_app; split; [|apply Forall_app; split; [|apply S_go_common; exact IH]].
    + apply Forall_forall. intros e He. apply in_flat_map in He as (k & _ & He). destruct (mem_atom k _); [destruct He|].
      eapply Forall_forall in He; [exact He|apply SP_report; left; reflexivity].
    + apply Forall_forall. intros e He. apply in_flat_map in He as (k & _ & He). destruct (mem_atom k _); [destruct He|].
      eapply Forall_forall in He; [exact He|apply SP_report; left; reflexivity].
Qed.

Theorem diff_same_paths : forall t1, IHS t1.
Proof.
  induction t1 as [a|xs IH|xs IH|kvs IH|xs|xs] using value_ind'; intros t2 p;
    (destruct (skip p) eqn:Hs; [rewrite diff_skip by exact Hs; constructor|]);
    (match goal with |- context [diff ?t1 t2 _ _] => destruct (ty_eqb (type_of t1) (type_of t2)) eqn:T end;
     [|rewrite diff_type by assumption; cbn [fst]; apply SP_report; left; reflexivity]);
    apply ty_eqb_true in T; destruct t2; try discriminate T; try (destruct a; discriminate T).
  - rewrite diff_atom_eq by exact Hs. cbn in T. rewrite T.
    replace (ty_eqb (atom_ty a0) (atom_ty a0)) with true by (destruct (atom_ty a0); reflexivity).
    cbn [negb fst]. apply SP_diff_atom.
  - rewrite diff_list by exact Hs. apply S_seq_body; assumption.
  - rewrite diff_tuple by exact Hs. apply S_seq_body; assumption.
  - rewrite diff_dict by exact Hs. apply S_dict_body; assumption.
  - rewrite diff_vset by exact Hs. cbn [fst]. apply SP_diff_set.
  - rewrite diff_vfrozen by exact Hs. cbn [fst]. apply SP_diff_set.
Qed.

Lemma mutual_SP es : FSP es -> FSP (mutual es).
Proof.
  intros H. apply Forall_forall. intros e He. unfold mutual in He. apply in_flat_map in He as (e0 & H0 & He).
  eapply Forall_forall in H; [|exact H0].
  destruct (ekind e0) eqn:K0; try (destruct He as [<-|[]]; exact H).
  - destruct (last_with_path _ _); [destruct He|]. destruct He as [<-|[]]. exact H.
  - destruct (last_with_path (ep1 e0) (filter (is_kind KIterAdd) es)); [|destruct He as [<-|[]]; exact H].
    destruct (last_with_path (ep1 e0) (filter (is_kind KIterRem) es)); [|destruct He as [<-|[]]; exact H].
    destruct He as [<-|[]]. right. cbn. unfold shifted. tauto.
Qed.

Theorem run_diff_same_paths t1 t2 :
  FSP (fst (run_diff hatom udiff ops skip excl c t1 t2)).
Proof.
  unfold run_diff. pose proof (diff_same_paths t1 t2 []) as H.
  destruct (diff t1 t2 [] []) as [es rec]. cbn [fst] in *. apply mutual_SP. exact H.
Qed.

End SamePaths.

(* ------------------------------------------------------------------ *)
(* (2) the text view                                                   *)
(* ------------------------------------------------------------------ *)
Definition keys_ok (v : value) : bool := forallb (fun a => key_ok (PKey a)) (dkeys v).

Definition np_or (np : option pystr) (p : pystr) : pystr := match np with Some q => q | None => p end.

(* what the property demands of one entry of the result dict, in terms of the
   path STRINGS and deepdiff.extract.  [strong]: a changed value really differs. *)
Definition tfaithful (strong : bool) (t1 t2 : value) (te : tentry) : Prop :=
  match te with
  | TType p oty nty np vals =>
      exists a b, extract t1 p = Some a /\ extract t2 (np_or np p) = Some b /\
                  oty = type_of a /\ nty = type_of b /\ oty <> nty /\
                  match vals with Some (x, y) => x = a /\ y = b | None => True end
  | TValue p old new np _ =>
      extract t1 p = Some old /\ extract t2 (np_or np p) = Some new /\
      (strong = true -> py_eqv old new = false)
  | TDictAdd p v => exists b, extract t2 p = Some b /\ extract t1 p = None /\
                              match v with Some x => x = b | None => True end
  | TDictRem p v => exists a, extract t1 p = Some a /\ extract t2 p = None /\
                              match v with Some x => x = a | None => True end
  | TIterAdd p v => extract t2 p = Some v
  | TIterRem p v => extract t1 p = Some v
  | TMoved p np v => exists a, extract t1 p = Some a /\ extract t2 np = Some v /\ py_eqv a v = true
  | TSetAdd s => exists p y sv, s = set_item_text p y /\ extract t2 (render p) = Some sv /\ set_has sv y
  | TSetRem s => exists p x sv, s = set_item_text p x /\ extract t1 (render p) = Some sv /\ set_has sv x
  end.

Lemma keys_from_path_ok K p :
  forallb (fun a => key_ok (PKey a)) K = true -> keys_from K p -> path_ok p = true.
Proof.
  intros HK H. unfold path_ok. apply forallb_forall. intros k Hk.
  unfold keys_from in H. eapply Forall_forall in H; [|exact Hk].
  destruct k as [a|i]; [|reflexivity]. eapply forallb_forall in HK; [exact HK|exact H].
Qed.

(* one entry: from the tree-level statement to the text-level one *)
Lemma text_of_faithful strong t1 t2 verbose e :
  faithful strong t1 t2 e -> SP e -> path_ok (ep1 e) = true -> path_ok (ep2 e) = true ->
  (2 <= verbose \/ render (ep1 e) = render (ep2 e)) ->
  forall te, In te (text_of verbose e) -> tfaithful strong t1 t2 te.
Proof.
  intros F S O1 O2 V te Hte.
  assert (NP : extract t2 (np_or (if Nat.ltb 1 verbose then new_path_of e else None) (render (ep1 e)))
               = resolve t2 (ep2 e)).
  { destruct (Nat.ltb 1 verbose) eqn:L.
    - unfold new_path_of. destruct (pystr_eqb (render (ep1 e)) (render (ep2 e))) eqn:Q; cbn [np_or].
      + apply pystr_eqb_eq in Q. rewrite Q. apply extract_render. exact O2.
      + apply extract_render. exact O2.
    - cbn [np_or]. destruct V as [V|V]; [apply Nat.ltb_ge in L; lia|]. rewrite V. apply extract_render. exact O2. }
  assert (SAME : shifted (ekind e) -> False -> True) by tauto. clear SAME.
  unfold faithful in F. unfold text_of in Hte. destruct (ekind e) eqn:K.
  - (* KType *)
    destruct F as (a & b & E1 & E2 & R1 & R2 & Hty). rewrite E1, E2 in Hte. cbn [opt_val] in Hte.
    destruct Hte as [<-|[]]. cbn [tfaithful]. exists a, b.
    rewrite NP, (extract_render t1 _ O1). repeat split; try assumption; try reflexivity.
    destruct (Nat.ltb 0 verbose); [split; reflexivity|exact I].
  - (* KValue *)
    destruct F as (a & b & E1 & E2 & R1 & R2 & Hne). rewrite E1, E2 in Hte. cbn [opt_val] in Hte.
    destruct (Nat.ltb 0 verbose); [|destruct Hte]. destruct Hte as [<-|[]]. cbn [tfaithful].
    rewrite NP, (extract_render t1 _ O1). repeat split; assumption.
  - (* KDictAdd *)
    destruct F as (b & E1 & E2 & R2 & R1). destruct Hte as [<-|[]]. cbn [tfaithful].
    assert (P : ep1 e = ep2 e) by (destruct S as [S|[S|[S|S]]]; [exact S|rewrite K in S; discriminate..]).
    exists b. rewrite (extract_render t1 _ O1), (extract_render t2 _ O1). rewrite <- P in R2.
    repeat split; try assumption.
    destruct (Nat.leb 2 verbose); [rewrite E2; reflexivity|exact I].
  - (* KDictRem *)
    destruct F as (a & E1 & E2 & R1 & R2). destruct Hte as [<-|[]]. cbn [tfaithful].
    assert (P : ep1 e = ep2 e) by (destruct S as [S|[S|[S|S]]]; [exact S|rewrite K in S; discriminate..]).
    exists a. rewrite (extract_render t1 _ O1), (extract_render t2 _ O1). rewrite <- P in R2.
    repeat split; try assumption.
    destruct (Nat.leb 2 verbose); [rewrite E1; reflexivity|exact I].
  - (* KIterAdd *)
    destruct F as (b & E1 & E2 & R2 & P). rewrite E2 in Hte. destruct Hte as [<-|[]]. cbn [tfaithful opt_val].
    rewrite (extract_render t2 _ O1), P. exact R2.
  - (* KIterRem *)
    destruct F as (a & E1 & E2 & R1 & P). rewrite E1 in Hte. destruct Hte as [<-|[]]. cbn [tfaithful opt_val].
    rewrite (extract_render t1 _ O1). exact R1.
  - (* KIterMoved *)
    destruct F as (a & b & E1 & E2 & R1 & R2 & Q). rewrite E2 in Hte.
    destruct (Nat.ltb 1 verbose); [|destruct Hte]. destruct Hte as [<-|[]]. cbn [tfaithful opt_val].
    exists a. rewrite (extract_render t1 _ O1), (extract_render t2 _ O2). repeat split; assumption.
  - (* KSetAdd *)
    destruct F as (y & s & E1 & E2 & R2 & Hs). rewrite E2 in Hte. destruct Hte as [<-|[]]. cbn [tfaithful opt_atom].
    assert (P : ep1 e = ep2 e) by (destruct S as [S|[S|[S|S]]]; [exact S|rewrite K in S; discriminate..]).
    exists (ep1 e), y, s. rewrite (extract_render t2 _ O1), P. repeat split; assumption.
  - (* KSetRem *)
    destruct F as (x & s & E1 & E2 & R1 & Hs). rewrite E1 in Hte. destruct Hte as [<-|[]]. cbn [tfaithful opt_atom].
    exists (ep1 e), x, s. rewrite (extract_render t1 _ O1). repeat split; assumption.
  - destruct F.
Qed.

Section TextFaithful.
Variable hatom : atom -> pystr.
Variable udiff : pystr -> pystr -> pystr.
Variable ops : path -> list value -> list value -> list opcode.
Variable skip excl : path -> bool.
Variable c : cfg.
Notation run := (run_diff hatom udiff ops skip excl c).

Lemma entry_paths_ok t1 t2 e :
  keys_ok t1 = true -> keys_ok t2 = true -> In e (fst (run t1 t2)) ->
  path_ok (ep1 e) = true /\ path_ok (ep2 e) = true.
Proof.
  intros K1 K2 He.
  destruct (run_diff_path_keys hatom udiff ops skip excl c t1 t2) as [A _].
  eapply Forall_forall in A; [|exact He]. destruct A as [A1 A2].
  assert (HK : forallb (fun a => key_ok (PKey a)) (dkeys t1 ++ dkeys t2) = true).
  { rewrite forallb_app. unfold keys_ok in K1, K2. rewrite K1, K2. reflexivity. }
  split; eapply keys_from_path_ok; eassumption.
Qed.

(* verbose_level = 2 (and above): every entry of the text view, full statement
   except "a changed value really differs" (K17) *)
Theorem text_faithful verbose t1 t2 :
  2 <= verbose -> thr_num c <= thr_den c -> wf t1 = true -> wf t2 = true ->
  keys_ok t1 = true -> keys_ok t2 = true ->
  forall te, In te (text_view verbose (fst (run t1 t2))) -> tfaithful false t1 t2 te.
Proof.
  intros V Hthr W1 W2 K1 K2 te Hte. unfold text_view in Hte. apply in_flat_map in Hte as (e & He & Hte).
  destruct (run_diff_faithful hatom udiff ops skip excl c t1 t2 Hthr W1 W2 e He) as [F _].
  destruct (entry_paths_ok t1 t2 e K1 K2 He) as [O1 O2].
  pose proof (run_diff_same_paths hatom udiff ops skip excl c t1 t2) as S.
  eapply Forall_forall in S; [|exact He].
  eapply text_of_faithful; try eassumption. left. exact V.
Qed.

(* ... and a changed value really differs for the entries that [diff] itself made
   (all but those manufactured by mutual_add_removes) *)
Theorem text_faithful_strong_partial verbose t1 t2 :
  2 <= verbose -> thr_num c <= thr_den c -> wf t1 = true -> wf t2 = true ->
  keys_ok t1 = true -> keys_ok t2 = true ->
  forall e, In e (fst (run t1 t2)) -> In e (fst (diff hatom udiff ops skip excl c t1 t2 [] [])) ->
  forall te, In te (text_of verbose e) -> tfaithful true t1 t2 te.
Proof.
  intros V Hthr W1 W2 K1 K2 e He Hd te Hte.
  destruct (run_diff_faithful hatom udiff ops skip excl c t1 t2 Hthr W1 W2 e He) as [_ F].
  destruct (entry_paths_ok t1 t2 e K1 K2 He) as [O1 O2].
  pose proof (run_diff_same_paths hatom udiff ops skip excl c t1 t2) as S.
  eapply Forall_forall in S; [|exact He].
  eapply text_of_faithful; try eassumption; [apply F; exact Hd|left; exact V].
Qed.

(* verbose_level 0 / 1: the entries whose two paths print the same *)
Theorem text_v1_faithful_partial verbose t1 t2 :
  thr_num c <= thr_den c -> wf t1 = true -> wf t2 = true ->
  keys_ok t1 = true -> keys_ok t2 = true ->
  forall e, In e (fst (run t1 t2)) -> render (ep1 e) = render (ep2 e) ->
  forall te, In te (text_of verbose e) -> tfaithful false t1 t2 te.
Proof.
  intros Hthr W1 W2 K1 K2 e He Hp te Hte.
  destruct (run_diff_faithful hatom udiff ops skip excl c t1 t2 Hthr W1 W2 e He) as [F _].
  destruct (entry_paths_ok t1 t2 e K1 K2 He) as [O1 O2].
  pose proof (run_diff_same_paths hatom udiff ops skip excl c t1 t2) as S.
  eapply Forall_forall in S; [|exact He].
  eapply text_of_faithful; try eassumption. right. exact Hp.
Qed.

(* everything except changed values / changed types / moved items has equal paths,
   so at verbose_level 1 only values_changed and type_changes can go wrong *)
Theorem text_v1_faithful_unshifted verbose t1 t2 :
  thr_num c <= thr_den c -> wf t1 = true -> wf t2 = true ->
  keys_ok t1 = true -> keys_ok t2 = true ->
  forall e, In e (fst (run t1 t2)) -> ~ shifted (ekind e) ->
  forall te, In te (text_of verbose e) -> tfaithful false t1 t2 te.
Proof.
  intros Hthr W1 W2 K1 K2 e He Hn. apply text_v1_faithful_partial; try assumption.
  pose proof (run_diff_same_paths hatom udiff ops skip excl c t1 t2) as S.
  eapply Forall_forall in S; [|exact He]. destruct S as [S|S]; [rewrite S; reflexivity|contradiction].
Qed.

End TextFaithful.

(* K18: ['a','b','c'] -> ['x','a','q','c'] at verbose_level=1: values_changed root[1]
   'b' -> 'q' without new_path; root[1] of t2 is 'a'. *)
Definition k18_t1 : value := VList (map (fun ch => VAtom (AStr [ch])) [97; 98; 99]%N).
Definition k18_t2 : value := VList (map (fun ch => VAtom (AStr [ch])) [120; 97; 113; 99]%N).
Definition k18_ops (_ : path) (_ _ : list value) : list opcode :=
  [mkOp OInsert 0 0 0 1; mkOp OEqual 0 1 1 2; mkOp OReplace 1 2 2 3; mkOp OEqual 2 3 3 4].
Definition k18_run := run_diff (fun _ => []) (fun _ _ => []) k18_ops (fun _ => false) (fun _ => false)
                               (mkCfg false 33 100 true) k18_t1 k18_t2.

Lemma text_v1_new_path_refuted :
  exists te, In te (text_view 1 (fst k18_run)) /\ ~ tfaithful false k18_t1 k18_t2 te.
Proof.
  exists (TValue (render [PIdx 1]) (VAtom (AStr [98%N])) (VAtom (AStr [113%N])) None None).
  split; [vm_compute; tauto|]. cbn [tfaithful np_or]. intros (_ & H & _). vm_compute in H. discriminate.
Qed.
(* ... while the verbose_level=2 entry of the same run is faithful (by [text_faithful]) and carries new_path *)
Lemma text_v2_new_path_witness :
  In (TValue (render [PIdx 1]) (VAtom (AStr [98%N])) (VAtom (AStr [113%N])) (Some (render [PIdx 2])) None)
     (text_view 2 (fst k18_run)).
Proof. vm_compute. tauto. Qed.

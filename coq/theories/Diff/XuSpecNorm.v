(** C03 over the extended universe WITHOUT the leaf guard [dt_utc]: the EXACT positional result.

    [spec_leaf xrepr xstr ip leaf] is Diff/XuSpec.v's recursive definition [spec] with the rule for
    two scalar LEAVES of one type as a parameter; [spec_leaf raw_leaf] is [spec] ([spec_leaf_raw]).
    [spec_n] takes [norm_leaf a b p := raw_leaf (dt_norm a) (dt_norm b) p]: the recursive definition in
    which a naive datetime is read as UTC and datetimes are shown in UTC (for every other scalar
    [dt_norm] is the identity).

    Main theorem [positional_run_is_spec_n]: in positional mode the verbose text view of the model's
    result IS [spec_n], as a LIST, for all well-formed inputs - no condition on the leaves.
    Exactness: [spec_n = spec] exactly when every pair of same-type scalar leaves that the positional
    traversal compares is [dt_fixed] ([leaves_all], [spec_n_is_spec_iff]); the old guarded theorem
    (all datetime leaves aware-UTC) is an instance. *)
From Coq Require Import List ZArith NArith Bool Arith Lia.
Import ListNotations.
From DD Require Import Base.PyStr Path.PathModel Diff.XuValue Diff.XuFacts
  Diff.XuTree Diff.XuModel Diff.XuTextView Diff.XuDiffFacts Diff.XuLemmas Diff.XuEmpty Diff.XuSpec Diff.XuSpecProofs.

(* ------------------------------------------------------------------ *)
(** * The recursive definition, parametrised by the rule for two scalar leaves of one type *)

Section SpecLeaf.
Variable xrepr xstr : atom -> pystr.
Variable ip : bool.
Variable leaf : atom -> atom -> path -> list tentry.
Notation render := (render xrepr).
Notation set_item_text := (set_item_text xrepr xstr).

Fixpoint spec_leaf (t1 t2 : value) (p : path) {struct t1} : list tentry :=
  if negb (ty_eqb (type_of t1) (type_of t2))
  then [TType (render p) (type_of t1) (type_of t2) None (Some (t1, t2))]
  else
  match t1, t2 with
  | VAtom a, VAtom b => leaf a b p
  | VDict kvs1, VDict kvs2 =>
      flat_map (fun kv => if visible ip (fst kv) && negb (has_key (fst kv) kvs1)
                          then [TDictAdd (render (at_key p (fst kv))) (Some (snd kv))] else []) kvs2
      ++ flat_map (fun kv => if visible ip (fst kv) && negb (has_key (fst kv) kvs2)
                             then [TDictRem (render (at_key p (fst kv))) (Some (snd kv))] else []) kvs1
      ++ (fix common (l : list (atom * value)) : list tentry :=
            match l with
            | [] => []
            | (k, v1) :: r =>
                (if visible ip k
                 then match find (fun kv => py_eq k (fst kv)) kvs2 with
                      | Some (k', v2) => spec_leaf v1 v2 (at_key p k')
                      | None => []
                      end
                 else [])
                ++ common r
            end) kvs1
  | VList xs, VList ys | VTuple xs, VTuple ys =>
      (fix zipped (xs ys : list value) (i : nat) {struct xs} : list tentry :=
         match xs, ys with
         | [], _ => tail_items xrepr TIterAdd p ys i
         | _ :: _, [] => tail_items xrepr TIterRem p xs i
         | x :: xs', y :: ys' => spec_leaf x y (at_idx p i) ++ zipped xs' ys' (S i)
         end) xs ys 0
  | VSet xs, VSet ys | VFrozen xs, VFrozen ys =>
      map (fun y => TSetAdd (set_item_text p y)) (filter (fun y => negb (member y xs)) ys)
      ++ map (fun x => TSetRem (set_item_text p x)) (filter (fun x => negb (member x ys)) xs)
  | _, _ => []
  end.

Definition specl_common (kvs2 : list (atom * value)) (p : path) :=
  fix common (l : list (atom * value)) : list tentry :=
    match l with
    | [] => []
    | (k, v1) :: r =>
        (if visible ip k
         then match find (fun kv => py_eq k (fst kv)) kvs2 with
              | Some (k', v2) => spec_leaf v1 v2 (at_key p k')
              | None => []
              end
         else [])
        ++ common r
    end.

Definition specl_zip (p : path) :=
  fix zipped (xs ys : list value) (i : nat) {struct xs} : list tentry :=
    match xs, ys with
    | [], _ => tail_items xrepr TIterAdd p ys i
    | _ :: _, [] => tail_items xrepr TIterRem p xs i
    | x :: xs', y :: ys' => spec_leaf x y (at_idx p i) ++ zipped xs' ys' (S i)
    end.

Lemma specl_type t1 t2 p :
  ty_eqb (type_of t1) (type_of t2) = false ->
  spec_leaf t1 t2 p = [TType (render p) (type_of t1) (type_of t2) None (Some (t1, t2))].
Proof. intros T. destruct t1; cbn [spec_leaf]; rewrite T; reflexivity. Qed.

Lemma specl_atom a b p :
  ty_eqb (atom_ty a) (atom_ty b) = true -> spec_leaf (VAtom a) (VAtom b) p = leaf a b p.
Proof. intros T. cbn [spec_leaf type_of]. rewrite T. reflexivity. Qed.

Lemma specl_dict kvs1 kvs2 p :
  spec_leaf (VDict kvs1) (VDict kvs2) p =
  flat_map (fun kv => if visible ip (fst kv) && negb (has_key (fst kv) kvs1)
                      then [TDictAdd (render (at_key p (fst kv))) (Some (snd kv))] else []) kvs2
  ++ flat_map (fun kv => if visible ip (fst kv) && negb (has_key (fst kv) kvs2)
                         then [TDictRem (render (at_key p (fst kv))) (Some (snd kv))] else []) kvs1
  ++ specl_common kvs2 p kvs1.
Proof. reflexivity. Qed.

Lemma specl_list xs ys p : spec_leaf (VList xs) (VList ys) p = specl_zip p xs ys 0.
Proof. reflexivity. Qed.
Lemma specl_tuple xs ys p : spec_leaf (VTuple xs) (VTuple ys) p = specl_zip p xs ys 0.
Proof. reflexivity. Qed.
Lemma specl_vset xs ys p : spec_leaf (VSet xs) (VSet ys) p = spec_sets xrepr xstr xs ys p.
Proof. reflexivity. Qed.
Lemma specl_vfrozen xs ys p : spec_leaf (VFrozen xs) (VFrozen ys) p = spec_sets xrepr xstr xs ys p.
Proof. reflexivity. Qed.

End SpecLeaf.

(* the scalar rule of Diff/XuSpec.v: values_changed iff not Python-equal, with the two objects *)
Definition raw_leaf (xrepr : atom -> pystr) (udiff : pystr -> pystr -> pystr) (a b : atom) (p : path) : list tentry :=
  if py_eq a b then [] else [TValue (render xrepr p) (VAtom a) (VAtom b) None (text_diff udiff a b)].
(* the same on the normalised scalars: a naive datetime is read as UTC, datetimes are shown in UTC *)
Definition norm_leaf (xrepr : atom -> pystr) (udiff : pystr -> pystr -> pystr) (a b : atom) (p : path) : list tentry :=
  raw_leaf xrepr udiff (dt_norm a) (dt_norm b) p.

Definition spec_n (xrepr xstr : atom -> pystr) (udiff : pystr -> pystr -> pystr) (ip : bool) (t1 t2 : value) (p : path) : list tentry :=
  spec_leaf xrepr xstr ip (norm_leaf xrepr udiff) t1 t2 p.
Definition spec_n_diff xrepr xstr udiff ip t1 t2 : list tentry := spec_n xrepr xstr udiff ip t1 t2 [].

(* ------------------------------------------------------------------ *)
(** * Main theorem: positional mode = [spec_n], no leaf guard *)

Section PositionalN.
Variable xrepr xstr : atom -> pystr.
Variable hatom : atom -> pystr.
Variable udiff : pystr -> pystr -> pystr.
Variable ops : path -> list value -> list value -> list opcode.
Variable excl : path -> bool.
Variable d : nat.
Variable ip : bool.
Variable ok : atom -> bool.
Hypothesis Hinj : forall a b, ok a = true -> ok b = true -> hatom a = hatom b -> a = b.
Notation c := (mkCfg true 0 d ip).
Notation guard := (inputs_ok any_atom ok any_atom).
Notation diff := (diff hatom udiff ops noskip excl c).
Notation specn := (spec_n xrepr xstr udiff ip).
Notation tv := (text_view xrepr xstr 2).
Notation render := (render xrepr).

Local Opaque XuTextView.render XuTextView.set_item_text pystr_eqb.

(* the scalar comparer reports exactly the normalised rule - unconditionally *)
Lemma tv_diff_atom_n a b p :
  ty_eqb (atom_ty a) (atom_ty b) = true ->
  tv (diff_atom udiff noskip a b p p) = norm_leaf xrepr udiff a b p.
Proof.
  intros T. unfold diff_atom. rewrite T. cbn [negb]. unfold norm_leaf, raw_leaf.
  destruct a as [|x|x|x|s|s|u1 o1|x|u1 o1|x|m1 e1], b as [|y|y|y|t|t|u2 o2|y|u2 o2|y|m2 e2]; try discriminate T;
    cbn [dt_norm];
    try (destruct (py_eq _ _); [reflexivity|apply tv_report_value]).
  - unfold diff_str. replace (py_eq (AStr s) (AStr t)) with (pystr_eqb s t) by reflexivity.
    destruct (pystr_eqb s t); [reflexivity|]. cbn [andb].
    unfold has_nl, has_char, text_diff, multiline.
    destruct (existsb (N.eqb 10) s || existsb (N.eqb 10) t); rewrite tv_report_value; reflexivity.
  - unfold diff_str. replace (py_eq (ABytes s) (ABytes t)) with (pystr_eqb s t) by reflexivity.
    destruct (pystr_eqb s t); [reflexivity|].
    unfold has_nl, has_char, text_diff, multiline, is_ascii, ascii_only.
    destruct (forallb (fun ch : N => (ch <? 128)%N) s && forallb (fun ch : N => (ch <? 128)%N) t &&
              (existsb (N.eqb 10) s || existsb (N.eqb 10) t)); rewrite tv_report_value; reflexivity.
  - destruct o1, o2; cbn [dt_norm]; (destruct (py_eq _ _); [reflexivity|apply tv_report_value]).
Qed.

Definition IHN (t1 : value) : Prop :=
  forall t2 p, wf t1 = true -> wf t2 = true -> guard t1 = true -> guard t2 = true ->
    tv (fst (diff t1 t2 p p)) = specn t1 t2 p.

Lemma tv_go_list_n xs : Forall IHN xs -> forall ys i p,
  forallb wf xs = true -> forallb wf ys = true ->
  forallb guard xs = true -> forallb guard ys = true ->
  tv (fst (go_list noskip diff p p xs ys i)) = specl_zip xrepr xstr ip (norm_leaf xrepr udiff) p xs ys i.
Proof.
  induction 1 as [|x xs Hx _ IH]; intros ys i p W1 W2 G1 G2.
  - rewrite go_list_nil. cbn [fst]. rewrite tv_added_from. destruct ys; reflexivity.
  - destruct ys as [|y ys].
    + rewrite go_list_cons_nil. cbn [fst]. rewrite tv_removed_from. reflexivity.
    + rewrite go_list_cons_cons. unfold app2. cbn [fst]. rewrite text_view_app.
      cbn in W1, W2, G1, G2.
      apply andb_true_iff in W1 as [Wx W1], W2 as [Wy W2], G1 as [Gx G1], G2 as [Gy G2].
      rewrite (Hx y (snoc p (PIdx i)) Wx Wy Gx Gy), (IH ys (S i) p W1 W2 G1 G2). reflexivity.
Qed.

Lemma tv_go_common_n kvs2 p :
  nodup_atoms (map fst kvs2) = true -> forallb (fun kv => wf (snd kv)) kvs2 = true ->
  forallb (fun kv => any_atom (fst kv) && guard (snd kv)) kvs2 = true ->
  forall l, forallb (fun kv => wf (snd kv)) l = true ->
  forallb (fun kv => any_atom (fst kv) && guard (snd kv)) l = true ->
  Forall (fun kv => IHN (snd kv)) l ->
  tv (fst (go_common c diff kvs2 (keys_of c kvs2) p p l)) = specl_common xrepr xstr ip (norm_leaf xrepr udiff) kvs2 p l.
Proof.
  intros N2 W2 G2. induction l as [|[k v1] l IH]; intros W1 G1 HI; [reflexivity|].
  apply Forall_cons_iff in HI as [Hk HI']. cbn in W1, G1.
  apply andb_true_iff in W1 as [Wv W1], G1 as [Gv G1].
  specialize (IH W1 G1 HI'). rewrite go_common_cons. cbn [specl_common].
  rewrite keep_visible. destruct (visible ip k) eqn:Vk; [|exact IH].
  unfold keys_of. rewrite find_fst_filter.
  2:{ intros k' E. rewrite <- (keep_key_py_eq c k k' E), keep_visible. exact Vk. }
  destruct (find (fun kv => py_eq k (fst kv)) kvs2) as [[k' v2]|] eqn:F; cbn [option_map fst]; [|exact IH].
  apply find_some in F as [Hin E]. cbn [fst] in E.
  rewrite (assoc_nodup kvs2 k' v2 k' N2 Hin (py_eq_refl k')).
  unfold app2. cbn [fst]. rewrite text_view_app. fold (keys_of c kvs2). rewrite IH. f_equal.
  cbn in Hk. apply Hk; [exact Wv| |exact Gv|].
  - eapply forallb_forall in W2; [|exact Hin]. exact W2.
  - eapply forallb_forall in G2; [|exact Hin]. exact G2.
Qed.

Theorem positional_diff_is_spec_n : forall t1, IHN t1.
Proof.
  induction t1 as [a|xs IH|xs IH|kvs IH|xs|xs] using value_ind'; intros t2 p W1 W2 G1 G2; unfold spec_n;
    (match goal with |- context [diff ?t1 t2 _ _] => destruct (ty_eqb (type_of t1) (type_of t2)) eqn:T end;
     [|rewrite diff_type by (try reflexivity; exact T); rewrite specl_type by exact T; cbn [fst]; apply tv_report_type]);
    pose proof T as T'; apply ty_eqb_true in T'; destruct t2; try discriminate T'; try (destruct a; discriminate T').
  - rewrite diff_atom_eq by reflexivity. cbn [type_of] in T. rewrite T. cbn [negb fst].
    rewrite specl_atom by exact T. apply tv_diff_atom_n. exact T.
  - rewrite diff_list by reflexivity. unfold seq_body. cbn [zip negb andb]. rewrite specl_list.
    apply tv_go_list_n; assumption.
  - rewrite diff_tuple by reflexivity. unfold seq_body. cbn [zip negb andb]. rewrite specl_tuple.
    apply tv_go_list_n; assumption.
  - rewrite diff_dict by reflexivity. unfold dict_body, dict_shortcut. cbn [thr_num Nat.eqb fst].
    cbn in W1, W2. apply andb_true_iff in W1 as [N1 W1], W2 as [N2 W2].
    rewrite specl_dict, !text_view_app, tv_dict_added, tv_dict_removed by assumption.
    rewrite tv_go_common_n by assumption. reflexivity.
  - rewrite diff_vset by reflexivity. cbn [fst]. rewrite specl_vset. cbn in G1, G2. eapply tv_diff_set; eassumption.
  - rewrite diff_vfrozen by reflexivity. cbn [fst]. rewrite specl_vfrozen. cbn in G1, G2. eapply tv_diff_set; eassumption.
Qed.

End PositionalN.

(** MAIN: no condition on the leaves *)
Theorem positional_run_is_spec_n :
  forall xrepr xstr hatom udiff ops excl d ip ok t1 t2,
    (forall a b, ok a = true -> ok b = true -> hatom a = hatom b -> a = b) ->
    wf t1 = true -> wf t2 = true ->
    inputs_ok any_atom ok any_atom t1 = true -> inputs_ok any_atom ok any_atom t2 = true ->
    text_view xrepr xstr 2 (fst (run_diff hatom udiff ops noskip excl (mkCfg true 0 d ip) t1 t2))
    = spec_leaf xrepr xstr ip (norm_leaf xrepr udiff) t1 t2 [].
Proof.
  intros xrepr xstr hatom udiff ops excl d ip ok t1 t2 Hinj W1 W2 G1 G2. rewrite fst_run_diff.
  rewrite positional_mutual_id by (try assumption; reflexivity).
  apply (positional_diff_is_spec_n xrepr xstr hatom udiff ops excl d ip ok Hinj); assumption.
Qed.

(* an item hash that is injective everywhere: no guard on the inputs at all *)
Theorem positional_run_is_spec_n_inj :
  forall xrepr xstr hatom udiff ops excl d ip t1 t2,
    (forall a b, hatom a = hatom b -> a = b) ->
    wf t1 = true -> wf t2 = true ->
    text_view xrepr xstr 2 (fst (run_diff hatom udiff ops noskip excl (mkCfg true 0 d ip) t1 t2))
    = spec_n_diff xrepr xstr udiff ip t1 t2.
Proof.
  intros xrepr xstr hatom udiff ops excl d ip t1 t2 Hinj W1 W2.
  apply (positional_run_is_spec_n xrepr xstr hatom udiff ops excl d ip any_atom); try assumption.
  - intros a b _ _. apply Hinj.
  - apply inputs_ok_true; reflexivity.
  - apply inputs_ok_true; reflexivity.
Qed.

(* ------------------------------------------------------------------ *)
(** * Where [spec_n] differs from the recursive definition with the raw values *)

(* [leaves_all ip Q t1 t2]: Q holds of every pair of same-type scalar LEAVES that the positional comparison of
   t1 with t2 compares (same traversal as the definition: positions of sequences, visible common keys;
   not set members, not dict keys) *)
Section LeavesAll.
Variable ip : bool.
Variable Q : atom -> atom -> bool.

Fixpoint leaves_all (t1 t2 : value) {struct t1} : bool :=
  if negb (ty_eqb (type_of t1) (type_of t2)) then true
  else
  match t1, t2 with
  | VAtom a, VAtom b => Q a b
  | VDict kvs1, VDict kvs2 =>
      (fix common (l : list (atom * value)) : bool :=
         match l with
         | [] => true
         | (k, v1) :: r =>
             (if visible ip k
              then match find (fun kv => py_eq k (fst kv)) kvs2 with
                   | Some (k', v2) => leaves_all v1 v2
                   | None => true
                   end
              else true)
             && common r
         end) kvs1
  | VList xs, VList ys | VTuple xs, VTuple ys =>
      (fix zipped (xs ys : list value) {struct xs} : bool :=
         match xs, ys with
         | x :: xs', y :: ys' => leaves_all x y && zipped xs' ys'
         | _, _ => true
         end) xs ys
  | _, _ => true
  end.

Definition lall_common (kvs2 : list (atom * value)) :=
  fix common (l : list (atom * value)) : bool :=
    match l with
    | [] => true
    | (k, v1) :: r =>
        (if visible ip k
         then match find (fun kv => py_eq k (fst kv)) kvs2 with
              | Some (k', v2) => leaves_all v1 v2
              | None => true
              end
         else true)
        && common r
    end.
Definition lall_zip :=
  fix zipped (xs ys : list value) {struct xs} : bool :=
    match xs, ys with
    | x :: xs', y :: ys' => leaves_all x y && zipped xs' ys'
    | _, _ => true
    end.

Lemma leaves_all_type t1 t2 : ty_eqb (type_of t1) (type_of t2) = false -> leaves_all t1 t2 = true.
Proof. intros T. destruct t1; cbn [leaves_all]; rewrite T; reflexivity. Qed.
Lemma leaves_all_atom a b : ty_eqb (atom_ty a) (atom_ty b) = true -> leaves_all (VAtom a) (VAtom b) = Q a b.
Proof. intros T. cbn [leaves_all type_of]. rewrite T. reflexivity. Qed.
Lemma leaves_all_dict kvs1 kvs2 : leaves_all (VDict kvs1) (VDict kvs2) = lall_common kvs2 kvs1.
Proof. reflexivity. Qed.
Lemma leaves_all_list xs ys : leaves_all (VList xs) (VList ys) = lall_zip xs ys.
Proof. reflexivity. Qed.
Lemma leaves_all_tuple xs ys : leaves_all (VTuple xs) (VTuple ys) = lall_zip xs ys.
Proof. reflexivity. Qed.

(* a leaf predicate that holds of all leaves of both inputs *)
Lemma leaves_all_of_inputs (lf : atom -> bool) :
  (forall a b, lf a = true -> lf b = true -> Q a b = true) ->
  forall t1 t2, inputs_ok any_atom any_atom lf t1 = true -> inputs_ok any_atom any_atom lf t2 = true ->
    leaves_all t1 t2 = true.
Proof.
  intros HL.
  induction t1 as [a|xs IH|xs IH|kvs IH|xs|xs] using value_ind'; intros t2 I1 I2;
    (match goal with |- leaves_all ?t1 t2 = _ => destruct (ty_eqb (type_of t1) (type_of t2)) eqn:T end;
     [|apply leaves_all_type; exact T]);
    pose proof T as T'; apply ty_eqb_true in T'; destruct t2; try discriminate T'; try (destruct a; discriminate T').
  - rewrite leaves_all_atom by exact T. apply HL; assumption.
  - rewrite leaves_all_list. cbn [inputs_ok] in I1, I2. clear T T'. revert xs0 I1 I2.
    induction IH as [|x xs Hx _ IHl]; intros ys I1 I2; [reflexivity|].
    destruct ys as [|y ys]; [reflexivity|]. cbn [lall_zip]. cbn [forallb] in I1, I2.
    apply andb_true_iff in I1 as [I1a I1b], I2 as [I2a I2b].
    rewrite (Hx y I1a I2a). apply IHl; assumption.
  - rewrite leaves_all_tuple. cbn [inputs_ok] in I1, I2. clear T T'. revert xs0 I1 I2.
    induction IH as [|x xs Hx _ IHl]; intros ys I1 I2; [reflexivity|].
    destruct ys as [|y ys]; [reflexivity|]. cbn [lall_zip]. cbn [forallb] in I1, I2.
    apply andb_true_iff in I1 as [I1a I1b], I2 as [I2a I2b].
    rewrite (Hx y I1a I2a). apply IHl; assumption.
  - rewrite leaves_all_dict. cbn [inputs_ok] in I1, I2. clear T T'. revert I1.
    induction IH as [|[k v1] l Hk _ IHl]; intros I1; [reflexivity|].
    cbn [lall_common]. cbn [forallb fst snd] in I1. apply andb_true_iff in I1 as [I1a I1b].
    apply andb_true_iff in I1a as [_ I1a].
    rewrite (IHl I1b), andb_true_r.
    destruct (visible ip k); [|reflexivity].
    destruct (find (fun kv => py_eq k (fst kv)) kvs0) as [[k' v2]|] eqn:F; [|reflexivity].
    apply find_some in F as [Hin _]. cbn in Hk. apply Hk; [exact I1a|].
    eapply forallb_forall in I2; [|exact Hin]. cbn [fst snd] in I2. apply andb_true_iff in I2 as [_ I2]. exact I2.
  - reflexivity.
  - reflexivity.
Qed.

Section Agree.
Variable xrepr xstr : atom -> pystr.
Variables leaf1 leaf2 : atom -> atom -> path -> list tentry.
Notation s1 := (spec_leaf xrepr xstr ip leaf1).
Notation s2 := (spec_leaf xrepr xstr ip leaf2).

(* two leaf rules that agree on the compared leaf pairs give the same definition *)
Lemma spec_leaf_agree :
  (forall a b p, ty_eqb (atom_ty a) (atom_ty b) = true -> Q a b = true -> leaf1 a b p = leaf2 a b p) ->
  forall t1 t2 p, leaves_all t1 t2 = true -> s1 t1 t2 p = s2 t1 t2 p.
Proof.
  intros HQ.
  induction t1 as [a|xs IH|xs IH|kvs IH|xs|xs] using value_ind'; intros t2 p A;
    (match goal with |- spec_leaf _ _ _ _ ?t1 t2 _ = _ => destruct (ty_eqb (type_of t1) (type_of t2)) eqn:T end;
     [|rewrite !specl_type by exact T; reflexivity]);
    pose proof T as T'; apply ty_eqb_true in T'; destruct t2; try discriminate T'; try (destruct a; discriminate T').
  - rewrite leaves_all_atom in A by exact T. rewrite !specl_atom by exact T. apply HQ; assumption.
  - rewrite leaves_all_list in A. rewrite !specl_list. clear T T'. generalize 0 as i. revert xs0 A.
    induction IH as [|x xs Hx _ IHl]; intros ys A i; [reflexivity|].
    destruct ys as [|y ys]; [reflexivity|]. cbn [lall_zip] in A. apply andb_true_iff in A as [A1 A2].
    cbn [specl_zip]. rewrite (Hx y _ A1). f_equal. apply IHl. exact A2.
  - rewrite leaves_all_tuple in A. rewrite !specl_tuple. clear T T'. generalize 0 as i. revert xs0 A.
    induction IH as [|x xs Hx _ IHl]; intros ys A i; [reflexivity|].
    destruct ys as [|y ys]; [reflexivity|]. cbn [lall_zip] in A. apply andb_true_iff in A as [A1 A2].
    cbn [specl_zip]. rewrite (Hx y _ A1). f_equal. apply IHl. exact A2.
  - rewrite leaves_all_dict in A. rewrite !specl_dict. clear T T'. f_equal. f_equal.
    induction IH as [|[k v1] l Hk _ IHl]; [reflexivity|].
    cbn [lall_common] in A. apply andb_true_iff in A as [A1 A2].
    cbn [specl_common]. rewrite (IHl A2). f_equal.
    destruct (visible ip k); [|reflexivity].
    destruct (find (fun kv => py_eq k (fst kv)) kvs0) as [[k' v2]|]; [|reflexivity].
    cbn in Hk. apply Hk. exact A1.
  - reflexivity.
  - reflexivity.
Qed.

(* conversely, when [leaf1] never yields more entries than [leaf2], equal results force agreement on
   every compared leaf pair *)
Hypothesis Hle : forall a b p, length (leaf1 a b p) <= length (leaf2 a b p).

Lemma spec_leaf_len_le : forall t1 t2 p, length (s1 t1 t2 p) <= length (s2 t1 t2 p).
Proof.
  induction t1 as [a|xs IH|xs IH|kvs IH|xs|xs] using value_ind'; intros t2 p;
    (match goal with |- length (spec_leaf _ _ _ _ ?t1 t2 _) <= _ => destruct (ty_eqb (type_of t1) (type_of t2)) eqn:T end;
     [|rewrite !specl_type by exact T; apply le_n]);
    pose proof T as T'; apply ty_eqb_true in T'; destruct t2; try discriminate T'; try (destruct a; discriminate T').
  - rewrite !specl_atom by exact T. apply Hle.
  - rewrite !specl_list. clear T T'. generalize 0 as i. revert xs0.
    induction IH as [|x xs Hx _ IHl]; intros ys i; [apply le_n|].
    destruct ys as [|y ys]; [apply le_n|]. cbn [specl_zip]. rewrite !app_length.
    apply Nat.add_le_mono; [apply Hx|apply IHl].
  - rewrite !specl_tuple. clear T T'. generalize 0 as i. revert xs0.
    induction IH as [|x xs Hx _ IHl]; intros ys i; [apply le_n|].
    destruct ys as [|y ys]; [apply le_n|]. cbn [specl_zip]. rewrite !app_length.
    apply Nat.add_le_mono; [apply Hx|apply IHl].
  - rewrite !specl_dict, !app_length. clear T T'. apply Nat.add_le_mono_l, Nat.add_le_mono_l.
    induction IH as [|[k v1] l Hk _ IHl]; [apply le_n|]. cbn [specl_common]. rewrite !app_length.
    apply Nat.add_le_mono; [|exact IHl].
    destruct (visible ip k); [|apply le_n].
    destruct (find (fun kv => py_eq k (fst kv)) kvs0) as [[k' v2]|]; [|apply le_n]. apply Hk.
  - apply le_n.
  - apply le_n.
Qed.

Lemma specl_zip_len_le p xs : forall ys i,
  length (specl_zip xrepr xstr ip leaf1 p xs ys i) <= length (specl_zip xrepr xstr ip leaf2 p xs ys i).
Proof.
  induction xs as [|x xs IH]; intros ys i; [apply le_n|]. destruct ys as [|y ys]; [apply le_n|].
  cbn [specl_zip]. rewrite !app_length. apply Nat.add_le_mono; [apply spec_leaf_len_le|apply IH].
Qed.

Lemma specl_common_len_le kvs2 p l :
  length (specl_common xrepr xstr ip leaf1 kvs2 p l) <= length (specl_common xrepr xstr ip leaf2 kvs2 p l).
Proof.
  induction l as [|[k v1] l IH]; [apply le_n|]. cbn [specl_common]. rewrite !app_length.
  apply Nat.add_le_mono; [|exact IH].
  destruct (visible ip k); [|apply le_n].
  destruct (find (fun kv => py_eq k (fst kv)) kvs2) as [[k' v2]|]; [|apply le_n]. apply spec_leaf_len_le.
Qed.

Lemma app_eq_len_le {A} (a1 a2 b1 b2 : list A) :
  length a1 <= length a2 -> length b1 <= length b2 -> a1 ++ b1 = a2 ++ b2 -> a1 = a2 /\ b1 = b2.
Proof.
  intros La Lb E. assert (L : length a1 = length a2).
  { apply (f_equal (@length A)) in E. rewrite !app_length in E. lia. }
  clear La Lb. revert a2 L E. induction a1 as [|x a1 IH]; intros [|y a2] L E; try discriminate L.
  - split; [reflexivity|exact E].
  - cbn in E. inversion E; subst. cbn in L. destruct (IH a2 (eq_add_S _ _ L) H1) as [-> ->]. split; reflexivity.
Qed.

Lemma spec_leaf_eq_inv :
  (forall a b p, ty_eqb (atom_ty a) (atom_ty b) = true -> leaf1 a b p = leaf2 a b p -> Q a b = true) ->
  forall t1 t2 p, s1 t1 t2 p = s2 t1 t2 p -> leaves_all t1 t2 = true.
Proof.
  intros HQ.
  induction t1 as [a|xs IH|xs IH|kvs IH|xs|xs] using value_ind'; intros t2 p E;
    (match goal with |- leaves_all ?t1 t2 = _ => destruct (ty_eqb (type_of t1) (type_of t2)) eqn:T end;
     [|apply leaves_all_type; exact T]);
    pose proof T as T'; apply ty_eqb_true in T'; destruct t2; try discriminate T'; try (destruct a; discriminate T').
  - rewrite leaves_all_atom by exact T. rewrite !specl_atom in E by exact T. eapply HQ; eassumption.
  - rewrite leaves_all_list. rewrite !specl_list in E. clear T T'. revert E. generalize 0 as i. revert xs0.
    induction IH as [|x xs Hx _ IHl]; intros ys i E; [reflexivity|].
    destruct ys as [|y ys]; [reflexivity|]. cbn [specl_zip] in E. cbn [lall_zip].
    apply app_eq_len_le in E as [E1 E2]; [|apply spec_leaf_len_le|apply specl_zip_len_le].
    rewrite (Hx y _ E1). apply (IHl ys (S i) E2).
  - rewrite leaves_all_tuple. rewrite !specl_tuple in E. clear T T'. revert E. generalize 0 as i. revert xs0.
    induction IH as [|x xs Hx _ IHl]; intros ys i E; [reflexivity|].
    destruct ys as [|y ys]; [reflexivity|]. cbn [specl_zip] in E. cbn [lall_zip].
    apply app_eq_len_le in E as [E1 E2]; [|apply spec_leaf_len_le|apply specl_zip_len_le].
    rewrite (Hx y _ E1). apply (IHl ys (S i) E2).
  - rewrite leaves_all_dict. rewrite !specl_dict in E. clear T T'.
    apply app_inv_head in E. apply app_inv_head in E. revert E.
    induction IH as [|[k v1] l Hk _ IHl]; intros E; [reflexivity|].
    cbn [specl_common] in E. cbn [lall_common].
    apply app_eq_len_le in E as [E1 E2]; [| |apply specl_common_len_le].
    + rewrite (IHl E2), andb_true_r.
      destruct (visible ip k); [|reflexivity].
      destruct (find (fun kv => py_eq k (fst kv)) kvs0) as [[k' v2]|]; [|reflexivity].
      cbn in Hk. eapply Hk. exact E1.
    + destruct (visible ip k); [|apply le_n].
      destruct (find (fun kv => py_eq k (fst kv)) kvs0) as [[k' v2]|]; [|apply le_n]. apply spec_leaf_len_le.
  - reflexivity.
  - reflexivity.
Qed.

End Agree.
End LeavesAll.

(* ------------------------------------------------------------------ *)
(** * [spec_leaf raw_leaf] is Diff/XuSpec.v's definition *)

Lemma spec_leaf_raw xrepr xstr udiff ip : forall t1 t2 p,
  spec_leaf xrepr xstr ip (raw_leaf xrepr udiff) t1 t2 p = spec xrepr xstr udiff ip t1 t2 p.
Proof.
  induction t1 as [a|xs IH|xs IH|kvs IH|xs|xs] using value_ind'; intros t2 p;
    (match goal with |- spec_leaf _ _ _ _ ?t1 t2 _ = _ => destruct (ty_eqb (type_of t1) (type_of t2)) eqn:T end;
     [|rewrite specl_type, spec_type by exact T; reflexivity]);
    pose proof T as T'; apply ty_eqb_true in T'; destruct t2; try discriminate T'; try (destruct a; discriminate T').
  - rewrite specl_atom, spec_atom by exact T. reflexivity.
  - rewrite specl_list, spec_list. clear T T'. generalize 0 as i. revert xs0.
    induction IH as [|x xs Hx _ IHl]; intros ys i; [reflexivity|].
    destruct ys as [|y ys]; [reflexivity|]. cbn [specl_zip spec_zip]. rewrite Hx, IHl. reflexivity.
  - rewrite specl_tuple, spec_tuple. clear T T'. generalize 0 as i. revert xs0.
    induction IH as [|x xs Hx _ IHl]; intros ys i; [reflexivity|].
    destruct ys as [|y ys]; [reflexivity|]. cbn [specl_zip spec_zip]. rewrite Hx, IHl. reflexivity.
  - rewrite specl_dict, spec_dict. clear T T'. f_equal. f_equal.
    induction IH as [|[k v1] l Hk _ IHl]; [reflexivity|].
    cbn [specl_common spec_common]. rewrite IHl. f_equal.
    destruct (visible ip k); [|reflexivity].
    destruct (find (fun kv => py_eq k (fst kv)) kvs0) as [[k' v2]|]; [|reflexivity].
    cbn in Hk. apply Hk.
  - reflexivity.
  - reflexivity.
Qed.

(* ------------------------------------------------------------------ *)
(** * The leaf pairs on which normalisation changes nothing *)

(* normalising both sides neither changes the verdict of == nor (when they differ) the two objects shown *)
Definition dt_fixed (a b : atom) : bool :=
  Bool.eqb (py_eq (dt_norm a) (dt_norm b)) (py_eq a b) &&
  (py_eq a b || (atom_eqb (dt_norm a) a && atom_eqb (dt_norm b) b)).

Lemma dt_fixed_leaf xrepr udiff a b p : dt_fixed a b = true -> norm_leaf xrepr udiff a b p = raw_leaf xrepr udiff a b p.
Proof.
  unfold dt_fixed, norm_leaf, raw_leaf. intros F. apply andb_true_iff in F as [F1 F2].
  apply eqb_prop in F1. rewrite F1. destruct (py_eq a b); [reflexivity|].
  cbn [orb] in F2. apply andb_true_iff in F2 as [Ea Eb]. apply atom_eqb_eq in Ea, Eb. rewrite Ea, Eb. reflexivity.
Qed.

Lemma leaf_dt_fixed xrepr udiff a b p : norm_leaf xrepr udiff a b p = raw_leaf xrepr udiff a b p -> dt_fixed a b = true.
Proof.
  unfold dt_fixed, norm_leaf, raw_leaf.
  destruct (py_eq (dt_norm a) (dt_norm b)), (py_eq a b); intros E; try discriminate E; try reflexivity.
  injection E as Ea Eb _. cbn [Bool.eqb andb orb]. apply andb_true_iff; split; apply atom_eqb_eq; assumption.
Qed.

(* Python-equal scalars stay Python-equal when normalised: [norm_leaf] never yields more entries *)
Lemma py_eq_norm a b : py_eq a b = true -> py_eq (dt_norm a) (dt_norm b) = true.
Proof.
  destruct a as [|x|x|x|s|s|u1 [o1|]|x|u1 o1|x|m1 e1], b as [|y|y|y|t|t|u2 [o2|]|y|u2 o2|y|m2 e2];
    cbn [dt_norm]; try (intros H; exact H); try (cbn; discriminate).
  - unfold py_eq; cbn [qnum]; unfold tz_eq, usmin. intros H. apply Z.eqb_eq in H. apply Z.eqb_eq. lia.
  - unfold py_eq; cbn [qnum]; unfold tz_eq, usmin. intros H. apply Z.eqb_eq in H. apply Z.eqb_eq. lia.
Qed.

Lemma norm_leaf_len_le xrepr udiff a b p : length (norm_leaf xrepr udiff a b p) <= length (raw_leaf xrepr udiff a b p).
Proof.
  unfold norm_leaf, raw_leaf. destruct (py_eq a b) eqn:E.
  - rewrite (py_eq_norm a b E). apply le_n.
  - destruct (py_eq (dt_norm a) (dt_norm b)); cbn; lia.
Qed.

Lemma dt_utc_fixed a b : dt_utc a = true -> dt_utc b = true -> dt_fixed a b = true.
Proof.
  intros Ua Ub. unfold dt_fixed. rewrite (dt_utc_norm a Ua), (dt_utc_norm b Ub), !atom_eqb_refl, orb_true_r.
  rewrite eqb_reflx. reflexivity.
Qed.

(* ------------------------------------------------------------------ *)
(** * Exact characterisation and the old guarded theorem *)

Theorem spec_n_is_spec_iff xrepr xstr udiff ip t1 t2 :
  spec_n_diff xrepr xstr udiff ip t1 t2 = spec_diff xrepr xstr udiff ip t1 t2 <-> leaves_all ip dt_fixed t1 t2 = true.
Proof.
  unfold spec_n_diff, spec_n, spec_diff. rewrite <- spec_leaf_raw. split.
  - apply (spec_leaf_eq_inv ip dt_fixed xrepr xstr (norm_leaf xrepr udiff) (raw_leaf xrepr udiff)).
    + intros a b p. apply norm_leaf_len_le.
    + intros a b p _ E. eapply leaf_dt_fixed. exact E.
  - apply (spec_leaf_agree ip dt_fixed xrepr xstr (norm_leaf xrepr udiff) (raw_leaf xrepr udiff)).
    intros a b p _ F. apply dt_fixed_leaf. exact F.
Qed.

(* every datetime leaf aware-UTC: every compared leaf pair is fixed *)
Lemma dt_utc_leaves_all ip t1 t2 :
  inputs_ok any_atom any_atom dt_utc t1 = true -> inputs_ok any_atom any_atom dt_utc t2 = true ->
  leaves_all ip dt_fixed t1 t2 = true.
Proof. apply (leaves_all_of_inputs ip dt_fixed dt_utc). exact dt_utc_fixed. Qed.

(* the set-member guard does not matter for the leaf guard *)
Lemma inputs_ok_leaf_any keep ok lf t : inputs_ok keep ok lf t = true -> inputs_ok any_atom any_atom lf t = true.
Proof.
  induction t as [a|xs IH|xs IH|kvs IH|xs|xs] using value_ind'; cbn [inputs_ok]; intros H.
  - exact H.
  - apply forallb_forall. intros x Hx. eapply Forall_forall in IH; [|exact Hx]. apply IH.
    eapply forallb_forall in H; eassumption.
  - apply forallb_forall. intros x Hx. eapply Forall_forall in IH; [|exact Hx]. apply IH.
    eapply forallb_forall in H; eassumption.
  - apply forallb_forall. intros kv Hkv. eapply Forall_forall in IH; [|exact Hkv].
    eapply forallb_forall in H; [|exact Hkv]. apply andb_true_iff in H as [_ H]. cbn. apply IH. exact H.
  - apply forallb_forall. reflexivity.
  - apply forallb_forall. reflexivity.
Qed.

(* the model's positional result is the recursive definition with the RAW values exactly when every
   compared leaf pair is fixed ... *)
Theorem positional_run_is_spec_iff :
  forall xrepr xstr hatom udiff ops excl d ip ok t1 t2,
    (forall a b, ok a = true -> ok b = true -> hatom a = hatom b -> a = b) ->
    wf t1 = true -> wf t2 = true ->
    inputs_ok any_atom ok any_atom t1 = true -> inputs_ok any_atom ok any_atom t2 = true ->
    (text_view xrepr xstr 2 (fst (run_diff hatom udiff ops noskip excl (mkCfg true 0 d ip) t1 t2))
       = spec_diff xrepr xstr udiff ip t1 t2
     <-> leaves_all ip dt_fixed t1 t2 = true).
Proof.
  intros xrepr xstr hatom udiff ops excl d ip ok t1 t2 Hinj W1 W2 G1 G2.
  rewrite (positional_run_is_spec_n xrepr xstr hatom udiff ops excl d ip ok t1 t2 Hinj W1 W2 G1 G2).
  apply spec_n_is_spec_iff.
Qed.

(* ... in particular under the old leaf guard (XuSpecProofs.positional_run_is_spec_guarded is an instance) *)
Theorem positional_run_is_spec_guarded_again :
  forall xrepr xstr hatom udiff ops excl d ip ok t1 t2,
    (forall a b, ok a = true -> ok b = true -> hatom a = hatom b -> a = b) ->
    wf t1 = true -> wf t2 = true ->
    inputs_ok any_atom ok dt_utc t1 = true -> inputs_ok any_atom ok dt_utc t2 = true ->
    text_view xrepr xstr 2 (fst (run_diff hatom udiff ops noskip excl (mkCfg true 0 d ip) t1 t2))
    = spec_diff xrepr xstr udiff ip t1 t2.
Proof.
  intros xrepr xstr hatom udiff ops excl d ip ok t1 t2 Hinj W1 W2 G1 G2.
  apply (positional_run_is_spec_iff xrepr xstr hatom udiff ops excl d ip ok t1 t2 Hinj W1 W2).
  - eapply inputs_ok_weaken; [| | |exact G1]; auto.
  - eapply inputs_ok_weaken; [| | |exact G2]; auto.
  - apply dt_utc_leaves_all; eapply inputs_ok_leaf_any; eassumption.
Qed.

(* ------------------------------------------------------------------ *)
(** * Witnesses: the two refutation pairs of XuSpecProofs.v *)

(* (a) two naive datetimes one second apart: the model reports the normalised objects, which is [spec_n];
   the leaf pair is not fixed *)
Lemma spec_n_witness_normalised :
  wf nm_t1 = true /\ wf nm_t2 = true /\
  text_view nostr nostr 2 (fst (run_diff inj_hash (fun _ _ => []) one_block noskip noskip (mkCfg true 0 1 true) nm_t1 nm_t2))
    = spec_n_diff nostr nostr (fun _ _ => []) true nm_t1 nm_t2 /\
  spec_n_diff nostr nostr (fun _ _ => []) true nm_t1 nm_t2
    = [TValue (render nostr [PIdx 0]) (VAtom (ADt 1715984134000000 (Some 0%Z))) (VAtom (ADt 1715984135000000 (Some 0%Z))) None None] /\
  leaves_all true dt_fixed nm_t1 nm_t2 = false.
Proof. repeat split; vm_compute; reflexivity. Qed.

(* (b) finding C02-NAIVE-AWARE: naive vs aware-UTC with the same wall clock - nothing is reported, [spec_n] is
   empty, the definition with the raw values has one entry; the leaf pair is not fixed *)
Lemma spec_n_witness_naive_aware :
  text_view nostr nostr 2 (fst (run_diff inj_hash (fun _ _ => []) one_block noskip noskip (mkCfg true 0 1 true) (VList [VAtom na_naive]) (VList [VAtom na_aware])))
    = spec_n_diff nostr nostr (fun _ _ => []) true (VList [VAtom na_naive]) (VList [VAtom na_aware]) /\
  spec_n_diff nostr nostr (fun _ _ => []) true (VList [VAtom na_naive]) (VList [VAtom na_aware]) = [] /\
  length (spec_diff nostr nostr (fun _ _ => []) true (VList [VAtom na_naive]) (VList [VAtom na_aware])) = 1 /\
  leaves_all true dt_fixed (VList [VAtom na_naive]) (VList [VAtom na_aware]) = false.
Proof. repeat split; vm_compute; reflexivity. Qed.

(* non-vacuity of the exact side: on the pair with every exotic kind (all datetimes aware-UTC) every compared
   leaf pair is fixed and [spec_n] is the 5-entry definition *)
Example spec_n_fixed_example :
  leaves_all true dt_fixed xs_t1 xs_t2 = true /\
  spec_n_diff nostr nostr (fun _ _ => []) true xs_t1 xs_t2 = spec_diff nostr nostr (fun _ _ => []) true xs_t1 xs_t2 /\
  length (spec_n_diff nostr nostr (fun _ _ => []) true xs_t1 xs_t2) = 5.
Proof. repeat split; vm_compute; reflexivity. Qed.

(** Helper lemmas of Diff/DiffFaithful.v that the C02 / C03 proofs use, ported to the extended universe
    Diff/XuValue.v (the C04 statement itself - [faithful], [resolve] - is not ported). *)
From Coq Require Import List ZArith NArith Bool Arith Lia.
Import ListNotations.
From DD Require Import Base.PyStr Diff.XuValue Diff.XuFacts Diff.XuTree Diff.XuModel Diff.XuDiffFacts.

Lemma ty_eqb_true a b : ty_eqb a b = true -> a = b.
Proof. destruct a, b; cbn; intros H; try discriminate; reflexivity. Qed.

Lemma first_per_hash_In (hatom : atom -> pystr) l seen a : In a (first_per_hash hatom l seen) -> In a l.
Proof.
  revert seen; induction l as [|x l IH]; intros seen; cbn; [tauto|].
  destruct (existsb _ seen).
  - intros H; right; eapply IH; exact H.
  - intros [H|H]; [left; exact H|right; eapply IH; exact H].
Qed.

(* ---- dictionaries ---- *)
Lemma keep_key_py_eq c k k' : py_eq k k' = true -> keep_key c k = keep_key c k'.
Proof.
  intros E. unfold keep_key, private_key.
  destruct k, k'; try reflexivity; unfold py_eq in E; cbn in E; try discriminate.
  apply pystr_eqb_eq in E. subst. reflexivity.
Qed.

Lemma keys_of_In c kvs k : In k (keys_of c kvs) <-> In k (map fst kvs) /\ keep_key c k = true.
Proof. unfold keys_of. apply filter_In. Qed.

Lemma mem_keys_of c kvs k :
  keep_key c k = true -> mem_atom k (keys_of c kvs) = mem_atom k (map fst kvs).
Proof.
  intros K. destruct (mem_atom k (map fst kvs)) eqn:M.
  - apply mem_atom_In in M as (b & Hb & E). apply mem_atom_In. exists b. split; [|exact E].
    apply keys_of_In. split; [exact Hb|]. rewrite <- (keep_key_py_eq c k b E). exact K.
  - destruct (mem_atom k (keys_of c kvs)) eqn:M2; [|reflexivity].
    apply mem_atom_In in M2 as (b & Hb & E). apply keys_of_In in Hb as [Hb _].
    assert (mem_atom k (map fst kvs) = true) by (apply mem_atom_In; exists b; split; assumption). congruence.
Qed.

Lemma assoc_nodup {B} (l : list (atom * B)) k v k' :
  nodup_atoms (map fst l) = true -> In (k, v) l -> py_eq k k' = true -> assoc k' l = Some v.
Proof.
  induction l as [|[k0 v0] l IH]; cbn; intros N H E; [destruct H|].
  apply andb_true_iff in N as [N0 N].
  destruct H as [H|H].
  - inversion H; subst. rewrite E. reflexivity.
  - destruct (py_eq k0 k') eqn:E0; [|apply IH; assumption].
    exfalso. apply negb_true_iff in N0.
    assert (mem_atom k0 (map fst l) = true).
    { apply mem_atom_In. exists k. split; [apply in_map_iff; exists (k, v); split; [reflexivity|exact H]|].
      eapply py_eq_trans; [exact E0|rewrite py_eq_sym; exact E]. }
    congruence.
Qed.

Lemma filter_nil {A} (f : A -> bool) l : (forall x, In x l -> f x = false) -> filter f l = [].
Proof.
  induction l as [|x l IH]; cbn; intros H; [reflexivity|].
  rewrite (H x (or_introl eq_refl)). apply IH. intros y Hy. apply H. right. exact Hy.
Qed.
Lemma filter_all {A} (f : A -> bool) l : (forall x, In x l -> f x = true) -> filter f l = l.
Proof.
  induction l as [|x l IH]; cbn; intros H; [reflexivity|].
  rewrite (H x (or_introl eq_refl)). f_equal. apply IH. intros y Hy. apply H. right. exact Hy.
Qed.
Lemma filter_length_le {A} (f : A -> bool) l : length (filter f l) <= length l.
Proof. induction l as [|x l IH]; cbn; [lia|]. destruct (f x); cbn; lia. Qed.

Lemma wf_list_In xs x : forallb wf xs = true -> In x xs -> wf x = true.
Proof. intros H Hx. eapply forallb_forall in H; eassumption. Qed.

(* ---- mutual_add_removes_to_become_value_changes ---- *)
Lemma pkey_eqb_eq a b : pkey_eqb a b = true -> a = b.
Proof.
  destruct a, b; cbn; intros H; try discriminate.
  - apply atom_eqb_eq in H. congruence.
  - apply Nat.eqb_eq in H. congruence.
Qed.
Lemma path_eqb_eq p q : path_eqb p q = true -> p = q.
Proof.
  revert q; induction p as [|a p IH]; intros [|b q]; cbn; intros H; try discriminate; [reflexivity|].
  apply andb_true_iff in H as [H1 H2]. apply pkey_eqb_eq in H1. apply IH in H2. congruence.
Qed.

Lemma last_with_path_acc p l acc e :
  fold_left (fun acc e => if path_eqb (ep1 e) p then Some e else acc) l acc = Some e ->
  (In e l /\ ep1 e = p) \/ acc = Some e.
Proof.
  revert acc; induction l as [|x l IH]; cbn; intros acc H; [right; exact H|].
  destruct (IH _ H) as [[Hin Hp]|Hacc].
  - left. split; [right; exact Hin|exact Hp].
  - destruct (path_eqb (ep1 x) p) eqn:E.
    + inversion Hacc; subst. left. split; [left; reflexivity|apply path_eqb_eq; exact E].
    + right. exact Hacc.
Qed.
Lemma last_with_path_In p l e : last_with_path p l = Some e -> In e l /\ ep1 e = p.
Proof.
  unfold last_with_path. intros H. destruct (last_with_path_acc p l None e H) as [H'|H']; [exact H'|discriminate].
Qed.

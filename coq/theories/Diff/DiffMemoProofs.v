(** The run-wide DeepHash table is transparent when no two set members of the inputs (or
    atoms already in the table) are ==-equal without being identical: [diff_m] then reports
    exactly what [DiffModel.diff] reports with the pure item hash [hash_atom H o], up to the
    order in which the common keys of a dict are visited (t2's order vs t1's order; the order
    inside a result category is not an observable).  Hence the theorems about [diff] transfer. *)
From Coq Require Import List ZArith NArith Bool Arith Lia Permutation.
Import ListNotations.
From DD Require Import Base.PyStr Base.Value Base.ValueFacts Path.PathModel
  Diff.Tree Diff.DiffModel Diff.DiffFacts Diff.DiffFaithful Diff.DiffEmpty Diff.DiffSpecProofs
  Hash.HashModel Hash.HashProofsC06 Hash.HashProofsMemo Hash.HashMembers Diff.DiffMemo.

(* ------------------------------------------------------------------ *)
(** * Unfolding equations of [diff_m] *)

Section MemoFacts.
Variable H : pystr -> pystr.
Variable o : hopts.
Variable udiff : pystr -> pystr -> pystr.
Variable ops : path -> list value -> list value -> list opcode.
Variable skip excl : path -> bool.
Variable c : cfg.
Notation diff_m := (diff_m H o udiff ops skip excl c).

Definition look_m (d : memo -> value -> value -> path -> path -> RM) (m : memo) (k : atom) (v2 : value) (p1 p2 : path) :=
  fix look (l1 : list (atom * value)) : RM :=
    match l1 with
    | [] => ([], [], m)
    | (k', v1) :: r1 => if py_eq k' k then d m v1 v2 (snoc p1 (PKey k)) (snoc p2 (PKey k)) else look r1
    end.

Definition go_common_m (d : memo -> value -> value -> path -> path -> RM) (kvs1 : list (atom * value)) (p1 p2 : path) :=
  fix go (l2 : list (atom * value)) (m : memo) : RM :=
    match l2 with
    | [] => ([], [], m)
    | (k, v2) :: r2 =>
        if keep_key c k then
          let '(res, m1) := look_m d m k v2 p1 p2 kvs1 in
          let '(rest, m2) := go r2 m1 in (app2 res rest, m2)
        else go r2 m
    end.

Definition go_list_m (d : memo -> value -> value -> path -> path -> RM) (p1 p2 : path) :=
  fix go (xs ys : list value) (i : nat) (m : memo) {struct xs} : RM :=
    match xs, ys with
    | [], _ => (added_from skip ys i p1 p2, [], m)
    | _ :: _, [] => (removed_from skip xs i p1 p2, [], m)
    | x :: xs', y :: ys' =>
        let '(res, m1) := d m x y (snoc p1 (PIdx i)) (snoc p2 (PIdx i)) in
        let '(rest, m2) := go xs' ys' (S i) m1 in (app2 res rest, m2)
    end.

Definition dict_body_m (m : memo) (kvs1 kvs2 : list (atom * value)) (p1 p2 : path) : RM :=
  let k1 := keys_of c kvs1 in
  let k2 := keys_of c kvs2 in
  if dict_shortcut excl c k1 k2 p1
  then (report skip KValue p1 p2 (Some (VDict kvs1)) (Some (VDict kvs2)) None, [], m)
  else
    let added := flat_map (fun k => if mem_atom k k1 then []
                   else report skip KDictAdd (snoc p1 (PKey k)) (snoc p2 (PKey k)) None (assoc k kvs2) None) k2 in
    let removed := flat_map (fun k => if mem_atom k k2 then []
                   else report skip KDictRem (snoc p1 (PKey k)) (snoc p2 (PKey k)) (assoc k kvs1) None None) k1 in
    let common := go_common_m diff_m kvs1 p1 p2 kvs2 m in
    (added ++ removed ++ fst (fst common), snd (fst common), snd common).

Definition seq_body_m (m : memo) (xs ys : list value) (p1 p2 : path) : RM :=
  if negb (zip c) && forallb is_atom xs && forallb is_atom ys
  then let '(es, rec) := default_leaf_list udiff ops skip xs ys p1 p2 in (es, if rec then [p1] else [], m)
  else go_list_m diff_m p1 p2 xs ys 0 m.

Lemma diff_m_skip m t1 t2 p1 p2 : skip p1 = true -> diff_m m t1 t2 p1 p2 = ([], [], m).
Proof. intros Hs. destruct t1; cbn; rewrite Hs; reflexivity. Qed.

Lemma diff_m_type m t1 t2 p1 p2 :
  skip p1 = false -> ty_eqb (type_of t1) (type_of t2) = false ->
  diff_m m t1 t2 p1 p2 = (report skip KType p1 p2 (Some t1) (Some t2) None, [], m).
Proof. intros Hs T. destruct t1; cbn; rewrite Hs; cbn in T; rewrite T; reflexivity. Qed.

Lemma diff_m_atom m a b p1 p2 :
  skip p1 = false -> diff_m m (VAtom a) (VAtom b) p1 p2 =
  if negb (ty_eqb (atom_ty a) (atom_ty b)) then (report skip KType p1 p2 (Some (VAtom a)) (Some (VAtom b)) None, [], m)
  else (diff_atom udiff skip a b p1 p2, [], m).
Proof. intros Hs. cbn. rewrite Hs. reflexivity. Qed.

Lemma diff_m_dict m kvs1 kvs2 p1 p2 :
  skip p1 = false -> diff_m m (VDict kvs1) (VDict kvs2) p1 p2 = dict_body_m m kvs1 kvs2 p1 p2.
Proof. intros Hs. cbn. rewrite Hs. reflexivity. Qed.

Lemma diff_m_list m xs ys p1 p2 :
  skip p1 = false -> diff_m m (VList xs) (VList ys) p1 p2 = seq_body_m m xs ys p1 p2.
Proof. intros Hs. cbn. rewrite Hs. reflexivity. Qed.

Lemma diff_m_tuple m xs ys p1 p2 :
  skip p1 = false -> diff_m m (VTuple xs) (VTuple ys) p1 p2 = seq_body_m m xs ys p1 p2.
Proof. intros Hs. cbn. rewrite Hs. reflexivity. Qed.

Lemma diff_m_vset m xs ys p1 p2 :
  skip p1 = false -> diff_m m (VSet xs) (VSet ys) p1 p2 =
  (let '(es, m') := diff_set_m H o skip m (VSet xs) (VSet ys) p1 p2 in (es, [], m')).
Proof. intros Hs. cbn. rewrite Hs. reflexivity. Qed.

Lemma diff_m_vfrozen m xs ys p1 p2 :
  skip p1 = false -> diff_m m (VFrozen xs) (VFrozen ys) p1 p2 =
  (let '(es, m') := diff_set_m H o skip m (VFrozen xs) (VFrozen ys) p1 p2 in (es, [], m')).
Proof. intros Hs. cbn. rewrite Hs. reflexivity. Qed.

End MemoFacts.

(* ------------------------------------------------------------------ *)
(** * Generic facts *)

Lemma pystr_eqb_sym s t : pystr_eqb s t = pystr_eqb t s.
Proof.
  destruct (pystr_eqb s t) eqn:E1, (pystr_eqb t s) eqn:E2; try reflexivity.
  - apply pystr_eqb_eq in E1. subst. rewrite pystr_eqb_refl in E2. discriminate.
  - apply pystr_eqb_eq in E2. subst. rewrite pystr_eqb_refl in E1. discriminate.
Qed.

Lemma no_alias_incl l L : incl l L -> no_alias L = true -> no_alias l = true.
Proof.
  unfold no_alias. intros Hi HL. rewrite forallb_forall in HL.
  apply forallb_forall. intros a Ha. apply forallb_forall. intros b Hb.
  specialize (HL a (Hi a Ha)). rewrite forallb_forall in HL. apply HL. apply Hi. exact Hb.
Qed.

Lemma flat_map_atoms_of_atoms xs : flat_map atoms_of (map VAtom xs) = xs.
Proof. induction xs as [|a xs IH]; cbn; [reflexivity|]. rewrite IH. reflexivity. Qed.

(* set members, at every depth *)
Fixpoint set_members (v : value) : list atom :=
  match v with
  | VAtom _ => []
  | VList xs | VTuple xs => flat_map set_members xs
  | VDict kvs => flat_map (fun kv => set_members (snd kv)) kvs
  | VSet xs | VFrozen xs => xs
  end.

(* ------------------------------------------------------------------ *)
(** * Sets: the table of [_create_hashtable] vs [first_per_hash] *)

Section SetPure.
Variable H : pystr -> pystr.
Variable o : hopts.
Hypothesis Hio : ignore_iterable_order o = true.
Variable skip : path -> bool.
Notation hatom := (hash_atom H o).

Lemma order_ok_any v : order_ok o v = true.
Proof. unfold order_ok. rewrite Hio. reflexivity. Qed.

Lemma add_hashes_fph xs : forall acc seen,
  (forall s, existsb (pystr_eqb s) seen = in_table s acc) ->
  add_hashes (map hatom xs) (map VAtom xs) acc =
  acc ++ map (fun a => (hatom a, VAtom a)) (first_per_hash hatom xs seen).
Proof.
  induction xs as [|a xs IH]; intros acc seen Hs; cbn [map add_hashes first_per_hash]; [rewrite app_nil_r; reflexivity|].
  rewrite (Hs (hatom a)). unfold in_table at 1.
  destruct (existsb (fun e : pystr * value => pystr_eqb (fst e) (hatom a)) acc) eqn:E.
  - replace (in_table (hatom a) acc) with true. apply IH. exact Hs.
  - replace (in_table (hatom a) acc) with false.
    rewrite (IH (acc ++ [(hatom a, VAtom a)]) (hatom a :: seen)).
    + rewrite <- app_assoc. reflexivity.
    + intros s. cbn [existsb]. unfold in_table. rewrite existsb_app. cbn [existsb fst]. rewrite orb_false_r.
      fold (in_table s acc). rewrite <- (Hs s). rewrite (pystr_eqb_sym (hatom a) s). apply orb_comm.
Qed.

Lemma fph_hashes l : forall seen s,
  existsb (pystr_eqb s) (map hatom (first_per_hash hatom l seen)) || existsb (pystr_eqb s) seen =
  existsb (pystr_eqb s) (map hatom l) || existsb (pystr_eqb s) seen.
Proof.
  induction l as [|a l IH]; intros seen s; [reflexivity|]. cbn [first_per_hash map existsb].
  destruct (existsb (pystr_eqb (hatom a)) seen) eqn:E.
  - rewrite IH. destruct (pystr_eqb s (hatom a)) eqn:E2; [|reflexivity].
    apply pystr_eqb_eq in E2. subst s. rewrite E. cbn. rewrite !orb_true_r. reflexivity.
  - cbn [map existsb]. specialize (IH (hatom a :: seen) s). cbn [existsb] in IH.
    destruct (pystr_eqb s (hatom a)); cbn [orb] in *; [reflexivity|exact IH].
Qed.

Lemma in_table_map s l :
  in_table s (map (fun a => (hatom a, VAtom a)) l) = existsb (pystr_eqb s) (map hatom l).
Proof.
  unfold in_table. induction l as [|a l IH]; cbn [existsb map fst]; [reflexivity|].
  rewrite IH, (pystr_eqb_sym (hatom a) s). reflexivity.
Qed.

Lemma in_table_fph s xs :
  in_table s (map (fun a => (hatom a, VAtom a)) (first_per_hash hatom xs [])) = existsb (pystr_eqb s) (map hatom xs).
Proof.
  rewrite in_table_map. pose proof (fph_hashes xs [] s) as E. cbn [existsb] in E. rewrite !orb_false_r in E. exact E.
Qed.

Lemma table_side k (tab_other : list (pystr * value)) (other : list atom) l p1 p2 :
  (forall s, in_table s tab_other = existsb (pystr_eqb s) (map hatom other)) ->
  flat_map (fun y => report_set skip k (atom_of y) p1 p2)
    (map snd (filter (fun e => negb (in_table (fst e) tab_other)) (map (fun a => (hatom a, VAtom a)) l)))
  = flat_map (fun y => if existsb (pystr_eqb (hatom y)) (map hatom other) then [] else report_set skip k y p1 p2) l.
Proof.
  intros Ht. induction l as [|a l IH]; cbn; [reflexivity|].
  rewrite Ht. destruct (existsb (pystr_eqb (hatom a)) (map hatom other)); cbn; rewrite IH; reflexivity.
Qed.

Variable L : list atom.
Hypothesis L_na : no_alias L = true.
Definition Inv (m : memo) : Prop := memo_ok H o m /\ incl (matoms m) L.

Lemma create_hashtable_set (frozen : bool) m xs :
  Inv m -> nodup_atoms xs = true -> incl xs L ->
  let v := if frozen then VFrozen xs else VSet xs in
  fst (create_hashtable H o m v) = map (fun a => (hatom a, VAtom a)) (first_per_hash hatom xs []) /\
  Inv (snd (create_hashtable H o m v)).
Proof.
  intros [Hok Hm] N Hx v.
  assert (Hch : children v = map VAtom xs) by (destruct frozen; reflexivity).
  assert (Hat : atoms_of v = xs) by (destruct frozen; reflexivity).
  destruct (create_hashtable_pure H o m v Hok) as (E & Ok' & In').
  - destruct frozen; cbn; exact N.
  - apply order_ok_any.
  - intros x Hxin. split; [|apply order_ok_any]. rewrite Hch in Hxin. apply in_map_iff in Hxin as (a & <- & _). reflexivity.
  - rewrite Hch, Hat, flat_map_atoms_of_atoms. apply incl_refl.
  - rewrite Hat. apply (no_alias_incl _ L); [|exact L_na]. apply incl_app; assumption.
  - split.
    + rewrite E, Hch, map_map.
      replace (map (fun x => hash_pure H o (VAtom x)) xs) with (map hatom xs) by (apply map_ext; reflexivity).
      rewrite (add_hashes_fph xs [] []); [reflexivity|reflexivity].
    + split; [exact Ok'|]. rewrite Hat in In'. intros a Ha. apply In' in Ha. apply in_app_or in Ha as [Ha|Ha]; auto.
Qed.

Lemma diff_set_m_pure (frozen : bool) m xs ys p1 p2 :
  Inv m -> nodup_atoms xs = true -> nodup_atoms ys = true -> incl xs L -> incl ys L ->
  let v1 := if frozen then VFrozen xs else VSet xs in
  let v2 := if frozen then VFrozen ys else VSet ys in
  fst (diff_set_m H o skip m v1 v2 p1 p2) = diff_set hatom skip xs ys p1 p2 /\
  Inv (snd (diff_set_m H o skip m v1 v2 p1 p2)).
Proof.
  intros I N1 N2 L1 L2 v1 v2. unfold diff_set_m, diff_set_memo.
  destruct (create_hashtable_set frozen m xs I N1 L1) as [E1 I1]. fold v1 in E1, I1.
  destruct (create_hashtable H o m v1) as [tab1 m1]. cbn [fst snd] in E1, I1.
  destruct (create_hashtable_set frozen m1 ys I1 N2 L2) as [E2 I2]. fold v2 in E2, I2.
  destruct (create_hashtable H o m1 v2) as [tab2 m2]. cbn [fst snd] in *. split; [|exact I2].
  subst tab1 tab2. unfold diff_set. f_equal; apply table_side; intros s; apply in_table_fph.
Qed.

End SetPure.

(* ------------------------------------------------------------------ *)
(** * Permutation lemmas *)

Lemma flat_map_app_perm {A B} (g h : A -> list B) l :
  Permutation (flat_map (fun b => g b ++ h b) l) (flat_map g l ++ flat_map h l).
Proof.
  induction l as [|b l IH]; cbn; [constructor|].
  rewrite <- !app_assoc. apply Permutation_app_head.
  eapply Permutation_trans; [apply Permutation_app_head; exact IH|]. apply Permutation_app_swap_app.
Qed.

Lemma flat_map_swap {A B C} (f : A -> B -> list C) la lb :
  Permutation (flat_map (fun a => flat_map (f a) lb) la) (flat_map (fun b => flat_map (fun a => f a b) la) lb).
Proof.
  induction la as [|a la IH]; cbn.
  - induction lb; cbn; [constructor|assumption].
  - eapply Permutation_trans; [apply Permutation_app_head; exact IH|].
    apply Permutation_sym. apply (flat_map_app_perm (f a) (fun b => flat_map (fun a' => f a' b) la)).
Qed.

Lemma flat_map_unique {A B} (q : atom -> bool) (G : atom * A -> list B) (l : list (atom * A)) :
  (forall a b, q a = true -> q b = true -> py_eq a b = true) ->
  nodup_atoms (map fst l) = true ->
  flat_map (fun kv => if q (fst kv) then G kv else []) l =
  match find (fun kv => q (fst kv)) l with Some kv => G kv | None => [] end.
Proof.
  intros Hq. induction l as [|[k0 v0] l IH]; cbn; intros N; [reflexivity|].
  apply andb_true_iff in N as [N0 N]. destruct (q k0) eqn:E0; [|apply IH; exact N].
  rewrite flat_map_nil; [apply app_nil_r|].
  intros [k v] Hin. cbn. destruct (q k) eqn:E; [|reflexivity]. exfalso.
  apply negb_true_iff in N0.
  assert (mem_atom k0 (map fst l) = true).
  { apply mem_atom_In. exists k. split; [apply in_map_iff; exists (k, v); split; [reflexivity|exact Hin]|apply Hq; assumption]. }
  congruence.
Qed.

(* ------------------------------------------------------------------ *)
(** * Transparency of the table *)

Section Pure.
Variable H : pystr -> pystr.
Variable o : hopts.
Hypothesis Hio : ignore_iterable_order o = true.
Variable udiff : pystr -> pystr -> pystr.
Variable ops : path -> list value -> list value -> list opcode.
Variable skip excl : path -> bool.
Variable c : cfg.
Variable L : list atom.
Hypothesis L_na : no_alias L = true.
Notation hatom := (hash_atom H o).
Notation diff := (diff hatom udiff ops skip excl c).
Notation diff_m := (diff_m H o udiff ops skip excl c).
Notation Inv := (Inv H o L).

Definition agrees (rm : RM) (r : R) : Prop :=
  Permutation (fst (fst rm)) (fst r) /\ Permutation (snd (fst rm)) (snd r) /\ Inv (snd rm).

Definition PureAt (t1 : value) : Prop :=
  forall t2 p1 p2 m, Inv m -> wf t1 = true -> wf t2 = true ->
    incl (set_members t1) L -> incl (set_members t2) L ->
    agrees (diff_m m t1 t2 p1 p2) (diff t1 t2 p1 p2).

Lemma agrees_same es rec m : Inv m -> agrees (es, rec, m) (es, rec).
Proof. intros I. split; [apply Permutation_refl|split; [apply Permutation_refl|exact I]]. Qed.

Lemma agrees_app2 (res rest : R) (m1 m2 : memo) (r1 r2 : R) :
  agrees (res, m1) r1 -> agrees (rest, m2) r2 -> agrees (app2 res rest, m2) (app2 r1 r2).
Proof.
  intros (A1 & A2 & _) (B1 & B2 & I). unfold agrees, app2 in *. cbn [fst snd] in *.
  split; [apply Permutation_app; assumption|split; [apply Permutation_app; assumption|exact I]].
Qed.

Lemma incl_flat_map_elem {A} (f : A -> list atom) l x : In x l -> incl (flat_map f l) L -> incl (f x) L.
Proof. intros Hx Hi a Ha. apply Hi. apply in_flat_map. exists x. split; assumption. Qed.

(* sequences *)
Lemma P_go_list xs : Forall PureAt xs -> forall ys i p1 p2 m, Inv m ->
  forallb wf xs = true -> forallb wf ys = true ->
  incl (flat_map set_members xs) L -> incl (flat_map set_members ys) L ->
  agrees (go_list_m skip diff_m p1 p2 xs ys i m) (go_list skip diff p1 p2 xs ys i).
Proof.
  induction 1 as [|x xs Hx _ IH]; intros ys i p1 p2 m I W1 W2 S1 S2.
  - cbn. apply agrees_same. exact I.
  - destruct ys as [|y ys]; [cbn [go_list_m go_list]; apply agrees_same; exact I|].
    change (go_list_m skip diff_m p1 p2 (x :: xs) (y :: ys) i m) with
      (let '(res, m1) := diff_m m x y (snoc p1 (PIdx i)) (snoc p2 (PIdx i)) in
       let '(rest, m2) := go_list_m skip diff_m p1 p2 xs ys (S i) m1 in (app2 res rest, m2)).
    rewrite go_list_cons_cons.
    cbn in W1, W2. apply andb_true_iff in W1 as [Wx W1], W2 as [Wy W2].
    assert (Sx : incl (set_members x) L) by (intros a Ha; apply S1; cbn; apply in_or_app; left; exact Ha).
    assert (Sy : incl (set_members y) L) by (intros a Ha; apply S2; cbn; apply in_or_app; left; exact Ha).
    assert (S1' : incl (flat_map set_members xs) L) by (intros a Ha; apply S1; cbn; apply in_or_app; right; exact Ha).
    assert (S2' : incl (flat_map set_members ys) L) by (intros a Ha; apply S2; cbn; apply in_or_app; right; exact Ha).
    pose proof (Hx y (snoc p1 (PIdx i)) (snoc p2 (PIdx i)) m I Wx Wy Sx Sy) as A.
    destruct (diff_m m x y (snoc p1 (PIdx i)) (snoc p2 (PIdx i))) as [res m1].
    pose proof (IH ys (S i) p1 p2 m1 (proj2 (proj2 A)) W1 W2 S1' S2') as B.
    destruct (go_list_m skip diff_m p1 p2 xs ys (S i) m1) as [rest m2].
    eapply agrees_app2; eassumption.
Qed.

(* dictionaries *)
Section Dict.
Variables kvs1 kvs2 : list (atom * value).
Variables p1 p2 : path.
Hypothesis N1 : nodup_atoms (map fst kvs1) = true.
Hypothesis N2 : nodup_atoms (map fst kvs2) = true.

Definition cell {X} (pr : R -> list X) (kv1 kv2 : atom * value) : list X :=
  if py_eq (fst kv1) (fst kv2)
  then (if keep_key c (fst kv2)
        then pr (diff (snd kv1) (snd kv2) (snoc p1 (PKey (fst kv2))) (snoc p2 (PKey (fst kv2)))) else [])
  else [].

Lemma q_left k a b : py_eq k a = true -> py_eq k b = true -> py_eq a b = true.
Proof. intros E1 E2. rewrite py_eq_sym in E1. eapply py_eq_trans; eassumption. Qed.
Lemma q_right k a b : py_eq a k = true -> py_eq b k = true -> py_eq a b = true.
Proof. intros E1 E2. rewrite py_eq_sym in E2. eapply py_eq_trans; eassumption. Qed.

(* the lead's loop over t1's items, as a double flat_map *)
Lemma common_t1_order {X} (pr : R -> list X) :
  pr ([], []) = [] -> (forall a b, pr (app2 a b) = pr a ++ pr b) ->
  forall l1, pr (go_common c diff kvs2 (keys_of c kvs2) p1 p2 l1) =
             flat_map (fun kv1 => flat_map (cell pr kv1) kvs2) l1.
Proof.
  intros P0 Papp. induction l1 as [|[k v1] l1 IH]; [exact P0|].
  rewrite go_common_cons. cbn [flat_map].
  unfold cell at 1. cbn [fst snd].
  rewrite (flat_map_unique (py_eq k) (fun kv2 => if keep_key c (fst kv2)
      then pr (diff v1 (snd kv2) (snoc p1 (PKey (fst kv2))) (snoc p2 (PKey (fst kv2)))) else []) kvs2 (q_left k) N2).
  destruct (keep_key c k) eqn:Kk.
  - unfold keys_of. rewrite find_fst_filter.
    2:{ intros k' E. rewrite <- (keep_key_py_eq c k k' E). exact Kk. }
    destruct (find (fun kv => py_eq k (fst kv)) kvs2) as [[k' v2]|] eqn:F; cbn [option_map fst snd]; [|exact IH].
    apply find_some in F as [Hin E]. cbn [fst] in E.
    rewrite (assoc_nodup kvs2 k' v2 k' N2 Hin (py_eq_refl k')).
    rewrite <- (keep_key_py_eq c k k' E), Kk. fold (keys_of c kvs2). rewrite Papp, IH. reflexivity.
  - destruct (find (fun kv => py_eq k (fst kv)) kvs2) as [[k' v2]|] eqn:F; [|exact IH].
    apply find_some in F as [_ E]. cbn [fst snd] in *. rewrite <- (keep_key_py_eq c k k' E), Kk. exact IH.
Qed.

Lemma look_m_find d m k v2 l1 :
  look_m d m k v2 p1 p2 l1 =
  match find (fun kv1 => py_eq (fst kv1) k) l1 with
  | Some kv1 => d m (snd kv1) v2 (snoc p1 (PKey k)) (snoc p2 (PKey k))
  | None => ([], [], m)
  end.
Proof. induction l1 as [|[k' v1] l1 IH]; cbn; [reflexivity|]. destruct (py_eq k' k); [reflexivity|exact IH]. Qed.

(* the implementation's loop over t2's items, threaded through the table *)
Lemma common_t2_order :
  Forall (fun kv => PureAt (snd kv)) kvs1 ->
  forallb (fun kv => wf (snd kv)) kvs1 = true ->
  incl (flat_map (fun kv => set_members (snd kv)) kvs1) L ->
  forall l2 m, Inv m ->
    forallb (fun kv => wf (snd kv)) l2 = true ->
    incl (flat_map (fun kv => set_members (snd kv)) l2) L ->
    agrees (go_common_m c diff_m kvs1 p1 p2 l2 m)
           (flat_map (fun kv2 => flat_map (fun kv1 => cell fst kv1 kv2) kvs1) l2,
            flat_map (fun kv2 => flat_map (fun kv1 => cell snd kv1 kv2) kvs1) l2).
Proof.
  intros HP W1 S1. induction l2 as [|[k v2] l2 IH]; intros m I W2 S2.
  - cbn. apply agrees_same. exact I.
  - cbn in W2. apply andb_true_iff in W2 as [Wv W2].
    assert (Sv : incl (set_members v2) L) by (intros a Ha; apply S2; cbn; apply in_or_app; left; exact Ha).
    assert (S2' : incl (flat_map (fun kv => set_members (snd kv)) l2) L) by (intros a Ha; apply S2; cbn; apply in_or_app; right; exact Ha).
    change (go_common_m c diff_m kvs1 p1 p2 ((k, v2) :: l2) m) with
      (if keep_key c k then
         let '(res, m1) := look_m diff_m m k v2 p1 p2 kvs1 in
         let '(rest, m2) := go_common_m c diff_m kvs1 p1 p2 l2 m1 in (app2 res rest, m2)
       else go_common_m c diff_m kvs1 p1 p2 l2 m).
    cbn [flat_map]. unfold cell at 1 3. cbn [fst snd].
    rewrite !(flat_map_unique (fun a => py_eq a k) _ kvs1 (q_right k) N1).
    destruct (keep_key c k) eqn:Kk.
    + rewrite look_m_find.
      destruct (find (fun kv1 => py_eq (fst kv1) k) kvs1) as [[k1 v1]|] eqn:F.
      * apply find_some in F as [Hin _]. cbn [snd].
        assert (PureAt v1) as Pv by (eapply Forall_forall in HP; [|exact Hin]; exact HP).
        assert (wf v1 = true) as Wv1 by (eapply forallb_forall in W1; [|exact Hin]; exact W1).
        assert (incl (set_members v1) L) as Sv1 by (apply (incl_flat_map_elem (fun kv => set_members (snd kv)) kvs1 (k1, v1) Hin S1)).
        pose proof (Pv v2 (snoc p1 (PKey k)) (snoc p2 (PKey k)) m I Wv1 Wv Sv1 Sv) as A.
        destruct (diff_m m v1 v2 (snoc p1 (PKey k)) (snoc p2 (PKey k))) as [res m1].
        pose proof (IH m1 (proj2 (proj2 A)) W2 S2') as B.
        destruct (go_common_m c diff_m kvs1 p1 p2 l2 m1) as [rest m2].
        destruct A as (A1 & A2 & _), B as (B1 & B2 & B3). unfold agrees, app2. cbn [fst snd] in *.
        split; [apply Permutation_app; assumption|split; [apply Permutation_app; assumption|exact B3]].
      * pose proof (IH m I W2 S2') as B.
        destruct (go_common_m c diff_m kvs1 p1 p2 l2 m) as [rest m2].
        destruct B as (B1 & B2 & B3). unfold agrees, app2. cbn [fst snd app] in *. split; [assumption|split; [assumption|exact B3]].
    + destruct (find (fun kv : atom * value => py_eq (fst kv) k) kvs1); cbn [app]; apply IH; assumption.
Qed.

Lemma cell_swap {X} (pr : R -> list X) :
  Permutation (flat_map (fun kv2 => flat_map (fun kv1 => cell pr kv1 kv2) kvs1) kvs2)
              (flat_map (fun kv1 => flat_map (cell pr kv1) kvs2) kvs1).
Proof. apply (flat_map_swap (fun kv2 kv1 => cell pr kv1 kv2)). Qed.

End Dict.

Lemma P_dict_body kvs1 kvs2 p1 p2 m :
  Forall (fun kv => PureAt (snd kv)) kvs1 -> Inv m ->
  wf (VDict kvs1) = true -> wf (VDict kvs2) = true ->
  incl (set_members (VDict kvs1)) L -> incl (set_members (VDict kvs2)) L ->
  agrees (dict_body_m H o udiff ops skip excl c m kvs1 kvs2 p1 p2) (dict_body hatom udiff ops skip excl c kvs1 kvs2 p1 p2).
Proof.
  intros HP I W1 W2 S1 S2. cbn in W1, W2. apply andb_true_iff in W1 as [N1 W1], W2 as [N2 W2].
  unfold dict_body_m, dict_body. destruct (dict_shortcut _ _ _ _ _); [apply agrees_same; exact I|].
  pose proof (common_t2_order kvs1 p1 p2 N1 HP W1 S1 kvs2 m I W2 S2) as (A1 & A2 & A3).
  destruct (go_common_m c diff_m kvs1 p1 p2 kvs2 m) as [[es rec] m']. unfold agrees. cbn [fst snd] in *.
  split; [|split; [|exact A3]].
  - apply Permutation_app_head, Permutation_app_head.
    eapply Permutation_trans; [exact A1|]. eapply Permutation_trans; [apply cell_swap|].
    rewrite <- (common_t1_order kvs2 p1 p2 N2 fst eq_refl (fun a b => eq_refl)). apply Permutation_refl.
  - eapply Permutation_trans; [exact A2|]. eapply Permutation_trans; [apply cell_swap|].
    rewrite <- (common_t1_order kvs2 p1 p2 N2 snd eq_refl (fun a b => eq_refl)). apply Permutation_refl.
Qed.

Lemma P_seq_body xs ys p1 p2 m :
  Forall PureAt xs -> Inv m -> forallb wf xs = true -> forallb wf ys = true ->
  incl (flat_map set_members xs) L -> incl (flat_map set_members ys) L ->
  agrees (seq_body_m H o udiff ops skip excl c m xs ys p1 p2) (seq_body hatom udiff ops skip excl c xs ys p1 p2).
Proof.
  intros HP I W1 W2 S1 S2. unfold seq_body_m, seq_body.
  destruct (negb (zip c) && forallb is_atom xs && forallb is_atom ys).
  - destruct (default_leaf_list udiff ops skip xs ys p1 p2) as [es rec]. apply agrees_same. exact I.
  - apply P_go_list; assumption.
Qed.

Theorem diff_m_agrees : forall t1, PureAt t1.
Proof.
  induction t1 as [a|xs IH|xs IH|kvs IH|xs|xs] using value_ind'; intros t2 p1 p2 m I W1 W2 S1 S2;
    (destruct (skip p1) eqn:Hs; [rewrite diff_m_skip, diff_skip by exact Hs; apply agrees_same; exact I|]);
    (match goal with |- context [diff ?t1 t2 _ _] => destruct (ty_eqb (type_of t1) (type_of t2)) eqn:T end;
     [|rewrite diff_m_type, diff_type by assumption; apply agrees_same; exact I]);
    pose proof T as T'; apply ty_eqb_true in T'; destruct t2; try discriminate T'; try (destruct a; discriminate T').
  - rewrite diff_m_atom, diff_atom_eq by exact Hs. destruct (negb _); apply agrees_same; exact I.
  - rewrite diff_m_list, diff_list by exact Hs. apply P_seq_body; assumption.
  - rewrite diff_m_tuple, diff_tuple by exact Hs. apply P_seq_body; assumption.
  - rewrite diff_m_dict, diff_dict by exact Hs. apply P_dict_body; assumption.
  - rewrite diff_m_vset, diff_vset by exact Hs. cbn in W1, W2, S1, S2.
    destruct (diff_set_m_pure H o Hio skip L L_na false m xs xs0 p1 p2 I W1 W2 S1 S2) as [E I'].
    cbn zeta in E, I'. destruct (diff_set_m H o skip m (VSet xs) (VSet xs0) p1 p2) as [es m']. cbn [fst snd] in *.
    subst es. apply agrees_same. exact I'.
  - rewrite diff_m_vfrozen, diff_vfrozen by exact Hs. cbn in W1, W2, S1, S2.
    destruct (diff_set_m_pure H o Hio skip L L_na true m xs xs0 p1 p2 I W1 W2 S1 S2) as [E I'].
    cbn zeta in E, I'. destruct (diff_set_m H o skip m (VFrozen xs) (VFrozen xs0) p1 p2) as [es m']. cbn [fst snd] in *.
    subst es. apply agrees_same. exact I'.
Qed.

End Pure.

(* ------------------------------------------------------------------ *)
(** * Final statements *)

Section Final.
Variable H : pystr -> pystr.
Variable o : hopts.
Hypothesis Hio : ignore_iterable_order o = true.
Variable udiff : pystr -> pystr -> pystr.
Variable ops : path -> list value -> list value -> list opcode.
Variable skip excl : path -> bool.
Variable c : cfg.
Notation hatom := (hash_atom H o).

(* Under the alias-free guard the table is transparent: the same levels are reported (as
   multisets: common dict keys are visited in t2's order instead of t1's), the same opcode
   paths are recorded, and the table stays sound and alias-free. *)
Theorem diff_m_pure m t1 t2 p1 p2 :
  memo_ok H o m -> wf t1 = true -> wf t2 = true ->
  no_alias (matoms m ++ set_members t1 ++ set_members t2) = true ->
  let r := diff_m H o udiff ops skip excl c m t1 t2 p1 p2 in
  Permutation (fst (fst r)) (fst (diff hatom udiff ops skip excl c t1 t2 p1 p2)) /\
  Permutation (snd (fst r)) (snd (diff hatom udiff ops skip excl c t1 t2 p1 p2)) /\
  memo_ok H o (snd r) /\ incl (matoms (snd r)) (matoms m ++ set_members t1 ++ set_members t2).
Proof.
  intros Hok W1 W2 NA r.
  assert (I : Inv H o (matoms m ++ set_members t1 ++ set_members t2) m) by (split; [exact Hok|apply incl_appl, incl_refl]).
  destruct (diff_m_agrees H o Hio udiff ops skip excl c _ NA t1 t2 p1 p2 m I W1 W2) as (A1 & A2 & A3 & A4).
  - apply incl_appr, incl_appl, incl_refl.
  - apply incl_appr, incl_appr, incl_refl.
  - split; [exact A1|split; [exact A2|split; [exact A3|exact A4]]].
Qed.

Lemma memo_ok_nil : memo_ok H o [].
Proof. intros k h []. Qed.

Lemma run_entries t1 t2 :
  fst (fst (run_diff_m H o udiff ops skip excl c t1 t2)) =
  mutual (fst (fst (diff_m H o udiff ops skip excl c [] t1 t2 [] []))).
Proof. unfold run_diff_m. destruct (diff_m _ _ _ _ _ _ _ _ _ _ _ _) as [[es rec] m]. reflexivity. Qed.

(* C04 transfers: every level reported by a run with the table is backed by the inputs *)
Theorem run_diff_m_faithful t1 t2 :
  thr_num c <= thr_den c -> wf t1 = true -> wf t2 = true ->
  no_alias (set_members t1 ++ set_members t2) = true ->
  forall e, In e (fst (fst (run_diff_m H o udiff ops skip excl c t1 t2))) -> faithful false t1 t2 e.
Proof.
  intros Hthr W1 W2 NA e He. rewrite run_entries in He.
  destruct (diff_m_pure [] t1 t2 [] [] memo_ok_nil W1 W2 NA) as (P & _).
  pose proof (diff_faithful hatom udiff ops skip excl c t1 t2 Hthr t1 t2 [] [] eq_refl W1 W2 eq_refl eq_refl) as HF.
  apply (Permutation_Forall (Permutation_sym P)) in HF.
  pose proof (mutual_weak t1 t2 _ HF) as HW. eapply Forall_forall in HW; eassumption.
Qed.

End Final.

Section FinalNoSkip.
Variable H : pystr -> pystr.
Variable o : hopts.
Hypothesis Hio : ignore_iterable_order o = true.
Variable udiff : pystr -> pystr -> pystr.
Variable ops : path -> list value -> list value -> list opcode.
Variable excl : path -> bool.
Variable c : cfg.

(* C02 transfers, copy clause *)
Theorem run_diff_m_copy_empty t :
  thr_num c <= thr_den c -> tiling ops -> wf t = true -> no_alias (set_members t) = true ->
  fst (fst (run_diff_m H o udiff ops noskip excl c t t)) = [].
Proof.
  intros Hthr Ht W NA. rewrite run_entries.
  assert (NA2 : no_alias (set_members t ++ set_members t) = true).
  { apply (no_alias_incl _ (set_members t)); [apply incl_app; apply incl_refl|exact NA]. }
  destruct (diff_m_pure H o Hio udiff ops noskip excl c [] t t [] [] (memo_ok_nil H o) W W NA2) as (P & _).
  rewrite (diff_copy_empty (hash_atom H o) udiff ops excl c Hthr Ht t [] W) in P.
  apply Permutation_sym, Permutation_nil in P. rewrite P. reflexivity.
Qed.

(* C02 transfers, soundness: injective hasher, default options, keys looked at, set members
   tag-safe and alias-free *)
Theorem run_diff_m_empty_sound t1 t2 :
  (forall s t, H s = H t -> s = t) -> plain o = true -> valid_ops ops ->
  wf t1 = true -> wf t2 = true ->
  inputs_ok (keep_key c) tag_safe_atom t1 = true -> inputs_ok (keep_key c) tag_safe_atom t2 = true ->
  no_alias (set_members t1 ++ set_members t2) = true ->
  fst (fst (run_diff_m H o udiff ops noskip excl c t1 t2)) = [] -> py_eqv t1 t2 = true.
Proof.
  intros HH Hp V W1 W2 K1 K2 NA E. rewrite run_entries in E. apply mutual_nil in E.
  destruct (diff_m_pure H o Hio udiff ops noskip excl c [] t1 t2 [] [] (memo_ok_nil H o) W1 W2 NA) as (P & _).
  rewrite E in P. apply Permutation_nil in P.
  eapply (diff_empty_sound (hash_atom H o) udiff ops excl c tag_safe_atom); try eassumption.
  intros a b Ta Tb Eh. eapply HashProofsC07.hash_atom_inj; eassumption.
Qed.

End FinalNoSkip.

(* C03 transfers: positional mode with the table = the recursive definition (as multisets of entries) *)
Section FinalPositional.
Variable H : pystr -> pystr.
Variable o : hopts.
Hypothesis Hio : ignore_iterable_order o = true.
Hypothesis HH : forall s t, H s = H t -> s = t.
Hypothesis Hp : plain o = true.
Variable udiff : pystr -> pystr -> pystr.
Variable ops : path -> list value -> list value -> list opcode.
Variable excl : path -> bool.
Variable d : nat.
Variable ip : bool.
Notation c := (mkCfg true 0 d ip).

Theorem run_diff_m_positional_is_spec t1 t2 :
  wf t1 = true -> wf t2 = true ->
  inputs_ok any_atom tag_safe_atom t1 = true -> inputs_ok any_atom tag_safe_atom t2 = true ->
  no_alias (set_members t1 ++ set_members t2) = true ->
  Permutation (TextView.text_view 2 (fst (fst (run_diff_m H o udiff ops noskip excl c t1 t2))))
              (Spec.spec_diff udiff ip t1 t2).
Proof.
  intros W1 W2 G1 G2 NA. rewrite run_entries.
  destruct (diff_m_pure H o Hio udiff ops noskip excl c [] t1 t2 [] [] (memo_ok_nil H o) W1 W2 NA) as (P & _).
  set (es_m := fst (fst (diff_m H o udiff ops noskip excl c [] t1 t2 [] []))) in *.
  set (es := fst (diff (hash_atom H o) udiff ops noskip excl c t1 t2 [] [])) in *.
  assert (Hthr : thr_num c <= thr_den c) by (cbn; lia).
  pose proof (added_unresolved (hash_atom H o) udiff ops noskip excl c eq_refl t1 t1 t2 [] [] W1 eq_refl) as HA.
  pose proof (diff_faithful (hash_atom H o) udiff ops noskip excl c t1 t2 Hthr t1 t2 [] [] eq_refl W1 W2 eq_refl eq_refl) as HF.
  fold es in HA, HF.
  apply (Permutation_Forall (Permutation_sym P)) in HA. apply (Permutation_Forall (Permutation_sym P)) in HF.
  rewrite mutual_id.
  - eapply Permutation_trans; [apply Permutation_flat_map; exact P|].
    unfold es. fold (TextView.text_view 2 (fst (diff (hash_atom H o) udiff ops noskip excl c t1 t2 [] []))).
    rewrite (positional_diff_is_spec (hash_atom H o) udiff ops excl d ip tag_safe_atom); try assumption; [apply Permutation_refl|].
    intros a b Ta Tb E. eapply HashProofsC07.hash_atom_inj; eassumption.
  - intros a r Ha Hr Ka Kr E.
    eapply Forall_forall in HA; [|exact Ha]. eapply Forall_forall in HF; [|exact Hr].
    specialize (HA Ka). unfold faithful in HF. rewrite Kr in HF. destruct HF as (x & _ & _ & Rx & _).
    rewrite E in HA. congruence.
Qed.
End FinalPositional.

(* ------------------------------------------------------------------ *)
(** * Without the guard: the table is observable (finding K2), and so is the visiting order *)

(* {1,'a'} vs {1.0,'a'}: the run with the table reports nothing (as the implementation does),
   the memo-free model reports two set items *)
Lemma diff_m_pure_refuted_alias :
  wf k2_t1 = true /\ wf k2_t2 = true /\
  fst (fst (run_diff_m hexhash default_opts (fun _ _ => []) one_block noskip noskip (mkCfg false 33 100 true) k2_t1 k2_t2)) = [] /\
  length (fst (run_diff (hash_atom hexhash default_opts) (fun _ _ => []) one_block noskip noskip (mkCfg false 33 100 true) k2_t1 k2_t2)) = 2.
Proof. repeat split; vm_compute; reflexivity. Qed.

(* the order in which _diff_dict visits the common keys (t2's) is observable when two set pairs
   of one run share aliased / tag-colliding members:
     {'x': {1.0}, 'y': {1}} vs {'y': {'int:1'}, 'x': {1.0}}  ->  {}          ('y' first: 1 and 'int:1' collide)
     {'x': {1.0}, 'y': {1}} vs {'x': {1.0}, 'y': {'int:1'}}  ->  two items   ('x' first: 1 gets 1.0's hash) *)
Definition ord_t1 : value := VDict [(AStr [120%N], VSet [AHalf 2]); (AStr [121%N], VSet [AInt 1])].
Definition int1 : atom := AStr [105%N; 110%N; 116%N; 58%N; 49%N].
Definition ord_t2_yx : value := VDict [(AStr [121%N], VSet [int1]); (AStr [120%N], VSet [AHalf 2])].
Definition ord_t2_xy : value := VDict [(AStr [120%N], VSet [AHalf 2]); (AStr [121%N], VSet [int1])].
Lemma visiting_order_observable :
  value_eqb ord_t2_yx ord_t2_xy = false /\ py_eqv ord_t2_yx ord_t2_xy = true /\
  fst (fst (run_diff_m hexhash default_opts (fun _ _ => []) one_block noskip noskip (mkCfg false 33 100 true) ord_t1 ord_t2_yx)) = [] /\
  length (fst (fst (run_diff_m hexhash default_opts (fun _ _ => []) one_block noskip noskip (mkCfg false 33 100 true) ord_t1 ord_t2_xy))) = 2.
Proof. repeat split; vm_compute; reflexivity. Qed.

(* positional mode, table inside the model, aliased set members: the model (like the implementation)
   reports nothing, the recursive definition two set items (finding K2) *)
Lemma positional_with_table_refuted_alias :
  wf k2_t1 = true /\ wf k2_t2 = true /\
  TextView.text_view 2 (fst (fst (run_diff_m hexhash default_opts (fun _ _ => []) one_block noskip noskip (mkCfg true 0 1 true) k2_t1 k2_t2))) = [] /\
  length (Spec.spec_diff (fun _ _ => []) true k2_t1 k2_t2) = 2.
Proof. repeat split; vm_compute; reflexivity. Qed.

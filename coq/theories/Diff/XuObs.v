(** Hypotheses of the C02 theorems over the extended universe as COMPUTABLE predicates, evaluated by the
    correspondence check on the set members of real inputs with the model of the real item hash (Diff/XuHash.v):
    [hash_separates h l] - on the atoms of l equal item hashes only for ==-equal atoms (the hypothesis of
    C02x_empty_sound_partial / C02_empty_sound_separating), [ok_x k] - where that is expected to hold: strings that
    spell no type tag (finding K1), datetime members all aware (k = true) or all naive (C02-NAIVE-AWARE), time members
    naive (C02-TIME-TZ-IN-SET).  Definitions only. *)
From Coq Require Import List ZArith NArith Bool.
Import ListNotations.
From DD Require Import Base.PyStr Diff.XuValue Diff.XuTree Diff.XuModel Diff.XuEmpty Diff.XuHash.
From DD Require Hash.HashModel.

Definition ok_x (k : bool) (a : atom) : bool :=
  match a with
  | ADt _ o => Bool.eqb (is_aware o) k
  | ATime _ o => negb (is_aware o)
  | _ => match to_base a with Some b => HashModel.tag_safe_atom b | None => true end
  end.

Definition hash_separates (h : atom -> pystr) (l : list atom) : bool :=
  forallb (fun a => forallb (fun b => implb (pystr_eqb (h a) (h b)) (py_eq a b)) l) l.

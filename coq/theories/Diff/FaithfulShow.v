(** Executable readings of the C04 shape predicates for the correspondence check (no theorem depends on
    this file): harness/props/c04.py evaluates them inside Coq on the generated inputs and compares with its
    own Python reading - the one its K17 / K18 matchers use. *)
From Coq Require Import List ZArith NArith Bool Arith String.
Import ListNotations.
From DD Require Import Base.Sx Base.PyStr Base.Value Path.PathModel Diff.Tree Diff.DiffModel Diff.DiffShow
  Diff.FaithfulSource.

(* which t1 indexes the opcode list removes and which t2 indexes it adds (removes_at / adds_at of
   Diff/FaithfulSource.v, the vocabulary of C04_K17_exact) *)
Definition sx_c04_marks (os : list opcode) (xs ys : list value) : sx :=
  SL [SL (map (fun i => sx_bool (removes_at os xs ys i)) (seq 0 (List.length xs)));
      SL (map (fun i => sx_bool (adds_at os xs ys i)) (seq 0 (List.length ys)))].

(* the entry-local guard of C04_text_entries_faithful_local on a run: how many reported levels have a path
   whose keys satisfy C09's guard, out of how many *)
Definition sx_c04_local_guard (r : list entry * list path) : sx :=
  SL [sx_nat (List.length (filter (fun e => path_ok (ep1 e)) (fst r))); sx_nat (List.length (fst r))].

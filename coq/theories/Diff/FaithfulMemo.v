(** C04 for the run WITH DeepDiff's run-wide ==-keyed DeepHash table ([Diff/DiffMemo.v], the model that is
    faithful on inputs whose sets hold ==-aliased members: 1 / True / 1.0 ...).

    [DiffMemoFinal.run_diff_m_is_memo_free]: before mutual_add_removes the levels of the run with the table are a
    permutation of those of the memo-free run whose item hash is read off the final table.  Here the step
    through mutual_add_removes is added: it is order-sensitive in general ("the LAST added level with this
    path"), but all added levels of a faithful run that share a path carry the same value, so the two runs
    report the SAME SET of levels and record the same opcode paths ([run_diff_m_same_entries]).  Every C04
    statement about [run_diff] - entries resolve, K17 exactly, K18 exactly, new_path, text view with the local
    guard - therefore holds verbatim of [run_diff_m], for every hasher, every DeepHash option set, all
    well-formed inputs, no alias guard. *)
From Coq Require Import List ZArith NArith Bool Arith Lia Permutation.
Import ListNotations.
From DD Require Import Base.PyStr Base.Value Base.ValueFacts Path.PathModel Path.PathProofs
  Diff.Tree Diff.DiffModel Diff.DiffFacts Diff.DiffFaithful Diff.TextView Diff.TextFaithful
  Hash.HashModel Diff.DiffMemo Diff.DiffMemoProofs Diff.DiffMemoFinal
  Diff.FaithfulShape Diff.FaithfulSource Diff.FaithfulExact.

(* ------------------------------------------------------------------ *)
(** * membership in [mutual es] does not depend on the order of es *)

Lemma last_with_path_none p l : last_with_path p l = None -> forall x, In x l -> ep1 x <> p.
Proof.
  intros H x Hx E. destruct (last_with_path_ex p l x Hx E) as [y Hy]. congruence.
Qed.

Definition adds_agree (es : list entry) : Prop :=
  forall a a', In a es -> In a' es -> ekind a = KIterAdd -> ekind a' = KIterAdd -> ep1 a = ep1 a' -> et2 a = et2 a'.

(* the two-sided version: same members *)
Lemma mutual_In_same es es' e :
  (forall x, In x es <-> In x es') -> adds_agree es' -> In e (mutual es) -> In e (mutual es').
Proof.
  intros Same AG He. unfold mutual in He. apply in_flat_map in He as (e0 & H0 & He).
  assert (H0' : In e0 es') by (apply Same; exact H0).
  destruct (ekind e0) eqn:K; try (destruct He as [<-|[]]; apply mutual_keeps; [exact H0'|rewrite K; discriminate..]).
  - (* an added level that is kept: no removed level has its path *)
    destruct (last_with_path (ep1 e0) (filter (is_kind KIterRem) es)) as [r|] eqn:LR; [destruct He|].
    destruct He as [<-|[]]. unfold mutual. apply in_flat_map. exists e0. split; [exact H0'|]. rewrite K.
    destruct (last_with_path (ep1 e0) (filter (is_kind KIterRem) es')) as [r'|] eqn:LR'; [|left; reflexivity].
    exfalso. apply last_with_path_In in LR' as [Hr' Pr']. apply filter_In in Hr' as [Hr' Kr'].
    apply (last_with_path_none _ _ LR r'); [|exact Pr']. apply filter_In. split; [apply Same; exact Hr'|exact Kr'].
  - (* a removed level *)
    destruct (last_with_path (ep1 e0) (filter (is_kind KIterAdd) es)) as [a|] eqn:LA.
    + destruct (last_with_path (ep1 e0) (filter (is_kind KIterRem) es)) as [r|] eqn:LR.
      2:{ exfalso. apply (last_with_path_none _ _ LR e0); [|reflexivity]. apply filter_In. split; [exact H0|apply is_kind_eq; exact K]. }
      destruct He as [<-|[]].
      apply last_with_path_In in LA as [Ha Pa]. apply filter_In in Ha as [Ha Ka]. apply is_kind_eq in Ka.
      assert (Ha' : In a es') by (apply Same; exact Ha).
      destruct (mutual_merge_In es' e0 a H0' K Ha' Ka Pa) as (a' & Ha'' & Ka' & Pa' & M).
      replace (mkEntry KValue (ep1 e0) (ep2 e0) (et1 e0) (et2 a) (ediff e0)) with (merged e0 a') ; [exact M|].
      unfold merged. f_equal. apply AG; try assumption. congruence.
    + destruct He as [<-|[]]. unfold mutual. apply in_flat_map. exists e0. split; [exact H0'|]. rewrite K.
      destruct (last_with_path (ep1 e0) (filter (is_kind KIterAdd) es')) as [a'|] eqn:LA'; [|left; reflexivity].
      exfalso. apply last_with_path_In in LA' as [Ha' Pa']. apply filter_In in Ha' as [Ha' Ka'].
      apply (last_with_path_none _ _ LA a'); [|exact Pa']. apply filter_In. split; [apply Same; exact Ha'|exact Ka'].
Qed.

Lemma faithful_adds_agree t1 t2 es : Forall (faithful true t1 t2) es -> adds_agree es.
Proof.
  intros F a a' Ha Ha' Ka Ka' P.
  pose proof (proj1 (Forall_forall _ _) F a Ha) as Fa. pose proof (proj1 (Forall_forall _ _) F a' Ha') as Fa'.
  unfold faithful in Fa, Fa'. rewrite Ka in Fa. rewrite Ka' in Fa'.
  destruct Fa as (b & _ & E & R & Q), Fa' as (b' & _ & E' & R' & Q'). rewrite E, E'. rewrite <- Q, P, Q', R' in R. congruence.
Qed.

(* ------------------------------------------------------------------ *)
Section Memo.
Variable H : pystr -> pystr.
Variable o : hopts.
Variable udiff : pystr -> pystr -> pystr.
Variable ops : path -> list value -> list value -> list opcode.
Variable skip excl : path -> bool.
Variable c : cfg.
Notation run_m := (run_diff_m H o udiff ops skip excl c).

(* the memo-free run with the item hash read off the table the run ends with *)
Definition run_h (t1 t2 : value) : list entry * list path :=
  run_diff (hfin H o (final_table H o udiff ops excl c skip t1 t2)) udiff ops skip excl c t1 t2.

Lemma run_m_snd t1 t2 :
  snd (fst (run_m t1 t2)) = snd (fst (diff_m H o udiff ops skip excl c [] t1 t2 [] [])).
Proof. unfold run_diff_m. destruct (diff_m _ _ _ _ _ _ _ _ _ _ _ _) as [[es rec] m]. reflexivity. Qed.

Theorem run_diff_m_same_entries t1 t2 :
  thr_num c <= thr_den c -> wf t1 = true -> wf t2 = true ->
  (forall e, In e (fst (fst (run_m t1 t2))) <-> In e (fst (run_h t1 t2))) /\
  (forall q, In q (snd (fst (run_m t1 t2))) <-> In q (snd (run_h t1 t2))).
Proof.
  intros Hthr W1 W2. rewrite run_entries, run_m_snd. unfold run_h.
  destruct (run_diff_m_is_memo_free H o udiff ops excl c skip t1 t2 W1 W2) as (_ & P & Pr).
  set (g := hfin H o (final_table H o udiff ops excl c skip t1 t2)) in *.
  pose proof (diff_faithful g udiff ops skip excl c t1 t2 Hthr t1 t2 [] [] eq_refl W1 W2 eq_refl eq_refl) as HF.
  unfold run_diff. destruct (diff g udiff ops skip excl c t1 t2 [] []) as [es rec]. cbn [fst snd] in *.
  set (esm := fst (fst (diff_m H o udiff ops skip excl c [] t1 t2 [] []))) in *.
  assert (Same : forall x, In x esm <-> In x es).
  { intros x. split; intros Hx; [eapply Permutation_in; [exact P|exact Hx]|eapply Permutation_in; [apply Permutation_sym; exact P|exact Hx]]. }
  assert (HFm : Forall (faithful true t1 t2) esm) by (apply (Permutation_Forall (Permutation_sym P)); exact HF).
  split.
  - intros e. split; intros He.
    + eapply mutual_In_same; [exact Same|eapply faithful_adds_agree; exact HF|exact He].
    + eapply mutual_In_same; [intros x; symmetry; apply Same|eapply faithful_adds_agree; exact HFm|exact He].
  - intros q. split; intros Hq; [eapply Permutation_in; [exact Pr|exact Hq]|eapply Permutation_in; [apply Permutation_sym; exact Pr|exact Hq]].
Qed.

Section Transfer.
Variables t1 t2 : value.
Hypothesis Hthr : thr_num c <= thr_den c.
Hypothesis W1 : wf t1 = true.
Hypothesis W2 : wf t2 = true.

Let SE := proj1 (run_diff_m_same_entries t1 t2 Hthr W1 W2).
Let SR := proj2 (run_diff_m_same_entries t1 t2 Hthr W1 W2).

Lemma k17_shape_rec rc rc' e : (forall q, In q rc <-> In q rc') ->
  k17_shape ops skip c t1 t2 rc e -> k17_shape ops skip c t1 t2 rc' e.
Proof.
  intros S (q & i & xs & ys & x & y & A & L & Hq & R). exists q, i, xs, ys, x, y.
  split; [exact A|]. split; [exact L|]. split; [apply S; exact Hq|exact R].
Qed.

Lemma k18_shape_rec rc rc' e : (forall q, In q rc <-> In q rc') ->
  k18_shape udiff ops skip c t1 t2 rc e -> k18_shape udiff ops skip c t1 t2 rc' e.
Proof.
  intros S (K & q & xs & ys & ob & k & a & b & (A & L & U & R) & N). split; [exact K|].
  exists q, xs, ys, ob, k, a, b. split; [|exact N]. split; [exact A|]. split; [exact L|]. split; [|exact R].
  destruct U as [U|U]; [left; apply S; exact U|right; exact U].
Qed.

(* K17, exactly, for the run with the table *)
Theorem memo_k17_exact e :
  (In e (fst (fst (run_m t1 t2))) /\ ~ faithful true t1 t2 e) <->
  k17_shape ops skip c t1 t2 (snd (fst (run_m t1 t2))) e.
Proof.
  split.
  - intros [He NF]. apply SE in He. unfold run_h in He.
    eapply k17_shape_rec; [intros q; symmetry; apply SR|]. unfold run_h.
    apply (proj1 (k17_exact _ udiff ops skip excl c t1 t2 Hthr W1 W2 e)). split; assumption.
  - intros S. eapply k17_shape_rec in S; [|intros q; apply SR]. unfold run_h in S.
    apply (proj2 (k17_exact _ udiff ops skip excl c t1 t2 Hthr W1 W2 e)) in S. destruct S as [He NF].
    split; [apply SE; exact He|exact NF].
Qed.

Theorem memo_faithful_except_k17 e : In e (fst (fst (run_m t1 t2))) ->
  faithful true t1 t2 e \/ k17_shape ops skip c t1 t2 (snd (fst (run_m t1 t2))) e.
Proof.
  intros He. apply SE in He.
  destruct (faithful_except_k17 _ udiff ops skip excl c t1 t2 Hthr W1 W2 e He) as [F|S]; [left; exact F|right].
  eapply k17_shape_rec; [|exact S]. intros q. symmetry. apply SR.
Qed.

(* the text view, verbose_level >= 2, entry-local guard *)
Theorem memo_text_faithful verbose e te :
  2 <= verbose -> In e (fst (fst (run_m t1 t2))) -> path_ok (ep1 e) = true ->
  In te (text_of verbose e) -> tfaithful false t1 t2 te.
Proof.
  intros V He O1 Hte. apply SE in He. eapply text_faithful_local; eassumption.
Qed.

(* verbose_level = 1: K18, exactly *)
Theorem memo_k18_exact e te :
  In e (fst (fst (run_m t1 t2))) -> path_ok (ep1 e) = true -> In te (text_of 1 e) ->
  (~ tfaithful false t1 t2 te <-> k18_shape udiff ops skip c t1 t2 (snd (fst (run_m t1 t2))) e).
Proof.
  intros He O1 Hte. apply SE in He. unfold run_h in He.
  pose proof (k18_exact _ udiff ops skip excl c t1 t2 Hthr W1 W2 e te He O1 Hte) as X.
  split.
  - intros NT. apply X in NT. eapply k18_shape_rec; [intros q; symmetry; apply SR|exact NT].
  - intros S. apply X. eapply k18_shape_rec; [intros q; apply SR|exact S].
Qed.

End Transfer.
End Memo.

(* non-vacuity on an input OUTSIDE the alias-free guard of the memo-free correspondence: the sets hold 1 and
   1.0 / True; the run with the table reports levels, all of them faithful by the theorems above *)
Definition al_t1 : value := VList [VSet [AInt 1; AStr [97%N]]; VList [VAtom (AInt 1); VAtom (ABool true)]].
Definition al_t2 : value := VList [VSet [AHalf 2; AStr [98%N]]; VList [VAtom (AHalf 2); VAtom (AInt 2)]].
Definition al_ops (_ : path) (_ _ : list value) : list opcode := [mkOp OEqual 0 1 0 1; mkOp OReplace 1 2 1 2].
Example memo_alias_run_nonempty :
  wf al_t1 = true /\ wf al_t2 = true /\
  no_alias (set_members al_t1 ++ set_members al_t2) = false /\
  length (fst (fst (run_diff_m hexhash default_opts (fun _ _ => []) al_ops (fun _ => false) (fun _ => false)
                      (mkCfg false 33 100 true) al_t1 al_t2))) = 3.
Proof. vm_compute. repeat split; reflexivity. Qed.

(** C04: every level reported by the ordered diff is backed by the inputs.
    Proved for BOTH alignment modes and for EVERY opcode oracle (valid or not):
    the entries take their values from the actual slices. *)
From Coq Require Import List ZArith NArith Bool Arith Lia.
Import ListNotations.
From DD Require Import Base.PyStr Base.Value Base.ValueFacts Path.PathModel
  Diff.Tree Diff.DiffModel Diff.DiffFacts.

Definition set_has (s : value) (y : atom) : Prop :=
  match s with VSet l | VFrozen l => In y l | _ => False end.

(* [strong]: also demand that a changed value really differs *)
Definition faithful (strong : bool) (r1 r2 : value) (e : entry) : Prop :=
  match ekind e with
  | KType => exists a b, et1 e = Some a /\ et2 e = Some b /\
               resolve r1 (ep1 e) = Some a /\ resolve r2 (ep2 e) = Some b /\
               type_of a <> type_of b
  | KValue => exists a b, et1 e = Some a /\ et2 e = Some b /\
               resolve r1 (ep1 e) = Some a /\ resolve r2 (ep2 e) = Some b /\
               (strong = true -> py_eqv a b = false)
  | KDictAdd => exists b, et1 e = None /\ et2 e = Some b /\
               resolve r2 (ep2 e) = Some b /\ resolve r1 (ep1 e) = None
  | KDictRem => exists a, et1 e = Some a /\ et2 e = None /\
               resolve r1 (ep1 e) = Some a /\ resolve r2 (ep2 e) = None
  | KIterAdd => exists b, et1 e = None /\ et2 e = Some b /\ resolve r2 (ep2 e) = Some b /\ ep1 e = ep2 e
  | KIterRem => exists a, et1 e = Some a /\ et2 e = None /\ resolve r1 (ep1 e) = Some a /\ ep1 e = ep2 e
  | KIterMoved => exists a b, et1 e = Some a /\ et2 e = Some b /\
               resolve r1 (ep1 e) = Some a /\ resolve r2 (ep2 e) = Some b /\ py_eqv a b = true
  | KSetAdd => exists y s, et1 e = None /\ et2 e = Some (VAtom y) /\
               resolve r2 (ep2 e) = Some s /\ set_has s y
  | KSetRem => exists x s, et1 e = Some (VAtom x) /\ et2 e = None /\
               resolve r1 (ep1 e) = Some s /\ set_has s x
  | KRepetition => False
  end.

Lemma faithful_weaken r1 r2 e : faithful true r1 r2 e -> faithful false r1 r2 e.
Proof.
  unfold faithful. destruct (ekind e); try exact (fun H => H).
  intros (a & b & H1 & H2 & H3 & H4 & _). exists a, b. repeat split; try assumption. discriminate.
Qed.

Definition seq_items (v : value) : option (list value) :=
  match v with VList xs | VTuple xs => Some xs | _ => None end.

Lemma resolve_seq_item r p v xs i x :
  resolve r p = Some v -> seq_items v = Some xs -> nth_error xs i = Some x ->
  resolve r (snoc p (PIdx i)) = Some x.
Proof.
  intros Hr Hs Hn. unfold snoc. rewrite resolve_snoc, Hr.
  destruct v; cbn in Hs; try discriminate; inversion Hs; subst.
  - rewrite get_item_idx_list. exact Hn.
  - rewrite get_item_idx_tuple. exact Hn.
Qed.

Section Faithful.
Variable hatom : atom -> pystr.
Variable udiff : pystr -> pystr -> pystr.
Variable ops : path -> list value -> list value -> list opcode.
Variable skip excl : path -> bool.
Variable c : cfg.
Variables r1 r2 : value.
Notation diff := (diff hatom udiff ops skip excl c).
Notation F := (faithful true r1 r2).

Lemma F_report_type p1 p2 a b :
  resolve r1 p1 = Some a -> resolve r2 p2 = Some b -> type_of a <> type_of b ->
  Forall F (report skip KType p1 p2 (Some a) (Some b) None).
Proof.
  intros H1 H2 T. unfold report. destruct (skip p1); constructor; [|constructor].
  exists a, b. cbn. repeat split; assumption.
Qed.

Lemma F_report_value p1 p2 a b d :
  resolve r1 p1 = Some a -> resolve r2 p2 = Some b -> py_eqv a b = false ->
  Forall F (report skip KValue p1 p2 (Some a) (Some b) d).
Proof.
  intros H1 H2 T. unfold report. destruct (skip p1); constructor; [|constructor].
  exists a, b. cbn. repeat split; try assumption. intros _. exact T.
Qed.

Lemma ty_eqb_false a b : ty_eqb a b = false -> a <> b.
Proof. intros H E. subst. destruct b; discriminate. Qed.
Lemma ty_eqb_true a b : ty_eqb a b = true -> a = b.
Proof. destruct a, b; cbn; intros H; try discriminate; reflexivity. Qed.

Lemma F_diff_atom a b p1 p2 :
  resolve r1 p1 = Some (VAtom a) -> resolve r2 p2 = Some (VAtom b) ->
  Forall F (diff_atom udiff skip a b p1 p2).
Proof.
  intros H1 H2. unfold diff_atom. destruct (skip p1) eqn:Hs; [constructor|].
  destruct (ty_eqb (atom_ty a) (atom_ty b)) eqn:T; cbn [negb].
  2:{ apply F_report_type; try assumption. cbn. apply ty_eqb_false. exact T. }
  destruct a as [|ba|za|ta|sa|sa], b as [|bb|zb|tb|sb|sb]; try discriminate T;
    try (destruct (py_eq _ _) eqn:E; [constructor|apply F_report_value; assumption]).
  - unfold diff_str. destruct (pystr_eqb sa sb) eqn:E; [constructor|].
    destruct (true && _); apply F_report_value; try assumption; cbn; unfold py_eq; cbn; exact E.
  - unfold diff_str. destruct (pystr_eqb sa sb) eqn:E; [constructor|].
    destruct (_ && _); apply F_report_value; try assumption; cbn; unfold py_eq; cbn; exact E.
Qed.

Lemma F_removed_from xs i p1 p2 : p1 = p2 ->
  (forall k x, nth_error xs k = Some x -> resolve r1 (snoc p1 (PIdx (i + k))) = Some x) ->
  Forall F (removed_from skip xs i p1 p2).
Proof.
  intros Hp. revert i; induction xs as [|x xs IH]; intros i H; cbn; [constructor|].
  apply Forall_app; split.
  - unfold report. destruct (skip _); constructor; [|constructor].
    exists x. cbn. repeat split; [|rewrite Hp; reflexivity]. specialize (H 0 x eq_refl). rewrite Nat.add_0_r in H. exact H.
  - apply IH. intros k y Hk. specialize (H (S k) y Hk). rewrite Nat.add_succ_r in H. exact H.
Qed.

Lemma F_added_from ys j p1 p2 : p1 = p2 ->
  (forall k y, nth_error ys k = Some y -> resolve r2 (snoc p2 (PIdx (j + k))) = Some y) ->
  Forall F (added_from skip ys j p1 p2).
Proof.
  intros Hp. revert j; induction ys as [|y ys IH]; intros j H; cbn; [constructor|].
  apply Forall_app; split.
  - unfold report. destruct (skip _); constructor; [|constructor].
    exists y. cbn. repeat split; [|rewrite Hp; reflexivity]. specialize (H 0 y eq_refl). rewrite Nat.add_0_r in H. exact H.
  - apply IH. intros k z Hk. specialize (H (S k) z Hk). rewrite Nat.add_succ_r in H. exact H.
Qed.

Lemma F_pairs_leaf xs ys i j p1 p2 : p1 = p2 ->
  (forall k x, nth_error xs k = Some x -> resolve r1 (snoc p1 (PIdx (i + k))) = Some x) ->
  (forall k y, nth_error ys k = Some y -> resolve r2 (snoc p2 (PIdx (j + k))) = Some y) ->
  Forall F (pairs_leaf udiff skip xs ys i j p1 p2).
Proof.
  intros Hp. revert ys i j; induction xs as [|x xs IH]; intros ys i j H1 H2.
  - cbn. destruct ys; apply F_added_from; [exact Hp|exact H2|exact Hp|exact H2].
  - destruct ys as [|y ys].
    + cbn [pairs_leaf]. apply F_removed_from; [exact Hp|exact H1].
    + cbn [pairs_leaf]. apply Forall_app; split.
      * pose proof (H1 0 x eq_refl) as Hx. pose proof (H2 0 y eq_refl) as Hy.
        rewrite Nat.add_0_r in Hx, Hy.
        destruct (negb (i =? j) && py_eq_leaf x y) eqn:E.
        -- apply andb_true_iff in E as [_ E].
           unfold report. destruct (skip _); constructor; [|constructor].
           exists x, y. cbn. repeat split; try assumption.
           destruct x, y; cbn in E; try discriminate. exact E.
        -- unfold diff_leaf. destruct x, y; try constructor. apply F_diff_atom; assumption.
      * apply IH.
        -- intros k z Hk. specialize (H1 (S k) z Hk). rewrite Nat.add_succ_r in H1. exact H1.
        -- intros k z Hk. specialize (H2 (S k) z Hk). rewrite Nat.add_succ_r in H2. exact H2.
Qed.

Lemma slice_resolve r p v XS a b :
  resolve r p = Some v -> seq_items v = Some XS ->
  forall k x, nth_error (slice XS a b) k = Some x -> resolve r (snoc p (PIdx (a + k))) = Some x.
Proof.
  intros Hr Hs k x Hk.
  assert (Hlt : k < b - a).
  { pose proof (slice_length_le XS a b). assert (k < length (slice XS a b)) by (apply nth_error_Some; congruence). lia. }
  rewrite nth_error_slice in Hk by exact Hlt.
  eapply resolve_seq_item; eassumption.
Qed.

Lemma F_by_opcodes os v1 v2 XS YS p1 p2 : p1 = p2 ->
  resolve r1 p1 = Some v1 -> seq_items v1 = Some XS ->
  resolve r2 p2 = Some v2 -> seq_items v2 = Some YS ->
  Forall F (by_opcodes udiff skip os XS YS p1 p2).
Proof.
  intros Hp H1 S1 H2 S2. unfold by_opcodes.
  induction os as [|o os IH]; cbn; [constructor|].
  apply Forall_app; split; [|exact IH].
  destruct (otag o).
  - constructor.
  - apply F_pairs_leaf; [exact Hp| |]; eapply slice_resolve; eassumption.
  - apply F_removed_from; [exact Hp|]; eapply slice_resolve; eassumption.
  - apply F_added_from; [exact Hp|]; eapply slice_resolve; eassumption.
Qed.

Lemma whole_resolve r p v XS :
  resolve r p = Some v -> seq_items v = Some XS ->
  forall k x, nth_error XS k = Some x -> resolve r (snoc p (PIdx (0 + k))) = Some x.
Proof. intros Hr Hs k x Hk. cbn. eapply resolve_seq_item; eassumption. Qed.

Lemma F_default_leaf_list v1 v2 XS YS p1 p2 : p1 = p2 ->
  resolve r1 p1 = Some v1 -> seq_items v1 = Some XS ->
  resolve r2 p2 = Some v2 -> seq_items v2 = Some YS ->
  Forall F (fst (default_leaf_list udiff ops skip XS YS p1 p2)).
Proof.
  intros Hp H1 S1 H2 S2. unfold default_leaf_list.
  assert (P1 : Forall F (by_opcodes udiff skip (ops p1 XS YS) XS YS p1 p2))
    by (eapply F_by_opcodes; eassumption).
  assert (P2 : Forall F (pairs_leaf udiff skip XS YS 0 0 p1 p2))
    by (apply F_pairs_leaf; [exact Hp| |]; eapply whole_resolve; eassumption).
  destruct (1 <? _); [|exact P1].
  destruct (_ <=? _); [exact P2|exact P1].
Qed.

(* sets *)
Lemma first_per_hash_In l seen a : In a (first_per_hash hatom l seen) -> In a l.
Proof.
  revert seen; induction l as [|x l IH]; intros seen; cbn; [tauto|].
  destruct (existsb _ seen).
  - intros H; right; eapply IH; exact H.
  - intros [H|H]; [left; exact H|right; eapply IH; exact H].
Qed.

Lemma F_diff_set v1 v2 xs ys p1 p2 :
  resolve r1 p1 = Some v1 -> resolve r2 p2 = Some v2 ->
  (forall x, In x xs -> set_has v1 x) -> (forall y, In y ys -> set_has v2 y) ->
  Forall F (diff_set hatom skip xs ys p1 p2).
Proof.
  intros H1 H2 M1 M2. unfold diff_set. apply Forall_app; split.
  - apply Forall_forall. intros e He. apply in_flat_map in He as (y & Hy & He).
    destruct (existsb _ _); [destruct He|].
    unfold report_set in He. destruct (skip p1); [destruct He|]. destruct He as [<-|[]].
    exists y, v2. cbn. repeat split; try assumption. apply M2. eapply first_per_hash_In; exact Hy.
  - apply Forall_forall. intros e He. apply in_flat_map in He as (x & Hx & He).
    destruct (existsb _ _); [destruct He|].
    unfold report_set in He. destruct (skip p1); [destruct He|]. destruct He as [<-|[]].
    exists x, v1. cbn. repeat split; try assumption. apply M1. eapply first_per_hash_In; exact Hx.
Qed.

End Faithful.

(* ---- dictionaries ---- *)
Lemma keep_key_py_eq c k k' : py_eq k k' = true -> keep_key c k = keep_key c k'.
Proof.
  intros E. unfold keep_key, private_key.
  destruct k as [|bk|zk|tk|sk|sk], k' as [|bk'|zk'|tk'|sk'|sk']; try reflexivity;
    unfold py_eq in E; cbn in E; try discriminate.
  apply pystr_eqb_eq in E. subst. reflexivity.
Qed.

Lemma keys_of_In c kvs k : In k (keys_of c kvs) <-> In k (map fst kvs) /\ keep_key c k = true.
Proof. unfold keys_of. apply filter_In. Qed.

Lemma mem_keys_of c kvs k :
  keep_key c k = true -> mem_atom k (keys_of c kvs) = mem_atom k (map fst kvs).
Proof.
  intros K. destruct (mem_atom k (map fst kvs)) eqn:M.
  - apply mem_atom_In in M as (b & Hb & E). apply mem_atom_In. exists b. split; [|exact E].
    apply keys_of_In. split; [exact Hb|]. rewrite <- (keep_key_py_eq c k b E). exact K.
  - destruct (mem_atom k (keys_of c kvs)) eqn:M2; [|reflexivity].
    apply mem_atom_In in M2 as (b & Hb & E). apply keys_of_In in Hb as [Hb _].
    assert (mem_atom k (map fst kvs) = true) by (apply mem_atom_In; exists b; split; assumption). congruence.
Qed.

Lemma assoc_nodup {B} (l : list (atom * B)) k v k' :
  nodup_atoms (map fst l) = true -> In (k, v) l -> py_eq k k' = true -> assoc k' l = Some v.
Proof.
  induction l as [|[k0 v0] l IH]; cbn; intros N H E; [destruct H|].
  apply andb_true_iff in N as [N0 N].
  destruct H as [H|H].
  - inversion H; subst. rewrite E. reflexivity.
  - destruct (py_eq k0 k') eqn:E0; [|apply IH; assumption].
    exfalso. apply negb_true_iff in N0.
    assert (mem_atom k0 (map fst l) = true).
    { apply mem_atom_In. exists k. split; [apply in_map_iff; exists (k, v); split; [reflexivity|exact H]|].
      eapply py_eq_trans; [exact E0|rewrite py_eq_sym; exact E]. }
    congruence.
Qed.

Lemma filter_nil {A} (f : A -> bool) l : (forall x, In x l -> f x = false) -> filter f l = [].
Proof.
  induction l as [|x l IH]; cbn; intros H; [reflexivity|].
  rewrite (H x (or_introl eq_refl)). apply IH. intros y Hy. apply H. right. exact Hy.
Qed.
Lemma filter_all {A} (f : A -> bool) l : (forall x, In x l -> f x = true) -> filter f l = l.
Proof.
  induction l as [|x l IH]; cbn; intros H; [reflexivity|].
  rewrite (H x (or_introl eq_refl)). f_equal. apply IH. intros y Hy. apply H. right. exact Hy.
Qed.
Lemma filter_length_le {A} (f : A -> bool) l : length (filter f l) <= length l.
Proof. induction l as [|x l IH]; cbn; [lia|]. destruct (f x); cbn; lia. Qed.

Lemma shortcut_differ excl c kvs1 kvs2 p1 :
  thr_num c <= thr_den c ->
  nodup_atoms (map fst kvs1) = true ->
  dict_shortcut excl c (keys_of c kvs1) (keys_of c kvs2) p1 = true ->
  py_eqv (VDict kvs1) (VDict kvs2) = false.
Proof.
  intros Hthr N S. destruct (py_eqv (VDict kvs1) (VDict kvs2)) eqn:E; [exfalso|reflexivity].
  destruct (py_eqv_dict_same_keys kvs1 kvs2 N E) as [K12 K21].
  unfold dict_shortcut in S. destruct (thr_num c =? 0) eqn:Z; [discriminate|].
  apply andb_true_iff in S as [S1 S2]. apply Nat.ltb_lt in S1, S2.
  assert (A1 : filter (fun k => negb (mem_atom k (keys_of c kvs2))) (keys_of c kvs1) = []).
  { apply filter_nil. intros k Hk. apply keys_of_In in Hk as [Hk Kk].
    rewrite mem_keys_of by exact Kk. rewrite K12 by exact Hk. reflexivity. }
  assert (A2 : filter (fun k => mem_atom k (keys_of c kvs1)) (keys_of c kvs2) = keys_of c kvs2).
  { apply filter_all. intros k Hk. apply keys_of_In in Hk as [Hk Kk].
    rewrite mem_keys_of by exact Kk. apply K21. exact Hk. }
  rewrite A1, A2, app_nil_r in *.
  pose proof (filter_length_le (fun k => negb (excl (snoc p1 (PKey k)))) (keys_of c kvs2)) as L.
  nia.
Qed.

Lemma wf_list_In xs x : forallb wf xs = true -> In x xs -> wf x = true.
Proof. intros H Hx. eapply forallb_forall in H; eassumption. Qed.

Section Main.
Variable hatom : atom -> pystr.
Variable udiff : pystr -> pystr -> pystr.
Variable ops : path -> list value -> list value -> list opcode.
Variable skip excl : path -> bool.
Variable c : cfg.
Variables r1 r2 : value.
Hypothesis Hthr : thr_num c <= thr_den c.
Notation diff := (diff hatom udiff ops skip excl c).
Notation F := (faithful true r1 r2).

Definition IHP (t1 : value) : Prop :=
  forall t2 p1 p2, p1 = p2 -> wf t1 = true -> wf t2 = true ->
    resolve r1 p1 = Some t1 -> resolve r2 p2 = Some t2 -> Forall F (fst (diff t1 t2 p1 p2)).

Lemma F_go_list xs : Forall IHP xs -> forall ys i v1 v2 XS YS p1 p2, p1 = p2 ->
  resolve r1 p1 = Some v1 -> seq_items v1 = Some XS ->
  resolve r2 p2 = Some v2 -> seq_items v2 = Some YS ->
  (forall k x, nth_error xs k = Some x -> nth_error XS (i + k) = Some x) ->
  (forall k y, nth_error ys k = Some y -> nth_error YS (i + k) = Some y) ->
  forallb wf xs = true -> forallb wf ys = true ->
  Forall F (fst (go_list skip diff p1 p2 xs ys i)).
Proof.
  induction 1 as [|x xs Hx _ IH]; intros ys i v1 v2 XS YS p1 p2 Hp H1 S1 H2 S2 N1 N2 W1 W2.
  - cbn. apply F_added_from; [exact Hp|]. intros k y Hk. eapply resolve_seq_item; try eassumption. apply N2. exact Hk.
  - destruct ys as [|y ys].
    + cbn [go_list fst]. apply F_removed_from; [exact Hp|]. intros k z Hk. eapply resolve_seq_item; try eassumption. apply N1. exact Hk.
    + cbn [go_list]. unfold app2. cbn [fst]. apply Forall_app; split.
      * cbn in W1, W2. apply andb_true_iff in W1 as [Wx _], W2 as [Wy _].
        apply Hx; try assumption.
        -- rewrite Hp; reflexivity.
        -- eapply resolve_seq_item; try eassumption. specialize (N1 0 x eq_refl). rewrite Nat.add_0_r in N1. exact N1.
        -- eapply resolve_seq_item; try eassumption. specialize (N2 0 y eq_refl). rewrite Nat.add_0_r in N2. exact N2.
      * cbn in W1, W2. apply andb_true_iff in W1 as [_ W1], W2 as [_ W2].
        eapply IH; try eassumption.
        -- intros k z Hk. specialize (N1 (S k) z Hk). rewrite Nat.add_succ_r in N1. exact N1.
        -- intros k z Hk. specialize (N2 (S k) z Hk). rewrite Nat.add_succ_r in N2. exact N2.
Qed.

Lemma F_seq_body xs ys v1 v2 p1 p2 : p1 = p2 ->
  Forall IHP xs ->
  resolve r1 p1 = Some v1 -> seq_items v1 = Some xs ->
  resolve r2 p2 = Some v2 -> seq_items v2 = Some ys ->
  forallb wf xs = true -> forallb wf ys = true ->
  Forall F (fst (seq_body hatom udiff ops skip excl c xs ys p1 p2)).
Proof.
  intros Hp IH H1 S1 H2 S2 W1 W2. unfold seq_body.
  destruct (negb (zip c) && forallb is_atom xs && forallb is_atom ys).
  - pose proof (F_default_leaf_list udiff ops skip r1 r2 v1 v2 xs ys p1 p2 Hp H1 S1 H2 S2) as P.
    destruct (default_leaf_list udiff ops skip xs ys p1 p2) as [es rec]. exact P.
  - eapply F_go_list; try eassumption; intros k z Hk; exact Hk.
Qed.

Lemma F_go_common kvs1 kvs2 p1 p2 : p1 = p2 ->
  nodup_atoms (map fst kvs1) = true -> nodup_atoms (map fst kvs2) = true ->
  forallb (fun kv => wf (snd kv)) kvs1 = true -> forallb (fun kv => wf (snd kv)) kvs2 = true ->
  resolve r1 p1 = Some (VDict kvs1) -> resolve r2 p2 = Some (VDict kvs2) ->
  forall l, (forall kv, In kv l -> In kv kvs1) -> Forall (fun kv => IHP (snd kv)) l ->
  Forall F (fst (go_common c diff kvs2 (keys_of c kvs2) p1 p2 l)).
Proof.
  intros Hp N1 N2 W1 W2 H1 H2. induction l as [|[k v1] l IH]; intros Sub HI; cbn; [constructor|].
  apply Forall_cons_iff in HI as [Hk HI'].
  assert (Rest : Forall F (fst (go_common c diff kvs2 (keys_of c kvs2) p1 p2 l))).
  { apply IH; [intros kv Hkv; apply Sub; right; exact Hkv|exact HI']. }
  destruct (keep_key c k); [|exact Rest].
  destruct (find (py_eq k) (keys_of c kvs2)) as [k'|] eqn:Fk; [|exact Rest].
  destruct (assoc k' kvs2) as [v2|] eqn:A2; [|exact Rest].
  unfold app2. cbn [fst]. apply Forall_app; split; [|exact Rest].
  apply find_some in Fk as [Hk' E].
  cbn in Hk. apply Hk.
  - rewrite Hp; reflexivity.
  - eapply forallb_forall in W1; [|apply Sub; left; reflexivity]. exact W1.
  - apply assoc_In in A2 as (k'' & Hin & _). eapply forallb_forall in W2; [|exact Hin]. exact W2.
  - unfold snoc. rewrite resolve_snoc, H1. rewrite get_item_key_dict.
    eapply assoc_nodup; [exact N1|apply Sub; left; reflexivity|exact E].
  - unfold snoc. rewrite resolve_snoc, H2. rewrite get_item_key_dict. exact A2.
Qed.

Lemma F_dict_body kvs1 kvs2 p1 p2 : p1 = p2 ->
  Forall (fun kv => IHP (snd kv)) kvs1 ->
  wf (VDict kvs1) = true -> wf (VDict kvs2) = true ->
  resolve r1 p1 = Some (VDict kvs1) -> resolve r2 p2 = Some (VDict kvs2) ->
  Forall F (fst (dict_body hatom udiff ops skip excl c kvs1 kvs2 p1 p2)).
Proof.
  intros Hp IH W1 W2 H1 H2. cbn in W1, W2.
  apply andb_true_iff in W1 as [N1 W1], W2 as [N2 W2].
  unfold dict_body.
  destruct (dict_shortcut excl c (keys_of c kvs1) (keys_of c kvs2) p1) eqn:S.
  - cbn [fst]. apply F_report_value; try assumption. eapply shortcut_differ; eassumption.
  - cbn [fst]. apply Forall_app; split; [|apply Forall_app; split].
    + apply Forall_forall. intros e He. apply in_flat_map in He as (k & Hk & He).
      destruct (mem_atom k (keys_of c kvs1)) eqn:M; [destruct He|].
      unfold report in He. destruct (skip _); [destruct He|]. destruct He as [<-|[]].
      apply keys_of_In in Hk as [Hk Kk].
      destruct (assoc k kvs2) as [b|] eqn:A.
      2:{ apply (proj1 (assoc_None k kvs2)) in A. assert (mem_atom k (map fst kvs2) = true).
          { apply mem_atom_In. exists k. split; [exact Hk|apply py_eq_refl]. } congruence. }
      exists b. cbn. repeat split.
      * unfold snoc. rewrite resolve_snoc, H2, get_item_key_dict. exact A.
      * unfold snoc. rewrite resolve_snoc, H1, get_item_key_dict. apply (proj2 (assoc_None k kvs1)).
        rewrite <- (mem_keys_of c kvs1 k Kk). exact M.
    + apply Forall_forall. intros e He. apply in_flat_map in He as (k & Hk & He).
      destruct (mem_atom k (keys_of c kvs2)) eqn:M; [destruct He|].
      unfold report in He. destruct (skip _); [destruct He|]. destruct He as [<-|[]].
      apply keys_of_In in Hk as [Hk Kk].
      destruct (assoc k kvs1) as [a|] eqn:A.
      2:{ apply (proj1 (assoc_None k kvs1)) in A. assert (mem_atom k (map fst kvs1) = true).
          { apply mem_atom_In. exists k. split; [exact Hk|apply py_eq_refl]. } congruence. }
      exists a. cbn. repeat split.
      * unfold snoc. rewrite resolve_snoc, H1, get_item_key_dict. exact A.
      * unfold snoc. rewrite resolve_snoc, H2, get_item_key_dict. apply (proj2 (assoc_None k kvs2)).
        rewrite <- (mem_keys_of c kvs2 k Kk). exact M.
    + apply (F_go_common kvs1 kvs2); try assumption. intros kv Hkv; exact Hkv.
Qed.

Theorem diff_faithful : forall t1, IHP t1.
Proof.
  induction t1 as [a|xs IH|xs IH|kvs IH|xs|xs] using value_ind'; intros t2 p1 p2 Hp W1 W2 H1 H2;
    (destruct (skip p1) eqn:Hs; [rewrite diff_skip by exact Hs; apply Forall_nil|]);
    (match goal with |- context [diff ?t1 t2 _ _] => destruct (ty_eqb (type_of t1) (type_of t2)) eqn:T end;
     [|rewrite diff_type by assumption; cbn [fst]; apply F_report_type; try assumption; apply ty_eqb_false; exact T]);
    apply ty_eqb_true in T; destruct t2; try discriminate T; try (destruct a; discriminate T).
  - rewrite diff_atom_eq by exact Hs. cbn in T. rewrite T.
    replace (ty_eqb (atom_ty a0) (atom_ty a0)) with true by (destruct (atom_ty a0); reflexivity).
    cbn [negb fst]. apply F_diff_atom; assumption.
  - rewrite diff_list by exact Hs. eapply F_seq_body; try eassumption; reflexivity.
  - rewrite diff_tuple by exact Hs. eapply F_seq_body; try eassumption; reflexivity.
  - rewrite diff_dict by exact Hs. apply F_dict_body; assumption.
  - rewrite diff_vset by exact Hs. cbn [fst]. eapply F_diff_set; try eassumption; intros z Hz; exact Hz.
  - rewrite diff_vfrozen by exact Hs. cbn [fst]. eapply F_diff_set; try eassumption; intros z Hz; exact Hz.
Qed.

End Main.

(* ---- mutual_add_removes_to_become_value_changes ---- *)
Lemma pkey_eqb_eq a b : pkey_eqb a b = true -> a = b.
Proof.
  destruct a, b; cbn; intros H; try discriminate.
  - apply atom_eqb_eq in H. congruence.
  - apply Nat.eqb_eq in H. congruence.
Qed.
Lemma path_eqb_eq p q : path_eqb p q = true -> p = q.
Proof.
  revert q; induction p as [|a p IH]; intros [|b q]; cbn; intros H; try discriminate; [reflexivity|].
  apply andb_true_iff in H as [H1 H2]. apply pkey_eqb_eq in H1. apply IH in H2. congruence.
Qed.

Lemma last_with_path_acc p l acc e :
  fold_left (fun acc e => if path_eqb (ep1 e) p then Some e else acc) l acc = Some e ->
  (In e l /\ ep1 e = p) \/ acc = Some e.
Proof.
  revert acc; induction l as [|x l IH]; cbn; intros acc H; [right; exact H|].
  destruct (IH _ H) as [[Hin Hp]|Hacc].
  - left. split; [right; exact Hin|exact Hp].
  - destruct (path_eqb (ep1 x) p) eqn:E.
    + inversion Hacc; subst. left. split; [left; reflexivity|apply path_eqb_eq; exact E].
    + right. exact Hacc.
Qed.
Lemma last_with_path_In p l e : last_with_path p l = Some e -> In e l /\ ep1 e = p.
Proof.
  unfold last_with_path. intros H. destruct (last_with_path_acc p l None e H) as [H'|H']; [exact H'|discriminate].
Qed.

Section Mutual.
Variables r1 r2 : value.

Lemma mutual_weak es :
  Forall (faithful true r1 r2) es -> Forall (faithful false r1 r2) (mutual es).
Proof.
  intros HF. apply Forall_forall. intros e He. unfold mutual in He.
  apply in_flat_map in He as (e0 & H0 & He).
  pose proof (proj1 (Forall_forall _ _) HF e0 H0) as F0.
  destruct (ekind e0) eqn:K; try (destruct He as [<-|[]]; apply faithful_weaken; exact F0).
  - (* KIterAdd *)
    destruct (last_with_path _ _); [destruct He|]. destruct He as [<-|[]]. apply faithful_weaken; exact F0.
  - (* KIterRem *)
    destruct (last_with_path (ep1 e0) (filter (is_kind KIterAdd) es)) as [a|] eqn:LA.
    2:{ destruct He as [<-|[]]. apply faithful_weaken; exact F0. }
    destruct (last_with_path (ep1 e0) (filter (is_kind KIterRem) es)) as [r|] eqn:LR.
    2:{ destruct He as [<-|[]]. apply faithful_weaken; exact F0. }
    destruct He as [<-|[]].
    apply last_with_path_In in LA as [HaIn Hap]. apply filter_In in HaIn as [HaIn Hak].
    pose proof (proj1 (Forall_forall _ _) HF a HaIn) as Fa.
    unfold is_kind in Hak. unfold faithful in Fa, F0. rewrite K in F0.
    destruct (ekind a); try discriminate Hak.
    destruct Fa as (y & _ & Ey & Ry & Pa). destruct F0 as (x & Ex & _ & Rx & P0).
    exists x, y. cbn. repeat split; try assumption; [|discriminate].
    rewrite <- P0, <- Hap, Pa. exact Ry.
Qed.

End Mutual.

(* ---- the theorem for a whole run ---- *)
Section Run.
Variable hatom : atom -> pystr.
Variable udiff : pystr -> pystr -> pystr.
Variable ops : path -> list value -> list value -> list opcode.
Variable skip excl : path -> bool.
Variable c : cfg.

Theorem run_diff_faithful t1 t2 :
  thr_num c <= thr_den c -> wf t1 = true -> wf t2 = true ->
  forall e, In e (fst (run_diff hatom udiff ops skip excl c t1 t2)) ->
    faithful false t1 t2 e /\
    (In e (fst (diff hatom udiff ops skip excl c t1 t2 [] [])) -> faithful true t1 t2 e).
Proof.
  intros Hthr W1 W2 e He.
  pose proof (diff_faithful hatom udiff ops skip excl c t1 t2 Hthr t1 t2 [] [] eq_refl W1 W2 eq_refl eq_refl) as HF.
  unfold run_diff in He. destruct (diff hatom udiff ops skip excl c t1 t2 [] []) as [es rec] eqn:D.
  cbn [fst] in *. split.
  - pose proof (mutual_weak t1 t2 es HF) as HW. eapply Forall_forall in HW; eassumption.
  - intros Hin. eapply Forall_forall in HF; eassumption.
Qed.

End Run.

(* The full-strength statement (every changed value really differs) is false
   of the faithful model, hence of the code: the real difflib opcodes for
   ['a','b','a','b'] -> ['c','a','b','b','a'] make the first pass win with an
   item removed at index 3 and an item added at index 3; mutual_add_removes
   turns them into values_changed root[3]: 'b' -> 'b'. *)
Definition k17_t1 : value := VList (map (fun ch => VAtom (AStr [ch])) [97; 98; 97; 98]%N).
Definition k17_t2 : value := VList (map (fun ch => VAtom (AStr [ch])) [99; 97; 98; 98; 97]%N).
Definition k17_ops (_ : path) (_ _ : list value) : list opcode :=
  [mkOp OInsert 0 0 0 1; mkOp OEqual 0 2 1 3; mkOp OInsert 2 2 3 4; mkOp OEqual 2 3 4 5; mkOp ODelete 3 4 5 5].

Lemma changed_value_differs_refuted :
  exists e, In e (fst (run_diff (fun _ => []) (fun _ _ => []) k17_ops (fun _ => false) (fun _ => false)
                         (mkCfg false 33 100 true) k17_t1 k17_t2)) /\
            ekind e = KValue /\ et1 e = et2 e.
Proof.
  exists (mkEntry KValue [PIdx 3] [PIdx 3] (Some (VAtom (AStr [98%N]))) (Some (VAtom (AStr [98%N]))) None).
  split; [vm_compute; tauto|split; reflexivity].
Qed.

(** sx renderings of the numpy model's results for the correspondence check
    (mirrored by harness/npcommon.py).  No theorem depends on this file. *)
From Coq Require Import List ZArith NArith Bool Arith String.
Import ListNotations.
From DD Require Import Base.Sx Base.PyStr Base.Value Diff.Tree Diff.DiffModel Diff.TextView
  Diff.DiffShow Diff.NpModel.
Local Open Scope string_scope.

Definition sx_dtype (d : ndtype) : sx :=
  SA (match d with DInt64 => "int64" | DInt32 => "int32" | DFloat64 => "float64" | DBool => "npbool" end).
Definition sx_narr (a : narr) : sx :=
  SL [SA "arr"; sx_dtype (dtype a); SL (map sx_nat (shape a)); SL (map sx_atom (data a))].
Definition sx_py (v : value) : sx := SL [SA "py"; sx_value v].
Definition sx_nleaf (l : nleaf) : sx :=
  match l with
  | LPy v => sx_py v
  | LNp d x => SL [SA "np"; sx_dtype d; sx_atom x]
  | LArr a => sx_narr a
  end.
Definition sx_npkey (k : npkey) : sx :=
  match k with
  | NK k => sx_pkey k
  | NTup t => SL [SA "t"; SL (map sx_nat t)]
  end.
Definition sx_npath (p : npath) : sx := SL (map sx_npkey p).
Definition sx_nentry (e : nentry) : sx :=
  SL [sx_kind (nkind e); sx_npath (np1 e); sx_npath (np2 e); sx_opt sx_nleaf (nt1 e); sx_opt sx_nleaf (nt2 e)].
Definition sx_ntree (es : list nentry) : sx := sx_sorted_list sx_nentry es.

(* text view; Python values are tagged "py", numpy scalars "np" + dtype *)
Definition sx_tentry_py (t : tentry) : sx :=
  match t with
  | TType p a b np vals =>
      SL [SA "type_changes"; sx_str p; sx_ty a; sx_ty b; sx_opt sx_str np;
          sx_opt (fun ab => SL [sx_py (fst ab); sx_py (snd ab)]) vals]
  | TValue p a b np d =>
      SL [SA "values_changed"; sx_str p; sx_py a; sx_py b; sx_opt sx_str np; sx_opt sx_str d]
  | TDictAdd p v => SL [SA "dictionary_item_added"; sx_str p; sx_opt sx_py v]
  | TDictRem p v => SL [SA "dictionary_item_removed"; sx_str p; sx_opt sx_py v]
  | TIterAdd p v => SL [SA "iterable_item_added"; sx_str p; sx_py v]
  | TIterRem p v => SL [SA "iterable_item_removed"; sx_str p; sx_py v]
  | TMoved p np v => SL [SA "iterable_item_moved"; sx_str p; sx_str np; sx_py v]
  | TSetAdd s => SL [SA "set_item_added"; sx_str s]
  | TSetRem s => SL [SA "set_item_removed"; sx_str s]
  end.
Definition sx_np (d : ndtype) (x : atom) : sx := SL [SA "np"; sx_dtype d; sx_atom x].
Definition sx_ntentry (t : ntentry) : sx :=
  match t with
  | NTBase t => sx_tentry_py t
  | NTType p d1 d2 np vals =>
      SL [SA "type_changes"; sx_str p; sx_dtype d1; sx_dtype d2; sx_opt sx_str np;
          sx_opt (fun ab => SL [sx_narr (fst ab); sx_narr (snd ab)]) vals]
  | NTValue p d x y np =>
      SL [SA "values_changed"; sx_str p; sx_np d x; sx_np d y; sx_opt sx_str np; SA "None"]
  | NTIterAdd p d x => SL [SA "iterable_item_added"; sx_str p; sx_np d x]
  | NTIterRem p d x => SL [SA "iterable_item_removed"; sx_str p; sx_np d x]
  end.
Definition sx_ntext (l : list ntentry) : sx := sx_sorted_list sx_ntentry l.

(** The text view (TextResult of deepdiff/model.py) as a function of the result
    tree and verbose_level.  An element of the list is one entry of one
    category of the result dict; the order inside the list is not an observable
    (categories are dicts / ordered sets).  Definitions only. *)
From Coq Require Import List ZArith NArith Bool Arith.
Import ListNotations.
From DD Require Import Base.PyStr Base.Value Path.PathModel Diff.Tree.

Inductive tentry :=
| TType (p : pystr) (old_ty new_ty : ty) (new_path : option pystr) (vals : option (value * value))
| TValue (p : pystr) (old new : value) (new_path : option pystr) (d : option pystr)
| TDictAdd (p : pystr) (v : option value)      (* the value only at verbose_level 2 *)
| TDictRem (p : pystr) (v : option value)
| TIterAdd (p : pystr) (v : value)
| TIterRem (p : pystr) (v : value)
| TMoved (p new_path : pystr) (v : value)
| TSetAdd (s : pystr)                          (* "<path of the set>[<item>]" *)
| TSetRem (s : pystr).

(* str(item), strings wrapped in single quotes ("'%s'" % item) *)
Definition str_item (a : atom) : pystr :=
  match a with
  | AStr s => [cSQ] ++ s ++ [cSQ]
  | ABytes s => [cSQ] ++ repr_bytes s ++ [cSQ]
  | _ => repr_atom a
  end.
Definition set_item_text (p : path) (a : atom) : pystr :=
  render p ++ [cLB] ++ str_item a ++ [cRB].

Definition new_path_of (e : entry) : option pystr :=
  if pystr_eqb (render (ep1 e)) (render (ep2 e)) then None else Some (render (ep2 e)).

Definition opt_val (o : option value) : value := match o with Some v => v | None => VAtom ANone end.
Definition opt_atom (o : option value) : atom :=
  match o with Some (VAtom a) => a | _ => ANone end.

Definition text_of (verbose : nat) (e : entry) : list tentry :=
  let p := render (ep1 e) in
  match ekind e with
  | KType =>
      [TType p (type_of (opt_val (et1 e))) (type_of (opt_val (et2 e)))
             (if Nat.ltb 1 verbose then new_path_of e else None)
             (if Nat.ltb 0 verbose then Some (opt_val (et1 e), opt_val (et2 e)) else None)]
  | KValue =>
      if Nat.ltb 0 verbose
      then [TValue p (opt_val (et1 e)) (opt_val (et2 e))
                   (if Nat.ltb 1 verbose then new_path_of e else None) (ediff e)]
      else []
  | KDictAdd => [TDictAdd p (if Nat.leb 2 verbose then et2 e else None)]
  | KDictRem => [TDictRem p (if Nat.leb 2 verbose then et1 e else None)]
  | KIterAdd => [TIterAdd p (opt_val (et2 e))]
  | KIterRem => [TIterRem p (opt_val (et1 e))]
  | KIterMoved => if Nat.ltb 1 verbose then [TMoved p (render (ep2 e)) (opt_val (et2 e))] else []
  | KSetAdd => [TSetAdd (set_item_text (ep1 e) (opt_atom (et2 e)))]
  | KSetRem => [TSetRem (set_item_text (ep1 e) (opt_atom (et1 e)))]
  | KRepetition => []
  end.

Definition text_view (verbose : nat) (es : list entry) : list tentry :=
  flat_map (text_of verbose) es.

(** C03 with DeepDiff's run-wide ==-keyed DeepHash table and NO alias-free guard: the EXACT positional
    result.

    [spec_mem udiff ip mem] is Diff/Spec.v's recursive definition [spec] with the membership test
    used at set / frozenset pairs as a parameter; [spec_mem member] IS [spec] (by computation).
    [spec_k] takes  mem a l := existsb (keq a) l  with  keq a b := key_eq (VAtom a) (VAtom b):
    Python == except that a bool is only == to the same bool - the equality the table is keyed by.

    Main theorem [run_diff_m_positional_is_spec_k]: for every injective hasher, [plain] options,
    well-formed inputs whose set members are [tag_safe_atom], the verbose text view of the positional
    run WITH the table is [spec_k], as a multiset of entries.  No condition on ==-aliased members.

    Route: [DiffMemoFinal.diff_m_final] holds for EVERY table extending the one the run ends with; pad
    the final table with (pure) entries for all set members of the inputs: then every member is found in
    the table, and on found, tag-safe atoms the hash the table serves has exactly the equality pattern
    [keq] ([hfin_pattern]).  [positional_diff_is_spec_rel] generalises DiffSpecProofs.positional_diff_is_spec
    from an injective item hash to an item hash whose equality pattern is any relation [rel] finer than
    Python ==. *)
From Coq Require Import List ZArith NArith Bool Arith Lia Permutation.
Import ListNotations.
From DD Require Import Base.PyStr Base.Value Base.ValueFacts Path.PathModel
  Diff.Tree Diff.DiffModel Diff.TextView Diff.DiffFacts Diff.DiffFaithful Diff.DiffEmpty Diff.Spec
  Diff.DiffSpecProofs Hash.HashModel Hash.HashProofsMemo Hash.HashMembers Diff.DiffMemo Diff.DiffMemoProofs
  Diff.DiffMemoFinal.
From DD Require Hash.HashProofsC07.

(* ------------------------------------------------------------------ *)
(** * The equality the table is keyed by *)

Definition keq (a b : atom) : bool := key_eq (VAtom a) (VAtom b).
Definition atom_is_bool (a : atom) : bool := match a with ABool _ => true | _ => false end.

Lemma keq_iff a b : keq a b = true <-> py_eq a b = true /\ atom_is_bool a = atom_is_bool b.
Proof.
  unfold keq, key_eq, atom_is_bool.
  destruct a as [|x|x|x|x|x], b as [|y|y|y|y|y]; cbn [py_eqv];
    try (split; [intros E; split; [exact E|reflexivity]|intros [E _]; exact E]);
    try (split; [discriminate|intros [_ E]; discriminate E]).
  destruct x, y; cbn; split; intros E; try split; try reflexivity; try discriminate E; destruct E as [E _]; discriminate E.
Qed.

Lemma keq_py_eq a b : keq a b = true -> py_eq a b = true.
Proof. intros E. apply keq_iff in E. apply E. Qed.
Lemma keq_refl a : keq a a = true.
Proof. apply keq_iff. split; [apply py_eq_refl|reflexivity]. Qed.
Lemma keq_sym_true a b : keq a b = true -> keq b a = true.
Proof. intros E. apply keq_iff in E as [E1 E2]. apply keq_iff. split; [rewrite py_eq_sym; exact E1|symmetry; exact E2]. Qed.
Lemma keq_sym a b : keq a b = keq b a.
Proof.
  destruct (keq a b) eqn:E1, (keq b a) eqn:E2; try reflexivity.
  - apply keq_sym_true in E1. congruence.
  - apply keq_sym_true in E2. congruence.
Qed.
Lemma keq_trans a b c : keq a b = true -> keq b c = true -> keq a c = true.
Proof.
  intros E1 E2. apply keq_iff in E1 as [P1 B1], E2 as [P2 B2]. apply keq_iff.
  split; [eapply py_eq_trans; eassumption|congruence].
Qed.
Lemma atom_eqb_keq a b : atom_eqb a b = true -> keq a b = true.
Proof. intros E. apply atom_eqb_eq in E. subst. apply keq_refl. Qed.

(* membership by the table's key equality *)
Definition kmem (a : atom) (l : list atom) : bool := existsb (keq a) l.

(* ------------------------------------------------------------------ *)
(** * The recursive definition, parametrised by the membership test at set pairs *)

Section SpecMem.
Variable udiff : pystr -> pystr -> pystr.
Variable ip : bool.
Variable mem : atom -> list atom -> bool.

Fixpoint spec_mem (t1 t2 : value) (p : path) {struct t1} : list tentry :=
  if negb (ty_eqb (type_of t1) (type_of t2))
  then [TType (render p) (type_of t1) (type_of t2) None (Some (t1, t2))]
  else
  match t1, t2 with
  | VAtom a, VAtom b =>
      if py_eq a b then [] else [TValue (render p) t1 t2 None (text_diff udiff a b)]
  | VDict kvs1, VDict kvs2 =>
      flat_map (fun kv => if visible ip (fst kv) && negb (has_key (fst kv) kvs1)
                          then [TDictAdd (render (at_key p (fst kv))) (Some (snd kv))] else []) kvs2
      ++ flat_map (fun kv => if visible ip (fst kv) && negb (has_key (fst kv) kvs2)
                             then [TDictRem (render (at_key p (fst kv))) (Some (snd kv))] else []) kvs1
      ++ (fix common (l : list (atom * value)) : list tentry :=
            match l with
            | [] => []
            | (k, v1) :: r =>
                (if visible ip k
                 then match find (fun kv => py_eq k (fst kv)) kvs2 with
                      | Some (k', v2) => spec_mem v1 v2 (at_key p k')
                      | None => []
                      end
                 else [])
                ++ common r
            end) kvs1
  | VList xs, VList ys | VTuple xs, VTuple ys =>
      (fix zipped (xs ys : list value) (i : nat) {struct xs} : list tentry :=
         match xs, ys with
         | [], _ => tail_items TIterAdd p ys i
         | _ :: _, [] => tail_items TIterRem p xs i
         | x :: xs', y :: ys' => spec_mem x y (at_idx p i) ++ zipped xs' ys' (S i)
         end) xs ys 0
  | VSet xs, VSet ys | VFrozen xs, VFrozen ys =>
      map (fun y => TSetAdd (set_item_text p y)) (filter (fun y => negb (mem y xs)) ys)
      ++ map (fun x => TSetRem (set_item_text p x)) (filter (fun x => negb (mem x ys)) xs)
  | _, _ => []
  end.

Definition specm_common (kvs2 : list (atom * value)) (p : path) :=
  fix common (l : list (atom * value)) : list tentry :=
    match l with
    | [] => []
    | (k, v1) :: r =>
        (if visible ip k
         then match find (fun kv => py_eq k (fst kv)) kvs2 with
              | Some (k', v2) => spec_mem v1 v2 (at_key p k')
              | None => []
              end
         else [])
        ++ common r
    end.

Definition specm_zip (p : path) :=
  fix zipped (xs ys : list value) (i : nat) {struct xs} : list tentry :=
    match xs, ys with
    | [], _ => tail_items TIterAdd p ys i
    | _ :: _, [] => tail_items TIterRem p xs i
    | x :: xs', y :: ys' => spec_mem x y (at_idx p i) ++ zipped xs' ys' (S i)
    end.

Definition specm_sets (xs ys : list atom) (p : path) : list tentry :=
  map (fun y => TSetAdd (set_item_text p y)) (filter (fun y => negb (mem y xs)) ys)
  ++ map (fun x => TSetRem (set_item_text p x)) (filter (fun x => negb (mem x ys)) xs).

Lemma specm_type t1 t2 p :
  ty_eqb (type_of t1) (type_of t2) = false ->
  spec_mem t1 t2 p = [TType (render p) (type_of t1) (type_of t2) None (Some (t1, t2))].
Proof. intros T. destruct t1; cbn [spec_mem]; rewrite T; reflexivity. Qed.

Lemma specm_dict kvs1 kvs2 p :
  spec_mem (VDict kvs1) (VDict kvs2) p =
  flat_map (fun kv => if visible ip (fst kv) && negb (has_key (fst kv) kvs1)
                      then [TDictAdd (render (at_key p (fst kv))) (Some (snd kv))] else []) kvs2
  ++ flat_map (fun kv => if visible ip (fst kv) && negb (has_key (fst kv) kvs2)
                         then [TDictRem (render (at_key p (fst kv))) (Some (snd kv))] else []) kvs1
  ++ specm_common kvs2 p kvs1.
Proof. reflexivity. Qed.

Lemma specm_list xs ys p : spec_mem (VList xs) (VList ys) p = specm_zip p xs ys 0.
Proof. reflexivity. Qed.
Lemma specm_tuple xs ys p : spec_mem (VTuple xs) (VTuple ys) p = specm_zip p xs ys 0.
Proof. reflexivity. Qed.
Lemma specm_vset xs ys p : spec_mem (VSet xs) (VSet ys) p = specm_sets xs ys p.
Proof. reflexivity. Qed.
Lemma specm_vfrozen xs ys p : spec_mem (VFrozen xs) (VFrozen ys) p = specm_sets xs ys p.
Proof. reflexivity. Qed.

End SpecMem.

(* with membership by type and value it IS Diff/Spec.v's definition *)
Lemma spec_mem_member udiff ip : spec_mem udiff ip member = spec udiff ip.
Proof. reflexivity. Qed.

(* the exact positional result with the table *)
Definition spec_k (udiff : pystr -> pystr -> pystr) (ip : bool) (t1 t2 : value) : list tentry :=
  spec_mem udiff ip kmem t1 t2 [].

(* ------------------------------------------------------------------ *)
(** * Positional mode for an item hash with equality pattern [rel] *)

Section PositionalRel.
Variable g : atom -> pystr.
Variable udiff : pystr -> pystr -> pystr.
Variable ops : path -> list value -> list value -> list opcode.
Variable excl : path -> bool.
Variable d : nat.
Variable ip : bool.
Variable ok : atom -> bool.
Variable rel : atom -> atom -> bool.
(* [rel] is finer than Python == ... *)
Hypothesis rel_py : forall a b, rel a b = true -> py_eq a b = true.
(* ... and on [ok] atoms two item hashes are equal exactly for [rel]-related atoms *)
Hypothesis Hpat : forall a b, ok a = true -> ok b = true -> pystr_eqb (g a) (g b) = rel a b.
Notation c := (mkCfg true 0 d ip).
Notation guard := (inputs_ok any_atom ok).
Notation diff := (diff g udiff ops noskip excl c).
Notation rmem := (fun (a : atom) (l : list atom) => existsb (rel a) l).
Notation specm := (spec_mem udiff ip rmem).
Notation tv := (text_view 2).

Local Opaque render set_item_text pystr_eqb.

Lemma hash_mem_rel y xs : ok y = true -> forallb ok xs = true ->
  existsb (pystr_eqb (g y)) (map g xs) = existsb (rel y) xs.
Proof.
  intros Oy. induction xs as [|x xs IH]; cbn; intros O; [reflexivity|].
  apply andb_true_iff in O as [Ox O]. rewrite (IH O), (Hpat y x Oy Ox). reflexivity.
Qed.

Lemma first_per_hash_rel l : forall s,
  nodup_atoms l = true -> (forall a, In a l -> existsb (rel a) s = false) ->
  forallb ok l = true -> forallb ok s = true ->
  first_per_hash g l (map g s) = l.
Proof.
  induction l as [|a l IH]; intros s N Dis Ol Os; cbn [first_per_hash]; [reflexivity|].
  cbn in N. apply andb_true_iff in N as [Na N]. apply negb_true_iff in Na.
  cbn in Ol. apply andb_true_iff in Ol as [Oa Ol].
  rewrite (hash_mem_rel a s Oa Os), (Dis a (or_introl eq_refl)). f_equal.
  change (g a :: map g s) with (map g (a :: s)). apply IH; [exact N| |exact Ol|cbn; rewrite Oa; exact Os].
  intros b Hb. cbn [existsb]. rewrite (Dis b (or_intror Hb)), orb_false_r.
  destruct (rel b a) eqn:E; [|reflexivity]. exfalso. apply rel_py in E. rewrite py_eq_sym in E.
  assert (mem_atom a l = true) by (apply mem_atom_In; exists b; split; assumption). congruence.
Qed.

Lemma tv_diff_set_rel xs ys p :
  nodup_atoms xs = true -> nodup_atoms ys = true ->
  forallb ok xs = true -> forallb ok ys = true ->
  tv (diff_set g noskip xs ys p p) = specm_sets rmem xs ys p.
Proof.
  intros N1 N2 O1 O2. unfold diff_set, specm_sets.
  change (@nil pystr) with (map g []).
  rewrite !first_per_hash_rel by (try assumption; try reflexivity; intros a _; reflexivity).
  rewrite text_view_app. unfold text_view. rewrite !flat_map_flat_map. f_equal.
  - rewrite <- flat_map_if_filter. apply flat_map_ext_in'. intros y Hy.
    rewrite hash_mem_rel by (try assumption; eapply forallb_forall in O2; eassumption).
    destruct (existsb (rel y) xs); reflexivity.
  - rewrite <- flat_map_if_filter. apply flat_map_ext_in'. intros x Hx.
    rewrite hash_mem_rel by (try assumption; eapply forallb_forall in O1; eassumption).
    destruct (existsb (rel x) ys); reflexivity.
Qed.

Definition IHR (t1 : value) : Prop :=
  forall t2 p, wf t1 = true -> wf t2 = true -> guard t1 = true -> guard t2 = true ->
    tv (fst (diff t1 t2 p p)) = specm t1 t2 p.

Lemma tv_go_list_rel xs : Forall IHR xs -> forall ys i p,
  forallb wf xs = true -> forallb wf ys = true ->
  forallb guard xs = true -> forallb guard ys = true ->
  tv (fst (go_list noskip diff p p xs ys i)) = specm_zip udiff ip rmem p xs ys i.
Proof.
  induction 1 as [|x xs Hx _ IH]; intros ys i p W1 W2 G1 G2.
  - rewrite go_list_nil. cbn [fst]. rewrite tv_added_from. destruct ys; reflexivity.
  - destruct ys as [|y ys].
    + rewrite go_list_cons_nil. cbn [fst]. rewrite tv_removed_from. reflexivity.
    + rewrite go_list_cons_cons. unfold app2. cbn [fst]. rewrite text_view_app.
      cbn in W1, W2, G1, G2.
      apply andb_true_iff in W1 as [Wx W1], W2 as [Wy W2], G1 as [Gx G1], G2 as [Gy G2].
      rewrite (Hx y (snoc p (PIdx i)) Wx Wy Gx Gy), (IH ys (S i) p W1 W2 G1 G2). reflexivity.
Qed.

Lemma tv_go_common_rel kvs2 p :
  nodup_atoms (map fst kvs2) = true -> forallb (fun kv => wf (snd kv)) kvs2 = true ->
  forallb (fun kv => any_atom (fst kv) && guard (snd kv)) kvs2 = true ->
  forall l, forallb (fun kv => wf (snd kv)) l = true ->
  forallb (fun kv => any_atom (fst kv) && guard (snd kv)) l = true ->
  Forall (fun kv => IHR (snd kv)) l ->
  tv (fst (go_common c diff kvs2 (keys_of c kvs2) p p l)) = specm_common udiff ip rmem kvs2 p l.
Proof.
  intros N2 W2 G2. induction l as [|[k v1] l IH]; intros W1 G1 HI; [reflexivity|].
  apply Forall_cons_iff in HI as [Hk HI']. cbn in W1, G1.
  apply andb_true_iff in W1 as [Wv W1], G1 as [Gv G1].
  specialize (IH W1 G1 HI'). rewrite go_common_cons. cbn [specm_common].
  rewrite keep_visible. destruct (visible ip k) eqn:Vk; [|exact IH].
  unfold keys_of. rewrite find_fst_filter.
  2:{ intros k' E. rewrite <- (keep_key_py_eq c k k' E), keep_visible. exact Vk. }
  destruct (find (fun kv => py_eq k (fst kv)) kvs2) as [[k' v2]|] eqn:F; cbn [option_map fst]; [|exact IH].
  apply find_some in F as [Hin E]. cbn [fst] in E.
  rewrite (assoc_nodup kvs2 k' v2 k' N2 Hin (py_eq_refl k')).
  unfold app2. cbn [fst]. rewrite text_view_app. fold (keys_of c kvs2). rewrite IH. f_equal.
  cbn in Hk. apply Hk; [exact Wv| |exact Gv|].
  - eapply forallb_forall in W2; [|exact Hin]. exact W2.
  - eapply forallb_forall in G2; [|exact Hin]. exact G2.
Qed.

(* DiffSpecProofs.positional_diff_is_spec for an item hash that need not be injective *)
Theorem positional_diff_is_spec_rel : forall t1, IHR t1.
Proof.
  induction t1 as [a|xs IH|xs IH|kvs IH|xs|xs] using value_ind'; intros t2 p W1 W2 G1 G2;
    (match goal with |- context [diff ?t1 t2 _ _] => destruct (ty_eqb (type_of t1) (type_of t2)) eqn:T end;
     [|rewrite diff_type by (try reflexivity; exact T); rewrite specm_type by exact T; cbn [fst]; apply tv_report_type]);
    pose proof T as T'; apply ty_eqb_true in T'; destruct t2; try discriminate T'; try (destruct a; discriminate T').
  - rewrite diff_atom_eq by reflexivity. cbn [type_of] in T. rewrite T. cbn [negb fst].
    rewrite (tv_diff_atom udiff ip) by exact T. rewrite !spec_atom by exact T.
    cbn [spec_mem type_of]. rewrite T. reflexivity.
  - rewrite diff_list by reflexivity. unfold seq_body. cbn [zip negb andb]. rewrite specm_list.
    apply tv_go_list_rel; assumption.
  - rewrite diff_tuple by reflexivity. unfold seq_body. cbn [zip negb andb]. rewrite specm_tuple.
    apply tv_go_list_rel; assumption.
  - rewrite diff_dict by reflexivity. unfold dict_body, dict_shortcut. cbn [thr_num Nat.eqb fst].
    cbn in W1, W2. apply andb_true_iff in W1 as [N1 W1], W2 as [N2 W2].
    rewrite specm_dict, !text_view_app, tv_dict_added, tv_dict_removed by assumption.
    rewrite tv_go_common_rel by assumption. reflexivity.
  - rewrite diff_vset by reflexivity. cbn [fst]. rewrite specm_vset. cbn in G1, G2. apply tv_diff_set_rel; assumption.
  - rewrite diff_vfrozen by reflexivity. cbn [fst]. rewrite specm_vfrozen. cbn in G1, G2. apply tv_diff_set_rel; assumption.
Qed.

End PositionalRel.

(* ------------------------------------------------------------------ *)
(** * The equality pattern of the hash a table serves *)

(* the atom is found in the table (it, or an atom == to it, was hashed before) *)
Definition tfound (mf : memo) (a : atom) : bool :=
  match mlookup (VAtom a) mf with Some _ => true | None => false end.

Lemma key_eq_keq k x y : keq x y = true -> key_eq k (VAtom x) = key_eq k (VAtom y).
Proof.
  intros E. destruct k as [a|l|l|l|l|l].
  - change (keq a x = keq a y).
    destruct (keq a x) eqn:E1, (keq a y) eqn:E2; try reflexivity.
    + rewrite (keq_trans a x y E1 E) in E2. discriminate.
    + apply keq_sym_true in E. rewrite (keq_trans a y x E2 E) in E1. discriminate.
  - destruct x, y; reflexivity.
  - destruct x, y; reflexivity.
  - destruct x, y; reflexivity.
  - destruct x, y; reflexivity.
  - destruct x, y; reflexivity.
Qed.

Lemma mlookup_keq mf x y : keq x y = true -> mlookup (VAtom x) mf = mlookup (VAtom y) mf.
Proof.
  intros E. induction mf as [|[[k|k] h] mf IH]; cbn [mlookup]; [reflexivity| |exact IH].
  rewrite (key_eq_keq k x y E), IH. reflexivity.
Qed.

Section Pattern.
Variable H : pystr -> pystr.
Variable o : hopts.
Hypothesis HH : forall s t, H s = H t -> s = t.
Hypothesis Hp : plain o = true.

(* on tag-safe atoms that are found in a pure table, the served hashes are equal exactly for
   atoms that are equal as table keys *)
Lemma hfin_pattern mf : pure_entries H o mf ->
  forall x y, tag_safe_atom x = true -> tag_safe_atom y = true ->
    tfound mf x = true -> tfound mf y = true ->
    pystr_eqb (hfin H o mf x) (hfin H o mf y) = keq x y.
Proof.
  intros P x y Tx Ty Fx Fy. destruct (keq x y) eqn:E.
  - apply pystr_eqb_eq. unfold hfin, tfound in *. rewrite (mlookup_keq mf x y E) in *.
    destruct (mlookup (VAtom y) mf); [reflexivity|discriminate Fy].
  - destruct (pystr_eqb (hfin H o mf x) (hfin H o mf y)) eqn:E2; [|reflexivity]. exfalso.
    apply pystr_eqb_eq in E2. unfold hfin, tfound in *.
    destruct (mlookup (VAtom x) mf) as [hx|] eqn:Lx; [|discriminate Fx].
    destruct (mlookup (VAtom y) mf) as [hy|] eqn:Ly; [|discriminate Fy]. subst hy.
    apply mlookup_Some in Lx as (kx & Hinx & Ekx). apply mlookup_Some in Ly as (ky & Hiny & Eky).
    destruct (key_eq_atom_inv kx x Ekx) as (a' & -> & Pa). destruct (key_eq_atom_inv ky y Eky) as (b' & -> & Pb).
    pose proof (P a' hx Hinx) as Ha. pose proof (P b' hx Hiny) as Hb. rewrite Ha in Hb.
    apply (HashProofsC07.hash_atom_inj H HH o a' b' Hp (tag_safe_py_eq _ _ Pa Tx) (tag_safe_py_eq _ _ Pb Ty)) in Hb.
    subst b'. change (keq a' x = true) in Ekx. change (keq a' y = true) in Eky.
    apply keq_sym_true in Ekx. rewrite (keq_trans x a' y Ekx Eky) in E. discriminate E.
Qed.
End Pattern.

(* pure entries for a list of atoms, appended to a table *)
Definition tpad (H : pystr -> pystr) (o : hopts) (L : list atom) : memo :=
  map (fun a => (MK (VAtom a), hash_atom H o a)) L.

Lemma pad_pure H o L : pure_entries H o (tpad H o L).
Proof.
  intros a h Hin. unfold tpad in Hin. apply in_map_iff in Hin as (b & E & _). inversion E; subst. reflexivity.
Qed.

Lemma found_pad H o m L a : In a L -> tfound (m ++ tpad H o L) a = true.
Proof.
  intros Hin. unfold tfound. rewrite mlookup_app. destruct (mlookup (VAtom a) m); [reflexivity|].
  induction L as [|b L IH]; [destruct Hin|]. cbn [tpad map mlookup].
  destruct (key_eq (VAtom b) (VAtom a)) eqn:E; [reflexivity|].
  destruct Hin as [->|Hin]; [rewrite key_eq_atom_refl in E; discriminate E|]. apply IH. exact Hin.
Qed.

(* the guard [inputs_ok any_atom P] speaks of the set / frozenset members, at every depth *)
Lemma inputs_ok_members P t :
  inputs_ok any_atom P t = true <-> (forall a, In a (set_members t) -> P a = true).
Proof.
  induction t as [a0|xs IH|xs IH|kvs IH|xs|xs] using value_ind'; cbn [inputs_ok set_members].
  - split; [intros _ a []|reflexivity].
  - rewrite forallb_forall. split.
    + intros Hx a Ha. apply in_flat_map in Ha as (x & Hx' & Ha). eapply Forall_forall in IH; [|exact Hx'].
      apply (proj1 IH (Hx x Hx') a Ha).
    + intros Ha x Hx. eapply Forall_forall in IH; [|exact Hx]. apply IH. intros a Hin. apply Ha.
      apply in_flat_map. exists x. split; assumption.
  - rewrite forallb_forall. split.
    + intros Hx a Ha. apply in_flat_map in Ha as (x & Hx' & Ha). eapply Forall_forall in IH; [|exact Hx'].
      apply (proj1 IH (Hx x Hx') a Ha).
    + intros Ha x Hx. eapply Forall_forall in IH; [|exact Hx]. apply IH. intros a Hin. apply Ha.
      apply in_flat_map. exists x. split; assumption.
  - rewrite forallb_forall. split.
    + intros Hx a Ha. apply in_flat_map in Ha as (kv & Hkv & Ha). eapply Forall_forall in IH; [|exact Hkv].
      specialize (Hx kv Hkv). cbn in Hx. apply (proj1 IH Hx a Ha).
    + intros Ha kv Hkv. eapply Forall_forall in IH; [|exact Hkv]. cbn. apply IH. intros a Hin. apply Ha.
      apply in_flat_map. exists kv. split; assumption.
  - rewrite forallb_forall. reflexivity.
  - rewrite forallb_forall. reflexivity.
Qed.

(* ------------------------------------------------------------------ *)
(** * Main theorem *)

Section Main.
Variable H : pystr -> pystr.
Variable o : hopts.
Hypothesis HH : forall s t, H s = H t -> s = t.
Hypothesis Hp : plain o = true.
Variable udiff : pystr -> pystr -> pystr.
Variable ops : path -> list value -> list value -> list opcode.
Variable excl : path -> bool.
Variable d : nat.
Variable ip : bool.
Notation c := (mkCfg true 0 d ip).

(* mutual_add_removes is the identity on any permutation of a positional level list *)
Lemma positional_perm_tv g es_m t1 t2 :
  wf t1 = true -> wf t2 = true ->
  Permutation es_m (fst (diff g udiff ops noskip excl c t1 t2 [] [])) ->
  Permutation (text_view 2 (mutual es_m)) (text_view 2 (fst (diff g udiff ops noskip excl c t1 t2 [] []))).
Proof.
  intros W1 W2 P.
  assert (Hthr : thr_num c <= thr_den c) by (cbn; lia).
  pose proof (added_unresolved g udiff ops noskip excl c eq_refl t1 t1 t2 [] [] W1 eq_refl) as HA.
  pose proof (diff_faithful g udiff ops noskip excl c t1 t2 Hthr t1 t2 [] [] eq_refl W1 W2 eq_refl eq_refl) as HF.
  apply (Permutation_Forall (Permutation_sym P)) in HA. apply (Permutation_Forall (Permutation_sym P)) in HF.
  rewrite mutual_id.
  - apply Permutation_flat_map. exact P.
  - intros a r Ha Hr Ka Kr E.
    eapply Forall_forall in HA; [|exact Ha]. eapply Forall_forall in HF; [|exact Hr].
    specialize (HA Ka). unfold faithful in HF. rewrite Kr in HF. destruct HF as (x & _ & _ & Rx & _).
    rewrite E in HA. congruence.
Qed.

Theorem run_diff_m_positional_is_spec_k t1 t2 :
  wf t1 = true -> wf t2 = true ->
  inputs_ok any_atom tag_safe_atom t1 = true -> inputs_ok any_atom tag_safe_atom t2 = true ->
  Permutation (text_view 2 (fst (fst (run_diff_m H o udiff ops noskip excl c t1 t2))))
              (spec_k udiff ip t1 t2).
Proof.
  intros W1 W2 G1 G2. rewrite run_entries.
  destruct (diff_m_final H o udiff ops noskip excl c [] t1 t2 [] [] W1 W2) as [(e & E & Pe) F].
  cbn [app] in E.
  set (L := set_members t1 ++ set_members t2).
  set (mf := snd (diff_m H o udiff ops noskip excl c [] t1 t2 [] []) ++ tpad H o L).
  destruct (F mf (extends_app _ _)) as [P _].
  eapply Permutation_trans; [exact (positional_perm_tv (hfin H o mf) _ t1 t2 W1 W2 P)|].
  assert (Pm : pure_entries H o mf).
  { unfold mf. rewrite E. intros a h Hin. apply in_app_or in Hin as [Hin|Hin]; [apply Pe|apply (pad_pure H o L)]; exact Hin. }
  set (okf := fun a => tag_safe_atom a && tfound mf a).
  assert (Gk : forall t, inputs_ok any_atom tag_safe_atom t = true -> incl (set_members t) L ->
                         inputs_ok any_atom okf t = true).
  { intros t G I. apply inputs_ok_members. intros a Ha. unfold okf.
    rewrite (proj1 (inputs_ok_members tag_safe_atom t) G a Ha). apply (found_pad H o _ L a). apply I. exact Ha. }
  unfold spec_k.
  rewrite (positional_diff_is_spec_rel (hfin H o mf) udiff ops excl d ip okf keq keq_py_eq); try assumption.
  - apply Permutation_refl.
  - intros a b Oa Ob. unfold okf in Oa, Ob. apply andb_true_iff in Oa as [Ta Fa], Ob as [Tb Fb].
    apply (hfin_pattern H o HH Hp mf Pm); assumption.
  - apply Gk; [exact G1|apply incl_appl, incl_refl].
  - apply Gk; [exact G2|apply incl_appr, incl_refl].
Qed.

End Main.

(* ------------------------------------------------------------------ *)
(** * Where the result with the table differs from the recursive definition *)

(* [sets_all ip Q t1 t2]: Q holds of every set / frozenset pair that the positional comparison of t1
   with t2 compares (same traversal as the definition: positions of sequences, visible common keys) *)
Section SetsAll.
Variable ip : bool.
Variable Q : list atom -> list atom -> bool.

Fixpoint sets_all (t1 t2 : value) {struct t1} : bool :=
  if negb (ty_eqb (type_of t1) (type_of t2)) then true
  else
  match t1, t2 with
  | VDict kvs1, VDict kvs2 =>
      (fix common (l : list (atom * value)) : bool :=
         match l with
         | [] => true
         | (k, v1) :: r =>
             (if visible ip k
              then match find (fun kv => py_eq k (fst kv)) kvs2 with
                   | Some (k', v2) => sets_all v1 v2
                   | None => true
                   end
              else true)
             && common r
         end) kvs1
  | VList xs, VList ys | VTuple xs, VTuple ys =>
      (fix zipped (xs ys : list value) {struct xs} : bool :=
         match xs, ys with
         | x :: xs', y :: ys' => sets_all x y && zipped xs' ys'
         | _, _ => true
         end) xs ys
  | VSet xs, VSet ys | VFrozen xs, VFrozen ys => Q xs ys
  | _, _ => true
  end.

Definition all_common (kvs2 : list (atom * value)) :=
  fix common (l : list (atom * value)) : bool :=
    match l with
    | [] => true
    | (k, v1) :: r =>
        (if visible ip k
         then match find (fun kv => py_eq k (fst kv)) kvs2 with
              | Some (k', v2) => sets_all v1 v2
              | None => true
              end
         else true)
        && common r
    end.
Definition all_zip :=
  fix zipped (xs ys : list value) {struct xs} : bool :=
    match xs, ys with
    | x :: xs', y :: ys' => sets_all x y && zipped xs' ys'
    | _, _ => true
    end.

Lemma sets_all_dict kvs1 kvs2 : sets_all (VDict kvs1) (VDict kvs2) = all_common kvs2 kvs1.
Proof. reflexivity. Qed.
Lemma sets_all_list xs ys : sets_all (VList xs) (VList ys) = all_zip xs ys.
Proof. reflexivity. Qed.
Lemma sets_all_tuple xs ys : sets_all (VTuple xs) (VTuple ys) = all_zip xs ys.
Proof. reflexivity. Qed.
Lemma sets_all_vset xs ys : sets_all (VSet xs) (VSet ys) = Q xs ys.
Proof. reflexivity. Qed.
Lemma sets_all_vfrozen xs ys : sets_all (VFrozen xs) (VFrozen ys) = Q xs ys.
Proof. reflexivity. Qed.

(* two membership tests that agree on the compared set pairs give the same definition *)
Section Agree.
Variable udiff : pystr -> pystr -> pystr.
Variables mem1 mem2 : atom -> list atom -> bool.
Hypothesis HQ : forall xs ys p, Q xs ys = true -> specm_sets mem1 xs ys p = specm_sets mem2 xs ys p.

Lemma spec_mem_agree : forall t1 t2 p,
  sets_all t1 t2 = true -> spec_mem udiff ip mem1 t1 t2 p = spec_mem udiff ip mem2 t1 t2 p.
Proof.
  induction t1 as [a|xs IH|xs IH|kvs IH|xs|xs] using value_ind'; intros t2 p A;
    (match goal with |- spec_mem _ _ _ ?t1 t2 _ = _ => destruct (ty_eqb (type_of t1) (type_of t2)) eqn:T end;
     [|rewrite !specm_type by exact T; reflexivity]);
    pose proof T as T'; apply ty_eqb_true in T'; destruct t2; try discriminate T'; try (destruct a; discriminate T').
  - reflexivity.
  - rewrite sets_all_list in A. rewrite !specm_list. clear T T'. generalize 0 as i. revert xs0 A.
    induction IH as [|x xs Hx _ IHl]; intros ys A i; [reflexivity|].
    destruct ys as [|y ys]; [reflexivity|]. cbn [all_zip] in A. apply andb_true_iff in A as [A1 A2].
    cbn [specm_zip]. rewrite (Hx y _ A1). f_equal. apply IHl. exact A2.
  - rewrite sets_all_tuple in A. rewrite !specm_tuple. clear T T'. generalize 0 as i. revert xs0 A.
    induction IH as [|x xs Hx _ IHl]; intros ys A i; [reflexivity|].
    destruct ys as [|y ys]; [reflexivity|]. cbn [all_zip] in A. apply andb_true_iff in A as [A1 A2].
    cbn [specm_zip]. rewrite (Hx y _ A1). f_equal. apply IHl. exact A2.
  - rewrite sets_all_dict in A. rewrite !specm_dict. clear T T'. f_equal. f_equal.
    induction IH as [|[k v1] l Hk _ IHl]; [reflexivity|].
    cbn [all_common] in A. apply andb_true_iff in A as [A1 A2].
    cbn [specm_common]. rewrite (IHl A2). f_equal.
    destruct (visible ip k); [|reflexivity].
    destruct (find (fun kv => py_eq k (fst kv)) kvs0) as [[k' v2]|]; [|reflexivity].
    cbn in Hk. apply Hk. exact A1.
  - rewrite sets_all_vset in A. rewrite !specm_vset. apply HQ. exact A.
  - rewrite sets_all_vfrozen in A. rewrite !specm_vfrozen. apply HQ. exact A.
Qed.
End Agree.

(* a property of all pairs of sublists of the set members holds of every compared set pair *)
Lemma sets_all_global L :
  (forall xs ys, incl xs L -> incl ys L -> Q xs ys = true) ->
  forall t1 t2, incl (set_members t1) L -> incl (set_members t2) L -> sets_all t1 t2 = true.
Proof.
  intros HL.
  induction t1 as [a|xs IH|xs IH|kvs IH|xs|xs] using value_ind'; intros t2 I1 I2;
    (match goal with |- sets_all ?t1 t2 = _ => destruct (ty_eqb (type_of t1) (type_of t2)) eqn:T end;
     [|destruct t2; cbn [sets_all] in *; rewrite T; reflexivity]);
    pose proof T as T'; apply ty_eqb_true in T'; destruct t2; try discriminate T'; try (destruct a; discriminate T').
  - cbn [sets_all]. destruct (negb _); reflexivity.
  - rewrite sets_all_list. cbn [set_members] in I1, I2. clear T T'. revert xs0 I2.
    induction IH as [|x xs Hx _ IHl]; intros ys I2; [reflexivity|].
    destruct ys as [|y ys]; [reflexivity|]. cbn [all_zip]. cbn [flat_map] in I1, I2.
    apply incl_app_inv in I1 as [I1a I1b]. apply incl_app_inv in I2 as [I2a I2b].
    rewrite (Hx y I1a I2a). apply IHl; assumption.
  - rewrite sets_all_tuple. cbn [set_members] in I1, I2. clear T T'. revert xs0 I2.
    induction IH as [|x xs Hx _ IHl]; intros ys I2; [reflexivity|].
    destruct ys as [|y ys]; [reflexivity|]. cbn [all_zip]. cbn [flat_map] in I1, I2.
    apply incl_app_inv in I1 as [I1a I1b]. apply incl_app_inv in I2 as [I2a I2b].
    rewrite (Hx y I1a I2a). apply IHl; assumption.
  - rewrite sets_all_dict. cbn [set_members] in I1, I2. clear T T'.
    induction IH as [|[k v1] l Hk _ IHl]; [reflexivity|].
    cbn [all_common]. cbn [flat_map snd] in I1. apply incl_app_inv in I1 as [I1a I1b].
    rewrite (IHl I1b), andb_true_r.
    destruct (visible ip k); [|reflexivity].
    destruct (find (fun kv => py_eq k (fst kv)) kvs0) as [[k' v2]|] eqn:F; [|reflexivity].
    apply find_some in F as [Hin _]. cbn in Hk. apply Hk; [exact I1a|].
    intros a Ha. apply I2. apply in_flat_map. exists (k', v2). split; [exact Hin|exact Ha].
  - rewrite sets_all_vset. apply HL; assumption.
  - rewrite sets_all_vfrozen. apply HL; assumption.
Qed.

End SetsAll.

(* no member of xs is equal as a table key to a member of ys without being identical to it *)
Definition no_cross (xs ys : list atom) : bool :=
  forallb (fun x => forallb (fun y => implb (keq x y) (atom_eqb x y)) ys) xs.

Lemma no_cross_spec xs ys x y : no_cross xs ys = true -> In x xs -> In y ys -> keq x y = true -> x = y.
Proof.
  intros N Hx Hy E. unfold no_cross in N. eapply forallb_forall in N; [|exact Hx].
  eapply forallb_forall in N; [|exact Hy]. rewrite E in N. cbn in N. apply atom_eqb_eq. exact N.
Qed.

Lemma kmem_member_no_cross xs ys a : no_cross xs ys = true -> In a xs -> kmem a ys = member a ys.
Proof.
  intros N Ha. unfold kmem, member. induction ys as [|y ys IH]; [reflexivity|]. cbn [existsb].
  rewrite IH.
  2:{ unfold no_cross in *. apply forallb_forall. intros x Hx. eapply forallb_forall in N; [|exact Hx].
      cbn in N. apply andb_true_iff in N as [_ N]. exact N. }
  f_equal. destruct (keq a y) eqn:E.
  - rewrite (no_cross_spec xs (y :: ys) a y N Ha (or_introl eq_refl) E). symmetry. apply atom_eqb_refl.
  - destruct (atom_eqb a y) eqn:E2; [|reflexivity]. apply atom_eqb_keq in E2. congruence.
Qed.

Lemma no_cross_sym xs ys : no_cross xs ys = true -> no_cross ys xs = true.
Proof.
  intros N. unfold no_cross. apply forallb_forall. intros y Hy. apply forallb_forall. intros x Hx.
  destruct (keq y x) eqn:E; [|reflexivity]. cbn. rewrite keq_sym in E.
  rewrite (no_cross_spec xs ys x y N Hx Hy E). apply atom_eqb_refl.
Qed.

Lemma specm_sets_no_cross xs ys p : no_cross xs ys = true -> specm_sets kmem xs ys p = specm_sets member xs ys p.
Proof.
  intros N. unfold specm_sets. f_equal; f_equal; apply filter_ext_in; intros a Ha; f_equal.
  - apply (kmem_member_no_cross ys xs a (no_cross_sym _ _ N) Ha).
  - apply (kmem_member_no_cross xs ys a N Ha).
Qed.

(* (2) the result with the table is the recursive definition whenever no compared set pair holds a
   cross pair that is equal as a table key without being identical *)
Theorem spec_k_is_spec_no_cross udiff ip t1 t2 :
  sets_all ip no_cross t1 t2 = true -> spec_k udiff ip t1 t2 = spec_diff udiff ip t1 t2.
Proof.
  intros A. unfold spec_k, spec_diff. rewrite <- spec_mem_member.
  apply (spec_mem_agree ip no_cross udiff kmem member specm_sets_no_cross). exact A.
Qed.

(* (1) in particular under the alias-free guard of the old theorem *)
Lemma no_alias_no_cross L : no_alias L = true -> forall xs ys, incl xs L -> incl ys L -> no_cross xs ys = true.
Proof.
  intros NA xs ys Ix Iy. unfold no_cross. apply forallb_forall. intros x Hx. apply forallb_forall. intros y Hy.
  unfold no_alias in NA. eapply forallb_forall in NA; [|apply Ix; exact Hx].
  eapply forallb_forall in NA; [|apply Iy; exact Hy].
  destruct (keq x y) eqn:E; [|reflexivity]. apply keq_py_eq in E. rewrite E in NA. exact NA.
Qed.

Theorem spec_k_is_spec_no_alias udiff ip t1 t2 :
  no_alias (set_members t1 ++ set_members t2) = true -> spec_k udiff ip t1 t2 = spec_diff udiff ip t1 t2.
Proof.
  intros NA. apply spec_k_is_spec_no_cross.
  apply (sets_all_global ip no_cross _ (no_alias_no_cross _ NA)); [apply incl_appl|apply incl_appr]; apply incl_refl.
Qed.

(* ------------------------------------------------------------------ *)
(** * ... and ONLY then: a cross pair makes the result with the table strictly smaller *)

Lemma filter_len_le {A} (f g : A -> bool) l :
  (forall a, In a l -> f a = true -> g a = true) -> length (filter f l) <= length (filter g l).
Proof.
  induction l as [|x l IH]; intros Hfg; [apply le_n|]. cbn [filter].
  assert (IH' : length (filter f l) <= length (filter g l)) by (apply IH; intros a Ha; apply Hfg; right; exact Ha).
  destruct (f x) eqn:Fx.
  - rewrite (Hfg x (or_introl eq_refl) Fx). cbn [length]. lia.
  - destruct (g x); cbn [length]; lia.
Qed.

Lemma filter_len_lt {A} (f g : A -> bool) l :
  (forall a, In a l -> f a = true -> g a = true) ->
  (exists x, In x l /\ f x = false /\ g x = true) -> length (filter f l) < length (filter g l).
Proof.
  induction l as [|x l IH]; intros Hfg (z & Hz & Fz & Gz); [destruct Hz|]. cbn [filter].
  assert (LE : length (filter f l) <= length (filter g l)) by (apply filter_len_le; intros a Ha; apply Hfg; right; exact Ha).
  destruct Hz as [->|Hz].
  - rewrite Fz, Gz. cbn [length]. lia.
  - assert (LT : length (filter f l) < length (filter g l)).
    { apply IH; [intros a Ha; apply Hfg; right; exact Ha|exists z; auto]. }
    destruct (f x) eqn:Fx; [rewrite (Hfg x (or_introl eq_refl) Fx); cbn [length]; lia|].
    destruct (g x); cbn [length]; lia.
Qed.

Lemma forallb_false {A} (f : A -> bool) l : forallb f l = false -> exists x, In x l /\ f x = false.
Proof.
  induction l as [|x l IH]; cbn; [discriminate|]. destruct (f x) eqn:E.
  - intros Hl. destruct (IH Hl) as (z & Hz & Fz). exists z. auto.
  - intros _. exists x. auto.
Qed.

Lemma nodup_atoms_py_eq l a b : nodup_atoms l = true -> In a l -> In b l -> py_eq a b = true -> a = b.
Proof.
  induction l as [|x l IH]; intros N Ha Hb E; [destruct Ha|].
  cbn in N. apply andb_true_iff in N as [Nx N]. apply negb_true_iff in Nx.
  destruct Ha as [->|Ha], Hb as [->|Hb]; [reflexivity| | |apply IH; assumption]; exfalso.
  - assert (mem_atom a l = true) by (apply mem_atom_In; exists b; split; assumption). congruence.
  - rewrite py_eq_sym in E. assert (mem_atom b l = true) by (apply mem_atom_In; exists a; split; assumption). congruence.
Qed.

Lemma member_kmem a l : member a l = true -> kmem a l = true.
Proof.
  unfold member, kmem. intros E. apply existsb_exists in E as (b & Hb & Eb). apply existsb_exists.
  exists b. split; [exact Hb|apply atom_eqb_keq; exact Eb].
Qed.

Lemma len_sets_le xs ys p : length (specm_sets kmem xs ys p) <= length (specm_sets member xs ys p).
Proof.
  unfold specm_sets. rewrite !app_length, !map_length. apply Nat.add_le_mono; apply filter_len_le; intros a _ Ea;
    apply negb_true_iff in Ea; apply negb_true_iff;
    (destruct (member a _) eqn:M; [apply member_kmem in M; congruence|reflexivity]).
Qed.

Lemma len_sets_lt xs ys p : nodup_atoms ys = true -> no_cross xs ys = false ->
  length (specm_sets kmem xs ys p) < length (specm_sets member xs ys p).
Proof.
  intros N C. unfold no_cross in C. apply forallb_false in C as (x & Hx & C). apply forallb_false in C as (y & Hy & C).
  destruct (keq x y) eqn:E; [|discriminate C]. cbn in C.
  unfold specm_sets. rewrite !app_length, !map_length. apply Nat.add_le_lt_mono.
  - apply filter_len_le. intros a _ Ea. apply negb_true_iff in Ea. apply negb_true_iff.
    destruct (member a xs) eqn:M; [apply member_kmem in M; congruence|reflexivity].
  - apply filter_len_lt.
    + intros a _ Ea. apply negb_true_iff in Ea. apply negb_true_iff.
      destruct (member a ys) eqn:M; [apply member_kmem in M; congruence|reflexivity].
    + exists x. split; [exact Hx|]. split.
      * apply negb_false_iff. unfold kmem. apply existsb_exists. exists y. split; assumption.
      * apply negb_true_iff. destruct (member x ys) eqn:M; [|reflexivity]. exfalso.
        unfold member in M. apply existsb_exists in M as (y' & Hy' & Ey'). apply atom_eqb_eq in Ey'. subst y'.
        rewrite (nodup_atoms_py_eq ys x y N Hy' Hy (keq_py_eq _ _ E)), atom_eqb_refl in C. discriminate C.
Qed.

Section Strict.
Variable udiff : pystr -> pystr -> pystr.
Variable ip : bool.
Notation sk := (spec_mem udiff ip kmem).
Notation sm := (spec_mem udiff ip member).

Lemma spec_k_len_le : forall t1 t2 p, length (sk t1 t2 p) <= length (sm t1 t2 p).
Proof.
  induction t1 as [a|xs IH|xs IH|kvs IH|xs|xs] using value_ind'; intros t2 p;
    (match goal with |- length (spec_mem _ _ _ ?t1 t2 _) <= _ => destruct (ty_eqb (type_of t1) (type_of t2)) eqn:T end;
     [|rewrite !specm_type by exact T; apply le_n]);
    pose proof T as T'; apply ty_eqb_true in T'; destruct t2; try discriminate T'; try (destruct a; discriminate T').
  - apply le_n.
  - rewrite !specm_list. clear T T'. generalize 0 as i. revert xs0.
    induction IH as [|x xs Hx _ IHl]; intros ys i; [apply le_n|].
    destruct ys as [|y ys]; [apply le_n|]. cbn [specm_zip]. rewrite !app_length.
    apply Nat.add_le_mono; [apply Hx|apply IHl].
  - rewrite !specm_tuple. clear T T'. generalize 0 as i. revert xs0.
    induction IH as [|x xs Hx _ IHl]; intros ys i; [apply le_n|].
    destruct ys as [|y ys]; [apply le_n|]. cbn [specm_zip]. rewrite !app_length.
    apply Nat.add_le_mono; [apply Hx|apply IHl].
  - rewrite !specm_dict, !app_length. clear T T'. apply Nat.add_le_mono_l, Nat.add_le_mono_l.
    induction IH as [|[k v1] l Hk _ IHl]; [apply le_n|]. cbn [specm_common]. rewrite !app_length.
    apply Nat.add_le_mono; [|exact IHl].
    destruct (visible ip k); [|apply le_n].
    destruct (find (fun kv => py_eq k (fst kv)) kvs0) as [[k' v2]|]; [|apply le_n]. apply Hk.
  - rewrite !specm_vset. apply len_sets_le.
  - rewrite !specm_vfrozen. apply len_sets_le.
Qed.

Lemma zip_len_le p xs : forall ys i, length (specm_zip udiff ip kmem p xs ys i) <= length (specm_zip udiff ip member p xs ys i).
Proof.
  induction xs as [|x xs IH]; intros ys i; [apply le_n|]. destruct ys as [|y ys]; [apply le_n|].
  cbn [specm_zip]. rewrite !app_length. apply Nat.add_le_mono; [apply spec_k_len_le|apply IH].
Qed.

Lemma common_len_le kvs2 p l : length (specm_common udiff ip kmem kvs2 p l) <= length (specm_common udiff ip member kvs2 p l).
Proof.
  induction l as [|[k v1] l IH]; [apply le_n|]. cbn [specm_common]. rewrite !app_length.
  apply Nat.add_le_mono; [|exact IH].
  destruct (visible ip k); [|apply le_n].
  destruct (find (fun kv => py_eq k (fst kv)) kvs2) as [[k' v2]|]; [|apply le_n]. apply spec_k_len_le.
Qed.

Lemma spec_k_len_lt : forall t1 t2 p, wf t1 = true -> wf t2 = true ->
  sets_all ip no_cross t1 t2 = false -> length (sk t1 t2 p) < length (sm t1 t2 p).
Proof.
  induction t1 as [a|xs IH|xs IH|kvs IH|xs|xs] using value_ind'; intros t2 p W1 W2 A;
    (match goal with |- length (spec_mem _ _ _ ?t1 t2 _) < _ => destruct (ty_eqb (type_of t1) (type_of t2)) eqn:T end;
     [|exfalso; cbn [sets_all] in A; rewrite T in A; discriminate A]);
    pose proof T as T'; apply ty_eqb_true in T'; destruct t2; try discriminate T'; try (destruct a; discriminate T').
  - exfalso. cbn [sets_all] in A. destruct (negb _) in A; discriminate A.
  - rewrite sets_all_list in A. rewrite !specm_list. cbn [wf] in W1, W2. clear T T'. generalize 0 as i.
    revert xs0 W1 W2 A.
    induction IH as [|x xs Hx _ IHl]; intros ys W1 W2 A i; [discriminate A|].
    destruct ys as [|y ys]; [discriminate A|]. cbn [all_zip] in A. cbn [forallb] in W1, W2.
    apply andb_true_iff in W1 as [Wx W1], W2 as [Wy W2]. cbn [specm_zip]. rewrite !app_length.
    destruct (sets_all ip no_cross x y) eqn:Ax.
    + apply Nat.add_le_lt_mono; [apply spec_k_len_le|apply IHl; assumption].
    + apply Nat.add_lt_le_mono; [apply Hx; assumption|apply zip_len_le].
  - rewrite sets_all_tuple in A. rewrite !specm_tuple. cbn [wf] in W1, W2. clear T T'. generalize 0 as i.
    revert xs0 W1 W2 A.
    induction IH as [|x xs Hx _ IHl]; intros ys W1 W2 A i; [discriminate A|].
    destruct ys as [|y ys]; [discriminate A|]. cbn [all_zip] in A. cbn [forallb] in W1, W2.
    apply andb_true_iff in W1 as [Wx W1], W2 as [Wy W2]. cbn [specm_zip]. rewrite !app_length.
    destruct (sets_all ip no_cross x y) eqn:Ax.
    + apply Nat.add_le_lt_mono; [apply spec_k_len_le|apply IHl; assumption].
    + apply Nat.add_lt_le_mono; [apply Hx; assumption|apply zip_len_le].
  - rewrite sets_all_dict in A. rewrite !specm_dict, !app_length. cbn [wf] in W1, W2.
    apply andb_true_iff in W1 as [_ W1], W2 as [_ W2]. clear T T'.
    apply Nat.add_lt_mono_l, Nat.add_lt_mono_l. revert W1 A.
    induction IH as [|[k v1] l Hk _ IHl]; intros W1 A; [discriminate A|].
    cbn [all_common] in A. cbn [forallb snd] in W1. apply andb_true_iff in W1 as [Wv W1].
    cbn [specm_common]. rewrite !app_length.
    destruct (all_common ip no_cross kvs0 l) eqn:Al.
    + rewrite andb_true_r in A. apply Nat.add_lt_le_mono; [|apply common_len_le].
      destruct (visible ip k); [|discriminate A].
      destruct (find (fun kv => py_eq k (fst kv)) kvs0) as [[k' v2]|] eqn:F; [|discriminate A].
      apply find_some in F as [Hin _]. cbn in Hk. apply Hk; [exact Wv| |exact A].
      eapply forallb_forall in W2; [|exact Hin]. exact W2.
    + apply Nat.add_le_lt_mono; [|apply IHl; [exact W1|reflexivity]].
      destruct (visible ip k); [|apply le_n].
      destruct (find (fun kv => py_eq k (fst kv)) kvs0) as [[k' v2]|]; [|apply le_n]. apply spec_k_len_le.
  - rewrite sets_all_vset in A. rewrite !specm_vset. cbn [wf] in W2. apply len_sets_lt; assumption.
  - rewrite sets_all_vfrozen in A. rewrite !specm_vfrozen. cbn [wf] in W2. apply len_sets_lt; assumption.
Qed.

(* with a cross pair in a compared set pair the result with the table has strictly fewer entries
   than the recursive definition (the aliased members are not reported) *)
Theorem spec_k_smaller t1 t2 : wf t1 = true -> wf t2 = true ->
  sets_all ip no_cross t1 t2 = false -> length (spec_k udiff ip t1 t2) < length (spec_diff udiff ip t1 t2).
Proof. intros W1 W2 A. unfold spec_k, spec_diff. rewrite <- spec_mem_member. apply spec_k_len_lt; assumption. Qed.

(* exact characterisation *)
Theorem spec_k_is_spec_iff t1 t2 : wf t1 = true -> wf t2 = true ->
  (spec_k udiff ip t1 t2 = spec_diff udiff ip t1 t2 <-> sets_all ip no_cross t1 t2 = true).
Proof.
  intros W1 W2. split; [|apply spec_k_is_spec_no_cross].
  intros E. destruct (sets_all ip no_cross t1 t2) eqn:A; [reflexivity|].
  pose proof (spec_k_smaller t1 t2 W1 W2 A) as L. rewrite E in L. lia.
Qed.

End Strict.

(* ------------------------------------------------------------------ *)
(** * Final statements for the run with the table *)

From DD Require Diff.DiffVerbose.

Section Corollaries.
Variable H : pystr -> pystr.
Variable o : hopts.
Hypothesis HH : forall s t, H s = H t -> s = t.
Hypothesis Hp : plain o = true.
Variable udiff : pystr -> pystr -> pystr.
Variable ops : path -> list value -> list value -> list opcode.
Variable excl : path -> bool.
Variable d : nat.
Variable ip : bool.
Notation c := (mkCfg true 0 d ip).
Notation result t1 t2 := (text_view 2 (fst (fst (run_diff_m H o udiff ops noskip excl c t1 t2)))).

(* at every verbose_level the result with the table is the projection of [spec_k] *)
Theorem run_diff_m_positional_is_spec_k_at v t1 t2 :
  wf t1 = true -> wf t2 = true ->
  inputs_ok any_atom tag_safe_atom t1 = true -> inputs_ok any_atom tag_safe_atom t2 = true ->
  Permutation (text_view v (fst (fst (run_diff_m H o udiff ops noskip excl c t1 t2))))
              (flat_map (DiffVerbose.tproj v) (spec_k udiff ip t1 t2)).
Proof.
  intros W1 W2 G1 G2. rewrite DiffVerbose.text_view_proj. apply Permutation_flat_map.
  apply run_diff_m_positional_is_spec_k; assumption.
Qed.

(* (2) EXACTLY when no compared set pair holds a cross pair that is equal as a table key (== with
   bools apart) without being identical is the result with the table the recursive definition *)
Theorem run_diff_m_positional_is_spec_iff t1 t2 :
  wf t1 = true -> wf t2 = true ->
  inputs_ok any_atom tag_safe_atom t1 = true -> inputs_ok any_atom tag_safe_atom t2 = true ->
  (Permutation (result t1 t2) (spec_diff udiff ip t1 t2) <-> sets_all ip no_cross t1 t2 = true).
Proof.
  intros W1 W2 G1 G2.
  pose proof (run_diff_m_positional_is_spec_k H o HH Hp udiff ops excl d ip t1 t2 W1 W2 G1 G2) as PK.
  split.
  - intros PS. destruct (sets_all ip no_cross t1 t2) eqn:A; [reflexivity|exfalso].
    pose proof (spec_k_smaller udiff ip t1 t2 W1 W2 A) as L.
    apply Permutation_length in PK, PS. lia.
  - intros A. rewrite <- (spec_k_is_spec_no_cross udiff ip t1 t2 A). exact PK.
Qed.

Theorem run_diff_m_positional_is_spec_no_cross t1 t2 :
  wf t1 = true -> wf t2 = true ->
  inputs_ok any_atom tag_safe_atom t1 = true -> inputs_ok any_atom tag_safe_atom t2 = true ->
  sets_all ip no_cross t1 t2 = true ->
  Permutation (result t1 t2) (spec_diff udiff ip t1 t2).
Proof. intros W1 W2 G1 G2 A. apply run_diff_m_positional_is_spec_iff; assumption. Qed.

(* (1) the old guarded theorem (DiffMemoProofs.run_diff_m_positional_is_spec) is an instance - and
   [ignore_iterable_order o = true] is not needed *)
Theorem run_diff_m_positional_is_spec_no_alias t1 t2 :
  wf t1 = true -> wf t2 = true ->
  inputs_ok any_atom tag_safe_atom t1 = true -> inputs_ok any_atom tag_safe_atom t2 = true ->
  no_alias (set_members t1 ++ set_members t2) = true ->
  Permutation (result t1 t2) (spec_diff udiff ip t1 t2).
Proof.
  intros W1 W2 G1 G2 NA. rewrite <- (spec_k_is_spec_no_alias udiff ip t1 t2 NA).
  apply run_diff_m_positional_is_spec_k; assumption.
Qed.

End Corollaries.

(* ------------------------------------------------------------------ *)
(** * Witnesses *)

(* the guards of the main theorem are satisfiable TOGETHER WITH aliased members: the identity is an
   injective hasher, the default options are [plain]; [ {1,'a'}, {'k': frozenset({True, 2.5})} ] vs
   [ {1.0,'a'}, {'k': frozenset({1, 2.5})} ] - the first pair holds the cross pair 1 / 1.0 (equal as
   table keys, not identical), the second True / 1 (== but NOT equal as table keys: a bool is only
   equal to the same bool).  [spec_k] reports the frozenset items only, the definition also 1 / 1.0. *)
Definition al_t1 : value :=
  VList [VSet [AInt 1; AStr [97%N]]; VDict [(AStr [107%N], VFrozen [ABool true; AHalf 5])]].
Definition al_t2 : value :=
  VList [VSet [AHalf 2; AStr [97%N]]; VDict [(AStr [107%N], VFrozen [AInt 1; AHalf 5])]].
Example spec_k_guards_satisfiable :
  (forall s t : pystr, (fun x : pystr => x) s = (fun x : pystr => x) t -> s = t) /\ plain default_opts = true /\
  wf al_t1 = true /\ wf al_t2 = true /\
  inputs_ok any_atom tag_safe_atom al_t1 = true /\ inputs_ok any_atom tag_safe_atom al_t2 = true /\
  no_alias (set_members al_t1 ++ set_members al_t2) = false /\
  sets_all true no_cross al_t1 al_t2 = false /\
  text_view 2 (fst (fst (run_diff_m (fun x => x) default_opts (fun _ _ => []) one_block noskip noskip (mkCfg true 0 1 true) al_t1 al_t2)))
    = [TSetAdd (set_item_text [PIdx 1; PKey (AStr [107%N])] (AInt 1));
       TSetRem (set_item_text [PIdx 1; PKey (AStr [107%N])] (ABool true))] /\
  spec_k (fun _ _ => []) true al_t1 al_t2
    = [TSetAdd (set_item_text [PIdx 1; PKey (AStr [107%N])] (AInt 1));
       TSetRem (set_item_text [PIdx 1; PKey (AStr [107%N])] (ABool true))] /\
  length (spec_diff (fun _ _ => []) true al_t1 al_t2) = 4.
Proof. split; [intros s t E; exact E|]. repeat split; vm_compute; reflexivity. Qed.

(* K2 witness, with the hasher of the correspondence check: {1,'a'} vs {1.0,'a'} - the run with the
   table reports nothing, which is [spec_k]; the recursive definition reports two set items; the pair
   holds a cross pair *)
Lemma spec_k_differs_from_spec_k2 :
  wf k2_t1 = true /\ wf k2_t2 = true /\
  inputs_ok any_atom tag_safe_atom k2_t1 = true /\ inputs_ok any_atom tag_safe_atom k2_t2 = true /\
  sets_all true no_cross k2_t1 k2_t2 = false /\
  text_view 2 (fst (fst (run_diff_m hexhash default_opts (fun _ _ => []) one_block noskip noskip (mkCfg true 0 1 true) k2_t1 k2_t2))) = [] /\
  spec_k (fun _ _ => []) true k2_t1 k2_t2 = [] /\
  spec_diff (fun _ _ => []) true k2_t1 k2_t2 =
    [TSetAdd (set_item_text [] (AHalf 2)); TSetRem (set_item_text [] (AInt 1))].
Proof. repeat split; vm_compute; reflexivity. Qed.

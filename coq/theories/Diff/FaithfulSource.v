(** C04: WHERE the entries of an ordered diff in default mode come from.

    Every iterable_item_removed / iterable_item_added level, and every level whose two paths differ, is
    produced at ONE sequence level q of the two inputs (the pair of sequences that [resolve] finds at q in t1
    and in t2), either by the all-atom default-mode code ([default_leaf_list]: replay of the difflib opcodes
    or the pairwise pass) or by the positional walk (tails of the longer sequence).  Conversely every path
    recorded in _iterable_opcodes is such a level, the opcode replay won there, and all the levels the replay
    made are in the result.  Both facts by one structural induction on t1 ([diff_sources]).

    The replay itself is characterised block by block ([by_opcodes_rem_iff], [by_opcodes_add_iff],
    [by_opcodes_shifted], [by_opcodes_pair_In]): which t1 indexes are reported removed, which t2 indexes
    added, which pairs of a 'replace' block are compared. *)
From Coq Require Import List ZArith NArith Bool Arith Lia.
Import ListNotations.
From DD Require Import Base.PyStr Base.Value Base.ValueFacts Path.PathModel
  Diff.Tree Diff.DiffModel Diff.DiffFacts Diff.DiffFaithful.

Definition rem_entry (q : path) (i : nat) (x : value) : entry :=
  mkEntry KIterRem (snoc q (PIdx i)) (snoc q (PIdx i)) (Some x) None None.
Definition add_entry (q : path) (i : nat) (y : value) : entry :=
  mkEntry KIterAdd (snoc q (PIdx i)) (snoc q (PIdx i)) None (Some y) None.

(* t1 index i is reported removed by the block o: inside a 'delete' block, or in the surplus of the t1 chunk
   of a 'replace' block; t2 index i is reported added: inside an 'insert' block or in the surplus of the t2
   chunk of a 'replace' block.  Slices as Python takes them (an opcode reaching beyond the list is cut). *)
Definition rem_blockb (xs ys : list value) (i : nat) (o : opcode) : bool :=
  let n := length (slice xs (oi1 o) (oi2 o)) in
  let m := length (slice ys (oj1 o) (oj2 o)) in
  match otag o with
  | ODelete => Nat.leb (oi1 o) i && Nat.ltb i (oi1 o + n)
  | OReplace => Nat.leb (oi1 o + m) i && Nat.ltb i (oi1 o + n)
  | _ => false
  end.
Definition add_blockb (xs ys : list value) (i : nat) (o : opcode) : bool :=
  let n := length (slice xs (oi1 o) (oi2 o)) in
  let m := length (slice ys (oj1 o) (oj2 o)) in
  match otag o with
  | OInsert => Nat.leb (oj1 o) i && Nat.ltb i (oj1 o + m)
  | OReplace => Nat.leb (oj1 o + n) i && Nat.ltb i (oj1 o + m)
  | _ => false
  end.
Definition removes_at (os : list opcode) (xs ys : list value) (i : nat) : bool := existsb (rem_blockb xs ys i) os.
Definition adds_at (os : list opcode) (xs ys : list value) (i : nat) : bool := existsb (add_blockb xs ys i) os.

Lemma snoc_inj p q a b : snoc p a = snoc q b -> p = q /\ a = b.
Proof. unfold snoc. apply app_inj_tail. Qed.

Lemma nth_error_slice_some {A} (l : list A) a b k x :
  nth_error (slice l a b) k = Some x -> nth_error l (a + k) = Some x.
Proof.
  intros H. assert (k < b - a).
  { pose proof (slice_length_le l a b). assert (k < length (slice l a b)) by (apply nth_error_Some; congruence). lia. }
  rewrite nth_error_slice in H by assumption. exact H.
Qed.

Lemma nth_error_lt {A} (l : list A) k x : nth_error l k = Some x -> k < length l.
Proof. intros H. apply nth_error_Some. congruence. Qed.

Lemma nth_error_ex {A} (l : list A) k : k < length l -> exists x, nth_error l k = Some x.
Proof. intros H. destruct (nth_error l k) eqn:E; [eexists; reflexivity|]. apply nth_error_None in E. lia. Qed.

Lemma slice_nth_back {A} (l : list A) a b k : k < length (slice l a b) ->
  nth_error (slice l a b) k = nth_error l (a + k).
Proof. intros H. pose proof (slice_length_le l a b). apply nth_error_slice. lia. Qed.

Section Blocks.
Variable udiff : pystr -> pystr -> pystr.
Variable skip : path -> bool.

Lemma report_In k p1 p2 a b d e :
  In e (report skip k p1 p2 a b d) <-> skip p1 = false /\ e = mkEntry k p1 p2 a b d.
Proof.
  unfold report. destruct (skip p1); split.
  - intros [].
  - intros [H _]; discriminate.
  - intros [<-|[]]. split; reflexivity.
  - intros [_ ->]. left. reflexivity.
Qed.

Lemma removed_from_In xs : forall i p e,
  In e (removed_from skip xs i p p) <->
  exists k x, nth_error xs k = Some x /\ skip (snoc p (PIdx (i + k))) = false /\ e = rem_entry p (i + k) x.
Proof.
  induction xs as [|x0 xs IH]; intros i p e; cbn [removed_from].
  - split; [intros []|intros (k & x & H & _)]. destruct k; discriminate.
  - rewrite in_app_iff, report_In, IH. split.
    + intros [[Hs ->]|(k & x & Hk & Hs & ->)].
      * exists 0, x0. rewrite Nat.add_0_r. repeat split; assumption.
      * exists (S k), x. rewrite Nat.add_succ_r. repeat split; assumption.
    + intros (k & x & Hk & Hs & ->). destruct k as [|k].
      * left. cbn in Hk. inversion Hk; subst. rewrite Nat.add_0_r in *. split; [exact Hs|reflexivity].
      * right. exists k, x. rewrite Nat.add_succ_r in *. repeat split; assumption.
Qed.

Lemma added_from_In ys : forall j p e,
  In e (added_from skip ys j p p) <->
  exists k y, nth_error ys k = Some y /\ skip (snoc p (PIdx (j + k))) = false /\ e = add_entry p (j + k) y.
Proof.
  induction ys as [|y0 ys IH]; intros j p e; cbn [added_from].
  - split; [intros []|intros (k & x & H & _)]. destruct k; discriminate.
  - rewrite in_app_iff, report_In, IH. split.
    + intros [[Hs ->]|(k & x & Hk & Hs & ->)].
      * exists 0, y0. rewrite Nat.add_0_r. repeat split; assumption.
      * exists (S k), x. rewrite Nat.add_succ_r. repeat split; assumption.
    + intros (k & x & Hk & Hs & ->). destruct k as [|k].
      * left. cbn in Hk. inversion Hk; subst. rewrite Nat.add_0_r in *. split; [exact Hs|reflexivity].
      * right. exists k, x. rewrite Nat.add_succ_r in *. repeat split; assumption.
Qed.

(* what one compared pair of a chunk yields *)
Definition pair_entry (x y : value) (i j : nat) (p1 p2 : path) : list entry :=
  if negb (Nat.eqb i j) && py_eq_leaf x y
  then report skip KIterMoved (snoc p1 (PIdx i)) (snoc p2 (PIdx j)) (Some x) (Some y) None
  else diff_leaf udiff skip x y (snoc p1 (PIdx i)) (snoc p2 (PIdx j)).

Lemma diff_atom_In a b p1 p2 e : In e (diff_atom udiff skip a b p1 p2) ->
  (ekind e = KType \/ ekind e = KValue) /\ ep1 e = p1 /\ ep2 e = p2 /\
  et1 e = Some (VAtom a) /\ et2 e = Some (VAtom b) /\ skip p1 = false.
Proof.
  unfold diff_atom. destruct (skip p1) eqn:Hs; [intros []|].
  assert (X : forall k d, (k = KType \/ k = KValue) -> In e (report skip k p1 p2 (Some (VAtom a)) (Some (VAtom b)) d) ->
    (ekind e = KType \/ ekind e = KValue) /\ ep1 e = p1 /\ ep2 e = p2 /\
    et1 e = Some (VAtom a) /\ et2 e = Some (VAtom b) /\ false = false).
  { intros k d Hk He. apply report_In in He as [_ ->]. cbn. repeat split; try reflexivity. exact Hk. }
  destruct (negb _); [apply X; left; reflexivity|].
  destruct a, b; try (destruct (py_eq _ _); [intros []|apply X; right; reflexivity]).
  - destruct (diff_str udiff false s s0) as [ch d]. destruct ch; [apply X; right; reflexivity|intros []].
  - destruct (diff_str udiff true s s0) as [ch d]. destruct ch; [apply X; right; reflexivity|intros []].
Qed.

(* two atoms that are not == always yield exactly one level *)
Lemma diff_atom_neq a b p1 p2 : skip p1 = false -> py_eq a b = false ->
  exists e, diff_atom udiff skip a b p1 p2 = [e].
Proof.
  intros Hs N. unfold diff_atom, report. rewrite Hs.
  destruct (negb (ty_eqb (atom_ty a) (atom_ty b))); [eexists; reflexivity|].
  destruct a as [|ba|za|ta|sa|sa], b as [|bb|zb|tb|sb|sb]; try rewrite N; try (eexists; reflexivity);
    try (unfold py_eq in N; cbn in N; discriminate N).
  - unfold diff_str. unfold py_eq in N. cbn in N. rewrite N. destruct (true && _); eexists; reflexivity.
  - unfold diff_str. unfold py_eq in N. cbn in N. rewrite N. destruct (_ && _); eexists; reflexivity.
Qed.

Lemma pair_entry_In x y i j p1 p2 e : In e (pair_entry x y i j p1 p2) ->
  (ekind e = KIterMoved \/ ekind e = KType \/ ekind e = KValue) /\
  ep1 e = snoc p1 (PIdx i) /\ ep2 e = snoc p2 (PIdx j) /\ et1 e = Some x /\ et2 e = Some y /\
  skip (snoc p1 (PIdx i)) = false /\
  (ekind e = KIterMoved <-> i <> j /\ py_eq_leaf x y = true).
Proof.
  unfold pair_entry. destruct (negb (i =? j) && py_eq_leaf x y) eqn:E.
  - intros He. apply report_In in He as [Hs ->]. cbn. apply andb_true_iff in E as [E1 E2].
    apply negb_true_iff, Nat.eqb_neq in E1. split; [left; reflexivity|]. do 4 (split; [reflexivity|]).
    split; [exact Hs|]. split; [intros _; split; assumption|reflexivity].
  - unfold diff_leaf. destruct x as [a| | | | |]; try (intros []). destruct y as [b| | | | |]; try (intros []).
    intros He. apply diff_atom_In in He as (K & P1 & P2 & E1 & E2 & Hs).
    split; [right; exact K|]. do 5 (split; [assumption|]). split.
    + intros KM. destruct K as [K|K]; rewrite K in KM; discriminate.
    + intros [Nij Q]. apply andb_false_iff in E as [E|E]; [|congruence].
      apply negb_false_iff, Nat.eqb_eq in E. contradiction.
Qed.

Lemma pairs_leaf_In xs : forall ys i j p e,
  In e (pairs_leaf udiff skip xs ys i j p p) <->
  (exists k x y, nth_error xs k = Some x /\ nth_error ys k = Some y /\ In e (pair_entry x y (i + k) (j + k) p p)) \/
  (exists k x, length ys <= k /\ nth_error xs k = Some x /\ skip (snoc p (PIdx (i + k))) = false /\ e = rem_entry p (i + k) x) \/
  (exists k y, length xs <= k /\ nth_error ys k = Some y /\ skip (snoc p (PIdx (j + k))) = false /\ e = add_entry p (j + k) y).
Proof.
  induction xs as [|x0 xs IH]; intros ys i j p e.
  - assert (E : pairs_leaf udiff skip [] ys i j p p = added_from skip ys j p p) by (destruct ys; reflexivity).
    rewrite E, added_from_In. split.
    + intros (k & y & Hk & Hs & ->). right. right. exists k, y. cbn [length]. repeat split; try assumption. lia.
    + intros [(k & x & y & Hk & _)|[(k & x & _ & Hk & _)|(k & y & _ & Hk & Hs & ->)]];
        try (destruct k; discriminate Hk). exists k, y. repeat split; assumption.
  - destruct ys as [|y0 ys].
    + cbn [pairs_leaf]. rewrite removed_from_In. split.
      * intros (k & x & Hk & Hs & ->). right. left. exists k, x. cbn [length]. repeat split; try assumption. lia.
      * intros [(k & x & y & _ & Hk & _)|[(k & x & _ & Hk & Hs & ->)|(k & y & _ & Hk & _)]];
          try (destruct k; discriminate Hk). exists k, x. repeat split; assumption.
    + cbn [pairs_leaf]. fold (pair_entry x0 y0 i j p p). rewrite in_app_iff, IH. cbn [length]. split.
      * intros [He|[(k & x & y & H1 & H2 & He)|[(k & x & L & H1 & Hs & ->)|(k & y & L & H1 & Hs & ->)]]].
        -- left. exists 0, x0, y0. rewrite !Nat.add_0_r. repeat split; assumption.
        -- left. exists (S k), x, y. rewrite !Nat.add_succ_r. repeat split; assumption.
        -- right. left. exists (S k), x. rewrite !Nat.add_succ_r. repeat split; try assumption. lia.
        -- right. right. exists (S k), y. rewrite !Nat.add_succ_r. repeat split; try assumption. lia.
      * intros [(k & x & y & H1 & H2 & He)|[(k & x & L & H1 & Hs & ->)|(k & y & L & H1 & Hs & ->)]].
        -- destruct k as [|k].
           ++ left. cbn in H1, H2. inversion H1; inversion H2; subst. rewrite !Nat.add_0_r in He. exact He.
           ++ right. left. exists k, x, y. rewrite !Nat.add_succ_r in He. repeat split; assumption.
        -- destruct k as [|k]; [lia|]. right. right. left. exists k, x. rewrite !Nat.add_succ_r in *.
           repeat split; try assumption. lia.
        -- destruct k as [|k]; [lia|]. right. right. right. exists k, y. rewrite !Nat.add_succ_r in *.
           repeat split; try assumption. lia.
Qed.

Lemma by_opcodes_In os xs ys p e :
  In e (by_opcodes udiff skip os xs ys p p) <->
  exists o, In o os /\
    In e (match otag o with
          | OEqual => []
          | OReplace => pairs_leaf udiff skip (slice xs (oi1 o) (oi2 o)) (slice ys (oj1 o) (oj2 o)) (oi1 o) (oj1 o) p p
          | ODelete => removed_from skip (slice xs (oi1 o) (oi2 o)) (oi1 o) p p
          | OInsert => added_from skip (slice ys (oj1 o) (oj2 o)) (oj1 o) p p
          end).
Proof. unfold by_opcodes. apply in_flat_map. Qed.

(* the removed levels of an opcode replay: exactly the t1 indexes that some block removes *)
Theorem by_opcodes_rem_iff os xs ys p e :
  (In e (by_opcodes udiff skip os xs ys p p) /\ ekind e = KIterRem) <->
  exists i x, removes_at os xs ys i = true /\ nth_error xs i = Some x /\
              skip (snoc p (PIdx i)) = false /\ e = rem_entry p i x.
Proof.
  rewrite by_opcodes_In. split.
  - intros [(o & Ho & He) K]. unfold removes_at.
    destruct (otag o) eqn:T.
    + destruct He.
    + apply pairs_leaf_In in He as [(k & x & y & _ & _ & He)|[(k & x & L & Hk & Hs & ->)|(k & y & _ & _ & _ & ->)]].
      * apply pair_entry_In in He as ([K'|[K'|K']] & _); rewrite K' in K; discriminate.
      * exists (oi1 o + k), x. split; [|split; [eapply nth_error_slice_some; exact Hk|split; [exact Hs|reflexivity]]].
        apply existsb_exists. exists o. split; [exact Ho|]. unfold rem_blockb. rewrite T.
        apply nth_error_lt in Hk. apply andb_true_iff. split; [apply Nat.leb_le|apply Nat.ltb_lt]; lia.
      * discriminate K.
    + apply removed_from_In in He as (k & x & Hk & Hs & ->).
      exists (oi1 o + k), x. split; [|split; [eapply nth_error_slice_some; exact Hk|split; [exact Hs|reflexivity]]].
      apply existsb_exists. exists o. split; [exact Ho|]. unfold rem_blockb. rewrite T.
      apply nth_error_lt in Hk. apply andb_true_iff. split; [apply Nat.leb_le|apply Nat.ltb_lt]; lia.
    + apply added_from_In in He as (k & y & _ & _ & ->). discriminate K.
  - intros (i & x & R & Hx & Hs & ->). split; [|reflexivity].
    unfold removes_at in R. apply existsb_exists in R as (o & Ho & R). exists o. split; [exact Ho|].
    unfold rem_blockb in R. destruct (otag o); try discriminate R;
      apply andb_true_iff in R as [R1 R2]; apply Nat.leb_le in R1; apply Nat.ltb_lt in R2.
    + apply pairs_leaf_In. right. left. exists (i - oi1 o), x.
      replace (oi1 o + (i - oi1 o)) with i by lia. split; [lia|]. split; [|split; [exact Hs|reflexivity]].
      rewrite slice_nth_back by lia. replace (oi1 o + (i - oi1 o)) with i by lia. exact Hx.
    + apply removed_from_In. exists (i - oi1 o), x.
      replace (oi1 o + (i - oi1 o)) with i by lia. split; [|split; [exact Hs|reflexivity]].
      rewrite slice_nth_back by lia. replace (oi1 o + (i - oi1 o)) with i by lia. exact Hx.
Qed.

Theorem by_opcodes_add_iff os xs ys p e :
  (In e (by_opcodes udiff skip os xs ys p p) /\ ekind e = KIterAdd) <->
  exists i y, adds_at os xs ys i = true /\ nth_error ys i = Some y /\
              skip (snoc p (PIdx i)) = false /\ e = add_entry p i y.
Proof.
  rewrite by_opcodes_In. split.
  - intros [(o & Ho & He) K]. unfold adds_at.
    destruct (otag o) eqn:T.
    + destruct He.
    + apply pairs_leaf_In in He as [(k & x & y & _ & _ & He)|[(k & x & _ & _ & _ & ->)|(k & y & L & Hk & Hs & ->)]].
      * apply pair_entry_In in He as ([K'|[K'|K']] & _); rewrite K' in K; discriminate.
      * discriminate K.
      * exists (oj1 o + k), y. split; [|split; [eapply nth_error_slice_some; exact Hk|split; [exact Hs|reflexivity]]].
        apply existsb_exists. exists o. split; [exact Ho|]. unfold add_blockb. rewrite T.
        apply nth_error_lt in Hk. apply andb_true_iff. split; [apply Nat.leb_le|apply Nat.ltb_lt]; lia.
    + apply removed_from_In in He as (k & x & _ & _ & ->). discriminate K.
    + apply added_from_In in He as (k & y & Hk & Hs & ->).
      exists (oj1 o + k), y. split; [|split; [eapply nth_error_slice_some; exact Hk|split; [exact Hs|reflexivity]]].
      apply existsb_exists. exists o. split; [exact Ho|]. unfold add_blockb. rewrite T.
      apply nth_error_lt in Hk. apply andb_true_iff. split; [apply Nat.leb_le|apply Nat.ltb_lt]; lia.
  - intros (i & y & R & Hy & Hs & ->). split; [|reflexivity].
    unfold adds_at in R. apply existsb_exists in R as (o & Ho & R). exists o. split; [exact Ho|].
    unfold add_blockb in R. destruct (otag o); try discriminate R;
      apply andb_true_iff in R as [R1 R2]; apply Nat.leb_le in R1; apply Nat.ltb_lt in R2.
    + apply pairs_leaf_In. right. right. exists (i - oj1 o), y.
      replace (oj1 o + (i - oj1 o)) with i by lia. split; [lia|]. split; [|split; [exact Hs|reflexivity]].
      rewrite slice_nth_back by lia. replace (oj1 o + (i - oj1 o)) with i by lia. exact Hy.
    + apply added_from_In. exists (i - oj1 o), y.
      replace (oj1 o + (i - oj1 o)) with i by lia. split; [|split; [exact Hs|reflexivity]].
      rewrite slice_nth_back by lia. replace (oj1 o + (i - oj1 o)) with i by lia. exact Hy.
Qed.

(* a level of the replay whose two paths differ is the k-th pair of a 'replace' block whose chunks start at
   different indexes *)
Theorem by_opcodes_shifted os xs ys p e :
  In e (by_opcodes udiff skip os xs ys p p) -> ep1 e <> ep2 e ->
  exists o k x y, In o os /\ otag o = OReplace /\ oi1 o <> oj1 o /\
    nth_error (slice xs (oi1 o) (oi2 o)) k = Some x /\ nth_error (slice ys (oj1 o) (oj2 o)) k = Some y /\
    In e (pair_entry x y (oi1 o + k) (oj1 o + k) p p).
Proof.
  intros He N. apply by_opcodes_In in He as (o & Ho & He). destruct (otag o) eqn:T.
  - destruct He.
  - apply pairs_leaf_In in He as [(k & x & y & H1 & H2 & He)|[(k & x & _ & _ & _ & ->)|(k & y & _ & _ & _ & ->)]];
      try (exfalso; apply N; reflexivity).
    exists o, k, x, y. repeat split; try assumption.
    intros E. apply pair_entry_In in He as (_ & P1 & P2 & _). apply N. rewrite P1, P2, E. reflexivity.
  - apply removed_from_In in He as (k & x & _ & _ & ->). exfalso; apply N; reflexivity.
  - apply added_from_In in He as (k & y & _ & _ & ->). exfalso; apply N; reflexivity.
Qed.

Lemma by_opcodes_pair_In os xs ys p o k x y e :
  In o os -> otag o = OReplace ->
  nth_error (slice xs (oi1 o) (oi2 o)) k = Some x -> nth_error (slice ys (oj1 o) (oj2 o)) k = Some y ->
  In e (pair_entry x y (oi1 o + k) (oj1 o + k) p p) -> In e (by_opcodes udiff skip os xs ys p p).
Proof.
  intros Ho T H1 H2 He. apply by_opcodes_In. exists o. split; [exact Ho|]. rewrite T.
  apply pairs_leaf_In. left. exists k, x, y. repeat split; assumption.
Qed.

(* the pairwise pass over the whole lists never shifts, and reports only a tail *)
Lemma pairs_whole_same xs ys p e : In e (pairs_leaf udiff skip xs ys 0 0 p p) -> ep1 e = ep2 e.
Proof.
  intros He. apply pairs_leaf_In in He as [(k & x & y & _ & _ & He)|[(k & x & _ & _ & _ & ->)|(k & y & _ & _ & _ & ->)]];
    try reflexivity.
  apply pair_entry_In in He as (_ & P1 & P2 & _). rewrite P1, P2. reflexivity.
Qed.

End Blocks.

Lemma two_in_length {A} (l : list A) a b : In a l -> In b l -> a <> b -> 2 <= length l.
Proof.
  destruct l as [|x [|y l]]; cbn; intros Ha Hb N; try lia; try tauto.
  destruct Ha as [<-|[]], Hb as [<-|[]]. congruence.
Qed.

Section Leaf.
Variable udiff : pystr -> pystr -> pystr.
Variable ops : path -> list value -> list value -> list opcode.
Variable skip : path -> bool.
Notation dll := (default_leaf_list udiff ops skip).

Lemma dll_recorded xs ys p : snd (dll xs ys p p) = true ->
  fst (dll xs ys p p) = by_opcodes udiff skip (ops p xs ys) xs ys p p /\
  2 <= length (by_opcodes udiff skip (ops p xs ys) xs ys p p).
Proof.
  unfold default_leaf_list. destruct (Nat.ltb 1 _) eqn:L; [|discriminate].
  destruct (Nat.leb _ _); [discriminate|]. intros _. split; [reflexivity|]. apply Nat.ltb_lt in L. lia.
Qed.

Lemma dll_cases xs ys p :
  (fst (dll xs ys p p) = by_opcodes udiff skip (ops p xs ys) xs ys p p /\
   (snd (dll xs ys p p) = true \/ length (by_opcodes udiff skip (ops p xs ys) xs ys p p) <= 1)) \/
  (fst (dll xs ys p p) = pairs_leaf udiff skip xs ys 0 0 p p /\ snd (dll xs ys p p) = false).
Proof.
  unfold default_leaf_list. destruct (Nat.ltb 1 _) eqn:L.
  - destruct (Nat.leb _ _); [right|left]; cbn [fst snd]; split; try reflexivity. left. reflexivity.
  - left. split; [reflexivity|]. right. apply Nat.ltb_ge in L. lia.
Qed.

(* a removed and an added level at ONE path of an all-atom list: the opcode replay won and was recorded;
   a block removes that t1 index and a block adds that t2 index *)
Lemma dll_rem_add xs ys p r a :
  In r (fst (dll xs ys p p)) -> In a (fst (dll xs ys p p)) ->
  ekind r = KIterRem -> ekind a = KIterAdd -> ep1 r = ep1 a ->
  snd (dll xs ys p p) = true /\
  exists i x y, removes_at (ops p xs ys) xs ys i = true /\ adds_at (ops p xs ys) xs ys i = true /\
    nth_error xs i = Some x /\ nth_error ys i = Some y /\ skip (snoc p (PIdx i)) = false /\
    r = rem_entry p i x /\ a = add_entry p i y.
Proof.
  intros Hr Ha Kr Ka P.
  destruct (dll_cases xs ys p) as [[E [Rc|Le]]|[E Rc]]; rewrite E in Hr, Ha.
  - split; [exact Rc|].
    destruct (proj1 (by_opcodes_rem_iff udiff skip _ xs ys p r) (conj Hr Kr)) as (i & x & R1 & Hx & Hs & ->).
    destruct (proj1 (by_opcodes_add_iff udiff skip _ xs ys p a) (conj Ha Ka)) as (i' & y & A1 & Hy & _ & ->).
    cbn in P. apply snoc_inj in P as [_ P]. inversion P; subst i'.
    exists i, x, y. repeat split; assumption.
  - exfalso. assert (r <> a) by (intros ->; congruence).
    pose proof (two_in_length _ r a Hr Ha H). lia.
  - exfalso.
    apply pairs_leaf_In in Hr as [(k & x & y & _ & _ & He)|[(k & x & L & Hk & _ & ->)|(k & y & _ & _ & _ & ->)]].
    + apply pair_entry_In in He as ([K'|[K'|K']] & _); rewrite K' in Kr; discriminate.
    + apply pairs_leaf_In in Ha as [(k' & x' & y' & _ & _ & He)|[(k' & x' & _ & _ & _ & ->)|(k' & y' & L' & Hk' & _ & ->)]].
      * apply pair_entry_In in He as ([K'|[K'|K']] & _); rewrite K' in Ka; discriminate.
      * discriminate Ka.
      * cbn in P. apply snoc_inj in P as [_ P]. inversion P. apply nth_error_lt in Hk, Hk'. lia.
    + discriminate Kr.
Qed.

(* a level of an all-atom list whose two paths differ comes from the opcode replay *)
Lemma dll_shifted xs ys p e :
  In e (fst (dll xs ys p p)) -> ep1 e <> ep2 e ->
  fst (dll xs ys p p) = by_opcodes udiff skip (ops p xs ys) xs ys p p /\
  (snd (dll xs ys p p) = true \/ length (by_opcodes udiff skip (ops p xs ys) xs ys p p) <= 1).
Proof.
  intros He N. destruct (dll_cases xs ys p) as [H|[E _]]; [exact H|].
  rewrite E in He. apply pairs_whole_same in He. contradiction.
Qed.

Lemma dll_rem_shape xs ys p e : In e (fst (dll xs ys p p)) -> ekind e = KIterRem ->
  exists i x, nth_error xs i = Some x /\ e = rem_entry p i x.
Proof.
  intros He K. destruct (dll_cases xs ys p) as [[E _]|[E _]]; rewrite E in He.
  - destruct (proj1 (by_opcodes_rem_iff udiff skip _ xs ys p e) (conj He K)) as (i & x & _ & Hx & _ & ->).
    exists i, x. split; [exact Hx|reflexivity].
  - apply pairs_leaf_In in He as [(k & x & y & _ & _ & He)|[(k & x & L & Hk & _ & ->)|(k & y & _ & _ & _ & ->)]].
    + apply pair_entry_In in He as ([K'|[K'|K']] & _); rewrite K' in K; discriminate.
    + exists k, x. split; [exact Hk|reflexivity].
    + discriminate K.
Qed.
Lemma dll_add_shape xs ys p e : In e (fst (dll xs ys p p)) -> ekind e = KIterAdd ->
  exists i y, nth_error ys i = Some y /\ e = add_entry p i y.
Proof.
  intros He K. destruct (dll_cases xs ys p) as [[E _]|[E _]]; rewrite E in He.
  - destruct (proj1 (by_opcodes_add_iff udiff skip _ xs ys p e) (conj He K)) as (i & x & _ & Hx & _ & ->).
    exists i, x. split; [exact Hx|reflexivity].
  - apply pairs_leaf_In in He as [(k & x & y & _ & _ & He)|[(k & x & _ & _ & _ & ->)|(k & y & L & Hk & _ & ->)]].
    + apply pair_entry_In in He as ([K'|[K'|K']] & _); rewrite K' in K; discriminate.
    + discriminate K.
    + exists k, y. split; [exact Hk|reflexivity].
Qed.

End Leaf.

(* ------------------------------------------------------------------ *)
(** * The induction: every such level has a source level; every recorded path is one *)

Lemma skipn_cons_nth {A} (l : list A) i x r : skipn i l = x :: r -> nth_error l i = Some x /\ skipn (S i) l = r.
Proof.
  revert l; induction i as [|i IH]; intros [|y l] H; cbn in H; try discriminate.
  - inversion H; subst. split; reflexivity.
  - apply IH in H. exact H.
Qed.
Lemma skipn_nil_length {A} (l : list A) i : skipn i l = [] -> length l <= i.
Proof. intros H. pose proof (skipn_length i l) as L. rewrite H in L. cbn in L. lia. Qed.

Section Source.
Variable hatom : atom -> pystr.
Variable udiff : pystr -> pystr -> pystr.
Variable ops : path -> list value -> list value -> list opcode.
Variable skip excl : path -> bool.
Variable c : cfg.
Variables r1 r2 : value.
Notation diff := (diff hatom udiff ops skip excl c).
Notation dll := (default_leaf_list udiff ops skip).

Definition leafb (xs ys : list value) : bool := negb (zip c) && forallb is_atom xs && forallb is_atom ys.

(* the sequences the two inputs hold at q *)
Definition at_level (q : path) (xs ys : list value) : Prop :=
  exists v1 v2, resolve r1 q = Some v1 /\ seq_items v1 = Some xs /\ resolve r2 q = Some v2 /\ seq_items v2 = Some ys.

Lemma at_level_fun q xs ys xs' ys' : at_level q xs ys -> at_level q xs' ys' -> xs = xs' /\ ys = ys'.
Proof.
  intros (v1 & v2 & A1 & A2 & A3 & A4) (w1 & w2 & B1 & B2 & B3 & B4).
  rewrite A1 in B1. rewrite A3 in B3. inversion B1; inversion B3; subst. rewrite A2 in B2. rewrite A4 in B4.
  inversion B2; inversion B4. split; reflexivity.
Qed.

Definition needs_src (e : entry) : Prop := ekind e = KIterRem \/ ekind e = KIterAdd \/ ep1 e <> ep2 e.

Definition Src (rec : list path) (e : entry) : Prop :=
  needs_src e ->
  exists q xs ys, at_level q xs ys /\
    ((leafb xs ys = true /\ In e (fst (dll xs ys q q)) /\ (snd (dll xs ys q q) = true -> In q rec)) \/
     (leafb xs ys = false /\
      ((exists k x, length ys <= k /\ nth_error xs k = Some x /\ e = rem_entry q k x) \/
       (exists k y, length xs <= k /\ nth_error ys k = Some y /\ e = add_entry q k y)))).

Definition RecIn (es : list entry) (q : path) : Prop :=
  exists xs ys, at_level q xs ys /\ leafb xs ys = true /\ snd (dll xs ys q q) = true /\
                incl (fst (dll xs ys q q)) es.

Definition Good (r : R) : Prop := Forall (Src (snd r)) (fst r) /\ Forall (RecIn (fst r)) (snd r).

Lemma Src_mono rec rec' e : incl rec rec' -> Src rec e -> Src rec' e.
Proof.
  intros I S N. destruct (S N) as (q & xs & ys & A & [(L & He & Hr)|D]); exists q, xs, ys; (split; [exact A|]).
  - left. split; [exact L|split; [exact He|]]. intros X. apply I, Hr, X.
  - right. exact D.
Qed.
Lemma RecIn_mono es es' q : incl es es' -> RecIn es q -> RecIn es' q.
Proof.
  intros I (xs & ys & A & L & Rc & Hi). exists xs, ys. repeat split; try assumption.
  intros e He. apply I, Hi, He.
Qed.

Lemma Good_app2 a b : Good a -> Good b -> Good (app2 a b).
Proof.
  intros [A1 A2] [B1 B2]. unfold Good, app2. cbn [fst snd]. split; apply Forall_app; split.
  - eapply Forall_impl; [|exact A1]. intros e. apply Src_mono. apply incl_appl, incl_refl.
  - eapply Forall_impl; [|exact B1]. intros e. apply Src_mono. apply incl_appr, incl_refl.
  - eapply Forall_impl; [|exact A2]. intros q. apply RecIn_mono. apply incl_appl, incl_refl.
  - eapply Forall_impl; [|exact B2]. intros q. apply RecIn_mono. apply incl_appr, incl_refl.
Qed.

Definition quiet (e : entry) : Prop := ekind e <> KIterRem /\ ekind e <> KIterAdd /\ ep1 e = ep2 e.
Lemma Good_quiet es : Forall quiet es -> Good (es, []).
Proof.
  intros Q. split; [|constructor]. eapply Forall_impl; [|exact Q].
  intros e (Q1 & Q2 & Q3) [N|[N|N]]; contradiction.
Qed.

Lemma quiet_report k p a b d : k <> KIterRem -> k <> KIterAdd -> Forall quiet (report skip k p p a b d).
Proof. intros K1 K2. unfold report. destruct (skip p); constructor; [|constructor]. repeat split; assumption. Qed.

Lemma quiet_diff_atom a b p : Forall quiet (diff_atom udiff skip a b p p).
Proof.
  apply Forall_forall. intros e He. apply diff_atom_In in He as ([K|K] & P1 & P2 & _);
    (split; [rewrite K; discriminate|split; [rewrite K; discriminate|congruence]]).
Qed.

Lemma quiet_diff_set xs ys p : Forall quiet (diff_set hatom skip xs ys p p).
Proof.
  unfold diff_set. apply Forall_app. split; apply Forall_forall; intros e He;
    apply in_flat_map in He as (y & _ & He); (destruct (existsb _ _); [destruct He|]);
    unfold report_set in He; (destruct (skip p); [destruct He|]); destruct He as [<-|[]];
    repeat split; discriminate.
Qed.

Definition IHG (t1 : value) : Prop :=
  forall t2 p, wf t1 = true -> wf t2 = true -> resolve r1 p = Some t1 -> resolve r2 p = Some t2 ->
    Good (diff t1 t2 p p).

Lemma G_go_list xs0 : Forall IHG xs0 -> forall ys0 i XS YS p,
  at_level p XS YS -> leafb XS YS = false -> xs0 = skipn i XS -> ys0 = skipn i YS ->
  forallb wf xs0 = true -> forallb wf ys0 = true ->
  Good (go_list skip diff p p xs0 ys0 i).
Proof.
  induction 1 as [|x xs Hx _ IH]; intros ys0 i XS YS p A L E1 E2 W1 W2.
  - cbn. split; [|constructor]. apply Forall_forall. intros e He _.
    apply added_from_In in He as (k & y & Hk & _ & ->).
    exists p, XS, YS. split; [exact A|]. right. split; [exact L|]. right.
    exists (i + k), y. split; [|split; [|reflexivity]].
    + symmetry in E1. apply skipn_nil_length in E1. lia.
    + rewrite E2, nth_error_skipn in Hk. exact Hk.
  - destruct ys0 as [|y ys].
    + cbn [go_list]. split; [|constructor]. apply Forall_forall. intros e He _.
      apply removed_from_In in He as (k & z & Hk & _ & ->).
      exists p, XS, YS. split; [exact A|]. right. split; [exact L|]. left.
      exists (i + k), z. split; [|split; [|reflexivity]].
      * symmetry in E2. apply skipn_nil_length in E2. lia.
      * rewrite E1, nth_error_skipn in Hk. exact Hk.
    + cbn [go_list]. symmetry in E1, E2.
      apply skipn_cons_nth in E1 as [N1 E1]. apply skipn_cons_nth in E2 as [N2 E2].
      cbn in W1, W2. apply andb_true_iff in W1 as [Wx W1], W2 as [Wy W2].
      destruct A as (v1 & v2 & A1 & A2 & A3 & A4).
      apply Good_app2.
      * apply Hx; try assumption; eapply resolve_seq_item; eassumption.
      * eapply IH; try eassumption; [exists v1, v2; repeat split; assumption|symmetry; exact E1|symmetry; exact E2].
Qed.

Lemma G_seq_body xs ys v1 v2 p :
  Forall IHG xs -> resolve r1 p = Some v1 -> seq_items v1 = Some xs ->
  resolve r2 p = Some v2 -> seq_items v2 = Some ys ->
  forallb wf xs = true -> forallb wf ys = true ->
  Good (seq_body hatom udiff ops skip excl c xs ys p p).
Proof.
  intros IH H1 S1 H2 S2 W1 W2.
  assert (A : at_level p xs ys) by (exists v1, v2; repeat split; assumption).
  unfold seq_body. fold (leafb xs ys). destruct (leafb xs ys) eqn:L.
  - destruct (dll xs ys p p) as [es rc] eqn:D. split; cbn [fst snd].
    + apply Forall_forall. intros e He _. exists p, xs, ys. split; [exact A|]. left.
      rewrite D. cbn [fst snd]. split; [exact L|split; [exact He|]]. intros ->. left. reflexivity.
    + destruct rc; constructor; [|constructor]. exists xs, ys. rewrite D. cbn [fst snd].
      repeat split; try assumption. apply incl_refl.
  - eapply G_go_list; try eassumption; reflexivity.
Qed.

Lemma G_go_common kvs1 kvs2 p :
  nodup_atoms (map fst kvs1) = true ->
  forallb (fun kv => wf (snd kv)) kvs1 = true -> forallb (fun kv => wf (snd kv)) kvs2 = true ->
  resolve r1 p = Some (VDict kvs1) -> resolve r2 p = Some (VDict kvs2) ->
  forall l, (forall kv, In kv l -> In kv kvs1) -> Forall (fun kv => IHG (snd kv)) l ->
  Good (go_common c diff kvs2 (keys_of c kvs2) p p l).
Proof.
  intros N1 W1 W2 H1 H2. induction l as [|[k v1] l IH]; intros Sub HI; cbn [go_common].
  - apply Good_quiet. constructor.
  - apply Forall_cons_iff in HI as [Hk HI'].
    assert (Rest : Good (go_common c diff kvs2 (keys_of c kvs2) p p l)).
    { apply IH; [intros kv Hkv; apply Sub; right; exact Hkv|exact HI']. }
    destruct (keep_key c k); [|exact Rest].
    destruct (find (py_eq k) (keys_of c kvs2)) as [k'|] eqn:Fk; [|exact Rest].
    destruct (assoc k' kvs2) as [v2|] eqn:A2; [|exact Rest].
    apply Good_app2; [|exact Rest].
    apply find_some in Fk as [Hk' E]. cbn in Hk. apply Hk.
    + eapply forallb_forall in W1; [|apply Sub; left; reflexivity]. exact W1.
    + apply assoc_In in A2 as (k'' & Hin & _). eapply forallb_forall in W2; [|exact Hin]. exact W2.
    + unfold snoc. rewrite resolve_snoc, H1. rewrite get_item_key_dict.
      eapply assoc_nodup; [exact N1|apply Sub; left; reflexivity|exact E].
    + unfold snoc. rewrite resolve_snoc, H2. rewrite get_item_key_dict. exact A2.
Qed.

Lemma G_dict_body kvs1 kvs2 p :
  Forall (fun kv => IHG (snd kv)) kvs1 -> wf (VDict kvs1) = true -> wf (VDict kvs2) = true ->
  resolve r1 p = Some (VDict kvs1) -> resolve r2 p = Some (VDict kvs2) ->
  Good (dict_body hatom udiff ops skip excl c kvs1 kvs2 p p).
Proof.
  intros IH W1 W2 H1 H2. cbn in W1, W2. apply andb_true_iff in W1 as [N1 W1], W2 as [N2 W2].
  unfold dict_body. destruct (dict_shortcut _ _ _ _ _).
  - apply Good_quiet. apply quiet_report; discriminate.
  - pose proof (G_go_common kvs1 kvs2 p N1 W1 W2 H1 H2 kvs1 (fun kv H => H) IH) as G.
    set (added := flat_map _ (keys_of c kvs2)). set (removed := flat_map _ (keys_of c kvs1)).
    assert (QA : Forall quiet (added ++ removed)).
    { apply Forall_app. split; apply Forall_forall; intros e He; apply in_flat_map in He as (k & _ & He);
        (destruct (mem_atom k _); [destruct He|]);
        (eapply Forall_forall in He; [exact He|apply quiet_report; discriminate]). }
    pose proof (Good_app2 _ _ (Good_quiet _ QA) G) as G2. unfold app2 in G2. cbn [fst snd app] in G2.
    rewrite <- app_assoc in G2. exact G2.
Qed.

Theorem diff_sources : forall t1, IHG t1.
Proof.
  induction t1 as [a|xs IH|xs IH|kvs IH|xs|xs] using value_ind'; intros t2 p W1 W2 H1 H2;
    (destruct (skip p) eqn:Hs; [rewrite diff_skip by exact Hs; apply Good_quiet; constructor|]);
    (match goal with |- context [diff ?t1 t2 _ _] => destruct (ty_eqb (type_of t1) (type_of t2)) eqn:T end;
     [|rewrite diff_type by assumption; apply Good_quiet; apply quiet_report; discriminate]);
    apply ty_eqb_true in T; destruct t2; try discriminate T; try (destruct a; discriminate T).
  - rewrite diff_atom_eq by exact Hs. cbn in T. rewrite T.
    replace (ty_eqb (atom_ty a0) (atom_ty a0)) with true by (destruct (atom_ty a0); reflexivity).
    cbn [negb]. apply Good_quiet. apply quiet_diff_atom.
  - rewrite diff_list by exact Hs. eapply G_seq_body; try eassumption; reflexivity.
  - rewrite diff_tuple by exact Hs. eapply G_seq_body; try eassumption; reflexivity.
  - rewrite diff_dict by exact Hs. apply G_dict_body; assumption.
  - rewrite diff_vset by exact Hs. apply Good_quiet. apply quiet_diff_set.
  - rewrite diff_vfrozen by exact Hs. apply Good_quiet. apply quiet_diff_set.
Qed.

End Source.

(** Correspondence entry points for the memo-threaded ordered diff (no theorem depends on it). *)
From Coq Require Import List ZArith NArith Bool String.
Import ListNotations.
From DD Require Import Base.Sx Base.PyStr Base.Value Diff.Tree Diff.DiffModel Diff.DiffShow
  Hash.HashModel Diff.DiffMemo.

(* DeepDiff(t1, t2, view='tree') with the run-wide table, hex hasher, DeepDiff's default
   deephash_parameters: (reported levels, recorded opcode paths) *)
Definition run_diff_memo (udiff : pystr -> pystr -> pystr)
    (ops : path -> list value -> list value -> list opcode) (skip excl : path -> bool) (c : cfg)
    (t1 t2 : value) : list entry * list path :=
  fst (run_diff_m hexhash default_opts udiff ops skip excl c t1 t2).

(** Port of Diff/DiffEmpty.v to the extended universe Diff/XuValue.v (datetimes, dates, times, timedeltas,
    Decimals as atoms).  New: the leaf guard [lf] of [inputs_ok] - the datetime comparer normalises both sides
    (a naive datetime is declared UTC), so "nothing reported" means Python-equal only for two datetimes of the same
    kind (both aware or both naive): [dt_same_kind], finding C02-NAIVE-AWARE otherwise.

    C02: a structural copy gives an empty diff; an empty diff means Python-equal.
    Both alignment modes, every threshold <= 1.

    copy clause   for EVERY opcode oracle that tiles the two lists with
                  well-formed blocks ([tiling]): it need not be truthful.
    soundness     for every valid oracle ([valid_ops]: tiling + 'equal' blocks
                  are pointwise Python-equal) and inputs ([inputs_ok keep ok]) whose
                  dict keys are all looked at and whose set members all lie where the
                  item hash is injective; instantiated for the DeepHash model with
                  ok = tag_safe_atom (Hash/HashModel.v) at the end. *)
From Coq Require Import List ZArith NArith Bool Arith Lia.
Import ListNotations.
From DD Require Import Base.PyStr Diff.XuValue Diff.XuFacts
  Diff.XuTree Diff.XuModel Diff.XuDiffFacts Diff.XuLemmas.

Notation noskip := (fun _ : path => false).

(* ------------------------------------------------------------------ *)
(** * Validity of an opcode oracle (computable) *)

Section All2.
Context {A B : Type} (f : A -> B -> bool).
Fixpoint all2 (xs : list A) (ys : list B) {struct xs} : bool :=
  match xs, ys with
  | [], [] => true
  | x :: xs', y :: ys' => f x y && all2 xs' ys'
  | _, _ => false
  end.
End All2.

(* the shape of a block: an 'equal' block spans as many items on both sides,
   a 'delete' block none of t2, an 'insert' block none of t1 *)
Definition tag_ok (o : opcode) : bool :=
  match otag o with
  | OEqual => Nat.eqb (oi2 o - oi1 o) (oj2 o - oj1 o)
  | ODelete => Nat.eqb (oj1 o) (oj2 o)
  | OInsert => Nat.eqb (oi1 o) (oi2 o)
  | OReplace => true
  end.

(* the blocks are contiguous from (i, j) to (n, m) *)
Fixpoint tiles (os : list opcode) (i j n m : nat) : bool :=
  match os with
  | [] => Nat.eqb i n && Nat.eqb j m
  | o :: r => Nat.eqb (oi1 o) i && Nat.eqb (oj1 o) j && Nat.leb i (oi2 o) && Nat.leb j (oj2 o)
              && tag_ok o && tiles r (oi2 o) (oj2 o) n m
  end.

Definition equal_ok (xs ys : list value) (o : opcode) : bool :=
  match otag o with
  | OEqual => all2 py_eq_leaf (slice xs (oi1 o) (oi2 o)) (slice ys (oj1 o) (oj2 o))
  | _ => true
  end.

Definition valid_opcodes (os : list opcode) (xs ys : list value) : bool :=
  tiles os 0 0 (length xs) (length ys) && forallb (equal_ok xs ys) os.

Definition tiling (ops : path -> list value -> list value -> list opcode) : Prop :=
  forall p xs ys, tiles (ops p xs ys) 0 0 (length xs) (length ys) = true.
Definition valid_ops (ops : path -> list value -> list value -> list opcode) : Prop :=
  forall p xs ys, valid_opcodes (ops p xs ys) xs ys = true.

Lemma valid_ops_tiling ops : valid_ops ops -> tiling ops.
Proof. intros H p xs ys. specialize (H p xs ys). apply andb_true_iff in H as [H _]. exact H. Qed.

(* guards on the inputs: every dict key, at every depth, satisfies [keep] (it is looked at)
   and every set / frozenset member, at every depth, satisfies [ok] (the item hash is
   injective there) *)
Fixpoint inputs_ok (keep ok lf : atom -> bool) (v : value) : bool :=
  match v with
  | VAtom a => lf a
  | VList xs | VTuple xs => forallb (inputs_ok keep ok lf) xs
  | VDict kvs => forallb (fun kv => keep (fst kv) && inputs_ok keep ok lf (snd kv)) kvs
  | VSet xs | VFrozen xs => forallb ok xs
  end.

(* two datetimes of one kind: both aware or both naive (anything else: no condition) *)
Definition is_aware (o : option Z) : bool := match o with Some _ => true | None => false end.
Definition dt_same_kind (a b : atom) : bool :=
  match a, b with
  | ADt _ o1, ADt _ o2 => Bool.eqb (is_aware o1) (is_aware o2)
  | _, _ => true
  end.
(* the leaf guard "every datetime leaf is aware" (k = true) / "... is naive" (k = false) *)
Definition dt_kind (k : bool) (a : atom) : bool :=
  match a with
  | ADt _ o => Bool.eqb (is_aware o) k
  | _ => true
  end.
Definition lfv (lf : atom -> bool) (v : value) : bool := match v with VAtom a => lf a | _ => true end.
Definition any_atom (_ : atom) : bool := true.

(* ------------------------------------------------------------------ *)
(** * Generic facts *)

Lemma flat_map_nil {A B} (f : A -> list B) l : (forall x, In x l -> f x = []) -> flat_map f l = [].
Proof.
  induction l as [|x l IH]; cbn; intros H; [reflexivity|].
  rewrite (H x (or_introl eq_refl)), IH; [reflexivity|]. intros y Hy. apply H. right. exact Hy.
Qed.

Lemma flat_map_nil_inv {A B} (f : A -> list B) l : flat_map f l = [] -> forall x, In x l -> f x = [].
Proof.
  induction l as [|x l IH]; cbn; intros H y Hy; [destruct Hy|].
  apply app_eq_nil in H as [H1 H2]. destruct Hy as [<-|Hy]; [exact H1|apply IH; assumption].
Qed.

Lemma slice_length {A} (l : list A) a b : a <= b -> b <= length l -> length (slice l a b) = b - a.
Proof. intros H1 H2. unfold slice. rewrite firstn_length, skipn_length. lia. Qed.

Lemma skipn_add {A} (l : list A) n m : skipn (n + m) l = skipn n (skipn m l).
Proof.
  revert l; induction m as [|m IH]; intros l.
  - rewrite Nat.add_0_r. reflexivity.
  - rewrite Nat.add_succ_r. destruct l as [|x l]; cbn; [rewrite skipn_nil; reflexivity|apply IH].
Qed.

Lemma slice_skipn {A} (l : list A) a b : a <= b -> skipn a l = slice l a b ++ skipn b l.
Proof.
  intros H. unfold slice. replace b with ((b - a) + a) at 2 by lia.
  rewrite skipn_add. symmetry. apply firstn_skipn.
Qed.

Lemma slice_same_nil {A} (l : list A) a : slice l a a = [].
Proof. unfold slice. rewrite Nat.sub_diag. reflexivity. Qed.

Lemma forallb_firstn {A} (f : A -> bool) n l : forallb f l = true -> forallb f (firstn n l) = true.
Proof.
  revert l; induction n as [|n IH]; intros [|x l]; cbn; intros H; try reflexivity.
  apply andb_true_iff in H as [H1 H2]. rewrite H1. apply IH. exact H2.
Qed.
Lemma forallb_skipn {A} (f : A -> bool) n l : forallb f l = true -> forallb f (skipn n l) = true.
Proof.
  revert l; induction n as [|n IH]; intros [|x l]; cbn; intros H; try reflexivity; try exact H.
  apply andb_true_iff in H as [_ H2]. apply IH. exact H2.
Qed.
Lemma forallb_slice {A} (f : A -> bool) l a b : forallb f l = true -> forallb f (slice l a b) = true.
Proof. intros H. unfold slice. apply forallb_firstn, forallb_skipn. exact H. Qed.

Lemma all2_app {A B} (f : A -> B -> bool) a b c d :
  all2 f a b = true -> all2 f c d = true -> all2 f (a ++ c) (b ++ d) = true.
Proof.
  revert b; induction a as [|x a IH]; intros [|y b]; cbn; intros H1 H2; try discriminate; [exact H2|].
  apply andb_true_iff in H1 as [H H1]. rewrite H. apply IH; assumption.
Qed.

Lemma ty_eqb_refl t : ty_eqb t t = true.
Proof. destruct t; reflexivity. Qed.

(* a py_eq-duplicate-free list that is included in another is not longer *)
Lemma nodup_incl_le l1 : forall l2,
  nodup_atoms l1 = true -> (forall a, In a l1 -> mem_atom a l2 = true) -> length l1 <= length l2.
Proof.
  induction l1 as [|a l1 IH]; intros l2 N H; cbn; [lia|].
  cbn in N. apply andb_true_iff in N as [Na N]. apply negb_true_iff in Na.
  assert (Ha : mem_atom a l2 = true) by (apply H; left; reflexivity).
  pose proof (remove1_length a l2 Ha) as HL.
  assert (length l1 <= length (remove1 a l2)); [|lia].
  apply IH; [exact N|]. intros x Hx. apply remove1_keeps; [apply H; right; exact Hx|].
  destruct (py_eq a x) eqn:E; [|reflexivity]. exfalso.
  assert (mem_atom a l1 = true) by (apply mem_atom_In; exists x; split; assumption). congruence.
Qed.

Lemma assoc_py_eq {B} (l : list (atom * B)) k k' : py_eq k k' = true -> assoc k l = assoc k' l.
Proof.
  intros E. induction l as [|[k0 v0] l IH]; cbn; [reflexivity|].
  assert (py_eq k0 k = py_eq k0 k') as ->.
  { destruct (py_eq k0 k) eqn:E1, (py_eq k0 k') eqn:E2; try reflexivity.
    - rewrite (py_eq_trans k0 k k' E1 E) in E2. discriminate.
    - rewrite py_eq_sym in E. rewrite (py_eq_trans k0 k' k E2 E) in E1. discriminate. }
  rewrite IH. reflexivity.
Qed.

Lemma mem_find k l : mem_atom k l = true -> exists k', find (py_eq k) l = Some k'.
Proof.
  unfold mem_atom. induction l as [|x l IH]; cbn; [discriminate|].
  destruct (py_eq k x); [intros _; exists x; reflexivity|exact IH].
Qed.

Lemma In_mem a l : In a l -> mem_atom a l = true.
Proof. intros H. apply mem_atom_In. exists a. split; [exact H|apply py_eq_refl]. Qed.

(* ------------------------------------------------------------------ *)
(** * mutual_add_removes yields nothing only from nothing *)

Lemma mutual_nil es : mutual es = [] -> es = [].
Proof.
  intros H. destruct es as [|e es']; [reflexivity|exfalso].
  unfold mutual in H. pose proof (flat_map_nil_inv _ _ H) as HN. clear H.
  assert (Rem : forall r, In r (e :: es') -> ekind r = KIterRem -> False).
  { intros r Hr K. specialize (HN r Hr). cbv beta in HN. rewrite K in HN.
    destruct (last_with_path _ _); [destruct (last_with_path _ _)|]; discriminate HN. }
  specialize (HN e (or_introl eq_refl)). cbv beta in HN.
  destruct (ekind e) eqn:K; try discriminate HN.
  - destruct (last_with_path (ep1 e) (filter (is_kind KIterRem) (e :: es'))) as [r|] eqn:L; [|discriminate HN].
    apply last_with_path_In in L as [Hin _]. apply filter_In in Hin as [Hin Hk].
    apply (Rem r Hin). unfold is_kind in Hk. destruct (ekind r); try discriminate Hk. reflexivity.
  - apply (Rem e (or_introl eq_refl) K).
Qed.

(* ------------------------------------------------------------------ *)
(** * Leaves *)

Lemma dt_norm_py_eq u1 o1 u2 o2 :
  Bool.eqb (is_aware o1) (is_aware o2) = true ->
  py_eq (dt_norm (ADt u1 o1)) (dt_norm (ADt u2 o2)) = py_eq (ADt u1 o1) (ADt u2 o2).
Proof.
  destruct o1 as [a|], o2 as [b|]; cbn [is_aware Bool.eqb]; try discriminate; intros _;
    unfold py_eq; cbn [qnum dt_norm tz_eq]; rewrite ?Z.mul_0_l, ?Z.sub_0_r; reflexivity.
Qed.

Section Leaves.
Variable udiff : pystr -> pystr -> pystr.

Lemma diff_atom_refl skip a p1 p2 : diff_atom udiff skip a a p1 p2 = [].
Proof.
  unfold diff_atom. destruct (skip p1); [reflexivity|]. rewrite ty_eqb_refl. cbn [negb].
  destruct a; try (rewrite py_eq_refl; reflexivity); unfold diff_str; rewrite pystr_eqb_refl; reflexivity.
Qed.

Lemma diff_leaf_refl skip x p1 p2 : diff_leaf udiff skip x x p1 p2 = [].
Proof. destruct x; try reflexivity. apply diff_atom_refl. Qed.

Lemma pairs_leaf_same skip l i p1 p2 : pairs_leaf udiff skip l l i i p1 p2 = [].
Proof.
  revert i; induction l as [|x l IH]; intros i; [reflexivity|].
  cbn [pairs_leaf]. rewrite Nat.eqb_refl. cbn [negb andb]. rewrite diff_leaf_refl, IH. reflexivity.
Qed.

Lemma removed_from_length xs i p1 p2 : length (removed_from noskip xs i p1 p2) = length xs.
Proof. revert i; induction xs as [|x xs IH]; intros i; cbn; [reflexivity|]. rewrite IH. reflexivity. Qed.
Lemma added_from_length ys j p1 p2 : length (added_from noskip ys j p1 p2) = length ys.
Proof. revert j; induction ys as [|y ys IH]; intros j; cbn; [reflexivity|]. rewrite IH. reflexivity. Qed.

Lemma pairs_leaf_length_ge xs : forall ys i j p1 p2,
  (length xs - length ys) + (length ys - length xs) <= length (pairs_leaf udiff noskip xs ys i j p1 p2).
Proof.
  induction xs as [|x xs IH]; intros ys i j p1 p2.
  - destruct ys; cbn [pairs_leaf]; rewrite added_from_length; cbn; lia.
  - destruct ys as [|y ys].
    + cbn [pairs_leaf]. rewrite removed_from_length. cbn. lia.
    + cbn [pairs_leaf]. rewrite app_length. specialize (IH ys (S i) (S j) p1 p2). cbn [length]. lia.
Qed.

(* an atom-level diff is empty only for Python-equal atoms *)
Lemma diff_atom_nil a b p1 p2 :
  dt_same_kind a b = true -> diff_atom udiff noskip a b p1 p2 = [] -> py_eq a b = true.
Proof.
  intros K. unfold diff_atom, report. destruct (negb (ty_eqb (atom_ty a) (atom_ty b))) eqn:T; [discriminate|].
  destruct a as [|x|x|x|s|s|u1 o1|x|u1 o1|x|m1 e1], b as [|y|y|y|t|t|u2 o2|y|u2 o2|y|m2 e2]; try discriminate T;
    try (destruct (py_eq _ _); [reflexivity|discriminate]).
  - unfold diff_str. replace (py_eq (AStr s) (AStr t)) with (pystr_eqb s t) by reflexivity.
    destruct (pystr_eqb s t); [reflexivity|]. destruct (true && _); discriminate.
  - unfold diff_str. replace (py_eq (ABytes s) (ABytes t)) with (pystr_eqb s t) by reflexivity.
    destruct (pystr_eqb s t); [reflexivity|]. destruct (_ && _); discriminate.
  - cbn [dt_same_kind] in K. rewrite (dt_norm_py_eq u1 o1 u2 o2 K).
    destruct (py_eq (ADt u1 o1) (ADt u2 o2)); [reflexivity|discriminate].
Qed.

Variable lf : atom -> bool.
Hypothesis Hlf : forall a b, lf a = true -> lf b = true -> dt_same_kind a b = true.

Lemma pairs_leaf_nil xs : forall ys i j p1 p2,
  forallb is_atom xs = true -> forallb is_atom ys = true ->
  forallb (lfv lf) xs = true -> forallb (lfv lf) ys = true ->
  pairs_leaf udiff noskip xs ys i j p1 p2 = [] -> all2 py_eq_leaf xs ys = true.
Proof.
  induction xs as [|x xs IH]; intros ys i j p1 p2 A1 A2 L1 L2 H.
  - destruct ys as [|y ys]; [reflexivity|]. cbn in H. discriminate H.
  - destruct ys as [|y ys]; [cbn in H; discriminate H|].
    cbn [pairs_leaf] in H. apply app_eq_nil in H as [H1 H2].
    cbn in A1, A2, L1, L2. apply andb_true_iff in A1 as [Ax A1], A2 as [Ay A2], L1 as [Lx L1], L2 as [Ly L2].
    cbn [all2]. rewrite (IH ys (S i) (S j) p1 p2 A1 A2 L1 L2 H2), andb_true_r.
    destruct (negb (i =? j) && py_eq_leaf x y) eqn:E; [cbn in H1; discriminate H1|].
    destruct x, y; try discriminate Ax; try discriminate Ay. cbn in H1 |- *.
    eapply diff_atom_nil; [apply Hlf; assumption|exact H1].
Qed.

End Leaves.

(* ------------------------------------------------------------------ *)
(** * The difflib pass on a list against itself: no entry, or at least two *)

Lemma tiles_le os : forall i j n m, tiles os i j n m = true -> i <= n /\ j <= m.
Proof.
  induction os as [|o os IH]; intros i j n m H; cbn in H.
  - apply andb_true_iff in H as [H1 H2]. apply Nat.eqb_eq in H1, H2. lia.
  - repeat (apply andb_true_iff in H as [H ?]).
    match goal with Ht : tiles os _ _ _ _ = true |- _ => apply IH in Ht as [? ?] end.
    repeat match goal with Hx : (_ <=? _) = true |- _ => apply Nat.leb_le in Hx end. lia.
Qed.

Section SelfOpcodes.
Variable udiff : pystr -> pystr -> pystr.
Variable l : list value.
Variables p1 p2 : path.
Notation n := (length l).
Notation E os := (length (by_opcodes udiff noskip os l l p1 p2)).

Lemma by_opcodes_cons o os xs ys :
  by_opcodes udiff noskip (o :: os) xs ys p1 p2 =
  by_opcodes udiff noskip [o] xs ys p1 p2 ++ by_opcodes udiff noskip os xs ys p1 p2.
Proof. unfold by_opcodes. cbn [flat_map]. rewrite app_nil_r. reflexivity. Qed.

Lemma by_opcodes_single o xs ys :
  by_opcodes udiff noskip [o] xs ys p1 p2 =
  match otag o with
  | OEqual => []
  | OReplace => pairs_leaf udiff noskip (slice xs (oi1 o) (oi2 o)) (slice ys (oj1 o) (oj2 o)) (oi1 o) (oj1 o) p1 p2
  | ODelete => removed_from noskip (slice xs (oi1 o) (oi2 o)) (oi1 o) p1 p2
  | OInsert => added_from noskip (slice ys (oj1 o) (oj2 o)) (oj1 o) p1 p2
  end.
Proof. unfold by_opcodes. cbn [flat_map]. apply app_nil_r. Qed.

Lemma self_count os : forall i j, tiles os i j n n = true ->
  (i - j) + (j - i) <= E os /\ (i = j -> E os = 0 \/ 2 <= E os).
Proof.
  induction os as [|o os IH]; intros i j H.
  - cbn in H. apply andb_true_iff in H as [H1 H2]. apply Nat.eqb_eq in H1, H2. cbn. lia.
  - pose proof (tiles_le _ _ _ _ _ H) as [Hi Hj]. cbn [tiles] in H.
    repeat (apply andb_true_iff in H as [H ?]).
    match goal with Ht : tiles os _ _ _ _ = true |- _ =>
      pose proof (tiles_le _ _ _ _ _ Ht) as [Hi2 Hj2]; specialize (IH _ _ Ht) as [IH1 IH2] end.
    repeat match goal with Hx : (_ <=? _) = true |- _ => apply Nat.leb_le in Hx end.
    repeat match goal with Hx : (_ =? _) = true |- _ => apply Nat.eqb_eq in Hx end.
    rewrite by_opcodes_cons, app_length, by_opcodes_single.
    destruct o as [tag i1 i2 j1 j2]. cbn [oi1 oi2 oj1 oj2 otag] in *. subst i1 j1.
    unfold tag_ok in *. cbn [otag oi1 oi2 oj1 oj2] in *.
    destruct tag.
    + (* equal *) match goal with Hx : (_ =? _) = true |- _ => apply Nat.eqb_eq in Hx end. cbn [length]. lia.
    + (* replace *)
      pose proof (pairs_leaf_length_ge udiff (slice l i i2) (slice l j j2) i j p1 p2) as HP.
      rewrite !slice_length in HP by lia.
      split; [lia|]. intros ->.
      destruct (Nat.eq_dec i2 j2) as [->|Hne].
      * rewrite pairs_leaf_same. cbn [length]. apply IH2. reflexivity.
      * right. lia.
    + (* delete *) match goal with Hx : (_ =? _) = true |- _ => apply Nat.eqb_eq in Hx end. subst j2.
      rewrite removed_from_length, slice_length by lia. split; [lia|]. intros ->.
      destruct (Nat.eq_dec i2 j) as [->|Hne]; [rewrite Nat.sub_diag; apply IH2; reflexivity|right; lia].
    + (* insert *) match goal with Hx : (_ =? _) = true |- _ => apply Nat.eqb_eq in Hx end. subst i2.
      rewrite added_from_length, slice_length by lia. split; [lia|]. intros ->.
      destruct (Nat.eq_dec j2 j) as [->|Hne]; [rewrite Nat.sub_diag; apply IH2; reflexivity|right; lia].
Qed.

End SelfOpcodes.

(* ------------------------------------------------------------------ *)
(** * Copy clause *)

Section Copy.
Variable hatom : atom -> pystr.
Variable udiff : pystr -> pystr -> pystr.
Variable ops : path -> list value -> list value -> list opcode.
Variable excl : path -> bool.
Variable c : cfg.
Hypothesis Hthr : thr_num c <= thr_den c.
Hypothesis Htile : tiling ops.
Notation diff := (diff hatom udiff ops noskip excl c).

Lemma default_leaf_self l p : fst (default_leaf_list udiff ops noskip l l p p) = [].
Proof.
  unfold default_leaf_list.
  destruct (self_count udiff l p p (ops p l l) 0 0 (Htile p l l)) as [_ H2]. specialize (H2 eq_refl).
  rewrite pairs_leaf_same. cbn [length Nat.leb].
  destruct (1 <? length (by_opcodes udiff noskip (ops p l l) l l p p)) eqn:L; [reflexivity|].
  apply Nat.ltb_ge in L. cbn [fst]. apply length_zero_iff_nil. lia.
Qed.

Lemma shortcut_self k p : dict_shortcut excl c k k p = false.
Proof.
  unfold dict_shortcut. destruct (thr_num c =? 0); [reflexivity|].
  rewrite (filter_all (fun x => mem_atom x k) k) by (intros x Hx; apply In_mem; exact Hx).
  rewrite (filter_nil (fun x => negb (mem_atom x k)) k) by (intros x Hx; rewrite In_mem by exact Hx; reflexivity).
  rewrite app_nil_r.
  pose proof (filter_length_le (fun x => negb (excl (snoc p (PKey x)))) k) as L.
  apply andb_false_iff. right. apply Nat.ltb_ge. nia.
Qed.

Lemma hash_in y xs : In y xs -> existsb (pystr_eqb (hatom y)) (map hatom xs) = true.
Proof.
  intros H. apply existsb_exists. exists (hatom y). split; [apply in_map; exact H|apply pystr_eqb_refl].
Qed.

Lemma diff_set_self xs p : diff_set hatom noskip xs xs p p = [].
Proof.
  unfold diff_set.
  assert (H : forall y, In y (first_per_hash hatom xs []) ->
             (if existsb (pystr_eqb (hatom y)) (map hatom xs) then @nil entry else report_set noskip KSetAdd y p p) = []).
  { intros y Hy. apply (first_per_hash_In hatom) in Hy. rewrite (hash_in y xs Hy). reflexivity. }
  assert (H' : forall y, In y (first_per_hash hatom xs []) ->
             (if existsb (pystr_eqb (hatom y)) (map hatom xs) then @nil entry else report_set noskip KSetRem y p p) = []).
  { intros y Hy. apply (first_per_hash_In hatom) in Hy. rewrite (hash_in y xs Hy). reflexivity. }
  rewrite (flat_map_nil _ _ H), (flat_map_nil _ _ H'). reflexivity.
Qed.

Definition IHC (t : value) : Prop := forall p, wf t = true -> fst (diff t t p p) = [].

Lemma C_go_list xs : Forall IHC xs -> forall i p, forallb wf xs = true ->
  fst (go_list noskip diff p p xs xs i) = [].
Proof.
  induction 1 as [|x xs Hx _ IH]; intros i p W; [reflexivity|].
  cbn in W. apply andb_true_iff in W as [Wx W].
  change (go_list noskip diff p p (x :: xs) (x :: xs) i) with
    (app2 (diff x x (snoc p (PIdx i)) (snoc p (PIdx i))) (go_list noskip diff p p xs xs (S i))).
  unfold app2. cbn [fst]. rewrite (Hx _ Wx), (IH (S i) p W). reflexivity.
Qed.

Lemma C_seq_body xs p : Forall IHC xs -> forallb wf xs = true ->
  fst (seq_body hatom udiff ops noskip excl c xs xs p p) = [].
Proof.
  intros IH W. unfold seq_body. destruct (negb (zip c) && forallb is_atom xs && forallb is_atom xs).
  - pose proof (default_leaf_self xs p) as D.
    destruct (default_leaf_list udiff ops noskip xs xs p p) as [es rec]. exact D.
  - apply C_go_list; assumption.
Qed.

Lemma C_go_common kvs p :
  nodup_atoms (map fst kvs) = true -> forallb (fun kv => wf (snd kv)) kvs = true ->
  forall l, (forall kv, In kv l -> In kv kvs) -> Forall (fun kv => IHC (snd kv)) l ->
  fst (go_common c diff kvs (keys_of c kvs) p p l) = [].
Proof.
  intros N W. induction l as [|[k v1] l IH]; intros Sub HI; [reflexivity|].
  apply Forall_cons_iff in HI as [Hk HI'].
  assert (Rest : fst (go_common c diff kvs (keys_of c kvs) p p l) = []).
  { apply IH; [intros kv Hkv; apply Sub; right; exact Hkv|exact HI']. }
  change (go_common c diff kvs (keys_of c kvs) p p ((k, v1) :: l)) with
    (if keep_key c k then
       match find (py_eq k) (keys_of c kvs) with
       | Some k' => match assoc k' kvs with
                    | Some v2 => app2 (diff v1 v2 (snoc p (PKey k')) (snoc p (PKey k'))) (go_common c diff kvs (keys_of c kvs) p p l)
                    | None => go_common c diff kvs (keys_of c kvs) p p l
                    end
       | None => go_common c diff kvs (keys_of c kvs) p p l
       end
     else go_common c diff kvs (keys_of c kvs) p p l).
  destruct (keep_key c k); [|exact Rest].
  destruct (find (py_eq k) (keys_of c kvs)) as [k'|] eqn:Fk; [|exact Rest].
  apply find_some in Fk as [_ E].
  rewrite (assoc_nodup kvs k v1 k' N (Sub _ (or_introl eq_refl)) E).
  unfold app2. cbn [fst]. rewrite Rest, app_nil_r. cbn in Hk. apply Hk.
  eapply forallb_forall in W; [|apply Sub; left; reflexivity]. exact W.
Qed.

Theorem diff_copy_empty : forall t, IHC t.
Proof.
  induction t as [a|xs IH|xs IH|kvs IH|xs|xs] using value_ind'; intros p W.
  - rewrite diff_atom_eq by reflexivity. rewrite ty_eqb_refl. cbn [negb fst]. apply diff_atom_refl.
  - rewrite diff_list by reflexivity. apply C_seq_body; assumption.
  - rewrite diff_tuple by reflexivity. apply C_seq_body; assumption.
  - rewrite diff_dict by reflexivity. unfold dict_body. rewrite shortcut_self. cbn [fst].
    cbn in W. apply andb_true_iff in W as [N W].
    rewrite !flat_map_nil; [|intros k Hk; rewrite In_mem by exact Hk; reflexivity|intros k Hk; rewrite In_mem by exact Hk; reflexivity].
    cbn [app]. apply C_go_common; try assumption. intros kv Hkv; exact Hkv.
  - rewrite diff_vset by reflexivity. cbn [fst]. apply diff_set_self.
  - rewrite diff_vfrozen by reflexivity. cbn [fst]. apply diff_set_self.
Qed.

Theorem run_copy_empty t : wf t = true -> fst (run_diff hatom udiff ops noskip excl c t t) = [].
Proof.
  intros W. unfold run_diff. pose proof (diff_copy_empty t [] W) as H.
  destruct (diff t t [] []) as [es rec]. cbn [fst] in *. subst es. reflexivity.
Qed.

End Copy.

(* ------------------------------------------------------------------ *)
(** * Soundness of emptiness *)

Lemma py_eqv_list xs ys : py_eqv (VList xs) (VList ys) = all2 py_eqv xs ys.
Proof. reflexivity. Qed.
Lemma py_eqv_tuple xs ys : py_eqv (VTuple xs) (VTuple ys) = all2 py_eqv xs ys.
Proof. reflexivity. Qed.

Lemma all2_leaf_eqv xs ys : all2 py_eq_leaf xs ys = true -> all2 py_eqv xs ys = true.
Proof.
  revert ys; induction xs as [|x xs IH]; intros [|y ys]; cbn; intros H; try discriminate; [reflexivity|].
  apply andb_true_iff in H as [H1 H2]. rewrite (IH _ H2), andb_true_r.
  destruct x, y; cbn in H1; try discriminate. exact H1.
Qed.

Section Sound.
Variable hatom : atom -> pystr.
Variable udiff : pystr -> pystr -> pystr.
Variable ops : path -> list value -> list value -> list opcode.
Variable excl : path -> bool.
Variable c : cfg.
Variable ok : atom -> bool.
Variable lf : atom -> bool.
Hypothesis Hlf : forall a b, lf a = true -> lf b = true -> dt_same_kind a b = true.
(* the item hash separates members that are not Python-equal (it may identify == members:
   1 and 1.0 under DeepDiff's ==-keyed table) *)
Hypothesis Hinj : forall a b, ok a = true -> ok b = true -> hatom a = hatom b -> py_eq a b = true.
Hypothesis Hvalid : valid_ops ops.
Notation diff := (diff hatom udiff ops noskip excl c).
Notation keep := (keep_key c).

(* the difflib pass with a valid oracle *)
Lemma by_opcodes_nil xs ys p1 p2 os : forall i j,
  forallb is_atom xs = true -> forallb is_atom ys = true ->
  forallb (lfv lf) xs = true -> forallb (lfv lf) ys = true ->
  tiles os i j (length xs) (length ys) = true -> forallb (equal_ok xs ys) os = true ->
  by_opcodes udiff noskip os xs ys p1 p2 = [] ->
  all2 py_eq_leaf (skipn i xs) (skipn j ys) = true.
Proof.
  intros i j A1 A2 L1 L2. revert i j. induction os as [|o os IH]; intros i j T V H.
  - cbn in T. apply andb_true_iff in T as [T1 T2]. apply Nat.eqb_eq in T1, T2. subst.
    rewrite !skipn_all. reflexivity.
  - cbn [tiles] in T. repeat (apply andb_true_iff in T as [T ?]).
    cbn [forallb] in V. apply andb_true_iff in V as [Vo V].
    rewrite by_opcodes_cons in H. apply app_eq_nil in H as [Ho H].
    repeat match goal with Hx : (_ <=? _) = true |- _ => apply Nat.leb_le in Hx end.
    repeat match goal with Hx : (_ =? _) = true |- _ => apply Nat.eqb_eq in Hx end.
    match goal with Ht : tiles os _ _ _ _ = true |- _ => specialize (IH _ _ Ht V H) end.
    destruct o as [tag i1 i2 j1 j2]. cbn [oi1 oi2 oj1 oj2 otag] in *. subst i1 j1.
    rewrite (slice_skipn xs i i2), (slice_skipn ys j j2) by assumption.
    apply all2_app; [|exact IH].
    rewrite by_opcodes_single in Ho. cbn [otag oi1 oi2 oj1 oj2] in Ho.
    unfold equal_ok in Vo. unfold tag_ok in *. cbn [otag oi1 oi2 oj1 oj2] in *.
    destruct tag.
    + exact Vo.
    + eapply (pairs_leaf_nil udiff lf Hlf); [apply forallb_slice; exact A1|apply forallb_slice; exact A2|apply forallb_slice; exact L1|apply forallb_slice; exact L2|exact Ho].
    + match goal with Hx : (_ =? _) = true |- _ => apply Nat.eqb_eq in Hx end. subst j2.
      apply (f_equal (@length entry)) in Ho. rewrite removed_from_length in Ho. cbn in Ho.
      apply length_zero_iff_nil in Ho. rewrite Ho, slice_same_nil. reflexivity.
    + match goal with Hx : (_ =? _) = true |- _ => apply Nat.eqb_eq in Hx end. subst i2.
      apply (f_equal (@length entry)) in Ho. rewrite added_from_length in Ho. cbn in Ho.
      apply length_zero_iff_nil in Ho. rewrite Ho, slice_same_nil. reflexivity.
Qed.

Lemma default_leaf_nil xs ys p :
  forallb is_atom xs = true -> forallb is_atom ys = true ->
  forallb (lfv lf) xs = true -> forallb (lfv lf) ys = true ->
  fst (default_leaf_list udiff ops noskip xs ys p p) = [] -> all2 py_eq_leaf xs ys = true.
Proof.
  intros A1 A2 L1 L2. unfold default_leaf_list.
  pose proof (Hvalid p xs ys) as V. apply andb_true_iff in V as [T V].
  destruct (1 <? length (by_opcodes udiff noskip (ops p xs ys) xs ys p p)) eqn:L.
  - destruct (length (pairs_leaf udiff noskip xs ys 0 0 p p) <=? _); cbn [fst]; intros H.
    + eapply (pairs_leaf_nil udiff lf Hlf); eassumption.
    + rewrite H in L. cbn in L. discriminate L.
  - cbn [fst]. intros H. apply (by_opcodes_nil xs ys p p _ 0 0 A1 A2 L1 L2 T V H).
Qed.

(* sets *)
Lemma fph_cover l : forall seen a, In a l ->
  existsb (pystr_eqb (hatom a)) seen = true \/
  exists a', In a' (first_per_hash hatom l seen) /\ hatom a' = hatom a.
Proof.
  induction l as [|x l IH]; intros seen a Ha; [destruct Ha|].
  cbn [first_per_hash]. destruct Ha as [->|Ha].
  - destruct (existsb (pystr_eqb (hatom a)) seen) eqn:E; [left; reflexivity|].
    right. exists a. split; [left; reflexivity|reflexivity].
  - destruct (existsb (pystr_eqb (hatom x)) seen) eqn:E.
    + apply IH. exact Ha.
    + destruct (IH (hatom x :: seen) a Ha) as [H|(a' & H1 & H2)].
      * cbn in H. apply orb_true_iff in H as [H|H]; [|left; exact H].
        apply pystr_eqb_eq in H. right. exists x. split; [left; reflexivity|symmetry; exact H].
      * right. exists a'. split; [right; exact H1|exact H2].
Qed.

Lemma set_side_nil k xs ys p :
  forallb ok xs = true -> forallb ok ys = true ->
  flat_map (fun y => if existsb (pystr_eqb (hatom y)) (map hatom xs) then [] else report_set noskip k y p p)
           (first_per_hash hatom ys []) = [] ->
  forall y, In y ys -> mem_atom y xs = true.
Proof.
  intros O1 O2 H y Hy. destruct (fph_cover ys [] y Hy) as [E|(y' & H1 & H2)]; [discriminate E|].
  pose proof (flat_map_nil_inv _ _ H y' H1) as Hp. cbv beta in Hp.
  destruct (existsb (pystr_eqb (hatom y')) (map hatom xs)) eqn:E; [|discriminate Hp].
  apply existsb_exists in E as (h & Hh & Eh). apply in_map_iff in Hh as (x & <- & Hx).
  apply pystr_eqb_eq in Eh.
  assert (Oy : ok y = true) by (eapply forallb_forall in O2; eassumption).
  assert (Oy' : ok y' = true).
  { apply (first_per_hash_In hatom) in H1. eapply forallb_forall in O2; eassumption. }
  assert (Ox : ok x = true) by (eapply forallb_forall in O1; eassumption).
  apply (Hinj _ _ Oy' Oy) in H2. symmetry in Eh. apply (Hinj _ _ Ox Oy') in Eh.
  apply mem_atom_In. exists x. split; [exact Hx|].
  rewrite py_eq_sym. eapply py_eq_trans; eassumption.
Qed.

Lemma diff_set_nil xs ys p :
  nodup_atoms xs = true -> nodup_atoms ys = true ->
  forallb ok xs = true -> forallb ok ys = true ->
  diff_set hatom noskip xs ys p p = [] ->
  Nat.eqb (length xs) (length ys) && forallb (fun x => mem_atom x ys) xs = true.
Proof.
  intros N1 N2 O1 O2 H. unfold diff_set in H. apply app_eq_nil in H as [Ha Hr].
  pose proof (set_side_nil _ _ _ _ O1 O2 Ha) as Iyx. pose proof (set_side_nil _ _ _ _ O2 O1 Hr) as Ixy.
  apply andb_true_iff. split.
  - apply Nat.eqb_eq. apply Nat.le_antisymm; apply nodup_incl_le; try assumption; auto.
  - apply forallb_forall. intros x Hx. apply Ixy. exact Hx.
Qed.

Lemma leaf_guard xs : forallb (inputs_ok keep ok lf) xs = true -> forallb (lfv lf) xs = true.
Proof.
  intros H. apply forallb_forall. intros x Hx. eapply forallb_forall in H; [|exact Hx].
  destruct x; try reflexivity. exact H.
Qed.

Definition IHS (t1 : value) : Prop :=
  forall t2 p, wf t1 = true -> wf t2 = true -> inputs_ok keep ok lf t1 = true -> inputs_ok keep ok lf t2 = true ->
    fst (diff t1 t2 p p) = [] -> py_eqv t1 t2 = true.

Lemma added_from_nil ys i p1 p2 : added_from noskip ys i p1 p2 = [] -> ys = [].
Proof. destruct ys; [reflexivity|]. cbn. discriminate. Qed.

Lemma S_go_list xs : Forall IHS xs -> forall ys i p,
  forallb wf xs = true -> forallb wf ys = true ->
  forallb (inputs_ok keep ok lf) xs = true -> forallb (inputs_ok keep ok lf) ys = true ->
  fst (go_list noskip diff p p xs ys i) = [] -> all2 py_eqv xs ys = true.
Proof.
  induction 1 as [|x xs Hx _ IH]; intros ys i p W1 W2 K1 K2 H.
  - cbn in H. apply added_from_nil in H. subst. reflexivity.
  - destruct ys as [|y ys]; [cbn in H; discriminate H|].
    change (go_list noskip diff p p (x :: xs) (y :: ys) i) with
      (app2 (diff x y (snoc p (PIdx i)) (snoc p (PIdx i))) (go_list noskip diff p p xs ys (S i))) in H.
    unfold app2 in H. cbn [fst] in H. apply app_eq_nil in H as [H1 H2].
    cbn in W1, W2, K1, K2.
    apply andb_true_iff in W1 as [Wx W1], W2 as [Wy W2], K1 as [Kx K1], K2 as [Ky K2].
    cbn [all2]. rewrite (Hx y _ Wx Wy Kx Ky H1), (IH ys (S i) p W1 W2 K1 K2 H2). reflexivity.
Qed.

Lemma S_seq_body xs ys p : Forall IHS xs ->
  forallb wf xs = true -> forallb wf ys = true ->
  forallb (inputs_ok keep ok lf) xs = true -> forallb (inputs_ok keep ok lf) ys = true ->
  fst (seq_body hatom udiff ops noskip excl c xs ys p p) = [] -> all2 py_eqv xs ys = true.
Proof.
  intros IH W1 W2 K1 K2. unfold seq_body.
  destruct (negb (zip c) && forallb is_atom xs && forallb is_atom ys) eqn:M.
  - apply andb_true_iff in M as [M A2]. apply andb_true_iff in M as [_ A1].
    pose proof (default_leaf_nil xs ys p A1 A2 (leaf_guard xs K1) (leaf_guard ys K2)) as D.
    destruct (default_leaf_list udiff ops noskip xs ys p p) as [es rec]. cbn [fst] in *.
    intros H. apply all2_leaf_eqv. apply D. exact H.
  - eapply S_go_list; eassumption.
Qed.

Lemma keys_of_all kvs :
  forallb (fun kv => keep (fst kv) && inputs_ok keep ok lf (snd kv)) kvs = true -> keys_of c kvs = map fst kvs.
Proof.
  intros K. unfold keys_of. apply filter_all. intros k Hk. apply in_map_iff in Hk as (kv & <- & Hkv).
  eapply forallb_forall in K; [|exact Hkv]. apply andb_true_iff in K as [K _]. exact K.
Qed.

Lemma S_go_common kvs2 p :
  forallb (fun kv => wf (snd kv)) kvs2 = true ->
  forallb (fun kv => keep (fst kv) && inputs_ok keep ok lf (snd kv)) kvs2 = true ->
  forall l, forallb (fun kv => wf (snd kv)) l = true ->
  forallb (fun kv => keep (fst kv) && inputs_ok keep ok lf (snd kv)) l = true ->
  (forall kv, In kv l -> mem_atom (fst kv) (map fst kvs2) = true) ->
  Forall (fun kv => IHS (snd kv)) l ->
  fst (go_common c diff kvs2 (map fst kvs2) p p l) = [] -> dict_go kvs2 l = true.
Proof.
  intros W2 K2. induction l as [|[k v1] l IH]; intros W1 K1 M HI H; [reflexivity|].
  apply Forall_cons_iff in HI as [Hk HI'].
  cbn in W1, K1. apply andb_true_iff in W1 as [Wv W1], K1 as [Kk K1]. apply andb_true_iff in Kk as [Kk Kv].
  change (go_common c diff kvs2 (map fst kvs2) p p ((k, v1) :: l)) with
    (if keep k then
       match find (py_eq k) (map fst kvs2) with
       | Some k' => match assoc k' kvs2 with
                    | Some v2 => app2 (diff v1 v2 (snoc p (PKey k')) (snoc p (PKey k'))) (go_common c diff kvs2 (map fst kvs2) p p l)
                    | None => go_common c diff kvs2 (map fst kvs2) p p l
                    end
       | None => go_common c diff kvs2 (map fst kvs2) p p l
       end
     else go_common c diff kvs2 (map fst kvs2) p p l) in H.
  rewrite Kk in H.
  destruct (mem_find k (map fst kvs2) (M (k, v1) (or_introl eq_refl))) as [k' Fk]. rewrite Fk in H.
  apply find_some in Fk as [Hk' E].
  destruct (assoc k' kvs2) as [v2|] eqn:A2.
  2:{ exfalso. apply (proj1 (assoc_None k' kvs2)) in A2. rewrite (In_mem k' _ Hk') in A2. discriminate A2. }
  unfold app2 in H. cbn [fst] in H. apply app_eq_nil in H as [H1 H2].
  cbn [dict_go]. rewrite (assoc_py_eq kvs2 k k' E), A2.
  apply assoc_In in A2 as (k'' & Hin & _).
  assert (Wv2 : wf v2 = true) by (eapply forallb_forall in W2; [|exact Hin]; exact W2).
  assert (Kv2 : inputs_ok keep ok lf v2 = true).
  { eapply forallb_forall in K2; [|exact Hin]. apply andb_true_iff in K2 as [_ K2]. exact K2. }
  cbn in Hk. rewrite (Hk v2 _ Wv Wv2 Kv Kv2 H1). cbn [andb].
  apply IH; try assumption. intros kv Hkv. apply M. right. exact Hkv.
Qed.

Lemma S_dict_body kvs1 kvs2 p :
  Forall (fun kv => IHS (snd kv)) kvs1 ->
  wf (VDict kvs1) = true -> wf (VDict kvs2) = true ->
  inputs_ok keep ok lf (VDict kvs1) = true -> inputs_ok keep ok lf (VDict kvs2) = true ->
  fst (dict_body hatom udiff ops noskip excl c kvs1 kvs2 p p) = [] -> py_eqv (VDict kvs1) (VDict kvs2) = true.
Proof.
  intros IH W1 W2 K1 K2. cbn in W1, W2, K1, K2.
  apply andb_true_iff in W1 as [N1 W1], W2 as [N2 W2].
  unfold dict_body. rewrite (keys_of_all kvs1 K1), (keys_of_all kvs2 K2).
  destruct (dict_shortcut _ _ _ _ _); [cbn; discriminate|]. cbn [fst]. intros H.
  apply app_eq_nil in H as [Ha H]. apply app_eq_nil in H as [Hr Hc].
  assert (I21 : forall k, In k (map fst kvs2) -> mem_atom k (map fst kvs1) = true).
  { intros k Hk. pose proof (flat_map_nil_inv _ _ Ha k Hk) as Hp. cbv beta in Hp.
    destruct (mem_atom k (map fst kvs1)); [reflexivity|discriminate Hp]. }
  assert (I12 : forall k, In k (map fst kvs1) -> mem_atom k (map fst kvs2) = true).
  { intros k Hk. pose proof (flat_map_nil_inv _ _ Hr k Hk) as Hp. cbv beta in Hp.
    destruct (mem_atom k (map fst kvs2)); [reflexivity|discriminate Hp]. }
  rewrite py_eqv_dict. apply andb_true_iff. split.
  - apply Nat.eqb_eq. rewrite <- (map_length fst kvs1), <- (map_length fst kvs2).
    apply Nat.le_antisymm; apply nodup_incl_le; assumption.
  - apply (S_go_common kvs2 p W2 K2 kvs1 W1 K1); try assumption.
    intros kv Hkv. apply I12. apply in_map. exact Hkv.
Qed.

Theorem diff_empty_sound_eq : forall t1, IHS t1.
Proof.
  induction t1 as [a|xs IH|xs IH|kvs IH|xs|xs] using value_ind'; intros t2 p W1 W2 K1 K2;
    (match goal with |- context [diff ?t1 t2 _ _] => destruct (ty_eqb (type_of t1) (type_of t2)) eqn:T end;
     [|rewrite diff_type by (try reflexivity; exact T); cbn; discriminate]);
    pose proof T as T'; apply ty_eqb_true in T'; destruct t2; try discriminate T'; try (destruct a; discriminate T').
  - rewrite diff_atom_eq by reflexivity. cbn [type_of] in T. rewrite T. cbn [negb fst]. apply diff_atom_nil.
    apply Hlf; assumption.
  - rewrite diff_list by reflexivity. rewrite py_eqv_list. apply S_seq_body; assumption.
  - rewrite diff_tuple by reflexivity. rewrite py_eqv_tuple. apply S_seq_body; assumption.
  - rewrite diff_dict by reflexivity. apply S_dict_body; assumption.
  - rewrite diff_vset by reflexivity. cbn [fst]. cbn in W1, W2, K1, K2. apply diff_set_nil; assumption.
  - rewrite diff_vfrozen by reflexivity. cbn [fst]. cbn in W1, W2, K1, K2. apply diff_set_nil; assumption.
Qed.

Theorem run_empty_sound_eq t1 t2 :
  wf t1 = true -> wf t2 = true -> inputs_ok keep ok lf t1 = true -> inputs_ok keep ok lf t2 = true ->
  fst (run_diff hatom udiff ops noskip excl c t1 t2) = [] -> py_eqv t1 t2 = true.
Proof.
  intros W1 W2 K1 K2 H. unfold run_diff in H.
  pose proof (diff_empty_sound_eq t1 t2 [] W1 W2 K1 K2) as S.
  destruct (diff t1 t2 [] []) as [es rec]. cbn [fst] in *. apply S. apply mutual_nil. exact H.
Qed.

End Sound.

(* the same under the stronger (original) hypothesis: the item hash is injective on [ok] atoms *)
Section SoundInj.
Variable hatom : atom -> pystr.
Variable udiff : pystr -> pystr -> pystr.
Variable ops : path -> list value -> list value -> list opcode.
Variable excl : path -> bool.
Variable c : cfg.
Variable ok : atom -> bool.
Variable lf : atom -> bool.
Hypothesis Hlf : forall a b, lf a = true -> lf b = true -> dt_same_kind a b = true.
Hypothesis Hinj : forall a b, ok a = true -> ok b = true -> hatom a = hatom b -> a = b.
Hypothesis Hvalid : valid_ops ops.

Lemma inj_separates : forall a b, ok a = true -> ok b = true -> hatom a = hatom b -> py_eq a b = true.
Proof. intros a b Oa Ob E. rewrite (Hinj a b Oa Ob E). apply py_eq_refl. Qed.

Theorem diff_empty_sound : forall t1, IHS hatom udiff ops excl c ok lf t1.
Proof. exact (diff_empty_sound_eq hatom udiff ops excl c ok lf Hlf inj_separates Hvalid). Qed.

Theorem run_empty_sound t1 t2 :
  wf t1 = true -> wf t2 = true -> inputs_ok (keep_key c) ok lf t1 = true -> inputs_ok (keep_key c) ok lf t2 = true ->
  fst (run_diff hatom udiff ops noskip excl c t1 t2) = [] -> py_eqv t1 t2 = true.
Proof. exact (run_empty_sound_eq hatom udiff ops excl c ok lf Hlf inj_separates Hvalid t1 t2). Qed.
End SoundInj.

(* with ignore_private_variables=False every key is looked at *)
Lemma inputs_ok_true keep ok lf v :
  (forall k, keep k = true) -> (forall a, ok a = true) -> (forall a, lf a = true) -> inputs_ok keep ok lf v = true.
Proof.
  intros H O L. induction v as [a|xs IH|xs IH|kvs IH|xs|xs] using value_ind'; try reflexivity; cbn; [apply L|..].
  - apply forallb_forall. intros x Hx. eapply Forall_forall in IH; eassumption.
  - apply forallb_forall. intros x Hx. eapply Forall_forall in IH; eassumption.
  - apply forallb_forall. intros kv Hkv. rewrite H. eapply Forall_forall in IH; [|exact Hkv]. exact IH.
  - apply forallb_forall. intros x _. apply O.
  - apply forallb_forall. intros x _. apply O.
Qed.

(* weakening of the guards *)
Lemma inputs_ok_weaken keep keep' ok ok' lf lf' v :
  (forall k, keep k = true -> keep' k = true) -> (forall a, ok a = true -> ok' a = true) ->
  (forall a, lf a = true -> lf' a = true) ->
  inputs_ok keep ok lf v = true -> inputs_ok keep' ok' lf' v = true.
Proof.
  intros HK HO HL. induction v as [a|xs IH|xs IH|kvs IH|xs|xs] using value_ind'; cbn; intros H; try reflexivity; [apply HL; exact H|..].
  - apply forallb_forall. intros x Hx. eapply Forall_forall in IH; [|exact Hx]. apply IH.
    eapply forallb_forall in H; eassumption.
  - apply forallb_forall. intros x Hx. eapply Forall_forall in IH; [|exact Hx]. apply IH.
    eapply forallb_forall in H; eassumption.
  - apply forallb_forall. intros kv Hkv. eapply Forall_forall in IH; [|exact Hkv].
    eapply forallb_forall in H; [|exact Hkv]. apply andb_true_iff in H as [H1 H2].
    rewrite (HK _ H1). apply IH. exact H2.
  - apply forallb_forall. intros x Hx. apply HO. eapply forallb_forall in H; eassumption.
  - apply forallb_forall. intros x Hx. apply HO. eapply forallb_forall in H; eassumption.
Qed.

Lemma keep_all_public c k : ignore_private c = false -> keep_key c k = true.
Proof. intros H. unfold keep_key. rewrite H. reflexivity. Qed.

(* ------------------------------------------------------------------ *)
(** * The datetime comparer, exactly *)

(* a naive datetime and an aware one that show the same UTC wall clock *)
Definition naive_is_utc_clock (a b : atom) : Prop :=
  match a, b with
  | ADt u1 None, ADt u2 (Some o2) => u1 = (u2 - o2 * usmin)%Z
  | ADt u1 (Some o1), ADt u2 None => (u1 - o1 * usmin)%Z = u2
  | _, _ => False
  end.

(* _diff_datetime reports nothing iff the two datetimes are == or one is naive and shows the other's UTC clock *)
Lemma diff_datetime_nil_iff udiff u1 o1 u2 o2 p :
  diff_atom udiff noskip (ADt u1 o1) (ADt u2 o2) p p = [] <->
  (py_eq (ADt u1 o1) (ADt u2 o2) = true \/ naive_is_utc_clock (ADt u1 o1) (ADt u2 o2)).
Proof.
  unfold diff_atom, report. cbn [atom_ty ty_eqb negb].
  destruct (py_eq (dt_norm (ADt u1 o1)) (dt_norm (ADt u2 o2))) eqn:E.
  - split; [intros _|reflexivity].
    destruct o1 as [a|], o2 as [b|]; unfold py_eq in E |- *; cbn [qnum dt_norm tz_eq naive_is_utc_clock] in *;
      rewrite ?Z.mul_0_l, ?Z.sub_0_r in E; try (left; exact E); right; apply Z.eqb_eq in E; congruence.
  - split; [discriminate|]. intros [H|H]; exfalso.
    + destruct o1 as [a|], o2 as [b|]; unfold py_eq in E, H; cbn [qnum dt_norm tz_eq] in *;
        rewrite ?Z.mul_0_l, ?Z.sub_0_r in E; congruence.
    + destruct o1 as [a|], o2 as [b|]; cbn [naive_is_utc_clock] in H; try contradiction;
        unfold py_eq in E; cbn [qnum dt_norm tz_eq] in E; rewrite ?Z.mul_0_l, ?Z.sub_0_r in E;
        apply Z.eqb_neq in E; congruence.
Qed.

Lemma dt_kind_same k a b : dt_kind k a = true -> dt_kind k b = true -> dt_same_kind a b = true.
Proof.
  destruct a, b; cbn; try reflexivity. intros H1 H2. apply eqb_prop in H1, H2. subst. rewrite <- H2. apply eqb_reflx.
Qed.

(* ------------------------------------------------------------------ *)
(** * Witnesses: the hypotheses are satisfiable; the guards are needed *)

Definition zenc (z : Z) : N :=
  match z with Z0 => 0%N | Zpos q => Npos (xO q) | Zneg q => Npos (xI q) end.
Definition oenc (o : option Z) : pystr := match o with None => [0%N] | Some z => [1%N; zenc z] end.
Definition inj_hash (a : atom) : pystr :=
  match a with
  | ANone => [0%N]
  | ABool b => [1%N; if b then 1%N else 0%N]
  | AInt z => [2%N; zenc z]
  | AHalf t => [3%N; zenc t]
  | AStr s => 4%N :: s
  | ABytes s => 5%N :: s
  | ADt us off => 6%N :: zenc us :: oenc off
  | ADate d => [7%N; zenc d]
  | ATime us off => 8%N :: zenc us :: oenc off
  | ATd us => [9%N; zenc us]
  | ADec m e => [10%N; zenc m; zenc e]
  end.
Lemma zenc_inj x y : zenc x = zenc y -> x = y.
Proof. destruct x, y; cbn; intros H; try discriminate; try reflexivity; inversion H; reflexivity. Qed.
Lemma oenc_inj x y : oenc x = oenc y -> x = y.
Proof. destruct x, y; cbn; intros H; try discriminate; try reflexivity. inversion H as [H1]. apply zenc_inj in H1. congruence. Qed.
Lemma inj_hash_injective a b : inj_hash a = inj_hash b -> a = b.
Proof.
  destruct a, b; cbn; intros H; try discriminate; try reflexivity; inversion H; subst; try reflexivity;
    repeat match goal with
           | Hx : zenc _ = zenc _ |- _ => apply zenc_inj in Hx; subst
           | Hx : oenc _ = oenc _ |- _ => apply oenc_inj in Hx; subst
           end; try reflexivity;
    try (f_equal; apply oenc_inj; assumption).
  all: try (match goal with b1 : bool, b2 : bool |- _ => destruct b1, b2; try reflexivity; discriminate end).
Qed.

Definition one_block (_ : path) (xs ys : list value) : list opcode :=
  [mkOp OReplace 0 (length xs) 0 (length ys)].
Lemma one_block_valid : valid_ops one_block.
Proof. intros p xs ys. unfold valid_opcodes, one_block. cbn. rewrite !Nat.eqb_refl. reflexivity. Qed.

(* not vacuous: a pair that is not a structural copy - dict key 1 vs Decimal('1'), the same instant in two zones,
   Decimal('1.0') vs Decimal('1.00'), a set in another order - with every guard true, an empty diff and py_eqv *)
Definition nv_t1 : value :=
  VList [VDict [(AInt 1, VSet [ADate 19723; ATime 3723000000 None])];
         VAtom (ADt 1715984134000000 (Some 0%Z)); VAtom (ADec 10 (-1)); VAtom (ATd 7000005);
         VTuple [VAtom (ADt 5 (Some 0%Z)); VAtom (ATime 1 (Some 60%Z))]].
Definition nv_t2 : value :=
  VList [VDict [(ADec 1 0, VSet [ATime 3723000000 None; ADate 19723])];
         VAtom (ADt 1715991334000000 (Some 120%Z)); VAtom (ADec 100 (-2)); VAtom (ATd 7000005);
         VTuple [VAtom (ADt 7200000005 (Some 120%Z)); VAtom (ATime 3600000001 (Some 120%Z))]].

Example sound_guards_satisfiable :
  valid_ops one_block /\ (forall a b, inj_hash a = inj_hash b -> a = b) /\
  wf nv_t1 = true /\ wf nv_t2 = true /\
  inputs_ok (keep_key (mkCfg false 33 100 true)) any_atom (dt_kind true) nv_t1 = true /\
  inputs_ok (keep_key (mkCfg false 33 100 true)) any_atom (dt_kind true) nv_t2 = true /\
  fst (run_diff inj_hash (fun _ _ => []) one_block noskip noskip (mkCfg false 33 100 true) nv_t1 nv_t2) = [] /\
  py_eqv nv_t1 nv_t2 = true /\ value_eqb nv_t1 nv_t2 = false.
Proof.
  split; [exact one_block_valid|]. split; [exact inj_hash_injective|]. repeat split; vm_compute; reflexivity.
Qed.

(* ---- the unguarded soundness statement is false ---- *)

(* (a) finding C02-NAIVE-AWARE: a naive datetime against the aware UTC datetime with the same wall clock, at a list
   position (and bare): nothing reported, not == (injective item hash, valid opcodes, no private key) *)
Definition na_naive : atom := ADt 1715984134000000 None.                 (* datetime(2024,5,17,22,15,34) *)
Definition na_aware : atom := ADt 1715984134000000 (Some 0%Z).           (* ... tzinfo=utc *)
Lemma empty_sound_refuted_naive_aware :
  wf (VList [VAtom na_naive]) = true /\ wf (VList [VAtom na_aware]) = true /\
  (forall z, fst (run_diff inj_hash (fun _ _ => []) one_block noskip noskip (mkCfg z 33 100 false) (VList [VAtom na_naive]) (VList [VAtom na_aware])) = []) /\
  (forall z, fst (run_diff inj_hash (fun _ _ => []) one_block noskip noskip (mkCfg z 33 100 false) (VAtom na_naive) (VAtom na_aware)) = []) /\
  py_eqv (VList [VAtom na_naive]) (VList [VAtom na_aware]) = false /\ py_eq na_naive na_aware = false /\
  dt_same_kind na_naive na_aware = false.
Proof. repeat split; try (intros [|]); vm_compute; reflexivity. Qed.

(* (b) documented behaviour, as before: private keys are not compared *)
Definition priv_key : atom := AStr [95%N; 95%N; 97%N].
Definition priv_t1 : value := VDict [(priv_key, VAtom (ADate 1))].
Definition priv_t2 : value := VDict [(priv_key, VAtom (ADate 2))].
Lemma empty_sound_refuted_private :
  wf priv_t1 = true /\ wf priv_t2 = true /\
  fst (run_diff inj_hash (fun _ _ => []) one_block noskip noskip (mkCfg false 33 100 true) priv_t1 priv_t2) = [] /\
  py_eqv priv_t1 priv_t2 = false.
Proof. repeat split; vm_compute; reflexivity. Qed.

(* ------------------------------------------------------------------ *)
(** * Final statements over the extended universe *)

(* soundness with the boolean leaf guard "all datetime leaves aware" / "all naive" *)
Theorem run_empty_sound_dt hatom udiff ops excl c ok k t1 t2 :
  (forall a b, ok a = true -> ok b = true -> hatom a = hatom b -> py_eq a b = true) -> valid_ops ops ->
  wf t1 = true -> wf t2 = true ->
  inputs_ok (keep_key c) ok (dt_kind k) t1 = true -> inputs_ok (keep_key c) ok (dt_kind k) t2 = true ->
  fst (run_diff hatom udiff ops noskip excl c t1 t2) = [] -> py_eqv t1 t2 = true.
Proof.
  intros Hh V. apply (run_empty_sound_eq hatom udiff ops excl c ok (dt_kind k) (dt_kind_same k) Hh V).
Qed.

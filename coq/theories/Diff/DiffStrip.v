(** C02 soundness WITHOUT the key guard: dict keys hidden by ignore_private_variables (str keys starting with "__",
    the default) are simply not part of what DeepDiff compares.  [strip c v] removes them at every depth; the diff of two
    values is empty iff the diff of the stripped values is ([diff_nil_strip], all values, both list modes, every oracle),
    so an empty diff means that the STRIPPED values are Python-equal - for all inputs, with only the set-member guard
    left.  With ignore_private_variables=False [strip] is the identity. *)
From Coq Require Import List ZArith NArith Bool Arith Lia.
Import ListNotations.
From DD Require Import Base.PyStr Base.Value Base.ValueFacts Path.PathModel
  Diff.Tree Diff.DiffModel Diff.DiffFacts Diff.DiffFaithful Diff.DiffEmpty Diff.DiffSpecProofs.

Section Strip.
Variable c : cfg.

Definition skvs (f : value -> value) :=
  fix go (l : list (atom * value)) : list (atom * value) :=
    match l with
    | [] => []
    | (k, v) :: r => if keep_key c k then (k, f v) :: go r else go r
    end.

Fixpoint strip (v : value) : value :=
  match v with
  | VAtom _ | VSet _ | VFrozen _ => v
  | VList xs => VList (map strip xs)
  | VTuple xs => VTuple (map strip xs)
  | VDict kvs => VDict (skvs strip kvs)
  end.

Lemma strip_type v : type_of (strip v) = type_of v.
Proof. destruct v; reflexivity. Qed.
Lemma strip_is_atom v : is_atom (strip v) = is_atom v.
Proof. destruct v; reflexivity. Qed.
Lemma strip_atoms xs : forallb is_atom xs = true -> map strip xs = xs.
Proof.
  induction xs as [|x xs IH]; cbn; [reflexivity|]. intros H. apply andb_true_iff in H as [Hx H].
  rewrite (IH H). destruct x; try discriminate Hx. reflexivity.
Qed.
Lemma forallb_is_atom_strip xs : forallb is_atom (map strip xs) = forallb is_atom xs.
Proof. induction xs as [|x xs IH]; cbn; [reflexivity|]. rewrite strip_is_atom, IH. reflexivity. Qed.

Lemma skvs_keys f kvs : map fst (skvs f kvs) = keys_of c kvs.
Proof.
  unfold keys_of. induction kvs as [|[k v] kvs IH]; cbn; [reflexivity|].
  destruct (keep_key c k); cbn; rewrite IH; reflexivity.
Qed.
Lemma filter_idem {A} (f : A -> bool) l : filter f (filter f l) = filter f l.
Proof. induction l as [|x l IH]; cbn; [reflexivity|]. destruct (f x) eqn:E; cbn; [rewrite E|]; rewrite ?IH; reflexivity. Qed.
Lemma keys_of_skvs f kvs : keys_of c (skvs f kvs) = keys_of c kvs.
Proof. unfold keys_of at 1. rewrite skvs_keys. unfold keys_of. apply filter_idem. Qed.

Lemma assoc_skvs f k kvs : keep_key c k = true -> assoc k (skvs f kvs) = option_map f (assoc k kvs).
Proof.
  intros K. induction kvs as [|[k0 v0] kvs IH]; cbn; [reflexivity|].
  destruct (keep_key c k0) eqn:K0; cbn.
  - destruct (py_eq k0 k); [reflexivity|exact IH].
  - destruct (py_eq k0 k) eqn:E; [|exact IH].
    rewrite (keep_key_py_eq c k0 k E) in K0. congruence.
Qed.

End Strip.

Lemma flat_map_cond_nil {A B} (b : A -> bool) (e : A -> B) l :
  flat_map (fun k => if b k then [] else [e k]) l = [] <-> forallb b l = true.
Proof.
  induction l as [|x l IH]; cbn; [tauto|]. destruct (b x); cbn; [exact IH|split; discriminate].
Qed.

Lemma app3_nil {A} (a b d : list A) : a ++ b ++ d = [] <-> a = [] /\ b = [] /\ d = [].
Proof.
  split.
  - intros H. apply app_eq_nil in H as [H1 H]. apply app_eq_nil in H as [H2 H3]. auto.
  - intros (-> & -> & ->). reflexivity.
Qed.

Section NilStrip.
Variable hatom : atom -> pystr.
Variable udiff : pystr -> pystr -> pystr.
Variable ops : path -> list value -> list value -> list opcode.
Variable excl : path -> bool.
Variable c : cfg.
Notation diff := (diff hatom udiff ops noskip excl c).
Notation strip := (strip c).

Definition NS (t1 : value) : Prop :=
  forall t2 p1 p2, fst (diff t1 t2 p1 p2) = [] <-> fst (diff (strip t1) (strip t2) p1 p2) = [].

Lemma added_from_nil_iff ys i p1 p2 : added_from noskip ys i p1 p2 = [] <-> ys = [].
Proof. destruct ys; cbn; split; try reflexivity; discriminate. Qed.
Lemma removed_from_nil_iff xs i p1 p2 : removed_from noskip xs i p1 p2 = [] <-> xs = [].
Proof. destruct xs; cbn; split; try reflexivity; discriminate. Qed.

Lemma NS_go_list xs : Forall NS xs -> forall ys i p1 p2,
  fst (go_list noskip diff p1 p2 xs ys i) = [] <-> fst (go_list noskip diff p1 p2 (map strip xs) (map strip ys) i) = [].
Proof.
  induction 1 as [|x xs Hx _ IH]; intros ys i p1 p2.
  - cbn [map]. rewrite !go_list_nil. cbn [fst]. rewrite !added_from_nil_iff. destruct ys; cbn; split; try reflexivity; discriminate.
  - destruct ys as [|y ys].
    + cbn [map]. rewrite !go_list_cons_nil. cbn [fst]. split; discriminate.
    + cbn [map]. rewrite !go_list_cons_cons. unfold app2. cbn [fst].
      split; intros H; apply app_eq_nil in H as [H1 H2].
      * apply Hx in H1. apply IH in H2. rewrite H1, H2. reflexivity.
      * apply Hx in H1. apply IH in H2. rewrite H1, H2. reflexivity.
Qed.

Lemma NS_seq_body xs ys p1 p2 : Forall NS xs ->
  fst (seq_body hatom udiff ops noskip excl c xs ys p1 p2) = [] <->
  fst (seq_body hatom udiff ops noskip excl c (map strip xs) (map strip ys) p1 p2) = [].
Proof.
  intros HN. unfold seq_body. rewrite !forallb_is_atom_strip.
  destruct (negb (zip c) && forallb is_atom xs && forallb is_atom ys) eqn:M.
  - apply andb_true_iff in M as [M A2]. apply andb_true_iff in M as [_ A1].
    rewrite (strip_atoms c xs A1), (strip_atoms c ys A2). tauto.
  - apply NS_go_list. exact HN.
Qed.

Lemma NS_go_common kvs2 p1 p2 l : Forall (fun kv => NS (snd kv)) l ->
  fst (go_common c diff kvs2 (keys_of c kvs2) p1 p2 l) = [] <->
  fst (go_common c diff (skvs c strip kvs2) (keys_of c kvs2) p1 p2 (skvs c strip l)) = [].
Proof.
  induction l as [|[k v1] l IH]; intros HN; [cbn; tauto|].
  apply Forall_cons_iff in HN as [Hv HN]. specialize (IH HN). cbn [snd] in Hv.
  rewrite go_common_cons. cbn [skvs]. destruct (keep_key c k) eqn:Kk; [|exact IH].
  rewrite go_common_cons, Kk.
  destruct (find (py_eq k) (keys_of c kvs2)) as [k'|] eqn:Fk; [|exact IH].
  pose proof Fk as Fk'. apply find_some in Fk' as [Hin _]. apply keys_of_In in Hin as [_ Kk'].
  rewrite (assoc_skvs c strip k' kvs2 Kk').
  destruct (assoc k' kvs2) as [v2|]; cbn [option_map]; [|exact IH].
  unfold app2. cbn [fst]. split; intros H; apply app_eq_nil in H as [H1 H2].
  - apply Hv in H1. apply IH in H2. rewrite H1, H2. reflexivity.
  - apply Hv in H1. apply IH in H2. rewrite H1, H2. reflexivity.
Qed.

Lemma NS_dict_body kvs1 kvs2 p1 p2 : Forall (fun kv => NS (snd kv)) kvs1 ->
  fst (dict_body hatom udiff ops noskip excl c kvs1 kvs2 p1 p2) = [] <->
  fst (dict_body hatom udiff ops noskip excl c (skvs c strip kvs1) (skvs c strip kvs2) p1 p2) = [].
Proof.
  intros HN. unfold dict_body. rewrite !keys_of_skvs.
  destruct (dict_shortcut excl c (keys_of c kvs1) (keys_of c kvs2) p1); [cbn; split; discriminate|].
  cbn [fst]. unfold report. cbn [negb].
  rewrite !app3_nil.
  rewrite !(flat_map_cond_nil (fun k => mem_atom k (keys_of c kvs1))).
  rewrite !(flat_map_cond_nil (fun k => mem_atom k (keys_of c kvs2))).
  rewrite (NS_go_common kvs2 p1 p2 kvs1 HN). tauto.
Qed.

Theorem diff_nil_strip : forall t1, NS t1.
Proof.
  induction t1 as [a|xs IH|xs IH|kvs IH|xs|xs] using value_ind'; intros t2 p1 p2;
    (match goal with |- context [diff ?t1 t2 _ _] => destruct (ty_eqb (type_of t1) (type_of t2)) eqn:T end;
     [|rewrite diff_type by (try reflexivity; exact T);
       rewrite diff_type by (try reflexivity; rewrite !strip_type; exact T); cbn; split; discriminate]);
    pose proof T as T'; apply ty_eqb_true in T'; destruct t2; try discriminate T'; try (destruct a; discriminate T').
  - cbn [strip]. tauto.
  - cbn [strip]. rewrite !diff_list by reflexivity. apply NS_seq_body. exact IH.
  - cbn [strip]. rewrite !diff_tuple by reflexivity. apply NS_seq_body. exact IH.
  - cbn [strip]. rewrite !diff_dict by reflexivity. apply NS_dict_body. exact IH.
  - cbn [strip]. tauto.
  - cbn [strip]. tauto.
Qed.

Lemma run_nil_strip t1 t2 :
  fst (run_diff hatom udiff ops noskip excl c t1 t2) = [] <-> fst (run_diff hatom udiff ops noskip excl c (strip t1) (strip t2)) = [].
Proof.
  rewrite !fst_run_diff. split; intros H; apply mutual_nil in H.
  - apply (diff_nil_strip t1 t2 [] []) in H. rewrite H. reflexivity.
  - apply (diff_nil_strip t1 t2 [] []) in H. rewrite H. reflexivity.
Qed.

End NilStrip.

(* ---- the stripped value satisfies the guards ---- *)
Lemma nodup_atoms_filter f l : nodup_atoms l = true -> nodup_atoms (filter f l) = true.
Proof.
  induction l as [|a l IH]; cbn; [reflexivity|]. intros H. apply andb_true_iff in H as [Ha H].
  destruct (f a); cbn; [|apply IH; exact H]. rewrite (IH H), andb_true_r.
  apply negb_true_iff in Ha. apply negb_true_iff.
  destruct (mem_atom a (filter f l)) eqn:M; [|reflexivity].
  apply mem_atom_In in M as (b & Hb & E). apply filter_In in Hb as [Hb _].
  assert (mem_atom a l = true) by (apply mem_atom_In; exists b; split; assumption). congruence.
Qed.

Lemma wf_strip c v : wf v = true -> wf (strip c v) = true.
Proof.
  induction v as [a|xs IH|xs IH|kvs IH|xs|xs] using value_ind'; cbn [strip]; intros W; try exact W.
  - cbn in *. apply forallb_forall. intros y Hy. apply in_map_iff in Hy as (x & <- & Hx).
    eapply Forall_forall in IH; [|exact Hx]. apply IH. eapply forallb_forall in W; eassumption.
  - cbn in *. apply forallb_forall. intros y Hy. apply in_map_iff in Hy as (x & <- & Hx).
    eapply Forall_forall in IH; [|exact Hx]. apply IH. eapply forallb_forall in W; eassumption.
  - cbn [wf] in *. apply andb_true_iff in W as [N W]. apply andb_true_iff. split.
    + rewrite skvs_keys. unfold keys_of. apply nodup_atoms_filter. exact N.
    + clear N. induction kvs as [|[k v] kvs IHk]; [reflexivity|].
      apply Forall_cons_iff in IH as [Hv IH]. cbn in W. apply andb_true_iff in W as [Wv W]. cbn [snd] in Hv.
      cbn [skvs]. destruct (keep_key c k); [cbn [forallb snd]; rewrite (Hv Wv); cbn [andb]|]; apply IHk; assumption.
Qed.

Lemma inputs_ok_strip c ok v : inputs_ok any_atom ok v = true -> inputs_ok (keep_key c) ok (strip c v) = true.
Proof.
  induction v as [a|xs IH|xs IH|kvs IH|xs|xs] using value_ind'; cbn [strip]; intros W; try exact W.
  - cbn in *. apply forallb_forall. intros y Hy. apply in_map_iff in Hy as (x & <- & Hx).
    eapply Forall_forall in IH; [|exact Hx]. apply IH. eapply forallb_forall in W; eassumption.
  - cbn in *. apply forallb_forall. intros y Hy. apply in_map_iff in Hy as (x & <- & Hx).
    eapply Forall_forall in IH; [|exact Hx]. apply IH. eapply forallb_forall in W; eassumption.
  - cbn [inputs_ok] in *. induction kvs as [|[k v] kvs IHk]; [reflexivity|].
    apply Forall_cons_iff in IH as [Hv IH]. cbn in W. apply andb_true_iff in W as [Wv W]. cbn [snd] in Hv.
    cbn [skvs]. destruct (keep_key c k) eqn:K; [cbn [forallb fst snd]; rewrite K, (Hv Wv); cbn [andb]|]; apply IHk; assumption.
Qed.

(* nothing is stripped when every key is looked at *)
Lemma strip_id c v : inputs_ok (keep_key c) any_atom v = true -> strip c v = v.
Proof.
  induction v as [a|xs IH|xs IH|kvs IH|xs|xs] using value_ind'; cbn [strip]; intros W; try reflexivity.
  - f_equal. cbn in W. induction xs as [|x xs IHx]; [reflexivity|]. apply Forall_cons_iff in IH as [Hx IH].
    cbn in W. apply andb_true_iff in W as [Wx W]. cbn. rewrite (Hx Wx), (IHx IH W). reflexivity.
  - f_equal. cbn in W. induction xs as [|x xs IHx]; [reflexivity|]. apply Forall_cons_iff in IH as [Hx IH].
    cbn in W. apply andb_true_iff in W as [Wx W]. cbn. rewrite (Hx Wx), (IHx IH W). reflexivity.
  - f_equal. cbn [inputs_ok] in W. induction kvs as [|[k v] kvs IHk]; [reflexivity|]. apply Forall_cons_iff in IH as [Hv IH].
    cbn in W. apply andb_true_iff in W as [Wv W]. apply andb_true_iff in Wv as [K Wv].
    cbn [skvs]. rewrite K. cbn [snd] in Hv. rewrite (Hv Wv), (IHk IH W). reflexivity.
Qed.

(* ---- final statements ---- *)
Theorem run_empty_sound_all_keys hatom udiff ops excl c ok t1 t2 :
  (forall a b, ok a = true -> ok b = true -> hatom a = hatom b -> py_eq a b = true) -> valid_ops ops ->
  wf t1 = true -> wf t2 = true ->
  inputs_ok any_atom ok t1 = true -> inputs_ok any_atom ok t2 = true ->
  fst (run_diff hatom udiff ops noskip excl c t1 t2) = [] -> py_eqv (strip c t1) (strip c t2) = true.
Proof.
  intros Hh V W1 W2 K1 K2 E. apply (run_nil_strip hatom udiff ops excl c t1 t2) in E.
  apply (run_empty_sound_eq hatom udiff ops excl c ok Hh V); try assumption;
    try (apply wf_strip; assumption); apply inputs_ok_strip; assumption.
Qed.

(* the documented witness: {'__a': 1} vs {'__a': 2} - stripped, both are {} *)
Example strip_witness :
  strip (mkCfg false 33 100 true) priv_t1 = VDict [] /\ strip (mkCfg false 33 100 true) priv_t2 = VDict [] /\
  strip (mkCfg false 33 100 false) priv_t1 = priv_t1 /\
  strip (mkCfg false 33 100 true) nv_t1 = nv_t1.
Proof. repeat split; vm_compute; reflexivity. Qed.

(* the guard thr_num <= thr_den of the copy clause is necessary: threshold_to_diff_deeper = 1.5 (outside the documented
   range 0..1, accepted by DeepDiff without a check) reports a dict with two keys as changed against itself *)
Definition thr_d : value := VDict [(AStr [97%N], VAtom (AInt 1)); (AStr [98%N], VAtom (AInt 2))].
Lemma copy_empty_refuted_threshold :
  wf thr_d = true /\
  length (fst (run_diff inj_hash (fun _ _ => []) one_block noskip noskip (mkCfg false 3 2 true) thr_d thr_d)) = 1 /\
  fst (run_diff inj_hash (fun _ _ => []) one_block noskip noskip (mkCfg false 1 1 true) thr_d thr_d) = [].
Proof. repeat split; vm_compute; reflexivity. Qed.

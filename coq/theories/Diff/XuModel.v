(** Port of Diff/DiffModel.v to the extended universe Diff/XuValue.v (same names; the only change is
    [diff_atom]: datetimes are compared and REPORTED after datetime_normalize (default_timezone = UTC,
    truncate_datetime = None: an aware datetime is moved to UTC, a naive one is declared UTC), dates / times /
    timedeltas / Decimals by Python's != on the objects themselves - deepdiff/diff.py _diff_datetime, _diff_time,
    _diff_numbers).  All of them are basic_types, so lists of them take the difflib route in default mode.

    Model of DeepDiff in ordered mode (ignore_order=False) over the shared
    universe: the dispatcher [_diff], [_diff_dict] (with threshold_to_diff_deeper
    and ignore_private_variables), [_diff_iterable_in_order] (positional mode
    and the default mode = difflib pass vs pairwise pass), [_diff_set] (through
    item hashes), [_diff_str], [_diff_numbers], [_diff_booleans], type changes,
    and [mutual_add_removes_to_become_value_changes].

    Library behaviour enters as Section variables (oracles):
      hatom  DeepHash of a set member (only equality of hashes matters)
      udiff  '\n'.join(difflib.unified_diff(a.splitlines(), b.splitlines(), lineterm=''))
      ops    difflib.SequenceMatcher(a, b).get_opcodes() for the all-atom lists a, b compared at a path
             (a function of the lists; the path argument lets the harness supply a table)
      skip   _skip_this on a level path (exclude_paths / exclude_regex_paths)
      excl   membership in exclude_paths (used by the deeper-threshold union)
    Definitions only. *)
From Coq Require Import List ZArith NArith Bool Arith.
Import ListNotations.
From DD Require Import Base.PyStr Diff.XuValue Diff.XuTree.

Record cfg := mkCfg {
  zip : bool;                  (* zip_ordered_iterables *)
  thr_num : nat; thr_den : nat;(* threshold_to_diff_deeper = thr_num / thr_den *)
  ignore_private : bool        (* ignore_private_variables *)
}.

Section Diff.
Variable hatom : atom -> pystr.
Variable udiff : pystr -> pystr -> pystr.
Variable ops : path -> list value -> list value -> list opcode.
Variable skip : path -> bool.
Variable excl : path -> bool.
Variable c : cfg.

(* _report_result *)
Definition report (k : rkind) (p1 p2 : path) (a b : option value) (d : option pystr) : list entry :=
  if skip p1 then [] else [mkEntry k p1 p2 a b d].

Definition is_ascii (s : pystr) : bool := forallb (fun ch => N.ltb ch 128) s.
Definition has_nl (s : pystr) : bool := has_char 10%N s.

(* _diff_str on two strings of the same type *)
Definition diff_str (is_bytes : bool) (s t : pystr) : bool * option pystr :=
  if pystr_eqb s t then (false, None)
  else
    let do_diff := if is_bytes then is_ascii s && is_ascii t else true in
    if do_diff && (has_nl s || has_nl t)
    then let d := udiff s t in (true, match d with [] => None | _ => Some d end)
    else (true, None).

(* helper.datetime_normalize(None, obj, default_timezone=utc) on a datetime: astimezone(utc) of an aware
   one, replace(tzinfo=utc) of a naive one *)
Definition dt_norm (a : atom) : atom :=
  match a with
  | ADt us (Some o) => ADt (us - o * usmin) (Some 0%Z)
  | ADt us None => ADt us (Some 0%Z)
  | _ => a
  end.

(* _diff on two atoms *)
Definition diff_atom (a b : atom) (p1 p2 : path) : list entry :=
  if skip p1 then [] else
  if negb (ty_eqb (atom_ty a) (atom_ty b)) then report KType p1 p2 (Some (VAtom a)) (Some (VAtom b)) None
  else match a, b with
  | AStr s, AStr t =>
      let '(ch, d) := diff_str false s t in
      if ch then report KValue p1 p2 (Some (VAtom a)) (Some (VAtom b)) d else []
  | ABytes s, ABytes t =>
      let '(ch, d) := diff_str true s t in
      if ch then report KValue p1 p2 (Some (VAtom a)) (Some (VAtom b)) d else []
  | ADt _ _, ADt _ _ =>
      (* _diff_datetime: level.t1 / level.t2 are overwritten with the normalised objects *)
      if py_eq (dt_norm a) (dt_norm b) then []
      else report KValue p1 p2 (Some (VAtom (dt_norm a))) (Some (VAtom (dt_norm b))) None
  | _, _ => if py_eq a b then [] else report KValue p1 p2 (Some (VAtom a)) (Some (VAtom b)) None
  end.

(* children of an all-atom list are compared without recursion *)
Definition diff_leaf (x y : value) (p1 p2 : path) : list entry :=
  match x, y with
  | VAtom a, VAtom b => diff_atom a b p1 p2
  | _, _ => []
  end.

Definition is_atom (v : value) : bool := match v with VAtom _ => true | _ => false end.
Definition py_eq_leaf (x y : value) : bool :=
  match x, y with VAtom a, VAtom b => py_eq a b | _, _ => false end.

Definition snoc (p : path) (k : pkey) : path := p ++ [k].

Fixpoint removed_from (xs : list value) (i : nat) (p1 p2 : path) : list entry :=
  match xs with
  | [] => []
  | x :: r => report KIterRem (snoc p1 (PIdx i)) (snoc p2 (PIdx i)) (Some x) None None
              ++ removed_from r (S i) p1 p2
  end.
Fixpoint added_from (ys : list value) (j : nat) (p1 p2 : path) : list entry :=
  match ys with
  | [] => []
  | y :: r => report KIterAdd (snoc p1 (PIdx j)) (snoc p2 (PIdx j)) None (Some y) None
              ++ added_from r (S j) p1 p2
  end.

(* _diff_by_forming_pairs_and_comparing_one_by_one on a chunk of two all-atom
   lists (zip_longest), t1 indexes from i, t2 indexes from j *)
Fixpoint pairs_leaf (xs ys : list value) (i j : nat) (p1 p2 : path) {struct xs} : list entry :=
  match xs, ys with
  | [], _ => added_from ys j p1 p2
  | _ :: _, [] => removed_from xs i p1 p2
  | x :: xs', y :: ys' =>
      (if negb (Nat.eqb i j) && py_eq_leaf x y
       then report KIterMoved (snoc p1 (PIdx i)) (snoc p2 (PIdx j)) (Some x) (Some y) None
       else diff_leaf x y (snoc p1 (PIdx i)) (snoc p2 (PIdx j)))
      ++ pairs_leaf xs' ys' (S i) (S j) p1 p2
  end.

(* _diff_ordered_iterable_by_difflib *)
Definition by_opcodes (os : list opcode) (xs ys : list value) (p1 p2 : path) : list entry :=
  flat_map (fun o =>
    match otag o with
    | OEqual => []
    | OReplace => pairs_leaf (slice xs (oi1 o) (oi2 o)) (slice ys (oj1 o) (oj2 o)) (oi1 o) (oj1 o) p1 p2
    | ODelete => removed_from (slice xs (oi1 o) (oi2 o)) (oi1 o) p1 p2
    | OInsert => added_from (slice ys (oj1 o) (oj2 o)) (oj1 o) p1 p2
    end) os.

(* the default-mode choice between the two passes; returns the entries and
   whether the opcodes are recorded in _iterable_opcodes *)
Definition default_leaf_list (xs ys : list value) (p1 p2 : path) : list entry * bool :=
  let pass1 := by_opcodes (ops p1 xs ys) xs ys p1 p2 in
  if Nat.ltb 1 (length pass1) then
    let pass2 := pairs_leaf xs ys 0 0 p1 p2 in
    if Nat.leb (length pass2) (length pass1) then (pass2, false) else (pass1, true)
  else (pass1, false).

(* _diff_set *)
Fixpoint first_per_hash (l : list atom) (seen : list pystr) : list atom :=
  match l with
  | [] => []
  | a :: r => if existsb (pystr_eqb (hatom a)) seen then first_per_hash r seen
              else a :: first_per_hash r (hatom a :: seen)
  end.
(* the level of a set item has the inaccessible SetRelationship: its path()
   is the path of the set *)
Definition report_set (k : rkind) (a : atom) (p1 p2 : path) : list entry :=
  if skip p1 then [] else
  [mkEntry k p1 p2 (match k with KSetAdd => None | _ => Some (VAtom a) end)
                   (match k with KSetAdd => Some (VAtom a) | _ => None end) None].
Definition diff_set (xs ys : list atom) (p1 p2 : path) : list entry :=
  let hx := map hatom xs in
  let hy := map hatom ys in
  flat_map (fun y => if existsb (pystr_eqb (hatom y)) hx then []
                     else report_set KSetAdd y p1 p2) (first_per_hash ys [])
  ++ flat_map (fun x => if existsb (pystr_eqb (hatom x)) hy then []
                        else report_set KSetRem x p1 p2) (first_per_hash xs []).

(* ---- dictionaries ---- *)
Definition private_key (k : atom) : bool :=
  match k with AStr s => is_prefix [95%N; 95%N] s | _ => false end.
Definition keep_key (k : atom) : bool := negb (ignore_private c && private_key k).
Definition keys_of (kvs : list (atom * value)) : list atom := filter keep_key (map fst kvs).

(* threshold_to_diff_deeper: report the whole dict as changed when too few keys are shared *)
Definition dict_shortcut (k1 k2 : list atom) (p1 : path) : bool :=
  if Nat.eqb (thr_num c) 0 then false else
  let inter := filter (fun k => mem_atom k k1) k2 in
  let union := k2 ++ filter (fun k => negb (mem_atom k k2)) k1 in
  let ulen := length (filter (fun k => negb (excl (snoc p1 (PKey k)))) union) in
  Nat.ltb 1 ulen && Nat.ltb (length inter * thr_den c) (thr_num c * ulen).

Definition app2 {A B} (a b : list A * list B) : list A * list B :=
  (fst a ++ fst b, snd a ++ snd b).

(* ---- _diff ----  returns the reported levels and the paths of the lists
   whose difflib opcodes were recorded in _iterable_opcodes *)
Fixpoint diff (t1 t2 : value) (p1 p2 : path) {struct t1} : list entry * list path :=
  if skip p1 then ([], []) else
  if negb (ty_eqb (type_of t1) (type_of t2))
  then (report KType p1 p2 (Some t1) (Some t2) None, [])
  else
  match t1, t2 with
  | VAtom a, VAtom b => (diff_atom a b p1 p2, [])
  | VDict kvs1, VDict kvs2 =>
      let k1 := keys_of kvs1 in
      let k2 := keys_of kvs2 in
      if dict_shortcut k1 k2 p1 then (report KValue p1 p2 (Some t1) (Some t2) None, [])
      else
        let added := flat_map (fun k => if mem_atom k k1 then []
                       else report KDictAdd (snoc p1 (PKey k)) (snoc p2 (PKey k)) None (assoc k kvs2) None) k2 in
        let removed := flat_map (fun k => if mem_atom k k2 then []
                       else report KDictRem (snoc p1 (PKey k)) (snoc p2 (PKey k)) (assoc k kvs1) None None) k1 in
        let common :=
          (fix go (l : list (atom * value)) : list entry * list path :=
             match l with
             | [] => ([], [])
             | (k, v1) :: r =>
                 let rest := go r in
                 if keep_key k then
                   match find (py_eq k) k2 with        (* the key object of t2 is the one reported *)
                   | Some k' =>
                       match assoc k' kvs2 with
                       | Some v2 => app2 (diff v1 v2 (snoc p1 (PKey k')) (snoc p2 (PKey k'))) rest
                       | None => rest
                       end
                   | None => rest
                   end
                 else rest
             end) kvs1 in
        (added ++ removed ++ fst common, snd common)
  | VList xs, VList ys | VTuple xs, VTuple ys =>
      if negb (zip c) && forallb is_atom xs && forallb is_atom ys
      then let '(es, rec) := default_leaf_list xs ys p1 p2 in (es, if rec then [p1] else [])
      else
        (fix go (xs ys : list value) (i : nat) {struct xs} : list entry * list path :=
           match xs, ys with
           | [], _ => (added_from ys i p1 p2, [])
           | _ :: _, [] => (removed_from xs i p1 p2, [])
           | x :: xs', y :: ys' =>
               app2 (diff x y (snoc p1 (PIdx i)) (snoc p2 (PIdx i))) (go xs' ys' (S i))
           end) xs ys 0
  | VSet xs, VSet ys | VFrozen xs, VFrozen ys => (diff_set xs ys p1 p2, [])
  | _, _ => ([], [])    (* unreachable: the types are equal *)
  end.

(* ---- TreeResult.mutual_add_removes_to_become_value_changes ---- *)
Definition is_kind (k : rkind) (e : entry) : bool := rkind_eqb (ekind e) k.
Definition last_with_path (p : path) (l : list entry) : option entry :=
  fold_left (fun acc e => if path_eqb (ep1 e) p then Some e else acc) l None.
Definition mutual (es : list entry) : list entry :=
  let added := filter (is_kind KIterAdd) es in
  let removed := filter (is_kind KIterRem) es in
  flat_map (fun e =>
    match ekind e with
    | KIterRem =>
        match last_with_path (ep1 e) added with
        | Some a =>
            (* only the last removed level with this path is converted *)
            match last_with_path (ep1 e) removed with
            | Some r => [mkEntry KValue (ep1 e) (ep2 e) (et1 e) (et2 a) (ediff e)]
            | None => [e]
            end
        | None => [e]
        end
    | KIterAdd =>
        match last_with_path (ep1 e) removed with
        | Some _ => []
        | None => [e]
        end
    | _ => [e]
    end) es.

(* the whole run: DeepDiff(t1, t2, view='tree') *)
Definition run_diff (t1 t2 : value) : list entry * list path :=
  let '(es, rec) := diff t1 t2 [] [] in (mutual es, rec).

End Diff.

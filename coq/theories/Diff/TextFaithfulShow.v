(** Executable reading of the hypotheses of C04_text_* for the generated cases
    (evaluated inside Coq by harness/props/c04.py and compared with the harness's own
    reading of the same guard on the Python objects). *)
From Coq Require Import List ZArith NArith Bool String.
Import ListNotations.
From DD Require Import Base.Sx Base.PyStr Base.Value Path.PathModel Diff.Tree Diff.DiffModel Diff.DiffPaths
  Diff.TextView Diff.TextFaithful.

Definition c04_guardb (t1 t2 : value) : bool := wf t1 && wf t2 && keys_ok t1 && keys_ok t2.
Definition sx_c04_guard (t1 t2 : value) : sx := sx_bool (c04_guardb t1 t2).

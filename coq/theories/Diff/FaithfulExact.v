(** C04: the two ways an entry of a default-mode diff can fail the property, characterised EXACTLY.

    K17 ("values_changed with identical values")  [k17_exact]:
      a reported level fails "the two values really differ" (and then it fails nothing else)
        IFF
      it is  values_changed  at  q ++ [i]  where q is a pair of all-atom sequences whose difflib opcodes were
      recorded (the opcode replay won), some opcode block removes t1 index i (inside a 'delete' block or in the
      surplus of the t1 chunk of a 'replace' block), some block adds t2 index i ('insert' block / surplus of the
      t2 chunk of a 'replace' block), and  t1[q][i] == t2[q][i]  (mutual_add_removes_to_become_value_changes
      folds the two levels into one without comparing the values).
      [faithful_except_k17]: every reported level is fully faithful or has this shape.

    K18 ("new_path omitted at verbose_level=1")  [k18_exact]:
      an entry of the verbose_level=1 text view fails the property
        IFF
      it is the k-th compared pair of a 'replace' block whose two chunks start at DIFFERENT indexes
      (oi1 <> oj1) of an all-atom list on which the opcode replay was used, the two atoms are not ==,
      and t2 does not happen to hold the reported new value at the t1 index as well.
      [shifted_source] / [shifted_reported]: the levels whose two paths differ are exactly those pairs.
      [text_v1_except_k18]: every entry at verbose_level=1 is faithful or has this shape. *)
From Coq Require Import List ZArith NArith Bool Arith Lia.
Import ListNotations.
From DD Require Import Base.PyStr Base.Value Base.ValueFacts Path.PathModel Path.PathProofs
  Diff.Tree Diff.DiffModel Diff.DiffFacts Diff.DiffFaithful Diff.DiffPaths Diff.TextView Diff.TextFaithful
  Diff.FaithfulShape Diff.FaithfulSource.

(* ------------------------------------------------------------------ *)
(** * mutual_add_removes, entry by entry *)

Definition merged (r a : entry) : entry := mkEntry KValue (ep1 r) (ep2 r) (et1 r) (et2 a) (ediff r).

Lemma is_kind_eq k e : is_kind k e = true <-> ekind e = k.
Proof. unfold is_kind. destruct (ekind e), k; cbn; split; intros H; try reflexivity; try discriminate. Qed.

(* the version we use: what a level of [mutual es] is *)
Lemma mutual_In_cases es e : In e (mutual es) ->
  In e es \/
  exists r a, In r es /\ In a es /\ ekind r = KIterRem /\ ekind a = KIterAdd /\ ep1 a = ep1 r /\ e = merged r a.
Proof.
  intros He. unfold mutual in He. apply in_flat_map in He as (e0 & H0 & He).
  destruct (ekind e0) eqn:K; try (destruct He as [<-|[]]; left; exact H0).
  - destruct (last_with_path _ _); [destruct He|]. destruct He as [<-|[]]. left; exact H0.
  - destruct (last_with_path (ep1 e0) (filter (is_kind KIterAdd) es)) as [a|] eqn:LA;
      [|destruct He as [<-|[]]; left; exact H0].
    destruct (last_with_path (ep1 e0) (filter (is_kind KIterRem) es)) as [r|] eqn:LR;
      [|destruct He as [<-|[]]; left; exact H0].
    destruct He as [<-|[]]. right.
    apply last_with_path_In in LA as [HaIn Hap]. apply filter_In in HaIn as [HaIn Hak]. apply is_kind_eq in Hak.
    exists e0, a. repeat split; assumption.
Qed.

Lemma last_with_path_acc_some p l : forall acc, acc <> None ->
  fold_left (fun acc e => if path_eqb (ep1 e) p then Some e else acc) l acc <> None.
Proof.
  induction l as [|x l IH]; cbn; intros acc H; [exact H|]. apply IH. destruct (path_eqb (ep1 x) p); [discriminate|exact H].
Qed.

Lemma path_eqb_refl p : path_eqb p p = true.
Proof.
  induction p as [|k p IH]; cbn; [reflexivity|]. rewrite IH, andb_true_r.
  destruct k; cbn; [apply atom_eqb_refl|apply Nat.eqb_refl].
Qed.

Lemma last_with_path_ex p l x : In x l -> ep1 x = p -> exists y, last_with_path p l = Some y.
Proof.
  intros Hx Hp. unfold last_with_path.
  assert (G : forall acc, fold_left (fun acc e => if path_eqb (ep1 e) p then Some e else acc) l acc <> None).
  { induction l as [|z l IH]; [destruct Hx|]. intros acc. cbn. destruct Hx as [->|Hx].
    - rewrite Hp, path_eqb_refl. apply last_with_path_acc_some. discriminate.
    - apply IH. exact Hx. }
  specialize (G None). destruct (fold_left _ l None) as [y|]; [exists y; reflexivity|congruence].
Qed.

Lemma mutual_merge_In es r a : In r es -> ekind r = KIterRem -> In a es -> ekind a = KIterAdd -> ep1 a = ep1 r ->
  exists a', In a' es /\ ekind a' = KIterAdd /\ ep1 a' = ep1 r /\ In (merged r a') (mutual es).
Proof.
  intros Hr Kr Ha Ka P.
  destruct (last_with_path_ex (ep1 r) (filter (is_kind KIterAdd) es) a) as [a' LA];
    [apply filter_In; split; [exact Ha|apply is_kind_eq; exact Ka]|exact P|].
  destruct (last_with_path_ex (ep1 r) (filter (is_kind KIterRem) es) r) as [r' LR];
    [apply filter_In; split; [exact Hr|apply is_kind_eq; exact Kr]|reflexivity|].
  pose proof LA as LA'. apply last_with_path_In in LA' as [HaIn Hap]. apply filter_In in HaIn as [HaIn Hak]. apply is_kind_eq in Hak.
  exists a'. repeat split; try assumption.
  unfold mutual. apply in_flat_map. exists r. split; [exact Hr|]. rewrite Kr, LA, LR. left. reflexivity.
Qed.

Lemma mutual_keeps es e : In e es -> ekind e <> KIterRem -> ekind e <> KIterAdd -> In e (mutual es).
Proof.
  intros He K1 K2. unfold mutual. apply in_flat_map. exists e. split; [exact He|].
  destruct (ekind e); try (left; reflexivity); congruence.
Qed.

(* ------------------------------------------------------------------ *)
Section Exact.
Variable hatom : atom -> pystr.
Variable udiff : pystr -> pystr -> pystr.
Variable ops : path -> list value -> list value -> list opcode.
Variable skip excl : path -> bool.
Variable c : cfg.
Notation run := (run_diff hatom udiff ops skip excl c).
Notation diff := (diff hatom udiff ops skip excl c).
Notation dll := (default_leaf_list udiff ops skip).

Definition k17_shape (t1 t2 : value) (rec : list path) (e : entry) : Prop :=
  exists q i xs ys x y,
    at_level t1 t2 q xs ys /\ leafb c xs ys = true /\ In q rec /\ skip (snoc q (PIdx i)) = false /\
    removes_at (ops q xs ys) xs ys i = true /\ adds_at (ops q xs ys) xs ys i = true /\
    nth_error xs i = Some x /\ nth_error ys i = Some y /\ py_eqv x y = true /\
    e = mkEntry KValue (snoc q (PIdx i)) (snoc q (PIdx i)) (Some x) (Some y) None.

Lemma at_level_resolve1 t1 t2 q xs ys i x : at_level t1 t2 q xs ys -> nth_error xs i = Some x ->
  resolve t1 (snoc q (PIdx i)) = Some x.
Proof. intros (v1 & v2 & A1 & A2 & _ & _) H. eapply resolve_seq_item; eassumption. Qed.
Lemma at_level_resolve2 t1 t2 q xs ys i y : at_level t1 t2 q xs ys -> nth_error ys i = Some y ->
  resolve t2 (snoc q (PIdx i)) = Some y.
Proof. intros (v1 & v2 & _ & _ & A3 & A4) H. eapply resolve_seq_item; eassumption. Qed.

Lemma at_level_resolve2_any t1 t2 q xs ys i : at_level t1 t2 q xs ys ->
  resolve t2 (snoc q (PIdx i)) = nth_error ys i.
Proof.
  intros (v1 & v2 & _ & _ & A3 & A4). unfold snoc. rewrite resolve_snoc, A3.
  destruct v2; cbn in A4; try discriminate; inversion A4; subst.
  - apply get_item_idx_list.
  - apply get_item_idx_tuple.
Qed.

(* sources of removed / added levels, in usable form *)
Lemma src_rem t1 t2 rec r : Src udiff ops skip c t1 t2 rec r -> ekind r = KIterRem ->
  exists q xs ys i x, at_level t1 t2 q xs ys /\ nth_error xs i = Some x /\ r = rem_entry q i x /\
    ((leafb c xs ys = true /\ In r (fst (dll xs ys q q)) /\ (snd (dll xs ys q q) = true -> In q rec)) \/
     (leafb c xs ys = false /\ length ys <= i)).
Proof.
  intros S K. destruct (S (or_introl K)) as (q & xs & ys & A & [(L & He & Hr)|(L & [(k & x & Lk & Hk & ->)|(k & y & _ & _ & ->)])]).
  - destruct (dll_rem_shape udiff ops skip xs ys q r He K) as (i & x & Hx & E).
    exists q, xs, ys, i, x. repeat split; try assumption. left. repeat split; assumption.
  - exists q, xs, ys, k, x. repeat split; try assumption. right. split; assumption.
  - discriminate K.
Qed.
Lemma src_add t1 t2 rec a : Src udiff ops skip c t1 t2 rec a -> ekind a = KIterAdd ->
  exists q xs ys i y, at_level t1 t2 q xs ys /\ nth_error ys i = Some y /\ a = add_entry q i y /\
    ((leafb c xs ys = true /\ In a (fst (dll xs ys q q)) /\ (snd (dll xs ys q q) = true -> In q rec)) \/
     (leafb c xs ys = false /\ length xs <= i)).
Proof.
  intros S K. destruct (S (or_intror (or_introl K))) as (q & xs & ys & A & [(L & He & Hr)|(L & [(k & x & _ & _ & ->)|(k & y & Lk & Hk & ->)])]).
  - destruct (dll_add_shape udiff ops skip xs ys q a He K) as (i & y & Hy & E).
    exists q, xs, ys, i, y. repeat split; try assumption. left. repeat split; assumption.
  - discriminate K.
  - exists q, xs, ys, k, y. repeat split; try assumption. right. split; assumption.
Qed.

Lemma faithful_true_dec t1 t2 e : faithful false t1 t2 e -> faithful true t1 t2 e \/ ~ faithful true t1 t2 e.
Proof.
  intros F. unfold faithful in *. destruct (ekind e); try (left; exact F).
  destruct F as (a & b & E1 & E2 & R1 & R2 & _). destruct (py_eqv a b) eqn:Q.
  - right. intros (a' & b' & E1' & E2' & _ & _ & H). rewrite E1 in E1'. rewrite E2 in E2'. inversion E1'; inversion E2'; subst.
    specialize (H eq_refl). congruence.
  - left. exists a, b. repeat split; try assumption. intros _. exact Q.
Qed.

Section Run.
Variables t1 t2 : value.
Hypothesis Hthr : thr_num c <= thr_den c.
Hypothesis W1 : wf t1 = true.
Hypothesis W2 : wf t2 = true.

Let es := fst (diff t1 t2 [] []).
Let rec := snd (diff t1 t2 [] []).

Lemma run_fst : fst (run t1 t2) = mutual es.
Proof. unfold run_diff, es. destruct (diff t1 t2 [] []) as [a b]. reflexivity. Qed.
Lemma run_snd : snd (run t1 t2) = rec.
Proof. unfold run_diff, rec. destruct (diff t1 t2 [] []) as [a b]. reflexivity. Qed.

Lemma es_faithful : Forall (faithful true t1 t2) es.
Proof. exact (diff_faithful hatom udiff ops skip excl c t1 t2 Hthr t1 t2 [] [] eq_refl W1 W2 eq_refl eq_refl). Qed.

Lemma es_good : Forall (Src udiff ops skip c t1 t2 rec) es /\ Forall (RecIn udiff ops skip c t1 t2 es) rec.
Proof. exact (diff_sources hatom udiff ops skip excl c t1 t2 t1 t2 [] W1 W2 eq_refl eq_refl). Qed.

Lemma rec_level q : In q rec ->
  exists xs ys, at_level t1 t2 q xs ys /\ leafb c xs ys = true /\
    incl (by_opcodes udiff skip (ops q xs ys) xs ys q q) es.
Proof.
  intros Hq. destruct es_good as [_ G]. eapply Forall_forall in G; [|exact Hq].
  destruct G as (xs & ys & A & L & Rc & I). exists xs, ys. repeat split; try assumption.
  destruct (dll_recorded udiff ops skip xs ys q Rc) as [E _]. rewrite <- E. exact I.
Qed.

(* K17, exactly *)
Theorem k17_exact e :
  (In e (fst (run t1 t2)) /\ ~ faithful true t1 t2 e) <-> k17_shape t1 t2 (snd (run t1 t2)) e.
Proof.
  rewrite run_fst, run_snd. split.
  - intros [He NF]. apply mutual_In_cases in He as [He|(r & a & Hr & Ha & Kr & Ka & P & ->)].
    { exfalso. apply NF. pose proof es_faithful as F. eapply Forall_forall in F; eassumption. }
    destruct es_good as [G _].
    pose proof (proj1 (Forall_forall _ _) G r Hr) as Sr. pose proof (proj1 (Forall_forall _ _) G a Ha) as Sa.
    destruct (src_rem t1 t2 rec r Sr Kr) as (q & xs & ys & i & x & A & Hx & Er & Cr).
    destruct (src_add t1 t2 rec a Sa Ka) as (q' & xs' & ys' & i' & y & A' & Hy & Ea & Ca).
    subst r a. cbn in P. apply snoc_inj in P as [-> P]. inversion P; subst i'. clear P.
    destruct (at_level_fun t1 t2 q xs ys xs' ys' A A') as [<- <-].
    destruct Cr as [(L & Hr' & Rr)|(L & Lr)], Ca as [(L' & Ha' & Ra)|(L' & La)]; try congruence.
    + destruct (dll_rem_add udiff ops skip xs ys q _ _ Hr' Ha' eq_refl eq_refl eq_refl)
        as (Rc & i0 & x0 & y0 & R1 & A1 & Hx0 & Hy0 & Hs & E1 & E2).
      assert (Ei : i0 = i).
      { pose proof (f_equal ep1 E1) as X. cbn in X. apply snoc_inj in X as [_ X]. inversion X. reflexivity. }
      assert (Ex : x0 = x) by (pose proof (f_equal et1 E1) as X; cbn in X; inversion X; reflexivity).
      assert (Ey : y0 = y) by (pose proof (f_equal et2 E2) as X; cbn in X; inversion X; reflexivity).
      subst i0 x0 y0. clear E1 E2.
      exists q, i, xs, ys, x, y.
      split; [exact A|]. split; [exact L|]. split; [apply Rr; exact Rc|]. split; [exact Hs|].
      split; [exact R1|]. split; [exact A1|]. split; [exact Hx0|]. split; [exact Hy0|]. split; [|reflexivity].
      destruct (py_eqv x y) eqn:Q; [reflexivity|]. exfalso. apply NF.
      exists x, y. cbn. repeat split; try reflexivity.
      * eapply at_level_resolve1; eassumption.
      * eapply at_level_resolve2; eassumption.
      * intros _. exact Q.
    + apply nth_error_lt in Hx. lia.
  - intros (q & i & xs & ys & x & y & A & L & Hq & Hs & R & Ad & Hx & Hy & Q & ->).
    destruct (rec_level q Hq) as (xs' & ys' & A' & _ & I).
    destruct (at_level_fun t1 t2 q xs ys xs' ys' A A') as [<- <-].
    assert (Hr : In (rem_entry q i x) es).
    { apply I. apply (proj2 (by_opcodes_rem_iff udiff skip _ xs ys q _)). exists i, x. repeat split; assumption. }
    assert (Ha : In (add_entry q i y) es).
    { apply I. apply (proj2 (by_opcodes_add_iff udiff skip _ xs ys q _)). exists i, y. repeat split; assumption. }
    destruct (mutual_merge_In es _ _ Hr eq_refl Ha eq_refl eq_refl) as (a' & Ha' & Ka' & Pa' & M).
    pose proof es_faithful as F. eapply Forall_forall in F; [|exact Ha']. unfold faithful in F. rewrite Ka' in F.
    destruct F as (b & _ & E2 & R2 & P12). cbn in Pa'.
    assert (b = y).
    { rewrite <- P12, Pa' in R2. rewrite (at_level_resolve2 t1 t2 q xs ys i y A Hy) in R2. congruence. }
    subst b. unfold merged in M. cbn in M. rewrite E2 in M. split; [exact M|].
    intros (a0 & b0 & E1' & E2' & _ & _ & H). cbn in E1', E2'. inversion E1'; inversion E2'; subst.
    specialize (H eq_refl). congruence.
Qed.

(* every reported level is faithful in full, or is a K17 level *)
Theorem faithful_except_k17 e : In e (fst (run t1 t2)) ->
  faithful true t1 t2 e \/ k17_shape t1 t2 (snd (run t1 t2)) e.
Proof.
  intros He. destruct (run_diff_faithful hatom udiff ops skip excl c t1 t2 Hthr W1 W2 e He) as [F _].
  destruct (faithful_true_dec t1 t2 e F) as [T|N]; [left; exact T|right].
  apply k17_exact. split; assumption.
Qed.

(* ---- levels whose two paths differ ---- *)
Definition shifted_shape (rc : list path) (e : entry) (q : path) (xs ys : list value) (o : opcode) (k : nat) (a b : atom) : Prop :=
  at_level t1 t2 q xs ys /\ leafb c xs ys = true /\
  (In q rc \/ length (by_opcodes udiff skip (ops q xs ys) xs ys q q) <= 1) /\
  In o (ops q xs ys) /\ otag o = OReplace /\ oi1 o <> oj1 o /\
  nth_error (slice xs (oi1 o) (oi2 o)) k = Some (VAtom a) /\
  nth_error (slice ys (oj1 o) (oj2 o)) k = Some (VAtom b) /\
  py_eq a b = false /\ skip (snoc q (PIdx (oi1 o + k))) = false /\
  ep1 e = snoc q (PIdx (oi1 o + k)) /\ ep2 e = snoc q (PIdx (oj1 o + k)) /\
  et1 e = Some (VAtom a) /\ et2 e = Some (VAtom b).

Lemma forallb_is_atom_nth xs i x : forallb is_atom xs = true -> nth_error xs i = Some x -> exists a, x = VAtom a.
Proof.
  intros H Hx. apply nth_error_In in Hx. eapply forallb_forall in H; [|exact Hx].
  destruct x; try discriminate. eexists; reflexivity.
Qed.

Theorem shifted_source e : In e (fst (run t1 t2)) -> (ekind e = KValue \/ ekind e = KType) -> ep1 e <> ep2 e ->
  exists q xs ys o k a b, shifted_shape (snd (run t1 t2)) e q xs ys o k a b.
Proof.
  rewrite run_fst. intros He K N.
  apply mutual_In_cases in He as [He|(r & a & Hr & Ha & Kr & Ka & P & ->)].
  2:{ exfalso. apply N. cbn. pose proof es_faithful as F. eapply Forall_forall in F; [|exact Hr].
      unfold faithful in F. rewrite Kr in F. destruct F as (x & _ & _ & _ & E). exact E. }
  destruct es_good as [G _]. eapply Forall_forall in G; [|exact He].
  destruct (G (or_intror (or_intror N))) as (q & xs & ys & A & [(L & Hd & Hrec)|(L & [(k & x & _ & _ & ->)|(k & y & _ & _ & ->)])]);
    try (exfalso; apply N; reflexivity).
  destruct (dll_shifted udiff ops skip xs ys q e Hd N) as [E U]. rewrite E in Hd.
  destruct (by_opcodes_shifted udiff skip _ xs ys q e Hd N) as (o & k & x & y & Ho & T & Nij & Hx & Hy & Hp).
  apply pair_entry_In in Hp as (_ & P1 & P2 & E1 & E2 & Hs & KM).
  pose proof L as L'. unfold leafb in L'. apply andb_true_iff in L' as [L' Ly]. apply andb_true_iff in L' as [_ Lx].
  destruct (forallb_is_atom_nth xs _ x Lx (nth_error_slice_some _ _ _ _ _ Hx)) as [a ->].
  destruct (forallb_is_atom_nth ys _ y Ly (nth_error_slice_some _ _ _ _ _ Hy)) as [b ->].
  exists q, xs, ys, o, k, a, b. unfold shifted_shape. repeat split; try assumption.
  - destruct U as [U|U]; [left; rewrite run_snd; apply Hrec; exact U|right; exact U].
  - destruct (py_eq a b) eqn:Q; [|reflexivity]. exfalso.
    assert (ekind e = KIterMoved) by (apply KM; split; [lia|exact Q]).
    destruct K as [K|K]; congruence.
Qed.

(* conversely, every such pair of a recorded list is reported *)
Theorem shifted_reported q xs ys o k a b :
  at_level t1 t2 q xs ys -> In q (snd (run t1 t2)) ->
  In o (ops q xs ys) -> otag o = OReplace ->
  nth_error (slice xs (oi1 o) (oi2 o)) k = Some (VAtom a) ->
  nth_error (slice ys (oj1 o) (oj2 o)) k = Some (VAtom b) ->
  py_eq a b = false -> skip (snoc q (PIdx (oi1 o + k))) = false ->
  exists e, In e (fst (run t1 t2)) /\ (ekind e = KType \/ ekind e = KValue) /\
    ep1 e = snoc q (PIdx (oi1 o + k)) /\ ep2 e = snoc q (PIdx (oj1 o + k)) /\
    et1 e = Some (VAtom a) /\ et2 e = Some (VAtom b).
Proof.
  rewrite run_fst, run_snd. intros A Hq Ho T Hx Hy Q Hs.
  destruct (rec_level q Hq) as (xs' & ys' & A' & _ & I).
  destruct (at_level_fun t1 t2 q xs ys xs' ys' A A') as [<- <-].
  destruct (diff_atom_neq udiff skip a b (snoc q (PIdx (oi1 o + k))) (snoc q (PIdx (oj1 o + k))) Hs Q) as [e E].
  assert (Hp : In e (pair_entry udiff skip (VAtom a) (VAtom b) (oi1 o + k) (oj1 o + k) q q)).
  { unfold pair_entry. cbn [py_eq_leaf]. rewrite Q, andb_false_r. cbn [diff_leaf]. rewrite E. left. reflexivity. }
  assert (Hin : In e (diff_atom udiff skip a b (snoc q (PIdx (oi1 o + k))) (snoc q (PIdx (oj1 o + k)))))
    by (rewrite E; left; reflexivity).
  apply diff_atom_In in Hin as (K & P1 & P2 & E1 & E2 & _).
  exists e. repeat split; try assumption.
  apply mutual_keeps; [|destruct K as [K|K]; rewrite K; discriminate..].
  apply I. eapply by_opcodes_pair_In; eassumption.
Qed.

(* ---- K18: the verbose_level=1 text view ---- *)
Definition k18_shape (rc : list path) (e : entry) : Prop :=
  (ekind e = KValue \/ ekind e = KType) /\
  exists q xs ys o k a b, shifted_shape rc e q xs ys o k a b /\
    nth_error ys (oi1 o + k) <> Some (VAtom b).

(* at verbose_level=1 a changed value / type is faithful iff t2 holds the reported new value at the T1 path *)
Lemma tf_v1_iff e te : faithful false t1 t2 e -> path_ok (ep1 e) = true ->
  (ekind e = KValue \/ ekind e = KType) -> In te (text_of 1 e) ->
  (tfaithful false t1 t2 te <-> resolve t2 (ep1 e) = et2 e).
Proof.
  intros F O1 K Hte. unfold faithful in F. unfold text_of in Hte. destruct K as [K|K]; rewrite K in F, Hte.
  - destruct F as (a & b & E1 & E2 & R1 & R2 & _). rewrite E1, E2 in Hte. cbn in Hte. destruct Hte as [<-|[]].
    cbn [tfaithful np_or]. rewrite !(extract_render _ _ O1), R1, E2. split.
    + intros (_ & H & _). exact H.
    + intros H. repeat split; [exact H|discriminate].
  - destruct F as (a & b & E1 & E2 & R1 & R2 & Hty). rewrite E1, E2 in Hte. cbn in Hte. destruct Hte as [<-|[]].
    cbn [tfaithful np_or]. rewrite !(extract_render _ _ O1), R1, E2. split.
    + intros (a' & b' & _ & H & _ & _ & _ & _ & Eb). rewrite H, Eb. reflexivity.
    + intros H. exists a, b. repeat split; try assumption; reflexivity.
Qed.

Theorem k18_exact e te :
  In e (fst (run t1 t2)) -> path_ok (ep1 e) = true -> In te (text_of 1 e) ->
  (~ tfaithful false t1 t2 te <-> k18_shape (snd (run t1 t2)) e).
Proof.
  intros He O1 Hte.
  destruct (run_diff_faithful hatom udiff ops skip excl c t1 t2 Hthr W1 W2 e He) as [F _].
  pose proof (run_entry_PS hatom udiff ops skip excl c t1 t2 e He) as S.
  split.
  - intros NT.
    assert (N : ep1 e <> ep2 e).
    { intros P. apply NT. eapply text_any_verbosity_local; eassumption. }
    assert (K : ekind e = KValue \/ ekind e = KType).
    { destruct S as [P|[[K|[K|K]] _]]; [contradiction|left; exact K|right; exact K|].
      unfold text_of in Hte. rewrite K in Hte. destruct Hte. }
    split; [exact K|].
    destruct (shifted_source e He K N) as (q & xs & ys & o & k & a & b & Sh).
    exists q, xs, ys, o, k, a, b. split; [exact Sh|].
    destruct Sh as (A & _ & _ & _ & _ & _ & _ & _ & _ & _ & P1 & _ & _ & E2).
    intros Hn. apply NT. apply (tf_v1_iff e te F O1 K Hte).
    rewrite P1, (at_level_resolve2_any t1 t2 q xs ys _ A), E2. exact Hn.
  - intros (K & q & xs & ys & o & k & a & b & Sh & Hn) T.
    destruct Sh as (A & _ & _ & _ & _ & _ & _ & _ & _ & _ & P1 & _ & _ & E2).
    apply (tf_v1_iff e te F O1 K Hte) in T.
    rewrite P1, (at_level_resolve2_any t1 t2 q xs ys _ A), E2 in T. contradiction.
Qed.

Lemma value_atom_eq_dec (o : option value) (b : atom) : o = Some (VAtom b) \/ o <> Some (VAtom b).
Proof.
  destruct o as [[a| | | | |]|]; try (right; discriminate).
  destruct (atom_eqb a b) eqn:E; [apply atom_eqb_eq in E; subst; left; reflexivity|].
  right. intros H. inversion H; subst. rewrite atom_eqb_refl in E. discriminate.
Qed.

(* every entry of the verbose_level=1 result is faithful, or is a K18 entry *)
Theorem text_v1_except_k18 e te :
  In e (fst (run t1 t2)) -> path_ok (ep1 e) = true -> In te (text_of 1 e) ->
  tfaithful false t1 t2 te \/ k18_shape (snd (run t1 t2)) e.
Proof.
  intros He O1 Hte.
  destruct (run_diff_faithful hatom udiff ops skip excl c t1 t2 Hthr W1 W2 e He) as [F _].
  pose proof (run_entry_PS hatom udiff ops skip excl c t1 t2 e He) as S.
  destruct S as [P|[Ks (q0 & i & j & P1 & P2)]].
  { left. eapply text_any_verbosity_local; eassumption. }
  destruct (Nat.eq_dec i j) as [->|Nij].
  { left. eapply text_any_verbosity_local; try eassumption. congruence. }
  assert (N : ep1 e <> ep2 e).
  { rewrite P1, P2. intros E. apply snoc_inj in E as [_ E]. inversion E. contradiction. }
  assert (K : ekind e = KValue \/ ekind e = KType).
  { destruct Ks as [K|[K|K]]; [left; exact K|right; exact K|].
    unfold text_of in Hte. rewrite K in Hte. destruct Hte. }
  destruct (shifted_source e He K N) as (q & xs & ys & o & k & a & b & Sh).
  destruct (value_atom_eq_dec (nth_error ys (oi1 o + k)) b) as [Y|Nn].
  - left. apply (tf_v1_iff e te F O1 K Hte).
    destruct Sh as (A & _ & _ & _ & _ & _ & _ & _ & _ & _ & Q1 & _ & _ & E2).
    rewrite Q1, (at_level_resolve2_any t1 t2 q xs ys _ A), E2. exact Y.
  - right. split; [exact K|]. exists q, xs, ys, o, k, a, b. split; assumption.
Qed.

End Run.
End Exact.

(* ------------------------------------------------------------------ *)
(** * The two shapes are inhabited by the real difflib opcodes (the findings' witnesses) *)

Definition k17_run := run_diff (fun _ => []) (fun _ _ => []) k17_ops (fun _ => false) (fun _ => false)
                               (mkCfg false 33 100 true) k17_t1 k17_t2.
Definition k17_entry : entry :=
  mkEntry KValue [PIdx 3] [PIdx 3] (Some (VAtom (AStr [98%N]))) (Some (VAtom (AStr [98%N]))) None.

Example k17_shape_witness :
  In k17_entry (fst k17_run) /\
  k17_shape k17_ops (fun _ => false) (mkCfg false 33 100 true) k17_t1 k17_t2 (snd k17_run) k17_entry.
Proof.
  split; [vm_compute; tauto|].
  exists [], 3, (map (fun ch => VAtom (AStr [ch])) [97; 98; 97; 98]%N),
         (map (fun ch => VAtom (AStr [ch])) [99; 97; 98; 98; 97]%N), (VAtom (AStr [98%N])), (VAtom (AStr [98%N])).
  split; [eexists; eexists; repeat split; reflexivity|].
  repeat split; try reflexivity. vm_compute. left. reflexivity.
Qed.

(* ['a','b','c'] -> ['x','a','q','c']: the pair ('b','q') of the block replace 1:2 -> 2:3 *)
Definition k18_entry : entry :=
  mkEntry KValue [PIdx 1] [PIdx 2] (Some (VAtom (AStr [98%N]))) (Some (VAtom (AStr [113%N]))) None.

Example k18_shape_witness :
  In k18_entry (fst k18_run) /\
  k18_shape (fun _ _ => []) k18_ops (fun _ => false) (mkCfg false 33 100 true)
            k18_t1 k18_t2 (snd k18_run) k18_entry.
Proof.
  split; [vm_compute; tauto|]. split; [left; reflexivity|].
  exists [], (map (fun ch => VAtom (AStr [ch])) [97; 98; 99]%N), (map (fun ch => VAtom (AStr [ch])) [120; 97; 113; 99]%N),
         (mkOp OReplace 1 2 2 3), 0, (AStr [98%N]), (AStr [113%N]).
  split; [|vm_compute; discriminate].
  unfold shifted_shape. split; [eexists; eexists; repeat split; reflexivity|].
  split; [reflexivity|]. split; [left; vm_compute; left; reflexivity|].
  split; [vm_compute; tauto|]. split; [reflexivity|]. split; [cbn; lia|].
  repeat split; reflexivity.
Qed.

(** Port of Diff/DiffFacts.v (unfolding equations for the nested fixpoints of [diff]) to the extended
    universe Diff/XuValue.v. *)
From Coq Require Import List ZArith NArith Bool Arith Lia.
Import ListNotations.
From DD Require Import Base.PyStr Diff.XuValue Diff.XuFacts Diff.XuTree Diff.XuModel.

Definition R := (list entry * list path)%type.

Section DiffFacts.
Variable hatom : atom -> pystr.
Variable udiff : pystr -> pystr -> pystr.
Variable ops : path -> list value -> list value -> list opcode.
Variable skip excl : path -> bool.
Variable c : cfg.
Notation diff := (diff hatom udiff ops skip excl c).

Definition go_common (d : value -> value -> path -> path -> R)
    (kvs2 : list (atom * value)) (k2 : list atom) (p1 p2 : path) :=
  fix go (l : list (atom * value)) : R :=
    match l with
    | [] => ([], [])
    | (k, v1) :: r =>
        let rest := go r in
        if keep_key c k then
          match find (py_eq k) k2 with
          | Some k' =>
              match assoc k' kvs2 with
              | Some v2 => app2 (d v1 v2 (snoc p1 (PKey k')) (snoc p2 (PKey k'))) rest
              | None => rest
              end
          | None => rest
          end
        else rest
    end.

Definition go_list (d : value -> value -> path -> path -> R) (p1 p2 : path) :=
  fix go (xs ys : list value) (i : nat) {struct xs} : R :=
    match xs, ys with
    | [], _ => (added_from skip ys i p1 p2, [])
    | _ :: _, [] => (removed_from skip xs i p1 p2, [])
    | x :: xs', y :: ys' =>
        app2 (d x y (snoc p1 (PIdx i)) (snoc p2 (PIdx i))) (go xs' ys' (S i))
    end.

Definition dict_body (kvs1 kvs2 : list (atom * value)) (p1 p2 : path) : R :=
  let k1 := keys_of c kvs1 in
  let k2 := keys_of c kvs2 in
  if dict_shortcut excl c k1 k2 p1
  then (report skip KValue p1 p2 (Some (VDict kvs1)) (Some (VDict kvs2)) None, [])
  else
    let added := flat_map (fun k => if mem_atom k k1 then []
                   else report skip KDictAdd (snoc p1 (PKey k)) (snoc p2 (PKey k)) None (assoc k kvs2) None) k2 in
    let removed := flat_map (fun k => if mem_atom k k2 then []
                   else report skip KDictRem (snoc p1 (PKey k)) (snoc p2 (PKey k)) (assoc k kvs1) None None) k1 in
    let common := go_common diff kvs2 k2 p1 p2 kvs1 in
    (added ++ removed ++ fst common, snd common).

Definition seq_body (xs ys : list value) (p1 p2 : path) : R :=
  if negb (zip c) && forallb is_atom xs && forallb is_atom ys
  then let '(es, rec) := default_leaf_list udiff ops skip xs ys p1 p2 in (es, if rec then [p1] else [])
  else go_list diff p1 p2 xs ys 0.

Lemma diff_skip t1 t2 p1 p2 : skip p1 = true -> diff t1 t2 p1 p2 = ([], []).
Proof. intros H. destruct t1; cbn; rewrite H; reflexivity. Qed.

Lemma diff_type t1 t2 p1 p2 :
  skip p1 = false -> ty_eqb (type_of t1) (type_of t2) = false ->
  diff t1 t2 p1 p2 = (report skip KType p1 p2 (Some t1) (Some t2) None, []).
Proof. intros H T. destruct t1; cbn; rewrite H; cbn in T; rewrite T; reflexivity. Qed.

Lemma diff_atom_eq a b p1 p2 :
  skip p1 = false -> diff (VAtom a) (VAtom b) p1 p2 =
  if negb (ty_eqb (atom_ty a) (atom_ty b)) then (report skip KType p1 p2 (Some (VAtom a)) (Some (VAtom b)) None, [])
  else (diff_atom udiff skip a b p1 p2, []).
Proof. intros H. cbn. rewrite H. reflexivity. Qed.

Lemma diff_dict kvs1 kvs2 p1 p2 :
  skip p1 = false -> diff (VDict kvs1) (VDict kvs2) p1 p2 = dict_body kvs1 kvs2 p1 p2.
Proof. intros H. cbn. rewrite H. reflexivity. Qed.

Lemma diff_list xs ys p1 p2 :
  skip p1 = false -> diff (VList xs) (VList ys) p1 p2 = seq_body xs ys p1 p2.
Proof. intros H. cbn. rewrite H. reflexivity. Qed.

Lemma diff_tuple xs ys p1 p2 :
  skip p1 = false -> diff (VTuple xs) (VTuple ys) p1 p2 = seq_body xs ys p1 p2.
Proof. intros H. cbn. rewrite H. reflexivity. Qed.

Lemma diff_vset xs ys p1 p2 :
  skip p1 = false -> diff (VSet xs) (VSet ys) p1 p2 = (diff_set hatom skip xs ys p1 p2, []).
Proof. intros H. cbn. rewrite H. reflexivity. Qed.

Lemma diff_vfrozen xs ys p1 p2 :
  skip p1 = false -> diff (VFrozen xs) (VFrozen ys) p1 p2 = (diff_set hatom skip xs ys p1 p2, []).
Proof. intros H. cbn. rewrite H. reflexivity. Qed.

End DiffFacts.


Lemma slice_length_le {A} (l : list A) a b : length (slice l a b) <= b - a.
Proof. unfold slice. apply firstn_le_length. Qed.

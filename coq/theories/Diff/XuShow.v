(** sx renderings of diff results over the extended universe, and the oracle tables of the
    correspondence check (port of Diff/DiffShow.v). *)
From Coq Require Import List ZArith NArith Bool Arith String.
Import ListNotations.
From DD Require Import Base.Sx Base.PyStr Path.PathModel Diff.XuValue Diff.XuTree Diff.XuModel Diff.XuTextView Diff.XuSpec Diff.XuHash.
From DD Require Hash.HashModel.
Local Open Scope string_scope.

Definition sx_kind (k : rkind) : sx :=
  SA (match k with
      | KType => "type_changes" | KValue => "values_changed"
      | KDictAdd => "dictionary_item_added" | KDictRem => "dictionary_item_removed"
      | KIterAdd => "iterable_item_added" | KIterRem => "iterable_item_removed"
      | KIterMoved => "iterable_item_moved"
      | KSetAdd => "set_item_added" | KSetRem => "set_item_removed"
      | KRepetition => "repetition_change"
      end).
Definition sx_entry (e : entry) : sx :=
  SL [sx_kind (ekind e); sx_path (ep1 e); sx_path (ep2 e);
      sx_opt sx_value (et1 e); sx_opt sx_value (et2 e); sx_opt sx_str (ediff e)].
Definition sx_tree (r : list entry * list path) : sx :=
  SL [sx_sorted_list sx_entry (fst r); sx_sorted_list sx_path (snd r)].

(* oracles as finite tables supplied by the harness *)
Definition tbl_udiff (t : list (pystr * pystr * pystr)) (a b : pystr) : pystr :=
  match find (fun x => pystr_eqb (fst (fst x)) a && pystr_eqb (snd (fst x)) b) t with
  | Some x => snd x
  | None => []
  end.
Definition tbl_ops (t : list (path * list opcode)) (p : path) (_ _ : list value) : list opcode :=
  match find (fun x => path_eqb (fst x) p) t with
  | Some x => snd x
  | None => []
  end.
Definition tbl_atom (t : list (atom * pystr)) (a : atom) : pystr :=
  match find (fun x => atom_eqb (fst x) a) t with
  | Some x => snd x
  | None => []
  end.
Definition tbl_secs (t : list (Z * pystr)) (us : Z) : pystr :=
  match find (fun x => Z.eqb (fst x) us) t with
  | Some x => snd x
  | None => []
  end.
Definition no_paths (_ : path) : bool := false.

Definition sx_ty (t : ty) : sx :=
  SA (match t with
      | TNone => "NoneType" | TBool => "bool" | TInt => "int" | TFloat => "float"
      | TStr => "str" | TBytes => "bytes" | TList => "list" | TTuple => "tuple"
      | TDict => "dict" | TSet => "set" | TFrozen => "frozenset"
      | TDt => "datetime" | TDate => "date" | TTime => "time" | TTd => "timedelta" | TDec => "Decimal"
      end).
Definition sx_tentry (t : tentry) : sx :=
  match t with
  | TType p a b np vals =>
      SL [SA "type_changes"; sx_str p; sx_ty a; sx_ty b; sx_opt sx_str np;
          sx_opt (fun ab => SL [sx_value (fst ab); sx_value (snd ab)]) vals]
  | TValue p a b np d =>
      SL [SA "values_changed"; sx_str p; sx_value a; sx_value b; sx_opt sx_str np; sx_opt sx_str d]
  | TDictAdd p v => SL [SA "dictionary_item_added"; sx_str p; sx_opt sx_value v]
  | TDictRem p v => SL [SA "dictionary_item_removed"; sx_str p; sx_opt sx_value v]
  | TIterAdd p v => SL [SA "iterable_item_added"; sx_str p; sx_value v]
  | TIterRem p v => SL [SA "iterable_item_removed"; sx_str p; sx_value v]
  | TMoved p np v => SL [SA "iterable_item_moved"; sx_str p; sx_str np; sx_value v]
  | TSetAdd s => SL [SA "set_item_added"; sx_str s]
  | TSetRem s => SL [SA "set_item_removed"; sx_str s]
  end.
Definition sx_text (l : list tentry) : sx := sx_sorted_list sx_tentry l.

(* DeepHash of a set member with the hex hasher (same equality pattern as SHA-256) *)
Definition hatom_x (strs : list (atom * pystr)) (secs : list (Z * pystr)) (a : atom) : pystr :=
  xhash_atom HashModel.hexhash (tbl_atom strs) (tbl_secs secs) a.

(** C02 for numeric numpy arrays (model Diff/NpModel.v).

    np_copy_empty             equal arrays (dtype, shape, elements) give an empty diff
    np_same_shape_is_pointwise  same dtype and shape: the result is exactly the list of
                              positions (multi-indexes, row-major) where the elements differ
    np_fast_path_redundant    np.array_equal is only an optimisation
    np_empty_iff              exact characterisation of the empty result
    np_empty_sound_refuted_empty_shape   zeros((0,3)) vs zeros((0,2)): empty, shapes differ
                              (finding C02-EMPTY-ARRAY-SHAPE)
    np_empty_sound_partial    guarded soundness *)
From Coq Require Import List ZArith NArith Bool Arith Lia.
Import ListNotations.
From DD Require Import Base.PyStr Base.Value Base.ValueFacts Path.PathModel
  Diff.Tree Diff.DiffModel Diff.DiffFacts Diff.DiffEmpty Diff.NpModel.

(* ------------------------------------------------------------------ *)
(** * Generic list facts *)

Lemma flat_map_flat_map {A B C} (f : A -> list B) (g : B -> list C) l :
  flat_map g (flat_map f l) = flat_map (fun x => flat_map g (f x)) l.
Proof. induction l as [|x l IH]; cbn; [reflexivity|]. rewrite flat_map_app, IH. reflexivity. Qed.

Lemma flat_map_map {A B C} (f : A -> B) (g : B -> list C) l :
  flat_map g (map f l) = flat_map (fun x => g (f x)) l.
Proof. induction l as [|x l IH]; cbn; [reflexivity|]. rewrite IH. reflexivity. Qed.

Lemma map_flat_map {A B C} (f : A -> list B) (g : B -> C) l :
  map g (flat_map f l) = flat_map (fun x => map g (f x)) l.
Proof. induction l as [|x l IH]; cbn; [reflexivity|]. rewrite map_app, IH. reflexivity. Qed.

Lemma flat_map_ext_in {A B} (f g : A -> list B) l :
  (forall x, In x l -> f x = g x) -> flat_map f l = flat_map g l.
Proof.
  induction l as [|x l IH]; cbn; intros H; [reflexivity|].
  rewrite (H x (or_introl eq_refl)), IH; [reflexivity|]. intros y Hy. apply H. right. exact Hy.
Qed.

Lemma flat_map_single {A} (l : list A) : flat_map (fun x => [x]) l = l.
Proof. induction l as [|x l IH]; cbn; [reflexivity|]. rewrite IH. reflexivity. Qed.

Lemma combine_map_l {A B C} (f : A -> B) (l : list A) (l' : list C) :
  combine (map f l) l' = map (fun p => (f (fst p), snd p)) (combine l l').
Proof.
  revert l'; induction l as [|x l IH]; intros [|y l']; cbn; try reflexivity. rewrite IH. reflexivity.
Qed.

Lemma combine_map_same {A B C} (f : A -> B) (g : A -> C) (l : list A) :
  combine (map f l) (map g l) = map (fun x => (f x, g x)) l.
Proof. induction l as [|x l IH]; cbn; [reflexivity|]. rewrite IH. reflexivity. Qed.

Lemma combine_app_l {A B} (xs ys : list A) (L : list B) :
  combine (xs ++ ys) L = combine xs (firstn (length xs) L) ++ combine ys (skipn (length xs) L).
Proof.
  revert L; induction xs as [|x xs IH]; intros L; cbn; [reflexivity|].
  destruct L as [|b L]; cbn; [destruct ys; reflexivity|]. rewrite IH. reflexivity.
Qed.

Lemma combine_skipn {A B} n (l : list A) (l' : list B) :
  skipn n (combine l l') = combine (skipn n l) (skipn n l').
Proof.
  revert l l'; induction n as [|n IH]; intros l l'; [reflexivity|].
  destruct l as [|x l]; [reflexivity|]. destruct l' as [|y l']; cbn; [destruct (skipn n l); reflexivity|apply IH].
Qed.

(* ------------------------------------------------------------------ *)
(** * Basic facts of the model *)

Lemma ndtype_eqb_eq a b : ndtype_eqb a b = true <-> a = b.
Proof. destruct a, b; cbn; split; intros H; try reflexivity; discriminate. Qed.
Lemma ndtype_eqb_refl a : ndtype_eqb a a = true.
Proof. destruct a; reflexivity. Qed.

Lemma shape_eqb_eq s t : shape_eqb s t = true <-> s = t.
Proof.
  revert t; induction s as [|x s IH]; intros [|y t]; cbn; split; intros H; try reflexivity; try discriminate.
  - apply andb_true_iff in H as [H1 H2]. apply Nat.eqb_eq in H1. apply IH in H2. subst. reflexivity.
  - inversion H; subst. rewrite Nat.eqb_refl. apply IH. reflexivity.
Qed.
Lemma shape_eqb_refl s : shape_eqb s s = true.
Proof. apply shape_eqb_eq. reflexivity. Qed.

Lemma pw_eq_refl l : pw_eq l l = true.
Proof. induction l as [|x l IH]; cbn; [reflexivity|]. rewrite py_eq_refl. exact IH. Qed.

Lemma pw_eq_length xs ys : pw_eq xs ys = true -> length xs = length ys.
Proof.
  revert ys; induction xs as [|x xs IH]; intros [|y ys]; cbn; intros H; try discriminate; [reflexivity|].
  apply andb_true_iff in H as [_ H]. f_equal. apply IH. exact H.
Qed.

(* elements of one dtype: Python == is identity *)
Lemma dt_ok_py_eq d x y : dt_ok d x = true -> dt_ok d y = true -> py_eq x y = true -> x = y.
Proof.
  intros Hx Hy E. apply py_eq_same_ty; [exact E|].
  destruct d, x; try discriminate Hx; destruct y; try discriminate Hy; reflexivity.
Qed.

Lemma pw_eq_typed d xs ys :
  forallb (dt_ok d) xs = true -> forallb (dt_ok d) ys = true -> pw_eq xs ys = true -> xs = ys.
Proof.
  revert ys; induction xs as [|x xs IH]; intros [|y ys]; cbn; intros Hx Hy H; try discriminate; [reflexivity|].
  apply andb_true_iff in Hx as [Hx Hxs], Hy as [Hy Hys], H as [E H].
  rewrite (dt_ok_py_eq d x y Hx Hy E), (IH ys Hxs Hys H). reflexivity.
Qed.

Lemma nwf_inv a : nwf a = true ->
  shape a <> [] /\ length (data a) = prod (shape a) /\ forallb (dt_ok (dtype a)) (data a) = true.
Proof.
  unfold nwf, size. intros H. apply andb_true_iff in H as [H H3]. apply andb_true_iff in H as [H1 H2].
  apply Nat.eqb_eq in H2. repeat split; try assumption. intros E. rewrite E in H1. discriminate H1.
Qed.

Lemma array_eqb_inv a b : array_eqb a b = true ->
  dtype a = dtype b /\ shape a = shape b /\ pw_eq (data a) (data b) = true.
Proof.
  unfold array_eqb, array_equal. intros H. apply andb_true_iff in H as [H1 H]. apply andb_true_iff in H as [H2 H3].
  apply ndtype_eqb_eq in H1. apply shape_eqb_eq in H2. auto.
Qed.

Lemma array_eqb_refl a : array_eqb a a = true.
Proof. unfold array_eqb, array_equal. rewrite ndtype_eqb_refl, shape_eqb_refl, pw_eq_refl. reflexivity. Qed.

(* for well-formed arrays "equal as arrays" is equality of the three components *)
Lemma array_eqb_eq a b : nwf a = true -> nwf b = true -> array_eqb a b = true -> a = b.
Proof.
  intros Wa Wb H. apply array_eqb_inv in H as (H1 & H2 & H3).
  apply nwf_inv in Wa as (_ & _ & Ta), Wb as (_ & _ & Tb). rewrite <- H1 in Tb.
  pose proof (pw_eq_typed _ _ _ Ta Tb H3) as H4. destruct a, b; cbn in *; subst; reflexivity.
Qed.

(* ------------------------------------------------------------------ *)
(** * mutual_add_removes_to_become_value_changes on array results *)

Lemma npath_eqb_map p q : npath_eqb (map NK p) (map NK q) = path_eqb p q.
Proof.
  revert q; induction p as [|a p IH]; intros [|b q]; cbn; try reflexivity. rewrite IH. reflexivity.
Qed.

Lemma n_last_lift p l :
  n_last_with_path (map NK p) (map lift_entry l) = option_map lift_entry (last_with_path p l).
Proof.
  unfold n_last_with_path, last_with_path.
  change (@None nentry) with (option_map lift_entry None). generalize (@None entry) as acc.
  induction l as [|e l IH]; intros acc; cbn [map fold_left]; [reflexivity|].
  cbn [lift_entry np1]. rewrite npath_eqb_map. destruct (path_eqb (ep1 e) p).
  - apply (IH (Some e)).
  - apply IH.
Qed.

Lemma filter_lift k l :
  filter (n_is_kind k) (map lift_entry l) = map lift_entry (filter (is_kind k) l).
Proof.
  induction l as [|e l IH]; cbn; [reflexivity|].
  change (n_is_kind k (lift_entry e)) with (is_kind k e). destruct (is_kind k e); cbn; rewrite IH; reflexivity.
Qed.

(* in the tolist branch it is the base model's pass *)
Lemma np_mutual_lift es : np_mutual (map lift_entry es) = map lift_entry (mutual es).
Proof.
  unfold np_mutual, mutual. rewrite !filter_lift.
  generalize (filter (is_kind KIterAdd) es) as A, (filter (is_kind KIterRem) es) as R. intros A R.
  rewrite flat_map_map, map_flat_map. apply flat_map_ext. intros e.
  cbn [lift_entry nkind np1]. destruct (ekind e); try reflexivity.
  - rewrite n_last_lift. destruct (last_with_path (ep1 e) R); reflexivity.
  - rewrite !n_last_lift. destruct (last_with_path (ep1 e) A) as [a|]; [|reflexivity].
    destruct (last_with_path (ep1 e) R); reflexivity.
Qed.

(* without added / removed items it does nothing *)
Definition no_add_rem (e : nentry) : Prop := nkind e <> KIterAdd /\ nkind e <> KIterRem.
Lemma np_mutual_id es : Forall no_add_rem es -> np_mutual es = es.
Proof.
  unfold np_mutual.
  generalize (filter (n_is_kind KIterAdd) es) as A, (filter (n_is_kind KIterRem) es) as R. intros A R H.
  rewrite <- (flat_map_single es) at 2. apply flat_map_ext_in. intros e He.
  eapply Forall_forall in H; [|exact He]. destruct H as [H1 H2].
  destruct (nkind e); try reflexivity; [exfalso; apply H1; reflexivity|exfalso; apply H2; reflexivity].
Qed.

Lemma run_diff_fst hatom udiff ops skip excl c t1 t2 :
  fst (run_diff hatom udiff ops skip excl c t1 t2) = mutual (fst (diff hatom udiff ops skip excl c t1 t2 [] [])).
Proof. unfold run_diff. destruct (diff _ _ _ _ _ _ _ _ _ _). reflexivity. Qed.

(* ------------------------------------------------------------------ *)
(** * Copy clause *)

Section CopyClause.
Variable ops : path -> list value -> list value -> list opcode.
Variable zip : bool.

Theorem np_copy_empty_eq a b : array_eqb a b = true -> np_run_diff ops zip a b = [].
Proof.
  intros H. unfold np_run_diff, np_diff. unfold array_eqb in H. apply andb_true_iff in H as [H1 H2].
  rewrite H1, H2. reflexivity.
Qed.

Theorem np_copy_empty a : np_run_diff ops zip a a = [].
Proof. apply np_copy_empty_eq. apply array_eqb_refl. Qed.
End CopyClause.

(* ------------------------------------------------------------------ *)
(** * Rows: cartesian_product_of_shape enumerates the multi-indexes in row-major order *)

(* all multi-indexes of a shape, lexicographic *)
Fixpoint indices (sh : list nat) : list (list nat) :=
  match sh with
  | [] => [[]]
  | n :: r => flat_map (fun i => map (cons i) (indices r)) (seq 0 n)
  end.

Lemma cart_gen dims : forall res,
  fold_left cart_step dims res = flat_map (fun t => map (app t) (indices dims)) res.
Proof.
  induction dims as [|d r IH]; intros res.
  - cbn. induction res as [|t res IHr]; cbn; [reflexivity|]. rewrite app_nil_r, <- IHr. reflexivity.
  - cbn [fold_left]. rewrite IH. unfold cart_step. rewrite flat_map_flat_map. apply flat_map_ext. intros t.
    rewrite flat_map_map. cbn [indices]. rewrite map_flat_map. apply flat_map_ext. intros j.
    rewrite map_map. apply map_ext. intros x. rewrite <- app_assoc. reflexivity.
Qed.

Lemma cart_indices dims : cart dims = indices dims.
Proof.
  unfold cart. rewrite cart_gen. cbn. rewrite app_nil_r. rewrite <- (map_id (indices dims)) at 2.
  apply map_ext. reflexivity.
Qed.

Lemma indices_length sh : forall idx, In idx (indices sh) -> length idx = length sh.
Proof.
  induction sh as [|n r IH]; intros idx H; cbn in H.
  - destruct H as [<-|[]]. reflexivity.
  - apply in_flat_map in H as (i & _ & H). apply in_map_iff in H as (t & <- & Ht). cbn. f_equal. apply IH. exact Ht.
Qed.

Lemma indices_count sh : length (indices sh) = prod sh.
Proof.
  induction sh as [|n r IH]; [reflexivity|]. cbn [indices prod fold_right].
  change (fold_right Nat.mul 1 r) with (prod r). rewrite <- IH. generalize 0 as s.
  induction n as [|n IHn]; intros s; cbn; [reflexivity|]. rewrite app_length, map_length, IHn. reflexivity.
Qed.

Lemma indices_1 k s : flat_map (fun i => map (cons i) [[]]) (seq s k) = map (fun i => [i]) (seq s k).
Proof. revert s; induction k as [|k IH]; intros s; cbn; [reflexivity|]. rewrite IH. reflexivity. Qed.

Lemma prod_cons x s : prod (x :: s) = x * prod s.
Proof. reflexivity. Qed.
Lemma prod_app s t : prod (s ++ t) = prod s * prod t.
Proof.
  induction s as [|x s IH]; [change (prod t = 1 * prod t); lia|].
  rewrite <- app_comm_cons, !prod_cons, IH. apply Nat.mul_assoc.
Qed.

(* ------------------------------------------------------------------ *)
(** * The same-shape branch is the pointwise comparison *)

(* the path of a multi-index: a plain index for a 1-d array, else the tuple of the
   leading indexes followed by the last index *)
Definition tpath (idx : list nat) : npath := [NTup (removelast idx); NK (PIdx (last idx 0))].
Definition idx_path (idx : list nat) : npath :=
  match idx with
  | [] => []
  | [i] => [NK (PIdx i)]
  | _ => tpath idx
  end.

(* the obvious specification: zip the elements with their multi-indexes, keep the
   positions where Python's == fails *)
Definition np_spec (a b : narr) : list nentry :=
  flat_map (fun c =>
              if py_eq (fst (snd c)) (snd (snd c)) then []
              else [mkN KValue (idx_path (fst c)) (idx_path (fst c))
                        (Some (LNp (dtype a) (fst (snd c)))) (Some (LNp (dtype a) (snd (snd c))))])
           (combine (indices (shape a)) (combine (data a) (data b))).

Lemma np_pairs_spec d xs : forall ys i p1 p2, length xs = length ys ->
  np_pairs d xs ys i p1 p2 =
  flat_map (fun c => np_leaf d (fst (snd c)) (snd (snd c)) (nsnoc p1 (fst c)) (nsnoc p2 (fst c)))
           (combine (seq i (length xs)) (combine xs ys)).
Proof.
  induction xs as [|x xs IH]; intros [|y ys] i p1 p2 L; cbn in L; try discriminate; [reflexivity|].
  cbn [np_pairs length seq combine flat_map fst snd]. rewrite IH by lia. reflexivity.
Qed.

Lemma combine_blocks {A B} (f : nat -> list A) m n : forall s (L : list B),
  (forall i, length (f i) = m) ->
  combine (flat_map f (seq s n)) L =
  flat_map (fun i => combine (f i) (firstn m (skipn ((i - s) * m) L))) (seq s n).
Proof.
  induction n as [|n IH]; intros s L Hf; [reflexivity|].
  cbn [seq flat_map]. rewrite combine_app_l, Hf. rewrite Nat.sub_diag. cbn [Nat.mul skipn]. f_equal.
  rewrite (IH (S s) (skipn m L) Hf). apply flat_map_ext_in. intros i Hi. apply in_seq in Hi.
  rewrite <- skipn_add. do 3 f_equal. replace (i - s) with (S (i - S s)) by lia. cbn. lia.
Qed.

Section Rows.
Variable d : ndtype.

Definition cmpP (pre : list nat) (c : list nat * (atom * atom)) : list nentry :=
  np_leaf d (fst (snd c)) (snd (snd c)) (tpath (pre ++ fst c)) (tpath (pre ++ fst c)).

Lemma blk_length (l : list atom) i n m : length l = n * m -> i < n -> length (firstn m (skipn (i * m) l)) = m.
Proof. intros L Hi. rewrite firstn_length, skipn_length. nia. Qed.

Lemma rows_spec lead k : forall pre la lb,
  length la = prod lead * k -> length lb = prod lead * k ->
  flat_map (fun t => np_pairs d (getrow (lead ++ [k]) la t) (getrow (lead ++ [k]) lb t) 0
                              [NTup (pre ++ t)] [NTup (pre ++ t)]) (indices lead)
  = flat_map (cmpP pre) (combine (indices (lead ++ [k])) (combine la lb)).
Proof.
  induction lead as [|n r IH]; intros pre la lb La Lb.
  - cbn [indices flat_map getrow app]. rewrite !app_nil_r.
    cbn in La, Lb. rewrite np_pairs_spec by lia.
    rewrite indices_1.
    rewrite combine_map_l, flat_map_map. replace (length la) with k by lia.
    apply flat_map_ext. intros [j [x y]]. unfold cmpP, tpath. cbn [fst snd].
    rewrite removelast_last, last_last. reflexivity.
  - cbn [indices app]. rewrite flat_map_flat_map.
    set (m := prod (r ++ [k])).
    assert (Hm : m = prod r * k) by (unfold m; rewrite prod_app; cbn; lia).
    assert (La' : length la = n * m) by (rewrite La, Hm; cbn; change (fold_right Nat.mul 1 r) with (prod r); lia).
    assert (Lb' : length lb = n * m) by (rewrite Lb, Hm; cbn; change (fold_right Nat.mul 1 r) with (prod r); lia).
    rewrite (combine_blocks (fun i => map (cons i) (indices (r ++ [k]))) m n 0 (combine la lb))
      by (intros i; rewrite map_length, indices_count; reflexivity).
    rewrite flat_map_flat_map. apply flat_map_ext_in. intros i Hi. apply in_seq in Hi.
    rewrite flat_map_map. rewrite Nat.sub_0_r.
    rewrite combine_skipn, combine_firstn, combine_map_l, flat_map_map.
    transitivity (flat_map (cmpP (pre ++ [i])) (combine (indices (r ++ [k]))
                    (combine (firstn m (skipn (i * m) la)) (firstn m (skipn (i * m) lb))))).
    + rewrite <- IH by (rewrite <- Hm; apply (blk_length _ i n m); [assumption|lia]).
      apply flat_map_ext. intros t. cbn [getrow tl]. fold m. rewrite <- app_assoc. reflexivity.
    + apply flat_map_ext. intros [idx xy]. unfold cmpP. cbn [fst snd]. rewrite <- app_assoc. reflexivity.
Qed.
End Rows.

Lemma removelast_cons2 {A} (x y : A) l : removelast (x :: y :: l) = x :: removelast (y :: l).
Proof. reflexivity. Qed.

Theorem same_shape_spec a b :
  nwf a = true -> nwf b = true -> shape a = shape b -> np_same_shape a b = np_spec a b.
Proof.
  intros Wa Wb S. apply nwf_inv in Wa as (Na & La & _), Wb as (_ & Lb & _). rewrite <- S in Lb.
  unfold np_same_shape, np_spec. destruct (shape a) as [|n1 [|n2 r]] eqn:Sh; [congruence| |].
  - (* 1-d *)
    cbn in La, Lb. rewrite np_pairs_spec by lia. cbn [indices].
    rewrite indices_1.
    rewrite combine_map_l, flat_map_map. replace (length (data a)) with n1 by lia.
    apply flat_map_ext. intros [j [x y]]. reflexivity.
  - (* >= 2-d *)
    assert (E : n1 :: n2 :: r = removelast (n1 :: n2 :: r) ++ [last (n1 :: n2 :: r) 0])
      by (apply app_removelast_last; discriminate).
    set (lead := removelast (n1 :: n2 :: r)) in *. set (k := last (n1 :: n2 :: r) 0) in *.
    unfold rows. rewrite <- S, Sh. fold lead. rewrite combine_map_same, flat_map_map. cbn [fst snd].
    rewrite cart_indices. rewrite E.
    assert (Lp : prod (lead ++ [k]) = prod lead * k) by (rewrite prod_app; cbn; lia).
    rewrite E, Lp in La, Lb.
    pose proof (rows_spec (dtype a) lead k [] (data a) (data b) La Lb) as R. cbn [app] in R. rewrite R.
    apply flat_map_ext_in. intros [idx [x y]] Hin. apply in_combine_l in Hin.
    apply indices_length in Hin. rewrite <- E in Hin. cbn in Hin.
    unfold cmpP, np_leaf. cbn [fst snd app].
    destruct idx as [|i1 [|i2 idx]]; try (cbn in Hin; discriminate). reflexivity.
Qed.

Lemma np_spec_no_add_rem a b : Forall no_add_rem (np_spec a b).
Proof.
  unfold np_spec. apply Forall_forall. intros e He. apply in_flat_map in He as (c & _ & He).
  destruct (py_eq _ _); [destruct He|]. destruct He as [<-|[]]. split; discriminate.
Qed.

Lemma np_spec_nil a b : length (data a) = prod (shape a) -> length (data b) = prod (shape a) ->
  (np_spec a b = [] <-> pw_eq (data a) (data b) = true).
Proof.
  unfold np_spec. intros La Lb. rewrite <- (indices_count (shape a)) in La, Lb.
  revert La Lb. generalize (indices (shape a)) as I, (data a) as xs, (data b) as ys.
  induction I as [|i I IH]; intros [|x xs] [|y ys] La Lb; cbn in La, Lb; try discriminate; [split; reflexivity|].
  cbn [combine flat_map fst snd pw_eq]. destruct (py_eq x y); cbn [andb app].
  - apply IH; lia.
  - split; discriminate.
Qed.

Section Pointwise.
Variable ops : path -> list value -> list value -> list opcode.
Variable zip : bool.

(* same dtype and shape: the reported levels are exactly the positions where the elements differ *)
Theorem np_same_shape_is_pointwise a b :
  nwf a = true -> nwf b = true -> dtype a = dtype b -> shape a = shape b ->
  np_run_diff ops zip a b = np_spec a b.
Proof.
  intros Wa Wb Dt S. unfold np_run_diff, np_diff. rewrite Dt, ndtype_eqb_refl. cbn [negb].
  pose proof (nwf_inv a Wa) as (_ & La & _). pose proof (nwf_inv b Wb) as (_ & Lb & _). rewrite <- S in Lb.
  unfold array_equal. rewrite S, shape_eqb_refl. cbn [andb negb].
  destruct (pw_eq (data a) (data b)) eqn:E.
  - symmetry. apply (np_spec_nil a b La Lb). exact E.
  - rewrite (same_shape_spec a b Wa Wb S). apply np_mutual_id. apply np_spec_no_add_rem.
Qed.

(* np.array_equal is only an optimisation *)
Theorem np_fast_path_redundant a b :
  nwf a = true -> nwf b = true -> np_diff_slow ops zip a b = np_diff ops zip a b.
Proof.
  intros Wa Wb. unfold np_diff_slow, np_diff. destruct (negb (ndtype_eqb (dtype a) (dtype b))); [reflexivity|].
  unfold array_equal. destruct (shape_eqb (shape a) (shape b)) eqn:S; [|reflexivity]. cbn [andb negb].
  destruct (pw_eq (data a) (data b)) eqn:E; [|reflexivity].
  apply shape_eqb_eq in S. rewrite (same_shape_spec a b Wa Wb S).
  pose proof (nwf_inv a Wa) as (_ & La & _). pose proof (nwf_inv b Wb) as (_ & Lb & _). rewrite <- S in Lb.
  apply (np_spec_nil a b La Lb). exact E.
Qed.

(* in the same-shape branch mutual_add_removes_to_become_value_changes cannot fire *)
Theorem np_mutual_same_shape_id a b :
  nwf a = true -> nwf b = true -> shape a = shape b -> np_mutual (np_same_shape a b) = np_same_shape a b.
Proof.
  intros Wa Wb S. rewrite (same_shape_spec a b Wa Wb S). apply np_mutual_id. apply np_spec_no_add_rem.
Qed.
End Pointwise.

(* ------------------------------------------------------------------ *)
(** * tolist: nested lists of scalars of one type; shape and elements can be read back
      up to the first zero-length axis *)

Fixpoint typed (d : ndtype) (v : value) : bool :=
  match v with
  | VAtom x => dt_ok d x
  | VList xs => forallb (typed d) xs
  | _ => false
  end.

Lemma chunks_length {A} k n : forall (l : list A), length (chunks k n l) = n.
Proof. induction n as [|n IH]; intros l; cbn; [reflexivity|]. rewrite IH. reflexivity. Qed.

Lemma chunks_len {A} k n : forall (l : list A), length l = n * k ->
  Forall (fun c => length c = k) (chunks k n l).
Proof.
  induction n as [|n IH]; intros l L; cbn; constructor.
  - rewrite firstn_length. lia.
  - apply IH. rewrite skipn_length. lia.
Qed.

Lemma chunks_forallb {A} (P : A -> bool) k n : forall l, forallb P l = true ->
  Forall (fun c => forallb P c = true) (chunks k n l).
Proof.
  induction n as [|n IH]; intros l F; cbn; constructor.
  - apply forallb_firstn. exact F.
  - apply IH. apply forallb_skipn. exact F.
Qed.

Lemma chunks_concat {A} k n : forall (l : list A), length l = n * k -> concat (chunks k n l) = l.
Proof.
  induction n as [|n IH]; intros l L; cbn.
  - destruct l; [reflexivity|discriminate L].
  - rewrite IH by (rewrite skipn_length; lia). apply firstn_skipn.
Qed.

Lemma typed_tolist d sh : forall l, length l = prod sh -> forallb (dt_ok d) l = true ->
  typed d (tolist_sh sh l) = true.
Proof.
  induction sh as [|n r IH]; intros l L F.
  - cbn in L. destruct l as [|x [|y l]]; try discriminate L. cbn in F |- *. apply andb_true_iff in F as [F _]. exact F.
  - cbn [tolist_sh typed]. apply forallb_forall. intros v Hv. apply in_map_iff in Hv as (c & <- & Hc).
    rewrite prod_cons in L.
    pose proof (chunks_len (prod r) n l L) as H1. pose proof (chunks_forallb (dt_ok d) (prod r) n l F) as H2.
    eapply Forall_forall in H1; [|exact Hc]. eapply Forall_forall in H2; [|exact Hc]. apply IH; assumption.
Qed.

(* on values of one scalar type Python's == is identity *)
Lemma typed_eq d : forall v1 v2, typed d v1 = true -> typed d v2 = true -> py_eqv v1 v2 = true -> v1 = v2.
Proof.
  induction v1 as [x|xs IH|xs IH|kvs IH|xs|xs] using value_ind'; intros v2 T1 T2 E; try discriminate T1.
  - destruct v2 as [y| | | | |]; try discriminate E. cbn in T1, T2, E. f_equal. eapply dt_ok_py_eq; eassumption.
  - destruct v2 as [|ys| | | |]; try discriminate E. rewrite py_eqv_list in E. cbn [typed] in T1, T2. f_equal.
    revert ys T1 T2 E. induction IH as [|x xs Hx _ IHxs]; intros [|y ys] T1 T2 E; cbn in E; try discriminate E; [reflexivity|].
    cbn in T1, T2. apply andb_true_iff in T1 as [Tx T1], T2 as [Ty T2], E as [Exy E].
    f_equal; [apply Hx; assumption|apply IHxs; assumption].
Qed.

Lemma py_eqv_refl_typed d : forall v, typed d v = true -> py_eqv v v = true.
Proof.
  induction v as [x|xs IH|xs IH|kvs IH|xs|xs] using value_ind'; intros T; try discriminate T.
  - apply py_eq_refl.
  - rewrite py_eqv_list. cbn [typed] in T. induction IH as [|x xs Hx _ IHxs]; [reflexivity|].
    cbn in T |- *. apply andb_true_iff in T as [Tx T]. rewrite (Hx Tx), (IHxs T). reflexivity.
Qed.

(* no dict, no set: the input guards of the base theorems hold trivially *)
Lemma typed_guards d keep ok : forall v, typed d v = true -> wf v = true /\ inputs_ok keep ok v = true.
Proof.
  induction v as [x|xs IH|xs IH|kvs IH|xs|xs] using value_ind'; intros T; try discriminate T.
  - split; reflexivity.
  - cbn [typed] in T. cbn [wf inputs_ok]. split; apply forallb_forall; intros v Hv;
      (eapply Forall_forall in IH; [|exact Hv]); (eapply forallb_forall in T; [|exact Hv]); apply IH; exact T.
Qed.

Fixpoint leaves (v : value) : list atom :=
  match v with
  | VAtom x => [x]
  | VList xs => flat_map leaves xs
  | _ => []
  end.

Lemma leaves_tolist sh : forall l, length l = prod sh -> leaves (tolist_sh sh l) = l.
Proof.
  induction sh as [|n r IH]; intros l L.
  - cbn in L. destruct l as [|x [|y l]]; try discriminate L. reflexivity.
  - cbn [tolist_sh leaves]. rewrite prod_cons in L. rewrite flat_map_map.
    rewrite (flat_map_ext_in _ (fun c => c)).
    + rewrite flat_map_concat_map, map_id. apply chunks_concat. exact L.
    + intros c Hc. apply IH. pose proof (chunks_len (prod r) n l L) as H. eapply Forall_forall in H; eassumption.
Qed.

(* the shape as far as the nested lists show it *)
Fixpoint shape_of (v : value) : list nat :=
  match v with
  | VList xs => length xs :: match xs with [] => [] | x :: _ => shape_of x end
  | _ => []
  end.
(* the shape up to and including its first zero-length axis *)
Fixpoint upto0 (sh : list nat) : list nat :=
  match sh with
  | [] => []
  | O :: _ => [0]
  | n :: r => n :: upto0 r
  end.

Lemma shape_of_tolist sh : forall l, length l = prod sh -> shape_of (tolist_sh sh l) = upto0 sh.
Proof.
  induction sh as [|n r IH]; intros l L; [reflexivity|].
  cbn [tolist_sh shape_of]. rewrite map_length, chunks_length. rewrite prod_cons in L.
  destruct n as [|n]; [reflexivity|]. cbn [chunks map upto0]. rewrite IH; [reflexivity|].
  rewrite firstn_length. lia.
Qed.

Lemma prod_upto0 sh : prod (upto0 sh) = prod sh.
Proof.
  induction sh as [|n r IH]; [reflexivity|]. destruct n as [|n]; [reflexivity|].
  cbn [upto0]. rewrite !prod_cons, IH. reflexivity.
Qed.

Lemma upto0_nonzero sh : prod sh <> 0 -> upto0 sh = sh.
Proof.
  induction sh as [|n r IH]; intros H; [reflexivity|]. rewrite prod_cons in H.
  destruct n as [|n]; [exfalso; apply H; reflexivity|]. cbn [upto0]. f_equal. apply IH. nia.
Qed.

Lemma tolist_upto0 sh : forall l, length l = prod sh -> tolist_sh (upto0 sh) l = tolist_sh sh l.
Proof.
  induction sh as [|n r IH]; intros l L; [reflexivity|]. rewrite prod_cons in L.
  destruct n as [|n]; [reflexivity|]. cbn [upto0 tolist_sh]. rewrite prod_upto0. f_equal.
  apply map_ext_in. intros c Hc. apply IH.
  pose proof (chunks_len (prod r) (S n) l L) as H. eapply Forall_forall in H; eassumption.
Qed.

Lemma tolist_inj sh sh' l l' : length l = prod sh -> length l' = prod sh' ->
  tolist_sh sh l = tolist_sh sh' l' -> l = l' /\ upto0 sh = upto0 sh'.
Proof.
  intros L L' E. split.
  - rewrite <- (leaves_tolist sh l L), <- (leaves_tolist sh' l' L'), E. reflexivity.
  - rewrite <- (shape_of_tolist sh l L), <- (shape_of_tolist sh' l' L'), E. reflexivity.
Qed.

Lemma nwf_typed a : nwf a = true -> typed (dtype a) (tolist a) = true.
Proof. intros W. apply nwf_inv in W as (_ & L & T). apply typed_tolist; assumption. Qed.

(* Python == of the nested lists of two arrays of one dtype *)
Lemma tolist_eqv_iff a b : nwf a = true -> nwf b = true -> dtype a = dtype b ->
  (py_eqv (tolist a) (tolist b) = true <-> data a = data b /\ upto0 (shape a) = upto0 (shape b)).
Proof.
  intros Wa Wb D. pose proof (nwf_typed a Wa) as Ta. pose proof (nwf_typed b Wb) as Tb. rewrite <- D in Tb.
  apply nwf_inv in Wa as (_ & La & _), Wb as (_ & Lb & _). split.
  - intros E. apply (typed_eq _ _ _ Ta Tb) in E. apply (tolist_inj _ _ _ _ La Lb E).
  - intros [E1 E2]. unfold tolist in *.
    rewrite <- (tolist_upto0 (shape b)) in * by exact Lb. rewrite <- (tolist_upto0 (shape a)) in * by exact La.
    rewrite <- E1, <- E2 in *. eapply py_eqv_refl_typed. exact Ta.
Qed.

(* two arrays of different shapes have ==-equal nested lists only when neither has an element *)
Theorem tolist_eqv_shapes a b : nwf a = true -> nwf b = true -> dtype a = dtype b ->
  py_eqv (tolist a) (tolist b) = true -> shape a <> shape b ->
  size a = 0 /\ size b = 0 /\ upto0 (shape a) = upto0 (shape b).
Proof.
  intros Wa Wb D E S. apply (tolist_eqv_iff a b Wa Wb D) in E as [E1 E2].
  apply nwf_inv in Wa as (_ & La & _), Wb as (_ & Lb & _). unfold size.
  assert (P : prod (shape a) = prod (shape b)) by (rewrite <- La, <- Lb, E1; reflexivity).
  destruct (Nat.eq_dec (prod (shape a)) 0) as [Z|NZ]; [repeat split; congruence|].
  exfalso. apply S. rewrite <- (upto0_nonzero (shape a) NZ), E2. apply upto0_nonzero. congruence.
Qed.

(* ------------------------------------------------------------------ *)
(** * The exact characterisation of the empty result *)

Section Char.
Variable ops : path -> list value -> list value -> list opcode.
Variable zip : bool.
Hypothesis Hvalid : valid_ops ops.

Lemma tolist_branch_nil a b : nwf a = true -> nwf b = true -> dtype a = dtype b ->
  (np_mutual (map lift_entry (base_diff ops zip (tolist a) (tolist b))) = [] <->
   py_eqv (tolist a) (tolist b) = true).
Proof.
  intros Wa Wb D. pose proof (nwf_typed a Wa) as Ta. pose proof (nwf_typed b Wb) as Tb. rewrite <- D in Tb.
  rewrite np_mutual_lift. unfold base_diff. rewrite <- run_diff_fst. split.
  - intros H. apply map_eq_nil in H.
    destruct (typed_guards (dtype a) (keep_key (np_cfg zip)) (fun _ => false) _ Ta) as [W1 K1].
    destruct (typed_guards (dtype a) (keep_key (np_cfg zip)) (fun _ => false) _ Tb) as [W2 K2].
    eapply (run_empty_sound no_hash no_udiff ops no_path (np_cfg zip) (fun _ => false)); try eassumption.
    intros x y Hx. discriminate Hx.
  - intros E. apply (typed_eq _ _ _ Ta Tb) in E. rewrite <- E.
    destruct (typed_guards (dtype a) (keep_key (np_cfg zip)) (fun _ => false) _ Ta) as [W1 _].
    rewrite (run_copy_empty no_hash no_udiff ops no_path (np_cfg zip)); [reflexivity| |apply valid_ops_tiling; exact Hvalid|exact W1].
    cbn. lia.
Qed.

Theorem np_empty_iff a b : nwf a = true -> nwf b = true ->
  (np_run_diff ops zip a b = [] <->
   dtype a = dtype b /\
   (array_eqb a b = true \/ (shape a <> shape b /\ py_eqv (tolist a) (tolist b) = true))).
Proof.
  intros Wa Wb. unfold np_run_diff, np_diff, array_eqb.
  destruct (ndtype_eqb (dtype a) (dtype b)) eqn:D; cbn [negb andb].
  - pose proof (proj1 (ndtype_eqb_eq _ _) D) as De.
    destruct (array_equal a b) eqn:AE.
    + split; [intros _; split; [exact De|left; reflexivity]|reflexivity].
    + destruct (shape_eqb (shape a) (shape b)) eqn:S; cbn [negb].
      * apply shape_eqb_eq in S. rewrite (np_mutual_same_shape_id a b Wa Wb S), (same_shape_spec a b Wa Wb S).
        pose proof (nwf_inv a Wa) as (_ & La & _). pose proof (nwf_inv b Wb) as (_ & Lb & _). rewrite <- S in Lb.
        unfold array_equal in AE. rewrite S, shape_eqb_refl in AE. cbn [andb] in AE.
        split.
        -- intros H. apply (np_spec_nil a b La Lb) in H. congruence.
        -- intros [_ [H|[H _]]]; [discriminate H|exfalso; apply H; exact S].
      * rewrite (tolist_branch_nil a b Wa Wb De). split.
        -- intros H. split; [exact De|right]. split; [|exact H]. intros E. rewrite E, shape_eqb_refl in S. discriminate S.
        -- intros [_ [H|[_ H]]]; [discriminate H|exact H].
  - split.
    + intros H. rewrite np_mutual_id in H by (repeat constructor; discriminate). discriminate H.
    + intros [H _]. apply ndtype_eqb_eq in H. congruence.
Qed.

(* the same in terms of shapes and elements: the shapes need only agree up to and including
   the first zero-length axis *)
Theorem np_empty_iff_shape a b : nwf a = true -> nwf b = true ->
  (np_run_diff ops zip a b = [] <->
   dtype a = dtype b /\ upto0 (shape a) = upto0 (shape b) /\ data a = data b).
Proof.
  intros Wa Wb. rewrite (np_empty_iff a b Wa Wb). split.
  - intros [D [H|[S E]]].
    + rewrite (array_eqb_eq a b Wa Wb H). repeat split; reflexivity.
    + apply (tolist_eqv_iff a b Wa Wb D) in E as [E1 E2]. repeat split; assumption.
  - intros (D & U & E). split; [exact D|].
    destruct (shape_eqb (shape a) (shape b)) eqn:S.
    + left. unfold array_eqb, array_equal. rewrite D, ndtype_eqb_refl, S, E, pw_eq_refl. reflexivity.
    + right. split; [intros Es; rewrite Es, shape_eqb_refl in S; discriminate S|].
      apply (tolist_eqv_iff a b Wa Wb D). split; assumption.
Qed.

(* guarded soundness: an array with an element, or equal shapes *)
Theorem np_empty_sound_partial a b : nwf a = true -> nwf b = true ->
  size a <> 0 \/ size b <> 0 \/ shape a = shape b ->
  np_run_diff ops zip a b = [] -> array_eqb a b = true.
Proof.
  intros Wa Wb G H. apply (np_empty_iff a b Wa Wb) in H as [D [H|[S E]]]; [exact H|].
  destruct (tolist_eqv_shapes a b Wa Wb D E S) as (Za & Zb & _).
  destruct G as [G|[G|G]]; contradiction.
Qed.

(* ... and then the arrays are the same array *)
Corollary np_empty_sound_partial_eq a b : nwf a = true -> nwf b = true ->
  size a <> 0 \/ size b <> 0 \/ shape a = shape b ->
  np_run_diff ops zip a b = [] -> a = b.
Proof. intros Wa Wb G H. apply (array_eqb_eq a b Wa Wb). apply (np_empty_sound_partial a b Wa Wb G H). Qed.

End Char.

(* ------------------------------------------------------------------ *)
(** * Witnesses *)

(* finding C02-EMPTY-ARRAY-SHAPE: DeepDiff(np.zeros((0,3)), np.zeros((0,2))) == {} and
   DeepDiff(np.zeros((0,)), np.zeros((0,1))) == {} although the shapes differ *)
Definition z03 : narr := mkArr DFloat64 [0; 3] [].
Definition z02 : narr := mkArr DFloat64 [0; 2] [].
Definition z0 : narr := mkArr DFloat64 [0] [].
Definition z01 : narr := mkArr DFloat64 [0; 1] [].

Theorem np_empty_sound_refuted_empty_shape :
  nwf z03 = true /\ nwf z02 = true /\ nwf z0 = true /\ nwf z01 = true /\
  (forall zip, np_run_diff one_block zip z03 z02 = []) /\
  (forall zip, np_run_diff one_block zip z0 z01 = []) /\
  shape z03 <> shape z02 /\ shape z0 <> shape z01 /\
  array_eqb z03 z02 = false /\ array_eqb z0 z01 = false.
Proof.
  repeat split; try (vm_compute; reflexivity); try discriminate; intros [|]; vm_compute; reflexivity.
Qed.

(* for every valid opcode oracle, from the characterisation *)
Theorem np_empty_sound_refuted_empty_shape_all ops zip : valid_ops ops ->
  np_run_diff ops zip z03 z02 = [] /\ np_run_diff ops zip z0 z01 = [] /\
  shape z03 <> shape z02 /\ shape z0 <> shape z01.
Proof.
  intros V. repeat split; try discriminate.
  - apply (np_empty_iff_shape ops zip V); try reflexivity. repeat split; reflexivity.
  - apply (np_empty_iff_shape ops zip V); try reflexivity. repeat split; reflexivity.
Qed.

(* non-vacuity of the guards *)
Definition ex_a : narr := mkArr DInt64 [2; 3] [AInt 1; AInt 2; AInt 3; AInt 4; AInt 5; AInt 6].
Definition ex_b : narr := mkArr DInt64 [2; 3] [AInt 1; AInt 2; AInt 3; AInt 4; AInt 9; AInt 6].
Definition ex_c : narr := mkArr DInt64 [3; 2] [AInt 1; AInt 2; AInt 3; AInt 4; AInt 5; AInt 6].
Example np_guards_satisfiable :
  valid_ops one_block /\ nwf ex_a = true /\ nwf ex_b = true /\ nwf ex_c = true /\
  (size ex_a <> 0 \/ size ex_b <> 0 \/ shape ex_a = shape ex_b) /\
  (* one element changed: exactly one level, at root[1][1] = [(1,), 1] *)
  np_run_diff one_block false ex_a ex_b =
    [mkN KValue [NTup [1]; NK (PIdx 1)] [NTup [1]; NK (PIdx 1)] (Some (LNp DInt64 (AInt 5))) (Some (LNp DInt64 (AInt 9)))] /\
  (* same elements, another shape: not empty *)
  np_run_diff one_block false ex_a ex_c <> [] /\
  (* the second disjunct of np_empty_iff is inhabited *)
  (shape z03 <> shape z02 /\ py_eqv (tolist z03) (tolist z02) = true).
Proof.
  split; [exact one_block_valid|]. repeat split; try (vm_compute; reflexivity); try discriminate.
  left. discriminate.
Qed.

(* in the tolist branch mutual_add_removes_to_become_value_changes can fire:
   DeepDiff(np.array([7,8,1,2,3,4]), np.array([1,9,2,3,4]), verbose_level=2) ==
   {'values_changed': {'root[1]': {'new_value': 9, 'old_value': 8}}, 'iterable_item_removed': {'root[0]': 7}}
   (difflib: delete 0:2, equal, insert 1:2 of t2, equal; root[1] is removed and added) *)
Definition mf_a : narr := mkArr DInt64 [6] [AInt 7; AInt 8; AInt 1; AInt 2; AInt 3; AInt 4].
Definition mf_b : narr := mkArr DInt64 [5] [AInt 1; AInt 9; AInt 2; AInt 3; AInt 4].
Definition mf_ops (_ : path) (_ _ : list value) : list opcode :=
  [mkOp ODelete 0 2 0 0; mkOp OEqual 2 3 0 1; mkOp OInsert 3 3 1 2; mkOp OEqual 3 6 2 5].
Example np_mutual_fires_in_tolist_branch :
  valid_opcodes (mf_ops [] [] []) (match tolist mf_a with VList l => l | _ => [] end)
                                   (match tolist mf_b with VList l => l | _ => [] end) = true /\
  np_diff mf_ops false mf_a mf_b =
    [mkN KIterRem [NK (PIdx 0)] [NK (PIdx 0)] (Some (LPy (VAtom (AInt 7)))) None;
     mkN KIterRem [NK (PIdx 1)] [NK (PIdx 1)] (Some (LPy (VAtom (AInt 8)))) None;
     mkN KIterAdd [NK (PIdx 1)] [NK (PIdx 1)] None (Some (LPy (VAtom (AInt 9))))] /\
  np_run_diff mf_ops false mf_a mf_b =
    [mkN KIterRem [NK (PIdx 0)] [NK (PIdx 0)] (Some (LPy (VAtom (AInt 7)))) None;
     mkN KValue [NK (PIdx 1)] [NK (PIdx 1)] (Some (LPy (VAtom (AInt 8)))) (Some (LPy (VAtom (AInt 9))))].
Proof. repeat split; vm_compute; reflexivity. Qed.

(* ------------------------------------------------------------------ *)
(** * Text view *)

Example indices_example : indices [2; 3] = [[0; 0]; [0; 1]; [0; 2]; [1; 0]; [1; 1]; [1; 2]].
Proof. reflexivity. Qed.

Lemma unpath_lift p : unpath (map NK p) = Some p.
Proof. induction p as [|k p IH]; cbn; [reflexivity|]. rewrite IH. reflexivity. Qed.

(* in the tolist branch the text view is the base model's text view *)
Lemma np_text_of_lift v e :
  np_text_of v (lift_entry e) =
  map NTBase (TextView.text_of v (mkEntry (ekind e) (ep1 e) (ep2 e) (et1 e) (et2 e) None)).
Proof.
  unfold np_text_of, unlift. cbn [lift_entry np1 np2 nt1 nt2 nkind]. rewrite !unpath_lift.
  destruct (et1 e), (et2 e); reflexivity.
Qed.

(* in the same-shape branch every reported level is one values_changed item of the text
   view (verbose_level >= 1): the text view is empty exactly when the tree is *)
Lemma np_text_spec_length v a b : 1 <= v ->
  length (np_text_view v (np_spec a b)) = length (np_spec a b).
Proof.
  intros Hv. unfold np_text_view, np_spec.
  induction (combine (indices (shape a)) (combine (data a) (data b))) as [|c l IH]; [reflexivity|].
  cbn [flat_map]. destruct (py_eq (fst (snd c)) (snd (snd c))); [exact IH|].
  cbn [app flat_map]. rewrite !app_length, IH. f_equal.
  unfold np_text_of, unlift. cbn [np1 np2 nt1 nt2 nkind unleaf].
  destruct (unpath (idx_path (fst c))); cbn; destruct v; try lia; reflexivity.
Qed.

Print Assumptions np_copy_empty.
Print Assumptions np_text_of_lift.
Print Assumptions np_text_spec_length.
Print Assumptions np_copy_empty_eq.
Print Assumptions np_same_shape_is_pointwise.
Print Assumptions np_fast_path_redundant.
Print Assumptions np_mutual_same_shape_id.
Print Assumptions np_mutual_lift.
Print Assumptions np_empty_iff.
Print Assumptions np_empty_iff_shape.
Print Assumptions tolist_eqv_shapes.
Print Assumptions np_empty_sound_partial.
Print Assumptions np_empty_sound_partial_eq.
Print Assumptions np_empty_sound_refuted_empty_shape.
Print Assumptions np_empty_sound_refuted_empty_shape_all.
Print Assumptions np_guards_satisfiable.
Print Assumptions np_mutual_fires_in_tolist_branch.

(** Port of Diff/Tree.v to the extended universe Diff/XuValue.v (same names).
    Result trees of DeepDiff: a list of reported levels.  A level chain of
    deepdiff/model.py (DiffLevel objects linked by up/down with two child
    relationships per link) is represented by what it determines: the two key
    sequences from the root ([path()] and [path(use_t2=True)]) and the two leaf
    objects.  Definitions only. *)
From Coq Require Import List ZArith NArith Bool.
Import ListNotations.
From DD Require Import Base.PyStr Diff.XuValue.

Inductive rkind :=
| KType | KValue | KDictAdd | KDictRem | KIterAdd | KIterRem | KIterMoved
| KSetAdd | KSetRem | KRepetition.

Definition rkind_eqb (a b : rkind) : bool :=
  match a, b with
  | KType, KType | KValue, KValue | KDictAdd, KDictAdd | KDictRem, KDictRem
  | KIterAdd, KIterAdd | KIterRem, KIterRem | KIterMoved, KIterMoved
  | KSetAdd, KSetAdd | KSetRem, KSetRem | KRepetition, KRepetition => true
  | _, _ => false
  end.

Record entry := mkEntry {
  ekind : rkind;
  ep1 : path;                 (* level.path()                 *)
  ep2 : path;                 (* level.path(use_t2=True)      *)
  et1 : option value;         (* None = notpresent            *)
  et2 : option value;
  ediff : option pystr        (* additional['diff']           *)
}.

(* for set items ep1 = ep2 = the path of the SET (the item has no path) *)

Inductive optag := OEqual | OReplace | ODelete | OInsert.
Record opcode := mkOp { otag : optag; oi1 : nat; oi2 : nat; oj1 : nat; oj2 : nat }.

Definition slice {A} (l : list A) (a b : nat) : list A := firstn (b - a) (skipn a l).

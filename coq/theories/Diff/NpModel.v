(** Model of [DeepDiff._diff_numpy_array] (deepdiff/diff.py) on numeric numpy
    arrays of 1 and more dimensions, ORDERED mode (ignore_order=False), default
    options, as reached from the dispatcher [_diff]:

      get_type(t1) != get_type(t2)     for an ndarray get_type is dtype.type: a dtype
                                       difference is a type_changes of the whole arrays
      np.array_equal(t1, t2)           fast path: nothing reported
      shapes differ                    both .tolist() and _diff_iterable on the nested
                                       Python lists: the base list model [DiffModel.diff]
      same shape, 1-d                  _diff_iterable on the arrays themselves: an ndarray is
                                       not a Sequence, so always the pairwise (zip_longest)
                                       pass; leaves are numpy scalars compared with !=
      same shape, >= 2-d               for every leading multi-index t, in the order of
                                       helper.cartesian_product_of_shape(shape[:-1]), the rows
                                       t1[t], t2[t] (helper.get_numpy_ndarray_rows) go to
                                       _diff_iterable_in_order below a NumpyArrayRelationship
                                       whose param is the index TUPLE t
      TreeResult.mutual_add_removes_to_become_value_changes at the end, as always.

    An array is its dtype, its shape and its elements in row-major (C) order; the
    memory layout of the real object is not an observable of DeepDiff (checked by
    the correspondence on Fortran / transposed / strided copies).  Elements are the
    atoms of Base/Value.v read per dtype (int64, int32: [AInt]; float64: [AHalf],
    the half-integers; bool: [ABool]); int32 and int64 differ in the dtype tag only
    (no overflow is modelled).

    Outside the model: NaN, 0-d arrays (DeepDiff raises TypeError on two different
    0-d arrays), object / string / datetime dtypes, ignore_order, significant_digits,
    math_epsilon, the delta-only bookkeeping [_numpy_paths] / [_iterable_opcodes].

    Library behaviour enters as a Section variable: [ops] = difflib opcodes (only
    asked for in the tolist branch, by the base model).  Definitions only. *)
From Coq Require Import List ZArith NArith Bool Arith.
Import ListNotations.
From DD Require Import Base.PyStr Base.Value Path.PathModel Diff.Tree Diff.DiffModel Diff.TextView.

Inductive ndtype := DInt64 | DInt32 | DFloat64 | DBool.
Definition ndtype_eqb (a b : ndtype) : bool :=
  match a, b with
  | DInt64, DInt64 | DInt32, DInt32 | DFloat64, DFloat64 | DBool, DBool => true
  | _, _ => false
  end.

Record narr := mkArr { dtype : ndtype; shape : list nat; data : list atom }.

Definition prod (sh : list nat) : nat := fold_right Nat.mul 1 sh.
Definition size (a : narr) : nat := prod (shape a).

(* the element type of a dtype *)
Definition dt_ok (d : ndtype) (x : atom) : bool :=
  match d, x with
  | DInt64, AInt _ | DInt32, AInt _ | DFloat64, AHalf _ | DBool, ABool _ => true
  | _, _ => false
  end.

(* representation invariant: at least one dimension, as many elements as the shape
   says, every element of the dtype's type *)
Definition nwf (a : narr) : bool :=
  match shape a with [] => false | _ :: _ => true end
  && Nat.eqb (length (data a)) (size a)
  && forallb (dt_ok (dtype a)) (data a).

Fixpoint shape_eqb (s t : list nat) : bool :=
  match s, t with
  | [], [] => true
  | x :: s', y :: t' => Nat.eqb x y && shape_eqb s' t'
  | _, _ => false
  end.

(* pointwise Python == of two element lists of the same length *)
Fixpoint pw_eq (xs ys : list atom) : bool :=
  match xs, ys with
  | [], [] => true
  | x :: xs', y :: ys' => py_eq x y && pw_eq xs' ys'
  | _, _ => false
  end.

(* np.array_equal: same shape and all elements ==  (the dtype is NOT compared) *)
Definition array_equal (a b : narr) : bool :=
  shape_eqb (shape a) (shape b) && pw_eq (data a) (data b).

(* the arrays are "equal as arrays": dtype, shape, elements *)
Definition array_eqb (a b : narr) : bool :=
  ndtype_eqb (dtype a) (dtype b) && array_equal a b.

(* ---- ndarray.tolist(): nested Python lists of Python scalars ---- *)
(* n consecutive chunks of k elements *)
Fixpoint chunks {A} (k n : nat) (l : list A) : list (list A) :=
  match n with
  | O => []
  | S n' => firstn k l :: chunks k n' (skipn k l)
  end.

Fixpoint tolist_sh (sh : list nat) (l : list atom) : value :=
  match sh with
  | [] => VAtom (hd ANone l)
  | n :: sh' => VList (map (tolist_sh sh') (chunks (prod sh') n l))
  end.
Definition tolist (a : narr) : value := tolist_sh (shape a) (data a).

(* ---- helper.get_numpy_ndarray_rows ---- *)
(* cartesian_product(result, range(d)) *)
Definition cart_step (res : list (list nat)) (d : nat) : list (list nat) :=
  flat_map (fun t => map (fun j => t ++ [j]) (seq 0 d)) res.
(* cartesian_product_of_shape(dims) *)
Definition cart (dims : list nat) : list (list nat) := fold_left cart_step dims [[]].

(* result = obj; for index in path_tuple: result = result[index]
   (obj[i] of an array of shape n :: sh' is the i-th block of prod sh' elements) *)
Fixpoint getrow (sh : list nat) (l : list atom) (t : list nat) : list atom :=
  match t with
  | [] => l
  | i :: t' => let m := prod (tl sh) in getrow (tl sh) (firstn m (skipn (i * m) l)) t'
  end.

Definition rows (a : narr) : list (list nat * list atom) :=
  map (fun t => (t, getrow (shape a) (data a) t)) (cart (removelast (shape a))).

(* ---- result tree ---- *)
(* a path element: a key / index of the base model, or the index tuple of a row
   (NumpyArrayRelationship.param) *)
Inductive npkey := NK (k : pkey) | NTup (t : list nat).
Definition npath := list npkey.
(* a leaf object: a Python object, a numpy scalar of some dtype, a whole array *)
Inductive nleaf := LPy (v : value) | LNp (d : ndtype) (x : atom) | LArr (a : narr).

Record nentry := mkN {
  nkind : rkind;
  np1 : npath;                (* level.path(output_format='list')              *)
  np2 : npath;                (* level.path(use_t2=True, output_format='list') *)
  nt1 : option nleaf;         (* None = notpresent *)
  nt2 : option nleaf
}.

Definition npkey_eqb (a b : npkey) : bool :=
  match a, b with
  | NK x, NK y => pkey_eqb x y
  | NTup s, NTup t => shape_eqb s t
  | _, _ => false
  end.
Fixpoint npath_eqb (p q : npath) : bool :=
  match p, q with
  | [], [] => true
  | a :: p', b :: q' => npkey_eqb a b && npath_eqb p' q'
  | _, _ => false
  end.

(* an entry of the base model (tolist branch): Python objects, plain indexes *)
Definition lift_entry (e : entry) : nentry :=
  mkN (ekind e) (map NK (ep1 e)) (map NK (ep2 e)) (option_map LPy (et1 e)) (option_map LPy (et2 e)).

Definition nsnoc (p : npath) (i : nat) : npath := p ++ [NK (PIdx i)].

(* _diff on two numpy scalars of one dtype: _diff_numbers / _diff_booleans, != *)
Definition np_leaf (d : ndtype) (x y : atom) (p1 p2 : npath) : list nentry :=
  if py_eq x y then [] else [mkN KValue p1 p2 (Some (LNp d x)) (Some (LNp d y))].

Fixpoint np_removed (d : ndtype) (xs : list atom) (i : nat) (p1 p2 : npath) : list nentry :=
  match xs with
  | [] => []
  | x :: r => mkN KIterRem (nsnoc p1 i) (nsnoc p2 i) (Some (LNp d x)) None :: np_removed d r (S i) p1 p2
  end.
Fixpoint np_added (d : ndtype) (ys : list atom) (j : nat) (p1 p2 : npath) : list nentry :=
  match ys with
  | [] => []
  | y :: r => mkN KIterAdd (nsnoc p1 j) (nsnoc p2 j) None (Some (LNp d y)) :: np_added d r (S j) p1 p2
  end.

(* _diff_by_forming_pairs_and_comparing_one_by_one on two 1-d arrays (zip_longest;
   both indexes are i, so 'iterable_item_moved' cannot arise) *)
Fixpoint np_pairs (d : ndtype) (xs ys : list atom) (i : nat) (p1 p2 : npath) {struct xs} : list nentry :=
  match xs, ys with
  | [], _ => np_added d ys i p1 p2
  | _ :: _, [] => np_removed d xs i p1 p2
  | x :: xs', y :: ys' => np_leaf d x y (nsnoc p1 i) (nsnoc p2 i) ++ np_pairs d xs' ys' (S i) p1 p2
  end.

(* ---- TreeResult.mutual_add_removes_to_become_value_changes on these entries ---- *)
Definition n_is_kind (k : rkind) (e : nentry) : bool := rkind_eqb (nkind e) k.
Definition n_last_with_path (p : npath) (l : list nentry) : option nentry :=
  fold_left (fun acc e => if npath_eqb (np1 e) p then Some e else acc) l None.
Definition np_mutual (es : list nentry) : list nentry :=
  let added := filter (n_is_kind KIterAdd) es in
  let removed := filter (n_is_kind KIterRem) es in
  flat_map (fun e =>
    match nkind e with
    | KIterRem =>
        match n_last_with_path (np1 e) added with
        | Some a =>
            match n_last_with_path (np1 e) removed with
            | Some r => [mkN KValue (np1 e) (np2 e) (nt1 e) (nt2 a)]
            | None => [e]
            end
        | None => [e]
        end
    | KIterAdd =>
        match n_last_with_path (np1 e) removed with
        | Some _ => []
        | None => [e]
        end
    | _ => [e]
    end) es.

(* options that cannot matter on nested lists of numbers: no dict (threshold,
   private keys), no set (item hash), no string (unified diff), nothing excluded *)
Definition no_hash (_ : atom) : pystr := [].
Definition no_udiff (_ _ : pystr) : pystr := [].
Definition no_path (_ : path) : bool := false.

Section Np.
Variable ops : path -> list value -> list value -> list opcode.
Variable zip : bool.                      (* zip_ordered_iterables *)

Definition np_cfg : cfg := mkCfg zip 0 1 true.

(* the tolist branch: the base list model on the nested Python lists *)
Definition base_diff (v1 v2 : value) : list entry :=
  fst (diff no_hash no_udiff ops no_path no_path np_cfg v1 v2 [] []).

(* the same-shape branch *)
Definition np_same_shape (a b : narr) : list nentry :=
  match shape a with
  | [] => []        (* 0-d: DeepDiff raises TypeError (iteration over a 0-d array); outside [nwf] *)
  | [_] => np_pairs (dtype a) (data a) (data b) 0 [] []
  | _ => flat_map (fun rr => np_pairs (dtype a) (snd (fst rr)) (snd (snd rr)) 0
                                      [NTup (fst (fst rr))] [NTup (fst (snd rr))])
                  (combine (rows a) (rows b))
  end.

(* _diff on two ndarrays at the root *)
Definition np_diff (a b : narr) : list nentry :=
  if negb (ndtype_eqb (dtype a) (dtype b))
  then [mkN KType [] [] (Some (LArr a)) (Some (LArr b))]
  else if array_equal a b then []
  else if negb (shape_eqb (shape a) (shape b))
  then map lift_entry (base_diff (tolist a) (tolist b))
  else np_same_shape a b.

(* DeepDiff(a, b, view='tree') *)
Definition np_run_diff (a b : narr) : list nentry := np_mutual (np_diff a b).

(* the same without the np.array_equal fast path (it is only an optimisation:
   NpProofs.np_fast_path_redundant) *)
Definition np_diff_slow (a b : narr) : list nentry :=
  if negb (ndtype_eqb (dtype a) (dtype b))
  then [mkN KType [] [] (Some (LArr a)) (Some (LArr b))]
  else if negb (shape_eqb (shape a) (shape b))
  then map lift_entry (base_diff (tolist a) (tolist b))
  else np_same_shape a b.

End Np.

(* ---- text view (TextResult), verbose_level 1 and 2 ---- *)
Inductive ntentry :=
| NTBase (t : tentry)                                            (* Python objects, base paths *)
| NTType (p : pystr) (d1 d2 : ndtype) (new_path : option pystr) (vals : option (narr * narr))
| NTValue (p : pystr) (d : ndtype) (old new : atom) (new_path : option pystr)
| NTIterAdd (p : pystr) (d : ndtype) (x : atom)
| NTIterRem (p : pystr) (d : ndtype) (x : atom).

Definition repr_nat (n : nat) : pystr := p_of_Z (Z.of_nat n).
Fixpoint join_idx (t : list nat) : pystr :=          (* ']['.join(map(repr, param)) *)
  match t with
  | [] => []
  | [i] => repr_nat i
  | i :: r => repr_nat i ++ [cRB; cLB] ++ join_idx r
  end.
Definition nrender_key (k : npkey) : pystr :=
  match k with
  | NK k => render_key k
  | NTup t => [cLB] ++ join_idx t ++ [cRB]
  end.
Definition nrender (p : npath) : pystr := root_str ++ flat_map nrender_key p.

Definition unkey (k : npkey) : option pkey := match k with NK k => Some k | NTup _ => None end.
Fixpoint unpath (p : npath) : option path :=
  match p with
  | [] => Some []
  | k :: r => match unkey k, unpath r with Some k', Some r' => Some (k' :: r') | _, _ => None end
  end.
Definition unleaf (o : option nleaf) : option (option value) :=
  match o with
  | None => Some None
  | Some (LPy v) => Some (Some v)
  | Some _ => None
  end.
(* the base entry a lifted entry comes from *)
Definition unlift (e : nentry) : option entry :=
  match unpath (np1 e), unpath (np2 e), unleaf (nt1 e), unleaf (nt2 e) with
  | Some p1, Some p2, Some a, Some b => Some (mkEntry (nkind e) p1 p2 a b None)
  | _, _, _, _ => None
  end.

Definition n_new_path (e : nentry) : option pystr :=
  if pystr_eqb (nrender (np1 e)) (nrender (np2 e)) then None else Some (nrender (np2 e)).

Definition np_text_of (verbose : nat) (e : nentry) : list ntentry :=
  match unlift e with
  | Some e' => map NTBase (text_of verbose e')
  | None =>
      let p := nrender (np1 e) in
      let npth := if Nat.ltb 1 verbose then n_new_path e else None in
      match nkind e, nt1 e, nt2 e with
      | KType, Some (LArr a), Some (LArr b) =>
          [NTType p (dtype a) (dtype b) npth (if Nat.ltb 0 verbose then Some (a, b) else None)]
      | KValue, Some (LNp d x), Some (LNp _ y) =>
          if Nat.ltb 0 verbose then [NTValue p d x y npth] else []
      | KIterAdd, _, Some (LNp d y) => [NTIterAdd p d y]
      | KIterRem, Some (LNp d x), _ => [NTIterRem p d x]
      | _, _, _ => []
      end
  end.

Definition np_text_view (verbose : nat) (es : list nentry) : list ntentry :=
  flat_map (np_text_of verbose) es.

(** Python-level primitives for the SOURCE TIE of deepdiff/diff.py (harness/translate/diffdispatch.py,
    coq/srctie/DiffGen.v, coq/srctie/DiffGenEquiv.v).

    The translator turns the statements of [DeepDiff._diff] and of the per-type comparers into Gallina
    text, one statement -> one line; the expressions of those statements are built from the primitives
    below, each of which is the model-side reading of ONE Python operation on the model's types
    (Base/Value.v [value], Diff/Tree.v [entry]).  None of the functions of Diff/DiffModel.v that the
    translator re-derives ([diff], [diff_atom], [diff_str], [diff_set], [pairs_leaf], [by_opcodes],
    [default_leaf_list], the dict and sequence parts of [diff]) is used here.
    Definitions only.  Every definition is part of the trusted base of the tie (NOTES_srctie.md). *)
From Coq Require Import List ZArith NArith Bool Arith.
Import ListNotations.
From DD Require Import Base.PyStr Base.Value Diff.Tree Diff.DiffModel.

(* an object reference held by a DiffLevel: a value of the universe, or helper.notpresent *)
Definition obj := option value.
Definition notpresent : obj := None.
Definition oa (a : atom) : obj := Some (VAtom a).

(* model.DiffLevel: t1, t2, the two key sequences path() / path(use_t2=True), additional['diff'] *)
Record level := mkLevel { lt1 : obj; lt2 : obj; lp1 : path; lp2 : path; ladd : option pystr }.
Definition set_additional_diff (l : level) (d : pystr) : level :=
  mkLevel (lt1 l) (lt2 l) (lp1 l) (lp2 l) (Some d).

(* what a comparer adds to the result: reported levels (TreeResult) and paths recorded in _iterable_opcodes *)
Definition res := (list entry * list path)%type.
Definition nil_res : res := ([], []).
Definition seq (a b : res) : res := app2 a b.
(* `for x in l: body` = the concatenation of what the body reports for each x, in order *)
Definition for_each {A} (f : A -> res) (l : list A) : res :=
  (flat_map (fun x => fst (f x)) l, flat_map (fun x => snd (f x)) l).
Definition tree_len (r : res) : nat := length (fst r).
(* tree[report_type].add(level) *)
Definition tree_add (k : rkind) (l : level) : res :=
  ([mkEntry k (lp1 l) (lp2 l) (lt1 l) (lt2 l) (ladd l)], []).
(* self._iterable_opcodes[level.path(force=FORCE_DEFAULT)] = opcodes_with_values *)
Definition record_opcodes (l : level) : res := ([], [lp1 l]).
(* a comparer of objects outside the universe (_diff_obj, _diff_enum, _diff_datetime, ...) *)
Definition out_of_universe : res := nil_res.

(* child relationships (deepdiff/model.py): how branch_deeper extends the two paths *)
Inductive relclass := DictRelationship | AttributeRelationship | SubscriptableIterableRelationship
                    | NonSubscriptableIterableRelationship | SetRelationship.
Inductive param := PmKey (a : atom) | PmIdx (i : nat) | PmNone.
Definition child_path (r : relclass) (p : path) (x : param) : path :=
  match r, x with
  | SetRelationship, _ => p            (* a set item has no path of its own: path() is the set's *)
  | _, PmKey a => snoc p (PKey a)
  | _, PmIdx i => snoc p (PIdx i)
  | _, PmNone => p
  end.
(* DiffLevel.auto_generate_child_rel: the t2 relationship gets param2 (param when param2 is None); a side whose child
   is notpresent gets NO relationship, and path() / path(use_t2=True) then follow the other side's *)
Definition branch_deeper (l : level) (a b : obj) (r : relclass) (x1 x2 : param) : level :=
  let x2 := match x2 with PmNone => x1 | _ => x2 end in
  let y1 := match a with None => x2 | Some _ => x1 end in
  let y2 := match b with None => x1 | Some _ => x2 end in
  mkLevel a b (child_path r (lp1 l) y1) (child_path r (lp2 l) y2) None.

(* self._skip_this(level): the model's oracle on level.path() *)
Definition skip_this (skip : path -> bool) (l : level) : bool := skip (lp1 l).

(* ---- classes and isinstance ---- *)
Inductive pyclass := C_booleans | C_strings | C_numbers | C_Mapping | C_tuple | C_set | C_frozenset
                   | C_SetOrdered | C_Iterable | C_Sequence | C_bytes_type | C_str.
Definition isinstance_v (v : value) (c : pyclass) : bool :=
  match c, v with
  | C_booleans, VAtom (ABool _) => true
  | C_strings, VAtom (AStr _) | C_strings, VAtom (ABytes _) => true
  | C_numbers, VAtom (ABool _) | C_numbers, VAtom (AInt _) | C_numbers, VAtom (AHalf _) => true
  | C_Mapping, VDict _ => true
  | C_tuple, VTuple _ => true
  | C_set, VSet _ => true
  | C_frozenset, VFrozen _ => true
  | C_Iterable, VList _ | C_Iterable, VTuple _ | C_Iterable, VDict _ | C_Iterable, VSet _
  | C_Iterable, VFrozen _ | C_Iterable, VAtom (AStr _) | C_Iterable, VAtom (ABytes _) => true
  | C_Sequence, VList _ | C_Sequence, VTuple _ | C_Sequence, VAtom (AStr _) | C_Sequence, VAtom (ABytes _) => true
  | C_bytes_type, VAtom (ABytes _) => true
  | C_str, VAtom (AStr _) => true
  | _, _ => false
  end.
Definition isinstance_ (o : obj) (c : pyclass) : bool :=
  match o with Some v => isinstance_v v c | None => false end.
Definition isinstance_any (o : obj) (cs : list pyclass) : bool := existsb (isinstance_ o) cs.

(* get_type(x) / type(x) *)
Definition get_type (o : obj) : ty := match o with Some v => type_of v | None => TNone end.
(* x is None *)
Definition is_None (o : obj) : bool := match o with Some (VAtom ANone) => true | _ => false end.
(* x is y: None is a singleton; two other objects of the universe held by the two sides of a level are
   never taken to be the same object (tree-shaped fresh inputs; for an object compared with itself every
   comparer reports nothing anyway) *)
Definition is_same_object (a b : obj) : bool := is_None a && is_None b.
(* x == y *)
Definition obj_eq (a b : obj) : bool :=
  match a, b with Some x, Some y => py_eqv x y | _, _ => false end.

(* ---- strings ---- *)
Definition nl : pystr := [10%N].
Definition dunder : pystr := [95%N; 95%N].
(* b.decode('ascii'): None = UnicodeDecodeError *)
Definition decode_ascii (o : obj) : option obj :=
  match o with
  | Some (VAtom (ABytes s)) => if is_ascii s then Some (oa (AStr s)) else None
  | _ => None
  end.
(* '\n' in s *)
Definition str_contains (c : pystr) (o : obj) : bool :=
  match c, o with
  | [ch], Some (VAtom (AStr s)) | [ch], Some (VAtom (ABytes s)) => has_char ch s
  | _, _ => false
  end.
(* key.startswith(p) *)
Definition str_startswith (k : atom) (p : pystr) : bool :=
  match k with AStr s => is_prefix p s | _ => false end.
(* the text '\n'.join(difflib.unified_diff(a.splitlines(), b.splitlines(), lineterm='')) (oracle udiff);
   an empty list of lines <-> the empty text *)
Definition unified_diff (udiff : pystr -> pystr -> pystr) (a b : obj) : pystr :=
  match a, b with
  | Some (VAtom (AStr s)), Some (VAtom (AStr t)) => udiff s t
  | _, _ => []
  end.
Definition lines_nonempty (d : pystr) : bool := match d with [] => false | _ => true end.

(* ---- dictionaries ---- *)
(* iterating a dict yields its keys *)
Definition dict_iter (o : obj) : list atom :=
  match o with Some (VDict kvs) => map fst kvs | _ => [] end.
(* d[key] (KeyError = notpresent) *)
Definition dict_getitem (o : obj) (k : atom) : obj :=
  match o with Some (VDict kvs) => assoc k kvs | _ => None end.
(* SetOrdered(list of keys of one dict): the keys of a dict are pairwise distinct *)
Definition SetOrdered_of (l : list atom) : list atom := l.
Definition so_and (a b : list atom) : list atom := filter (fun k => mem_atom k b) a.
Definition so_sub (a b : list atom) : list atom := filter (fun k => negb (mem_atom k b)) a.
Definition so_or (a b : list atom) : list atom := a ++ filter (fun k => negb (mem_atom k a)) b.
(* bool(self.threshold_to_diff_deeper) ; a / b < self.threshold_to_diff_deeper *)
Definition thr_truthy (c : cfg) : bool := negb (Nat.eqb (thr_num c) 0).
Definition ratio_lt_thr (c : cfg) (a b : nat) : bool := Nat.ltb (a * thr_den c) (thr_num c * b).
(* {f"{level.path()}[{repr(key)}]" for key in keys}: the child paths (distinct keys, distinct texts) *)
Definition child_paths (l : level) (ks : list atom) : list path := map (fun k => snoc (lp1 l) (PKey k)) ks.
(* paths -= self.exclude_paths *)
Definition paths_minus_excluded (excl : path -> bool) (ps : list path) : list path :=
  filter (fun p => negb (excl p)) ps.

(* ---- sets: _create_hashtable(level, 't1') as the list (item hash, first item with that hash) ---- *)
Inductive side := T1 | T2.
Definition set_items (o : obj) : list atom :=
  match o with Some (VSet xs) | Some (VFrozen xs) => xs | _ => [] end.
Definition create_hashtable (hatom : atom -> pystr) (l : level) (s : side) : list (pystr * atom) :=
  map (fun a => (hatom a, a)) (first_per_hash hatom (set_items (match s with T1 => lt1 l | T2 => lt2 l end)) []).
Definition ht_keys (t : list (pystr * atom)) : list pystr := map fst t.
Definition hashes_sub (a b : list pystr) : list pystr := filter (fun h => negb (existsb (pystr_eqb h) b)) a.
(* table[h].item *)
Definition ht_item (t : list (pystr * atom)) (h : pystr) : atom :=
  match find (fun e => pystr_eqb (fst e) h) t with Some e => snd e | None => ANone end.

(* ---- tuples ---- *)
(* `level.t1._asdict` does not raise AttributeError: no namedtuple in the universe *)
Definition has_asdict (o : obj) : bool := false.

(* ---- sequences (_diff_iterable_in_order and the methods below it) ---- *)
Definition seq_items (o : obj) : list value :=
  match o with Some (VList xs) | Some (VTuple xs) => xs | _ => [] end.
(* iterating a list / tuple; an item or the fill value ListItemRemovedOrAdded of zip_longest (= None) *)
Definition iter_items (o : obj) : list obj := map (@Some value) (seq_items o).
Definition is_fill (o : obj) : bool := match o with None => true | Some _ => false end.
(* itertools.zip_longest(a, b, fillvalue=ListItemRemovedOrAdded) *)
Fixpoint zip_longest (xs ys : list obj) {struct xs} : list (obj * obj) :=
  match xs with
  | [] => map (fun y => (None, y)) ys
  | x :: xs' =>
      match ys with
      | [] => (x, None) :: map (fun x' => (x', None)) xs'
      | y :: ys' => (x, y) :: zip_longest xs' ys'
      end
  end.
Fixpoint enum_from {A} (n : nat) (l : list A) : list (nat * A) :=
  match l with [] => [] | x :: r => (n, x) :: enum_from (S n) r end.
Definition enumerate {A} (l : list A) : list (nat * A) := enum_from 0 l.
(* an index parameter that may be None *)
Definition oget (o : option nat) : nat := match o with Some n => n | None => 0 end.
Definition onat_is_None (o : option nat) : bool := match o with None => true | Some _ => false end.
(* seq[a:b] (None = from the start / to the end) *)
Definition py_slice (o : obj) (a b : option nat) : list obj :=
  match b with
  | Some n => slice (iter_items o) (oget a) n
  | None => skipn (oget a) (iter_items o)
  end.
(* difflib.SequenceMatcher(isjunk=None, a=level.t1, b=level.t2, autojunk=False).get_opcodes(): the oracle *)
Definition get_opcodes (ops : path -> list value -> list value -> list opcode) (l : level) : list opcode :=
  ops (lp1 l) (seq_items (lt1 l)) (seq_items (lt2 l)).
Definition optag_eqb (a b : optag) : bool :=
  match a, b with
  | OEqual, OEqual | OReplace, OReplace | ODelete, ODelete | OInsert, OInsert => true
  | _, _ => false
  end.
(* self._all_values_basic_hashable(seq): every item is a str / bytes / number / bool / None *)
Definition all_values_basic_hashable (o : obj) : bool := forallb is_atom (seq_items o).
(* DeepDiff._iterables_subscriptable(t1, t2): lists and tuples have __getitem__ *)
Definition iterables_subscriptable (a b : obj) : bool := true.

(* ---- the environment of a run: the oracles and the configuration of Diff/DiffModel.v,
   and has_excl = bool(self.exclude_paths) ---- *)
Record genv := mkEnv {
  e_hatom : atom -> pystr;
  e_udiff : pystr -> pystr -> pystr;
  e_ops : path -> list value -> list value -> list opcode;
  e_skip : path -> bool;
  e_excl : path -> bool;
  e_has_excl : bool;
  e_c : cfg
}.

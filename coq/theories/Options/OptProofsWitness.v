(** The property C11 as literally stated ("altered in any aspect an enabled option
    ignores, at any position including dict keys and set members"), the
    witnesses that refute it for the faithful model, and non-vacuity examples
    for the guards of the theorems that are proved. *)
From Coq Require Import List ZArith NArith Bool Arith String Lia.
Import ListNotations.
From DD Require Import Base.PyStr Base.Value Diff.Tree Diff.DiffModel Options.OptModel
  Options.OptProofsBase Options.OptProofsAtoms Options.OptProofsKeys Options.OptProofsLists
  Options.OptProofsAlt Options.OptProofsSafe Options.OptProofsMono Options.OptProofsRun.
Local Open Scope string_scope.

(* ---- the full-strength relation: a positional copy, atoms altered by altA anywhere ---- *)
Section Full.
Variable F : opts.
Variable c : cfg.
Definition both_excl (a b : atom) : bool := excluded F (atom_ty a) && excluded F (atom_ty b).
Definition altAx (a b : atom) : bool := altA F a b || both_excl a b.
Inductive alt_full : value -> value -> Prop :=
| af_atom : forall a b, altA F a b = true -> alt_full (VAtom a) (VAtom b)
| af_excl : forall v w, excluded F (type_of v) = true -> excluded F (type_of w) = true -> alt_full v w
| af_list : forall xs ys, Forall2 alt_full xs ys -> alt_full (VList xs) (VList ys)
| af_tuple : forall xs ys, Forall2 alt_full xs ys -> alt_full (VTuple xs) (VTuple ys)
| af_dict : forall kvs1 kvs2,
    Forall2 (fun e1 e2 => altAx (fst e1) (fst e2) = true /\ alt_full (snd e1) (snd e2)) (kept c kvs1) (kept c kvs2) ->
    alt_full (VDict kvs1) (VDict kvs2)
| af_set : forall xs ys, Forall2 (fun a b => altAx a b = true) xs ys -> alt_full (VSet xs) (VSet ys)
| af_frozen : forall xs ys, Forall2 (fun a b => altAx a b = true) xs ys -> alt_full (VFrozen xs) (VFrozen ys).
End Full.

(* ---- concrete settings for the witnesses ---- *)
Definition ud0 (_ _ : pystr) : pystr := [].
Definition ops0 (_ : path) (_ _ : list value) : list opcode := [].
Definition cdef : cfg := mkCfg false 33 100 true.        (* DeepDiff defaults *)
Definition czip : cfg := mkCfg true 33 100 true.         (* zip_ordered_iterables=True *)
Definition run (c : cfg) (F : opts) (a b : value) := run_optF ud0 ops0 c F a b.
Definition S (s : string) : atom := AStr (s2p s).
Definition B (s : string) : atom := ABytes (s2p s).
Definition vi (z : Z) : value := VAtom (AInt z).

Definition Fcase := mkOpts true false false None None [].
Definition Fstrty := mkOpts false true false None None [].
Definition Fnumty := mkOpts false false true None None [].
Definition Fsig (d : N) := mkOpts false false false (Some d) None [].
Definition Feps (e : dy) := mkOpts false false false None (Some e) [].
Definition Fexcl (l : list ty) := mkOpts false false false None None l.

Ltac witness := repeat (first [ split | eexists ]); try (vm_compute; discriminate).

(* K8 (fixed by d664dbb): a numeric dict key under ignore_string_case / ignore_string_type_changes alone is
   left as it is - no ValueError any more *)
Example numeric_key_without_precision :
  let a := VDict [(AInt 1, vi 5)] in
  run cdef Fcase a a = Ok ([], []) /\ run cdef Fstrty a a = Ok ([], []) /\
  clean_key Fcase (AInt 1) = Ok (AInt 1).
Proof. repeat split; reflexivity. Qed.

(* significant_digits is not applied to dict keys ({1.5: 0} vs {2.0: 0}, significant_digits=0) *)
Theorem alt_sig_key_refuted :
  exists a b, alt_full (Fsig 0) cdef a b /\ exists r, run cdef (Fsig 0) a b = Ok r /\ fst r <> [].
Proof.
  exists (VDict [(AHalf 3, vi 0)]), (VDict [(AHalf 4, vi 0)]). split.
  - apply af_dict. cbn. constructor; [|constructor]. split; [reflexivity|apply af_atom; reflexivity].
  - eexists. split; [vm_compute; reflexivity|cbn; discriminate].
Qed.

(* ... although the same pair is equal under significant_digits=0 + ignore_string_case (key cleaning) *)
Example sig_key_with_cleaning :
  run cdef (mkOpts true false false (Some 0%N) None []) (VDict [(AHalf 3, vi 0)]) (VDict [(AHalf 4, vi 0)]) = Ok ([], []).
Proof. reflexivity. Qed.

(* math_epsilon is applied neither to dict keys nor to set members *)
Theorem alt_eps_key_refuted :
  exists a b, alt_full (Feps (1%Z, 0%N)) cdef a b /\ exists r, run cdef (Feps (1%Z, 0%N)) a b = Ok r /\ fst r <> [].
Proof.
  exists (VDict [(AHalf 3, vi 0)]), (VDict [(AHalf 4, vi 0)]). split.
  - apply af_dict. cbn. constructor; [|constructor]. split; [reflexivity|apply af_atom; reflexivity].
  - eexists. split; [vm_compute; reflexivity|cbn; discriminate].
Qed.
Theorem alt_eps_set_refuted :
  exists a b, alt_full (Feps (1%Z, 0%N)) cdef a b /\ exists r, run cdef (Feps (1%Z, 0%N)) a b = Ok r /\ fst r <> [].
Proof.
  exists (VSet [AHalf 3]), (VSet [AHalf 4]). split.
  - apply af_set. constructor; [reflexivity|constructor].
  - eexists. split; [vm_compute; reflexivity|cbn; discriminate].
Qed.

(* math_epsilon overrides significant_digits at leaves: [1.5] vs [2.0], significant_digits=0 is empty,
   adding math_epsilon=0.25 reports a change *)
Theorem alt_eps_over_sig_refuted :
  let F1 := Fsig 0 in
  let F2 := mkOpts false false false (Some 0%N) (Some (1%Z, 2%N)) [] in
  exists a b, alt_full F2 czip a b /\ run czip F1 a b = Ok ([], []) /\ exists r, run czip F2 a b = Ok r /\ fst r <> [].
Proof.
  exists (VList [VAtom (AHalf 3)]), (VList [VAtom (AHalf 4)]). split; [|split].
  - apply af_list. constructor; [apply af_atom; reflexivity|constructor].
  - reflexivity.
  - eexists. split; [vm_compute; reflexivity|cbn; discriminate].
Qed.

(* exclude_types does not apply to dict keys *)
Theorem alt_excl_key_refuted :
  exists a b, alt_full (Fexcl [TInt]) cdef a b /\ exists r, run cdef (Fexcl [TInt]) a b = Ok r /\ fst r <> [].
Proof.
  exists (VDict [(AInt 1, VAtom (S "a"))]), (VDict [(AInt 2, VAtom (S "a"))]). split.
  - apply af_dict. cbn. constructor; [|constructor]. split; [reflexivity|apply af_atom; reflexivity].
  - eexists. split; [vm_compute; reflexivity|cbn; discriminate].
Qed.

(* exclude_types in the DEFAULT list mode: a list in which only ints changed reports a str as added
   ([1,'x',2,1] vs [2,'x',1,3], exclude_types=[int], with the opcodes difflib returns for this pair): the difflib
   pass leaves ONE report after the excluded ones are dropped, and one report is not enough for the code to try
   the pairwise pass (which reports nothing) *)
Definition ops_w (_ : path) (_ _ : list value) : list opcode :=
  [mkOp OInsert 0 0 0 2; mkOp OEqual 0 1 2 3; mkOp OReplace 1 4 3 4].
Definition lw1 : list value := [vi 1; VAtom (S "x"); vi 2; vi 1].
Definition lw2 : list value := [vi 2; VAtom (S "x"); vi 1; vi 3].
Theorem alt_excl_default_list_refuted :
  alt_full (Fexcl [TInt]) cdef (VList lw1) (VList lw2) /\
  tiles (ops_w [] lw1 lw2) 0 0 (List.length lw1) (List.length lw2) = true /\
  run_optF ud0 ops_w czip (Fexcl [TInt]) (VList lw1) (VList lw2) = Ok ([], []) /\
  exists r, run_optF ud0 ops_w cdef (Fexcl [TInt]) (VList lw1) (VList lw2) = Ok r /\ fst r <> [].
Proof.
  split; [|split; [reflexivity|split; [reflexivity|]]].
  - apply af_list. unfold lw1, lw2.
    constructor; [apply af_excl; reflexivity|].
    constructor; [apply af_atom; reflexivity|].
    constructor; [apply af_excl; reflexivity|].
    constructor; [apply af_excl; reflexivity|constructor].
  - eexists. split; [vm_compute; reflexivity|cbn; discriminate].
Qed.

(* ignore_string_case does not lower-case bytes dict keys *)
Theorem alt_bytes_key_case_refuted :
  exists a b, alt_full Fcase cdef a b /\ exists r, run cdef Fcase a b = Ok r /\ fst r <> [].
Proof.
  exists (VDict [(B "A", vi 1)]), (VDict [(B "a", vi 1)]). split.
  - apply af_dict. cbn. constructor; [|constructor]. split; [reflexivity|apply af_atom; reflexivity].
  - eexists. split; [vm_compute; reflexivity|cbn; discriminate].
Qed.

(* ---- second clause (plain diff empty => diff under options empty) refuted ---- *)
(* two keys with one clean key: the first in insertion order wins *)
Theorem monotone_key_collision_refuted :
  exists a b, wf a = true /\ wf b = true /\ run cdef no_opts a b = Ok ([], []) /\
              exists r, run cdef Fcase a b = Ok r /\ fst r <> [].
Proof.
  exists (VDict [(S "A", vi 1); (S "a", vi 2)]), (VDict [(S "a", vi 2); (S "A", vi 1)]).
  split; [reflexivity|split; [reflexivity|split; [reflexivity|]]].
  eexists. split; [vm_compute; reflexivity|cbn; discriminate].
Qed.
(* 1 and True are one key for Python and for the plain diff; key cleaning tags them int / bool *)
Theorem monotone_alias_key_refuted :
  let F := mkOpts true false false (Some 2%N) None [] in
  exists a b, wf a = true /\ wf b = true /\ run cdef no_opts a b = Ok ([], []) /\
              exists r, run cdef F a b = Ok r /\ fst r <> [].
Proof.
  exists (VDict [(AInt 1, vi 0)]), (VDict [(ABool true, vi 0)]).
  split; [reflexivity|split; [reflexivity|split; [reflexivity|]]].
  eexists. split; [vm_compute; reflexivity|cbn; discriminate].
Qed.
(* K1: the set members 'int:1' and 1 have the same hash text without options, not with significant_digits *)
Theorem monotone_tag_set_refuted :
  exists a b, run cdef no_opts a b = Ok ([], []) /\ exists r, run cdef (Fsig 2) a b = Ok r /\ fst r <> [].
Proof.
  exists (VSet [S "int:1"]), (VSet [AInt 1]). split; [reflexivity|].
  eexists. split; [vm_compute; reflexivity|cbn; discriminate].
Qed.

(* ---- non-vacuity of the guards ---- *)
Definition Fmix := mkOpts true true true None None [].      (* case + str/bytes + int/float *)
Definition ex1 : value :=
  VDict [(S "A", VList [vi 1; VAtom (S "x")]); (B "k", VAtom (AHalf 5)); (AInt 3, VSet [S "m"; AInt 2]); (S "__p", vi 0)].
Definition ex2 : value :=
  VDict [(S "K", VAtom (AHalf 5)); (S "a", VList [VAtom (AHalf 2); VAtom (B "X")]); (AHalf 6, VSet [AHalf 4; B "M"])].

Example guard_ex1 : guard Fmix cdef ex1 = true. Proof. reflexivity. Qed.
Example guard_ex2 : guard Fmix cdef ex2 = true. Proof. reflexivity. Qed.
Example alt_ex : alt Fmix cdef ex1 ex2.
Proof.
  apply alt_dict.
  - intros k v H. cbn in H.
    destruct H as [H|[H|[H|H]]]; try (inversion H; subst; clear H); try contradiction.
    + exists (S "a"). eexists. split; [right; left; reflexivity|]. split; [reflexivity|].
      apply alt_list. constructor; [apply alt_atom; reflexivity|]. constructor; [apply alt_atom; reflexivity|constructor].
    + exists (S "K"). eexists. split; [left; reflexivity|]. split; [reflexivity|]. apply alt_atom. reflexivity.
    + exists (AHalf 6). eexists. split; [right; right; left; reflexivity|]. split; [reflexivity|].
      apply alt_set.
      * intros x Hx _. cbn in Hx. destruct Hx as [Hx|[Hx|Hx]]; try contradiction; subst.
        -- exists (B "M"). split; [right; left; reflexivity|]. split; [reflexivity|left; reflexivity].
        -- exists (AHalf 4). split; [left; reflexivity|]. split; [reflexivity|left; reflexivity].
      * intros x Hx _. cbn in Hx. destruct Hx as [Hx|[Hx|Hx]]; try contradiction; subst.
        -- exists (AInt 2). split; [right; left; reflexivity|]. split; [reflexivity|right; reflexivity].
        -- exists (S "m"). split; [left; reflexivity|]. split; [reflexivity|right; reflexivity].
  - intros k' H. cbn in H. destruct H as [H|[H|[H|H]]]; try contradiction; subst.
    + exists (B "k"). split; [right; left; reflexivity|reflexivity].
    + exists (S "A"). split; [left; reflexivity|reflexivity].
    + exists (AInt 3). split; [right; right; left; reflexivity|reflexivity].
Qed.
Example alt_ex_computes : run czip Fmix ex1 ex2 = Ok ([], []).
Proof. reflexivity. Qed.

(* a trivially valid opcode oracle: the hypothesis of the default-mode theorems is satisfiable *)
Definition triv_ops (_ : path) (xs ys : list value) : list opcode :=
  match xs, ys with
  | [], [] => []
  | _ :: _, [] => [mkOp ODelete 0 (List.length xs) 0 0]
  | [], _ :: _ => [mkOp OInsert 0 0 0 (List.length ys)]
  | _ :: _, _ :: _ => [mkOp OReplace 0 (List.length xs) 0 (List.length ys)]
  end.
Example triv_ops_tile : forall p xs ys, tiles (triv_ops p xs ys) 0 0 (List.length xs) (List.length ys) = true.
Proof.
  intros p [|x xs] [|y ys]; cbn [triv_ops tiles]; try reflexivity; unfold op_shape; cbn [otag oi1 oi2 oj1 oj2 List.length];
    rewrite ?Nat.eqb_refl; reflexivity.
Qed.


(* ---- the hypotheses of the monotone theorem are satisfiable together ---- *)
Definition KUx (k : atom) : Prop := In k [S "a"; S "B"; AInt 3].
Definition SUx (x : atom) : Prop := In x [AInt 1; S "m"].
Definition m1 : value := VDict [(S "a", VList [vi 1; VSet [AInt 1; S "m"]]); (AInt 3, VAtom (S "x")); (S "B", VTuple [])].
Definition m2 : value := VDict [(S "B", VTuple []); (AInt 3, VAtom (S "x")); (S "a", VList [vi 1; VSet [S "m"; AInt 1]])].

Example mono_keys_typed : forall k k', KUx k -> KUx k' -> py_eq k k' = true -> atom_ty k = atom_ty k'.
Proof.
  intros k k' H1 H2 E. unfold KUx in *. cbn [In] in *.
  repeat match goal with K : _ \/ _ |- _ => destruct K as [K|K] end; subst; try contradiction; try reflexivity;
    vm_compute in E; discriminate.
Qed.
Example mono_sets_inj : forall x y, SUx x -> SUx y -> hatomF no_opts x = hatomF no_opts y -> x = y.
Proof.
  intros x y H1 H2 E. unfold SUx in *. cbn [In] in *.
  repeat match goal with K : _ \/ _ |- _ => destruct K as [K|K] end; subst; try contradiction; try reflexivity;
    vm_compute in E; discriminate.
Qed.
Example mono_instance : run czip Fmix m1 m2 = Ok ([], []).
Proof.
  apply (monotone_run Fmix czip ud0 ops0) with (KU := KUx) (SU := SUx) (r := []).
  - cbn. lia.
  - left. reflexivity.
  - reflexivity.
  - intros _. exact mono_keys_typed.
  - exact mono_sets_inj.
  - reflexivity.
  - reflexivity.
  - reflexivity.
  - cbn. unfold KUx, SUx. cbn. repeat split; auto 10.
  - cbn. unfold KUx, SUx. cbn. repeat split; auto 10.
Qed.

(** C11, third clause: the options do not make DeepDiff raise.  Since the fixes
    0fac13b (bytes keys in the path printer) and d664dbb (numeric keys in key
    cleaning, K8) the model never returns Err: for all values and options. *)
From Coq Require Import List ZArith NArith Bool Arith Lia.
Import ListNotations.
From DD Require Import Base.PyStr Base.Value Diff.Tree Diff.DiffModel Options.OptModel
  Options.OptProofsBase Options.OptProofsAtoms.

Section Safe.
Variable F : opts.
Variable c : cfg.
Variable udiff : pystr -> pystr -> pystr.
Variable ops : path -> list value -> list value -> list opcode.

Lemma clean_map_ok : forall ks acc, exists km, clean_map F ks acc = Ok km.
Proof.
  induction ks as [|k r IH]; intros acc; cbn [clean_map]; [eexists; reflexivity|].
  destruct (clean_key_ok F k) as [ck Eck]. rewrite Eck. cbn [bind].
  destruct (mem_atom ck (map fst acc)); apply IH.
Qed.

Lemma kmap_ok : forall ks, exists km, kmap F ks = Ok km.
Proof. intros ks. unfold kmap. destruct (cleaning F); [apply clean_map_ok|eexists; reflexivity]. Qed.

Theorem never_raises : forall t1 t2 p1 p2, exists r, diffF udiff ops c F t1 t2 p1 p2 = Ok r.
Proof.
  induction t1 as [a|xs IH|xs IH|kvs IH|xs|xs] using value_ind'; intros t2 p1 p2; cbn [diffF];
    (destruct (excluded F (type_of _) || excluded F (type_of t2)); [eexists; reflexivity|]);
    (destruct (negb (ty_eqb _ (type_of t2)) && negb (same_group F _ (type_of t2))); [eexists; reflexivity|]).
  - destruct t2; eexists; reflexivity.
  - destruct t2 as [b|ys|ys|kvs2|ys|ys]; try (eexists; reflexivity).
    destruct (negb (zip c) && forallb is_atom xs && forallb is_atom ys).
    + destruct (default_leaf_listF udiff ops F xs ys p1 p2). eexists; reflexivity.
    + generalize 0 as i. revert ys.
      induction xs as [|x xs IHxs]; intros ys i; [eexists; reflexivity|].
      destruct ys as [|y ys]; [eexists; reflexivity|].
      inversion IH as [|? ? Hx Hxs]; subst.
      destruct (Hx y (snoc p1 (PIdx i)) (snoc p2 (PIdx i))) as [r1 E1]. rewrite E1. cbn [bind].
      destruct (IHxs Hxs ys (S i)) as [r2 E2]. rewrite E2. cbn [bind]. eexists; reflexivity.
  - destruct t2 as [b|ys|ys|kvs2|ys|ys]; try (eexists; reflexivity).
    destruct (negb (zip c) && forallb is_atom xs && forallb is_atom ys).
    + destruct (default_leaf_listF udiff ops F xs ys p1 p2). eexists; reflexivity.
    + generalize 0 as i. revert ys.
      induction xs as [|x xs IHxs]; intros ys i; [eexists; reflexivity|].
      destruct ys as [|y ys]; [eexists; reflexivity|].
      inversion IH as [|? ? Hx Hxs]; subst.
      destruct (Hx y (snoc p1 (PIdx i)) (snoc p2 (PIdx i))) as [r1 E1]. rewrite E1. cbn [bind].
      destruct (IHxs Hxs ys (S i)) as [r2 E2]. rewrite E2. cbn [bind]. eexists; reflexivity.
  - destruct t2 as [b|ys|ys|kvs2|ys|ys]; try (eexists; reflexivity).
    destruct (kmap_ok (keys_of c kvs)) as [km1 E1].
    destruct (kmap_ok (keys_of c kvs2)) as [km2 E2].
    rewrite E1, E2. cbn [bind].
    destruct (shortcutF c _ _); [eexists; reflexivity|].
    match goal with |- exists r, bind ?G _ = _ => assert (exists x, G = Ok x) as Hgo end.
    { clear E1. induction kvs as [|[k v1] r IHr]; [eexists; reflexivity|].
      inversion IH as [|? ? Hx Hxs]; subst. cbn [snd] in Hx.
      destruct (IHr Hxs) as [rest Erest]. rewrite Erest.
      assert (exists x, (if keep_key c k then
                match repr_ckey F km1 k with
                | Some ck =>
                    match find (py_eq ck) (ckeys F (keys_of c kvs2) km2) with
                    | Some ck' =>
                        match assoc (orig_key F km2 ck') kvs2 with
                        | Some v2 => diffF udiff ops c F v1 v2 (snoc p1 (PKey ck')) (snoc p2 (PKey ck'))
                        | None => Ok ([], [])
                        end
                    | None => Ok ([], [])
                    end
                | None => Ok ([], [])
                end else Ok ([], [])) = Ok x) as [x Ex].
      { destruct (keep_key c k); [|eexists; reflexivity].
        destruct (repr_ckey F km1 k); [|eexists; reflexivity].
        destruct (find _ _) as [ck'|]; [|eexists; reflexivity].
        destruct (assoc _ kvs2) as [v2|]; [|eexists; reflexivity].
        apply Hx. }
      rewrite Ex. cbn [bind]. eexists; reflexivity. }
    destruct Hgo as [x Ex]. rewrite Ex. cbn [bind]. eexists; reflexivity.
  - destruct t2; eexists; reflexivity.
  - destruct t2; eexists; reflexivity.
Qed.

End Safe.

(** (round-3 extended universe) C11, third clause: the options do not make DeepDiff raise - on inputs that avoid
    the raising corners the model follows (each one is a recorded finding and has a [_refuted] witness in
    YProofsSafeWitness.v):

      an Enum member under use_enum_value                        C11-ENUM-TYPE (the type check is skipped)
      a nan when the precision in force is 0 digits              C11-SIG0-NAN  (int(round(nan, 0)))
      a datetime / date / time / timedelta under
        ignore_numeric_type_changes                              C11-NUMGROUP-DATETIME (they are in helper.numbers)
      a datetime / date / time / timedelta DICT KEY when key
        cleaning meets a precision                               C11-DATETIME-KEY (round(datetime))
      a timedelta SET MEMBER when a precision is in force        C11-SIG-TIMEDELTA-SET (DeepHash._prep_number)

    Under the guard [safe] (a boolean function of the options and the value: every atom is [quiet], keys and set
    members additionally [key_quiet] / [member_quiet]) the model never returns Err, for ALL values and options. *)
From Coq Require Import List ZArith NArith Bool Arith Lia.
Import ListNotations.
From DD Require Import Base.PyStr Options.OptModel Options.OptDtModel Options.YValue Options.YModel Options.YProofsBase.

Definition dt_like (a : atom) : bool :=
  match a with ADt _ _ | ADate _ _ _ | ATime _ | ATd _ => true | _ => false end.
Definition sig0 (F : opts) : bool := match eff_sig F with Some d => N.eqb d 0 | None => false end.
Definition has_sig (F : opts) : bool := match eff_sig F with Some _ => true | None => false end.
Definition has_trunc (F : opts) : bool := match o_trunc F with Some _ => true | None => false end.

(* an atom that no comparer raises on, wherever it stands *)
Definition quiet (F : opts) (a : atom) : bool :=
  match a with
  | AEnum _ _ _ _ => negb (o_enum F)
  | ANan _ => negb (sig0 F)
  | ADt _ _ | ADate _ _ _ | ATime _ | ATd _ => negb (o_numty F)      (* (a date / timedelta under truncate_datetime raised before 1c8f0f8) *)
  | _ => true
  end.
Definition key_quiet (F : opts) (k : atom) : bool :=
  quiet F k && negb (cleaning F && has_sig F && dt_like k).
Definition member_quiet (F : opts) (a : atom) : bool :=
  quiet F a && negb (has_sig F && match a with ATd _ => true | _ => false end).

Fixpoint safe (F : opts) (v : value) : bool :=
  match v with
  | VAtom a => quiet F a
  | VSet xs | VFrozen xs => forallb (member_quiet F) xs
  | VList xs | VTuple xs => forallb (safe F) xs
  | VDict kvs => forallb (fun kv => key_quiet F (fst kv) && safe F (snd kv)) kvs
  end.

Section Safe.
Variable F : opts.
Variable c : cfg.
Variable udiff : pystr -> pystr -> pystr.
Variable ops : path -> list value -> list value -> list opcode.

(* the value of an Enum member is always quiet *)
Lemma quiet_atom_of_e : forall v, quiet F (atom_of_e v) = true.
Proof. destruct v; reflexivity. Qed.

Definition plain_num (a : atom) : bool :=
  match a with ABool _ | AInt _ | AFloat _ _ | ADec _ _ | ANan _ => true | _ => false end.

(* number_to_string does not raise on a quiet number *)
Lemma ntxt_quiet : forall d a, eff_sig F = Some d -> quiet F a = true -> plain_num a = true ->
  exists t, ntxt F d a = Ok t.
Proof.
  intros d a Hd Hq Hl. unfold ntxt.
  destruct a as [| ba | z | m e | s | s | u o | i | m e | y mo dd | u | u | cl n o v]; cbn [nstr num_of plain_num] in *;
    try discriminate; try (eexists; reflexivity).
  unfold quiet, sig0 in Hq. rewrite Hd in Hq. destruct (N.eqb d 0); [discriminate|]. eexists; reflexivity.
Qed.

Lemma fl_of_plain : forall a, plain_num a = true -> exists x, fl_of a = Some x.
Proof. intros a H. destruct a; cbn in *; try discriminate; eexists; reflexivity. Qed.

Lemma numD_ok : forall rtc a b p1 p2, quiet F a = true -> quiet F b = true -> plain_num a = true -> plain_num b = true ->
  exists es, numD F rtc a b p1 p2 = Ok es.
Proof.
  intros rtc a b p1 p2 Qa Qb Pa Pb. unfold numD.
  destruct (o_eps F) as [e|].
  - destruct (fl_of_plain a Pa) as [x Ex]. destruct (fl_of_plain b Pb) as [y Ey]. rewrite Ex, Ey.
    destruct x, y; eexists; reflexivity.
  - destruct (eff_sig F) as [d|] eqn:Es; [|eexists; reflexivity].
    destruct (ntxt_quiet d a Es Qa Pa) as [ta Ea]. destruct (ntxt_quiet d b Es Qb Pb) as [tb Eb].
    rewrite Ea, Eb. cbn [bind]. destruct ta, tb; eexists; reflexivity.
Qed.

Lemma norm_any_ok : forall a, exists a', norm_any F a = Ok a'.
Proof. intros a. destruct a; cbn [norm_any]; eexists; reflexivity. Qed.

(* under ignore_numeric_type_changes no datetime-like atom is quiet *)
Lemma quiet_numty : forall a, o_numty F = true -> quiet F a = true -> dt_like a = false.
Proof.
  intros a Hn Q. destruct a; cbn [quiet dt_like] in *; try reflexivity; rewrite Hn in Q; cbn in Q; discriminate.
Qed.

(* the comparer picked for two quiet atoms that passed the type test of _diff does not raise *)
Lemma dispatch_quiet : forall rtc a b p1 p2,
  quiet F a = true -> quiet F b = true ->
  (ty_eqb (atom_ty a) (atom_ty b) = true \/ same_group F (atom_ty a) (atom_ty b) = true) ->
  exists es, dispatch udiff F rtc a b p1 p2 = Ok es.
Proof.
  intros rtc a b p1 p2 Qa Qb Hty.
  assert (same_group F (atom_ty a) (atom_ty b) = true ->
          (str_like (atom_ty a) = true /\ str_like (atom_ty b) = true) \/
          (num_like (atom_ty a) = true /\ num_like (atom_ty b) = true /\ dt_like a = false /\ dt_like b = false)) as Hg.
  { intros H. unfold same_group in H. apply orb_true_iff in H. destruct H as [H|H].
    - left. apply andb_true_iff in H. destruct H as [H H2]. apply andb_true_iff in H. tauto.
    - right. apply andb_true_iff in H. destruct H as [H H2]. apply andb_true_iff in H. destruct H as [Hn H1].
      repeat split; auto using quiet_numty. }
  destruct a as [| ba | z | m e | s | s | u o | i | m e | y mo d | u | u | cl n o v]; cbn [dispatch];
    try (eexists; reflexivity).
  - (* int *) apply numD_ok; auto.
    destruct Hty as [H|H]; [destruct b; cbn in H; try discriminate; reflexivity|].
    destruct (Hg H) as [[K _]|[_ [K [_ K2]]]]; [discriminate K|]. destruct b; cbn in K, K2; try discriminate; reflexivity.
  - (* float *) apply numD_ok; auto.
    destruct Hty as [H|H]; [destruct b; cbn in H; try discriminate; reflexivity|].
    destruct (Hg H) as [[K _]|[_ [K [_ K2]]]]; [discriminate K|]. destruct b; cbn in K, K2; try discriminate; reflexivity.
  - (* str *) unfold strD.
    assert (str_like (atom_ty b) = true) as K.
    { destruct Hty as [H|H]; [destruct b; cbn in H; try discriminate; reflexivity|].
      destruct (Hg H) as [[_ K]|[K _]]; [exact K|discriminate K]. }
    rewrite K. eexists; reflexivity.
  - (* bytes *) unfold strD.
    assert (str_like (atom_ty b) = true) as K.
    { destruct Hty as [H|H]; [destruct b; cbn in H; try discriminate; reflexivity|].
      destruct (Hg H) as [[_ K]|[K _]]; [exact K|discriminate K]. }
    rewrite K. eexists; reflexivity.
  - (* datetime *)
    destruct Hty as [H|H].
    + destruct b; cbn in H; try discriminate. cbn [dtD]. eexists; reflexivity.
    + destruct (Hg H) as [[K _]|[_ [_ [K _]]]]; discriminate K.
  - (* nan *) apply numD_ok; auto.
    destruct Hty as [H|H]; [destruct b; cbn in H; try discriminate; reflexivity|].
    destruct (Hg H) as [[K _]|[_ [K [_ K2]]]]; [discriminate K|]. destruct b; cbn in K, K2; try discriminate; reflexivity.
  - (* Decimal *) apply numD_ok; auto.
    destruct Hty as [H|H]; [destruct b; cbn in H; try discriminate; reflexivity|].
    destruct (Hg H) as [[K _]|[_ [K [_ K2]]]]; [discriminate K|]. destruct b; cbn in K, K2; try discriminate; reflexivity.
  - (* date *)
    destruct Hty as [H|H]; [|destruct (Hg H) as [[K _]|[_ [_ [K _]]]]; discriminate K].
    destruct b; cbn in H; try discriminate. unfold timeD.
    destruct (o_trunc F) eqn:Et; [|eexists; reflexivity]. cbn [norm_any bind]. eexists; reflexivity.
  - (* time *)
    destruct Hty as [H|H]; [|destruct (Hg H) as [[K _]|[_ [_ [K _]]]]; discriminate K].
    destruct b; cbn in H; try discriminate. unfold timeD.
    destruct (o_trunc F) eqn:Et; [|eexists; reflexivity]. cbn [norm_any bind]. eexists; reflexivity.
  - (* timedelta *)
    destruct Hty as [H|H]; [|destruct (Hg H) as [[K _]|[_ [_ [K _]]]]; discriminate K].
    destruct b; cbn in H; try discriminate. unfold timeD.
    destruct (o_trunc F) eqn:Et; [|eexists; reflexivity]. cbn [norm_any bind]. eexists; reflexivity.
Qed.

Lemma quiet_enum : forall a, quiet F a = true -> o_enum F && is_enum a = false.
Proof. intros a Q. destruct a; cbn [is_enum]; rewrite ?andb_false_r; try reflexivity. cbn [quiet] in Q. apply negb_true_iff in Q. rewrite Q. reflexivity. Qed.

Lemma unwrap_quiet : forall a, quiet F a = true -> unwrap F a = a.
Proof. intros a Q. destruct a; try reflexivity. cbn [quiet] in Q. apply negb_true_iff in Q. cbn [unwrap]. rewrite Q. reflexivity. Qed.

Lemma leaf_core_quiet : forall a b p1 p2, quiet F a = true -> quiet F b = true ->
  exists es, leaf_core udiff F a b p1 p2 = Ok es.
Proof.
  intros a b p1 p2 Qa Qb. unfold leaf_core.
  destruct (same_obj a b); [eexists; reflexivity|].
  destruct (excluded F (atom_ty a) || excluded F (atom_ty b)); [eexists; reflexivity|].
  destruct (ty_eqb (atom_ty a) (atom_ty b)) eqn:Et.
  - destruct (o_nan F && is_nan a && str_is_nan b); [eexists; reflexivity|].
    apply dispatch_quiet; auto.
  - assert (o_enum F && (is_enum a || is_enum b) = false) as Hu.
    { pose proof (quiet_enum a Qa) as K1. pose proof (quiet_enum b Qb) as K2.
      destruct (o_enum F); [|reflexivity]. cbn [andb] in *. rewrite K1, K2. reflexivity. }
    rewrite Hu. cbn [negb]. rewrite andb_true_r.
    destruct (same_group F (atom_ty a) (atom_ty b)) eqn:Eg; cbn [negb]; [|eexists; reflexivity].
    rewrite (unwrap_quiet a Qa), (unwrap_quiet b Qb).
    destruct (is_none a || is_none b); [eexists; reflexivity|].
    destruct (o_nan F && is_nan a && str_is_nan b); [eexists; reflexivity|].
    apply dispatch_quiet; auto.
Qed.

Theorem leafR_quiet : forall a b p1 p2, quiet F a = true -> quiet F b = true ->
  exists es, leafR udiff F a b p1 p2 = Ok es.
Proof.
  intros a b p1 p2 Qa Qb. unfold leafR.
  destruct a as [| ba | z | m e | s | s | u o | i | m e | y mo d | u | u | cl n o v]; try (apply leaf_core_quiet; assumption).
  destruct b as [| bb | z' | m' e' | s' | s' | u' o' | i' | m' e' | y' mo' d' | u' | u' | cl' n' o' v']; try (apply leaf_core_quiet; assumption).
  destruct (pystr_eqb cl cl'); [|apply leaf_core_quiet; assumption].
  destruct (pystr_eqb n n'); [eexists; reflexivity|].
  destruct (excluded F (atom_ty (AEnum cl n o v))); [eexists; reflexivity|].
  destruct (leaf_core_quiet (AStr n) (AStr n') (snoc p1 (PAttr attr_name)) (snoc p2 (PAttr attr_name)) eq_refl eq_refl) as [r1 E1].
  destruct (leaf_core_quiet (atom_of_e v) (atom_of_e v') (snoc p1 (PAttr attr_value)) (snoc p2 (PAttr attr_value))
              (quiet_atom_of_e v) (quiet_atom_of_e v')) as [r2 E2].
  rewrite E1, E2. cbn [bind]. eexists; reflexivity.
Qed.

Corollary atom_err_quiet : forall a b, quiet F a = true -> quiet F b = true -> atom_err udiff F a b = None.
Proof. intros a b Qa Qb. unfold atom_err. destruct (leafR_quiet a b [] [] Qa Qb) as [es E]. rewrite E. reflexivity. Qed.

(* ---- lists of atoms in the default mode ---- *)
Definition quiet_v (v : value) : bool := match v with VAtom a => quiet F a | _ => true end.

Lemma leaf_err_quiet : forall x y, quiet_v x = true -> quiet_v y = true -> leaf_err udiff F x y = None.
Proof. intros [a| | | | |] [b| | | | |] Hx Hy; try reflexivity. cbn [leaf_err]. apply atom_err_quiet; assumption. Qed.

Lemma pairs_err_quiet : forall xs ys i j, forallb quiet_v xs = true -> forallb quiet_v ys = true ->
  pairs_err udiff F xs ys i j = None.
Proof.
  induction xs as [|x xs IH]; intros ys i j Hx Hy; [reflexivity|].
  destruct ys as [|y ys]; [reflexivity|]. cbn [pairs_err forallb] in *.
  apply andb_true_iff in Hx. destruct Hx as [Hx1 Hx2]. apply andb_true_iff in Hy. destruct Hy as [Hy1 Hy2].
  rewrite (leaf_err_quiet x y Hx1 Hy1). rewrite (IH ys (S i) (S j) Hx2 Hy2).
  destruct (negb (Nat.eqb i j) && py_eq_leaf x y); reflexivity.
Qed.

Lemma forallb_skipn : forall {A} (f : A -> bool) n l, forallb f l = true -> forallb f (skipn n l) = true.
Proof. induction n as [|n IH]; intros l H; [exact H|]. destruct l as [|a l]; [reflexivity|]. cbn [skipn]. cbn [forallb] in H. apply andb_true_iff in H. apply IH. tauto. Qed.
Lemma forallb_firstn : forall {A} (f : A -> bool) n l, forallb f l = true -> forallb f (firstn n l) = true.
Proof.
  induction n as [|n IH]; intros l H; [reflexivity|]. destruct l as [|a l]; [reflexivity|]. cbn [firstn forallb] in *.
  apply andb_true_iff in H. destruct H as [H1 H2]. rewrite H1. apply IH. exact H2.
Qed.
Lemma forallb_slice : forall {A} (f : A -> bool) a b l, forallb f l = true -> forallb f (slice l a b) = true.
Proof. intros. unfold slice. apply forallb_firstn, forallb_skipn. assumption. Qed.

Lemma by_opcodes_err_quiet : forall os xs ys, forallb quiet_v xs = true -> forallb quiet_v ys = true ->
  by_opcodes_err udiff F os xs ys = None.
Proof.
  induction os as [|o r IH]; intros xs ys Hx Hy; [reflexivity|].
  unfold by_opcodes_err in *. cbn [fold_right]. rewrite (IH xs ys Hx Hy).
  destruct (otag o); try reflexivity.
  rewrite pairs_err_quiet; [reflexivity| |]; apply forallb_slice; assumption.
Qed.

Lemma default_leaf_err_quiet : forall xs ys p1 p2, forallb quiet_v xs = true -> forallb quiet_v ys = true ->
  default_leaf_err udiff ops F xs ys p1 p2 = None.
Proof.
  intros xs ys p1 p2 Hx Hy. unfold default_leaf_err.
  rewrite (by_opcodes_err_quiet _ xs ys Hx Hy), (pairs_err_quiet xs ys 0 0 Hx Hy).
  destruct (Nat.ltb 1 _); reflexivity.
Qed.

Lemma safe_quiet_v : forall xs, forallb (safe F) xs = true -> forallb quiet_v xs = true.
Proof.
  induction xs as [|x xs IH]; intros H; [reflexivity|]. cbn [forallb] in *. apply andb_true_iff in H. destruct H as [H1 H2].
  rewrite (IH H2), andb_true_r. destruct x; try reflexivity. exact H1.
Qed.

(* ---- sets ---- *)
Lemma hatom_err_quiet : forall a, member_quiet F a = true -> hatom_err F (unwrap F a) = None.
Proof.
  intros a H. unfold member_quiet in H. apply andb_true_iff in H. destruct H as [Q H].
  rewrite (unwrap_quiet a Q). unfold hatom_err. destruct (eff_sig F) as [d|] eqn:Es; [|reflexivity].
  destruct a; try reflexivity.
  - cbn [nstr]. cbn [quiet] in Q. unfold sig0 in Q. rewrite Es in Q. destruct (N.eqb d 0); [discriminate|reflexivity].
  - unfold has_sig in H. rewrite Es in H. discriminate.
Qed.

Lemma set_err_quiet : forall xs ys, forallb (member_quiet F) xs = true -> forallb (member_quiet F) ys = true ->
  set_err F xs ys = None.
Proof.
  intros xs ys Hx Hy. unfold set_err.
  assert (forallb (member_quiet F) (xs ++ ys) = true) as H by (rewrite forallb_app, Hx, Hy; reflexivity).
  clear Hx Hy. induction (xs ++ ys)%list as [|a l IH]; [reflexivity|].
  cbn [fold_right forallb] in *. apply andb_true_iff in H. destruct H as [H1 H2]. rewrite (IH H2).
  destruct (excl_hash F a); [reflexivity|]. rewrite (hatom_err_quiet a H1). reflexivity.
Qed.

(* ---- keys ---- *)
Lemma clean_key_quiet : forall k, cleaning F = true -> key_quiet F k = true -> exists ck, clean_key F k = Ok ck.
Proof.
  intros k Hc H. unfold key_quiet in H. apply andb_true_iff in H. destruct H as [Q H]. rewrite Hc in H. cbn [andb] in H.
  destruct k as [| ba | z | m e | s | s | u o | i | m e | y mo d | u | u | cl n o v]; cbn [clean_key];
    try (eexists; reflexivity); try (destruct (o_strty F); eexists; reflexivity); try (destruct (o_enum F); eexists; reflexivity);
    destruct (eff_sig F) as [dd|] eqn:Es; try (eexists; reflexivity); cbn [nstr num_of]; try (eexists; reflexivity);
    try (unfold has_sig in H; rewrite Es in H; cbn in H; discriminate).
  cbn [quiet] in Q. unfold sig0 in Q. rewrite Es in Q. destruct (N.eqb dd 0); [discriminate|eexists; reflexivity].
Qed.

Lemma clean_map_quiet : forall ks acc, cleaning F = true -> (forall k, In k ks -> key_quiet F k = true) ->
  exists km, clean_map F ks acc = Ok km.
Proof.
  induction ks as [|k r IH]; intros acc Hc Hs; cbn [clean_map]; [eexists; reflexivity|].
  destruct (clean_key_quiet k Hc (Hs k (or_introl eq_refl))) as [ck Eck]. rewrite Eck. cbn [bind].
  destruct (mem_atom ck (map fst acc)); apply IH; auto; intros x Hx; apply Hs; right; exact Hx.
Qed.

Lemma safe_key : forall kvs k, safe F (VDict kvs) = true -> In k (map fst kvs) -> key_quiet F k = true.
Proof.
  intros kvs k H Hin. cbn [safe] in H. rewrite forallb_forall in H.
  apply in_map_iff in Hin. destruct Hin as [[k' v] [E Hin]]. cbn in E. subst.
  specialize (H _ Hin). cbn [fst snd] in H. apply andb_true_iff in H. tauto.
Qed.
Lemma safe_val : forall kvs k v, safe F (VDict kvs) = true -> In (k, v) kvs -> safe F v = true.
Proof.
  intros kvs k v H Hin. cbn [safe] in H. rewrite forallb_forall in H.
  specialize (H _ Hin). cbn [fst snd] in H. apply andb_true_iff in H. tauto.
Qed.

Lemma kmap_quiet : forall kvs0, safe F (VDict kvs0) = true -> exists km, kmap F (keys_of c kvs0) = Ok km.
Proof.
  intros kvs0 Hs0. unfold kmap. destruct (cleaning F) eqn:Hc; [|eexists; reflexivity].
  apply clean_map_quiet; [exact Hc|]. intros k Hk. apply keys_of_In in Hk. destruct Hk as [Hk _]. exact (safe_key kvs0 k Hs0 Hk).
Qed.

(* a container never meets an Enum member under use_enum_value when both sides are safe *)
Lemma safe_not_enum_v : forall v, safe F v = true -> o_enum F && is_enum_v v = false.
Proof. intros v H. destruct v as [a| | | | |]; cbn [is_enum_v]; rewrite ?andb_false_r; try reflexivity. apply quiet_enum. exact H. Qed.

Theorem never_raises : forall t1 t2 p1 p2, safe F t1 = true -> safe F t2 = true ->
  exists r, diffF udiff ops c F t1 t2 p1 p2 = Ok r.
Proof.
  induction t1 as [a|xs IH|xs IH|kvs IH|xs|xs] using value_ind'; intros t2 p1 p2 Hs1 Hs2.
  - (* atom *)
    destruct t2 as [b|ys|ys|kvs2|ys|ys].
    + cbn [diffF]. cbn [safe] in Hs1, Hs2. destruct (leafR_quiet a b p1 p2 Hs1 Hs2) as [es E]. rewrite E. eexists; reflexivity.
    + cbn [diffF]. destruct (excluded F _ || excluded F _); [eexists; reflexivity|].
      pose proof (safe_not_enum_v _ Hs1) as K. cbn [is_enum_v] in *. rewrite orb_false_r. rewrite K.
      replace (ty_eqb (type_of (VAtom a)) (type_of (VList ys))) with false by (destruct a; reflexivity). eexists; reflexivity.
    + cbn [diffF]. destruct (excluded F _ || excluded F _); [eexists; reflexivity|].
      pose proof (safe_not_enum_v _ Hs1) as K. cbn [is_enum_v] in *. rewrite orb_false_r. rewrite K.
      replace (ty_eqb (type_of (VAtom a)) (type_of (VTuple ys))) with false by (destruct a; reflexivity). eexists; reflexivity.
    + cbn [diffF]. destruct (excluded F _ || excluded F _); [eexists; reflexivity|].
      pose proof (safe_not_enum_v _ Hs1) as K. cbn [is_enum_v] in *. rewrite orb_false_r. rewrite K.
      replace (ty_eqb (type_of (VAtom a)) (type_of (VDict kvs2))) with false by (destruct a; reflexivity). eexists; reflexivity.
    + cbn [diffF]. destruct (excluded F _ || excluded F _); [eexists; reflexivity|].
      pose proof (safe_not_enum_v _ Hs1) as K. cbn [is_enum_v] in *. rewrite orb_false_r. rewrite K.
      replace (ty_eqb (type_of (VAtom a)) (type_of (VSet ys))) with false by (destruct a; reflexivity). eexists; reflexivity.
    + cbn [diffF]. destruct (excluded F _ || excluded F _); [eexists; reflexivity|].
      pose proof (safe_not_enum_v _ Hs1) as K. cbn [is_enum_v] in *. rewrite orb_false_r. rewrite K.
      replace (ty_eqb (type_of (VAtom a)) (type_of (VFrozen ys))) with false by (destruct a; reflexivity). eexists; reflexivity.
  - (* list *)
    destruct t2 as [b|ys|ys|kvs2|ys|ys]; cbn [diffF]; (destruct (excluded F _ || excluded F _); [eexists; reflexivity|]);
      cbn [is_enum_v orb type_of ty_eqb negb andb]; rewrite ?andb_false_r; cbn [negb andb]; try (eexists; reflexivity).
    + pose proof (safe_not_enum_v _ Hs2) as K. cbn [is_enum_v] in K. rewrite K.
      destruct b; eexists; reflexivity.
    + destruct (negb (zip c) && forallb is_basic xs && forallb is_basic ys).
      * cbn [safe] in Hs1, Hs2. rewrite (default_leaf_err_quiet xs ys p1 p2 (safe_quiet_v _ Hs1) (safe_quiet_v _ Hs2)).
        destruct (default_leaf_listF udiff ops F xs ys p1 p2). eexists; reflexivity.
      * 
cbn [safe] in Hs1, Hs2. generalize 0 as i. revert ys Hs2.
        induction xs as [|x xs IHxs]; intros ys Hs2 i; [eexists; reflexivity|].
        destruct ys as [|y ys]; [eexists; reflexivity|].
        inversion IH as [|? ? Hx Hxs]; subst.
        cbn [forallb] in Hs1, Hs2. apply andb_true_iff in Hs1. destruct Hs1 as [Ha Hb].
        apply andb_true_iff in Hs2. destruct Hs2 as [Ha2 Hb2].
        destruct (Hx y (snoc p1 (PIdx i)) (snoc p2 (PIdx i)) Ha Ha2) as [r1 E1]. rewrite E1. cbn [bind].
        destruct (IHxs Hxs Hb ys Hb2 (S i)) as [r2 E2]. rewrite E2. cbn [bind]. eexists; reflexivity.
  - (* tuple *)
    destruct t2 as [b|ys|ys|kvs2|ys|ys]; cbn [diffF]; (destruct (excluded F _ || excluded F _); [eexists; reflexivity|]);
      cbn [is_enum_v orb type_of ty_eqb negb andb]; rewrite ?andb_false_r; cbn [negb andb]; try (eexists; reflexivity).
    + pose proof (safe_not_enum_v _ Hs2) as K. cbn [is_enum_v] in K. rewrite K.
      destruct b; eexists; reflexivity.
    + destruct (negb (zip c) && forallb is_basic xs && forallb is_basic ys).
      * cbn [safe] in Hs1, Hs2. rewrite (default_leaf_err_quiet xs ys p1 p2 (safe_quiet_v _ Hs1) (safe_quiet_v _ Hs2)).
        destruct (default_leaf_listF udiff ops F xs ys p1 p2). eexists; reflexivity.
      * 
cbn [safe] in Hs1, Hs2. generalize 0 as i. revert ys Hs2.
        induction xs as [|x xs IHxs]; intros ys Hs2 i; [eexists; reflexivity|].
        destruct ys as [|y ys]; [eexists; reflexivity|].
        inversion IH as [|? ? Hx Hxs]; subst.
        cbn [forallb] in Hs1, Hs2. apply andb_true_iff in Hs1. destruct Hs1 as [Ha Hb].
        apply andb_true_iff in Hs2. destruct Hs2 as [Ha2 Hb2].
        destruct (Hx y (snoc p1 (PIdx i)) (snoc p2 (PIdx i)) Ha Ha2) as [r1 E1]. rewrite E1. cbn [bind].
        destruct (IHxs Hxs Hb ys Hb2 (S i)) as [r2 E2]. rewrite E2. cbn [bind]. eexists; reflexivity.
  - (* dict *)
    destruct t2 as [b|ys|ys|kvs2|ys|ys]; cbn [diffF]; (destruct (excluded F _ || excluded F _); [eexists; reflexivity|]);
      cbn [is_enum_v orb type_of ty_eqb negb andb]; rewrite ?andb_false_r; cbn [negb andb]; try (eexists; reflexivity).
    + pose proof (safe_not_enum_v _ Hs2) as K. cbn [is_enum_v] in K. rewrite K.
      destruct b; eexists; reflexivity.
    + destruct (kmap_quiet kvs Hs1) as [km1 E1].
      destruct (kmap_quiet kvs2 Hs2) as [km2 E2].
      rewrite E1, E2. cbn [bind].
      destruct (shortcutF c _ _); [eexists; reflexivity|].
      match goal with |- exists r, bind ?G _ = _ => assert (exists x, G = Ok x) as Hgo end.
      { assert (forall k v, In (k, v) kvs -> safe F v = true) as Hv by (intros k v H; exact (safe_val kvs k v Hs1 H)).
        clear E1 Hs1. induction kvs as [|[k v1] r IHr]; [eexists; reflexivity|].
        inversion IH as [|? ? Hx Hxs]; subst. cbn [snd] in Hx.
        destruct (IHr Hxs (fun k' v' H => Hv k' v' (or_intror H))) as [rest Erest]. rewrite Erest.
        assert (exists x, (if keep_key c k then
                  match repr_ckey F km1 k with
                  | Some ck =>
                      match find (py_eq ck) (ckeys F (keys_of c kvs2) km2) with
                      | Some ck' =>
                          match assoc (orig_key F km2 ck') kvs2 with
                          | Some v2 => diffF udiff ops c F v1 v2 (snoc p1 (PKey ck')) (snoc p2 (PKey ck'))
                          | None => Ok ([], [])
                          end
                      | None => Ok ([], [])
                      end
                  | None => Ok ([], [])
                  end else Ok ([], [])) = Ok x) as [x Ex].
        { destruct (keep_key c k); [|eexists; reflexivity].
          destruct (repr_ckey F km1 k); [|eexists; reflexivity].
          destruct (find _ _) as [ck'|]; [|eexists; reflexivity].
          destruct (assoc _ kvs2) as [v2|] eqn:Ea; [|eexists; reflexivity].
          apply assoc_In in Ea. destruct Ea as [k2 [Hin _]].
          apply Hx; [exact (Hv k v1 (or_introl eq_refl))|exact (safe_val kvs2 k2 v2 Hs2 Hin)]. }
        rewrite Ex. cbn [bind]. eexists; reflexivity. }
      destruct Hgo as [x Ex]. rewrite Ex. cbn [bind]. eexists; reflexivity.
  - (* set *)
    destruct t2 as [b|ys|ys|kvs2|ys|ys]; cbn [diffF]; (destruct (excluded F _ || excluded F _); [eexists; reflexivity|]);
      cbn [is_enum_v orb type_of ty_eqb negb andb]; rewrite ?andb_false_r; cbn [negb andb]; try (eexists; reflexivity).
    + pose proof (safe_not_enum_v _ Hs2) as K. cbn [is_enum_v] in K. rewrite K.
      destruct b; eexists; reflexivity.
    + cbn [safe] in Hs1, Hs2. rewrite (set_err_quiet xs ys Hs1 Hs2). eexists; reflexivity.
  - (* frozenset *)
    destruct t2 as [b|ys|ys|kvs2|ys|ys]; cbn [diffF]; (destruct (excluded F _ || excluded F _); [eexists; reflexivity|]);
      cbn [is_enum_v orb type_of ty_eqb negb andb]; rewrite ?andb_false_r; cbn [negb andb]; try (eexists; reflexivity).
    + pose proof (safe_not_enum_v _ Hs2) as K. cbn [is_enum_v] in K. rewrite K.
      destruct b; eexists; reflexivity.
    + cbn [safe] in Hs1, Hs2. rewrite (set_err_quiet xs ys Hs1 Hs2). eexists; reflexivity.
Qed.

Corollary never_raises_run : forall t1 t2, safe F t1 = true -> safe F t2 = true ->
  exists r, run_optF udiff ops c F t1 t2 = Ok r.
Proof.
  intros t1 t2 H1 H2. unfold run_optF. destruct (never_raises t1 t2 [] [] H1 H2) as [r E]. rewrite E. eexists; reflexivity.
Qed.

End Safe.

(* without options every value of the universe is safe: the plain run never raises *)
Lemma quiet_no_opts : forall a, quiet no_opts a = true.
Proof. destruct a; reflexivity. Qed.
Lemma safe_no_opts : forall v, safe no_opts v = true.
Proof.
  induction v as [a|xs IH|xs IH|kvs IH|xs|xs] using value_ind'; cbn [safe].
  - apply quiet_no_opts.
  - apply forallb_forall. rewrite Forall_forall in IH. exact IH.
  - apply forallb_forall. rewrite Forall_forall in IH. exact IH.
  - apply forallb_forall. rewrite Forall_forall in IH. intros [k v] Hin. cbn [fst snd].
    pose proof (IH _ Hin) as K. cbn [snd] in K. rewrite K. unfold key_quiet. rewrite quiet_no_opts. reflexivity.
  - apply forallb_forall. intros a _. unfold member_quiet. rewrite quiet_no_opts. reflexivity.
  - apply forallb_forall. intros a _. unfold member_quiet. rewrite quiet_no_opts. reflexivity.
Qed.

(** (round-3 extended universe) float(x) for a rational x = p / q ([YModel.dy_of_q]: the nearest double, 53 bits,
    round-half-even) depends only on the VALUE p / q, not on the fraction that represents it; hence float(Decimal)
    is the same double for Decimals of one value, and math.isclose finds ==-equal Decimals close. *)
From Coq Require Import List ZArith NArith Bool Arith Lia.
Import ListNotations.
From DD Require Import Base.PyStr Options.OptModel Options.OptDtModel Options.YValue Options.YModel
  Options.YProofsBase Options.YProofsCompNum.
Local Open Scope Z_scope.

(* ---- the shift chosen by dy_of_q ---- *)
Definition flo (a q s : Z) : Z := if 0 <=? s then (a * 2 ^ s) / q else a / (q * 2 ^ (- s)).
Definition shift (a q : Z) : Z :=
  let s0 := 52 - (Z.log2 a - Z.log2 q) in if flo a q s0 <? 2 ^ 52 then s0 + 1 else s0.

Lemma dy_of_q_unfold : forall p q, dy_of_q p q =
  if p =? 0 then (0, 0%N) else
  let a := Z.abs p in
  let s := shift a q in
  let n := if 0 <=? s then rhe_q (a * 2 ^ s) q else rhe_q a (q * 2 ^ (- s)) in
  let n := if p <? 0 then - n else n in
  if 0 <=? s then dy_canon (n, Z.to_N s) else (n * 2 ^ (- s), 0%N).
Proof. reflexivity. Qed.

(* v * 2^s for v = a / q, as a fraction with positive powers only *)
Definition pw (x : Z) : Z := 2 ^ (Z.max 0 x).
Lemma pw_pos : forall x, 0 < pw x.
Proof. intros x. unfold pw. apply Z.pow_pos_nonneg; lia. Qed.

Lemma flo_eq : forall a q s, flo a q s = (a * pw s) / (q * pw (- s)).
Proof.
  intros a q s. unfold flo, pw. destruct (0 <=? s) eqn:E.
  - apply Z.leb_le in E. replace (Z.max 0 s) with s by lia. replace (Z.max 0 (- s)) with 0 by lia.
    rewrite Z.pow_0_r, Z.mul_1_r. reflexivity.
  - apply Z.leb_gt in E. replace (Z.max 0 s) with 0 by lia. replace (Z.max 0 (- s)) with (- s) by lia.
    rewrite Z.pow_0_r, Z.mul_1_r. reflexivity.
Qed.

(* the value at s' is 2^(s'-s) times the value at s *)
Lemma pw_shift : forall s s', s <= s' -> pw s' * pw (- s) = 2 ^ (s' - s) * pw s * pw (- s').
Proof.
  intros s s' H. unfold pw. rewrite <- !Z.pow_add_r by lia. f_equal. lia.
Qed.

(* 2^52 <= v * 2^s < 2^53 *)
Definition cond (a q s : Z) : Prop := 2 ^ 52 * (q * pw (- s)) <= a * pw s /\ a * pw s < 2 ^ 53 * (q * pw (- s)).

Lemma cond_unique : forall a q s s', 0 < a -> 0 < q -> cond a q s -> cond a q s' -> s = s'.
Proof.
  assert (forall a q s s', 0 < a -> 0 < q -> cond a q s -> cond a q s' -> s < s' -> False) as K.
  { intros a q s s' Ha Hq C1 C2 Hlt. destruct C1 as [L1 U1]. destruct C2 as [L2 U2].
    pose proof (pw_shift s s' (Z.lt_le_incl _ _ Hlt)) as M.
    assert (2 <= 2 ^ (s' - s)) as HK.
    { replace (s' - s) with (Z.succ (s' - s - 1)) by lia. rewrite Z.pow_succ_r by lia.
      assert (0 < 2 ^ (s' - s - 1)) by (apply Z.pow_pos_nonneg; lia). lia. }
    pose proof (pw_pos s) as PA. pose proof (pw_pos (- s)) as PB. pose proof (pw_pos s') as PA'. pose proof (pw_pos (- s')) as PB'.
    set (A := pw s) in *. set (B := pw (- s)) in *. set (A' := pw s') in *. set (B' := pw (- s')) in *.
    set (K := 2 ^ (s' - s)) in *. change (2 ^ 53) with (2 * 2 ^ 52) in *. set (T := 2 ^ 52) in *.
    assert (0 < T) as PT by (subst T; reflexivity).
    (* a A' B < 2 T q B' B  and  a A' B = K a A B' >= 2 T q B B' *)
    assert (a * A' * B < 2 * T * (q * B') * B) as E1 by (apply Z.mul_lt_mono_pos_r; lia).
    assert (a * A' * B = K * (a * A) * B') as E2 by (rewrite <- Z.mul_assoc, M; ring).
    assert (T * (q * B) * B' <= (a * A) * B') as E3 by (apply Z.mul_le_mono_nonneg_r; lia).
    assert (0 <= T * (q * B) * B') as E4 by (apply Z.mul_nonneg_nonneg; [apply Z.mul_nonneg_nonneg|]; nia).
    assert (2 * (T * (q * B) * B') <= K * ((a * A) * B')) as E5 by nia.
    nia. }
  intros a q s s' Ha Hq C1 C2. destruct (Z.lt_trichotomy s s') as [H|[H|H]]; [exfalso; exact (K a q s s' Ha Hq C1 C2 H)|exact H|exfalso; exact (K a q s' s Ha Hq C2 C1 H)].
Qed.

Lemma cond_scale : forall a q k s, 0 < k -> cond (a * k) (q * k) s -> cond a q s.
Proof.
  intros a q k s Hk C. destruct C as [L U]. unfold cond.
  pose proof (pw_pos s) as PA. pose proof (pw_pos (- s)) as PB.
  set (A := pw s) in *. set (B := pw (- s)) in *. set (T := 2 ^ 52) in *. set (T' := 2 ^ 53) in *.
  split.
  - apply (Z.mul_le_mono_pos_r _ _ k Hk). replace (T * (q * B) * k) with (T * (q * k * B)) by ring.
    replace (a * A * k) with (a * k * A) by ring. exact L.
  - apply (Z.mul_lt_mono_pos_r k _ _ Hk). replace (T' * (q * B) * k) with (T' * (q * k * B)) by ring.
    replace (a * A * k) with (a * k * A) by ring. exact U.
Qed.

Lemma div_lt_inv : forall n d t, 0 < d -> n / d < t -> n < t * d.
Proof.
  intros n d t Hd H. destruct (Z_lt_le_dec n (t * d)) as [K|K]; [exact K|].
  exfalso. assert (t <= n / d) by (apply Z.div_le_lower_bound; lia). lia.
Qed.
Lemma div_ge_inv : forall n d t, 0 < d -> t <= n / d -> t * d <= n.
Proof. intros n d t Hd H. pose proof (Z.mul_div_le n d Hd). nia. Qed.

(* the shift chosen by dy_of_q normalises the value into [2^52, 2^53) *)
Lemma shift_spec : forall a q, 0 < a -> 0 < q -> cond a q (shift a q).
Proof.
  intros a q Ha Hq. unfold shift.
  pose proof (Z.log2_spec a Ha) as [La Ua]. pose proof (Z.log2_spec q Hq) as [Lq Uq].
  pose proof (Z.log2_nonneg a) as Na. pose proof (Z.log2_nonneg q) as Nq.
  set (la := Z.log2 a) in *. set (lq := Z.log2 q) in *. set (s0 := 52 - (la - lq)).
  pose proof (pw_pos s0) as PA. pose proof (pw_pos (- s0)) as PB.
  (* 2^51 <= v 2^s0 < 2^53 *)
  assert (2 ^ 51 * (q * pw (- s0)) <= a * pw s0) as C1.
  { assert (2 ^ 51 * 2 ^ Z.succ lq * pw (- s0) = 2 ^ la * pw s0) as E
      by (unfold pw; rewrite <- !Z.pow_add_r by lia; f_equal; lia).
    assert (2 ^ 51 * (q * pw (- s0)) <= 2 ^ 51 * 2 ^ Z.succ lq * pw (- s0)) as E1.
    { rewrite <- Z.mul_assoc. apply Z.mul_le_mono_nonneg_l; [lia|]. apply Z.mul_le_mono_nonneg_r; lia. }
    assert (2 ^ la * pw s0 <= a * pw s0) as E2 by (apply Z.mul_le_mono_nonneg_r; lia).
    lia. }
  assert (a * pw s0 < 2 ^ 53 * (q * pw (- s0))) as C2.
  { assert (2 ^ Z.succ la * pw s0 = 2 ^ 53 * 2 ^ lq * pw (- s0)) as E
      by (unfold pw; rewrite <- !Z.pow_add_r by lia; f_equal; lia).
    assert (a * pw s0 < 2 ^ Z.succ la * pw s0) as E1 by (apply Z.mul_lt_mono_pos_r; lia).
    assert (2 ^ 53 * 2 ^ lq * pw (- s0) <= 2 ^ 53 * (q * pw (- s0))) as E2.
    { rewrite <- Z.mul_assoc. apply Z.mul_le_mono_nonneg_l; [lia|]. apply Z.mul_le_mono_nonneg_r; lia. }
    lia. }
  assert (0 < q * pw (- s0)) as PD by (apply Z.mul_pos_pos; lia).
  destruct (flo a q s0 <? 2 ^ 52) eqn:Ef.
  - apply Z.ltb_lt in Ef. rewrite flo_eq in Ef. apply div_lt_inv in Ef; [|exact PD].
    pose proof (pw_shift s0 (s0 + 1) ltac:(lia)) as M. replace (s0 + 1 - s0) with 1 in M by lia. change (2 ^ 1) with 2 in M.
    pose proof (pw_pos (s0 + 1)) as PA'. pose proof (pw_pos (- (s0 + 1))) as PB'.
    unfold cond.
    set (A := pw s0) in *. set (B := pw (- s0)) in *. set (A' := pw (s0 + 1)) in *. set (B' := pw (- (s0 + 1))) in *.
    change (2 ^ 53) with (2 * 2 ^ 52) in *. change (2 ^ 52) with (2 * 2 ^ 51) in *. set (T := 2 ^ 51) in *.
    assert (0 < T) as PT by (subst T; reflexivity).
    assert (a * A' * B = 2 * (a * A) * B') as E2 by (rewrite <- Z.mul_assoc, M; ring).
    split.
    + apply (Z.mul_le_mono_pos_r _ _ B PB).
      assert (T * (q * B) * B' <= (a * A) * B') as E3 by (apply Z.mul_le_mono_nonneg_r; lia).
      nia.
    + apply (Z.mul_lt_mono_pos_r B _ _ PB).
      assert ((a * A) * B' < 2 * T * (q * B) * B') as E3 by (apply Z.mul_lt_mono_pos_r; lia).
      nia.
  - apply Z.ltb_ge in Ef. rewrite flo_eq in Ef. apply div_ge_inv in Ef; [|exact PD].
    split; [exact Ef|exact C2].
Qed.

Lemma shift_scale : forall a q k, 0 < a -> 0 < q -> 0 < k -> shift (a * k) (q * k) = shift a q.
Proof.
  intros a q k Ha Hq Hk. apply (cond_unique a q); try assumption.
  - apply (cond_scale a q k); [exact Hk|]. apply shift_spec; apply Z.mul_pos_pos; assumption.
  - apply shift_spec; assumption.
Qed.

(* ---- float(p / q) depends on the value only ---- *)
Lemma dy_of_q_scale : forall p q k, 0 < q -> 0 < k -> dy_of_q (p * k) (q * k) = dy_of_q p q.
Proof.
  intros p q k Hq Hk. rewrite !dy_of_q_unfold.
  assert ((p * k =? 0) = (p =? 0)) as E0.
  { destruct (Z.eqb_spec p 0) as [E|E]; [subst; reflexivity|]. apply Z.eqb_neq. nia. }
  rewrite E0. destruct (Z.eqb_spec p 0) as [Ep|Ep]; [reflexivity|].
  assert ((p * k <? 0) = (p <? 0)) as E1.
  { destruct (Z.ltb_spec p 0) as [E|E]; [apply Z.ltb_lt; nia|apply Z.ltb_ge; nia]. }
  assert (Z.abs (p * k) = Z.abs p * k) as E2 by (rewrite Z.abs_mul; f_equal; lia).
  cbv zeta. rewrite E1, E2. rewrite (shift_scale (Z.abs p) q k) by lia.
  set (a := Z.abs p). set (s := shift a q).
  assert (rhe_q (a * k * 2 ^ s) (q * k) = rhe_q (a * 2 ^ s) q) as R1
    by (replace (a * k * 2 ^ s) with (a * 2 ^ s * k) by ring; apply rhe_q_scale; assumption).
  assert (s < 0 -> rhe_q (a * k) (q * k * 2 ^ (- s)) = rhe_q a (q * 2 ^ (- s))) as R2.
  { intros Hs. replace (q * k * 2 ^ (- s)) with (q * 2 ^ (- s) * k) by ring. apply rhe_q_scale; [|assumption].
    apply Z.mul_pos_pos; [assumption|]. apply Z.pow_pos_nonneg; lia. }
  destruct (0 <=? s) eqn:Es.
  - rewrite R1. reflexivity.
  - apply Z.leb_gt in Es. rewrite (R2 Es). reflexivity.
Qed.

Theorem dy_of_q_eq : forall p q p' q', 0 < q -> 0 < q' -> p * q' = p' * q -> dy_of_q p q = dy_of_q p' q'.
Proof.
  intros p q p' q' Hq Hq' H.
  rewrite <- (dy_of_q_scale p q q' Hq Hq'). rewrite <- (dy_of_q_scale p' q' q Hq' Hq).
  rewrite H. replace (q * q') with (q' * q) by ring. reflexivity.
Qed.

(* float(Decimal) is the same double for Decimals of one value *)
Lemma dy_of_dec_qv : forall m e x, qv (ADec m e) = Some x -> dy_of_dec m e = dy_of_q (fst x) (snd x).
Proof.
  intros m e x H. unfold qv in H. unfold dy_of_dec. destruct (0 <=? e); injection H as H; subst x; reflexivity.
Qed.

Theorem dy_of_dec_eq : forall m e m' e', py_eq (ADec m e) (ADec m' e') = true -> dy_of_dec m e = dy_of_dec m' e'.
Proof.
  intros m e m' e' H. unfold py_eq in H.
  destruct (qv (ADec m e)) as [x|] eqn:Ex; [|discriminate]. destruct (qv (ADec m' e')) as [y|] eqn:Ey; [|discriminate].
  rewrite (dy_of_dec_qv m e x Ex), (dy_of_dec_qv m' e' y Ey).
  unfold q_eqb in H. apply Z.eqb_eq in H.
  apply dy_of_q_eq; [exact (qv_pos _ _ Ex)|exact (qv_pos _ _ Ey)|exact H].
Qed.

(* ---- a rational that IS a double converts to itself ---- *)
Lemma dy_canon_aux_value : forall fuel m e,
  fst (dy_canon_aux fuel m e) * 2 ^ Z.of_N e = m * 2 ^ Z.of_N (snd (dy_canon_aux fuel m e)).
Proof.
  induction fuel as [|f IH]; intros m e; cbn [dy_canon_aux]; [reflexivity|].
  destruct (N.eqb e 0 || Z.odd m)%bool eqn:E; [reflexivity|].
  apply orb_false_iff in E. destruct E as [E1 E2]. apply N.eqb_neq in E1.
  specialize (IH (m / 2) (N.pred e)).
  set (r := dy_canon_aux f (m / 2) (N.pred e)) in *.
  assert (m = 2 * (m / 2)) as Em.
  { pose proof (Z.div_mod m 2 ltac:(lia)) as D. rewrite Zmod_odd, E2 in D. lia. }
  assert (2 ^ Z.of_N e = 2 * 2 ^ Z.of_N (N.pred e)) as Ee.
  { replace (Z.of_N e) with (Z.succ (Z.of_N (N.pred e))) by lia. apply Z.pow_succ_r. lia. }
  rewrite Ee. set (h := m / 2) in *. rewrite Em.
  replace (fst r * (2 * 2 ^ Z.of_N (N.pred e))) with (2 * (fst r * 2 ^ Z.of_N (N.pred e))) by ring. rewrite IH. ring.
Qed.
Lemma dy_canon_value : forall x, fst (dy_canon x) * 2 ^ Z.of_N (snd x) = fst x * 2 ^ Z.of_N (snd (dy_canon x)).
Proof.
  intros [m e]. unfold dy_canon. cbn [fst snd]. destruct (Z.eqb_spec m 0) as [E|E]; [subst; reflexivity|].
  apply dy_canon_aux_value.
Qed.

Theorem dy_of_q_double : forall m e, Z.abs m < 2 ^ 53 ->
  fst (dy_of_q m (2 ^ Z.of_N e)) * 2 ^ Z.of_N e = m * 2 ^ Z.of_N (snd (dy_of_q m (2 ^ Z.of_N e))).
Proof.
  intros m e Hm. rewrite dy_of_q_unfold.
  destruct (Z.eqb_spec m 0) as [E0|E0]; [subst; reflexivity|]. cbv zeta.
  assert (0 < 2 ^ Z.of_N e) as Pq by (apply Z.pow_pos_nonneg; lia).
  assert (0 < Z.abs m) as Pa by lia.
  pose proof (shift_spec (Z.abs m) (2 ^ Z.of_N e) Pa Pq) as C. destruct C as [L U].
  set (a := Z.abs m) in *. set (s := shift a (2 ^ Z.of_N e)) in *. set (E := Z.of_N e) in *.
  assert (0 <= E) as PE by lia.
  (* the shift is at least e *)
  assert (E <= s) as Hs.
  { destruct (Z_lt_le_dec s E) as [K|K]; [exfalso|exact K].
    pose proof (pw_pos s) as PA. pose proof (pw_pos (- s)) as PB.
    assert (2 ^ 52 * (2 ^ E * pw (- s)) < 2 ^ 53 * pw s) as K1 by nia.
    change (2 ^ 53) with (2 * 2 ^ 52) in K1. assert (2 ^ E * pw (- s) < 2 * pw s) as K2 by nia.
    unfold pw in K2. destruct (Z_lt_le_dec s 0) as [N|N].
    - replace (Z.max 0 s) with 0 in K2 by lia. replace (Z.max 0 (- s)) with (- s) in K2 by lia.
      assert (2 <= 2 ^ (- s)) by (replace (- s) with (Z.succ (- s - 1)) by lia; rewrite Z.pow_succ_r by lia;
                                   assert (0 < 2 ^ (- s - 1)) by (apply Z.pow_pos_nonneg; lia); lia).
      change (2 ^ 0) with 1 in K2. assert (1 <= 2 ^ E) by lia. nia.
    - replace (Z.max 0 s) with s in K2 by lia. replace (Z.max 0 (- s)) with 0 in K2 by lia.
      change (2 ^ 0) with 1 in K2. rewrite Z.mul_1_r in K2. rewrite <- Z.pow_succ_r in K2 by lia.
      apply Z.pow_lt_mono_r_iff in K2; lia. }
  assert ((0 <=? s) = true) as Es by (apply Z.leb_le; lia). rewrite Es.
  assert (rhe_q (a * 2 ^ s) (2 ^ E) = a * 2 ^ (s - E)) as R.
  { replace (2 ^ s) with (2 ^ (s - E) * 2 ^ E) by (rewrite <- Z.pow_add_r by lia; f_equal; lia).
    rewrite Z.mul_assoc. rewrite <- (Z.mul_1_l (2 ^ E)) at 2. rewrite rhe_q_scale by lia. apply rhe_q_int. }
  rewrite R.
  set (n := if m <? 0 then - (a * 2 ^ (s - E)) else a * 2 ^ (s - E)).
  assert (n * 2 ^ E = m * 2 ^ s) as En.
  { assert (2 ^ s = 2 ^ (s - E) * 2 ^ E) as Ps by (rewrite <- Z.pow_add_r by lia; f_equal; lia).
    subst n a. destruct (Z.ltb_spec m 0); rewrite Ps; [rewrite Z.abs_neq by lia|rewrite Z.abs_eq by lia]; ring. }
  pose proof (dy_canon_value (n, Z.to_N s)) as V. cbn [fst snd] in V. rewrite Z2N.id in V by lia.
  set (r := dy_canon (n, Z.to_N s)) in *.
  assert (0 < 2 ^ s) as P2 by (apply Z.pow_pos_nonneg; lia).
  apply (Z.mul_cancel_r _ _ (2 ^ s)); [lia|].
  transitivity (n * 2 ^ E * 2 ^ Z.of_N (snd r)); [|rewrite En; ring].
  replace (n * 2 ^ E * 2 ^ Z.of_N (snd r)) with ((n * 2 ^ Z.of_N (snd r)) * 2 ^ E) by ring. rewrite <- V. ring.
Qed.

(* ---- math.isclose on ==-equal numbers, Decimals included ---- *)
(* what float() loses nothing on: bool, int / float with at most 53 significant bits (every real float); Decimals are
   always allowed (their value is compared through the same conversion on both sides, or against an exact double) *)
Definition is_double (a : atom) : bool :=
  match a with
  | AFloat m _ | AEnum _ _ _ (EFloat m _) => Z.abs m <? 2 ^ 53
  | AInt z | AEnum _ _ _ (EInt z) => Z.abs z <? 2 ^ 53      (* an Enum member: its value (use_enum_value compares it) *)
  | _ => true
  end.
Lemma is_double_atom_of_e : forall c n o v, is_double (AEnum c n o v) = true -> is_double (atom_of_e v) = true.
Proof. intros c n o v H. destruct v; try reflexivity; exact H. Qed.
Lemma is_double_unwrap : forall H a, is_double a = true -> is_double (unwrap H a) = true.
Proof.
  intros H a E. destruct a; try exact E. cbn [unwrap]. destruct (o_enum H); [|exact E]. eapply is_double_atom_of_e. exact E.
Qed.

(* float(x) for a bool / int / float within 53 bits, or a Decimal, that == the double m / 2^e, is that double *)
Lemma fl_of_value : forall a x, is_num a = true -> is_double a = true -> fl_of a = Some (Some x) ->
  forall b m e, is_bin b = true -> is_double b = true -> num_of b = Some (m, e) -> py_eq a b = true ->
  fst x * 2 ^ Z.of_N e = m * 2 ^ Z.of_N (snd x).
Proof.
  intros a x Ha Da Hx b m e Hb Db Hn H.
  assert (qv b = Some (m, 2 ^ Z.of_N e)) as Qb by (destruct b; cbn in Hb; try discriminate; unfold qv; rewrite Hn; reflexivity).
  assert (Z.abs m < 2 ^ 53) as Bm.
  { destruct b; cbn [is_bin] in Hb; try discriminate; cbn [num_of] in Hn; injection Hn as Hn1 Hn2; subst;
      cbn [is_double] in Db; try (apply Z.ltb_lt; exact Db). destruct b; cbn; lia. }
  unfold py_eq in H. rewrite Qb in H.
  destruct (qv a) as [y|] eqn:Qa; [|discriminate]. unfold q_eqb in H. cbn [fst snd] in H. apply Z.eqb_eq in H.
  destruct a as [| ba | za | ma ea | sa | sa | ua oa | ia | ma ea | ya moa da | ua | ua | cla na oa va]; cbn [is_num] in Ha; try discriminate.
  - cbn [fl_of num_of] in Hx. injection Hx as Hx. subst x. unfold qv in Qa. cbn [num_of] in Qa. injection Qa as Qa. subst y.
    cbn [fst snd] in *. lia.
  - cbn [fl_of num_of] in Hx. injection Hx as Hx. subst x. unfold qv in Qa. cbn [num_of] in Qa. injection Qa as Qa. subst y.
    cbn [fst snd] in *. lia.
  - cbn [fl_of num_of] in Hx. injection Hx as Hx. subst x. unfold qv in Qa. cbn [num_of] in Qa. injection Qa as Qa. subst y.
    cbn [fst snd] in *. lia.
  - cbn [fl_of] in Hx. injection Hx as Hx. subst x.
    rewrite (dy_of_dec_qv ma ea y Qa).
    assert (0 < 2 ^ Z.of_N e) as Pq by (apply Z.pow_pos_nonneg; lia).
    rewrite (dy_of_q_eq (fst y) (snd y) m (2 ^ Z.of_N e) (qv_pos _ _ Qa) Pq H).
    apply dy_of_q_double. exact Bm.
Qed.

Theorem is_close_py_eq_dec : forall a b x y e, is_num a = true -> is_num b = true ->
  is_double a = true -> is_double b = true ->
  fl_of a = Some (Some x) -> fl_of b = Some (Some y) -> py_eq a b = true -> is_close x y e = true.
Proof.
  intros a b x y e Ha Hb Da Db Hx Hy H. unfold is_close.
  assert (dy_eqb x y = true) as K.
  { destruct (is_bin b) eqn:Bb.
    - (* b is a bool / int / float: y is its own double *)
      assert (num_of b = Some y) as Ny by (destruct b; cbn in Bb; try discriminate; cbn [fl_of] in Hy; congruence).
      destruct y as [m e']. apply dy_eqb_value. cbn [fst snd].
      exact (fl_of_value a x Ha Da Hx b m e' Bb Db Ny H).
    - destruct (is_bin a) eqn:Ba.
      + assert (num_of a = Some x) as Nx by (destruct a; cbn in Ba; try discriminate; cbn [fl_of] in Hx; congruence).
        destruct x as [m e']. rewrite py_eq_sym in H.
        pose proof (fl_of_value b y Hb Db Hy a m e' Ba Da Nx H) as V.
        apply dy_eqb_value. cbn [fst snd] in *. lia.
      + (* two Decimals *)
        destruct a; cbn in Ha, Ba; try discriminate. destruct b; cbn in Hb, Bb; try discriminate.
        cbn [fl_of] in Hx, Hy. injection Hx as Hx. injection Hy as Hy. subst x y.
        rewrite (dy_of_dec_eq _ _ _ _ H). apply dy_eqb_value. reflexivity. }
  rewrite K. reflexivity.
Qed.

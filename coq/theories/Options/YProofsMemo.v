(** (round-3 extended universe) The DeepHash memo table (YMemo.v, finding C11-MEMO-SET): when no two set members of the
    run are ALIASES of one another for the table's lookup ([mkey_eq]: identity or ==, after use_enum_value) with
    different hash texts / skip decisions, the table changes nothing:
      (M1) a set comparison with the table reports exactly what the table-free one reports ([diff_setM_spec]),
      (M2) for values without dicts the whole traversal with the table computes exactly the result of [YModel.diffF]
           ([diffM_nodict], [run_memoF_nodict]) - dicts are visited in another order by [diffM] and are not covered;
      (M3) with aliases it does matter (witnesses at the end). *)
From Coq Require Import List ZArith NArith Bool Arith Lia.
Import ListNotations.
From DD Require Import Base.PyStr Options.OptModel Options.OptDtModel Options.YValue Options.YModel Options.YMemo
  Options.YProofsBase Options.YProofsKeys Options.YProofsMono Options.YProofsRun Options.YProofsCompStruct.

Lemma flat_map_map' : forall {A B C} (f : B -> list C) (g : A -> B) l, flat_map f (map g l) = flat_map (fun x => f (g x)) l.
Proof. induction l as [|a l IH]; cbn; [reflexivity|]. rewrite IH. reflexivity. Qed.

Lemma mlook_In : forall m k t, mlook m k = Some t -> exists k', In (k', t) m /\ mkey_eq k' k = true.
Proof.
  induction m as [|[k' t'] m IH]; intros k t H; cbn [mlook] in H; [discriminate|].
  destruct (mkey_eq k' k) eqn:E.
  - injection H as H. subst t'. exists k'. split; [left; reflexivity|exact E].
  - destruct (IH k t H) as [k2 [H1 H2]]. exists k2. split; [right; exact H1|exact H2].
Qed.

Section Sets.
Variable F : opts.
(* the universe of set members of the run, as a predicate *)
Variable SU : atom -> Prop.
(* the atoms that can become keys of the table: the set members, and the internals (_value_, _name_, _sort_order_) that
   _prep_obj stores for an Enum member hashed as an object *)
Definition SUc (x : atom) : Prop := SU x \/ exists a, SU a /\ In x (stored_internals F a).
(* no aliases: two such atoms that the table identifies have one hash text and one skip decision *)
Definition alias_freeP : Prop :=
  forall x y, SUc x -> SUc y -> mkey_eq (unwrap F x) (unwrap F y) = true -> hatomF F x = hatomF F y /\ excl_hash F x = excl_hash F y.
(* the table holds what the table-free computation gives, for atoms that were hashed *)
Definition memo_okP (m : memo) : Prop :=
  forall k t, In (k, t) m -> exists x, SUc x /\ k = unwrap F x /\ t = hatomF F x /\ excl_hash F x = false.

Hypothesis no_alias : alias_freeP.

Lemma internal_plain : forall a x, In x (stored_internals F a) -> unwrap F x = x /\ excl_hash F x = false.
Proof.
  intros a x H. unfold stored_internals in H. destruct (o_enum F || excluded F TStr); [destruct H|].
  apply filter_In in H. destruct H as [Hi He]. apply negb_true_iff in He.
  destruct a as [| b | z | m e | s | s | u o | i | m e | y mo dd | u | u | cl n o v]; cbn [internals In] in Hi; try contradiction.
  destruct Hi as [Hi|[Hi|[Hi|[]]]]; subst x.
  - destruct v; cbn [atom_of_e unwrap excl_hash atom_ty] in *; split; try reflexivity; exact He.
  - cbn [unwrap excl_hash atom_ty] in *. split; [reflexivity|exact He].
  - cbn [unwrap excl_hash atom_ty] in *. split; [reflexivity|exact He].
Qed.

Lemma minsert_ok : forall m x, memo_okP m -> SUc x -> unwrap F x = x -> excl_hash F x = false -> memo_okP (minsert F m x).
Proof.
  intros m x Hm Sx Ux Ex. unfold minsert. destruct (mlook m x); [exact Hm|].
  intros k t [Hin|Hin]; [|apply Hm; exact Hin]. injection Hin as E1 E2. subst k t.
  exists x. repeat split; try assumption. symmetry. exact Ux.
Qed.

Lemma minsert_all_ok : forall l m, memo_okP m ->
  (forall x, In x l -> SUc x /\ unwrap F x = x /\ excl_hash F x = false) -> memo_okP (fold_left (minsert F) l m).
Proof.
  induction l as [|x l IH]; intros m Hm Hl; cbn [fold_left]; [exact Hm|].
  apply IH; [|intros y Hy; apply Hl; right; exact Hy].
  destruct (Hl x (or_introl eq_refl)) as [Sx [Ux Ex]]. apply minsert_ok; assumption.
Qed.

Lemma mhash_spec : forall m a, memo_okP m -> SU a ->
  exists m', mhash F m a = (if excl_hash F a then None else Some (hatomF F a), m') /\ memo_okP m'.
Proof.
  intros m a Hm Ha. unfold mhash. destruct (mlook m (unwrap F a)) as [t|] eqn:El.
  - destruct (mlook_In _ _ _ El) as [k [Hin Hk]]. destruct (Hm k t Hin) as [x [Sx [Ek [Et Ex]]]]. subst k t.
    destruct (no_alias x a Sx (or_introl Ha) Hk) as [E1 E2]. rewrite <- E2, Ex, E1. exists m. split; [reflexivity|exact Hm].
  - destruct (excl_hash F a) eqn:Ex; [exists m; split; [reflexivity|exact Hm]|].
    eexists. split; [reflexivity|]. intros k t [Hin|Hin].
    + injection Hin as E1 E2. subst k t. exists a. repeat split; try assumption. left. exact Ha.
    + revert k t Hin. apply minsert_all_ok; [exact Hm|].
      intros x Hx. destruct (internal_plain a x Hx) as [Ux Exx]. split; [right; exists a; split; assumption|split; assumption].
Qed.

Definition texts (l : list atom) : list (atom * pystr) :=
  map (fun a => (a, hatomF F a)) (filter (fun a => negb (excl_hash F a)) l).

Lemma mhash_list_spec : forall l m, memo_okP m -> (forall a, In a l -> SU a) ->
  exists m', mhash_list F m l = (texts l, m') /\ memo_okP m'.
Proof.
  induction l as [|a l IH]; intros m Hm Hl; cbn [mhash_list]; [exists m; split; [reflexivity|exact Hm]|].
  destruct (mhash_spec m a Hm (Hl a (or_introl eq_refl))) as [m1 [E1 Hm1]]. rewrite E1.
  destruct (IH m1 Hm1 (fun x Hx => Hl x (or_intror Hx))) as [m2 [E2 Hm2]]. rewrite E2.
  exists m2. split; [|exact Hm2]. unfold texts. cbn [filter]. destruct (excl_hash F a); reflexivity.
Qed.

Lemma first_per_text_map : forall l seen,
  first_per_text (map (fun a => (a, hatomF F a)) l) seen = map (fun a => (a, hatomF F a)) (first_per_hash (hatomF F) l seen).
Proof.
  induction l as [|a l IH]; intros seen; cbn [map first_per_text first_per_hash]; [reflexivity|].
  destruct (existsb (pystr_eqb (hatomF F a)) seen); [apply IH|]. cbn [map]. rewrite IH. reflexivity.
Qed.

Lemma diff_setT_texts : forall xs ys p1 p2, diff_setT F (texts xs) (texts ys) p1 p2 = diff_setF F xs ys p1 p2.
Proof.
  intros. unfold diff_setT, diff_setF, texts. rewrite !first_per_text_map, !map_map, !flat_map_map'. cbn [fst snd].
  rewrite (map_ext (fun x : atom => hatomF F x) (hatomF F)) by reflexivity. reflexivity.
Qed.

(* (M1) *)
Theorem diff_setM_spec : forall m xs ys p1 p2, memo_okP m -> (forall a, In a xs -> SU a) -> (forall a, In a ys -> SU a) ->
  exists m', diff_setM F m xs ys p1 p2 = (diff_setF F xs ys p1 p2, m') /\ memo_okP m'.
Proof.
  intros m xs ys p1 p2 Hm Hx Hy. unfold diff_setM.
  destruct (mhash_list_spec xs m Hm Hx) as [m1 [E1 Hm1]]. rewrite E1.
  destruct (mhash_list_spec ys m1 Hm1 Hy) as [m2 [E2 Hm2]]. rewrite E2.
  exists m2. split; [rewrite diff_setT_texts; reflexivity|exact Hm2].
Qed.
End Sets.

(* the list form of the two definitions *)
Definition alias_free (F : opts) (l : list atom) : Prop := alias_freeP F (fun x => In x l).
Definition memo_ok (F : opts) (l : list atom) (m : memo) : Prop := memo_okP F (fun x => In x l) m.
(* a universe without Enum members (or under use_enum_value): no internals are stored *)
Lemma SUc_plain : forall F (l : list atom) x, (forall a, In a l -> is_enum a = false) -> SUc F (fun y => In y l) x -> In x l.
Proof.
  intros F l x Hl [H|[a [Ha Hx]]]; [exact H|].
  unfold stored_internals in Hx. destruct (o_enum F || excluded F TStr); [destruct Hx|].
  apply filter_In in Hx. destruct Hx as [Hx _]. specialize (Hl a Ha). destruct a; cbn in Hl; try discriminate; destruct Hx.
Qed.

Theorem mhash_list_alias_free : forall F U l m, alias_free F U -> memo_ok F U m -> incl l U ->
  exists m', mhash_list F m l = (map (fun a => (a, hatomF F a)) (filter (fun a => negb (excl_hash F a)) l), m') /\ memo_ok F U m'.
Proof. intros F U l m Ha Hm Hl. exact (mhash_list_spec F (fun x => In x U) Ha l m Hm Hl). Qed.

Theorem diff_setM_alias_free : forall F U m xs ys p1 p2, alias_free F U -> memo_ok F U m -> incl xs U -> incl ys U ->
  fst (diff_setM F m xs ys p1 p2) = diff_setF F xs ys p1 p2 /\ memo_ok F U (snd (diff_setM F m xs ys p1 p2)).
Proof.
  intros F U m xs ys p1 p2 Ha Hm Hx Hy.
  destruct (diff_setM_spec F (fun x => In x U) Ha m xs ys p1 p2 Hm Hx Hy) as [m' [E Hm']]. rewrite E. split; [reflexivity|exact Hm'].
Qed.

(* ---------------------------------------------------------------------- *)
(* (M2) whole values without dicts                                          *)
(* ---------------------------------------------------------------------- *)
Fixpoint nodict (v : value) : bool :=
  match v with
  | VDict _ => false
  | VList xs | VTuple xs => forallb nodict xs
  | _ => true
  end.

Section Whole.
Variable udiff : pystr -> pystr -> pystr.
Variable ops : path -> list value -> list value -> list opcode.
Variable c : cfg.
Variable F : opts.
Variable SU : atom -> Prop.
Hypothesis no_alias : alias_freeP F SU.
(* every set member of the value lies in SU (keys and leaves are unconstrained) *)
Notation sin := (atoms_in (fun _ => True) SU (fun _ => True)).
Notation okm := (memo_okP F SU).

(* the result of the table-free traversal, with a table attached *)
Definition lift (m : memo) (r : res (list entry * list path)) : resm :=
  match r with Ok x => Ok (fst x, snd x, m) | Err e => Err e end.

Ltac mism m0 Hm0 :=
  exists m0; split; [exact Hm0|]; cbn [diffM diffF];
  (destruct (excluded F _ || excluded F _); [reflexivity|]); (destruct (negb _ && negb _); [reflexivity|]);
  try reflexivity; destruct (mixedF F _ _ _ _) as [[? ?]|?]; reflexivity.

Theorem diffM_nodict : forall t2 t1 m p1 p2,
  nodict t1 = true -> nodict t2 = true -> sin t1 -> sin t2 -> okm m ->
  exists m', okm m' /\ diffM udiff ops c F m t1 t2 p1 p2 = lift m' (diffF udiff ops c F t1 t2 p1 p2).
Proof.
  induction t2 as [b|ys IH|ys IH|kvs2 IH|ys|ys] using value_ind'; intros t1 m p1 p2 N1 N2 U1 U2 Hm.
  - (* t2 an atom *)
    destruct t1 as [a|xs|xs|kvs|xs|xs]; try (mism m Hm).
    exists m. split; [exact Hm|]. cbn [diffM diffF]. destruct (leafR udiff F a b p1 p2); reflexivity.
  - (* t2 a list *)
    destruct t1 as [a|xs|xs|kvs|xs|xs]; try (mism m Hm).
    cbn [diffM diffF]. cbn [type_of ty_eqb negb andb].
    destruct (excluded F TList || excluded F TList); [exists m; split; [exact Hm|reflexivity]|].
    destruct (negb (zip c) && forallb is_basic xs && forallb is_basic ys).
    { exists m. split; [exact Hm|]. destruct (default_leaf_err udiff ops F xs ys p1 p2); [reflexivity|].
      destruct (default_leaf_listF udiff ops F xs ys p1 p2) as [es rec]. reflexivity. }
    cbn [nodict] in N1, N2. cbn [atoms_in] in U1, U2. apply atoms_in_list in U1. apply atoms_in_list in U2.
    generalize 0 as i. revert xs N1 U1 m Hm.
    induction ys as [|y ys IHys]; intros xs N1 U1 m Hm i.
    + destruct xs; exists m; (split; [exact Hm|reflexivity]).
    + destruct xs as [|x xs]; [exists m; split; [exact Hm|reflexivity]|].
      inversion IH as [|? ? IHy IHr]; subst.
      cbn [forallb] in N1, N2. apply andb_true_iff in N1. destruct N1 as [N1a N1b]. apply andb_true_iff in N2. destruct N2 as [N2a N2b].
      inversion U1 as [|? ? U1a U1b]; inversion U2 as [|? ? U2a U2b]; subst.
      destruct (IHy x m (snoc p1 (PIdx i)) (snoc p2 (PIdx i)) N1a N2a U1a U2a Hm) as [m1 [Hm1 E1]]. rewrite E1.
      destruct (diffF udiff ops c F x y (snoc p1 (PIdx i)) (snoc p2 (PIdx i))) as [[e1 q1]|e]; cbn [lift bindm bind fst snd];
        [|exists m; split; [exact Hm|reflexivity]].
      destruct (IHys IHr N2b U2b xs N1b U1b m1 Hm1 (S i)) as [m2 [Hm2 E2]]. rewrite E2.
      match goal with |- context [lift m2 ?R] => destruct R as [[e2 q2]|e] end; cbn [lift bindm bind fst snd];
        exists m2; (split; [exact Hm2|reflexivity]).
  - (* t2 a tuple *)
    destruct t1 as [a|xs|xs|kvs|xs|xs]; try (mism m Hm).
    cbn [diffM diffF]. cbn [type_of ty_eqb negb andb].
    destruct (excluded F TTuple || excluded F TTuple); [exists m; split; [exact Hm|reflexivity]|].
    destruct (negb (zip c) && forallb is_basic xs && forallb is_basic ys).
    { exists m. split; [exact Hm|]. destruct (default_leaf_err udiff ops F xs ys p1 p2); [reflexivity|].
      destruct (default_leaf_listF udiff ops F xs ys p1 p2) as [es rec]. reflexivity. }
    cbn [nodict] in N1, N2. cbn [atoms_in] in U1, U2. apply atoms_in_list in U1. apply atoms_in_list in U2.
    generalize 0 as i. revert xs N1 U1 m Hm.
    induction ys as [|y ys IHys]; intros xs N1 U1 m Hm i.
    + destruct xs; exists m; (split; [exact Hm|reflexivity]).
    + destruct xs as [|x xs]; [exists m; split; [exact Hm|reflexivity]|].
      inversion IH as [|? ? IHy IHr]; subst.
      cbn [forallb] in N1, N2. apply andb_true_iff in N1. destruct N1 as [N1a N1b]. apply andb_true_iff in N2. destruct N2 as [N2a N2b].
      inversion U1 as [|? ? U1a U1b]; inversion U2 as [|? ? U2a U2b]; subst.
      destruct (IHy x m (snoc p1 (PIdx i)) (snoc p2 (PIdx i)) N1a N2a U1a U2a Hm) as [m1 [Hm1 E1]]. rewrite E1.
      destruct (diffF udiff ops c F x y (snoc p1 (PIdx i)) (snoc p2 (PIdx i))) as [[e1 q1]|e]; cbn [lift bindm bind fst snd];
        [|exists m; split; [exact Hm|reflexivity]].
      destruct (IHys IHr N2b U2b xs N1b U1b m1 Hm1 (S i)) as [m2 [Hm2 E2]]. rewrite E2.
      match goal with |- context [lift m2 ?R] => destruct R as [[e2 q2]|e] end; cbn [lift bindm bind fst snd];
        exists m2; (split; [exact Hm2|reflexivity]).
  - discriminate N2.
  - (* t2 a set *)
    destruct t1 as [a|xs|xs|kvs|xs|xs]; try (mism m Hm).
    cbn [diffM diffF]. cbn [type_of ty_eqb negb andb].
    destruct (excluded F TSet || excluded F TSet); [exists m; split; [exact Hm|reflexivity]|].
    destruct (set_err F xs ys); [exists m; split; [exact Hm|reflexivity]|].
    cbn [atoms_in] in U1, U2. rewrite Forall_forall in U1, U2.
    destruct (diff_setM_spec F SU no_alias m xs ys p1 p2 Hm U1 U2) as [m' [E Hm']]. rewrite E.
    exists m'. split; [exact Hm'|reflexivity].
  - (* t2 a frozenset *)
    destruct t1 as [a|xs|xs|kvs|xs|xs]; try (mism m Hm).
    cbn [diffM diffF]. cbn [type_of ty_eqb negb andb].
    destruct (excluded F TFrozen || excluded F TFrozen); [exists m; split; [exact Hm|reflexivity]|].
    destruct (set_err F xs ys); [exists m; split; [exact Hm|reflexivity]|].
    cbn [atoms_in] in U1, U2. rewrite Forall_forall in U1, U2.
    destruct (diff_setM_spec F SU no_alias m xs ys p1 p2 Hm U1 U2) as [m' [E Hm']]. rewrite E.
    exists m'. split; [exact Hm'|reflexivity].
Qed.

(* the whole run: with the table, exactly the table-free result *)
Theorem run_memoF_nodict : forall t1 t2, nodict t1 = true -> nodict t2 = true -> sin t1 -> sin t2 ->
  run_memoF udiff ops c F t1 t2 = run_optF udiff ops c F t1 t2.
Proof.
  intros t1 t2 N1 N2 U1 U2. unfold run_memoF, run_optF.
  destruct (diffM_nodict t2 t1 [] [] [] N1 N2 U1 U2) as [m' [_ E]]; [intros k t []|].
  rewrite E. destruct (diffF udiff ops c F t1 t2 [] []) as [[es ps]|e]; reflexivity.
Qed.
End Whole.

(* ---------------------------------------------------------------------- *)
(* (M2) whole values WITH dicts: the same entries, in another order         *)
(* ---------------------------------------------------------------------- *)
Definition same_set {A} (l l' : list A) : Prop := forall e, In e l <-> In e l'.
Lemma same_set_refl : forall {A} (l : list A), same_set l l.
Proof. intros A l e. reflexivity. Qed.
Lemma same_set_app : forall {A} (a a' b b' : list A), same_set a a' -> same_set b b' -> same_set (a ++ b) (a' ++ b').
Proof. intros A a a' b b' H1 H2 e. rewrite !in_app_iff, (H1 e), (H2 e). reflexivity. Qed.

Lemma find_uniq : forall ks k k0, nodup_atoms ks = true -> In k0 ks -> py_eq k k0 = true -> find (py_eq k) ks = Some k0.
Proof.
  intros ks k k0 Hn Hin Hpe. destruct (find (py_eq k) ks) as [k1|] eqn:Ef.
  - apply find_some in Ef. destruct Ef as [H1 H2]. f_equal. apply (nodup_atoms_uniq ks k1 k0 Hn H1 Hin).
    rewrite py_eq_sym in H2. eapply py_eq_trans; eassumption.
  - eapply find_none in Ef; [|exact Hin]. congruence.
Qed.
Lemma assoc_entry : forall c kvs k (v : value), nodup_atoms (keys_of c kvs) = true -> In k (keys_of c kvs) ->
  assoc k kvs = Some v -> In (k, v) kvs.
Proof.
  intros c kvs k v Hn Hk Ha. apply assoc_In in Ha. destruct Ha as [k0 [Hin Hpe]].
  assert (keep_key c k0 = true) as Kk by (rewrite (keep_key_eqv c k0 k Hpe); apply keys_of_In in Hk; tauto).
  assert (In k0 (keys_of c kvs)) as Hk0 by (apply keys_of_In_intro; [change k0 with (fst (k0, v)); apply in_map; exact Hin|exact Kk]).
  rewrite <- (nodup_atoms_uniq _ k0 k Hn Hk0 Hk Hpe). exact Hin.
Qed.

Section WholeD.
Variable udiff : pystr -> pystr -> pystr.
Variable ops : path -> list value -> list value -> list opcode.
Variable c : cfg.
Variable F : opts.
Variable SU : atom -> Prop.
Hypothesis no_alias : alias_freeP F SU.
Notation sin := (atoms_in (fun _ => True) SU (fun _ => True)).
Notation okm := (memo_okP F SU).
(* every compared dict has pairwise different kept keys that key cleaning leaves alone (YProofsCompStruct.stable) *)
Notation dstable := (YProofsCompStruct.stable c F F).

(* the run with the table and the table-free run: both raise, or both are Ok with the same entries and the same
   recorded paths up to order (dict children are visited in the order of t2's keys) and a table that is still sound *)
Definition simR (rM : resm) (rF : res (list entry * list path)) : Prop :=
  match rM with
  | Ok x => okm (snd x) /\
            match rF with
            | Ok y => same_set (fst (fst x)) (fst y) /\ same_set (snd (fst x)) (snd y)
            | Err _ => False
            end
  | Err _ => match rF with Err _ => True | Ok _ => False end
  end.
Lemma simR_lift : forall m r, okm m -> simR (lift m r) r.
Proof. intros m [[es ps]|e] Hm; cbn; [|exact I]. repeat split; try exact Hm; intros H; exact H. Qed.

(* ---- the children of a dict comparison, as a list of (path key, v1, v2) ---- *)
Definition triple := (atom * value * value)%type.
Definition childF (p1 p2 : path) (t : triple) : res (list entry * list path) :=
  diffF udiff ops c F (snd (fst t)) (snd t) (snoc p1 (PKey (fst (fst t)))) (snoc p2 (PKey (fst (fst t)))).
Definition childM (p1 p2 : path) (m : memo) (t : triple) : resm :=
  diffM udiff ops c F m (snd (fst t)) (snd t) (snoc p1 (PKey (fst (fst t)))) (snoc p2 (PKey (fst (fst t)))).
Fixpoint seqF (p1 p2 : path) (l : list triple) : res (list entry * list path) :=
  match l with
  | [] => Ok ([], [])
  | t :: r => bind (childF p1 p2 t) (fun x => bind (seqF p1 p2 r) (fun rest => Ok (app2 x rest)))
  end.
Fixpoint seqM (p1 p2 : path) (l : list triple) (m : memo) : resm :=
  match l with
  | [] => Ok ([], [], m)
  | t :: r => bindm (childM p1 p2 m t) (fun x => bindm (seqM p1 p2 r (snd x)) (fun y =>
                Ok ((fst (fst x) ++ fst (fst y))%list, (snd (fst x) ++ snd (fst y))%list, snd y)))
  end.

Definition seq_char (p1 p2 : path) (l : list triple) (es : list entry) (ps : list path) : Prop :=
  (forall t, In t l -> exists x, childF p1 p2 t = Ok x) /\
  (forall e, In e es <-> exists t x, In t l /\ childF p1 p2 t = Ok x /\ In e (fst x)) /\
  (forall q, In q ps <-> exists t x, In t l /\ childF p1 p2 t = Ok x /\ In q (snd x)).
Definition seq_err (p1 p2 : path) (l : list triple) : Prop := exists t e, In t l /\ childF p1 p2 t = Err e.

Lemma seq_char_cons : forall p1 p2 t l x es ps (e1 : list entry) (q1 : list path),
  childF p1 p2 t = Ok x -> same_set e1 (fst x) -> same_set q1 (snd x) -> seq_char p1 p2 l es ps ->
  seq_char p1 p2 (t :: l) (e1 ++ es) (q1 ++ ps).
Proof.
  intros p1 p2 t l x es ps e1 q1 Hx S1 S2 [A [B C]]. split; [|split].
  - intros t' [E|Hin]; [subst; eauto|apply A; exact Hin].
  - intros e. rewrite in_app_iff, (S1 e), (B e). split.
    + intros [H|[t' [x' [H1 [H2 H3]]]]]; [exists t, x; repeat split; auto; left; reflexivity|exists t', x'; repeat split; auto; right; exact H1].
    + intros [t' [x' [[E|H1] [H2 H3]]]]; [subst t'; rewrite Hx in H2; injection H2 as H2; subst x'; left; exact H3|right; eauto].
  - intros q. rewrite in_app_iff, (S2 q), (C q). split.
    + intros [H|[t' [x' [H1 [H2 H3]]]]]; [exists t, x; repeat split; auto; left; reflexivity|exists t', x'; repeat split; auto; right; exact H1].
    + intros [t' [x' [[E|H1] [H2 H3]]]]; [subst t'; rewrite Hx in H2; injection H2 as H2; subst x'; left; exact H3|right; eauto].
Qed.

Lemma seq_char_nil : forall p1 p2, seq_char p1 p2 [] [] [].
Proof.
  intros p1 p2. split; [intros t []|]. split; intros e; (split; [intros []|intros [t [x [[] _]]]]).
Qed.

Lemma seqF_spec : forall p1 p2 l,
  match seqF p1 p2 l with
  | Ok r => seq_char p1 p2 l (fst r) (snd r)
  | Err _ => seq_err p1 p2 l
  end.
Proof.
  induction l as [|t l IH]; cbn [seqF].
  - apply seq_char_nil.
  - destruct (childF p1 p2 t) as [x|e] eqn:Ex; cbn [bind]; [|exists t, e; split; [left; reflexivity|exact Ex]].
    destruct (seqF p1 p2 l) as [rest|e]; cbn [bind].
    + unfold app2. cbn [fst snd]. apply (seq_char_cons p1 p2 t l x); [exact Ex|apply same_set_refl|apply same_set_refl|exact IH].
    + destruct IH as [t' [e' [H1 H2]]]. exists t', e'. split; [right; exact H1|exact H2].
Qed.

Lemma seqM_spec : forall p1 p2 l m, okm m ->
  (forall t, In t l -> forall m0, okm m0 -> simR (childM p1 p2 m0 t) (childF p1 p2 t)) ->
  match seqM p1 p2 l m with
  | Ok r => okm (snd r) /\ seq_char p1 p2 l (fst (fst r)) (snd (fst r))
  | Err _ => seq_err p1 p2 l
  end.
Proof.
  induction l as [|t l IH]; intros m Hm Hch; cbn [seqM].
  - cbn [fst snd]. split; [exact Hm|]. apply seq_char_nil.
  - pose proof (Hch t (or_introl eq_refl) m Hm) as Ht. unfold simR in Ht.
    destruct (childM p1 p2 m t) as [x|e]; cbn [bindm].
    + destruct Ht as [Hm1 Ht]. destruct (childF p1 p2 t) as [y|] eqn:Ey; [|contradiction]. destruct Ht as [S1 S2].
      specialize (IH (snd x) Hm1 (fun t' H' => Hch t' (or_intror H'))).
      destruct (seqM p1 p2 l (snd x)) as [r|e]; cbn [bindm fst snd].
      * destruct IH as [Hm2 IH]. split; [exact Hm2|]. apply (seq_char_cons p1 p2 t l y); assumption.
      * destruct IH as [t' [e' [H1 H2]]]. exists t', e'. split; [right; exact H1|exact H2].
    + destruct (childF p1 p2 t) as [y|e'] eqn:Ey; [contradiction|]. exists t, e'. split; [left; reflexivity|exact Ey].
Qed.

Lemma seq_sim : forall p1 p2 l1 l2 m, same_set l1 l2 -> okm m ->
  (forall t, In t l2 -> forall m0, okm m0 -> simR (childM p1 p2 m0 t) (childF p1 p2 t)) ->
  match seqM p1 p2 l2 m with
  | Ok x => okm (snd x) /\
            match seqF p1 p2 l1 with
            | Ok y => same_set (fst (fst x)) (fst y) /\ same_set (snd (fst x)) (snd y)
            | Err _ => False
            end
  | Err _ => match seqF p1 p2 l1 with Err _ => True | Ok _ => False end
  end.
Proof.
  intros p1 p2 l1 l2 m Hs Hm Hch.
  pose proof (seqM_spec p1 p2 l2 m Hm Hch) as HM. pose proof (seqF_spec p1 p2 l1) as HF'.
  destruct (seqM p1 p2 l2 m) as [x|e], (seqF p1 p2 l1) as [y|e'].
  - destruct HM as [Hm' [A [B C]]]. destruct HF' as [A' [B' C']]. split; [exact Hm'|]. split.
    + intros e. rewrite (B e), (B' e). split; intros [t [z [H1 H2]]]; exists t, z; (split; [apply Hs; exact H1|exact H2]).
    + intros q. rewrite (C q), (C' q). split; intros [t [z [H1 H2]]]; exists t, z; (split; [apply Hs; exact H1|exact H2]).
  - destruct HM as [_ [A _]]. destruct HF' as [t [e0 [H1 H2]]]. apply Hs in H1. destruct (A t H1) as [z Hz]. congruence.
  - destruct HF' as [A _]. destruct HM as [t [e0 [H1 H2]]]. apply Hs in H1. destruct (A t H1) as [z Hz]. congruence.
  - exact I.
Qed.

(* the children as the two traversals enumerate them *)
Definition childrenF (ks2 : list atom) (kvs2 : list (atom * value)) (l : list (atom * value)) : list triple :=
  flat_map (fun kv => if keep_key c (fst kv) then
                        match find (py_eq (fst kv)) ks2 with
                        | Some k' => match assoc k' kvs2 with Some v2 => [(k', snd kv, v2)] | None => [] end
                        | None => []
                        end
                      else []) l.
Definition childrenM (ks1 : list atom) (kvs1 : list (atom * value)) (l : list (atom * value)) : list triple :=
  flat_map (fun kv => if keep_key c (fst kv) then
                        match find (py_eq (fst kv)) ks1 with
                        | Some k => match assoc k kvs1 with Some v1 => [(fst kv, v1, snd kv)] | None => [] end
                        | None => []
                        end
                      else []) l.

Lemma children_same : forall kvs1 kvs2,
  nodup_atoms (keys_of c kvs1) = true -> nodup_atoms (keys_of c kvs2) = true ->
  same_set (childrenF (keys_of c kvs2) kvs2 kvs1) (childrenM (keys_of c kvs1) kvs1 kvs2).
Proof.
  intros kvs1 kvs2 N1 N2 [[k' v1] v2]. unfold childrenF, childrenM. rewrite !in_flat_map. split.
  - intros [[k v] [Hin H]]. cbn [fst snd] in H.
    destruct (keep_key c k) eqn:Kk; [|destruct H].
    destruct (find (py_eq k) (keys_of c kvs2)) as [k0|] eqn:Ef; [|destruct H].
    destruct (assoc k0 kvs2) as [w|] eqn:Ea; [|destruct H]. destruct H as [H|[]]. injection H as E1 E2 E3. subst k0 v w.
    apply find_some in Ef. destruct Ef as [Hk' Hpe].
    assert (In k (keys_of c kvs1)) as Hk by (apply keys_of_In_intro; [change k with (fst (k, v1)); apply in_map; exact Hin|exact Kk]).
    exists (k', v2). split; [exact (assoc_entry c kvs2 k' v2 N2 Hk' Ea)|]. cbn [fst snd].
    assert (keep_key c k' = true) as Kk' by (apply keys_of_In in Hk'; tauto). rewrite Kk'.
    rewrite (find_uniq _ k' k N1 Hk) by (rewrite py_eq_sym; exact Hpe).
    rewrite (assoc_kept c kvs1 k v1 N1) by (apply kept_In; split; assumption). left. reflexivity.
  - intros [[k0 w] [Hin H]]. cbn [fst snd] in H.
    destruct (keep_key c k0) eqn:Kk; [|destruct H].
    destruct (find (py_eq k0) (keys_of c kvs1)) as [k|] eqn:Ef; [|destruct H].
    destruct (assoc k kvs1) as [v|] eqn:Ea; [|destruct H]. destruct H as [H|[]]. injection H as E1 E2 E3. subst k0 v w.
    apply find_some in Ef. destruct Ef as [Hk Hpe].
    assert (In k' (keys_of c kvs2)) as Hk' by (apply keys_of_In_intro; [change k' with (fst (k', v2)); apply in_map; exact Hin|exact Kk]).
    exists (k, v1). split; [exact (assoc_entry c kvs1 k v1 N1 Hk Ea)|]. cbn [fst snd].
    assert (keep_key c k = true) as Kk1 by (apply keys_of_In in Hk; tauto). rewrite Kk1.
    rewrite (find_uniq _ k k' N2 Hk') by (rewrite py_eq_sym; exact Hpe).
    rewrite (assoc_kept c kvs2 k' v2 N2) by (apply kept_In; split; assumption). left. reflexivity.
Qed.

Theorem diffM_sim : forall t2 t1 m p1 p2,
  dstable t1 = true -> dstable t2 = true -> sin t1 -> sin t2 -> okm m ->
  simR (diffM udiff ops c F m t1 t2 p1 p2) (diffF udiff ops c F t1 t2 p1 p2).
Proof.
  assert (forall m t1 t2 p1 p2 m', okm m' -> diffM udiff ops c F m t1 t2 p1 p2 = lift m' (diffF udiff ops c F t1 t2 p1 p2) ->
          simR (diffM udiff ops c F m t1 t2 p1 p2) (diffF udiff ops c F t1 t2 p1 p2)) as Eq
    by (intros m t1 t2 p1 p2 m' Hm' E; rewrite E; apply simR_lift; exact Hm').
  assert (forall m t1 t2 p1 p2, okm m -> is_atom t1 && is_atom t2 = false -> ty_eqb (type_of t1) (type_of t2) = false ->
          diffM udiff ops c F m t1 t2 p1 p2 = lift m (diffF udiff ops c F t1 t2 p1 p2)) as Mis.
  { intros m t1 t2 p1 p2 Hm Hna Hty.
    destruct t1 as [a|xs|xs|kvs|xs|xs], t2 as [b|ys|ys|kvs2|ys|ys]; try discriminate Hna; try discriminate Hty;
      cbn [diffM diffF]; rewrite Hty;
      (destruct (excluded F _ || excluded F _); [reflexivity|]); cbn [negb andb];
      (destruct (negb _); [reflexivity|]); try reflexivity; destruct (mixedF F _ _ _ _) as [[? ?]|?]; reflexivity. }
  induction t2 as [b|ys IH|ys IH|kvs2 IH|ys|ys] using value_ind'; intros t1 m p1 p2 S1 S2 U1 U2 Hm.
  - (* t2 an atom *)
    destruct t1 as [a|xs|xs|kvs|xs|xs]; try (apply (Eq _ _ _ _ _ m Hm); apply Mis; [exact Hm|reflexivity|destruct b; reflexivity]).
    apply (Eq _ _ _ _ _ m Hm). cbn [diffM diffF]. destruct (leafR udiff F a b p1 p2); reflexivity.
  - (* t2 a list *)
    destruct (ty_eqb (type_of t1) (type_of (VList ys))) eqn:Ety; [|apply (Eq _ _ _ _ _ m Hm); apply Mis; [exact Hm|destruct t1; reflexivity|exact Ety]].
    destruct t1 as [a|xs|xs|kvs|xs|xs]; try discriminate Ety; [destruct a; discriminate Ety|].
    cbn [diffM diffF]. cbn [type_of ty_eqb negb andb].
    destruct (excluded F TList || excluded F TList); [apply (simR_lift m (Ok ([], []))); exact Hm|].
    destruct (negb (zip c) && forallb is_basic xs && forallb is_basic ys).
    { destruct (default_leaf_err udiff ops F xs ys p1 p2); [exact I|].
      destruct (default_leaf_listF udiff ops F xs ys p1 p2) as [es rec]. apply (simR_lift m (Ok (es, if rec then [p1] else []))). exact Hm. }
    cbn [YProofsCompStruct.stable] in S1, S2. cbn [atoms_in] in U1, U2. apply atoms_in_list in U1. apply atoms_in_list in U2.
    clear Ety. generalize 0 as i. revert xs S1 U1 m Hm.
    induction ys as [|y ys IHys]; intros xs S1 U1 m Hm i.
    + destruct xs; [apply (simR_lift m (Ok (added_fromF F [] i p1 p2, []))); exact Hm|apply (simR_lift m (Ok (removed_fromF F (v :: xs) i p1 p2, []))); exact Hm].
    + destruct xs as [|x xs]; [apply (simR_lift m (Ok (added_fromF F (y :: ys) i p1 p2, []))); exact Hm|].
      inversion IH as [|? ? IHy IHr]; subst.
      cbn [forallb] in S1, S2. apply andb_true_iff in S1. destruct S1 as [S1a S1b]. apply andb_true_iff in S2. destruct S2 as [S2a S2b].
      inversion U1 as [|? ? U1a U1b]; inversion U2 as [|? ? U2a U2b]; subst.
      pose proof (IHy x m (snoc p1 (PIdx i)) (snoc p2 (PIdx i)) S1a S2a U1a U2a Hm) as K1. unfold simR in K1.
      destruct (diffM udiff ops c F m x y (snoc p1 (PIdx i)) (snoc p2 (PIdx i))) as [r1|e1]; cbn [bindm].
      * destruct K1 as [Hm1 K1]. destruct (diffF udiff ops c F x y (snoc p1 (PIdx i)) (snoc p2 (PIdx i))) as [f1|]; [|contradiction].
        destruct K1 as [A1 B1]. cbn [bind].
        pose proof (IHys IHr S2b U2b xs S1b U1b (snd r1) Hm1 (S i)) as K2. unfold simR in K2.
        match type of K2 with match ?RM with _ => _ end => destruct RM as [r2|e2] end; cbn [bindm].
        -- destruct K2 as [Hm2 K2]. match type of K2 with match ?RF with _ => _ end => destruct RF as [f2|] end; [|contradiction].
           destruct K2 as [A2 B2]. cbn [bind simR fst snd]. unfold app2. cbn [fst snd].
           split; [exact Hm2|]. split; apply same_set_app; assumption.
        -- match type of K2 with match ?RF with _ => _ end => destruct RF as [f2|] end; [contradiction|]. exact I.
      * destruct (diffF udiff ops c F x y (snoc p1 (PIdx i)) (snoc p2 (PIdx i))); [contradiction|]. exact I.
  - (* t2 a tuple *)
    destruct (ty_eqb (type_of t1) (type_of (VTuple ys))) eqn:Ety; [|apply (Eq _ _ _ _ _ m Hm); apply Mis; [exact Hm|destruct t1; reflexivity|exact Ety]].
    destruct t1 as [a|xs|xs|kvs|xs|xs]; try discriminate Ety; [destruct a; discriminate Ety|].
    cbn [diffM diffF]. cbn [type_of ty_eqb negb andb].
    destruct (excluded F TTuple || excluded F TTuple); [apply (simR_lift m (Ok ([], []))); exact Hm|].
    destruct (negb (zip c) && forallb is_basic xs && forallb is_basic ys).
    { destruct (default_leaf_err udiff ops F xs ys p1 p2); [exact I|].
      destruct (default_leaf_listF udiff ops F xs ys p1 p2) as [es rec]. apply (simR_lift m (Ok (es, if rec then [p1] else []))). exact Hm. }
    cbn [YProofsCompStruct.stable] in S1, S2. cbn [atoms_in] in U1, U2. apply atoms_in_list in U1. apply atoms_in_list in U2.
    clear Ety. generalize 0 as i. revert xs S1 U1 m Hm.
    induction ys as [|y ys IHys]; intros xs S1 U1 m Hm i.
    + destruct xs; [apply (simR_lift m (Ok (added_fromF F [] i p1 p2, []))); exact Hm|apply (simR_lift m (Ok (removed_fromF F (v :: xs) i p1 p2, []))); exact Hm].
    + destruct xs as [|x xs]; [apply (simR_lift m (Ok (added_fromF F (y :: ys) i p1 p2, []))); exact Hm|].
      inversion IH as [|? ? IHy IHr]; subst.
      cbn [forallb] in S1, S2. apply andb_true_iff in S1. destruct S1 as [S1a S1b]. apply andb_true_iff in S2. destruct S2 as [S2a S2b].
      inversion U1 as [|? ? U1a U1b]; inversion U2 as [|? ? U2a U2b]; subst.
      pose proof (IHy x m (snoc p1 (PIdx i)) (snoc p2 (PIdx i)) S1a S2a U1a U2a Hm) as K1. unfold simR in K1.
      destruct (diffM udiff ops c F m x y (snoc p1 (PIdx i)) (snoc p2 (PIdx i))) as [r1|e1]; cbn [bindm].
      * destruct K1 as [Hm1 K1]. destruct (diffF udiff ops c F x y (snoc p1 (PIdx i)) (snoc p2 (PIdx i))) as [f1|]; [|contradiction].
        destruct K1 as [A1 B1]. cbn [bind].
        pose proof (IHys IHr S2b U2b xs S1b U1b (snd r1) Hm1 (S i)) as K2. unfold simR in K2.
        match type of K2 with match ?RM with _ => _ end => destruct RM as [r2|e2] end; cbn [bindm].
        -- destruct K2 as [Hm2 K2]. match type of K2 with match ?RF with _ => _ end => destruct RF as [f2|] end; [|contradiction].
           destruct K2 as [A2 B2]. cbn [bind simR fst snd]. unfold app2. cbn [fst snd].
           split; [exact Hm2|]. split; apply same_set_app; assumption.
        -- match type of K2 with match ?RF with _ => _ end => destruct RF as [f2|] end; [contradiction|]. exact I.
      * destruct (diffF udiff ops c F x y (snoc p1 (PIdx i)) (snoc p2 (PIdx i))); [contradiction|]. exact I.
  - (* t2 a dict *)
    destruct (ty_eqb (type_of t1) (type_of (VDict kvs2))) eqn:Ety; [|apply (Eq _ _ _ _ _ m Hm); apply Mis; [exact Hm|destruct t1; reflexivity|exact Ety]].
    destruct t1 as [a|xs|xs|kvs|xs|xs]; try discriminate Ety; [destruct a; discriminate Ety|].
    cbn [diffM diffF]. cbn [type_of ty_eqb negb andb].
    destruct (excluded F TDict || excluded F TDict); [apply (simR_lift m (Ok ([], []))); exact Hm|].
    destruct (stable_dict c F F kvs S1) as [N1 [A1 [_ V1]]]. destruct (stable_dict c F F kvs2 S2) as [N2 [A2 [_ V2]]].
    set (ks1 := keys_of c kvs) in *. set (ks2 := keys_of c kvs2) in *.
    destruct (kmap_alone F ks1 N1 A1) as [km1 [M1 [C1 [O1 R1]]]]. destruct (kmap_alone F ks2 N2 A2) as [km2 [M2 [C2 [O2 R2]]]].
    rewrite M1, M2. cbn [bind]. rewrite C1, C2.
    destruct (shortcutF c ks1 ks2); [apply (simR_lift m (Ok (reportF F KValue p1 p2 (Some (VDict kvs)) (Some (VDict kvs2)) None, []))); exact Hm|].
    (* the two enumerations of the children *)
    match goal with |- simR (bindm (?gM kvs2 m) _) (bind (?gF kvs) _) =>
      assert (forall l, (forall k v, In (k, v) l -> In (k, v) kvs) -> gF l = seqF p1 p2 (childrenF ks2 kvs2 l)) as EF;
      [|assert (forall l m0, (forall k v, In (k, v) l -> In (k, v) kvs2) -> gM l m0 = seqM p1 p2 (childrenM ks1 kvs l) m0) as EM] end.
    { induction l as [|[k v1] r IHr]; intros Hsub; [reflexivity|].
      unfold childrenF in *. cbn [flat_map fst snd]. rewrite (IHr (fun k' v' K => Hsub k' v' (or_intror K))).
      destruct (keep_key c k) eqn:Kk.
      2:{ cbn [bind app]. destruct (seqF p1 p2 _) as [[e q]|]; reflexivity. }
      assert (In k ks1) as Hk by (apply keys_of_In_intro; [change k with (fst (k, v1)); apply in_map; apply Hsub; left; reflexivity|exact Kk]).
      rewrite (R1 k Hk).
      destruct (find (py_eq k) ks2) as [k'|] eqn:Ef; [|cbn [bind app]; destruct (seqF p1 p2 _) as [[e q]|]; reflexivity].
      pose proof Ef as Ef'. apply find_some in Ef'. destruct Ef' as [Hk' _]. rewrite (O2 k' Hk').
      destruct (assoc k' kvs2) as [v2|]; [|cbn [bind app]; destruct (seqF p1 p2 _) as [[e q]|]; reflexivity].
      cbn [app seqF]. reflexivity. }
    { induction l as [|[k' v2] r IHr]; intros m0 Hsub; [reflexivity|].
      unfold childrenM in *. cbn [flat_map fst snd].
      destruct (keep_key c k') eqn:Kk.
      2:{ cbn [bindm app snd]. rewrite (IHr m0 (fun k0 v' K => Hsub k0 v' (or_intror K))). destruct (seqM p1 p2 _ m0) as [[[e q] m']|]; reflexivity. }
      assert (In k' ks2) as Hk' by (apply keys_of_In_intro; [change k' with (fst (k', v2)); apply in_map; apply Hsub; left; reflexivity|exact Kk]).
      rewrite (R2 k' Hk').
      destruct (find (py_eq k') ks1) as [k|] eqn:Ef.
      2:{ cbn [bindm app snd]. rewrite (IHr m0 (fun k0 v' K => Hsub k0 v' (or_intror K))). destruct (seqM p1 p2 _ m0) as [[[e q] m']|]; reflexivity. }
      pose proof Ef as Ef'. apply find_some in Ef'. destruct Ef' as [Hk _]. rewrite (O1 k Hk).
      destruct (assoc k kvs) as [v1|].
      2:{ cbn [bindm app snd]. rewrite (IHr m0 (fun k0 v' K => Hsub k0 v' (or_intror K))). destruct (seqM p1 p2 _ m0) as [[[e q] m']|]; reflexivity. }
      cbn [app seqM]. unfold childM. cbn [fst snd].
      destruct (diffM udiff ops c F m0 v1 v2 (snoc p1 (PKey k')) (snoc p2 (PKey k'))) as [x|e]; cbn [bindm]; [|reflexivity].
      rewrite (IHr (snd x) (fun k0 v' K => Hsub k0 v' (or_intror K))). reflexivity. }
    rewrite (EF kvs (fun _ _ K => K)), (EM kvs2 m (fun _ _ K => K)).
    (* children: by induction hypothesis *)
    assert (forall t, In t (childrenM ks1 kvs kvs2) -> forall m0, okm m0 -> simR (childM p1 p2 m0 t) (childF p1 p2 t)) as Hch.
    { intros [[k' v1] v2] Hin m0 Hm0. unfold childrenM in Hin. apply in_flat_map in Hin. destruct Hin as [[k0 w] [Hin H]]. cbn [fst snd] in H.
      destruct (keep_key c k0) eqn:Kk; [|destruct H].
      destruct (find (py_eq k0) ks1) as [k|] eqn:Ef; [|destruct H].
      destruct (assoc k kvs) as [v|] eqn:Ea; [|destruct H]. destruct H as [H|[]]. injection H as E1 E2 E3. subst k0 v w.
      apply find_some in Ef. destruct Ef as [Hk _].
      pose proof (assoc_entry c kvs k v1 N1 Hk Ea) as Hin1.
      assert (keep_key c k = true) as Kk1 by (apply keys_of_In in Hk; tauto).
      rewrite Forall_forall in IH. unfold childM, childF. cbn [fst snd].
      apply (IH (k', v2) Hin v1 m0); [exact (V1 k v1 Hin1 Kk1)|exact (V2 k' v2 Hin Kk)| | |exact Hm0].
      - exact (proj2 (atoms_in_dict _ SU _ kvs k v1 U1 Hin1)).
      - exact (proj2 (atoms_in_dict _ SU _ kvs2 k' v2 U2 Hin)). }
    pose proof (seq_sim p1 p2 (childrenF ks2 kvs2 kvs) (childrenM ks1 kvs kvs2) m (children_same kvs kvs2 N1 N2) Hm Hch) as K.
    destruct (seqM p1 p2 (childrenM ks1 kvs kvs2) m) as [x|e]; cbn [bindm].
    + destruct K as [Hm' K]. destruct (seqF p1 p2 (childrenF ks2 kvs2 kvs)) as [y|]; [|contradiction]. destruct K as [K1 K2].
      cbn [bind simR fst snd]. split; [exact Hm'|]. split; [|exact K2].
      apply same_set_app; [apply same_set_refl|]. apply same_set_app; [apply same_set_refl|exact K1].
    + destruct (seqF p1 p2 (childrenF ks2 kvs2 kvs)); [contradiction|]. exact I.
  - (* t2 a set *)
    destruct (ty_eqb (type_of t1) (type_of (VSet ys))) eqn:Ety; [|apply (Eq _ _ _ _ _ m Hm); apply Mis; [exact Hm|destruct t1; reflexivity|exact Ety]].
    destruct t1 as [a|xs|xs|kvs|xs|xs]; try discriminate Ety; [destruct a; discriminate Ety|].
    cbn [diffM diffF]. cbn [type_of ty_eqb negb andb].
    destruct (excluded F TSet || excluded F TSet); [apply (simR_lift m (Ok ([], []))); exact Hm|].
    destruct (set_err F xs ys); [exact I|].
    cbn [atoms_in] in U1, U2. rewrite Forall_forall in U1, U2.
    destruct (diff_setM_spec F SU no_alias m xs ys p1 p2 Hm U1 U2) as [m' [E Hm']]. rewrite E.
    apply (simR_lift m' (Ok (diff_setF F xs ys p1 p2, []))). exact Hm'.
  - (* t2 a frozenset *)
    destruct (ty_eqb (type_of t1) (type_of (VFrozen ys))) eqn:Ety; [|apply (Eq _ _ _ _ _ m Hm); apply Mis; [exact Hm|destruct t1; reflexivity|exact Ety]].
    destruct t1 as [a|xs|xs|kvs|xs|xs]; try discriminate Ety; [destruct a; discriminate Ety|].
    cbn [diffM diffF]. cbn [type_of ty_eqb negb andb].
    destruct (excluded F TFrozen || excluded F TFrozen); [apply (simR_lift m (Ok ([], []))); exact Hm|].
    destruct (set_err F xs ys); [exact I|].
    cbn [atoms_in] in U1, U2. rewrite Forall_forall in U1, U2.
    destruct (diff_setM_spec F SU no_alias m xs ys p1 p2 Hm U1 U2) as [m' [E Hm']]. rewrite E.
    apply (simR_lift m' (Ok (diff_setF F xs ys p1 p2, []))). exact Hm'.
Qed.

Lemma same_set_nil : forall {A} (l : list A), same_set [] l -> l = [].
Proof. intros A [|a l] H; [reflexivity|]. destruct (proj2 (H a) (or_introl eq_refl)). Qed.

(* the whole run: both raise or neither, and one is empty iff the other is (mutual_add_removes is order-sensitive, so
   the run-level statement for non-empty results is left at the level of [diffM] / [diffF]) *)
Theorem run_memoF_empty : forall t1 t2, dstable t1 = true -> dstable t2 = true -> sin t1 -> sin t2 ->
  ((exists e, run_memoF udiff ops c F t1 t2 = Err e) <-> (exists e, run_optF udiff ops c F t1 t2 = Err e)) /\
  ((exists ps, run_memoF udiff ops c F t1 t2 = Ok ([], ps)) <-> (exists ps, run_optF udiff ops c F t1 t2 = Ok ([], ps))).
Proof.
  intros t1 t2 S1 S2 U1 U2. unfold run_memoF, run_optF.
  pose proof (diffM_sim t2 t1 [] [] [] S1 S2 U1 U2 (fun k t (H : In (k, t) []) => match H with end)) as K. unfold simR in K.
  destruct (diffM udiff ops c F [] t1 t2 [] []) as [[[es ps] m']|e], (diffF udiff ops c F t1 t2 [] []) as [[es' ps']|e'];
    cbn [fst snd bind] in *; try contradiction; [|destruct K as [_ []]|].
  - destruct K as [_ [K1 K2]]. split; [split; intros [e H]; discriminate|].
    split; intros [q H]; injection H as H1 H2; apply mutual_nil in H1; subst.
    + apply same_set_nil in K1. subst es'. eexists. reflexivity.
    + assert (es = []) as E by (apply same_set_nil; intros e; symmetry; apply K1). subst es. eexists. reflexivity.
  - split; [split; intros _; eexists; reflexivity|split; intros [q H]; discriminate].
Qed.
End WholeD.

(* ---------------------------------------------------------------------- *)
(* (M3) with aliases the table matters; non-vacuity of (M1) / (M2)          *)
(* ---------------------------------------------------------------------- *)
From Coq Require Import String.
Local Open Scope string_scope.
Local Open Scope Z_scope.
Definition mm_ud (_ _ : pystr) : pystr := [].
Definition mm_ops (_ : path) (_ _ : list value) : list opcode := [].
Definition mm_c : cfg := mkCfg false 33 100 true.
Definition mm_kinds (r : res (list entry * list path)) : option (list rkind) :=
  match r with Ok x => Some (map ekind (fst x)) | Err _ => None end.
(* exclude_types = [float] *)
Definition MFxfloat := mkOpts false false false None None [TFloat] None 0 false false false.

(* C11-MEMO-SET: {1} against {1.0}: DeepHash without the run's table gives the two members different texts ("int:1",
   "float:1.0": one added, one removed); with the table 1.0 is looked up under the key 1 (1 == 1.0) and gets the text
   of 1: nothing is reported *)
Theorem memo_alias_refuted :
  mm_kinds (run_optF mm_ud mm_ops mm_c no_opts (VSet [AInt 1]) (VSet [AFloat 1 0])) = Some [KSetAdd; KSetRem] /\
  mm_kinds (run_memoF mm_ud mm_ops mm_c no_opts (VSet [AInt 1]) (VSet [AFloat 1 0])) = Some [] /\
  ~ alias_free no_opts [AInt 1; AFloat 1 0].
Proof.
  split; [vm_compute; reflexivity|]. split; [vm_compute; reflexivity|].
  intros H. destruct (H (AInt 1) (AFloat 1 0)) as [K _]; [left; left; reflexivity|left; right; left; reflexivity|reflexivity|].
  vm_compute in K. discriminate.
Qed.
(* ... and a member of an excluded type is hashed after all when an ==-equal member was stored before: {1.0} against
   {1} under exclude_types=[float] reports the added 1 (1.0 is skipped), with or without the table; after {1} against
   {1} in the same run (a list of two sets) the float is a table hit and the second pair reports nothing *)
Theorem memo_alias_excluded_refuted :
  mm_kinds (run_memoF mm_ud mm_ops mm_c MFxfloat (VSet [AFloat 1 0]) (VSet [AInt 1])) = Some [KSetAdd] /\
  mm_kinds (run_optF mm_ud mm_ops mm_c MFxfloat (VList [VSet [AInt 1]; VSet [AFloat 1 0]]) (VList [VSet [AInt 1]; VSet [AInt 1]])) = Some [KSetAdd] /\
  mm_kinds (run_memoF mm_ud mm_ops mm_c MFxfloat (VList [VSet [AInt 1]; VSet [AFloat 1 0]]) (VList [VSet [AInt 1]; VSet [AInt 1]])) = Some [].
Proof. repeat split; vm_compute; reflexivity. Qed.

(* non-vacuity: an alias-free universe with ints, a float, a str, a Decimal of another value and a bool (True is NOT an
   alias of 1 for the table: bools live under BoolObj keys); nested lists / tuples of sets *)
Definition mm_U : list atom := [AInt 1; AInt 2; AFloat 5 1; AStr (s2p "a"); ADec 35 (-1); ABool true].
Lemma mm_alias_free : alias_free MFxfloat mm_U.
Proof.
  intros x y Hx Hy H.
  assert (forall a, In a mm_U -> is_enum a = false) as Hpl
    by (intros a Ha; unfold mm_U in Ha; cbn [In] in Ha; repeat (destruct Ha as [Ha|Ha]; [subst; reflexivity|]); destruct Ha).
  apply (SUc_plain MFxfloat mm_U x Hpl) in Hx. apply (SUc_plain MFxfloat mm_U y Hpl) in Hy.
  unfold mm_U in *. cbn [In] in Hx, Hy.
  destruct Hx as [Hx|[Hx|[Hx|[Hx|[Hx|[Hx|[]]]]]]], Hy as [Hy|[Hy|[Hy|[Hy|[Hy|[Hy|[]]]]]]]; subst;
    try (split; reflexivity); vm_compute in H; discriminate.
Qed.
Definition mm_t1 : value := VList [VSet [AInt 1; AFloat 5 1; ABool true]; VTuple [VFrozen [AStr (s2p "a")]; VAtom (AInt 7)]; VSet [AInt 1]].
Definition mm_t2 : value := VList [VSet [AInt 2; ABool true]; VTuple [VFrozen [ADec 35 (-1)]; VAtom (AInt 8)]; VSet [AFloat 5 1; AInt 1]].
Example mm_memo_instance :
  run_memoF mm_ud mm_ops mm_c MFxfloat mm_t1 mm_t2 = run_optF mm_ud mm_ops mm_c MFxfloat mm_t1 mm_t2 /\
  exists r, run_optF mm_ud mm_ops mm_c MFxfloat mm_t1 mm_t2 = Ok r /\ (3 <= List.length (fst r))%nat.
Proof.
  split.
  - apply (run_memoF_nodict mm_ud mm_ops mm_c MFxfloat (fun x => In x mm_U) mm_alias_free); try reflexivity;
      cbn; unfold mm_U; cbn [In]; repeat split; auto 10; repeat constructor; cbn [In]; auto 10.
  - eexists. split; [vm_compute; reflexivity|cbn; lia].
Qed.

(* dicts: the same entries in another order ([diffM] follows t2's keys, [diffF] t1's) - by the theorem and by computation *)
Definition mm_d1 : value := VDict [(AStr (s2p "a"), VSet [AInt 1]); (AStr (s2p "b"), VList [VSet [AInt 2]])].
Definition mm_d2 : value := VDict [(AStr (s2p "b"), VList [VSet [AFloat 5 1]]); (AStr (s2p "a"), VSet [AInt 2])].
Example mm_dict_by_theorem : forall rM rF,
  diffM mm_ud mm_ops mm_c MFxfloat [] mm_d1 mm_d2 [] [] = Ok rM -> diffF mm_ud mm_ops mm_c MFxfloat mm_d1 mm_d2 [] [] = Ok rF ->
  same_set (fst (fst rM)) (fst rF) /\ same_set (snd (fst rM)) (snd rF).
Proof.
  intros rM rF EM EF.
  assert (simR MFxfloat (fun x => In x mm_U) (diffM mm_ud mm_ops mm_c MFxfloat [] mm_d1 mm_d2 [] []) (diffF mm_ud mm_ops mm_c MFxfloat mm_d1 mm_d2 [] [])) as K.
  { apply (diffM_sim mm_ud mm_ops mm_c MFxfloat (fun x => In x mm_U) mm_alias_free); try reflexivity.
    - cbn. unfold mm_U. cbn [In]. repeat split; auto 10; repeat constructor; cbn [In]; auto 10.
    - cbn. unfold mm_U. cbn [In]. repeat split; auto 10; repeat constructor; cbn [In]; auto 10.
    - intros k t []. }
  rewrite EM, EF in K. destruct K as [_ K]. exact K.
Qed.
Example mm_dict_order : exists rM rF,
  diffM mm_ud mm_ops mm_c MFxfloat [] mm_d1 mm_d2 [] [] = Ok rM /\ diffF mm_ud mm_ops mm_c MFxfloat mm_d1 mm_d2 [] [] = Ok rF /\
  fst (fst rM) <> fst rF /\ List.length (fst rF) = 3%nat.
Proof.
  eexists. eexists. split; [vm_compute; reflexivity|]. split; [vm_compute; reflexivity|]. split; [cbn; discriminate|reflexivity].
Qed.

(** sx renderings of the option-aware diff model for the correspondence check
    (no theorem depends on this file). *)
From Coq Require Import List ZArith NArith Bool Arith String.
Import ListNotations.
From DD Require Import Base.Sx Base.PyStr Base.Value Diff.Tree Diff.DiffModel Diff.DiffShow.
From DD Require Import Options.OptModel Options.OptDtModel.
Local Open Scope string_scope.

Definition sx_ekind (e : ekind) : sx :=
  SA (match e with EValue => "ValueError" end).

(* entries only (the recorded opcode paths are not an observable of C11) *)
Definition sx_res (r : res (list entry * list path)) : sx :=
  match r with
  | Ok x => SL [SA "ok"; sx_sorted_list sx_entry (fst x)]
  | Err e => SL [SA "raised"; sx_ekind e]
  end.

(* difflib opcodes looked up by the two sequences (the path under which a
   pair of sequences is compared depends on key cleaning) *)
Fixpoint vlist_eqb (xs ys : list value) : bool :=
  match xs, ys with
  | [], [] => true
  | x :: a, y :: b => value_eqb x y && vlist_eqb a b
  | _, _ => false
  end.
Definition tbl_ops2 (t : list (list value * list value * list opcode)) (_ : path) (xs ys : list value) : list opcode :=
  match find (fun x => vlist_eqb (fst (fst x)) xs && vlist_eqb (snd (fst x)) ys) t with
  | Some x => snd x
  | None => []
  end.

(* one run: tables for the library oracles, configuration, options, inputs *)
Definition run_sx (ud : list (pystr * pystr * pystr)) (op : list (list value * list value * list opcode))
           (c : cfg) (F : opts) (t1 t2 : value) : sx :=
  sx_res (run_optF (tbl_udiff ud) (tbl_ops2 op) c F t1 t2).

(* atom-level observables on arbitrary dyadic rationals *)
Definition num_str_sx (d : N) (m : Z) (e : N) : sx := sx_str (num_str d (m, e)).
Definition is_close_sx (m1 : Z) (e1 : N) (m2 : Z) (e2 : N) (me : Z) (ee : N) : sx :=
  sx_bool (is_close (m1, e1) (m2, e2) (me, ee)).
Definition hatom_sx (F : opts) (a : atom) : sx := sx_str (hatomF F a).

(* datetimes (atom level): the instant after datetime_normalize, and _diff_datetime's verdict *)
Definition tunit_of (n : nat) : option tunit :=
  match n with 1 => Some USecond | 2 => Some UMinute | 3 => Some UHour | 4 => Some UDay | _ => None end%nat.
Definition dt_instant_sx (t : nat) (dtz : Z) (us : Z) (off : option Z) : sx :=
  SZ (dt_instant (tunit_of t) dtz (mkDt us off)).
Definition dt_changed_sx (t : nat) (dtz : Z) (us1 : Z) (off1 : option Z) (us2 : Z) (off2 : option Z) : sx :=
  sx_bool (dt_changed (tunit_of t) dtz (mkDt us1 off1) (mkDt us2 off2)).

(** Boolean forms of the semantic hypotheses of the monotone theorem. *)
From Coq Require Import List ZArith NArith Bool Arith Lia.
Import ListNotations.
From DD Require Import Base.PyStr Base.Value Diff.Tree Diff.DiffModel Options.OptModel
  Options.OptProofsBase Options.OptProofsAtoms Options.OptProofsKeys Options.OptProofsLists
  Options.OptProofsAlt Options.OptProofsMono Options.OptProofsRun.

(* every dict key / every set member occurring anywhere in a value *)
Fixpoint all_keys (v : value) : list atom :=
  match v with
  | VAtom _ | VSet _ | VFrozen _ => []
  | VList xs | VTuple xs => flat_map all_keys xs
  | VDict kvs => flat_map (fun kv => fst kv :: all_keys (snd kv)) kvs
  end.
Fixpoint all_members (v : value) : list atom :=
  match v with
  | VAtom _ => []
  | VSet xs | VFrozen xs => xs
  | VList xs | VTuple xs => flat_map all_members xs
  | VDict kvs => flat_map (fun kv => all_members (snd kv)) kvs
  end.

(* Python-equal keys have the same type (no 1 / 1.0 / True among the keys) *)
Definition typed_keys_b (ks : list atom) : bool :=
  forallb (fun k => forallb (fun k' => negb (py_eq k k') || ty_eqb (atom_ty k) (atom_ty k')) ks) ks.
(* no two different set members with the same plain hash text (K1) *)
Definition inj_members_b (xs : list atom) : bool :=
  forallb (fun x => forallb (fun y => negb (pystr_eqb (hatomF no_opts x) (hatomF no_opts y)) || atom_eqb x y) xs) xs.

Lemma typed_keys_sound : forall ks, typed_keys_b ks = true ->
  forall k k', In k ks -> In k' ks -> py_eq k k' = true -> atom_ty k = atom_ty k'.
Proof.
  intros ks H k k' Hk Hk' E. unfold typed_keys_b in H. rewrite forallb_forall in H.
  specialize (H k Hk). rewrite forallb_forall in H. specialize (H k' Hk'). rewrite E in H. cbn in H.
  apply ty_eqb_eq. exact H.
Qed.

Lemma inj_members_sound : forall xs, inj_members_b xs = true ->
  forall x y, In x xs -> In y xs -> hatomF no_opts x = hatomF no_opts y -> x = y.
Proof.
  intros xs H x y Hx Hy E. unfold inj_members_b in H. rewrite forallb_forall in H.
  specialize (H x Hx). rewrite forallb_forall in H. specialize (H y Hy). rewrite E, pystr_eqb_refl in H. cbn in H.
  apply atom_eqb_eq. exact H.
Qed.

Lemma atoms_in_all : forall (K S : list atom) v,
  (forall k, In k (all_keys v) -> In k K) -> (forall x, In x (all_members v) -> In x S) ->
  atoms_in (fun k => In k K) (fun x => In x S) v.
Proof.
  intros K S. induction v as [a|xs IH|xs IH|kvs IH|xs|xs] using value_ind'; intros HK HS; cbn [atoms_in].
  - exact I.
  - cbn [all_keys all_members] in HK, HS. induction xs as [|x xs IHxs]; [exact I|].
    inversion IH as [|? ? Hx Hxs]; subst. cbn [flat_map] in HK, HS. split.
    + apply Hx; intros a Ha; [apply HK|apply HS]; apply in_or_app; left; exact Ha.
    + apply IHxs; [exact Hxs| |]; intros a Ha; [apply HK|apply HS]; apply in_or_app; right; exact Ha.
  - cbn [all_keys all_members] in HK, HS. induction xs as [|x xs IHxs]; [exact I|].
    inversion IH as [|? ? Hx Hxs]; subst. cbn [flat_map] in HK, HS. split.
    + apply Hx; intros a Ha; [apply HK|apply HS]; apply in_or_app; left; exact Ha.
    + apply IHxs; [exact Hxs| |]; intros a Ha; [apply HK|apply HS]; apply in_or_app; right; exact Ha.
  - cbn [all_keys all_members] in HK, HS. induction kvs as [|[k v] r IHr]; [exact I|].
    inversion IH as [|? ? Hx Hxs]; subst. cbn [snd fst] in *. cbn [flat_map fst snd] in HK, HS. split; [|split].
    + apply HK. left. reflexivity.
    + apply Hx; intros a Ha; [apply HK; right|apply HS]; apply in_or_app; left; exact Ha.
    + apply IHr; [exact Hxs| |]; intros a Ha; [apply HK; right|apply HS]; apply in_or_app; right; exact Ha.
  - cbn [all_members] in HS. apply Forall_forall. exact HS.
  - cbn [all_members] in HS. apply Forall_forall. exact HS.
Qed.

(* all guards of the monotone theorem as one boolean *)
Definition mono_ok (F : opts) (c : cfg) (t1 t2 : value) : bool :=
  guard F c t1 && guard F c t2
  && (negb (cleaning F) || typed_keys_b (all_keys t1 ++ all_keys t2))
  && inj_members_b (all_members t1 ++ all_members t2).

Theorem monotone_run_bool : forall F c udiff ops,
  thr_num c <= thr_den c ->
  (zip c = true \/ (o_excl F = [] /\ forall p xs ys, tiles (ops p xs ys) 0 0 (length xs) (length ys) = true)) ->
  (forall p q xs ys, ops p xs ys = ops q xs ys) ->
  forall t1 t2 r,
  run_optF udiff ops c no_opts t1 t2 = Ok ([], r) ->
  mono_ok F c t1 t2 = true ->
  run_optF udiff ops c F t1 t2 = Ok ([], []).
Proof.
  intros F c udiff ops Hthr Hmode Hpath t1 t2 r Hplain Hok.
  unfold mono_ok in Hok. apply andb_true_iff in Hok. destruct Hok as [Hok Hinj].
  apply andb_true_iff in Hok. destruct Hok as [Hok Hty]. apply andb_true_iff in Hok. destruct Hok as [G1 G2].
  apply (monotone_run F c udiff ops Hthr Hmode Hpath
           (fun k => In k (all_keys t1 ++ all_keys t2)) (fun x => In x (all_members t1 ++ all_members t2))) with (r := r);
    try assumption.
  - intros Hc k k' Hk Hk' E. rewrite Hc in Hty. cbn in Hty. eapply typed_keys_sound; eassumption.
  - intros x y Hx Hy E. eapply inj_members_sound; eassumption.
  - apply atoms_in_all; intros a Ha; apply in_or_app; left; exact Ha.
  - apply atoms_in_all; intros a Ha; apply in_or_app; right; exact Ha.
Qed.

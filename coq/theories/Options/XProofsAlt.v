(** (extended universe: dyadic floats, datetimes, truncate_datetime, default_timezone) C11, first clause: a value compared with a copy altered only in aspects the
    options ignore yields the empty diff.

    [alt F c a b]  "b is a altered only in what the code ignores": congruence
    closure of the three atom-level relations (leaf / key / set member), of
    "either side has an excluded type" and of the private entries of dicts.
    Dict entries and set members are matched up to order. *)
From Coq Require Import List ZArith NArith Bool Arith Lia.
Import ListNotations.
From DD Require Import Base.PyStr Options.OptModel Options.OptDtModel Options.XValue Options.XModel
  Options.XProofsBase Options.XProofsAtoms Options.XProofsKeys Options.XProofsLists.

Section Alt.
Variable F : opts.
Variable c : cfg.

(* set members: every member that exclude_types does not hide has a partner *)
Definition scover (xs ys : list atom) : Prop :=
  forall x, In x xs -> excluded F (atom_ty x) = false ->
  exists y, In y ys /\ excluded F (atom_ty y) = false /\ (altS F x y = true \/ altS F y x = true).

Inductive alt : value -> value -> Prop :=
| alt_atom : forall a b, altL F a b = true -> alt (VAtom a) (VAtom b)
| alt_excl : forall v w, excluded F (type_of v) || excluded F (type_of w) = true -> alt v w
| alt_list : forall xs ys, Forall2 alt xs ys -> alt (VList xs) (VList ys)
| alt_tuple : forall xs ys, Forall2 alt xs ys -> alt (VTuple xs) (VTuple ys)
| alt_dict : forall kvs1 kvs2,
    (forall k v, In (k, v) (kept c kvs1) ->
       exists k' v', In (k', v') (kept c kvs2) /\ altK F k k' = true /\ alt v v') ->
    (forall k', In k' (keys_of c kvs2) -> exists k, In k (keys_of c kvs1) /\ altK F k k' = true) ->
    alt (VDict kvs1) (VDict kvs2)
| alt_set : forall xs ys, scover xs ys -> scover ys xs -> alt (VSet xs) (VSet ys)
| alt_frozen : forall xs ys, scover xs ys -> scover ys xs -> alt (VFrozen xs) (VFrozen ys).

(* the guard: every dict that is compared has good kept keys (pairwise different
   for Python and after cleaning) *)
Fixpoint guard (v : value) : bool :=
  match v with
  | VAtom _ | VSet _ | VFrozen _ => true
  | VList xs | VTuple xs => forallb guard xs
  | VDict kvs =>
      keys_good F (keys_of c kvs)
      && forallb (fun kv => negb (keep_key c (fst kv)) || guard (snd kv)) kvs
  end.

Lemma guard_dict_val : forall kvs k v, guard (VDict kvs) = true -> In (k, v) (kept c kvs) -> guard v = true.
Proof.
  intros kvs k v H Hin. cbn [guard] in H. apply andb_true_iff in H. destruct H as [_ H].
  rewrite forallb_forall in H. apply kept_In in Hin. destruct Hin as [Hin Hk].
  specialize (H _ Hin). cbn [fst snd] in H. rewrite Hk in H. exact H.
Qed.

Lemma keys_good_parts : forall ks, keys_good F ks = true ->
  nodup_atoms ks = true /\ (forall k, In k ks -> key_ok F k = true) /\ nodup_atoms (map (ckey F) ks) = true.
Proof.
  intros ks H. unfold keys_good in H. apply andb_true_iff in H. destruct H as [H H3].
  apply andb_true_iff in H. destruct H as [H1 H2]. rewrite forallb_forall in H2. auto.
Qed.

(* when the types differ the leaf relation implies an ignore group covers both *)
Lemma altL_group : forall a b, altL F a b = true -> ty_eqb (atom_ty a) (atom_ty b) = false ->
  same_group F (atom_ty a) (atom_ty b) = true.
Proof.
  intros a b H Ht. unfold altL in H.
  apply orb_true_iff in H. destruct H as [H|H].
  2:{ unfold dt_rel in H. destruct a; try discriminate. destruct b; discriminate. }
  apply orb_true_iff in H. destruct H as [H|H].
  - apply orb_true_iff in H. destruct H as [H|H].
    + apply atom_eqb_eq in H. subst. rewrite ty_eqb_refl in Ht. discriminate.
    + unfold str_rel in H. apply andb_true_iff in H. destruct H as [H _]. apply andb_true_iff in H. destruct H as [H H2].
      apply andb_true_iff in H. destruct H as [Ha Hb]. rewrite Ht in H2. cbn [orb] in H2.
      apply andb_true_iff in H2. destruct H2 as [H2 _]. apply andb_true_iff in H2. destruct H2 as [Hs _].
      unfold same_group. rewrite Hs, Ha, Hb. reflexivity.
  - apply andb_true_iff in H. destruct H as [H _]. apply num_ty_ok_group; assumption.
Qed.

Section Main.
Variable udiff : pystr -> pystr -> pystr.
Variable ops : path -> list value -> list value -> list opcode.

(* threshold_to_diff_deeper <= 1 *)
Hypothesis thr_ok : thr_num c <= thr_den c.
(* all-atom sequences: positional mode, or (default mode) valid difflib opcodes and no exclude_types *)
Hypothesis list_mode : zip c = true \/ (o_excl F = [] /\ forall p xs ys, tiles (ops p xs ys) 0 0 (length xs) (length ys) = true).

Lemma alt_leaf_eq : forall x y, is_atom x = true -> is_atom y = true -> alt x y -> leaf_eq udiff F x y.
Proof.
  intros x y Hx Hy H p1 p2. destruct x as [a| | | | |], y as [b| | | | |]; cbn in Hx, Hy; try discriminate.
  cbn [diff_leafF]. inversion H; subst.
  - apply diff_atomF_altL. assumption.
  - unfold diff_atomF. cbn [type_of] in *.
    match goal with K : _ || _ = true |- _ => rewrite K end. reflexivity.
Qed.

Lemma Forall2_leaf_eq : forall xs ys, forallb is_atom xs = true -> forallb is_atom ys = true ->
  Forall2 alt xs ys -> Forall2 (leaf_eq udiff F) xs ys.
Proof.
  induction xs as [|x xs IH]; intros ys Hx Hy H; inversion H; subst; constructor.
  - cbn [forallb] in Hx, Hy. apply andb_true_iff in Hx. apply andb_true_iff in Hy.
    apply alt_leaf_eq; tauto.
  - cbn [forallb] in Hx, Hy. apply andb_true_iff in Hx. apply andb_true_iff in Hy. apply IH; tauto.
Qed.

(* sets *)
Lemma first_per_hash_In : forall (h : atom -> pystr) l seen x, In x (first_per_hash h l seen) -> In x l.
Proof.
  induction l as [|a l IH]; intros seen x H; cbn [first_per_hash] in H; [destruct H|].
  destruct (existsb (pystr_eqb (h a)) seen).
  - right. eapply IH; eassumption.
  - destruct H as [H|H]; [left; exact H|right; eapply IH; eassumption].
Qed.

Lemma excl_hash_excluded : forall a, excluded F (atom_ty a) = false -> excl_hash F a = false.
Proof. intros a H. destruct a; cbn [excl_hash]; try reflexivity; exact H. Qed.

Lemma set_side_nil : forall (k : rkind) xs ys p1 p2, scover ys xs ->
  flat_map (fun y => if existsb (pystr_eqb (hatomF F y)) (map (hatomF F) (filter (fun a => negb (excl_hash F a)) xs)) then []
                     else report_setF F k y p1 p2)
           (first_per_hash (hatomF F) (filter (fun a => negb (excl_hash F a)) ys) []) = [].
Proof.
  intros k xs ys p1 p2 Hc. apply flat_map_nil. intros y Hy.
  apply first_per_hash_In in Hy. apply filter_In in Hy. destruct Hy as [Hy _].
  destruct (existsb _ _) eqn:E; [reflexivity|].
  unfold report_setF. destruct (excluded F (atom_ty y)) eqn:Ex; [reflexivity|].
  exfalso. destruct (Hc y Hy Ex) as [x [Hx [Hxe Hh]]].
  assert (hatomF F y = hatomF F x) as Hh' by (destruct Hh as [Hh|Hh]; [|symmetry]; apply hatomF_altS; exact Hh).
  assert (existsb (pystr_eqb (hatomF F y)) (map (hatomF F) (filter (fun a => negb (excl_hash F a)) xs)) = true) as K.
  { apply existsb_exists. exists (hatomF F x). split.
    - apply in_map. apply filter_In. split; [exact Hx|]. rewrite (excl_hash_excluded x Hxe). reflexivity.
    - rewrite Hh'. apply pystr_eqb_refl. }
  congruence.
Qed.

Lemma diff_setF_cover : forall xs ys p1 p2, scover xs ys -> scover ys xs -> diff_setF F xs ys p1 p2 = [].
Proof.
  intros xs ys p1 p2 H1 H2. unfold diff_setF.
  rewrite (set_side_nil KSetAdd xs ys p1 p2 H2). rewrite (set_side_nil KSetRem ys xs p1 p2 H1). reflexivity.
Qed.

(* dicts: reports of added / removed keys *)
Lemma key_reports_all_mem : forall kind cks other km kvs p1 p2,
  (forall k, In k cks -> mem_atom k other = true) -> key_reports F kind cks other km kvs p1 p2 = [].
Proof.
  induction cks as [|k r IH]; intros other km kvs p1 p2 H; cbn [key_reports]; [reflexivity|].
  rewrite (H k (or_introl eq_refl)). apply IH. intros x Hx. apply H. right. exact Hx.
Qed.

Theorem alt_empty_diff : forall t1 t2 p1 p2,
  alt t1 t2 -> guard t1 = true -> guard t2 = true ->
  diffF udiff ops c F t1 t2 p1 p2 = Ok ([], []).
Proof.
  induction t1 as [a|xs IH|xs IH|kvs IH|xs|xs] using value_ind'; intros t2 p1 p2 Halt Hg1 Hg2.
  - (* atom *)
    cbn [diffF].
    destruct (excluded F (type_of (VAtom a)) || excluded F (type_of t2)) eqn:Ex; [reflexivity|].
    inversion Halt; subst; [|congruence].
    cbn [type_of].
    destruct (ty_eqb (atom_ty a) (atom_ty b)) eqn:Et; cbn [negb andb].
    + rewrite diff_atomF_altL by assumption. reflexivity.
    + rewrite (altL_group a b) by assumption. cbn [negb]. rewrite diff_atomF_altL by assumption. reflexivity.
  - (* list *)
    cbn [diffF].
    destruct (excluded F (type_of (VList xs)) || excluded F (type_of t2)) eqn:Ex; [reflexivity|].
    inversion Halt as [| |xs' ys HF| | | |]; subst; [congruence|].
    cbn [type_of ty_eqb negb andb].
    destruct (negb (zip c) && forallb is_atom xs && forallb is_atom ys) eqn:Ed.
    + apply andb_true_iff in Ed. destruct Ed as [Ed Hy]. apply andb_true_iff in Ed. destruct Ed as [Hz Hx].
      destruct list_mode as [Hzip|[Hne Htile]]; [rewrite Hzip in Hz; discriminate|].
      rewrite (default_leaf_listF_nil udiff ops F Hne Htile xs ys p1 p2 (Forall2_leaf_eq xs ys Hx Hy HF)). reflexivity.
    + cbn [guard] in Hg1, Hg2. clear Ed Halt Ex. generalize 0 as i.
      revert ys HF Hg2. induction xs as [|x xs IHxs]; intros ys HF Hg2 i; inversion HF; subst; [reflexivity|].
      inversion IH as [|? ? Hx Hxs]; subst.
      cbn [forallb] in Hg1, Hg2. apply andb_true_iff in Hg1. destruct Hg1 as [Hg1a Hg1b].
      apply andb_true_iff in Hg2. destruct Hg2 as [Hg2a Hg2b].
      rewrite (Hx _ _ _ H1 Hg1a Hg2a). cbn [bind].
      rewrite (IHxs Hxs Hg1b _ H3 Hg2b (S i)). reflexivity.
  - (* tuple *)
    cbn [diffF].
    destruct (excluded F (type_of (VTuple xs)) || excluded F (type_of t2)) eqn:Ex; [reflexivity|].
    inversion Halt as [| | |xs' ys HF| | |]; subst; [congruence|].
    cbn [type_of ty_eqb negb andb].
    destruct (negb (zip c) && forallb is_atom xs && forallb is_atom ys) eqn:Ed.
    + apply andb_true_iff in Ed. destruct Ed as [Ed Hy]. apply andb_true_iff in Ed. destruct Ed as [Hz Hx].
      destruct list_mode as [Hzip|[Hne Htile]]; [rewrite Hzip in Hz; discriminate|].
      rewrite (default_leaf_listF_nil udiff ops F Hne Htile xs ys p1 p2 (Forall2_leaf_eq xs ys Hx Hy HF)). reflexivity.
    + cbn [guard] in Hg1, Hg2. clear Ed Halt Ex. generalize 0 as i.
      revert ys HF Hg2. induction xs as [|x xs IHxs]; intros ys HF Hg2 i; inversion HF; subst; [reflexivity|].
      inversion IH as [|? ? Hx Hxs]; subst.
      cbn [forallb] in Hg1, Hg2. apply andb_true_iff in Hg1. destruct Hg1 as [Hg1a Hg1b].
      apply andb_true_iff in Hg2. destruct Hg2 as [Hg2a Hg2b].
      rewrite (Hx _ _ _ H1 Hg1a Hg2a). cbn [bind].
      rewrite (IHxs Hxs Hg1b _ H3 Hg2b (S i)). reflexivity.
  - (* dict *)
    cbn [diffF].
    destruct (excluded F (type_of (VDict kvs)) || excluded F (type_of t2)) eqn:Ex; [reflexivity|].
    inversion Halt as [| | | |kvs1 kvs2 C1 C2| |]; subst; [congruence|].
    cbn [type_of ty_eqb negb andb].
    pose proof Hg1 as Hg1'. pose proof Hg2 as Hg2'.
    cbn [guard] in Hg1', Hg2'. apply andb_true_iff in Hg1'. destruct Hg1' as [Hk1 _].
    apply andb_true_iff in Hg2'. destruct Hg2' as [Hk2 _].
    destruct (kmap_spec F _ Hk1) as [km1 [E1 [Ec1 [Eo1 Er1]]]].
    destruct (kmap_spec F _ Hk2) as [km2 [E2 [Ec2 [Eo2 Er2]]]].
    destruct (keys_good_parts _ Hk1) as [Hn1 [Hok1 Hnc1]].
    destruct (keys_good_parts _ Hk2) as [Hn2 [Hok2 Hnc2]].
    rewrite E1, E2. cbn [bind]. rewrite Ec1, Ec2.
    set (ks1 := keys_of c kvs) in *. set (ks2 := keys_of c kvs2) in *.
    (* the clean key sets cover each other *)
    assert (forall ck, In ck (map (ckey F) ks2) -> mem_atom ck (map (ckey F) ks1) = true) as M2.
    { intros ck Hck. apply in_map_iff in Hck. destruct Hck as [k' [E Hk']]. subst ck.
      destruct (C2 k' Hk') as [k [Hk Hr]].
      apply mem_atom_In. exists (ckey F k). split; [apply in_map; exact Hk|].
      rewrite py_eq_sym. apply ckey_altK; auto. }
    assert (forall ck, In ck (map (ckey F) ks1) -> mem_atom ck (map (ckey F) ks2) = true) as M1.
    { intros ck Hck. apply in_map_iff in Hck. destruct Hck as [k [E Hk]]. subst ck.
      destruct (keys_of_kept_ex c kvs k Hk) as [v Hkv].
      destruct (C1 k v Hkv) as [k' [v' [Hin' [Hr _]]]].
      pose proof (kept_key_In c kvs2 k' v' Hin') as Hk'.
      apply mem_atom_In. exists (ckey F k'). split; [apply in_map; exact Hk'|].
      apply ckey_altK; auto. }
    rewrite (shortcutF_cover c _ _ thr_ok M2 M1).
    rewrite (key_reports_all_mem KDictAdd _ _ km2 kvs2 p1 p2 M2).
    rewrite (key_reports_all_mem KDictRem _ _ km1 kvs p1 p2 M1).
    (* the common keys *)
    match goal with |- bind ?G _ = _ => assert (G = Ok ([], [])) as Hgo end.
    { assert (forall k v, In (k, v) kvs -> keep_key c k = true -> In (k, v) (kept c kvs)) as Hsub
        by (intros k v H1 H2; apply kept_In; split; assumption).
      clear E1 Hk1 Halt Ex. revert Hsub IH. generalize kvs at 1 3 4 as l.
      induction l as [|[k v1] r IHr]; intros Hsub IH; [reflexivity|].
      inversion IH as [|? ? Hx Hxs]; subst. cbn [snd] in Hx.
      rewrite (IHr (fun k' v' H => Hsub k' v' (or_intror H)) Hxs).
      destruct (keep_key c k) eqn:Hkeep; [|reflexivity].
      pose proof (Hsub k v1 (or_introl eq_refl) Hkeep) as Hkv.
      pose proof (kept_key_In c kvs k v1 Hkv) as Hk.
      rewrite (Er1 k Hk).
      destruct (C1 k v1 Hkv) as [k' [v' [Hin' [Hr Hav]]]].
      pose proof (kept_key_In c kvs2 k' v' Hin') as Hk'.
      assert (py_eq (ckey F k) (ckey F k') = true) as Hpe by (apply ckey_altK; auto).
      destruct (find (py_eq (ckey F k)) (map (ckey F) ks2)) as [ck'|] eqn:Ef.
      2:{ exfalso. eapply find_none in Ef; [|apply in_map; exact Hk']. congruence. }
      apply find_some in Ef. destruct Ef as [Hin Hpe2].
      assert (ck' = ckey F k') as Eck.
      { apply (nodup_atoms_uniq _ _ _ Hnc2 Hin (in_map _ _ _ Hk')).
        rewrite py_eq_sym in Hpe2. eapply py_eq_trans; eassumption. }
      subst ck'.
      rewrite (Eo2 k' Hk').
      rewrite (assoc_kept c kvs2 k' v' Hn2 Hin').
      rewrite (Hx v' _ _ Hav (guard_dict_val _ _ _ Hg1 Hkv) (guard_dict_val _ _ _ Hg2 Hin')).
      reflexivity. }
    rewrite Hgo. reflexivity.
  - (* set *)
    cbn [diffF].
    destruct (excluded F (type_of (VSet xs)) || excluded F (type_of t2)) eqn:Ex; [reflexivity|].
    inversion Halt; subst; [congruence|].
    cbn [type_of ty_eqb negb andb]. rewrite diff_setF_cover by assumption. reflexivity.
  - (* frozenset *)
    cbn [diffF].
    destruct (excluded F (type_of (VFrozen xs)) || excluded F (type_of t2)) eqn:Ex; [reflexivity|].
    inversion Halt; subst; [congruence|].
    cbn [type_of ty_eqb negb andb]. rewrite diff_setF_cover by assumption. reflexivity.
Qed.

(* the whole run *)
Theorem alt_empty_run : forall t1 t2,
  alt t1 t2 -> guard t1 = true -> guard t2 = true -> run_optF udiff ops c F t1 t2 = Ok ([], []).
Proof.
  intros t1 t2 H G1 G2. unfold run_optF. rewrite (alt_empty_diff t1 t2 [] [] H G1 G2). reflexivity.
Qed.

End Main.
End Alt.

(** The DeepHash memo table inside the C11 model (finding K2 = C11-MEMO-SET).  DeepDiff keeps ONE table `self.hashes`
    for the whole run; DeepHash looks an object up in it (a dict lookup: identity or ==, so 1 / 1.0 / Decimal('1') and -
    under use_enum_value - an Enum member and its value are ONE key; a bool is looked up as BoolObj and only meets
    bools) BEFORE it asks _skip_this, and stores what it computes.  So the hash text of a set member is the text of the
    first ==-equal member hashed earlier in the run, and a member of an excluded type is hashed after all when an
    ==-equal member of another type was stored before.  Sets are hashed in traversal order: t1's members, then t2's;
    dict values in the order of t2's keys (t_keys_intersect = t2_keys & t1_keys), sequences by position.

    [diffM] is [YModel.diffF] with the table threaded through the traversal; nothing else differs.  Definitions only. *)
From Coq Require Import List ZArith NArith Bool Arith String.
Import ListNotations.
From DD Require Import Base.PyStr Options.OptModel Options.OptDtModel Options.YValue Options.YModel.

Definition memo := list (atom * pystr).       (* key object (after use_enum_value), stored text *)

Definition is_bool (a : atom) : bool := match a with ABool _ => true | _ => false end.
(* `key in self.hashes`: bools live under BoolObj keys *)
Definition mkey_eq (k k' : atom) : bool := if is_bool k || is_bool k' then atom_eqb k k' else py_eq k k'.
Fixpoint mlook (m : memo) (k : atom) : option pystr :=
  match m with
  | [] => None
  | (k', t) :: r => if mkey_eq k' k then Some t else mlook r k
  end.

Section Memo.
Variable udiff : pystr -> pystr -> pystr.
Variable ops : path -> list value -> list value -> list opcode.
Variable c : cfg.
Variable F : opts.

(* An Enum member that is hashed as an OBJECT (no use_enum_value) goes through _prep_obj / _prep_dict, which hashes - through
   the same run-wide table - the attribute names (str keys: when exclude_types contains str the key is skipped and the entry
   with it) and, unless the item is of an excluded type (_skip_this is asked BEFORE _hash here), the items _value_, _name_,
   _sort_order_.  So 1 (the value of G.P), 'P' and 0 (its sort order) become table entries, and a later lookup of the
   ==-equal set member 1.0 / Decimal('1') / 0.0 hits them: it gets their text, and is hashed even when its type is excluded.
   (The attribute-name strings '_value_', '_name_', '_sort_order_' are entries too; a set member spelling one of them has the
   same text anyway.  __objclass__ is private: skipped.) *)
Definition internals (a : atom) : list atom :=
  match a with AEnum _ n o v => [atom_of_e v; AStr n; AInt (Z.of_nat o)] | _ => [] end.
Definition stored_internals (a : atom) : list atom :=
  if o_enum F || excluded F TStr then [] else filter (fun x => negb (excluded F (atom_ty x))) (internals a).
(* _hash(item) of an internal: a table hit changes nothing, a miss stores the item's own text *)
Definition minsert (m : memo) (x : atom) : memo :=
  match mlook m x with Some _ => m | None => (x, hatomF F x) :: m end.

(* DeepHash(item, hashes=self.hashes)[item]: None = skipped (not hashed) *)
Definition mhash (m : memo) (a : atom) : option pystr * memo :=
  let k := unwrap F a in
  match mlook m k with
  | Some t => (Some t, m)
  | None => if excl_hash F a then (None, m)
            else (Some (hatomF F a), (k, hatomF F a) :: fold_left minsert (stored_internals a) m)
  end.
(* _create_hashtable: the hashed members with their texts *)
Fixpoint mhash_list (m : memo) (l : list atom) : list (atom * pystr) * memo :=
  match l with
  | [] => ([], m)
  | a :: r =>
      let '(o, m1) := mhash m a in
      let '(rest, m2) := mhash_list m1 r in
      (match o with Some t => (a, t) :: rest | None => rest end, m2)
  end.
Fixpoint first_per_text (l : list (atom * pystr)) (seen : list pystr) : list (atom * pystr) :=
  match l with
  | [] => []
  | (a, t) :: r => if existsb (pystr_eqb t) seen then first_per_text r seen else (a, t) :: first_per_text r (t :: seen)
  end.
(* _diff_set on the two hashtables *)
Definition diff_setT (xs ys : list (atom * pystr)) (p1 p2 : path) : list entry :=
  let hx := map snd xs in
  let hy := map snd ys in
  (flat_map (fun y => if existsb (pystr_eqb (snd y)) hx then [] else report_setF F KSetAdd (fst y) p1 p2) (first_per_text ys [])
   ++ flat_map (fun x => if existsb (pystr_eqb (snd x)) hy then [] else report_setF F KSetRem (fst x) p1 p2) (first_per_text xs []))%list.
Definition diff_setM (m : memo) (xs0 ys0 : list atom) (p1 p2 : path) : list entry * memo :=
  let '(xs, m1) := mhash_list m xs0 in
  let '(ys, m2) := mhash_list m1 ys0 in
  (diff_setT xs ys p1 p2, m2).

Definition resm := res (list entry * list path * memo).
Definition bindm (r : resm) (f : list entry * list path * memo -> resm) : resm :=
  match r with Ok x => f x | Err e => Err e end.

(* _diff with the table: the dispatcher of YModel.diffF.  Structural on t2: the children of a dict are visited in the
   order of t2's keys, sequences by position. *)
Fixpoint diffM (m : memo) (t1 t2 : value) (p1 p2 : path) {struct t2} : resm :=
  match t1, t2 with
  | VAtom a, VAtom b => match leafR udiff F a b p1 p2 with Ok es => Ok (es, [], m) | Err e => Err e end
  | _, _ =>
  if excluded F (type_of t1) || excluded F (type_of t2) then Ok ([], [], m) else
  if negb (ty_eqb (type_of t1) (type_of t2)) && negb (o_enum F && (is_enum_v t1 || is_enum_v t2))
  then Ok (reportF F KType p1 p2 (Some t1) (Some t2) None, [], m)
  else
  match t1, t2 with
  | VDict kvs1, VDict kvs2 =>
      let r1 := keys_of c kvs1 in
      let r2 := keys_of c kvs2 in
      match kmap F r1, kmap F r2 with
      | Ok km1, Ok km2 =>
        let k1 := ckeys F r1 km1 in
        let k2 := ckeys F r2 km2 in
        if shortcutF c k1 k2 then Ok (reportF F KValue p1 p2 (Some t1) (Some t2) None, [], m)
        else
          let added := key_reports F KDictAdd k2 k1 km2 kvs2 p1 p2 in
          let removed := key_reports F KDictRem k1 k2 km1 kvs1 p1 p2 in
          bindm ((fix go (l : list (atom * value)) (m0 : memo) : resm :=
                   match l with
                   | [] => Ok ([], [], m0)
                   | (k, v2) :: r =>
                       let here : resm :=
                         if keep_key c k then
                           match repr_ckey F km2 k with          (* k represents its clean class in t2 *)
                           | Some ck' =>
                               match find (py_eq ck') k1 with
                               | Some ck =>
                                   match assoc (orig_key F km1 ck) kvs1 with
                                   | Some v1 => diffM m0 v1 v2 (snoc p1 (PKey ck')) (snoc p2 (PKey ck'))
                                   | None => Ok ([], [], m0)
                                   end
                               | None => Ok ([], [], m0)
                               end
                           | None => Ok ([], [], m0)
                           end
                         else Ok ([], [], m0) in
                       bindm here (fun x => bindm (go r (snd x)) (fun y =>
                         Ok ((fst (fst x) ++ fst (fst y))%list, (snd (fst x) ++ snd (fst y))%list, snd y)))
                   end) kvs2 m) (fun common =>
          Ok ((added ++ removed ++ fst (fst common))%list, snd (fst common), snd common))
      | Err e, _ => Err e
      | _, Err e => Err e
      end
  | VList xs, VList ys | VTuple xs, VTuple ys =>
      if negb (zip c) && forallb is_basic xs && forallb is_basic ys
      then match default_leaf_err udiff ops F xs ys p1 p2 with
           | Some e => Err e
           | None => let '(es, rec) := default_leaf_listF udiff ops F xs ys p1 p2 in Ok (es, if rec then [p1] else [], m)
           end
      else
        (fix go (xs ys : list value) (i : nat) (m0 : memo) {struct ys} : resm :=
           match xs, ys with
           | [], _ => Ok (added_fromF F ys i p1 p2, [], m0)
           | _ :: _, [] => Ok (removed_fromF F xs i p1 p2, [], m0)
           | x :: xs', y :: ys' =>
               bindm (diffM m0 x y (snoc p1 (PIdx i)) (snoc p2 (PIdx i))) (fun r1 =>
               bindm (go xs' ys' (S i) (snd r1)) (fun r2 =>
                 Ok ((fst (fst r1) ++ fst (fst r2))%list, (snd (fst r1) ++ snd (fst r2))%list, snd r2)))
           end) xs ys 0 m
  | VSet xs, VSet ys | VFrozen xs, VFrozen ys =>
      match set_err F xs ys with
      | Some e => Err e
      | None => let '(es, m') := diff_setM m xs ys p1 p2 in Ok (es, [], m')
      end
  | _, _ => match mixedF F t1 t2 p1 p2 with Ok r => Ok (fst r, snd r, m) | Err e => Err e end
  end
  end.

(* DeepDiff(t1, t2, view='tree', **options) with the run's table, empty at the start *)
Definition run_memoF (t1 t2 : value) : res (list entry * list path) :=
  match diffM [] t1 t2 [] [] with
  | Ok r => Ok (mutual (fst (fst r)), snd (fst r))
  | Err e => Err e
  end.

End Memo.

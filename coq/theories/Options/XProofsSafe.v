(** (extended universe) C11, third clause: the options do not make DeepDiff raise -
    on inputs without a datetime dict key when a key-cleaning option is set
    together with a precision (helper.numbers contains datetime: key cleaning
    calls round(datetime), finding C11-DATETIME-KEY).  Under that guard the
    model never returns Err. *)
From Coq Require Import List ZArith NArith Bool Arith Lia.
Import ListNotations.
From DD Require Import Base.PyStr Options.OptModel Options.OptDtModel Options.XValue Options.XModel
  Options.XProofsBase Options.XProofsAtoms.

Section Safe.
Variable F : opts.
Variable c : cfg.
Variable udiff : pystr -> pystr -> pystr.
Variable ops : path -> list value -> list value -> list opcode.

(* every dict key anywhere is cleanable when key cleaning is active *)
Definition key_safe (k : atom) : bool := negb (cleaning F) || key_cleanable F k.
Fixpoint safe (v : value) : bool :=
  match v with
  | VAtom _ | VSet _ | VFrozen _ => true
  | VList xs | VTuple xs => forallb safe xs
  | VDict kvs => forallb (fun kv => key_safe (fst kv) && safe (snd kv)) kvs
  end.

Lemma safe_key : forall kvs k, safe (VDict kvs) = true -> In k (map fst kvs) -> key_safe k = true.
Proof.
  intros kvs k H Hin. cbn [safe] in H. rewrite forallb_forall in H.
  apply in_map_iff in Hin. destruct Hin as [[k' v] [E Hin]]. cbn in E. subst.
  specialize (H _ Hin). cbn [fst snd] in H. apply andb_true_iff in H. tauto.
Qed.
Lemma safe_val : forall kvs k v, safe (VDict kvs) = true -> In (k, v) kvs -> safe v = true.
Proof.
  intros kvs k v H Hin. cbn [safe] in H. rewrite forallb_forall in H.
  specialize (H _ Hin). cbn [fst snd] in H. apply andb_true_iff in H. tauto.
Qed.

Lemma clean_map_ok : forall ks acc, cleaning F = true -> (forall k, In k ks -> key_safe k = true) ->
  exists km, clean_map F ks acc = Ok km.
Proof.
  induction ks as [|k r IH]; intros acc Hc Hs; cbn [clean_map]; [eexists; reflexivity|].
  pose proof (Hs k (or_introl eq_refl)) as Hk. unfold key_safe in Hk. rewrite Hc in Hk. cbn [negb orb] in Hk.
  destruct (clean_key_ok F k Hk) as [ck Eck]. rewrite Eck. cbn [bind].
  destruct (mem_atom ck (map fst acc)); apply IH; auto; intros x Hx; apply Hs; right; exact Hx.
Qed.

Lemma kmap_ok : forall kvs0, safe (VDict kvs0) = true -> exists km, kmap F (keys_of c kvs0) = Ok km.
Proof.
  intros kvs0 Hs0. unfold kmap. destruct (cleaning F) eqn:Hc; [|eexists; reflexivity].
  apply clean_map_ok; [exact Hc|]. intros k Hk. apply keys_of_In in Hk. destruct Hk as [Hk _]. exact (safe_key kvs0 k Hs0 Hk).
Qed.

Theorem never_raises : forall t1 t2 p1 p2, safe t1 = true -> safe t2 = true -> exists r, diffF udiff ops c F t1 t2 p1 p2 = Ok r.
Proof.
  induction t1 as [a|xs IH|xs IH|kvs IH|xs|xs] using value_ind'; intros t2 p1 p2 Hs1 Hs2; cbn [diffF];
    (destruct (excluded F (type_of _) || excluded F (type_of t2)); [eexists; reflexivity|]);
    (destruct (negb (ty_eqb _ (type_of t2)) && negb (same_group F _ (type_of t2))); [eexists; reflexivity|]).
  - destruct t2; eexists; reflexivity.
  - destruct t2 as [b|ys|ys|kvs2|ys|ys]; try (eexists; reflexivity).
    destruct (negb (zip c) && forallb is_atom xs && forallb is_atom ys).
    + destruct (default_leaf_listF udiff ops F xs ys p1 p2). eexists; reflexivity.
    + cbn [safe] in Hs1, Hs2. generalize 0 as i. revert ys Hs2.
      induction xs as [|x xs IHxs]; intros ys Hs2 i; [eexists; reflexivity|].
      destruct ys as [|y ys]; [eexists; reflexivity|].
      inversion IH as [|? ? Hx Hxs]; subst.
      cbn [forallb] in Hs1, Hs2. apply andb_true_iff in Hs1. destruct Hs1 as [Ha Hb].
      apply andb_true_iff in Hs2. destruct Hs2 as [Ha2 Hb2].
      destruct (Hx y (snoc p1 (PIdx i)) (snoc p2 (PIdx i)) Ha Ha2) as [r1 E1]. rewrite E1. cbn [bind].
      destruct (IHxs Hxs Hb ys Hb2 (S i)) as [r2 E2]. rewrite E2. cbn [bind]. eexists; reflexivity.
  - destruct t2 as [b|ys|ys|kvs2|ys|ys]; try (eexists; reflexivity).
    destruct (negb (zip c) && forallb is_atom xs && forallb is_atom ys).
    + destruct (default_leaf_listF udiff ops F xs ys p1 p2). eexists; reflexivity.
    + cbn [safe] in Hs1, Hs2. generalize 0 as i. revert ys Hs2.
      induction xs as [|x xs IHxs]; intros ys Hs2 i; [eexists; reflexivity|].
      destruct ys as [|y ys]; [eexists; reflexivity|].
      inversion IH as [|? ? Hx Hxs]; subst.
      cbn [forallb] in Hs1, Hs2. apply andb_true_iff in Hs1. destruct Hs1 as [Ha Hb].
      apply andb_true_iff in Hs2. destruct Hs2 as [Ha2 Hb2].
      destruct (Hx y (snoc p1 (PIdx i)) (snoc p2 (PIdx i)) Ha Ha2) as [r1 E1]. rewrite E1. cbn [bind].
      destruct (IHxs Hxs Hb ys Hb2 (S i)) as [r2 E2]. rewrite E2. cbn [bind]. eexists; reflexivity.
  - destruct t2 as [b|ys|ys|kvs2|ys|ys]; try (eexists; reflexivity).
    destruct (kmap_ok kvs Hs1) as [km1 E1].
    destruct (kmap_ok kvs2 Hs2) as [km2 E2].
    rewrite E1, E2. cbn [bind].
    destruct (shortcutF c _ _); [eexists; reflexivity|].
    match goal with |- exists r, bind ?G _ = _ => assert (exists x, G = Ok x) as Hgo end.
    { assert (forall k v, In (k, v) kvs -> safe v = true) as Hv by (intros k v H; exact (safe_val kvs k v Hs1 H)).
      clear E1 Hs1. induction kvs as [|[k v1] r IHr]; [eexists; reflexivity|].
      inversion IH as [|? ? Hx Hxs]; subst. cbn [snd] in Hx.
      destruct (IHr Hxs (fun k' v' H => Hv k' v' (or_intror H))) as [rest Erest]. rewrite Erest.
      assert (exists x, (if keep_key c k then
                match repr_ckey F km1 k with
                | Some ck =>
                    match find (py_eq ck) (ckeys F (keys_of c kvs2) km2) with
                    | Some ck' =>
                        match assoc (orig_key F km2 ck') kvs2 with
                        | Some v2 => diffF udiff ops c F v1 v2 (snoc p1 (PKey ck')) (snoc p2 (PKey ck'))
                        | None => Ok ([], [])
                        end
                    | None => Ok ([], [])
                    end
                | None => Ok ([], [])
                end else Ok ([], [])) = Ok x) as [x Ex].
      { destruct (keep_key c k); [|eexists; reflexivity].
        destruct (repr_ckey F km1 k); [|eexists; reflexivity].
        destruct (find _ _) as [ck'|]; [|eexists; reflexivity].
        destruct (assoc _ kvs2) as [v2|] eqn:Ea; [|eexists; reflexivity].
        apply assoc_In in Ea. destruct Ea as [k2 [Hin _]].
        apply Hx; [exact (Hv k v1 (or_introl eq_refl))|exact (safe_val kvs2 k2 v2 Hs2 Hin)]. }
      rewrite Ex. cbn [bind]. eexists; reflexivity. }
    destruct Hgo as [x Ex]. rewrite Ex. cbn [bind]. eexists; reflexivity.
  - destruct t2; eexists; reflexivity.
  - destruct t2; eexists; reflexivity.
Qed.

End Safe.

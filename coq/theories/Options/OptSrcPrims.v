(** C11 source tie - the typed embedding of Python into Gallina that the translator
    harness/translate/optionskeys.py targets (DESIGN.md section 4.5).  Definitions only.

    The translator regenerates, statement by statement, the option-dependent fragments of
    deepdiff/diff.py (_get_clean_to_keys_mapping, the key-set part of _diff_dict, _diff_numbers,
    _diff_booleans, _diff_datetime, _diff_time), deepdiff/base.py (get_significant_digits) and
    deepdiff/helper.py (number_to_string).  What a Python expression MEANS on the model's value
    types is fixed here, once, by hand: isinstance on atoms, the attribute / method calls of str,
    bytes and Enum objects, str.format, dict and SetOrdered operations, the DiffLevel object, the
    builtins round / int / abs / Decimal.quantize / format on numbers, math.isclose,
    datetime_normalize.  These definitions (together with the translator's rules, NOTES_SRCTIE.md)
    are the trusted base of the tie; they contain none of the case analysis of the translated
    functions.  Number rendering, math.isclose and the datetime arithmetic are the numeric kernel of
    the hand model (rhe, dec_rhe, dec_str, sci_str, dy_of_q, is_close, dt_norm, time_secs): the tie
    does not re-derive them. *)
From Coq Require Import List ZArith NArith Bool Arith String.
Import ListNotations.
From DD Require Import Base.PyStr Options.OptModel Options.OptDtModel Options.YValue Options.YModel.

(** ** the exception monad (YModel.res: Ok | Err TypeError / ValueError / AttributeError) *)
Notation "'do' x <- e ; k" := (YModel.bind e (fun x => k))
  (at level 200, x name, e at level 100, k at level 200, right associativity).

(* a value that an `is not None` test has established to be there; None where a number is
   required raises (unreachable in the translated fragment: every use is guarded by the test,
   and the equivalence proofs would fail otherwise) *)
Definition py_the {A} (o : option A) : res A := match o with Some x => Ok x | None => Err EType end.
Definition py_is_none {A} (o : option A) : bool := match o with Some _ => false | None => true end.
Definition py_is_not_none {A} (o : option A) : bool := negb (py_is_none o).
(* truthiness of an optional value whose values are all truthy (a unit name like 'hour', a
   non-empty mapping): None is falsy *)
Definition py_truthy_opt {A} (o : option A) : bool := py_is_not_none o.

(* the None object where its type is not yet known (`a = b = None`) *)
Definition py_None : unit := tt.
(* n < k for an optional natural number (the comparison is only reached behind an `is not None` test) *)
Definition py_opt_ltb (o : option N) (k : N) : bool := match o with Some n => N.ltb n k | None => false end.

(** ** classes and isinstance on atoms *)
Inductive pyclass :=
| CBytes            (* bytes, helper.bytes_type *)
| CStr              (* str *)
| CEnum             (* enum.Enum *)
| CNumbers          (* helper.numbers = only_numbers + datetimes *)
| CDecimal          (* decimal.Decimal *)
| COnlyComplex      (* helper.only_complex_number: no atom of the universe *)
| CFloats           (* (float, np_floating) *)
| CDatetime         (* datetime.datetime *)
| CTime             (* datetime.time *)
| CDatetimeOrTime.  (* (datetime.datetime, datetime.time) *)

Definition py_isinstance (a : atom) (c : pyclass) : bool :=
  match c with
  | CBytes => match a with ABytes _ => true | _ => false end
  | CStr => match a with AStr _ => true | _ => false end
  | CEnum => match a with AEnum _ _ _ _ => true | _ => false end
  | CNumbers => num_like (atom_ty a)
  | CDecimal => match a with ADec _ _ => true | _ => false end
  | COnlyComplex => false
  | CFloats => match a with AFloat _ _ | ANan _ => true | _ => false end
  | CDatetime => match a with ADt _ _ => true | _ => false end
  | CTime => match a with ATime _ => true | _ => false end
  | CDatetimeOrTime => match a with ADt _ _ | ATime _ => true | _ => false end
  end.

(** ** attribute / method calls on atoms; Err EAttr = AttributeError *)
(* b.decode('utf-8') / b.decode('ascii'): bytes are ASCII in the model (ASSUMPTIONS of C11) *)
Definition py_decode (a : atom) : res atom :=
  match a with ABytes s => Ok (AStr s) | _ => Err EAttr end.
(* member.value *)
Definition py_enum_value (a : atom) : res atom :=
  match a with AEnum _ _ _ v => Ok (atom_of_e v) | _ => Err EAttr end.
(* x.__class__.__name__ *)
Definition py_class_name (a : atom) : pystr := ty_name a.
(* s.lower() *)
Definition py_lower (a : atom) : res atom :=
  match a with
  | AStr s => Ok (AStr (lower s))
  | ABytes s => Ok (ABytes (lower s))
  | _ => Err EAttr
  end.

(** ** texts: str(x) inside str.format.  None = the text of an object that is neither a str nor a
    rendered number; the hand model treats such a text as different from every number rendering
    (YModel.ntxt) and the embedding inherits that *)
Definition ptext := option pystr.
Definition py_str (a : atom) : ptext := match a with AStr s => Some s | _ => None end.
Fixpoint py_format_raw (fmt : pystr) (args : list pystr) : pystr :=
  match fmt with
  | [] => []
  | ch :: r =>
      match r with
      | ch' :: r' =>
          if N.eqb ch 123 && N.eqb ch' 125
          then match args with
               | a :: args' => (a ++ py_format_raw r' args')%list
               | [] => py_format_raw r' []
               end
          else ch :: py_format_raw r args
      | [] => [ch]
      end
  end.
Fixpoint all_texts (l : list ptext) : option (list pystr) :=
  match l with
  | [] => Some []
  | Some s :: r => match all_texts r with Some q => Some (s :: q) | None => None end
  | None :: _ => None
  end.
(* fmt.format(args...) with positional `{}` fields only *)
Definition py_format (fmt : pystr) (args : list ptext) : ptext :=
  match all_texts args with Some l => Some (py_format_raw fmt l) | None => None end.
(* s != t on texts: an unmodelled text differs from everything *)
Definition py_text_ne (x y : ptext) : bool :=
  match x, y with Some s, Some t => negb (pystr_eqb s t) | _, _ => true end.
(* a text stored where an object is expected: the str object; an unmodelled text is outside the embedding *)
Definition py_obj_of_text (x : ptext) : res atom :=
  match x with Some s => Ok (AStr s) | None => Err EType end.

(** ** dict_() objects keyed by atoms, in insertion order; SetOrdered of atoms *)
Definition pydict := list (atom * atom).
Definition py_dict_new : pydict := [].
Definition py_dict_contains (d : pydict) (k : atom) : bool := mem_atom k (map fst d).
(* d[k] = v: replaces the value of an equal key in place, else appends *)
Fixpoint py_dict_set (d : pydict) (k v : atom) : pydict :=
  match d with
  | [] => [(k, v)]
  | (k', v') :: r => if py_eq k' k then (k', v) :: r else (k', v') :: py_dict_set r k v
  end.
(* SetOrdered(d.keys()) *)
Definition py_dict_keys (d : pydict) : list atom := map fst d.
(* SetOrdered: a & b keeps the elements of a that are in b, a - b those that are not, in the order of a *)
Definition so_and (a b : list atom) : list atom := filter (fun k => mem_atom k b) a.
Definition so_sub (a b : list atom) : list atom := filter (fun k => negb (mem_atom k b)) a.

(** ** the DiffLevel object, restricted to what the fragment reads and writes *)
Record plevel := mkLv { lv_t1 : atom; lv_t2 : atom; lv_p1 : path; lv_p2 : path; lv_diff : option pystr }.
Definition lv_set_t1 (l : plevel) (a : atom) : plevel := mkLv a (lv_t2 l) (lv_p1 l) (lv_p2 l) (lv_diff l).
Definition lv_set_t2 (l : plevel) (a : atom) : plevel := mkLv (lv_t1 l) a (lv_p1 l) (lv_p2 l) (lv_diff l).
(* self._report_result(kind, level, local_tree=local_tree): not part of the fragment (YModel.reportF:
   _skip_this by exclude_types on either side) *)
Definition py_report_result (F : opts) (k : rkind) (l : plevel) : list entry :=
  reportF F k (lv_p1 l) (lv_p2 l) (Some (VAtom (lv_t1 l))) (Some (VAtom (lv_t2 l))) (lv_diff l).

(** ** comparisons *)
(* a != b on atoms: YModel.py_ne (a nan differs from everything, itself included) *)
(* math.isclose(a, b, abs_tol=eps): float(x) of each operand - TypeError for a non-number, False with a nan *)
Definition py_is_close (a b : atom) (eps : dy) : res bool :=
  match fl_of a, fl_of b with
  | Some (Some x), Some (Some y) => Ok (is_close x y eps)
  | Some _, Some _ => Ok false
  | _, _ => Err EType
  end.

(** ** number_format_notation *)
Inductive notation := NotF | NotE.
Definition notation_eqb (a b : notation) : bool :=
  match a, b with NotF, NotF | NotE, NotE => true | _, _ => false end.
Definition py_notation (F : opts) : notation := if o_note F then NotE else NotF.
(* number_format_notation == 'e' *)
Definition py_notation_is (n : notation) (s : pystr) : bool :=
  match n with NotF => pystr_eqb s (s2p "f") | NotE => pystr_eqb s (s2p "e") end.
(* try: x = TABLE[n] / except KeyError: raise ... *)
Fixpoint py_lookup {A} (tbl : list (notation * A)) (n : notation) (err : res A) : res A :=
  match tbl with
  | [] => err
  | (k, v) :: r => if notation_eqb k n then Ok v else py_lookup r n err
  end.

(** ** numbers inside number_to_string.
    A number after round() / quantize() is the decimal k / 10^d (d = the digits it was rounded to)
    together with its Python type (float or exact: int / Decimal); a float zero has no sign in this
    representation (-0.0 == 0.0 is replaced by abs(...) in the code; the representation cannot tell them
    apart).  The rendering of such a number is the hand model's numeric kernel. *)
Inductive pnum :=
| PAtom (a : atom)                       (* not yet rounded *)
| PRound (k : Z) (d : N) (fl : bool)     (* k / 10^d; fl: a float *)
| PNanF.                                 (* the float nan *)
Definition py_num_isinstance (x : pnum) (c : pyclass) : bool :=
  match x with
  | PAtom a => py_isinstance a c
  | PRound _ _ fl => match c with CNumbers => true | CFloats => fl | _ => false end
  | PNanF => match c with CNumbers | CFloats => true | _ => false end
  end.
(* a number returned where an object is expected: only a number that was not touched is an atom of the universe *)
Definition py_obj_of_num (x : pnum) : res atom := match x with PAtom a => Ok a | _ => Err EType end.
(* round(number=x, ndigits=d): round-half-even of the exact binary value (floats), exact for int / bool;
   TypeError for the datetime types (they are instances of helper.numbers) *)
Definition py_round (x : pnum) (d : N) : res pnum :=
  match x with
  | PAtom (ABool _ as a) | PAtom (AInt _ as a) =>
      match num_of a with Some q => Ok (PRound (rhe q d) d false) | None => Err EType end
  | PAtom (AFloat m e) => Ok (PRound (rhe (m, e) d) d true)
  | PAtom (ANan _) => Ok PNanF
  | PAtom (ADec m e) => Ok (PRound (dec_rhe m e d) d false)
  | _ => Err EType
  end.
(* number.quantize(Decimal('0.' + '0' * d)) with enough precision: ROUND_HALF_EVEN, exact *)
Definition py_quantize (x : pnum) (d : N) : res pnum :=
  match x with
  | PAtom (ADec m e) => Ok (PRound (dec_rhe m e d) d false)
  | _ => Err EAttr
  end.
(* int(x) for a number rounded to 0 digits: ValueError for nan *)
Definition py_int (x : pnum) : res pnum :=
  match x with
  | PRound k d _ => if N.eqb d 0 then Ok (PRound k d false) else Err EType
  | PNanF => Err EValue
  | PAtom _ => Err EType
  end.
(* x == 0.0 *)
Definition py_eq_zero (x : pnum) : bool :=
  match x with PRound k _ _ => Z.eqb k 0 | _ => false end.
(* abs(x) *)
Definition py_abs (x : pnum) : pnum :=
  match x with PRound k d fl => PRound (Z.abs k) d fl | _ => x end.
(* the entries of helper.number_formatting *)
Definition py_fmt_kind (tmpl : pystr) : option notation :=
  if pystr_eqb tmpl (s2p "{:.%sf}") then Some NotF
  else if pystr_eqb tmpl (s2p "{:.%se}") then Some NotE else None.
(* (using % d).format(x) for a rounded number: '{:.df}' prints k / 10^d with d decimals; '{:.de}' prints the
   double nearest to it (floats) or the exact value in scientific notation *)
Definition py_format_num (tmpl : pystr) (d : N) (x : pnum) : res pystr :=
  match py_fmt_kind tmpl, x with
  | Some NotF, PRound k d' _ => if N.eqb d d' then Ok (dec_str k d) else Err EValue
  | Some NotE, PRound k d' fl =>
      if N.eqb d d' then
        Ok (if fl && negb (N.eqb d 0)
            then let q := dy_of_q k (pow10 d) in sci_str d (fst q <? 0)%Z (Z.abs (fst q)) (two_p (snd q))
            else sci_str d (k <? 0)%Z (Z.abs k) (pow10 d))
      else Err EValue
  | Some _, PNanF => Ok (s2p "nan")
  | _, _ => Err EValue
  end.
(* re.sub(r'(?<=e(\+|\-))0(?=\d)+', '', s): one leading zero of the exponent removed - sci_str already
   prints the exponent without it; the substitution is the identity on its renderings *)
Definition py_strip_exp0 (s : pystr) : pystr := s.

(** ** helper.datetime_normalize(truncate_datetime, obj, default_timezone=...) (not part of the fragment:
    YModel.norm_any; never raises since /repo 1c8f0f8) *)
Definition py_datetime_normalize (F : opts) (a : atom) : res atom := norm_any F a.

(** ** _diff_str *)
(* type(a) == type(b) *)
Definition py_type_eq (a b : atom) : bool := ty_eqb (atom_ty a) (atom_ty b).
(* a == b on atoms *)
Definition py_eqv (a b : atom) : bool := negb (py_ne a b).
(* try: x = b.decode('ascii') / except UnicodeDecodeError: ...  - Some: decoded, None: the handler runs *)
Definition py_try_decode_ascii (a : atom) : res (option atom) :=
  match a with ABytes s => Ok (if is_ascii s then Some (AStr s) else None) | _ => Err EAttr end.
(* sub in x for a str x (False for anything else: the fragment asks it only of strs - behind do_diff / isinstance(_, str)) *)
Definition py_str_in (sub : pystr) (a : atom) : bool :=
  match a with AStr s => contains_sub sub s | _ => false end.
(* difflib.unified_diff(x.splitlines(), y.splitlines(), lineterm='') followed by list(...) and '\n'.join(...): the oracle
   [udiff] of the hand model on the two texts (the empty text stands for the empty list of lines); .splitlines() of a
   non-str raises AttributeError *)
Definition py_unified_diff (udiff : pystr -> pystr -> pystr) (x y : atom) : res pystr :=
  match x, y with AStr s, AStr t => Ok (udiff s t) | _, _ => Err EAttr end.
Definition py_nonempty (s : pystr) : bool := match s with [] => false | _ => true end.
(* level.additional['diff'] = text *)
Definition lv_set_diff (l : plevel) (d : option pystr) : plevel := mkLv (lv_t1 l) (lv_t2 l) (lv_p1 l) (lv_p2 l) d.

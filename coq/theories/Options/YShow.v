(** sx renderings of the extended C11 model for the correspondence check (no theorem depends on this file). *)
From Coq Require Import List ZArith NArith Bool Arith String.
Import ListNotations.
From DD Require Import Base.Sx Base.PyStr Options.OptModel Options.OptDtModel Options.YValue Options.YModel.
Local Open Scope string_scope.

Definition sx_kind (k : rkind) : sx :=
  SA (match k with
      | KType => "type_changes" | KValue => "values_changed"
      | KDictAdd => "dictionary_item_added" | KDictRem => "dictionary_item_removed"
      | KIterAdd => "iterable_item_added" | KIterRem => "iterable_item_removed"
      | KIterMoved => "iterable_item_moved"
      | KSetAdd => "set_item_added" | KSetRem => "set_item_removed"
      | KRepetition => "repetition_change"
      end).
Definition sx_entry (e : entry) : sx :=
  SL [sx_kind (ekind e); sx_path (ep1 e); sx_path (ep2 e);
      sx_opt sx_value (et1 e); sx_opt sx_value (et2 e); sx_opt sx_str (ediff e)].

Definition sx_res (r : res (list entry * list path)) : sx :=
  match r with
  | Ok x => SL [SA "ok"; sx_sorted_list sx_entry (fst x)]
  | Err EType => SL [SA "raised"; SA "TypeError"]
  | Err EValue => SL [SA "raised"; SA "ValueError"]
  | Err EAttr => SL [SA "raised"; SA "AttributeError"]
  end.

Definition tbl_udiff (t : list (pystr * pystr * pystr)) (a b : pystr) : pystr :=
  match find (fun x => pystr_eqb (fst (fst x)) a && pystr_eqb (snd (fst x)) b) t with
  | Some x => snd x
  | None => []
  end.
Definition value_eqb (a b : value) : bool :=
  match a, b with
  | VAtom x, VAtom y => atom_eqb x y
  | _, _ => false          (* only all-atom sequences are looked up *)
  end.
Fixpoint vlist_eqb (xs ys : list value) : bool :=
  match xs, ys with
  | [], [] => true
  | x :: a, y :: b => value_eqb x y && vlist_eqb a b
  | _, _ => false
  end.
Definition tbl_ops2 (t : list (list value * list value * list opcode)) (_ : path) (xs ys : list value) : list opcode :=
  match find (fun x => vlist_eqb (fst (fst x)) xs && vlist_eqb (snd (fst x)) ys) t with
  | Some x => snd x
  | None => []
  end.

Definition tunit_of (n : nat) : option tunit :=
  match n with 1 => Some USecond | 2 => Some UMinute | 3 => Some UHour | 4 => Some UDay | _ => None end%nat.

Definition yrun_sx (ud : list (pystr * pystr * pystr)) (op : list (list value * list value * list opcode))
           (c : cfg) (F : opts) (t1 t2 : value) : sx :=
  sx_res (run_optF (tbl_udiff ud) (tbl_ops2 op) c F t1 t2).
Definition yhatom_sx (F : opts) (a : atom) : sx := sx_str (hatomF F a).

(* atom-level renderings *)
Definition sx_res_str (r : option (res pystr)) : sx :=
  match r with
  | Some (Ok s) => SL [SA "ok"; sx_str s]
  | Some (Err EType) => SL [SA "raised"; SA "TypeError"]
  | Some (Err EValue) => SL [SA "raised"; SA "ValueError"]
  | Some (Err EAttr) => SL [SA "raised"; SA "AttributeError"]
  | None => SA "asis"
  end.
Definition ynstr_sx (F : opts) (d : N) (a : atom) : sx := sx_res_str (nstr F d a).
Definition yhash_eq_sx (F : opts) (a b : atom) : sx := sx_bool (pystr_eqb (hatomF F a) (hatomF F b)).
Definition yfloat_sx (m e : Z) : sx := let x := dy_of_dec m e in SL [SZ (fst x); SZ (Z.of_N (snd x))].
Definition ysecs_sx (us : Z) : sx := sx_atom (time_secs us).
Definition ypyeq_sx (a b : atom) : sx := sx_bool (py_eq a b).

(** Guards of the C11 theorems as booleans, evaluated on the inputs of real runs by the correspondence check
    (harness/props/c11.py): where the guard [safe] of C11x_never_raises_partial holds the implementation must not have
    raised; where [guard] holds for a pair the check generated as an altered copy ... (no theorem depends on this file). *)
From Coq Require Import List ZArith NArith Bool Arith String.
Import ListNotations.
From DD Require Import Base.Sx Base.PyStr Options.OptModel Options.OptDtModel Options.YValue Options.YModel Options.YProofsSafe.
Local Open Scope string_scope.

(* impl_raised: the real DeepDiff(t1, t2, **F) raised.  "safe-and-raised" must never be the answer. *)
Definition ysafe_sx (F : opts) (t1 t2 : value) (impl_raised : bool) : sx :=
  if safe F t1 && safe F t2 then (if impl_raised then SA "safe-and-raised" else SA "safe") else SA "unsafe".

(* the run with the DeepHash memo table threaded through the traversal (Options/YMemo.v) *)
From DD Require Import Options.YShow Options.YMemo.
Definition ymrun_sx (ud : list (pystr * pystr * pystr)) (op : list (list value * list value * list opcode))
           (c : cfg) (F : opts) (t1 t2 : value) : sx :=
  sx_res (run_memoF (tbl_udiff ud) (tbl_ops2 op) c F t1 t2).

(** (round-3 extended universe) Sequences of basic items in the default mode: the difflib pass against the pairwise
    pass.  If the two sequences are pointwise equivalent under the options
    (the pairwise pass reports nothing) then the default mode reports nothing,
    WHATEVER opcodes difflib returned, provided they tile the two sequences and
    no exclude_types is in force: a tiling either keeps the sequences aligned
    (then every block is an aligned equal-length block and reports nothing) or
    leaves alignment and must come back, which costs at least two reports -
    and with more than one report the code prefers the (empty) pairwise pass.

    This file is about what the two passes REPORT ([default_leaf_listF], built on the projection [diff_leafF] of the
    monadic leaf function; ported verbatim from the previous universe).  That neither pass RAISES
    ([default_leaf_err = None]) is [default_leaf_err_quiet] in YProofsSafe: difflib may pair any two items, so it
    needs every item [quiet], not just related items. *)
From Coq Require Import List ZArith NArith Bool Arith Lia.
Import ListNotations.
From DD Require Import Base.PyStr Options.OptModel Options.OptDtModel Options.YValue Options.YModel Options.YProofsBase.

(* validity of difflib opcodes: consecutive blocks from (i, j) to (n, m) with tags that fit their lengths *)
Definition op_shape (o : opcode) : bool :=
  match otag o with
  | OEqual => Nat.eqb (oi2 o - oi1 o) (oj2 o - oj1 o)
  | OReplace => Nat.ltb (oi1 o) (oi2 o) && Nat.ltb (oj1 o) (oj2 o)
  | ODelete => Nat.ltb (oi1 o) (oi2 o) && Nat.eqb (oj2 o) (oj1 o)
  | OInsert => Nat.eqb (oi2 o) (oi1 o) && Nat.ltb (oj1 o) (oj2 o)
  end.
Fixpoint tiles (os : list opcode) (i j n m : nat) : bool :=
  match os with
  | [] => Nat.eqb i n && Nat.eqb j m
  | o :: r => Nat.eqb (oi1 o) i && Nat.eqb (oj1 o) j && Nat.leb i (oi2 o) && Nat.leb j (oj2 o)
              && op_shape o && tiles r (oi2 o) (oj2 o) n m
  end.

Lemma tiles_bound : forall os i j n m, tiles os i j n m = true -> i <= n /\ j <= m.
Proof.
  induction os as [|o r IH]; intros i j n m H; cbn [tiles] in H.
  - apply andb_true_iff in H. destruct H as [H1 H2]. apply Nat.eqb_eq in H1. apply Nat.eqb_eq in H2. lia.
  - repeat (apply andb_true_iff in H; destruct H as [H ?]).
    match goal with K : tiles r _ _ _ _ = true |- _ => apply IH in K end.
    repeat match goal with K : Nat.leb _ _ = true |- _ => apply Nat.leb_le in K end. lia.
Qed.

Lemma slice_length : forall {A} (l : list A) a b, b <= length l -> length (slice l a b) = b - a.
Proof. intros A l a b H. unfold slice. rewrite firstn_length, skipn_length. lia. Qed.

Lemma Forall2_skipn : forall {A B} (R : A -> B -> Prop) n l1 l2, Forall2 R l1 l2 -> Forall2 R (skipn n l1) (skipn n l2).
Proof.
  induction n as [|n IH]; intros l1 l2 H; [exact H|].
  destruct H; cbn [skipn]; [constructor|apply IH; assumption].
Qed.
Lemma Forall2_firstn : forall {A B} (R : A -> B -> Prop) n l1 l2, Forall2 R l1 l2 -> Forall2 R (firstn n l1) (firstn n l2).
Proof.
  induction n as [|n IH]; intros l1 l2 H; [constructor|].
  destruct H; cbn [firstn]; [constructor|constructor; [assumption|apply IH; assumption]].
Qed.
Lemma Forall2_slice : forall {A B} (R : A -> B -> Prop) a b l1 l2, Forall2 R l1 l2 -> Forall2 R (slice l1 a b) (slice l2 a b).
Proof. intros. unfold slice. apply Forall2_firstn, Forall2_skipn. assumption. Qed.
Lemma Forall2_length : forall {A B} (R : A -> B -> Prop) l1 l2, Forall2 R l1 l2 -> length l1 = length l2.
Proof. induction 1; cbn; congruence. Qed.

Section Lists.
Variable udiff : pystr -> pystr -> pystr.
Variable ops : path -> list value -> list value -> list opcode.
Variable F : opts.

(* two items the pairwise comparison finds nothing to report about, at any path *)
Definition leaf_eq (x y : value) : Prop := forall p1 p2, diff_leafF udiff F x y p1 p2 = [].

Lemma pairs_leafF_aligned : forall xs ys i p1 p2, Forall2 leaf_eq xs ys -> pairs_leafF udiff F xs ys i i p1 p2 = [].
Proof.
  induction xs as [|x xs IH]; intros ys i p1 p2 H; inversion H; subst; cbn [pairs_leafF added_fromF]; [reflexivity|].
  rewrite Nat.eqb_refl. cbn [negb andb].
  match goal with K : leaf_eq x _ |- _ => rewrite K end. cbn [app]. apply IH. assumption.
Qed.

Hypothesis no_excl : o_excl F = [].

Lemma reportF_one : forall k p1 p2 a b d, length (reportF F k p1 p2 a b d) = 1.
Proof.
  intros. unfold reportF, excl_opt, excluded. rewrite no_excl.
  destruct a, b; reflexivity.
Qed.

Lemma removed_fromF_length : forall xs i p1 p2, length (removed_fromF F xs i p1 p2) = length xs.
Proof. induction xs as [|x xs IH]; intros; cbn [removed_fromF length]; [reflexivity|]. rewrite app_length, reportF_one, IH. reflexivity. Qed.
Lemma added_fromF_length : forall ys j p1 p2, length (added_fromF F ys j p1 p2) = length ys.
Proof. induction ys as [|y ys IH]; intros; cbn [added_fromF length]; [reflexivity|]. rewrite app_length, reportF_one, IH. reflexivity. Qed.

Lemma pairs_leafF_length : forall xs ys i j p1 p2,
  length xs - length ys <= length (pairs_leafF udiff F xs ys i j p1 p2) /\
  length ys - length xs <= length (pairs_leafF udiff F xs ys i j p1 p2).
Proof.
  induction xs as [|x xs IH]; intros ys i j p1 p2; cbn [pairs_leafF].
  - rewrite added_fromF_length. cbn. lia.
  - destruct ys as [|y ys].
    + rewrite (removed_fromF_length (x :: xs)). cbn. lia.
    + rewrite app_length. specialize (IH ys (S i) (S j) p1 p2). cbn [length]. lia.
Qed.

(* the count argument *)
Lemma by_opcodesF_count : forall os xs ys i j p1 p2,
  Forall2 leaf_eq xs ys ->
  tiles os i j (length xs) (length ys) = true ->
  (i = j -> by_opcodesF udiff F os xs ys p1 p2 = [] \/ 2 <= length (by_opcodesF udiff F os xs ys p1 p2)) /\
  (i <> j -> 1 <= length (by_opcodesF udiff F os xs ys p1 p2)).
Proof.
  induction os as [|o r IH]; intros xs ys i j p1 p2 HF Ht.
  - cbn [tiles] in Ht. apply andb_true_iff in Ht. destruct Ht as [H1 H2].
    apply Nat.eqb_eq in H1. apply Nat.eqb_eq in H2. pose proof (Forall2_length _ _ _ HF) as Hl.
    split; [intros _; left; reflexivity|intros Hne; exfalso; lia].
  - cbn [tiles] in Ht.
    apply andb_true_iff in Ht. destruct Ht as [Ht Hr]. apply andb_true_iff in Ht. destruct Ht as [Ht Hs].
    apply andb_true_iff in Ht. destruct Ht as [Ht Hj2]. apply andb_true_iff in Ht. destruct Ht as [Ht Hi2].
    apply andb_true_iff in Ht. destruct Ht as [Hi1 Hj1].
    apply Nat.eqb_eq in Hi1. apply Nat.eqb_eq in Hj1. apply Nat.leb_le in Hi2. apply Nat.leb_le in Hj2.
    pose proof (tiles_bound _ _ _ _ _ Hr) as [Hbi Hbj].
    specialize (IH xs ys (oi2 o) (oj2 o) p1 p2 HF Hr). destruct IH as [IHeq IHne].
    unfold by_opcodesF in *. cbn [flat_map]. rewrite app_length.
    set (E := flat_map _ r) in *.
    (* the entries of this block *)
    set (B := match otag o with
              | OEqual => []
              | OReplace => pairs_leafF udiff F (slice xs (oi1 o) (oi2 o)) (slice ys (oj1 o) (oj2 o)) (oi1 o) (oj1 o) p1 p2
              | ODelete => removed_fromF F (slice xs (oi1 o) (oi2 o)) (oi1 o) p1 p2
              | OInsert => added_fromF F (slice ys (oj1 o) (oj2 o)) (oj1 o) p1 p2
              end).
    (* a block that changes the offset reports at least one entry *)
    assert (oi2 o - oi1 o <> oj2 o - oj1 o -> 1 <= length B) as Hun.
    { intros Hne. subst B. unfold op_shape in Hs. destruct (otag o).
      - apply Nat.eqb_eq in Hs. contradiction.
      - pose proof (pairs_leafF_length (slice xs (oi1 o) (oi2 o)) (slice ys (oj1 o) (oj2 o)) (oi1 o) (oj1 o) p1 p2) as [K1 K2].
        rewrite !slice_length in K1, K2 by assumption. lia.
      - apply andb_true_iff in Hs. destruct Hs as [Hs _]. apply Nat.ltb_lt in Hs.
        rewrite removed_fromF_length, slice_length by assumption. lia.
      - apply andb_true_iff in Hs. destruct Hs as [_ Hs]. apply Nat.ltb_lt in Hs.
        rewrite added_fromF_length, slice_length by assumption. lia. }
    (* an aligned block that keeps the offset reports nothing *)
    assert (i = j -> oi2 o - oi1 o = oj2 o - oj1 o -> B = []) as Heq.
    { intros Hij Hlen. subst B. unfold op_shape in Hs. destruct (otag o).
      - reflexivity.
      - assert (oj1 o = oi1 o) as E1 by lia. assert (oj2 o = oi2 o) as E2 by lia. rewrite E1, E2.
        apply pairs_leafF_aligned. apply Forall2_slice. exact HF.
      - apply andb_true_iff in Hs. destruct Hs as [Hs1 Hs2]. apply Nat.ltb_lt in Hs1. apply Nat.eqb_eq in Hs2. lia.
      - apply andb_true_iff in Hs. destruct Hs as [Hs1 Hs2]. apply Nat.ltb_lt in Hs2. apply Nat.eqb_eq in Hs1. lia. }
    split.
    + intros Hij.
      destruct (Nat.eq_dec (oi2 o - oi1 o) (oj2 o - oj1 o)) as [Hlen|Hlen].
      * rewrite (Heq Hij Hlen). cbn [app length]. apply IHeq. lia.
      * right. specialize (Hun Hlen). assert (oi2 o <> oj2 o) as Hne by lia. specialize (IHne Hne). lia.
    + intros Hij.
      destruct (Nat.eq_dec (oi2 o) (oj2 o)) as [He|Hne].
      * assert (oi2 o - oi1 o <> oj2 o - oj1 o) as Hlen by lia. specialize (Hun Hlen). lia.
      * specialize (IHne Hne). lia.
Qed.

Hypothesis ops_tile : forall p xs ys, tiles (ops p xs ys) 0 0 (length xs) (length ys) = true.

Theorem default_leaf_listF_nil : forall xs ys p1 p2,
  Forall2 leaf_eq xs ys -> default_leaf_listF udiff ops F xs ys p1 p2 = ([], false).
Proof.
  intros xs ys p1 p2 HF. unfold default_leaf_listF.
  pose proof (by_opcodesF_count (ops p1 xs ys) xs ys 0 0 p1 p2 HF (ops_tile p1 xs ys)) as [H _].
  specialize (H eq_refl).
  rewrite (pairs_leafF_aligned xs ys 0 p1 p2 HF).
  destruct H as [H|H].
  - rewrite H. reflexivity.
  - destruct (Nat.ltb 1 (length (by_opcodesF udiff F (ops p1 xs ys) xs ys p1 p2))) eqn:E.
    + reflexivity.
    + apply Nat.ltb_ge in E. lia.
Qed.

End Lists.

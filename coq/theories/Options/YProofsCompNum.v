(** (round-3 extended universe) Arithmetic behind the composition theorem: round-half-even of a rational does not
    depend on the fraction that represents it; numbers that Python finds equal (int / bool / float / Decimal of one
    exact value) therefore get the same rendering under every precision, and math.isclose finds equal
    ints / floats close. *)
From Coq Require Import List ZArith NArith Bool Arith Lia.
Import ListNotations.
From DD Require Import Base.PyStr Options.OptModel Options.OptDtModel Options.YValue Options.YModel Options.YProofsBase.
Local Open Scope Z_scope.

Lemma rhe_q_scale : forall p q k, 0 < q -> 0 < k -> rhe_q (p * k) (q * k) = rhe_q p q.
Proof.
  intros p q k Hq Hk. unfold rhe_q.
  rewrite Z.div_mul_cancel_r by lia.
  rewrite Zmult_mod_distr_r.
  replace (2 * (p mod q * k)) with ((2 * (p mod q)) * k) by ring.
  assert ((2 * (p mod q) * k <? q * k) = (2 * (p mod q) <? q)) as E1.
  { destruct (2 * (p mod q) <? q) eqn:E; [apply Z.ltb_lt in E; apply Z.ltb_lt; nia|apply Z.ltb_ge in E; apply Z.ltb_ge; nia]. }
  assert ((q * k <? 2 * (p mod q) * k) = (q <? 2 * (p mod q))) as E2.
  { destruct (q <? 2 * (p mod q)) eqn:E; [apply Z.ltb_lt in E; apply Z.ltb_lt; nia|apply Z.ltb_ge in E; apply Z.ltb_ge; nia]. }
  rewrite E1, E2. reflexivity.
Qed.

(* equal fractions round alike *)
Lemma rhe_q_eq : forall p q p' q', 0 < q -> 0 < q' -> p * q' = p' * q -> rhe_q p q = rhe_q p' q'.
Proof.
  intros p q p' q' Hq Hq' H.
  rewrite <- (rhe_q_scale p q q' Hq Hq'). rewrite <- (rhe_q_scale p' q' q Hq' Hq).
  rewrite H. replace (q * q') with (q' * q) by ring. reflexivity.
Qed.

Lemma rhe_q_int : forall p, rhe_q p 1 = p.
Proof.
  intros p. unfold rhe_q. rewrite Z.div_1_r, Z.mod_1_r. reflexivity.
Qed.

(* the integer k = round_half_even(value * 10^d) that number_to_string renders, from the exact value *)
Definition krnd (d : N) (x : Z * Z) : Z := rhe_q (fst x * 10 ^ Z.of_N d) (snd x).

Lemma pow10_pos : forall d, 0 < pow10 d.
Proof. intros d. unfold pow10. apply Z.pow_pos_nonneg; lia. Qed.
Lemma two_p_pos : forall e, 0 < two_p e.
Proof. intros e. unfold two_p. apply Z.pow_pos_nonneg; lia. Qed.

Lemma rhe_krnd : forall m e d, rhe (m, e) d = krnd d (m, 2 ^ Z.of_N e).
Proof. intros. reflexivity. Qed.

Lemma dec_rhe_krnd : forall m e d,
  dec_rhe m e d = krnd d (if 0 <=? e then (m * 10 ^ e, 1) else (m, 10 ^ (- e))).
Proof.
  intros m e d. unfold dec_rhe, krnd.
  destruct (0 <=? e) eqn:Ee; cbn [fst snd].
  - apply Z.leb_le in Ee. assert (0 <=? e + Z.of_N d = true) as K by (apply Z.leb_le; lia). rewrite K.
    rewrite rhe_q_int. rewrite Z.pow_add_r by lia. ring.
  - apply Z.leb_gt in Ee. destruct (0 <=? e + Z.of_N d) eqn:Es.
    + apply Z.leb_le in Es.
      (* 10^d = 10^(e+d) * 10^(-e) *)
      replace (10 ^ Z.of_N d) with (10 ^ (e + Z.of_N d) * 10 ^ (- e)) by (rewrite <- Z.pow_add_r by lia; f_equal; lia).
      replace (m * (10 ^ (e + Z.of_N d) * 10 ^ (- e))) with ((m * 10 ^ (e + Z.of_N d)) * 10 ^ (- e)) by ring.
      rewrite <- (Z.mul_1_l (10 ^ (- e))) at 2.
      rewrite rhe_q_scale by (try lia; apply Z.pow_pos_nonneg; lia). symmetry. apply rhe_q_int.
    + apply Z.leb_gt in Es.
      replace (10 ^ (- e)) with (10 ^ (- (e + Z.of_N d)) * 10 ^ Z.of_N d) by (rewrite <- Z.pow_add_r by lia; f_equal; lia).
      symmetry. apply rhe_q_scale; apply Z.pow_pos_nonneg; lia.
Qed.

(* the rounded integer of a number atom, by its exact value *)
Lemma krnd_eq : forall d x y, 0 < snd x -> 0 < snd y -> q_eqb x y = true -> krnd d x = krnd d y.
Proof.
  intros d [p q] [p' q'] Hq Hq' H. unfold q_eqb in H. cbn [fst snd] in *. apply Z.eqb_eq in H.
  unfold krnd. cbn [fst snd]. apply rhe_q_eq; try assumption. nia.
Qed.

(* what number_to_string renders in notation 'f' *)
Definition is_num (a : atom) : bool := match a with ABool _ | AInt _ | AFloat _ _ | ADec _ _ => true | _ => false end.

Lemma nstr_f_krnd : forall F d a x, o_note F = false -> is_num a = true -> qv a = Some x ->
  nstr F d a = Some (Ok (dec_str (krnd d x) d)).
Proof.
  intros F d a x Hn Ha Hx.
  destruct a as [| b | z | m e | s | s | u o | i | m e | y mo dd | u | u | cl n o v]; cbn [is_num] in Ha; try discriminate;
    unfold qv in Hx; cbn [num_of] in Hx; cbn [nstr num_of]; unfold fmt_num; rewrite Hn.
  - injection Hx as Hx. subst x. reflexivity.
  - injection Hx as Hx. subst x. reflexivity.
  - injection Hx as Hx. subst x. reflexivity.
  - rewrite dec_rhe_krnd. injection Hx as Hx. subst x. reflexivity.
Qed.

(* Python-equal numbers are rendered alike (notation 'f') *)
Theorem nstr_py_eq : forall F d a b, o_note F = false -> is_num a = true -> is_num b = true -> py_eq a b = true ->
  nstr F d a = nstr F d b.
Proof.
  intros F d a b Hn Ha Hb H. unfold py_eq in H.
  destruct (qv a) as [x|] eqn:Ex; [|destruct a; cbn in Ha, Ex; discriminate].
  destruct (qv b) as [y|] eqn:Ey; [|destruct b; cbn in Hb, Ey; discriminate].
  rewrite (nstr_f_krnd F d a x Hn Ha Ex), (nstr_f_krnd F d b y Hn Hb Ey).
  rewrite (krnd_eq d x y (qv_pos a x Ex) (qv_pos b y Ey) H). reflexivity.
Qed.

(* equal dyadic values are equal for math.isclose *)
Lemma dy_eqb_value : forall x y : Z * N, fst x * 2 ^ Z.of_N (snd y) = fst y * 2 ^ Z.of_N (snd x) -> dy_eqb x y = true.
Proof.
  intros [m e] [m' e'] H. cbn [fst snd] in H. unfold dy_eqb, dy_align. cbn [fst snd]. apply Z.eqb_eq. unfold two_p.
  destruct (N.max_spec e e') as [[Hlt Hm]|[Hle Hm]]; rewrite Hm.
  - replace (e' - e')%N with 0%N by lia. replace (Z.of_N 0) with 0 by reflexivity. rewrite Z.pow_0_r, Z.mul_1_r.
    replace (Z.of_N e') with (Z.of_N e + Z.of_N (e' - e)) in H by lia.
    rewrite Z.pow_add_r in H by lia.
    assert (0 < 2 ^ Z.of_N e) as P by (apply Z.pow_pos_nonneg; lia).
    apply (Z.mul_cancel_r _ _ (2 ^ Z.of_N e)); [lia|]. rewrite <- H. ring.
  - replace (e - e)%N with 0%N by lia. replace (Z.of_N 0) with 0 by reflexivity. rewrite Z.pow_0_r, Z.mul_1_r.
    replace (Z.of_N e) with (Z.of_N e' + Z.of_N (e - e')) in H by lia.
    rewrite Z.pow_add_r in H by lia.
    assert (0 < 2 ^ Z.of_N e') as P by (apply Z.pow_pos_nonneg; lia).
    apply (Z.mul_cancel_r _ _ (2 ^ Z.of_N e')); [lia|]. rewrite H. ring.
Qed.

Definition is_bin (a : atom) : bool := match a with ABool _ | AInt _ | AFloat _ _ => true | _ => false end.
Lemma is_close_py_eq : forall a b x y e, is_bin a = true -> is_bin b = true -> num_of a = Some x -> num_of b = Some y ->
  py_eq a b = true -> is_close x y e = true.
Proof.
  intros a b x y e Ha Hb Hx Hy H. unfold is_close.
  assert (dy_eqb x y = true) as K.
  { apply dy_eqb_value.
    destruct a as [| ba | za | ma ea | sa | sa | ua oa | ia | ma ea | ya moa da | ua | ua | cla na oa va]; cbn [is_bin] in Ha; try discriminate;
    destruct b as [| bb | zb | mb eb | sb | sb | ub ob | ib | mb eb | yb mob db | ub | ub | clb nb ob vb]; cbn [is_bin] in Hb; try discriminate;
      cbn [num_of] in Hx, Hy; injection Hx as Hx; injection Hy as Hy; subst x y;
      unfold py_eq, qv in H; cbn [num_of] in H; unfold q_eqb in H; cbn [fst snd] in *; apply Z.eqb_eq in H; exact H. }
  rewrite K. reflexivity.
Qed.

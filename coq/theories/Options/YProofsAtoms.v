(** (round-3 extended universe: dyadic floats, nan objects, Decimal, datetime / date / time / timedelta, Enum members)
    Atom-level relations "altered only in an aspect the options ignore" and what the three places where the code
    looks at an atom (leaf comparison, key cleaning, set-member hashing) do with them.

    The leaf function of the model is monadic ([leafR : res (list entry)]); [diff_atomF] is its projection
    (Err |-> []).  Every statement about "nothing is reported" is proved twice: about the projection, and about
    [leafR] itself ([= Ok []], hence [atom_err = None]) - without a guard since 1c8f0f8 (finding C11-TRUNC-DATE, fixed:
    datetime_normalize leaves a date / timedelta alone, so such a leaf no longer raises against itself). *)
From Coq Require Import List ZArith NArith Bool Arith Lia.
Import ListNotations.
From DD Require Import Base.PyStr Options.OptModel Options.OptDtModel Options.YValue Options.YModel Options.YProofsBase.

(* ---------------------------------------------------------------------- *)
(* the relations                                                            *)
(* ---------------------------------------------------------------------- *)
(* the numeric relations below are restricted to int / float / Decimal: not bool (as before), not nan *)
Definition is_numeric (a : atom) : bool := match a with AInt _ | AFloat _ _ | ADec _ _ => true | _ => false end.

(* strings: same letters up to case (if ignored), same type or str/bytes (if ignored; ASCII) *)
Definition str_rel (F : opts) (a b : atom) : bool :=
  str_like (atom_ty a) && str_like (atom_ty b)
  && (ty_eqb (atom_ty a) (atom_ty b) || (o_strty F && is_ascii (str_content a) && is_ascii (str_content b)))
  && pystr_eqb (lowif F (str_content a)) (lowif F (str_content b)).

(* numbers (int / float / Decimal): same type, or different number types if ignored *)
Definition num_ty_ok (F : opts) (a b : atom) : bool :=
  is_numeric a && is_numeric b && (ty_eqb (atom_ty a) (atom_ty b) || o_numty F).

(* round(x, d) as the integer k with round(x, d) = k / 10^d (round-half-even on the exact value; Decimal: quantize),
   and whether number_to_string is handed a float *)
Definition sig_key (d : N) (a : atom) : option (Z * bool) :=
  match a with
  | AInt z => Some (rhe (z, 0%N) d, false)
  | AFloat m e => Some (rhe (m, e) d, true)
  | ADec m e => Some (dec_rhe m e d, false)
  | _ => None
  end.
(* the same number after rounding to the significant digits in force; in 'e' notation with d > 0 digits the
   rendering of a float goes through the nearest double, so a float is only related to a float there *)
Definition sig_rel (F : opts) (a b : atom) : bool :=
  match eff_sig F with
  | Some d =>
      match sig_key d a, sig_key d b with
      | Some (k, f), Some (k', f') => Z.eqb k k' && (negb (o_note F) || N.eqb d 0 || Bool.eqb f f')
      | _, _ => false
      end
  | None => false
  end.
(* within math_epsilon (math.isclose on float(x): a Decimal is seen as the nearest double) *)
Definition eps_rel (F : opts) (a b : atom) : bool :=
  match o_eps F, fl_of a, fl_of b with
  | Some e, Some (Some x), Some (Some y) => is_close x y e
  | _, _, _ => false
  end.

(* datetimes at a leaf: the same instant after datetime_normalize (truncation in the own zone, then the zone) *)
Definition dt_rel (F : opts) (a b : atom) : bool :=
  match a, b with
  | ADt u1 o1, ADt u2 o2 => negb (dt_changed (o_trunc F) (o_tz F) (mkDt u1 o1) (mkDt u2 o2))
  | _, _ => false
  end.
(* datetimes as the property states it: the same instant in another zone (a naive one lives in default_timezone),
   or the same zone and the same truncation bucket *)
Definition dt_full (F : opts) (a b : atom) : bool :=
  match a, b with
  | ADt u1 o1, ADt u2 o2 =>
      Z.eqb (dt_instant None (o_tz F) (mkDt u1 o1)) (dt_instant None (o_tz F) (mkDt u2 o2))
      || (opt_Z_eqb o1 o2 && match o_trunc F with Some u => Z.eqb (u1 / unit_us u) (u2 / unit_us u) | None => false end)
  | _, _ => false
  end.
(* datetimes as set members: DeepHash normalises with default_timezone and never truncates *)
Definition dt_set_rel (F : opts) (a b : atom) : bool :=
  match a, b with
  | ADt u1 o1, ADt u2 o2 => Z.eqb (dt_instant None (o_tz F) (mkDt u1 o1)) (dt_instant None (o_tz F) (mkDt u2 o2))
  | _, _ => false
  end.

(* ignore_nan_inequality: two nan objects (the same nan object is covered by atom_eqb) *)
Definition nan_rel (F : opts) (a b : atom) : bool := o_nan F && is_nan a && is_nan b.
(* use_enum_value at a leaf: an Enum member against its value, or against a member of ANOTHER class with the same
   value - None included since c9e614d (finding C11-ENUM-NONE, fixed: the None test of _diff reports only when
   `t1 is not t2`, and None against a member whose value is None unwraps to None on both sides).
   Excluded: two members of one class (they go through _diff_enum, which reports the .name child). *)
Definition enum_rel (F : opts) (a b : atom) : bool :=
  o_enum F && negb (ty_eqb (atom_ty a) (atom_ty b)) && (is_enum a || is_enum b)
  && atom_eqb (unwrap F a) (unwrap F b).

(* FULL STRENGTH (the property as stated): altered in any aspect an enabled option ignores *)
Definition altA (F : opts) (a b : atom) : bool :=
  atom_eqb a b || str_rel F a b || (num_ty_ok F a b && (py_eq a b || sig_rel F a b || eps_rel F a b))
  || dt_full F a b || dt_rel F a b || nan_rel F a b || enum_rel F a b.

(* what a LEAF comparison ignores: math_epsilon takes precedence over significant_digits *)
Definition altL (F : opts) (a b : atom) : bool :=
  atom_eqb a b || str_rel F a b
  || (num_ty_ok F a b &&
      match o_eps F with
      | Some _ => eps_rel F a b
      | None => match eff_sig F with Some _ => sig_rel F a b | None => py_eq a b end
      end)
  || dt_rel F a b || nan_rel F a b || enum_rel F a b.

(* use_enum_value at a dict key (only under key cleaning, and the value is then NOT cleaned further: C11-ENUM-KEY):
   two members with the same value, or a member with a str value against a member / a str key with the same letters
   up to case (if ignored) *)
Definition enumk_rel (F : opts) (a b : atom) : bool :=
  (is_enum a && is_enum b && atom_eqb (unwrap F a) (unwrap F b))
  || ((is_enum a || is_enum b) &&
      match unwrap F a, unwrap F b with
      | AStr s, AStr t => pystr_eqb (lowif F s) (lowif F t)
      | _, _ => false
      end).

(* what KEY CLEANING identifies (no cleaning option: Python equality of keys);
   bytes keys are decoded only by ignore_string_type_changes and never
   lower-cased as bytes; math_epsilon plays no role *)
Definition altK (F : opts) (a b : atom) : bool :=
  if cleaning F then
    atom_eqb a b
    || (str_rel F a b && (o_strty F || (negb (is_bytes a) && negb (is_bytes b))))
    || (num_ty_ok F a b && sig_rel F a b)
    || (o_enum F && enumk_rel F a b)
  else py_eq a b.

(* what the hash text of a SET MEMBER identifies; math_epsilon plays no role.  Under use_enum_value DeepHash hashes
   the value of an Enum member: the relation is taken between the unwrapped atoms ([unwrap] is the identity when the
   option is off) *)
Definition altS0 (F : opts) (a b : atom) : bool :=
  atom_eqb a b
  || (str_like (atom_ty a) && str_like (atom_ty b) && (ty_eqb (atom_ty a) (atom_ty b) || o_strty F)
      && pystr_eqb (lowif F (str_content a)) (lowif F (str_content b)))
  || (num_ty_ok F a b && sig_rel F a b)
  || dt_set_rel F a b.
Definition altS (F : opts) (a b : atom) : bool := altS0 F (unwrap F a) (unwrap F b).

(* the leaf relation is a restriction of the full one *)
Lemma altL_altA : forall F a b, altL F a b = true -> altA F a b = true.
Proof.
  intros F a b H. unfold altL, altA in *.
  apply orb_true_iff in H. destruct H as [H|H]; [|rewrite H; apply orb_true_r].
  apply orb_true_iff in H. destruct H as [H|H]; [|rewrite H; rewrite ?orb_true_r; reflexivity].
  apply orb_true_iff in H. destruct H as [H|H]; [|rewrite H; rewrite ?orb_true_r; reflexivity].
  apply orb_true_iff in H. destruct H as [H|H]; [rewrite H; reflexivity|].
  apply andb_true_iff in H. destruct H as [H1 H2]. rewrite H1. cbn [andb].
  assert (py_eq a b || sig_rel F a b || eps_rel F a b = true) as K.
  { destruct (o_eps F) eqn:Ee.
    - rewrite H2. apply orb_true_r.
    - destruct (eff_sig F) eqn:Es; rewrite H2; rewrite ?orb_true_r; reflexivity. }
  rewrite K. rewrite ?orb_true_r. reflexivity.
Qed.

(* ---------------------------------------------------------------------- *)
(* small facts                                                              *)
(* ---------------------------------------------------------------------- *)
Lemma lower_char_ascii : forall ch, N.ltb (lower_char ch) 128 = N.ltb ch 128.
Proof.
  intros ch. unfold lower_char.
  destruct (N.leb 65 ch && N.leb ch 90)%bool eqn:E; [|reflexivity].
  apply andb_true_iff in E. destruct E as [E1 E2]. apply N.leb_le in E1. apply N.leb_le in E2.
  assert (N.ltb (ch + 32) 128 = true) as K1 by (apply N.ltb_lt; lia).
  assert (N.ltb ch 128 = true) as K2 by (apply N.ltb_lt; lia).
  rewrite K1, K2. reflexivity.
Qed.

Lemma is_ascii_lower : forall s, is_ascii (lower s) = is_ascii s.
Proof.
  induction s as [|ch s IH]; [reflexivity|].
  unfold is_ascii, lower in *. cbn [map forallb]. rewrite lower_char_ascii, IH. reflexivity.
Qed.

Lemma is_ascii_lowif : forall F s, is_ascii (lowif F s) = is_ascii s.
Proof. intros F s. unfold lowif. destruct (o_case F); [apply is_ascii_lower|reflexivity]. Qed.

Lemma lower_app : forall s t, lower (s ++ t) = (lower s ++ lower t)%list.
Proof. intros. unfold lower. apply map_app. Qed.

Lemma lowif_app : forall F s t, lowif F (s ++ t) = (lowif F s ++ lowif F t)%list.
Proof. intros F s t. unfold lowif. destruct (o_case F); [apply lower_app|reflexivity]. Qed.

Lemma dy_eqb_refl : forall x, dy_eqb x x = true.
Proof. intros [m e]. unfold dy_eqb, dy_align. cbn [fst snd]. apply Z.eqb_refl. Qed.

Lemma is_close_refl : forall x e, is_close x x e = true.
Proof. intros x e. unfold is_close. rewrite dy_eqb_refl. reflexivity. Qed.

(* int / float / Decimal of one type, or any two of them under ignore_numeric_type_changes, carry the same type tag *)
Lemma num_tag_ok : forall F a b, num_ty_ok F a b = true -> num_tag F a = num_tag F b.
Proof.
  intros F a b H. unfold num_ty_ok in H.
  apply andb_true_iff in H. destruct H as [H Ht]. apply andb_true_iff in H. destruct H as [Ha Hb].
  unfold num_tag. destruct (o_numty F); [reflexivity|]. rewrite orb_false_r in Ht.
  destruct a, b; cbn in Ha, Hb, Ht; try discriminate; reflexivity.
Qed.

Lemma num_ty_ok_group : forall F a b, num_ty_ok F a b = true ->
  ty_eqb (atom_ty a) (atom_ty b) = false -> same_group F (atom_ty a) (atom_ty b) = true.
Proof.
  intros F a b H Ht. unfold num_ty_ok in H. rewrite Ht in H. cbn [orb] in H.
  apply andb_true_iff in H. destruct H as [H Hn]. apply andb_true_iff in H. destruct H as [Ha Hb].
  unfold same_group. rewrite Hn.
  destruct a, b; cbn in Ha, Hb; try discriminate; cbn; rewrite ?orb_true_r; reflexivity.
Qed.

(* the rendering of the rounded number depends on the float flag only in 'e' notation with d > 0 digits *)
Lemma fmt_num_flag : forall F d k f f',
  negb (o_note F) || N.eqb d 0 || Bool.eqb f f' = true -> fmt_num F d k f = fmt_num F d k f'.
Proof.
  intros F d k f f' H. unfold fmt_num.
  destruct (o_note F); [|reflexivity]. destruct (N.eqb d 0); [rewrite !andb_false_r; reflexivity|].
  cbn [negb orb] in H. apply Bool.eqb_prop in H. subst. reflexivity.
Qed.

(* [sig_rel] says that number_to_string renders the two numbers alike *)
Lemma sig_rel_nstr : forall F a b, sig_rel F a b = true ->
  exists d s, eff_sig F = Some d /\ nstr F d a = Some (Ok s) /\ nstr F d b = Some (Ok s).
Proof.
  intros F a b H. unfold sig_rel in H.
  destruct (eff_sig F) as [d|]; [|discriminate]. exists d.
  destruct (sig_key d a) as [[k f]|] eqn:Ea; [|discriminate].
  destruct (sig_key d b) as [[k' f']|] eqn:Eb; [|discriminate].
  apply andb_true_iff in H. destruct H as [Hk Hf]. apply Z.eqb_eq in Hk. subst k'.
  exists (fmt_num F d k f). split; [reflexivity|].
  split.
  - destruct a; cbn [sig_key] in Ea; try discriminate; injection Ea as E1 E2; subst; reflexivity.
  - rewrite (fmt_num_flag F d k f f' Hf).
    destruct b; cbn [sig_key] in Eb; try discriminate; injection Eb as E1 E2; subst; reflexivity.
Qed.

Lemma sig_rel_refl : forall F d a, eff_sig F = Some d -> is_numeric a = true -> sig_rel F a a = true.
Proof.
  intros F d a Hd Ha. unfold sig_rel. rewrite Hd.
  destruct a; cbn in Ha; try discriminate; cbn [sig_key]; rewrite Z.eqb_refl, orb_true_r; reflexivity.
Qed.

Lemma fl_of_numeric : forall a, is_numeric a = true -> exists x, fl_of a = Some (Some x).
Proof. intros a H. destruct a; cbn in H; try discriminate; eexists; reflexivity. Qed.

(* ---------------------------------------------------------------------- *)
(* leaves                                                                   *)
(* ---------------------------------------------------------------------- *)
Section Leaf.
Variable udiff : pystr -> pystr -> pystr.
Variable F : opts.

Lemma diff_strF_rel : forall a b p1 p2, str_rel F a b = true -> diff_strF udiff F a b p1 p2 = [].
Proof.
  intros a b p1 p2 H. unfold str_rel in H.
  apply andb_true_iff in H. destruct H as [H He]. apply andb_true_iff in H. destruct H as [H Ht].
  unfold diff_strF. rewrite He. cbn [andb].
  apply orb_true_iff in Ht. destruct Ht as [Ht|Ht]; [rewrite Ht; reflexivity|].
  apply andb_true_iff in Ht. destruct Ht as [Ht Hb]. apply andb_true_iff in Ht. destruct Ht as [_ Ha].
  rewrite !is_ascii_lowif, Ha, Hb.
  destruct (is_bytes a), (is_bytes b); cbn; rewrite ?orb_true_r; reflexivity.
Qed.

(* _diff_numbers on two related numbers, whatever report_type_change says *)
Lemma numD_leaf : forall rtc a b p1 p2,
  num_ty_ok F a b = true ->
  match o_eps F with
  | Some _ => eps_rel F a b
  | None => match eff_sig F with Some _ => sig_rel F a b | None => py_eq a b end
  end = true ->
  numD F rtc a b p1 p2 = Ok [].
Proof.
  intros rtc a b p1 p2 Hok H. unfold numD.
  pose proof Hok as Hn. unfold num_ty_ok in Hn. apply andb_true_iff in Hn. destruct Hn as [Hn _].
  apply andb_true_iff in Hn. destruct Hn as [Hna Hnb].
  destruct (o_eps F) as [e|] eqn:Ee.
  - unfold eps_rel in H. rewrite Ee in H.
    destruct (fl_of_numeric a Hna) as [x Ex]. destruct (fl_of_numeric b Hnb) as [y Ey].
    rewrite Ex, Ey in *. rewrite H. reflexivity.
  - destruct (eff_sig F) as [d|] eqn:Es.
    + destruct (sig_rel_nstr F a b H) as [d' [s [Ed [Ea Eb]]]]. rewrite Es in Ed. injection Ed as Ed. subst d'.
      unfold ntxt. rewrite Ea, Eb. cbn [bind]. rewrite (num_tag_ok F a b Hok), pystr_eqb_refl. reflexivity.
    + unfold py_ne. rewrite H. destruct a, b; cbn in Hna, Hnb; try discriminate; reflexivity.
Qed.

Lemma numD_refl : forall rtc a p1 p2, is_numeric a = true -> numD F rtc a a p1 p2 = Ok [].
Proof.
  intros rtc a p1 p2 Ha. apply numD_leaf.
  - unfold num_ty_ok. rewrite Ha, ty_eqb_refl. reflexivity.
  - destruct (o_eps F) as [e|] eqn:Ee.
    + unfold eps_rel. rewrite Ee. destruct (fl_of_numeric a Ha) as [x Ex]. rewrite Ex. apply is_close_refl.
    + destruct (eff_sig F) as [d|] eqn:Es; [apply (sig_rel_refl F d a Es Ha)|apply py_eq_refl].
Qed.

Lemma time_secs_not_nan : forall us, is_nan (time_secs us) = false.
Proof. intros us. unfold time_secs. destruct (_ =? 0)%Z; reflexivity. Qed.

(* the comparer of an atom against itself (not a nan: nan != nan) *)
Lemma dispatch_refl : forall rtc x p1 p2, is_nan x = false -> dispatch udiff F rtc x x p1 p2 = Ok [].
Proof.
  intros rtc x p1 p2 Hn.
  destruct x as [| b | z | m e | s | s | u o | i | m e | y mo d | u | u | cl n o v]; cbn [dispatch]; try reflexivity;
    try (apply numD_refl; reflexivity); try discriminate.
  - unfold py_ne. rewrite py_eq_refl. reflexivity.
  - unfold strD. cbn [atom_ty str_like]. unfold diff_strF. rewrite pystr_eqb_refl, ty_eqb_refl. reflexivity.
  - unfold strD. cbn [atom_ty str_like]. unfold diff_strF. rewrite pystr_eqb_refl, ty_eqb_refl. reflexivity.
  - cbn [dtD]. unfold dt_changed. rewrite Z.eqb_refl. reflexivity.
  - unfold timeD. destruct (o_trunc F); cbn [norm_any bind]; unfold py_ne; rewrite py_eq_refl; reflexivity.
  - unfold timeD. destruct (o_trunc F) as [t|].
    + cbn [norm_any bind]. unfold py_ne. rewrite py_eq_refl, time_secs_not_nan. reflexivity.
    + unfold py_ne. rewrite py_eq_refl. reflexivity.
  - unfold timeD. destruct (o_trunc F); cbn [norm_any bind]; unfold py_ne; rewrite py_eq_refl; reflexivity.
Qed.

(* two atoms that are not both members of one Enum class are compared by leaf_core *)
Lemma leafR_core_ty : forall a b p1 p2, ty_eqb (atom_ty a) (atom_ty b) = false ->
  leafR udiff F a b p1 p2 = leaf_core udiff F a b p1 p2.
Proof.
  intros a b p1 p2 H. destruct a; try reflexivity. destruct b; try reflexivity.
  cbn [atom_ty ty_eqb] in H. unfold leafR. rewrite H. reflexivity.
Qed.
Lemma leafR_core_l : forall a b p1 p2, is_enum a = false -> leafR udiff F a b p1 p2 = leaf_core udiff F a b p1 p2.
Proof. intros a b p1 p2 H. destruct a; try reflexivity. discriminate. Qed.

Lemma same_obj_ty : forall a b, same_obj a b = true -> ty_eqb (atom_ty a) (atom_ty b) = true.
Proof.
  intros a b H. destruct a, b; cbn in H; try discriminate; [reflexivity|].
  apply andb_true_iff in H. destruct H as [H _]. exact H.
Qed.

(* an excluded type on either side: nothing is reported, nothing is raised *)
Lemma leafR_excl : forall a b p1 p2, excluded F (atom_ty a) || excluded F (atom_ty b) = true -> leafR udiff F a b p1 p2 = Ok [].
Proof.
  intros a b p1 p2 H.
  assert (leaf_core udiff F a b p1 p2 = Ok []) as K.
  { unfold leaf_core. destruct (same_obj a b); [reflexivity|]. rewrite H. reflexivity. }
  destruct a; try exact K. destruct b; try exact K.
  unfold leafR. destruct (pystr_eqb cls cls0) eqn:Ec; [|exact K].
  destruct (pystr_eqb name name0); [reflexivity|].
  apply pystr_eqb_eq in Ec. subst. cbn [atom_ty] in *. rewrite orb_diag in H. rewrite H. reflexivity.
Qed.

(* _diff on two atoms (neither an Enum member, a nan on the left, or None) that pass the type test *)
Lemma leaf_core_grouped : forall a b p1 p2,
  is_enum a = false -> is_enum b = false -> is_nan a = false -> is_none a = false -> is_none b = false ->
  (ty_eqb (atom_ty a) (atom_ty b) = true \/ same_group F (atom_ty a) (atom_ty b) = true) ->
  leaf_core udiff F a b p1 p2 =
  if excluded F (atom_ty a) || excluded F (atom_ty b) then Ok []
  else dispatch udiff F (ty_eqb (atom_ty a) (atom_ty b)) a b p1 p2.
Proof.
  intros a b p1 p2 Ea Eb Na Oa Ob Hty. unfold leaf_core.
  assert (same_obj a b = false) as Hs by (destruct a; try reflexivity; discriminate). rewrite Hs.
  destruct (excluded F (atom_ty a) || excluded F (atom_ty b)); [reflexivity|].
  destruct (ty_eqb (atom_ty a) (atom_ty b)) eqn:Et.
  - rewrite Na, andb_false_r. reflexivity.
  - destruct Hty as [Hty|Hty]; [discriminate|]. rewrite Hty. cbn [negb andb].
    assert (unwrap F a = a) as Ua by (destruct a; try reflexivity; discriminate).
    assert (unwrap F b = b) as Ub by (destruct b; try reflexivity; discriminate).
    rewrite Ua, Ub, Oa, Ob, Na. cbn [orb]. rewrite andb_false_r. reflexivity.
Qed.

Lemma leafR_refl : forall a p1 p2, leafR udiff F a a p1 p2 = Ok [].
Proof.
  intros a p1 p2.
  destruct (is_enum a) eqn:Ee.
  { destruct a; try discriminate. unfold leafR. rewrite !pystr_eqb_refl. reflexivity. }
  rewrite leafR_core_l by exact Ee. unfold leaf_core.
  destruct (is_nan a) eqn:En.
  { destruct a; try discriminate. cbn [same_obj]. rewrite Nat.eqb_refl. reflexivity. }
  destruct (same_obj a a); [reflexivity|].
  destruct (excluded F (atom_ty a) || excluded F (atom_ty a)); [reflexivity|].
  rewrite ty_eqb_refl.
  rewrite andb_false_r. cbn [andb]. apply dispatch_refl; assumption.
Qed.

(* the projection: an atom against itself reports nothing *)
Lemma diff_atomF_refl : forall a p1 p2, diff_atomF udiff F a a p1 p2 = [].
Proof. intros a p1 p2. unfold diff_atomF. rewrite leafR_refl. reflexivity. Qed.

(* the leaf theorem, monadic form: related atoms are compared without a report and without an exception *)
Theorem leafR_altL : forall a b p1 p2, altL F a b = true -> leafR udiff F a b p1 p2 = Ok [].
Proof.
  intros a b p1 p2 H. unfold altL in H.
  apply orb_true_iff in H. destruct H as [H|H].
  2:{ (* an Enum member and its value *)
      unfold enum_rel in H.
      apply andb_true_iff in H. destruct H as [H Heq].
      apply andb_true_iff in H. destruct H as [H Hen]. apply andb_true_iff in H. destruct H as [Hoe Hty].
      apply negb_true_iff in Hty. apply atom_eqb_eq in Heq.
      rewrite leafR_core_ty by exact Hty. unfold leaf_core.
      destruct (same_obj a b) eqn:Es; [apply same_obj_ty in Es; congruence|].
      destruct (excluded F (atom_ty a) || excluded F (atom_ty b)); [reflexivity|].
      rewrite Hty, Hoe, Hen. cbn [andb negb]. rewrite andb_false_r. rewrite <- Heq.
      destruct (is_none (unwrap F a)) eqn:Hnone; cbn [orb andb]; [reflexivity|].
      assert (exists v, unwrap F a = atom_of_e v) as [v Ev].
      { destruct a; cbn [is_enum orb] in Hen.
        13:{ exists v. cbn [unwrap]. rewrite Hoe. reflexivity. }
        all: destruct b; try discriminate; exists v; rewrite Heq; cbn [unwrap]; rewrite Hoe; reflexivity. }
      rewrite Ev.
      assert (is_nan (atom_of_e v) = false) as Hn by (destruct v; reflexivity).
      rewrite Hn, andb_false_r. cbn [andb]. apply dispatch_refl. exact Hn. }
  apply orb_true_iff in H. destruct H as [H|H].
  2:{ (* two nan objects under ignore_nan_inequality *)
      unfold nan_rel in H. apply andb_true_iff in H. destruct H as [H Hb]. apply andb_true_iff in H. destruct H as [Hn Ha].
      destruct a; try discriminate. destruct b; try discriminate.
      cbn [leafR]. unfold leaf_core. destruct (same_obj _ _); [reflexivity|].
      destruct (excluded F _ || excluded F _); [reflexivity|].
      cbn [atom_ty ty_eqb is_nan str_is_nan]. rewrite Hn. reflexivity. }
  apply orb_true_iff in H. destruct H as [H|H].
  2:{ (* datetimes *)
      unfold dt_rel in H. destruct a; try discriminate. destruct b; try discriminate.
      apply negb_true_iff in H. cbn [leafR].
      rewrite leaf_core_grouped by (try reflexivity; left; reflexivity).
      destruct (excluded F _ || excluded F _); [reflexivity|].
      cbn [dispatch dtD]. rewrite H. reflexivity. }
  apply orb_true_iff in H. destruct H as [H|H].
  - apply orb_true_iff in H. destruct H as [H|H].
    + apply atom_eqb_eq in H. subst. apply leafR_refl.
    + (* strings *)
      pose proof H as H0. unfold str_rel in H0.
      apply andb_true_iff in H0. destruct H0 as [H0 _]. apply andb_true_iff in H0. destruct H0 as [H0 Ht].
      apply andb_true_iff in H0. destruct H0 as [Hsa Hsb].
      assert (ty_eqb (atom_ty a) (atom_ty b) = true \/ same_group F (atom_ty a) (atom_ty b) = true) as Hg.
      { destruct (ty_eqb (atom_ty a) (atom_ty b)) eqn:Et; [left; reflexivity|right]. cbn [orb] in Ht.
        apply andb_true_iff in Ht. destruct Ht as [Ht _]. apply andb_true_iff in Ht. destruct Ht as [Hst _].
        unfold same_group. rewrite Hst, Hsa, Hsb. reflexivity. }
      assert (is_enum a = false) as Ea by (destruct a; try reflexivity; discriminate).
      rewrite leafR_core_l by exact Ea.
      rewrite leaf_core_grouped; try exact Hg; try (destruct a; try reflexivity; discriminate);
        try (destruct b; try reflexivity; discriminate).
      destruct (excluded F _ || excluded F _); [reflexivity|].
      assert (dispatch udiff F (ty_eqb (atom_ty a) (atom_ty b)) a b p1 p2 = strD udiff F a b p1 p2) as Ed
        by (destruct a; try reflexivity; discriminate).
      rewrite Ed. unfold strD. rewrite Hsb. rewrite diff_strF_rel by exact H. reflexivity.
  - (* numbers *)
    apply andb_true_iff in H. destruct H as [Hnok H].
    pose proof Hnok as Hn. unfold num_ty_ok in Hn. apply andb_true_iff in Hn. destruct Hn as [Hn _].
    apply andb_true_iff in Hn. destruct Hn as [Hna Hnb].
    assert (ty_eqb (atom_ty a) (atom_ty b) = true \/ same_group F (atom_ty a) (atom_ty b) = true) as Hg.
    { destruct (ty_eqb (atom_ty a) (atom_ty b)) eqn:Et; [left; reflexivity|right]. apply num_ty_ok_group; assumption. }
    assert (is_enum a = false) as Ea by (destruct a; try reflexivity; discriminate).
    rewrite leafR_core_l by exact Ea.
    rewrite leaf_core_grouped; try exact Hg; try (destruct a; try reflexivity; discriminate);
      try (destruct b; try reflexivity; discriminate).
    destruct (excluded F _ || excluded F _); [reflexivity|].
    assert (dispatch udiff F (ty_eqb (atom_ty a) (atom_ty b)) a b p1 p2 = numD F (ty_eqb (atom_ty a) (atom_ty b)) a b p1 p2) as Ed
      by (destruct a; try reflexivity; discriminate).
    rewrite Ed. apply numD_leaf; assumption.
Qed.

(* ... hence no exception either *)
Corollary atom_err_altL : forall a b, altL F a b = true -> atom_err udiff F a b = None.
Proof. intros a b H. unfold atom_err. rewrite leafR_altL by assumption. reflexivity. Qed.

(* the leaf theorem about what is reported *)
Theorem diff_atomF_altL : forall a b p1 p2, altL F a b = true -> diff_atomF udiff F a b p1 p2 = [].
Proof. intros a b p1 p2 H. unfold diff_atomF. rewrite leafR_altL by assumption. reflexivity. Qed.

End Leaf.

(* ---------------------------------------------------------------------- *)
(* set members                                                              *)
(* ---------------------------------------------------------------------- *)
Lemma hatomF_unwrap : forall F a, hatomF F (unwrap F a) = hatomF F a.
Proof.
  intros F a. destruct a; try reflexivity. cbn [unwrap hatomF].
  destruct (o_enum F) eqn:E; [|cbn [hatomF]; rewrite E; reflexivity].
  destruct v; reflexivity.
Qed.

Lemma hatomF_altS0 : forall F a b, altS0 F a b = true -> hatomF F a = hatomF F b.
Proof.
  intros F a b H. unfold altS0 in H.
  apply orb_true_iff in H. destruct H as [H|H].
  2:{ unfold dt_set_rel in H. destruct a; try discriminate. destruct b; try discriminate.
      apply Z.eqb_eq in H. cbn [hatomF hatom0]. unfold dt_text. rewrite H. reflexivity. }
  apply orb_true_iff in H. destruct H as [H|H].
  - apply orb_true_iff in H. destruct H as [H|H].
    + apply atom_eqb_eq in H. subst. reflexivity.
    + apply andb_true_iff in H. destruct H as [H He]. apply andb_true_iff in H. destruct H as [H Ht].
      apply andb_true_iff in H. destruct H as [Ha Hb]. apply pystr_eqb_eq in He.
      destruct a; cbn in Ha; try discriminate; destruct b; cbn in Hb; try discriminate;
        cbn [atom_ty ty_eqb orb] in Ht; cbn [str_content] in He; cbn [hatomF hatom0]; unfold prep_string;
        try (rewrite !lowif_app, He; reflexivity);
        rewrite Ht; cbn [app]; rewrite He; reflexivity.
  - apply andb_true_iff in H. destruct H as [Hok H].
    destruct (sig_rel_nstr F a b H) as [d [s [Ed [Ea Eb]]]].
    pose proof (num_tag_ok F a b Hok) as Htag.
    pose proof Hok as Hn. unfold num_ty_ok in Hn. apply andb_true_iff in Hn. destruct Hn as [Hn _].
    apply andb_true_iff in Hn. destruct Hn as [Hna Hnb].
    destruct a; cbn in Hna; try discriminate; destruct b; cbn in Hnb; try discriminate;
      cbn [hatomF hatom0]; unfold num_text; rewrite Ed, Ea, Eb, Htag; reflexivity.
Qed.

Theorem hatomF_altS : forall F a b, altS F a b = true -> hatomF F a = hatomF F b.
Proof.
  intros F a b H. unfold altS in H. apply hatomF_altS0 in H. rewrite !hatomF_unwrap in H. exact H.
Qed.

(* ---------------------------------------------------------------------- *)
(* keys                                                                     *)
(* ---------------------------------------------------------------------- *)
(* a key that key cleaning can process when a precision is in force: helper.numbers contains the datetime types and
   round(datetime / date / time / timedelta) raises (C11-DATETIME-KEY); int(round(nan, 0)) raises (C11-SIG0-NAN) *)
Definition key_cleanable (F : opts) (k : atom) : bool :=
  match k with
  | ADt _ _ | ADate _ _ _ | ATime _ | ATd _ => match eff_sig F with Some _ => false | None => true end
  | ANan _ => match eff_sig F with Some d => negb (N.eqb d 0) | None => true end
  | _ => true
  end.

Lemma clean_key_ok : forall F k, key_cleanable F k = true -> exists ck, clean_key F k = Ok ck.
Proof.
  intros F k H.
  destruct k; cbn [clean_key key_cleanable] in *; try (eexists; reflexivity);
    try (destruct (o_strty F); eexists; reflexivity); try (destruct (o_enum F); eexists; reflexivity);
    destruct (eff_sig F) as [dd|]; try discriminate; try (eexists; reflexivity); cbn [nstr num_of]; try (eexists; reflexivity).
  destruct (N.eqb dd 0); [discriminate|]. eexists; reflexivity.
Qed.

(* ... and only such a key: the guard is exact *)
Lemma clean_key_err : forall F k, key_cleanable F k = false -> exists e, clean_key F k = Err e.
Proof.
  intros F k H.
  destruct k; cbn [clean_key key_cleanable] in *; try discriminate;
    destruct (eff_sig F) as [dd|]; try discriminate; cbn [nstr]; try (eexists; reflexivity).
  destruct (N.eqb dd 0); [|discriminate]. eexists; reflexivity.
Qed.

Lemma py_eq_str : forall s t, py_eq (AStr s) (AStr t) = pystr_eqb s t.
Proof. reflexivity. Qed.

Theorem clean_key_altK : forall F a b ca cb,
  cleaning F = true -> altK F a b = true ->
  clean_key F a = Ok ca -> clean_key F b = Ok cb -> py_eq ca cb = true.
Proof.
  intros F a b ca cb Hc H Ha Hb. unfold altK in H. rewrite Hc in H.
  apply orb_true_iff in H. destruct H as [H|H].
  2:{ (* Enum keys under use_enum_value *)
      apply andb_true_iff in H. destruct H as [Hoe H]. unfold enumk_rel in H.
      apply orb_true_iff in H. destruct H as [H|H].
      - apply andb_true_iff in H. destruct H as [H He]. apply andb_true_iff in H. destruct H as [Ea Eb].
        apply atom_eqb_eq in He.
        destruct a; try discriminate. destruct b; try discriminate.
        cbn [clean_key] in Ha, Hb. cbn [unwrap] in He. rewrite Hoe in *.
        injection Ha as Ha. injection Hb as Hb. subst. rewrite He. apply py_eq_refl.
      - apply andb_true_iff in H. destruct H as [Hen H].
        destruct (unwrap F a) as [| | | |s| | | | | | | |] eqn:Ua; try discriminate.
        destruct (unwrap F b) as [| | | |t| | | | | | | |] eqn:Ub; try discriminate.
        apply pystr_eqb_eq in H.
        assert (clean_key F a = Ok (AStr (lowif F s))) as Ka.
        { destruct a; cbn [unwrap] in Ua; try discriminate.
          - injection Ua as Ua. subst. reflexivity.
          - rewrite Hoe in Ua. cbn [clean_key]. rewrite Hoe, Ua. reflexivity. }
        assert (clean_key F b = Ok (AStr (lowif F t))) as Kb.
        { destruct b; cbn [unwrap] in Ub; try discriminate.
          - injection Ub as Ub. subst. reflexivity.
          - rewrite Hoe in Ub. cbn [clean_key]. rewrite Hoe, Ub. reflexivity. }
        rewrite Ka in Ha. rewrite Kb in Hb. injection Ha as Ha. injection Hb as Hb. subst.
        rewrite py_eq_str, H. apply pystr_eqb_refl. }
  apply orb_true_iff in H. destruct H as [H|H].
  - apply orb_true_iff in H. destruct H as [H|H].
    + apply atom_eqb_eq in H. subst. rewrite Ha in Hb. inversion Hb; subst. apply py_eq_refl.
    + apply andb_true_iff in H. destruct H as [H Hby].
      unfold str_rel in H.
      apply andb_true_iff in H. destruct H as [H He]. apply andb_true_iff in H. destruct H as [H _].
      apply andb_true_iff in H. destruct H as [Hsa Hsb]. apply pystr_eqb_eq in He.
      destruct a; cbn in Hsa; try discriminate; destruct b; cbn in Hsb; try discriminate;
        cbn [str_content] in He; cbn [clean_key] in Ha, Hb; cbn [is_bytes negb andb orb] in Hby;
        try rewrite orb_false_r in Hby; try rewrite Hby in *;
        inversion Ha; inversion Hb; subst; rewrite py_eq_str, He; apply pystr_eqb_refl.
  - apply andb_true_iff in H. destruct H as [Hok H].
    destruct (sig_rel_nstr F a b H) as [d [s [Ed [Ea Eb]]]].
    pose proof (num_tag_ok F a b Hok) as Htag.
    pose proof Hok as Hn. unfold num_ty_ok in Hn. apply andb_true_iff in Hn. destruct Hn as [Hn _].
    apply andb_true_iff in Hn. destruct Hn as [Hna Hnb].
    destruct a; cbn in Hna; try discriminate; destruct b; cbn in Hnb; try discriminate;
      cbn [clean_key] in Ha, Hb; rewrite Ed in Ha, Hb; rewrite Ea in Ha; rewrite Eb in Hb;
      injection Ha as Ha; injection Hb as Hb; subst; rewrite py_eq_str, Htag; apply pystr_eqb_refl.
Qed.

(** Model of DeepDiff (ordered mode) WITH the ignore / tolerance options of
    property C11.  The dispatcher is the one of Diff/DiffModel.v, extended by
    an options record; every option is modelled where the code applies it:

      ignore_string_case           _diff_str (level.t1/.t2 are replaced by their
                                   lower-cased versions, so reports show them),
                                   _get_clean_to_keys_mapping (str keys only),
                                   prepare_string_for_hashing (set members)
      ignore_string_type_changes   type-group check in _diff, _diff_str compares
                                   after decoding, key cleaning decodes bytes
                                   keys, no type prefix in string hashes
      ignore_numeric_type_changes  type-group check in _diff (bool is in the
                                   group: isinstance(True, numbers)),
                                   significant_digits defaults to 12,
                                   type tag "number" in key cleaning / hashes
      significant_digits           _diff_numbers compares number_to_string
                                   renderings ('f' notation), key cleaning,
                                   _prep_number in hashes
      math_epsilon                 _diff_numbers only, and it takes precedence
                                   over significant_digits there
      exclude_types                _skip_this (isinstance of t1 OR t2, bool is a
                                   subclass of int), DeepHash._skip_this
      ignore_private_variables     the [ignore_private] field of Diff.DiffModel.cfg

    Results are [Ok (entries, recorded opcode paths) | Err kind].  Since the
    fixes 0fac13b (TypeError of the path printer on bytes dict keys, F5) and
    d664dbb (ValueError of number_to_string(key, significant_digits=None) during
    key cleaning, K8) the code raises nothing on this universe and the model
    never returns [Err]; the result type is kept (other blocks use it).

    Numbers: number_to_string and math.isclose are defined on dyadic rationals
    m / 2^e (exact); the atoms of the shared universe embed as e = 0 (int,
    bool) and e = 1 (half-integer floats).  Bytes are ASCII (decode is the
    identity).  Definitions only. *)
From Coq Require Import List ZArith NArith Bool Arith String.
Import ListNotations.
From DD Require Import Base.PyStr Base.Value Diff.Tree Diff.DiffModel.

(* ---------------------------------------------------------------------- *)
(* results                                                                  *)
(* ---------------------------------------------------------------------- *)
Inductive ekind := EValue (* ValueError *).
Inductive res (A : Type) := Ok (x : A) | Err (e : ekind).
Arguments Ok {A} x.
Arguments Err {A} e.
Definition bind {A B} (r : res A) (f : A -> res B) : res B :=
  match r with Ok x => f x | Err e => Err e end.

(* ---------------------------------------------------------------------- *)
(* options                                                                  *)
(* ---------------------------------------------------------------------- *)
Definition dy := (Z * N)%type.          (* the number  fst / 2^snd *)

Record opts := mkOpts {
  o_case : bool;              (* ignore_string_case *)
  o_strty : bool;             (* ignore_string_type_changes *)
  o_numty : bool;             (* ignore_numeric_type_changes *)
  o_sig : option N;           (* significant_digits (number_format_notation='f') *)
  o_eps : option dy;          (* math_epsilon: the exact value of the double *)
  o_excl : list ty            (* exclude_types *)
}.
Definition no_opts : opts := mkOpts false false false None None [].

(* Base.get_significant_digits *)
Definition eff_sig (F : opts) : option N :=
  match o_sig F with
  | Some d => Some d
  | None => if o_numty F then Some 12%N else None
  end.

(* isinstance(x, tuple(exclude_types)) by the type of x; bool is a subclass of int *)
Definition excluded (F : opts) (t : ty) : bool :=
  existsb (fun e => ty_eqb e t || (ty_eqb e TInt && ty_eqb t TBool)) (o_excl F).
Definition excl_opt (F : opts) (o : option value) : bool :=
  match o with Some v => excluded F (type_of v) | None => false end.

(* ---------------------------------------------------------------------- *)
(* exact arithmetic on dyadic rationals                                     *)
(* ---------------------------------------------------------------------- *)
Definition two_p (e : N) : Z := Z.pow 2 (Z.of_N e).
Definition pow10 (d : N) : Z := Z.pow 10 (Z.of_N d).

Definition dy_of_atom (a : atom) : option dy :=
  match a with
  | ABool b => Some ((if b then 1 else 0)%Z, 0%N)
  | AInt z => Some (z, 0%N)
  | AHalf t => Some (t, 1%N)
  | _ => None
  end.

Definition dy_align (x y : dy) : Z * Z * N :=
  let e := N.max (snd x) (snd y) in
  ((fst x * two_p (e - snd x))%Z, (fst y * two_p (e - snd y))%Z, e).
Definition dy_eqb (x y : dy) : bool := let '(a, b, _) := dy_align x y in Z.eqb a b.
Definition dy_leb (x y : dy) : bool := let '(a, b, _) := dy_align x y in Z.leb a b.
Definition dy_absdiff (x y : dy) : dy := let '(a, b, e) := dy_align x y in (Z.abs (a - b), e).
Definition dy_abs (x : dy) : dy := (Z.abs (fst x), snd x).
Definition dy_mul (x y : dy) : dy := ((fst x * fst y)%Z, (snd x + snd y)%N).

(* round-half-even of  m * 10^d / 2^e  (Python's round(float, d) and '%.df'
   are correctly rounded on the exact binary value) *)
Definition rhe (x : dy) (d : N) : Z :=
  let num := (fst x * pow10 d)%Z in
  let den := two_p (snd x) in
  let q := (num / den)%Z in
  let r := (num mod den)%Z in
  if (2 * r <? den)%Z then q
  else if (den <? 2 * r)%Z then (q + 1)%Z
  else if Z.even q then q else (q + 1)%Z.

Definition zeros (n : nat) : pystr := repeat 48%N n.
Definition pad0 (w : nat) (s : pystr) : pystr := (zeros (w - List.length s) ++ s)%list.
(* the integer n printed as n / 10^d with exactly d decimals; zero has no sign *)
Definition dec_str (n : Z) (d : N) : pystr :=
  let a := Z.abs n in
  ((if (n <? 0)%Z then [45%N] else []) ++ p_of_Z (a / pow10 d)
   ++ (if N.eqb d 0 then [] else 46%N :: pad0 (N.to_nat d) (p_of_Z (a mod pow10 d))))%list.
(* helper.number_to_string(x, significant_digits=d, number_format_notation='f') *)
Definition num_str (d : N) (x : dy) : pystr := dec_str (rhe x d) d.

(* math.isclose(x, y, rel_tol=1e-9, abs_tol=eps); the product rel_tol * y is
   taken exactly (the double rounds it: not modelled) *)
Definition rel_tol : dy := (4835703278458517%Z, 82%N).    (* the double 1e-9 *)
Definition is_close (x y eps : dy) : bool :=
  let d := dy_absdiff x y in
  dy_eqb x y || dy_leb d (dy_abs (dy_mul rel_tol y)) || dy_leb d (dy_abs (dy_mul rel_tol x))
  || dy_leb d eps.

(* ---------------------------------------------------------------------- *)
(* strings                                                                  *)
(* ---------------------------------------------------------------------- *)
Local Open Scope string_scope.
Definition lowif (F : opts) (s : pystr) : pystr := if o_case F then lower s else s.
Definition colon : pystr := [58%N].
Definition ty_name (a : atom) : pystr :=
  s2p (match a with
       | ANone => "NoneType" | ABool _ => "bool" | AInt _ => "int" | AHalf _ => "float"
       | AStr _ => "str" | ABytes _ => "bytes"
       end).
Definition num_tag (F : opts) (a : atom) : pystr := if o_numty F then s2p "number" else ty_name a.

Definition str_like (t : ty) : bool := match t with TStr | TBytes => true | _ => false end.
Definition num_like (t : ty) : bool := match t with TBool | TInt | TFloat => true | _ => false end.
(* the ignore_type_in_groups test of _diff for two objects of different type *)
Definition same_group (F : opts) (ta tb : ty) : bool :=
  (o_strty F && str_like ta && str_like tb) || (o_numty F && num_like ta && num_like tb).

(* repr of a half-integer float / an int (str(obj) in _prep_number) *)
Definition half_repr (t : Z) : pystr :=
  ((if (t <? 0)%Z then [45%N] else []) ++ p_of_Z (Z.abs t / 2)
   ++ (if Z.even t then s2p ".0" else s2p ".5"))%list.

(* the text DeepHash feeds to the hasher for a set member; only equality of
   hashes is ever used, so (sha256 being injective on these texts - a trusted
   assumption) the text stands for the hash *)
Definition prep_string (F : opts) (tyn : pystr) (s : pystr) : pystr :=
  lowif F ((if o_strty F then [] else tyn ++ colon) ++ s)%list.
Definition hatomF (F : opts) (a : atom) : pystr :=
  match a with
  | AStr s => prep_string F (s2p "str") s
  | ABytes s => prep_string F (s2p "bytes") s
  | ANone => prep_string F (s2p "str") (s2p "NONE")
  | ABool b => prep_string F (s2p "str") (s2p (if b then "bool:true" else "bool:false"))
  | AInt z =>
      prep_string F (s2p "str")
        (num_tag F a ++ colon ++ match eff_sig F with Some d => num_str d (z, 0%N) | None => p_of_Z z end)%list
  | AHalf t =>
      prep_string F (s2p "str")
        (num_tag F a ++ colon ++ match eff_sig F with Some d => num_str d (t, 1%N) | None => half_repr t end)%list
  end.
(* DeepHash._skip_this sees BoolObj for a bool: never an instance of an excluded type *)
Definition excl_hash (F : opts) (a : atom) : bool :=
  match a with ABool _ => false | _ => excluded F (atom_ty a) end.

(* ---------------------------------------------------------------------- *)
(* key cleaning                                                             *)
(* ---------------------------------------------------------------------- *)
Definition cleaning (F : opts) : bool := o_strty F || o_numty F || o_case F.

(* _get_clean_to_keys_mapping, one key *)
Definition clean_key (F : opts) (k : atom) : res atom :=
  match k with
  | ABytes s => if o_strty F then Ok (AStr (lowif F s)) else Ok k   (* a bytes clean key is not lower-cased *)
  | ABool _ | AInt _ | AHalf _ =>
      match eff_sig F, dy_of_atom k with
      | Some d, Some x => Ok (AStr (lowif F (num_tag F k ++ colon ++ num_str d x)%list))
      | _, _ => Ok k                (* no precision in force: the key stays itself (d664dbb; before: ValueError, K8) *)
      end
  | AStr s => Ok (AStr (lowif F s))
  | ANone => Ok ANone
  end.
(* the mapping clean -> original; the first key of a clean class wins *)
Fixpoint clean_map (F : opts) (ks : list atom) (acc : list (atom * atom)) : res (list (atom * atom)) :=
  match ks with
  | [] => Ok (rev acc)
  | k :: r =>
      bind (clean_key F k) (fun ck =>
        if mem_atom ck (map fst acc) then clean_map F r acc
        else clean_map F r ((ck, k) :: acc))
  end.

Section Opt.
Variable udiff : pystr -> pystr -> pystr.
Variable ops : path -> list value -> list value -> list opcode.
Variable c : cfg.
Variable F : opts.

(* _report_result: _skip_this by exclude_types on either side *)
Definition reportF (k : rkind) (p1 p2 : path) (a b : option value) (d : option pystr) : list entry :=
  if excl_opt F a || excl_opt F b then [] else [mkEntry k p1 p2 a b d].

Definition str_content (a : atom) : pystr :=
  match a with AStr s | ABytes s => s | _ => [] end.
Definition with_content (a : atom) (s : pystr) : atom :=
  match a with AStr _ => AStr s | ABytes _ => ABytes s | _ => a end.
Definition is_bytes (a : atom) : bool := match a with ABytes _ => true | _ => false end.

(* _diff_str; both atoms are str or bytes *)
Definition diff_strF (a b : atom) (p1 p2 : path) : list entry :=
  let s := lowif F (str_content a) in
  let t := lowif F (str_content b) in
  let a' := with_content a s in
  let b' := with_content b t in
  let same_ty := ty_eqb (atom_ty a) (atom_ty b) in
  let asc := (if is_bytes a then is_ascii s else true) && (if is_bytes b then is_ascii t else true) in
  if pystr_eqb s t && (same_ty || asc) then []
  else
    let d := if asc && (has_nl s || has_nl t)
             then match udiff s t with [] => None | x => Some x end else None in
    reportF KValue p1 p2 (Some (VAtom a')) (Some (VAtom b')) d.

(* _diff_numbers; rtc = report_type_change (the two types are equal) *)
Definition diff_numF (rtc : bool) (a b : atom) (p1 p2 : path) : list entry :=
  match dy_of_atom a, dy_of_atom b with
  | Some x, Some y =>
      let changed :=
        match o_eps F with
        | Some e => negb (is_close x y e)
        | None =>
            match eff_sig F with
            | None => negb (py_eq a b)
            | Some d =>
                let s1 := ((if rtc then num_tag F a else []) ++ colon ++ num_str d x)%list in
                let s2 := ((if rtc then num_tag F b else []) ++ colon ++ num_str d y)%list in
                negb (pystr_eqb s1 s2)
            end
        end in
      if changed then reportF KValue p1 p2 (Some (VAtom a)) (Some (VAtom b)) None else []
  | _, _ => []
  end.

(* _diff on two atoms *)
Definition diff_atomF (a b : atom) (p1 p2 : path) : list entry :=
  if excluded F (atom_ty a) || excluded F (atom_ty b) then [] else
  let rtc := ty_eqb (atom_ty a) (atom_ty b) in
  if negb rtc && negb (same_group F (atom_ty a) (atom_ty b))
  then reportF KType p1 p2 (Some (VAtom a)) (Some (VAtom b)) None
  else match a with
  | ABool _ => if py_eq a b then [] else reportF KValue p1 p2 (Some (VAtom a)) (Some (VAtom b)) None
  | AStr _ | ABytes _ => diff_strF a b p1 p2
  | AInt _ | AHalf _ => diff_numF rtc a b p1 p2
  | ANone => []
  end.

Definition diff_leafF (x y : value) (p1 p2 : path) : list entry :=
  match x, y with
  | VAtom a, VAtom b => diff_atomF a b p1 p2
  | _, _ => []
  end.

Fixpoint removed_fromF (xs : list value) (i : nat) (p1 p2 : path) : list entry :=
  match xs with
  | [] => []
  | x :: r => reportF KIterRem (snoc p1 (PIdx i)) (snoc p2 (PIdx i)) (Some x) None None
              ++ removed_fromF r (S i) p1 p2
  end.
Fixpoint added_fromF (ys : list value) (j : nat) (p1 p2 : path) : list entry :=
  match ys with
  | [] => []
  | y :: r => reportF KIterAdd (snoc p1 (PIdx j)) (snoc p2 (PIdx j)) None (Some y) None
              ++ added_fromF r (S j) p1 p2
  end.

Fixpoint pairs_leafF (xs ys : list value) (i j : nat) (p1 p2 : path) {struct xs} : list entry :=
  match xs, ys with
  | [], _ => added_fromF ys j p1 p2
  | _ :: _, [] => removed_fromF xs i p1 p2
  | x :: xs', y :: ys' =>
      (if negb (Nat.eqb i j) && py_eq_leaf x y
       then reportF KIterMoved (snoc p1 (PIdx i)) (snoc p2 (PIdx j)) (Some x) (Some y) None
       else diff_leafF x y (snoc p1 (PIdx i)) (snoc p2 (PIdx j)))
      ++ pairs_leafF xs' ys' (S i) (S j) p1 p2
  end.

Definition by_opcodesF (os : list opcode) (xs ys : list value) (p1 p2 : path) : list entry :=
  flat_map (fun o =>
    match otag o with
    | OEqual => []
    | OReplace => pairs_leafF (slice xs (oi1 o) (oi2 o)) (slice ys (oj1 o) (oj2 o)) (oi1 o) (oj1 o) p1 p2
    | ODelete => removed_fromF (slice xs (oi1 o) (oi2 o)) (oi1 o) p1 p2
    | OInsert => added_fromF (slice ys (oj1 o) (oj2 o)) (oj1 o) p1 p2
    end) os.

Definition default_leaf_listF (xs ys : list value) (p1 p2 : path) : list entry * bool :=
  let pass1 := by_opcodesF (ops p1 xs ys) xs ys p1 p2 in
  if Nat.ltb 1 (List.length pass1) then
    let pass2 := pairs_leafF xs ys 0 0 p1 p2 in
    if Nat.leb (List.length pass2) (List.length pass1) then (pass2, false) else (pass1, true)
  else (pass1, false).

(* _diff_set: members of an excluded type are not hashed (bools are: BoolObj),
   and a reported member of an excluded type is skipped *)
Definition report_setF (k : rkind) (a : atom) (p1 p2 : path) : list entry :=
  if excluded F (atom_ty a) then [] else
  [mkEntry k p1 p2 (match k with KSetAdd => None | _ => Some (VAtom a) end)
                   (match k with KSetAdd => Some (VAtom a) | _ => None end) None].
Definition diff_setF (xs0 ys0 : list atom) (p1 p2 : path) : list entry :=
  let xs := filter (fun a => negb (excl_hash F a)) xs0 in
  let ys := filter (fun a => negb (excl_hash F a)) ys0 in
  let hx := map (hatomF F) xs in
  let hy := map (hatomF F) ys in
  (flat_map (fun y => if existsb (pystr_eqb (hatomF F y)) hx then []
                      else report_setF KSetAdd y p1 p2) (first_per_hash (hatomF F) ys [])
   ++ flat_map (fun x => if existsb (pystr_eqb (hatomF F x)) hy then []
                         else report_setF KSetRem x p1 p2) (first_per_hash (hatomF F) xs []))%list.

(* ---- dictionaries ---- *)
(* t_clean_to_keys (None when no cleaning option is set) and the key sets *)
Definition kmap (ks : list atom) : res (list (atom * atom)) :=
  if cleaning F then clean_map F ks [] else Ok [].
Definition ckeys (ks : list atom) (km : list (atom * atom)) : list atom :=
  if cleaning F then map fst km else ks.
(* t_clean_to_keys[key] if t_clean_to_keys else key *)
Definition orig_key (km : list (atom * atom)) (ck : atom) : atom :=
  if cleaning F then match assoc ck km with Some k => k | None => ck end else ck.
(* the clean key of k, when k is the key that represents its clean class *)
Definition repr_ckey (km : list (atom * atom)) (k : atom) : option atom :=
  if cleaning F then
    match clean_key F k with
    | Ok ck => if atom_eqb (orig_key km ck) k then Some ck else None
    | Err _ => None
    end
  else Some k.

(* threshold_to_diff_deeper (no exclude_paths) *)
Definition shortcutF (k1 k2 : list atom) : bool :=
  if Nat.eqb (thr_num c) 0 then false else
  let inter := filter (fun k => mem_atom k k1) k2 in
  let union := (k2 ++ filter (fun k => negb (mem_atom k k2)) k1)%list in
  let ulen := List.length union in
  Nat.ltb 1 ulen && Nat.ltb (List.length inter * thr_den c) (thr_num c * ulen).

(* reports of added / removed keys, in order *)
Fixpoint key_reports (kind : rkind) (cks other : list atom) (km : list (atom * atom))
         (kvs : list (atom * value)) (p1 p2 : path) : list entry :=
  match cks with
  | [] => []
  | ck :: r =>
      if mem_atom ck other then key_reports kind r other km kvs p1 p2
      else
        let k := orig_key km ck in
        let v := assoc k kvs in
        (match kind with
         | KDictAdd => reportF kind (snoc p1 (PKey k)) (snoc p2 (PKey k)) None v None
         | _ => reportF kind (snoc p1 (PKey k)) (snoc p2 (PKey k)) v None None
         end ++ key_reports kind r other km kvs p1 p2)%list
  end.

(* ---- _diff ---- *)
Fixpoint diffF (t1 t2 : value) (p1 p2 : path) {struct t1} : res (list entry * list path) :=
  if excluded F (type_of t1) || excluded F (type_of t2) then Ok ([], []) else
  if negb (ty_eqb (type_of t1) (type_of t2)) && negb (same_group F (type_of t1) (type_of t2))
  then Ok (reportF KType p1 p2 (Some t1) (Some t2) None, [])
  else
  match t1, t2 with
  | VAtom a, VAtom b => Ok (diff_atomF a b p1 p2, [])
  | VDict kvs1, VDict kvs2 =>
      let r1 := keys_of c kvs1 in
      let r2 := keys_of c kvs2 in
      bind (kmap r1) (fun km1 =>
      bind (kmap r2) (fun km2 =>
        let k1 := ckeys r1 km1 in
        let k2 := ckeys r2 km2 in
        if shortcutF k1 k2 then Ok (reportF KValue p1 p2 (Some t1) (Some t2) None, [])
        else
          let added := key_reports KDictAdd k2 k1 km2 kvs2 p1 p2 in
          let removed := key_reports KDictRem k1 k2 km1 kvs1 p1 p2 in
          bind ((fix go (l : list (atom * value)) : res (list entry * list path) :=
                   match l with
                   | [] => Ok ([], [])
                   | (k, v1) :: r =>
                       let here :=
                         if keep_key c k then
                           match repr_ckey km1 k with
                           | Some ck =>
                               match find (py_eq ck) k2 with      (* the key object of t2 is the child parameter *)
                               | Some ck' =>
                                   match assoc (orig_key km2 ck') kvs2 with
                                   | Some v2 => diffF v1 v2 (snoc p1 (PKey ck')) (snoc p2 (PKey ck'))
                                   | None => Ok ([], [])
                                   end
                               | None => Ok ([], [])
                               end
                           | None => Ok ([], [])
                           end
                         else Ok ([], []) in
                       bind here (fun x => bind (go r) (fun rest => Ok (app2 x rest)))
                   end) kvs1) (fun common =>
          Ok ((added ++ removed ++ fst common)%list, snd common))))
  | VList xs, VList ys | VTuple xs, VTuple ys =>
      if negb (zip c) && forallb is_atom xs && forallb is_atom ys
      then let '(es, rec) := default_leaf_listF xs ys p1 p2 in Ok (es, if rec then [p1] else [])
      else
        (fix go (xs ys : list value) (i : nat) {struct xs} : res (list entry * list path) :=
           match xs, ys with
           | [], _ => Ok (added_fromF ys i p1 p2, [])
           | _ :: _, [] => Ok (removed_fromF xs i p1 p2, [])
           | x :: xs', y :: ys' =>
               bind (diffF x y (snoc p1 (PIdx i)) (snoc p2 (PIdx i))) (fun r1 =>
               bind (go xs' ys' (S i)) (fun r2 => Ok (app2 r1 r2)))
           end) xs ys 0
  | VSet xs, VSet ys | VFrozen xs, VFrozen ys => Ok (diff_setF xs ys p1 p2, [])
  | _, _ => Ok ([], [])
  end.

(* DeepDiff(t1, t2, view='tree', **options) *)
Definition run_optF (t1 t2 : value) : res (list entry * list path) :=
  bind (diffF t1 t2 [] []) (fun r => Ok (mutual (fst r), snd r)).

End Opt.

(** Atom-level model of helper.datetime_normalize / DeepDiff._diff_datetime for
    fixed-offset time zones (options truncate_datetime and default_timezone).
    A datetime is its wall-clock reading, in microseconds since
    1970-01-01T00:00:00 of its own zone, and its UTC offset in minutes when it
    is aware.  Definitions only.  (Datetimes are not atoms of the structural
    model: these two options have atom-level theorems and correspondence only.) *)
From Coq Require Import ZArith Bool.
Local Open Scope Z_scope.

Record dtm := mkDt { dt_us : Z; dt_off : option Z }.
Inductive tunit := USecond | UMinute | UHour | UDay.
Definition unit_us (u : tunit) : Z :=
  match u with USecond => 1000000 | UMinute => 60000000 | UHour => 3600000000 | UDay => 86400000000 end.

(* obj.replace(microsecond=0, second=0, ...): the wall-clock reading floored to the unit *)
Definition dt_trunc (t : option tunit) (us : Z) : Z :=
  match t with None => us | Some u => us - us mod unit_us u end.

(* datetime_normalize truncates FIRST (in the datetime's own zone) and then does
   astimezone(default_timezone) / replace(tzinfo=default_timezone); the two
   results are aware, and Python compares aware datetimes by their instant:
   microseconds since the epoch in UTC *)
Definition dt_instant (t : option tunit) (dtz : Z) (d : dtm) : Z :=
  dt_trunc t (dt_us d) - 60000000 * match dt_off d with Some o => o | None => dtz end.

(* _diff_datetime reports values_changed *)
Definition dt_changed (t : option tunit) (dtz : Z) (a b : dtm) : bool :=
  negb (Z.eqb (dt_instant t dtz a) (dt_instant t dtz b)).

(** The option-aware model under the default options IS the lead's ordered
    diff model (Diff.DiffModel.diff), for all inputs. *)
From Coq Require Import List ZArith NArith Bool Arith Lia.
Import ListNotations.
From DD Require Import Base.PyStr Base.Value Diff.Tree Diff.DiffModel Options.OptModel Options.OptProofsBase.

Definition nop (_ : path) : bool := false.

Section Tie.
Variable udiff : pystr -> pystr -> pystr.
Variable ops : path -> list value -> list value -> list opcode.
Variable c : cfg.

Notation F0 := no_opts.

Lemma excluded_none : forall t, excluded F0 t = false.
Proof. reflexivity. Qed.

Lemma reportF_none : forall k p1 p2 a b d, reportF F0 k p1 p2 a b d = report nop k p1 p2 a b d.
Proof. intros. unfold reportF, report, nop. destruct a, b; reflexivity. Qed.

Lemma diff_atomF_none : forall a b p1 p2, diff_atomF udiff F0 a b p1 p2 = diff_atom udiff nop a b p1 p2.
Proof.
  intros a b p1 p2. unfold diff_atomF, diff_atom. cbn [nop].
  rewrite !excluded_none. cbn [orb].
  assert (same_group F0 (atom_ty a) (atom_ty b) = false) as Hg by reflexivity.
  rewrite Hg. rewrite andb_true_r.
  destruct (ty_eqb (atom_ty a) (atom_ty b)) eqn:Et; cbn [negb].
  2:{ apply reportF_none. }
  destruct a as [|x|x|x|s|s], b as [|y|y|y|y|t]; cbn in Et; try discriminate.
  - reflexivity.
  - destruct (py_eq (ABool x) (ABool y)); [reflexivity|apply reportF_none].
  - unfold diff_numF. cbn [dy_of_atom o_eps no_opts eff_sig o_sig o_numty].
    destruct (py_eq (AInt x) (AInt y)); cbn [negb]; [reflexivity|apply reportF_none].
  - unfold diff_numF. cbn [dy_of_atom o_eps no_opts eff_sig o_sig o_numty].
    destruct (py_eq (AHalf x) (AHalf y)); cbn [negb]; [reflexivity|apply reportF_none].
  - unfold diff_strF, diff_str, lowif. cbn -[pystr_eqb has_nl is_ascii].
    destruct (pystr_eqb s y); cbn -[pystr_eqb has_nl is_ascii]; [reflexivity|].
    destruct (has_nl s || has_nl y); cbn -[pystr_eqb has_nl is_ascii].
    + destruct (udiff s y); first [reflexivity|apply reportF_none].
    + first [reflexivity|apply reportF_none].
  - unfold diff_strF, diff_str, lowif. cbn -[pystr_eqb has_nl is_ascii].
    destruct (pystr_eqb s t); cbn -[pystr_eqb has_nl is_ascii]; [reflexivity|].
    destruct (is_ascii s && is_ascii t); cbn -[pystr_eqb has_nl is_ascii].
    + destruct (has_nl s || has_nl t); cbn -[pystr_eqb has_nl is_ascii].
      * destruct (udiff s t); first [reflexivity|apply reportF_none].
      * first [reflexivity|apply reportF_none].
    + first [reflexivity|apply reportF_none].
Qed.

Lemma diff_leafF_none : forall x y p1 p2, diff_leafF udiff F0 x y p1 p2 = diff_leaf udiff nop x y p1 p2.
Proof. intros x y p1 p2. destruct x, y; cbn; try reflexivity. apply diff_atomF_none. Qed.

Lemma removed_fromF_none : forall xs i p1 p2, removed_fromF F0 xs i p1 p2 = removed_from nop xs i p1 p2.
Proof. induction xs as [|x xs IH]; intros; cbn [removed_fromF removed_from]; [reflexivity|]. rewrite reportF_none, IH. reflexivity. Qed.

Lemma added_fromF_none : forall ys j p1 p2, added_fromF F0 ys j p1 p2 = added_from nop ys j p1 p2.
Proof. induction ys as [|y ys IH]; intros; cbn [added_fromF added_from]; [reflexivity|]. rewrite reportF_none, IH. reflexivity. Qed.

Lemma pairs_leafF_none : forall xs ys i j p1 p2,
  pairs_leafF udiff F0 xs ys i j p1 p2 = pairs_leaf udiff nop xs ys i j p1 p2.
Proof.
  induction xs as [|x xs IH]; intros ys i j p1 p2; cbn [pairs_leafF pairs_leaf].
  - apply added_fromF_none.
  - destruct ys as [|y ys].
    + apply (removed_fromF_none (x :: xs)).
    + rewrite IH, reportF_none, diff_leafF_none. reflexivity.
Qed.

Lemma by_opcodesF_none : forall os xs ys p1 p2,
  by_opcodesF udiff F0 os xs ys p1 p2 = by_opcodes udiff nop os xs ys p1 p2.
Proof.
  intros. unfold by_opcodesF, by_opcodes. apply flat_map_ext. intros o.
  destruct (otag o); [reflexivity|apply pairs_leafF_none|apply removed_fromF_none|apply added_fromF_none].
Qed.

Lemma default_leaf_listF_none : forall xs ys p1 p2,
  default_leaf_listF udiff ops F0 xs ys p1 p2 = default_leaf_list udiff ops nop xs ys p1 p2.
Proof.
  intros. unfold default_leaf_listF, default_leaf_list. rewrite by_opcodesF_none, pairs_leafF_none. reflexivity.
Qed.

Lemma diff_setF_none : forall xs ys p1 p2, diff_setF F0 xs ys p1 p2 = diff_set (hatomF F0) nop xs ys p1 p2.
Proof.
  intros. unfold diff_setF, diff_set.
  assert (forall l : list atom, filter (fun a => negb (excl_hash F0 a)) l = l) as Hf.
  { intros l. apply filter_all. intros x _. destruct x; reflexivity. }
  rewrite !Hf. f_equal; apply flat_map_ext; intros a; destruct (existsb _ _); reflexivity.
Qed.

Lemma shortcutF_none : forall k1 k2 p1, shortcutF c k1 k2 = dict_shortcut nop c k1 k2 p1.
Proof.
  intros. unfold shortcutF, dict_shortcut. destruct (Nat.eqb (thr_num c) 0); [reflexivity|].
  cbn [nop negb]. rewrite (filter_all (fun _ : atom => true)); [reflexivity|auto].
Qed.

Lemma key_reports_add_none : forall k2 k1 kvs p1 p2,
  key_reports F0 KDictAdd k2 k1 [] kvs p1 p2 =
  flat_map (fun k => if mem_atom k k1 then []
        else report nop KDictAdd (snoc p1 (PKey k)) (snoc p2 (PKey k)) None (assoc k kvs) None) k2.
Proof.
  induction k2 as [|k k2 IH]; intros k1 kvs p1 p2; cbn [key_reports flat_map]; [reflexivity|].
  destruct (mem_atom k k1) eqn:E.
  - apply IH.
  - rewrite IH. cbn [orig_key cleaning no_opts o_strty o_numty o_case orb]. rewrite reportF_none. reflexivity.
Qed.

Lemma key_reports_rem_none : forall k1 k2 kvs p1 p2,
  key_reports F0 KDictRem k1 k2 [] kvs p1 p2 =
  flat_map (fun k => if mem_atom k k2 then []
        else report nop KDictRem (snoc p1 (PKey k)) (snoc p2 (PKey k)) (assoc k kvs) None None) k1.
Proof.
  induction k1 as [|k k1 IH]; intros k2 kvs p1 p2; cbn [key_reports flat_map]; [reflexivity|].
  destruct (mem_atom k k2) eqn:E.
  - apply IH.
  - rewrite IH. cbn [orig_key cleaning no_opts o_strty o_numty o_case orb]. rewrite reportF_none. reflexivity.
Qed.

Lemma app2_nil_l : forall {A B} (x : list A * list B), app2 ([], []) x = x.
Proof. intros A B [a b]. reflexivity. Qed.

Lemma repr_none : forall k, repr_ckey F0 [] k = Some k.
Proof. reflexivity. Qed.
Lemma orig_none : forall ck, orig_key F0 [] ck = ck.
Proof. reflexivity. Qed.

Lemma same_group_none : forall ta tb, same_group F0 ta tb = false.
Proof. reflexivity. Qed.

Ltac head := cbn [diffF diff type_of nop]; rewrite ?excluded_none, ?same_group_none; cbn [orb]; rewrite ?andb_true_r.

Lemma go_list_none : forall xs p1 p2,
  Forall (fun x => forall t2 p1 p2,
            diffF udiff ops c F0 x t2 p1 p2 = Ok (diff (hatomF F0) udiff ops nop nop c x t2 p1 p2)) xs ->
  forall ys i,
  (fix go (xs ys : list value) (i : nat) {struct xs} : res (list entry * list path) :=
     match xs, ys with
     | [], _ => Ok (added_fromF F0 ys i p1 p2, [])
     | _ :: _, [] => Ok (removed_fromF F0 xs i p1 p2, [])
     | x :: xs', y :: ys' =>
         bind (diffF udiff ops c F0 x y (snoc p1 (PIdx i)) (snoc p2 (PIdx i))) (fun r1 =>
         bind (go xs' ys' (S i)) (fun r2 => Ok (app2 r1 r2)))
     end) xs ys i =
  Ok ((fix go (xs ys : list value) (i : nat) {struct xs} : list entry * list path :=
     match xs, ys with
     | [], _ => (added_from nop ys i p1 p2, [])
     | _ :: _, [] => (removed_from nop xs i p1 p2, [])
     | x :: xs', y :: ys' =>
         app2 (diff (hatomF F0) udiff ops nop nop c x y (snoc p1 (PIdx i)) (snoc p2 (PIdx i))) (go xs' ys' (S i))
     end) xs ys i).
Proof.
  induction xs as [|x xs IHxs]; intros p1 p2 IH ys i.
  - rewrite added_fromF_none. reflexivity.
  - destruct ys as [|y ys].
    + rewrite (removed_fromF_none (x :: xs)). reflexivity.
    + inversion IH as [|? ? Hx Hxs]; subst.
      rewrite (Hx y _ _). cbn [bind].
      rewrite (IHxs p1 p2 Hxs ys (S i)). reflexivity.
Qed.

Theorem diffF_no_opts : forall t1 t2 p1 p2,
  diffF udiff ops c F0 t1 t2 p1 p2 = Ok (diff (hatomF F0) udiff ops nop nop c t1 t2 p1 p2).
Proof.
  induction t1 as [a|xs IH|xs IH|kvs IH|xs|xs] using value_ind'; intros t2 p1 p2.
  - (* atom *)
    destruct t2 as [b|ys|ys|kvs2|ys|ys]; head;
      try (destruct a; cbn [atom_ty ty_eqb negb]; rewrite reportF_none; reflexivity).
    destruct (ty_eqb (atom_ty a) (atom_ty b)) eqn:Et; cbn [negb].
    + rewrite diff_atomF_none. reflexivity.
    + rewrite reportF_none. reflexivity.
  - (* list *)
    destruct t2 as [b|ys|ys|kvs2|ys|ys]; head; cbn [ty_eqb negb]; rewrite ?reportF_none; try reflexivity; try (destruct b; reflexivity).
    destruct (negb (zip c) && forallb is_atom xs && forallb is_atom ys) eqn:Ed.
    + rewrite default_leaf_listF_none. destruct (default_leaf_list udiff ops nop xs ys p1 p2). reflexivity.
    + apply go_list_none; assumption.
  - (* tuple *)
    destruct t2 as [b|ys|ys|kvs2|ys|ys]; head; cbn [ty_eqb negb]; rewrite ?reportF_none; try reflexivity; try (destruct b; reflexivity).
    destruct (negb (zip c) && forallb is_atom xs && forallb is_atom ys) eqn:Ed.
    + rewrite default_leaf_listF_none. destruct (default_leaf_list udiff ops nop xs ys p1 p2). reflexivity.
    + apply go_list_none; assumption.
  - (* dict *)
    destruct t2 as [b|ys|ys|kvs2|ys|ys]; head; cbn [ty_eqb negb]; rewrite ?reportF_none; try reflexivity; try (destruct b; reflexivity).
    unfold kmap, ckeys. cbn [cleaning no_opts o_strty o_numty o_case orb bind].
    rewrite <- (shortcutF_none _ _ p1).
    destruct (shortcutF c (keys_of c kvs) (keys_of c kvs2)) eqn:Es; [reflexivity|].
    rewrite key_reports_add_none, key_reports_rem_none.
    match goal with |- bind ?G _ = _ => assert (G = Ok
      ((fix go (l : list (atom * value)) : list entry * list path :=
          match l with
          | [] => ([], [])
          | (k, v1) :: r =>
              let rest := go r in
              if keep_key c k then
                match find (py_eq k) (keys_of c kvs2) with
                | Some k' =>
                    match assoc k' kvs2 with
                    | Some v2 => app2 (diff (hatomF F0) udiff ops nop nop c v1 v2 (snoc p1 (PKey k')) (snoc p2 (PKey k'))) rest
                    | None => rest
                    end
                | None => rest
                end
              else rest
          end) kvs)) as Hgo end.
    { clear Es. induction kvs as [|[k v1] r IHr]; [reflexivity|].
      inversion IH as [|? ? Hx Hxs]; subst. cbn [snd] in Hx.
      specialize (IHr Hxs).
      rewrite (repr_none k).
      destruct (keep_key c k); cbn [bind].
      - destruct (find (py_eq k) (keys_of c kvs2)) as [k'|] eqn:Ef.
        + rewrite (orig_none k'). destruct (assoc k' kvs2) as [v2|] eqn:Ea.
          * rewrite (Hx v2 _ _). cbn [bind].
            rewrite IHr. reflexivity.
          * cbn [bind]. rewrite IHr. cbn [bind]. rewrite app2_nil_l. reflexivity.
        + cbn [bind]. rewrite IHr. cbn [bind]. rewrite app2_nil_l. reflexivity.
      - rewrite IHr. cbn [bind]. rewrite app2_nil_l. reflexivity. }
    rewrite Hgo. reflexivity.
  - destruct t2 as [b|ys|ys|kvs2|ys|ys]; head; cbn [ty_eqb negb]; rewrite ?reportF_none; try reflexivity; try (destruct b; reflexivity).
    rewrite diff_setF_none. reflexivity.
  - destruct t2 as [b|ys|ys|kvs2|ys|ys]; head; cbn [ty_eqb negb]; rewrite ?reportF_none; try reflexivity; try (destruct b; reflexivity).
    rewrite diff_setF_none. reflexivity.
Qed.

(* the whole run *)
Theorem run_optF_no_opts : forall t1 t2,
  run_optF udiff ops c F0 t1 t2 = Ok (run_diff (hatomF F0) udiff ops nop nop c t1 t2).
Proof.
  intros t1 t2. unfold run_optF, run_diff. rewrite (diffF_no_opts t1 t2 [] []). cbn.
  destruct (diff (hatomF F0) udiff ops nop nop c t1 t2 [] []). reflexivity.
Qed.

End Tie.

(** (extended universe) Basic facts used by the C11 proofs: induction on values, Python equality
    is an equivalence, association lists, the error monad. *)
From Coq Require Import List ZArith NArith Bool Arith Lia.
Import ListNotations.
From DD Require Import Base.PyStr Options.OptModel Options.OptDtModel Options.YValue Options.YModel.

(* ---- induction on values ---- *)
Section ValueInd.
Variable P : value -> Prop.
Hypothesis Hatom : forall a, P (VAtom a).
Hypothesis Hlist : forall xs, Forall P xs -> P (VList xs).
Hypothesis Htuple : forall xs, Forall P xs -> P (VTuple xs).
Hypothesis Hdict : forall kvs, Forall (fun kv => P (snd kv)) kvs -> P (VDict kvs).
Hypothesis Hset : forall xs, P (VSet xs).
Hypothesis Hfrozen : forall xs, P (VFrozen xs).

Fixpoint value_ind' (v : value) : P v :=
  match v with
  | VAtom a => Hatom a
  | VList xs => Hlist xs ((fix go (l : list value) : Forall P l :=
                             match l with
                             | [] => Forall_nil _
                             | x :: r => Forall_cons x (value_ind' x) (go r)
                             end) xs)
  | VTuple xs => Htuple xs ((fix go (l : list value) : Forall P l :=
                               match l with
                               | [] => Forall_nil _
                               | x :: r => Forall_cons x (value_ind' x) (go r)
                               end) xs)
  | VDict kvs => Hdict kvs ((fix go (l : list (atom * value)) : Forall (fun kv => P (snd kv)) l :=
                               match l with
                               | [] => Forall_nil _
                               | kv :: r => Forall_cons kv (value_ind' (snd kv)) (go r)
                               end) kvs)
  | VSet xs => Hset xs
  | VFrozen xs => Hfrozen xs
  end.
End ValueInd.

(* ---- strings ---- *)
Lemma pystr_eqb_refl : forall s, pystr_eqb s s = true.
Proof. induction s as [|x s IH]; cbn; [reflexivity|]. rewrite N.eqb_refl. exact IH. Qed.

Lemma pystr_eqb_eq : forall s t, pystr_eqb s t = true -> s = t.
Proof.
  induction s as [|x s IH]; intros [|y t] H; cbn in H; try discriminate; [reflexivity|].
  apply andb_true_iff in H. destruct H as [H1 H2].
  apply N.eqb_eq in H1. apply IH in H2. subst. reflexivity.
Qed.

Lemma pystr_eqb_sym : forall s t, pystr_eqb s t = pystr_eqb t s.
Proof.
  intros s t. destruct (pystr_eqb s t) eqn:E.
  - apply pystr_eqb_eq in E. subst. symmetry. apply pystr_eqb_refl.
  - destruct (pystr_eqb t s) eqn:E2; [|reflexivity].
    apply pystr_eqb_eq in E2. subst. rewrite pystr_eqb_refl in E. discriminate.
Qed.

(* ---- Python's lookup relation on atoms is an equivalence ---- *)
Lemma dy_same_refl : forall x, dy_same x x = true.
Proof. intros [m e]. unfold dy_same. cbn [fst snd]. rewrite Z.eqb_refl, N.eqb_refl. reflexivity. Qed.
Lemma dy_same_eq : forall x y, dy_same x y = true -> x = y.
Proof.
  intros [m e] [m' e'] H. unfold dy_same in H. cbn [fst snd] in H. apply andb_true_iff in H. destruct H as [H1 H2].
  apply Z.eqb_eq in H1. apply N.eqb_eq in H2. subst. reflexivity.
Qed.
Lemma dy_same_sym : forall x y, dy_same x y = dy_same y x.
Proof. intros [m e] [m' e']. unfold dy_same. cbn [fst snd]. rewrite Z.eqb_sym, N.eqb_sym. reflexivity. Qed.

Lemma dt_py_eq_refl : forall u o, dt_py_eq u o u o = true.
Proof. intros u [o|]; cbn; apply Z.eqb_refl. Qed.
Lemma dt_py_eq_sym : forall u1 o1 u2 o2, dt_py_eq u1 o1 u2 o2 = dt_py_eq u2 o2 u1 o1.
Proof. intros u1 [o1|] u2 [o2|]; cbn; try reflexivity; apply Z.eqb_sym. Qed.
Lemma dt_py_eq_trans : forall u1 o1 u2 o2 u3 o3,
  dt_py_eq u1 o1 u2 o2 = true -> dt_py_eq u2 o2 u3 o3 = true -> dt_py_eq u1 o1 u3 o3 = true.
Proof.
  intros u1 [o1|] u2 [o2|] u3 [o3|]; cbn; intros H1 H2; try discriminate;
    apply Z.eqb_eq in H1; apply Z.eqb_eq in H2; apply Z.eqb_eq; lia.
Qed.

(* the exact value of a number has a positive denominator *)
Lemma qv_pos : forall a x, qv a = Some x -> (0 < snd x)%Z.
Proof.
  intros a x H.
  assert (forall e : N, 0 < 2 ^ Z.of_N e)%Z as P2 by (intros; apply Z.pow_pos_nonneg; lia).
  destruct a as [| b | z | m e | s | s | u o | i | m e | y mo d | u | u | c n o v];
    unfold qv in H; cbn [num_of] in H; try discriminate.
  - injection H as H; rewrite <- H; cbn [snd]; first [apply P2 | lia].
  - injection H as H; rewrite <- H; cbn [snd]; first [apply P2 | lia].
  - injection H as H; rewrite <- H; cbn [snd]; first [apply P2 | lia].
  - destruct (0 <=? e)%Z eqn:E; injection H as H; rewrite <- H; cbn [snd]; [lia|]. apply Z.leb_gt in E. apply Z.pow_pos_nonneg; lia.
Qed.
Lemma q_eqb_refl : forall x, q_eqb x x = true.
Proof. intros [p q]. unfold q_eqb. apply Z.eqb_refl. Qed.
Lemma q_eqb_sym : forall x y, q_eqb x y = q_eqb y x.
Proof. intros [p q] [p' q']. unfold q_eqb. cbn [fst snd]. apply Z.eqb_sym. Qed.
Lemma q_eqb_trans : forall x y z, (0 < snd y)%Z -> q_eqb x y = true -> q_eqb y z = true -> q_eqb x z = true.
Proof.
  intros [p1 q1] [p2 q2] [p3 q3] Hq H1 H2. unfold q_eqb in *. cbn [fst snd] in *.
  apply Z.eqb_eq in H1. apply Z.eqb_eq in H2. apply Z.eqb_eq.
  apply (Z.mul_cancel_r _ _ q2); [lia|].
  transitivity (p1 * q2 * q3)%Z; [ring|]. rewrite H1.
  transitivity (p2 * q3 * q1)%Z; [ring|]. rewrite H2. ring.
Qed.

Lemma py_eq_refl : forall a, py_eq a a = true.
Proof.
  intros a. unfold py_eq. destruct (qv a) as [x|] eqn:E; [apply q_eqb_refl|].
  destruct a; cbn [qv num_of] in E; try discriminate; try reflexivity;
    try apply pystr_eqb_refl; try apply dt_py_eq_refl; try apply Nat.eqb_refl; try apply Z.eqb_refl.
  - rewrite !Z.eqb_refl. reflexivity.
  - rewrite !pystr_eqb_refl. reflexivity.
Qed.

Lemma py_eq_sym : forall a b, py_eq a b = py_eq b a.
Proof.
  intros a b. unfold py_eq.
  destruct (qv a) eqn:Ea, (qv b) eqn:Eb; try reflexivity.
  - apply q_eqb_sym.
  - destruct a, b; try reflexivity; cbn [qv num_of] in Ea, Eb; try discriminate;
      try apply pystr_eqb_sym; try apply dt_py_eq_sym; try apply Nat.eqb_sym; try apply Z.eqb_sym.
    + rewrite (Z.eqb_sym y y0), (Z.eqb_sym mo mo0), (Z.eqb_sym d d0). reflexivity.
    + rewrite (pystr_eqb_sym cls cls0), (pystr_eqb_sym name name0). reflexivity.
Qed.

Lemma py_eq_trans : forall a b c, py_eq a b = true -> py_eq b c = true -> py_eq a c = true.
Proof.
  intros a b c. unfold py_eq.
  destruct (qv a) eqn:Ea, (qv b) eqn:Eb, (qv c) eqn:Ec; try discriminate; intros H1 H2.
  - eapply q_eqb_trans; [exact (qv_pos b _ Eb)|eassumption|eassumption].
  - destruct a, b; cbn [qv num_of] in Ea, Eb; try discriminate; try discriminate H1;
      destruct c; cbn [qv num_of] in Ec; try discriminate; try discriminate H2; try reflexivity;
      try (apply pystr_eqb_eq in H1; apply pystr_eqb_eq in H2; subst; apply pystr_eqb_refl);
      try (apply Z.eqb_eq in H1; apply Z.eqb_eq in H2; subst; apply Z.eqb_refl);
      try (apply Nat.eqb_eq in H1; apply Nat.eqb_eq in H2; subst; apply Nat.eqb_refl).
    + eapply dt_py_eq_trans; eassumption.
    + apply andb_true_iff in H1. destruct H1 as [H1 H1c]. apply andb_true_iff in H1. destruct H1 as [H1a H1b].
      apply andb_true_iff in H2. destruct H2 as [H2 H2c]. apply andb_true_iff in H2. destruct H2 as [H2a H2b].
      apply Z.eqb_eq in H1a, H1b, H1c, H2a, H2b, H2c. subst. rewrite !Z.eqb_refl. reflexivity.
    + apply andb_true_iff in H1. destruct H1 as [H1a H1b]. apply andb_true_iff in H2. destruct H2 as [H2a H2b].
      apply pystr_eqb_eq in H1a, H1b, H2a, H2b. subst. rewrite !pystr_eqb_refl. reflexivity.
Qed.

Lemma opt_Z_eqb_refl : forall o, opt_Z_eqb o o = true.
Proof. intros [o|]; cbn; [apply Z.eqb_refl|reflexivity]. Qed.
Lemma opt_Z_eqb_eq : forall a b, opt_Z_eqb a b = true -> a = b.
Proof. intros [a|] [b|] H; cbn in H; try discriminate; [apply Z.eqb_eq in H; subst|]; reflexivity. Qed.

Lemma eatom_eqb_refl : forall a, eatom_eqb a a = true.
Proof.
  destruct a; cbn; try reflexivity; try apply Z.eqb_refl; try apply pystr_eqb_refl.
  rewrite Z.eqb_refl, N.eqb_refl. reflexivity.
Qed.
Lemma eatom_eqb_eq : forall a b, eatom_eqb a b = true -> a = b.
Proof.
  intros a b. destruct a, b; cbn; intros H; try discriminate; try reflexivity.
  - apply Z.eqb_eq in H. subst. reflexivity.
  - apply andb_true_iff in H. destruct H as [H1 H2]. apply Z.eqb_eq in H1. apply N.eqb_eq in H2. subst. reflexivity.
  - apply pystr_eqb_eq in H. subst. reflexivity.
  - apply pystr_eqb_eq in H. subst. reflexivity.
Qed.

Lemma atom_eqb_refl : forall a, atom_eqb a a = true.
Proof.
  destruct a as [| [|] | z | m e | s | s | u o | i | m e | y mo d | u | u | c n o v]; cbn; try reflexivity;
    try apply Z.eqb_refl; try apply pystr_eqb_refl; try apply Nat.eqb_refl.
  - rewrite Z.eqb_refl, N.eqb_refl. reflexivity.
  - rewrite Z.eqb_refl, opt_Z_eqb_refl. reflexivity.
  - rewrite !Z.eqb_refl. reflexivity.
  - rewrite !Z.eqb_refl. reflexivity.
  - rewrite !pystr_eqb_refl, Nat.eqb_refl, eatom_eqb_refl. reflexivity.
Qed.

Lemma atom_eqb_eq : forall a b, atom_eqb a b = true -> a = b.
Proof.
  intros a b. destruct a, b; cbn; intros H; try discriminate; try reflexivity.
  - apply Bool.eqb_prop in H. subst. reflexivity.
  - apply Z.eqb_eq in H. subst. reflexivity.
  - apply andb_true_iff in H. destruct H as [H1 H2]. apply Z.eqb_eq in H1. apply N.eqb_eq in H2. subst. reflexivity.
  - apply pystr_eqb_eq in H. subst. reflexivity.
  - apply pystr_eqb_eq in H. subst. reflexivity.
  - apply andb_true_iff in H. destruct H as [H1 H2]. apply Z.eqb_eq in H1. apply opt_Z_eqb_eq in H2. subst. reflexivity.
  - apply Nat.eqb_eq in H. subst. reflexivity.
  - apply andb_true_iff in H. destruct H as [H1 H2]. apply Z.eqb_eq in H1. apply Z.eqb_eq in H2. subst. reflexivity.
  - apply andb_true_iff in H. destruct H as [H H3]. apply andb_true_iff in H. destruct H as [H1 H2].
    apply Z.eqb_eq in H1, H2, H3. subst. reflexivity.
  - apply Z.eqb_eq in H. subst. reflexivity.
  - apply Z.eqb_eq in H. subst. reflexivity.
  - apply andb_true_iff in H. destruct H as [H H4]. apply andb_true_iff in H. destruct H as [H H3].
    apply andb_true_iff in H. destruct H as [H1 H2].
    apply pystr_eqb_eq in H1, H2. apply Nat.eqb_eq in H3. apply eatom_eqb_eq in H4. subst. reflexivity.
Qed.

Lemma ty_eqb_refl : forall t, ty_eqb t t = true.
Proof. destruct t; try reflexivity. cbn. apply pystr_eqb_refl. Qed.
Lemma ty_eqb_eq : forall a b, ty_eqb a b = true -> a = b.
Proof. intros a b. destruct a, b; cbn; intros H; try discriminate; try reflexivity. apply pystr_eqb_eq in H. subst. reflexivity. Qed.
Lemma ty_eqb_sym : forall a b, ty_eqb a b = ty_eqb b a.
Proof. intros a b. destruct a, b; try reflexivity. cbn. apply pystr_eqb_sym. Qed.

(* ---- membership / association by Python equality ---- *)
Lemma mem_atom_In : forall a l, mem_atom a l = true <-> exists b, In b l /\ py_eq a b = true.
Proof. intros a l. unfold mem_atom. apply existsb_exists. Qed.

Lemma mem_atom_self : forall a l, In a l -> mem_atom a l = true.
Proof. intros a l H. apply mem_atom_In. exists a. split; [exact H|apply py_eq_refl]. Qed.

Lemma mem_atom_eqv : forall a b l, py_eq a b = true -> mem_atom a l = mem_atom b l.
Proof.
  intros a b l H. destruct (mem_atom a l) eqn:E; symmetry.
  - apply mem_atom_In in E. destruct E as [x [Hx Hax]]. apply mem_atom_In. exists x. split; [exact Hx|].
    rewrite py_eq_sym in H. eapply py_eq_trans; eassumption.
  - destruct (mem_atom b l) eqn:E2; [|reflexivity].
    apply mem_atom_In in E2. destruct E2 as [x [Hx Hbx]].
    assert (mem_atom a l = true) as K.
    { apply mem_atom_In. exists x. split; [exact Hx|]. eapply py_eq_trans; eassumption. }
    rewrite K in E. discriminate.
Qed.

(* in a list without two Python-equal members, Python-equal members are the same *)
Lemma nodup_atoms_uniq : forall l x y, nodup_atoms l = true -> In x l -> In y l -> py_eq x y = true -> x = y.
Proof.
  induction l as [|a l IH]; intros x y Hn Hx Hy E; [destruct Hx|].
  cbn in Hn. apply andb_true_iff in Hn. destruct Hn as [Hna Hn].
  apply negb_true_iff in Hna.
  destruct Hx as [Hx|Hx], Hy as [Hy|Hy]; subst.
  - reflexivity.
  - exfalso. assert (mem_atom x l = true) as K by (apply mem_atom_In; exists y; auto). congruence.
  - exfalso. assert (mem_atom y l = true) as K.
    { apply mem_atom_In. exists x. split; [exact Hx|]. rewrite py_eq_sym. exact E. }
    congruence.
  - eapply IH; eassumption.
Qed.

Lemma assoc_In : forall {B} k (l : list (atom * B)) v, assoc k l = Some v -> exists k', In (k', v) l /\ py_eq k' k = true.
Proof.
  induction l as [|[k' v'] l IH]; intros v H; cbn in H; [discriminate|].
  destruct (py_eq k' k) eqn:E.
  - inversion H; subst. exists k'. split; [left; reflexivity|exact E].
  - apply IH in H. destruct H as [k2 [H1 H2]]. exists k2. split; [right; exact H1|exact H2].
Qed.

Lemma assoc_nodup : forall {B} (l : list (atom * B)) k v,
  nodup_atoms (map fst l) = true -> In (k, v) l -> assoc k l = Some v.
Proof.
  induction l as [|[k' v'] l IH]; intros k v Hn Hin; [destruct Hin|].
  cbn in Hn. apply andb_true_iff in Hn. destruct Hn as [Hna Hn]. apply negb_true_iff in Hna.
  cbn. destruct Hin as [Hin|Hin].
  - inversion Hin; subst. rewrite py_eq_refl. reflexivity.
  - destruct (py_eq k' k) eqn:E.
    + exfalso. assert (mem_atom k' (map fst l) = true) as K.
      { apply mem_atom_In. exists k. split; [|exact E]. change k with (fst (k, v)). apply in_map. exact Hin. }
      congruence.
    + apply IH; assumption.
Qed.

Lemma find_some_first : forall {A} (f : A -> bool) l x, find f l = Some x -> In x l /\ f x = true.
Proof. intros. eapply find_some; eassumption. Qed.

Lemma find_none_iff : forall {A} (f : A -> bool) l, find f l = None -> forall x, In x l -> f x = false.
Proof. intros. eapply find_none; eassumption. Qed.

Lemma find_mem : forall k l, mem_atom k l = true -> exists k', find (py_eq k) l = Some k'.
Proof.
  intros k l H. destruct (find (py_eq k) l) eqn:E; [eauto|].
  apply mem_atom_In in H. destruct H as [b [Hb Hkb]].
  eapply find_none in E; [|exact Hb]. congruence.
Qed.

(* ---- lists ---- *)
Lemma filter_all : forall {A} (f : A -> bool) l, (forall x, In x l -> f x = true) -> filter f l = l.
Proof.
  induction l as [|a l IH]; intros H; cbn; [reflexivity|].
  rewrite (H a (or_introl eq_refl)). f_equal. apply IH. intros x Hx. apply H. right. exact Hx.
Qed.

Lemma flat_map_nil : forall {A B} (f : A -> list B) l, (forall x, In x l -> f x = []) -> flat_map f l = [].
Proof.
  induction l as [|a l IH]; intros H; cbn; [reflexivity|].
  rewrite (H a (or_introl eq_refl)). cbn. apply IH. intros x Hx. apply H. right. exact Hx.
Qed.

Lemma flat_map_ext_in : forall {A B} (f g : A -> list B) l, (forall x, In x l -> f x = g x) -> flat_map f l = flat_map g l.
Proof.
  induction l as [|a l IH]; intros H; cbn; [reflexivity|].
  rewrite (H a (or_introl eq_refl)). f_equal. apply IH. intros x Hx. apply H. right. exact Hx.
Qed.

(* ---- no bytes dict keys ---- *)
Fixpoint nbk (v : value) : bool :=
  match v with
  | VAtom _ | VSet _ | VFrozen _ => true
  | VList xs | VTuple xs => forallb nbk xs
  | VDict kvs => forallb (fun kv => negb (is_bytes (fst kv)) && nbk (snd kv)) kvs
  end.

Lemma nbk_dict_key : forall kvs k, nbk (VDict kvs) = true -> In k (map fst kvs) -> is_bytes k = false.
Proof.
  intros kvs k H Hin. cbn in H. rewrite forallb_forall in H.
  apply in_map_iff in Hin. destruct Hin as [[k' v] [E Hin]]. cbn in E. subst.
  specialize (H _ Hin). cbn in H. apply andb_true_iff in H. destruct H as [H _].
  apply negb_true_iff in H. exact H.
Qed.

Lemma nbk_dict_val : forall kvs k v, nbk (VDict kvs) = true -> In (k, v) kvs -> nbk v = true.
Proof.
  intros kvs k v H Hin. cbn in H. rewrite forallb_forall in H.
  specialize (H _ Hin). cbn in H. apply andb_true_iff in H. destruct H as [_ H]. exact H.
Qed.

Lemma keys_of_In : forall c kvs k, In k (keys_of c kvs) -> In k (map fst kvs) /\ keep_key c k = true.
Proof. intros c kvs k H. unfold keys_of in H. apply filter_In in H. exact H. Qed.

Lemma keys_of_In_intro : forall c kvs k, In k (map fst kvs) -> keep_key c k = true -> In k (keys_of c kvs).
Proof. intros c kvs k H1 H2. unfold keys_of. apply filter_In. split; assumption. Qed.

(** (extended universe: dyadic floats, datetimes) Atom-level relations "altered only in an aspect the options ignore" and what
    the three places where the code looks at an atom (leaf comparison, key
    cleaning, set-member hashing) do with them. *)
From Coq Require Import List ZArith NArith Bool Arith Lia.
Import ListNotations.
From DD Require Import Base.PyStr Options.OptModel Options.OptDtModel Options.XValue Options.XModel Options.XProofsBase.

(* ---------------------------------------------------------------------- *)
(* the relations                                                            *)
(* ---------------------------------------------------------------------- *)
Definition is_numeric (a : atom) : bool := match a with AInt _ | AFloat _ _ => true | _ => false end.

(* strings: same letters up to case (if ignored), same type or str/bytes (if ignored; ASCII) *)
Definition str_rel (F : opts) (a b : atom) : bool :=
  str_like (atom_ty a) && str_like (atom_ty b)
  && (ty_eqb (atom_ty a) (atom_ty b) || (o_strty F && is_ascii (str_content a) && is_ascii (str_content b)))
  && pystr_eqb (lowif F (str_content a)) (lowif F (str_content b)).

(* numbers (int / float, not bool): same type, or int vs float if ignored *)
Definition num_ty_ok (F : opts) (a b : atom) : bool :=
  is_numeric a && is_numeric b && (ty_eqb (atom_ty a) (atom_ty b) || o_numty F).
(* the same number after rounding to the significant digits in force *)
Definition sig_rel (F : opts) (a b : atom) : bool :=
  match eff_sig F, dy_of_atom a, dy_of_atom b with
  | Some d, Some x, Some y => Z.eqb (rhe x d) (rhe y d)
  | _, _, _ => false
  end.
(* within math_epsilon *)
Definition eps_rel (F : opts) (a b : atom) : bool :=
  match o_eps F, dy_of_atom a, dy_of_atom b with
  | Some e, Some x, Some y => is_close x y e
  | _, _, _ => false
  end.

(* datetimes at a leaf: the same instant after datetime_normalize (truncation in the own zone, then the zone) *)
Definition dt_rel (F : opts) (a b : atom) : bool :=
  match a, b with
  | ADt u1 o1, ADt u2 o2 => negb (dt_changed (o_trunc F) (o_tz F) (mkDt u1 o1) (mkDt u2 o2))
  | _, _ => false
  end.
(* datetimes as the property states it: the same instant in another zone (a naive one lives in default_timezone),
   or the same zone and the same truncation bucket *)
Definition dt_full (F : opts) (a b : atom) : bool :=
  match a, b with
  | ADt u1 o1, ADt u2 o2 =>
      Z.eqb (dt_instant None (o_tz F) (mkDt u1 o1)) (dt_instant None (o_tz F) (mkDt u2 o2))
      || (opt_Z_eqb o1 o2 && match o_trunc F with Some u => Z.eqb (u1 / unit_us u) (u2 / unit_us u) | None => false end)
  | _, _ => false
  end.
(* datetimes as set members: DeepHash normalises with default_timezone and never truncates *)
Definition dt_set_rel (F : opts) (a b : atom) : bool :=
  match a, b with
  | ADt u1 o1, ADt u2 o2 => Z.eqb (dt_instant None (o_tz F) (mkDt u1 o1)) (dt_instant None (o_tz F) (mkDt u2 o2))
  | _, _ => false
  end.

(* FULL STRENGTH (the property as stated): altered in any aspect an enabled option ignores *)
Definition altA (F : opts) (a b : atom) : bool :=
  atom_eqb a b || str_rel F a b || (num_ty_ok F a b && (py_eq a b || sig_rel F a b || eps_rel F a b))
  || dt_full F a b || dt_rel F a b.

(* what a LEAF comparison ignores: math_epsilon takes precedence over significant_digits *)
Definition altL (F : opts) (a b : atom) : bool :=
  atom_eqb a b || str_rel F a b
  || (num_ty_ok F a b &&
      match o_eps F with
      | Some _ => eps_rel F a b
      | None => match eff_sig F with Some _ => sig_rel F a b | None => py_eq a b end
      end)
  || dt_rel F a b.

(* what KEY CLEANING identifies (no cleaning option: Python equality of keys);
   bytes keys are decoded only by ignore_string_type_changes and never
   lower-cased as bytes; math_epsilon plays no role *)
Definition altK (F : opts) (a b : atom) : bool :=
  if cleaning F then
    atom_eqb a b
    || (str_rel F a b && (o_strty F || (negb (is_bytes a) && negb (is_bytes b))))
    || (num_ty_ok F a b && sig_rel F a b)
  else py_eq a b.

(* what the hash text of a SET MEMBER identifies; math_epsilon plays no role *)
Definition altS (F : opts) (a b : atom) : bool :=
  atom_eqb a b
  || (str_like (atom_ty a) && str_like (atom_ty b) && (ty_eqb (atom_ty a) (atom_ty b) || o_strty F)
      && pystr_eqb (lowif F (str_content a)) (lowif F (str_content b)))
  || (num_ty_ok F a b && sig_rel F a b)
  || dt_set_rel F a b.

(* the leaf relation is a restriction of the full one *)
Lemma altL_altA : forall F a b, altL F a b = true -> altA F a b = true.
Proof.
  intros F a b H. unfold altL, altA in *.
  apply orb_true_iff in H. destruct H as [H|H]; [|rewrite H; apply orb_true_r].
  apply orb_true_iff in H. destruct H as [H|H]; [rewrite H; reflexivity|].
  apply andb_true_iff in H. destruct H as [H1 H2]. rewrite H1. cbn [andb].
  assert (py_eq a b || sig_rel F a b || eps_rel F a b = true) as K.
  { destruct (o_eps F) eqn:Ee.
    - rewrite H2. apply orb_true_r.
    - destruct (eff_sig F) eqn:Es; rewrite H2; rewrite ?orb_true_r; reflexivity. }
  rewrite K. rewrite ?orb_true_r. reflexivity.
Qed.

(* ---------------------------------------------------------------------- *)
(* small facts                                                              *)
(* ---------------------------------------------------------------------- *)
Lemma lower_char_ascii : forall ch, N.ltb (lower_char ch) 128 = N.ltb ch 128.
Proof.
  intros ch. unfold lower_char.
  destruct (N.leb 65 ch && N.leb ch 90)%bool eqn:E; [|reflexivity].
  apply andb_true_iff in E. destruct E as [E1 E2]. apply N.leb_le in E1. apply N.leb_le in E2.
  assert (N.ltb (ch + 32) 128 = true) as K1 by (apply N.ltb_lt; lia).
  assert (N.ltb ch 128 = true) as K2 by (apply N.ltb_lt; lia).
  rewrite K1, K2. reflexivity.
Qed.

Lemma is_ascii_lower : forall s, is_ascii (lower s) = is_ascii s.
Proof.
  induction s as [|ch s IH]; [reflexivity|].
  unfold is_ascii, lower in *. cbn [map forallb]. rewrite lower_char_ascii, IH. reflexivity.
Qed.

Lemma is_ascii_lowif : forall F s, is_ascii (lowif F s) = is_ascii s.
Proof. intros F s. unfold lowif. destruct (o_case F); [apply is_ascii_lower|reflexivity]. Qed.

Lemma lower_app : forall s t, lower (s ++ t) = (lower s ++ lower t)%list.
Proof. intros. unfold lower. apply map_app. Qed.

Lemma lowif_app : forall F s t, lowif F (s ++ t) = (lowif F s ++ lowif F t)%list.
Proof. intros F s t. unfold lowif. destruct (o_case F); [apply lower_app|reflexivity]. Qed.

Lemma dy_eqb_refl : forall x, dy_eqb x x = true.
Proof. intros [m e]. unfold dy_eqb, dy_align. cbn [fst snd]. apply Z.eqb_refl. Qed.

Lemma is_close_refl : forall x e, is_close x x e = true.
Proof. intros x e. unfold is_close. rewrite dy_eqb_refl. reflexivity. Qed.

Lemma num_tag_eq : forall F a b, num_ty_ok F a b = true -> ty_eqb (atom_ty a) (atom_ty b) = true -> num_tag F a = num_tag F b.
Proof.
  intros F a b H Ht. unfold num_tag. destruct (o_numty F); [reflexivity|].
  destruct a, b; cbn in Ht; try discriminate; reflexivity.
Qed.

Lemma num_ty_ok_group : forall F a b, num_ty_ok F a b = true ->
  ty_eqb (atom_ty a) (atom_ty b) = false -> same_group F (atom_ty a) (atom_ty b) = true.
Proof.
  intros F a b H Ht. unfold num_ty_ok in H. rewrite Ht in H. cbn [orb] in H.
  apply andb_true_iff in H. destruct H as [H Hn]. apply andb_true_iff in H. destruct H as [Ha Hb].
  unfold same_group. rewrite Hn.
  destruct a, b; cbn in Ha, Hb; try discriminate; cbn; rewrite ?orb_true_r; reflexivity.
Qed.

(* ---------------------------------------------------------------------- *)
(* leaves                                                                   *)
(* ---------------------------------------------------------------------- *)
Section Leaf.
Variable udiff : pystr -> pystr -> pystr.
Variable F : opts.

Lemma diff_strF_rel : forall a b p1 p2, str_rel F a b = true -> diff_strF udiff F a b p1 p2 = [].
Proof.
  intros a b p1 p2 H. unfold str_rel in H.
  apply andb_true_iff in H. destruct H as [H He]. apply andb_true_iff in H. destruct H as [H Ht].
  unfold diff_strF. rewrite He. cbn [andb].
  apply orb_true_iff in Ht. destruct Ht as [Ht|Ht]; [rewrite Ht; reflexivity|].
  apply andb_true_iff in Ht. destruct Ht as [Ht Hb]. apply andb_true_iff in Ht. destruct Ht as [_ Ha].
  rewrite !is_ascii_lowif, Ha, Hb.
  destruct (is_bytes a), (is_bytes b); cbn; rewrite ?orb_true_r; reflexivity.
Qed.

Lemma diff_atomF_refl : forall a p1 p2, diff_atomF udiff F a a p1 p2 = [].
Proof.
  intros a p1 p2. unfold diff_atomF.
  destruct (excluded F (atom_ty a) || excluded F (atom_ty a)); [reflexivity|].
  rewrite ty_eqb_refl. cbn [negb andb].
  destruct a as [|x|x|m e|s|s|u o].
  - reflexivity.
  - rewrite py_eq_refl. reflexivity.
  - unfold diff_numF. cbn [dy_of_atom num_of].
    destruct (o_eps F); [rewrite is_close_refl; reflexivity|].
    destruct (eff_sig F); [rewrite pystr_eqb_refl; reflexivity|rewrite py_eq_refl; reflexivity].
  - unfold diff_numF. cbn [dy_of_atom num_of].
    destruct (o_eps F); [rewrite is_close_refl; reflexivity|].
    destruct (eff_sig F); [rewrite pystr_eqb_refl; reflexivity|rewrite py_eq_refl; reflexivity].
  - unfold diff_strF. rewrite pystr_eqb_refl, ty_eqb_refl. reflexivity.
  - unfold diff_strF. rewrite pystr_eqb_refl, ty_eqb_refl. reflexivity.
  - unfold dt_changed. rewrite Z.eqb_refl. reflexivity.
Qed.

Lemma diff_numF_leaf : forall a b p1 p2,
  num_ty_ok F a b = true ->
  match o_eps F with
  | Some _ => eps_rel F a b
  | None => match eff_sig F with Some _ => sig_rel F a b | None => py_eq a b end
  end = true ->
  diff_numF F (ty_eqb (atom_ty a) (atom_ty b)) a b p1 p2 = [].
Proof.
  intros a b p1 p2 Hok H. unfold diff_numF.
  destruct (dy_of_atom a) as [x|] eqn:Ea; [|reflexivity].
  destruct (dy_of_atom b) as [y|] eqn:Eb; [|reflexivity].
  destruct (o_eps F) as [e|] eqn:Ee.
  - unfold eps_rel in H. rewrite Ee, Ea, Eb in H. rewrite H. reflexivity.
  - destruct (eff_sig F) as [d|] eqn:Es.
    + unfold sig_rel in H. rewrite Es, Ea, Eb in H. apply Z.eqb_eq in H.
      unfold num_str. rewrite H.
      destruct (ty_eqb (atom_ty a) (atom_ty b)) eqn:Et.
      * rewrite (num_tag_eq F a b Hok Et), pystr_eqb_refl. reflexivity.
      * rewrite pystr_eqb_refl. reflexivity.
    + rewrite H. reflexivity.
Qed.

Theorem diff_atomF_altL : forall a b p1 p2, altL F a b = true -> diff_atomF udiff F a b p1 p2 = [].
Proof.
  intros a b p1 p2 H. unfold altL in H.
  apply orb_true_iff in H. destruct H as [H|H].
  2:{ (* datetimes *)
      unfold dt_rel in H. destruct a as [| | | | | |u1 o1]; try discriminate. destruct b as [| | | | | |u2 o2]; try discriminate.
      apply negb_true_iff in H. unfold diff_atomF.
      destruct (excluded F (atom_ty (ADt u1 o1)) || excluded F (atom_ty (ADt u2 o2))); [reflexivity|].
      cbn [atom_ty ty_eqb negb andb]. rewrite H. reflexivity. }
  apply orb_true_iff in H. destruct H as [H|H].
  - apply orb_true_iff in H. destruct H as [H|H].
    + apply atom_eqb_eq in H. subst. apply diff_atomF_refl.
    + (* strings *)
      unfold diff_atomF.
      destruct (excluded F (atom_ty a) || excluded F (atom_ty b)); [reflexivity|].
      pose proof H as H0. unfold str_rel in H0.
      apply andb_true_iff in H0. destruct H0 as [H0 _]. apply andb_true_iff in H0. destruct H0 as [H0 Ht].
      apply andb_true_iff in H0. destruct H0 as [Hsa Hsb].
      assert (negb (ty_eqb (atom_ty a) (atom_ty b)) && negb (same_group F (atom_ty a) (atom_ty b)) = false) as Hg.
      { destruct (ty_eqb (atom_ty a) (atom_ty b)) eqn:Et; [reflexivity|]. cbn [orb] in Ht.
        apply andb_true_iff in Ht. destruct Ht as [Ht _]. apply andb_true_iff in Ht. destruct Ht as [Hst _].
        unfold same_group. rewrite Hst, Hsa, Hsb. reflexivity. }
      rewrite Hg.
      destruct a; cbn in Hsa; try discriminate; apply diff_strF_rel; exact H.
  - (* numbers *)
    apply andb_true_iff in H. destruct H as [Hok H].
    unfold diff_atomF.
    destruct (excluded F (atom_ty a) || excluded F (atom_ty b)); [reflexivity|].
    assert (negb (ty_eqb (atom_ty a) (atom_ty b)) && negb (same_group F (atom_ty a) (atom_ty b)) = false) as Hg.
    { destruct (ty_eqb (atom_ty a) (atom_ty b)) eqn:Et; [reflexivity|].
      rewrite (num_ty_ok_group F a b Hok Et). reflexivity. }
    rewrite Hg.
    pose proof Hok as Hn. unfold num_ty_ok in Hn. apply andb_true_iff in Hn. destruct Hn as [Hn _].
    apply andb_true_iff in Hn. destruct Hn as [Hna _].
    destruct a; cbn in Hna; try discriminate; apply diff_numF_leaf; assumption.
Qed.

End Leaf.

(* ---------------------------------------------------------------------- *)
(* set members                                                              *)
(* ---------------------------------------------------------------------- *)
Theorem hatomF_altS : forall F a b, altS F a b = true -> hatomF F a = hatomF F b.
Proof.
  intros F a b H. unfold altS in H.
  apply orb_true_iff in H. destruct H as [H|H].
  2:{ unfold dt_set_rel in H. destruct a as [| | | | | |u1 o1]; try discriminate. destruct b as [| | | | | |u2 o2]; try discriminate.
      apply Z.eqb_eq in H. cbn [hatomF]. unfold dt_text. rewrite H. reflexivity. }
  apply orb_true_iff in H. destruct H as [H|H].
  - apply orb_true_iff in H. destruct H as [H|H].
    + apply atom_eqb_eq in H. subst. reflexivity.
    + apply andb_true_iff in H. destruct H as [H He]. apply andb_true_iff in H. destruct H as [H Ht].
      apply andb_true_iff in H. destruct H as [Ha Hb]. apply pystr_eqb_eq in He.
      destruct a as [| | | |s|s|], b as [| | | |t|t|]; cbn in Ha, Hb; try discriminate;
        cbn [atom_ty ty_eqb orb] in Ht; cbn [str_content] in He; cbn [hatomF]; unfold prep_string;
        try (rewrite !lowif_app, He; reflexivity);
        rewrite Ht; cbn [app]; rewrite He; reflexivity.
  - apply andb_true_iff in H. destruct H as [Hok H].
    unfold sig_rel in H.
    destruct (eff_sig F) as [d|] eqn:Es; [|discriminate].
    destruct (dy_of_atom a) as [x|] eqn:Ea; [|discriminate].
    destruct (dy_of_atom b) as [y|] eqn:Eb; [|discriminate].
    apply Z.eqb_eq in H.
    pose proof Hok as Hn. unfold num_ty_ok in Hn. apply andb_true_iff in Hn. destruct Hn as [Hn Hty].
    apply andb_true_iff in Hn. destruct Hn as [Hna Hnb].
    assert (num_tag F a = num_tag F b) as Htag.
    { apply orb_true_iff in Hty. destruct Hty as [Hty|Hty]; [apply (num_tag_eq F a b Hok Hty)|].
      unfold num_tag. rewrite Hty. reflexivity. }
    destruct a, b; cbn in Hna, Hnb; try discriminate; cbn [hatomF]; rewrite Es;
      cbn [dy_of_atom num_of] in Ea, Eb; inversion Ea; inversion Eb; subst;
      unfold num_str; rewrite H, Htag; reflexivity.
Qed.

(* ---------------------------------------------------------------------- *)
(* keys                                                                     *)
(* ---------------------------------------------------------------------- *)
(* a key that key cleaning can process: not a datetime when a precision is in force (helper.numbers contains
   datetime, round(datetime) raises: C11-DATETIME-KEY) *)
Definition key_cleanable (F : opts) (k : atom) : bool :=
  match k with
  | ADt _ _ => match eff_sig F with Some _ => false | None => true end
  | _ => true
  end.

Lemma clean_key_ok : forall F k, key_cleanable F k = true -> exists ck, clean_key F k = Ok ck.
Proof.
  intros F k H. destruct k; cbn [clean_key dy_of_atom num_of key_cleanable] in *; try (eexists; reflexivity).
  - destruct (eff_sig F); eexists; reflexivity.
  - destruct (eff_sig F); eexists; reflexivity.
  - destruct (eff_sig F); eexists; reflexivity.
  - destruct (o_strty F); eexists; reflexivity.
  - destruct (eff_sig F); [discriminate|eexists; reflexivity].
Qed.

Theorem clean_key_altK : forall F a b ca cb,
  cleaning F = true -> altK F a b = true ->
  clean_key F a = Ok ca -> clean_key F b = Ok cb -> py_eq ca cb = true.
Proof.
  intros F a b ca cb Hc H Ha Hb. unfold altK in H. rewrite Hc in H.
  apply orb_true_iff in H. destruct H as [H|H].
  - apply orb_true_iff in H. destruct H as [H|H].
    + apply atom_eqb_eq in H. subst. rewrite Ha in Hb. inversion Hb; subst. apply py_eq_refl.
    + apply andb_true_iff in H. destruct H as [H Hby].
      unfold str_rel in H.
      apply andb_true_iff in H. destruct H as [H He]. apply andb_true_iff in H. destruct H as [H _].
      apply andb_true_iff in H. destruct H as [Hsa Hsb]. apply pystr_eqb_eq in He.
      destruct a as [| | | |s|s|], b as [| | | |t|t|]; cbn in Hsa, Hsb; try discriminate;
        cbn [str_content] in He; cbn [clean_key] in Ha, Hb; cbn [is_bytes negb andb orb] in Hby;
        try rewrite orb_false_r in Hby; try rewrite Hby in *;
        inversion Ha; inversion Hb; subst; unfold py_eq; cbn [num_of]; rewrite He; apply pystr_eqb_refl.
  - apply andb_true_iff in H. destruct H as [Hok H].
    unfold sig_rel in H.
    destruct (eff_sig F) as [d|] eqn:Es; [|discriminate].
    destruct (dy_of_atom a) as [x|] eqn:Ea; [|discriminate].
    destruct (dy_of_atom b) as [y|] eqn:Eb; [|discriminate].
    apply Z.eqb_eq in H.
    pose proof Hok as Hn. unfold num_ty_ok in Hn. apply andb_true_iff in Hn. destruct Hn as [Hn Hty].
    apply andb_true_iff in Hn. destruct Hn as [Hna Hnb].
    assert (num_tag F a = num_tag F b) as Htag.
    { apply orb_true_iff in Hty. destruct Hty as [Hty|Hty]; [apply (num_tag_eq F a b Hok Hty)|].
      unfold num_tag. rewrite Hty. reflexivity. }
    destruct a, b; cbn in Hna, Hnb; try discriminate; cbn [clean_key] in Ha, Hb; rewrite Es in Ha, Hb;
      cbn [dy_of_atom num_of] in Ea, Eb, Ha, Hb; inversion Ea; inversion Eb; subst;
      inversion Ha; inversion Hb; subst; unfold py_eq; cbn [num_of];
      unfold num_str; rewrite H, Htag; apply pystr_eqb_refl.
Qed.

(** (extended universe) Refuted witnesses for the datetime options at dict keys
    and set members, for truncation before zone conversion and for datetime keys
    under key cleaning with a precision; non-vacuity examples with dyadic floats
    and datetimes inside structures. *)
From Coq Require Import List ZArith NArith Bool Arith String Lia.
Import ListNotations.
From DD Require Import Base.PyStr Options.OptModel Options.OptDtModel Options.XValue Options.XModel
  Options.XProofsBase Options.XProofsAtoms Options.XProofsKeys Options.XProofsLists
  Options.XProofsAlt Options.XProofsSafe Options.XProofsMono Options.XProofsRun.
Local Open Scope string_scope.
Local Open Scope Z_scope.

Definition xud0 (_ _ : pystr) : pystr := [].
Definition xops0 (_ : path) (_ _ : list value) : list opcode := [].
Definition xcdef : cfg := mkCfg false 33 100 true.
Definition xczip : cfg := mkCfg true 33 100 true.
Definition xrun (c : cfg) (F : opts) (a b : value) := run_optF xud0 xops0 c F a b.
Definition xS (s : string) : atom := AStr (s2p s).
Definition xvi (z : Z) : value := VAtom (AInt z).

Definition XFtrunc (u : tunit) := mkOpts false false false None None [] (Some u) 0.
Definition XFtz (m : Z) := mkOpts false false false None None [] None m.
Definition XFsig (d : N) := mkOpts false false false (Some d) None [] None 0.
Definition XFeps (e : dy) := mkOpts false false false None (Some e) [] None 0.
Definition XFcase_sig (d : N) := mkOpts true false false (Some d) None [] None 0.

(* 2024-06-01T12:40:03 / :09 / :27.25 / :59 as wall-clock microseconds (naive) *)
Definition t_03 : Z := 1717245603000000.
Definition t_09 : Z := 1717245609000000.

(* C11-DATETIME-KEY: helper.numbers contains datetime, key cleaning with a precision calls round(datetime): TypeError *)
Theorem x_datetime_key_raises_refuted :
  exists a, xrun xcdef no_opts a a = Ok ([], []) /\ xrun xcdef (XFcase_sig 2) a a = Err EType.
Proof. exists (VDict [(ADt t_03 None, xvi 1)]). split; reflexivity. Qed.

(* C11-DATETIME-KEY-SET: truncate_datetime reaches neither dict keys nor set members *)
Theorem x_trunc_key_refuted :
  exists a b k k', a = VDict [(k, xvi 1)] /\ b = VDict [(k', xvi 1)] /\ dt_full (XFtrunc UMinute) k k' = true /\
                   exists r, xrun xcdef (XFtrunc UMinute) a b = Ok r /\ fst r <> [].
Proof.
  exists (VDict [(ADt t_03 None, xvi 1)]), (VDict [(ADt t_09 None, xvi 1)]), (ADt t_03 None), (ADt t_09 None).
  repeat split; try reflexivity. eexists. split; [vm_compute; reflexivity|cbn; discriminate].
Qed.
Theorem x_trunc_set_refuted :
  exists k k', dt_full (XFtrunc UMinute) k k' = true /\
               exists r, xrun xcdef (XFtrunc UMinute) (VSet [k]) (VSet [k']) = Ok r /\ fst r <> [].
Proof.
  exists (ADt t_03 None), (ADt t_09 None). split; [reflexivity|].
  eexists. split; [vm_compute; reflexivity|cbn; discriminate].
Qed.
(* ... while the same two datetimes as leaves are equal under the option *)
Example x_trunc_leaf : xrun xcdef (XFtrunc UMinute) (VDict [(xS "k", VAtom (ADt t_03 None))]) (VDict [(xS "k", VAtom (ADt t_09 None))]) = Ok ([], []).
Proof. reflexivity. Qed.

(* a naive datetime key and the same wall clock with default_timezone attached are different keys *)
Theorem x_tz_key_refuted :
  exists k k', dt_full (XFtz 120) k k' = true /\
               exists r, xrun xcdef (XFtz 120) (VDict [(k, xvi 1)]) (VDict [(k', xvi 1)]) = Ok r /\ fst r <> [].
Proof.
  exists (ADt t_03 None), (ADt t_03 (Some 120)). split; [reflexivity|].
  eexists. split; [vm_compute; reflexivity|cbn; discriminate].
Qed.

(* C11-TRUNC-BEFORE-TZ in a structure: one instant in two zones (12:40:27+02:00, 16:25:27+05:45): plain diff empty,
   truncate_datetime='hour' reports a change *)
Theorem x_trunc_before_tz_monotone_refuted :
  exists a b, xrun xcdef no_opts a b = Ok ([], []) /\ exists r, xrun xcdef (XFtrunc UHour) a b = Ok r /\ fst r <> [].
Proof.
  exists (VDict [(xS "k", VAtom (ADt 45627000000 (Some 120)))]), (VDict [(xS "k", VAtom (ADt 59127000000 (Some 345)))]).
  split; [reflexivity|]. eexists. split; [vm_compute; reflexivity|cbn; discriminate].
Qed.
(* default_timezone re-reads naive datetimes: naive 12:40:03 equals 12:40:03+00:00 by default, not under +02:00 *)
Theorem x_default_timezone_monotone_refuted :
  exists a b, xrun xcdef no_opts a b = Ok ([], []) /\ exists r, xrun xcdef (XFtz 120) a b = Ok r /\ fst r <> [].
Proof.
  exists (VDict [(xS "k", VAtom (ADt t_03 None))]), (VDict [(xS "k", VAtom (ADt t_03 (Some 0)))]).
  split; [reflexivity|]. eexists. split; [vm_compute; reflexivity|cbn; discriminate].
Qed.

(* ---- non-vacuity: dyadic floats and datetimes inside structures ---- *)
(* significant_digits=2 + ignore_string_case + truncate 'minute': 1025/1024 ~ 1027/1024 ("1.00"), keys cleaned, datetimes truncated *)
Definition XFmix := mkOpts true false false (Some 2%N) None [] (Some UMinute) 0.
Definition xe1 : value :=
  VDict [(xS "A", VList [VAtom (AFloat 1025 10); VAtom (ADt t_03 (Some 120))]);
         (AFloat 1025 10, VSet [AFloat 3 2; xS "M"]); (xS "__p", xvi 0)].
Definition xe2 : value :=
  VDict [(AFloat 1027 10, VSet [xS "m"; AFloat 193 8]);
         (xS "a", VList [VAtom (AFloat 1027 10); VAtom (ADt t_09 (Some 120))])].
Example x_guard_1 : guard XFmix xcdef xe1 = true. Proof. reflexivity. Qed.
Example x_guard_2 : guard XFmix xcdef xe2 = true. Proof. reflexivity. Qed.
Example x_alt : alt XFmix xcdef xe1 xe2.
Proof.
  apply alt_dict.
  - intros k v H. cbn in H. destruct H as [H|[H|H]]; try (inversion H; subst; clear H); try contradiction.
    + exists (xS "a"). eexists. split; [right; left; reflexivity|]. split; [reflexivity|].
      apply alt_list. constructor; [apply alt_atom; reflexivity|]. constructor; [apply alt_atom; reflexivity|constructor].
    + exists (AFloat 1027 10). eexists. split; [left; reflexivity|]. split; [reflexivity|].
      apply alt_set.
      * intros x Hx _. cbn in Hx. destruct Hx as [Hx|[Hx|Hx]]; try contradiction; subst.
        -- exists (AFloat 193 8). split; [right; left; reflexivity|]. split; [reflexivity|left; reflexivity].
        -- exists (xS "m"). split; [left; reflexivity|]. split; [reflexivity|left; reflexivity].
      * intros x Hx _. cbn in Hx. destruct Hx as [Hx|[Hx|Hx]]; try contradiction; subst.
        -- exists (xS "M"). split; [right; left; reflexivity|]. split; [reflexivity|right; reflexivity].
        -- exists (AFloat 3 2). split; [left; reflexivity|]. split; [reflexivity|right; reflexivity].
  - intros k' H. cbn in H. destruct H as [H|[H|H]]; try contradiction; subst.
    + exists (AFloat 1025 10). split; [right; left; reflexivity|reflexivity].
    + exists (xS "A"). split; [left; reflexivity|reflexivity].
Qed.
Example x_alt_computes : xrun xczip XFmix xe1 xe2 = Ok ([], []).
Proof. reflexivity. Qed.
(* math_epsilon = 0.01 (the double) on dyadic floats: 1025/1024 vs 1029/1024 *)
Example x_eps_leaf : altL (XFeps (5764607523034235, 59%N)) (AFloat 1025 10) (AFloat 1029 10) = true.
Proof. reflexivity. Qed.
Example x_safe : safe XFmix xe2 = true. Proof. reflexivity. Qed.

(** truncate_datetime / default_timezone at a leaf: what is ignored, and the
    defect that truncation happens before the zone conversion. *)
From Coq Require Import ZArith Bool Lia.
From DD Require Import Options.OptDtModel.
Local Open Scope Z_scope.

(* the timezone of the same instant is ignored (no truncation) *)
Theorem dt_same_instant : forall dtz us1 o1 us2 o2,
  us1 - 60000000 * o1 = us2 - 60000000 * o2 ->
  dt_changed None dtz (mkDt us1 (Some o1)) (mkDt us2 (Some o2)) = false.
Proof.
  intros dtz us1 o1 us2 o2 H. unfold dt_changed, dt_instant, dt_trunc. cbn [dt_us dt_off].
  rewrite H, Z.eqb_refl. reflexivity.
Qed.

(* a naive datetime is the same wall-clock reading in default_timezone, whatever the truncation *)
Theorem dt_naive_is_default_zone : forall t dtz us,
  dt_changed t dtz (mkDt us None) (mkDt us (Some dtz)) = false.
Proof. intros. unfold dt_changed, dt_instant. cbn [dt_us dt_off]. rewrite Z.eqb_refl. reflexivity. Qed.

(* truncate_datetime ignores what is below the unit - for two readings in the same zone *)
Theorem dt_trunc_same_bucket : forall u dtz us1 us2 o,
  us1 / unit_us u = us2 / unit_us u ->
  dt_changed (Some u) dtz (mkDt us1 o) (mkDt us2 o) = false.
Proof.
  intros u dtz us1 us2 o H. unfold dt_changed, dt_instant, dt_trunc. cbn [dt_us dt_off].
  assert (unit_us u <> 0) as Hu by (destruct u; cbn; lia).
  assert (us1 - us1 mod unit_us u = us2 - us2 mod unit_us u) as E.
  { rewrite (Z.mod_eq us1 _ Hu), (Z.mod_eq us2 _ Hu), H. lia. }
  rewrite E, Z.eqb_refl. reflexivity.
Qed.

(* ... but NOT for two renderings of one instant in different zones: 12:40:27+02:00 and 16:25:27+05:45 *)
Theorem dt_trunc_before_tz_refuted :
  exists a b, dt_instant None 0 a = dt_instant None 0 b /\
              dt_changed None 0 a b = false /\ dt_changed (Some UHour) 0 a b = true.
Proof.
  exists (mkDt 45627000000 (Some 120)), (mkDt 59127000000 (Some 345)).
  repeat split; reflexivity.
Qed.
